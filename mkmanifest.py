#!/usr/bin/env python3
"""Regenerates MANIFEST.json from the table below (keeps it schema-valid)."""
import json, os
HERE = os.path.dirname(os.path.abspath(__file__))
ALL = ["C%02d" % i for i in range(1, 21)]

NOTE = ("Trusted: Coq 8.16.1 kernel + vm_compute (no native_compute); no axioms declared (Print Assumptions per theorem in the evidence); "
        "the hand-written Gallina model is tied to /repo only by the per-run correspondence check (Go harness built from the working tree with -tags verif vs the model extracted with ExtrOcamlBasic); "
        "generator coverage bounds the tie. ")

CHECKS = {
 "C01": dict(
   cat="proof",
   text="Theorems (Props/C01.v, closed): for the PAR2 coder of the model over ANY slice and block counts within the format's limits, any subset of found slices and any subset of surviving recovery blocks (a table indexed by exponent with holes, as LoadParityData builds it), reconstruction - at the matrix level and at the level of the decoder's byte slices (repair_shards, with and without double-check) - returns EXACTLY the original slices, or not-enough-parity (exactly when blocks < missing slices), or the singular error; never a panic, never success with other bytes. Together with Props/C16.v (every cleanly present slice is found at any offset) and Props/C02.v (only data matching both recorded hashes and the length is written, and listed) this is the property; the composition of the three over the I/O layer is NOT one theorem - it is covered by the correspondence check. "
        "Tied to the code on every run: Create, Verify and Repair of gopar (in memory through the verif hook and on real directories through the exported API) vs the extracted model on ~560 damaged states: delete/overwrite/flip/insert/cut/truncate/append/strip zeros/empty/swap/move-over and pairs, random subsets of recovery files dropped, >256 slices, >16 KiB files, duplicate-slice content, a constructed singular-leading-minor system needing row exchanges, double-check on/off; predicate on the implementation alone: success => all files byte-identical, within capacity => success.",
   technique="Rocq proof: reconstruction exactness from Gauss-Jordan uniqueness (C11/C07) lifted to the decoder's shard table; differential correspondence check of the whole Create/Verify/Repair pipeline against the extracted model",
   design="6/C01", note=NOTE + "MD5 is a section variable (OCaml Digest at run time); 'byte-identical' in theorems is 'matches the recorded MD5, 16k-MD5 and length'."),
 "C02": dict(
   cat="proof",
   text="Theorems (Props/C02.v, closed): for EVERY file-system state, index path and fault schedule, Verify and the whole loading phase leave the file map unchanged and emit no write event; for every state (fault-free), Repair - success or failure, double-check on or off - yields the initial file map plus exactly the writes it lists, each to a protected file's path with data whose length, MD5 and first-16-KiB MD5 equal the archive's records. "
        "Tied to the code: ~440 Repair runs (half on real directories whose whole tree incl. bystander files, a foreign .par2 in a sub-directory and a file outside is snapshotted before/after) incl. beyond-capacity damage, damaged/truncated/garbage/foreign recovery files, stale recovery files of a sibling set with identical ids (wrong reconstruction stopped only by the whole-file hash), Create in memory and on disk; predicate: changed subset of repaired subset of protected, content = original. PAR1 part: see C04/C10 model (added when built).",
   technique="Rocq proof: I/O-trace framing invariants (loading preserves the file map; writes only behind both hash comparisons) by induction over the decoder's folds; snapshot-based differential correspondence check",
   design="6/C02", note=NOTE),
 "C03": dict(
   cat="proof",
   text="Theorems (Props/C03.v, closed): for every archive state, Verify reports 'no repair needed' only if every protected file is present with the recorded length, MD5 and 16k-MD5; usable+unusable = number of protected slices; the usable recovery-block count = number of distinct exponents among the loaded intact recovery packets; possible <=> unusable <= usable blocks; Verify never panics (any state, any fault schedule); COMPLETE: if every protected file is present with content consistent with the archive (length, hashes, slice checksum list; distinct ids) Verify counts no unusable slice, no misplaced file and needs no repair - for every archive, slice size and content incl. duplicate slices. Per-slice soundness is the scan theorem of Props/C16.v. "
        "Tied to the code on ~1100 states incl., for every file of every set, the patterns that leave every slice findable while the file is wrong (front insertion, appended garbage, trailing zeros lost/added, swapped files) and CRC-preserving corruption (only MD5 distinguishes); independent content-search oracles for soundness/completeness. The pinned tree violated clause (a): fixed in /repo (see known_findings.json).",
   technique="Rocq proof: flag/shard-table invariants of the loading fold + scan soundness/completeness; differential correspondence check with separating damage patterns",
   design="6/C03", note=NOTE),
 "C05": dict(
   cat="proof",
   text="The property predicate is an executable specification-side reader written in Gallina from the PAR 2.0 text (Model/Par2Spec.v valid_set: framing, lengths, packet MD5s, set id, ascending file ids, file/16k hashes, slice MD5/CRC32 incl. padding, creator packet, recovery block e = sum_i slice_i*c_i^e with the specification's constants and reduced carry-less products - never gopar's tables -, exponents 0..n-1 exactly once), extracted and run on the files gopar's Create wrote. Theorems (Props/C05.v): the writer model's framing round trip, padding, volume layout covering every block exactly once for every n, sorted permutation of ids, each recovery block of the writer model = the specification's sum, and END TO END: for every input set the writer accepts, Verify on the written directory succeeds, needs no repair and finds all n blocks (reader and writer agree on framing, bodies, ids, hashes, checksums, layout). Not a theorem: that the independent validator valid_set accepts the model writer for all inputs (evaluated per generated set). "
        "Tied to the code: ~30 sets per run (sub-directory names, name lengths not divisible by 4, sizes around the slice size and 16384, block counts 1..300 incl. powers of two, >256 slices, 300-byte names, 12 files, in memory and on disk): implementation output must be accepted by valid_set and equal the model writer byte for byte; inputs Create must refuse.",
   technique="Rocq: executable specification validator (extracted) as oracle + writer-model theorems; byte-exact differential correspondence check",
   design="6/C05", note=NOTE),
 "C16": dict(
   cat="proof",
   text="Theorems (Props/C16.v, closed): the rolling CRC-32 update of crc32Window is exact for EVERY window size >= 4 and every content (update(crc(a[0:n]),a[0],a[n]) = crc(a[1:n+1]), incl. the table construction from 8 base CRCs and the parity correction); window size < 4 panics; the scan that rolls the checksum equals the scan that recomputes it; FOUND-IF-NOT-SHADOWED: any position whose zero-padded window matches a registered checksum pair, with no matching window starting within S bytes before it, is a hit credited to every registered location; soundness of hits; an intact file yields hits at 0,S,2S,.. and no miss. "
        "Tied to the code: for slice sizes 4, 8, 12 (64 sampled) x lengths m*S+{0,1,S-1} x content {random, low-entropy, duplicate slices}: EVERY edit position x insertion/deletion lengths {1,2,S-1,S,S+1,2S+3} (~9900 Verify runs) vs the model, a content-blind oracle for random content, and sampled Repairs with exactly as many blocks as unusable slices.",
   technique="Rocq proof: linearity of the bitwise CRC register (rolling identity for all lengths) + induction over the greedy scan; exhaustive edit-position differential correspondence check",
   design="6/C16", note=NOTE + "hash/crc32's IEEETable is modelled as the 8-fold register shift (its definition)."),
 "C06": dict(
   cat="proof",
   text="Theorems (Props/C06.v, closed; md5's 16-byte result length is an explicit premise): the byte-level packet loop of the reader model on any back-to-back sequence of well-formed packets is the fold of the per-packet step over the packets of the expected recovery set (others are skipped wherever they stand); ORDER AND DUPLICATION DO NOT MATTER - two files made of the same SET of packets, in any order, with any multiplicities and any interleaved foreign-set or unknown-type packets, load to observationally equivalent states (same main packet, file descriptions, checksum lists, recovery block per exponent), for volumes and for the index file; the usable-block count = number of distinct exponents loaded, however numbered and distributed; volume discovery matches prefix and suffix literally. "
        "Tied to the code: sets written by an independent Python PAR 2.0 writer (from the specification; byte-identical to gopar in the canonical layout) in ~160 free layouts per run - permuted/duplicated packets, foreign and unknown packets, exponent sets {0},{5,17,1000},{2999},{300,2}.., 1-4 recovery files named base.<anything>.par2, base names with [ ] * ? \\ { and spaces on real directories, sub-directory names - x damage; predicate: all blocks found, Repair restores; impl = model. The pinned tree failed for glob metacharacters: fixed in /repo.",
   technique="Rocq proof: membership characterisation of the packet-loop fold (order/duplication invariance) + distinct-exponent counting; independent-writer layout-randomised correspondence check",
   design="6/C06", note=NOTE),
 "C13": dict(
   cat="proof",
   text="Theorems (Props/C13.v, closed): over ALL file-system states (every damaged, truncated, emptied, garbage, deleted or half-written archive is one) and all fault schedules, the PAR2 Verify AND Repair models never panic (incl. the coder path: operands of the row reduction are well-dimensioned for every shard table, reassembly never slices out of range); 'no repair needed' implies all protected files match the recorded length and hashes; Repair changes only protected paths and only by completed writes of data matching both recorded hashes; the PAR1 Verify and Repair models never panic either; PAR1 Verify is pure and PAR1 Repair writes only verified data. "
        "Tied to the code by an ENUMERATED grid (~9500 cases per run): truncation at every packet boundary, every byte of every packet header (every byte of the index) and sampled payload offsets; every bit of magic/length and two bits per byte of the other header fields of the first packet of each type; emptied/garbage/appended/deleted files, every subset of deleted archive files, every prefix of Create's write sequence with the last file torn at and inside packet boundaries; data intact or one file missing; Verify+Repair under an address-space limit with allocation measured; predicates: no crash, usable <= present, clean => intact, only originals written; impl = model. Four crashes of the pinned tree found this way were fixed in /repo.",
   technique="Rocq proof: no-panic and truthfulness theorems quantified over all file-system states; enumerated truncation/bit-flip/interrupted-write grid as correspondence check",
   design="6/C13", note=NOTE),
 "C19": dict(
   cat="proof",
   text="Theorems (Props/C19.v, closed): for every archive state the PAR2 Verify model never panics and Repair never writes data that fails the archive's own file hashes, length included (C02's theorem). PAR2 Repair never panics for any archive, state and schedule. PAR1 Verify and Repair never panic either. The allocation bound is measured, not proved. "
        "Tied to the code by an ENUMERATED re-checksummed grid (~580 cases): an independent writer emits sets whose declared fields are overridden BEFORE ids, set id and packet hashes are computed - slice size and recovery count at boundary values up to 2^64-1 (with and without consistent checksum lists), unsorted/duplicate/unknown ids, truncated main body, file lengths at boundaries and slice multiples, wrong hashes, hostile names, checksum lists too short/long, exponents 0..65536/2^31/2^32-1, wrong block sizes, duplicate/wrong recovery data, recovery packet in the index, removal/duplication of every packet type (thorough: pairs) x four data states; no crash, bounded allocation (bytes allocated measured per case), nothing but protected content written; impl = model. Five crashes of the pinned tree were fixed; the coder sized by the highest exponent is a recorded known finding.",
   technique="Rocq proof: hash-guarded writes for all states; enumerated re-checksummed field-boundary grid with allocation measurement as correspondence check",
   design="6/C19", note=NOTE + "Exponents above 4000 and accepted slice sizes above 64 KiB run on the implementation only (the extracted model's list-based tables make them too slow)."),
 "C04": dict(
   cat="proof",
   text="Theorems (Props/C04.v, closed): the PAR1 Reed-Solomon code of the model (GF(2^8) mod 0x11D, klauspost/reedsolomon's PAR1 matrix and Reconstruct semantics) reconstructs EXACTLY the original files and volumes from every surviving subset for every file count, volume count and content, the only failures being too-few-shards (exactly when fewer than d of the d+p shards survive) and the PAR1 matrix's singular combinations - never a panic; for every archive state, Verify counting no unusable file implies every saved file is present with its recorded hashes, Verify is pure, Repair writes only data of the entry's length matching both hashes to Dir(index)/name and lists exactly those. The composition over the I/O layer is covered by the correspondence check. "
        "Tied to the code: for sets up to 4+3 EVERY subset of lost (deleted/flipped/truncated/appended) data files x lost volumes, sampled subsets for sets up to 12 files / 99 volumes with Unicode names and >16 KiB files, Verify with full parity check, Repair with/without double-check, part on real directories; counts = truth, untouched set clean, repair restores within capacity. Two panics of the pinned tree (no volume left; short parity data) were fixed.",
   technique="Rocq proof: GF(2^8) field laws by exhaustive sweeps + Gauss-Jordan inverse correctness (C11's generic development) => reconstruction exactness; exhaustive-subset differential correspondence check",
   design="6/C04", note=NOTE + "klauspost/reedsolomon is modelled (matrix, choice of the first d valid shards, error conditions), not verified."),
 "C10": dict(
   cat="proof",
   text="Theorems (Props/C10.v, closed; md5 length as premise): parity volume v, byte k = sum over files i (from 1) of i^(v-1)*file_i[k] in GF(2^8) mod 0x11D (field laws proved exhaustively); every volume the writer model emits - any set hash, volume number, entries with any status bits (saved or not), any trailing comment/data - is read back field for field by the reader model with the set hash over the SAVED entries only; UTF-16 surrogate example. "
        "Tied to the code in both directions: (writer) every file gopar's Create writes is judged by an independent Python validator from the PAR 1.0 text (layout, offsets, sizes, control/set/file/16k hashes, UTF-16LE names incl. surrogate pairs, parity formula) and equals the model's bytes; (reader) sets from an independent writer with ASCII/UTF-16/binary comments and non-saved entries at sampled placements (their files present, absent or different), damage within and beyond capacity: counts concern the saved entries, Repair restores them and touches nothing else. The pinned tree failed the reader direction (wrong entry used with non-saved entries): fixed.",
   technique="Rocq proof: format round trip + parity formula over GF(2^8); independent writer/validator correspondence check in both directions",
   design="6/C04+C10", note=NOTE),
 "C14": dict(
   cat="proof",
   text="Theorems (Props/C14.v, closed): over ANY finite history of external modifications, Verify and Repair operations (PAR2 and PAR1): Verify is the identity on states; every Repair step leaves each path as it was or writes content that matches the archive's recorded length and hashes; hence by induction over the history a path not touched externally either keeps its initial content or holds archive-matching content (damage never grows). NOT proved: that a successful Repair leaves Verify clean and a further Repair idle (needs 'intact => all slices found at home', the converse of C03a); that half is decided by the closure exploration. "
        "Tied to the code by exploring the reachable state graph TO CLOSURE: the event alphabet (each file original/absent/flipped/prepended/cut/other file's content; each recovery file present or not) spans a finite space (PAR2 144 states, PAR1 256): every state is visited, Verify, Repair and Repair+double-check are run on implementation and model, successors are looked up in the same table: no damage growth, success => originals => clean Verify => idle Repair, convergence once recovery files return.",
   technique="Rocq proof: one-step monotonicity lifted by induction over histories; exhaustive closure of the finite state graph as correspondence check",
   design="6/C14", note=NOTE),
 "C15": dict(
   cat="proof",
   text="Theorems (Props/C15.v, closed): for the model of Go's path.Clean/IsAbs and filepath.Join/Dir as gopar calls them, EVERY name accepted by checkFilename - any spelling - cleans to a non-empty list of ordinary components (no '..', no '.', no empty component), and joined below ANY directory (rooted or not, itself containing '..' or not) leaves the directory's components untouched: the path read or written is strictly inside the index file's directory tree; rejected spellings shown; PAR1: every write event of Repair, for any archive and any faults, targets Join(Dir(index), n) with n its own base name, and except for the degenerate names '.', '/', '..' (whose read fails before any write) the path is the directory's components plus exactly one ordinary component. Create's containment check is covered by the correspondence check. "
        "Tied to the code: the path model vs Go's functions and gopar's checkFilename on EVERY string over {a . /} up to length 7 (21 000 cases) plus unicode/NUL/backslash; fully repairable PAR2 and PAR1 archives by independent writers whose declared names come from a 28-spelling traversal corpus at every position, declared files missing, on a real directory seven levels deep with canaries at every level: nothing outside is created or modified; Create refuses outside inputs.",
   technique="Rocq proof: stack-machine characterisation of Clean + no-underflow lemma for accepted names; exhaustive small-alphabet path correspondence + canary-tree end-to-end check",
   design="6/C15", note=NOTE + "Lexical only, as the code is: symlinks and case-insensitive file systems are not modelled."),
 "C17": dict(
   cat="proof",
   text="Theorems (Props/C17.v, closed): the PAR2 Create model's output files are the same for every permutation of the input list (distinct file ids); the model has no goroutine parameter or hidden state and uses the current directory only to resolve spellings to absolute paths (spelling classes shown). Goroutine independence of the coding itself is C12. "
        "Tied to the code: library Create under ALL permutations of 3-4 inputs (sampled for 6), goroutines 1/2/7/32, repetition, real directory; the par binary from current directory {set, parent, unrelated} x spelling {relative, absolute, ./x, doubled separators, a/../a/x, /abs/./x} for PAR2 and PAR1: every variant byte-identical to the reference run and to the model.",
   technique="Rocq proof: uniqueness of the sorted recovery set + lookup-by-id congruence (order independence); permutation/cwd/spelling-exhaustive correspondence check",
   design="6/C17", note=NOTE),
 "C18": dict(
   cat="proof",
   text="Theorems (Props/C18.v, closed): on the model with a fault schedule indexed by I/O call number: an operation (Create, Verify, Repair) that returns success was hit by no scheduled fault (a missing file is a read result, not a fault); whatever the faults, a run changes only paths it issued write calls for; a path is listed as repaired only if its write completed; Verify leaves the state unchanged under any faults, so its rerun is the fault-free run; the same reporting and footprint theorems for PAR1. The rerun clause for Repair is not a theorem: it fails for in-place rewriting (recorded known finding) and is decided by the check. "
        "Tied to the code by FAULT ENUMERATION: for PAR2 and PAR1, Create/Verify/Repair on six archive states: the fault-free I/O trace is recorded, then a fault is injected at EVERY call index (every read, the listing, every write): error without effect, and for writes also after 0/1/7 bytes or all data; then cleared and rerun (~1100 faulted runs + reruns per run; thorough: pairs); error reported, nothing else altered, repaired list = completed writes, rerun = fault-free result; impl = model on every faulted run and rerun.",
   technique="Rocq proof: fault-propagation and write-footprint invariants over the I/O-trace model; exhaustive single-fault injection at every I/O call index as correspondence check",
   design="6/C18", note=NOTE + "OS write atomicity is modelled as the two fault kinds the property names (no effect / torn prefix)."),
 "C20": dict(
   cat="proof",
   text="Theorems (Props/C20.v, closed): for the model of cmd/par/main.go: the verify mapping (needed&possible -> 1, needed&impossible -> 2, else 0), the repair mapping for PAR1 and PAR2 alike (0 iff the library succeeded, 2 for not-enough-parity, non-zero otherwise), usage errors -> 3. 'exit 0 => the operation fully succeeded' then follows from the library theorems (C03a for verify, C01/C02 for repair) - composed by the check, not as one theorem. "
        "Tied to the code: the real par binary built from the tree, ~420 runs in scratch directories: {PAR1,PAR2} x {v,verify,r,repair,upper-case,-doublecheck,-a,-g} x state {intact, repairable, unrepairable, damaged/intact without recovery files, damaged index, missing index, swapped} x cwd {set, parent, unrelated} x {absolute, relative}; create incl. bad slice size/unknown extension/missing input; 22 usage-error lines; exit status and directory tree vs cli_run; any panic text fails. The pinned tree exited 7 instead of 2 for unrepairable PAR1 sets: fixed.",
   technique="Rocq model of flag parsing/dispatch/status mapping with mapping theorems; binary-level state x invocation grid as correspondence check",
   design="6/C20", note=NOTE + "Integer flags are modelled for decimal spellings only."),
 "C07": dict(
   cat="proof",
   text="Theorems (Props/C07.v, closed): for the model of rsec16 (Cauchy and PAR2-Vandermonde parity matrices, GenerateParity, ReconstructData with the lowest-numbered available parity rows, augmented-matrix row reduction from C11) and ANY well-formed parity matrix, any data, any erasure masks: the result is the original data, or not-enough-parity, or singular - never a panic and never success with different data; not-enough-parity exactly when available parity < missing data; nothing missing => Ok without touching parity; both constructors yield well-formed matrices within the documented limits. "
        "CAUCHY MDS is proved: every square submatrix of the Cauchy parity matrix is non-singular for every code with d+p <= 65535 (generalised-Cauchy elimination step + induction over an abstract field), hence the Cauchy coder restores the data for EVERY erasure pattern within capability; for any matrix the singular error is returned only for a system with a non-trivial kernel. For PAR2-Vandermonde, singular minors are constructed from the multiplicative orders of the constants and must yield an error in both model and code; systems with a singular leading minor that need row exchanges are constructed too. Tied to the code on every run; supplied shards re-read after each call.",
   technique="Rocq proof: reconstruction soundness from the unique-solution theorem of Gauss-Jordan (C11) + Cauchy MDS by generalised-Cauchy elimination and induction; exhaustive small-code differential correspondence check",
   design="6/C07", note=NOTE + "Go applies the matrix through the bulk kernels (C09) on bytes, in parallel chunks (C12); the model applies fmul word-wise."),
 "C12": dict(
   cat="proof",
   text="Theorems (Props/C12.v, closed): for the model of rsec16/matrix.go - calculateParallelParams (with Go's truncating / and %), the chunk each goroutine receives, the kernel calls it performs, and a small-step semantics over the shared output - for EVERY length, goroutine count and EVERY schedule (any trace whose projection on each worker is that worker's program): each output cell ends with the value of single-threaded execution regardless of the buffers' previous content; cells outside the outputs are untouched; the chunks tile [0,total) (each index in exactly one chunk, worker count between 1 and g, chunk length a positive multiple of 16); kernel calls of two different workers never touch the same output cell (model-level race freedom); and that value is the matrix-product entry by which GenerateParity/ReconstructData of the coder model (C07) are defined, which has no goroutine parameter. "
        "Tied to the code: calculateParallelParams compared on an exhaustive grid; applyMatrixSingle/ParallelData/ParallelOut (hook) compared with the model on lengths 0..35 words and larger, g in 1..1000, GOMAXPROCS 1/2/16, canaries around garbage-filled outputs. Data-race freedom of the Go code itself is runtime evidence only: the same cases run under go build -race.",
   technique="Rocq proof: partition arithmetic (lia/nia) + ownership of cells + projection-based schedule independence; exhaustive-grid and race-detector correspondence check",
   design="6/C12", note=NOTE + "Not modelled: the Go scheduler and memory model (sync.WaitGroup gives the happens-before edge at the join); the race detector run is evidence, not proof."),
 "C08": dict(
   cat="proof",
   text="Theorems (Props/C08.v, closed under the global context): the log/exp-table implementation model of gf2p16/t.go (T_Times, T_Inverse, T_Div, T_Pow, init without panic) equals reduced carry-less arithmetic modulo 0x1100B for ALL operands (all 2^32 pairs, all exponents < 2^32), plus the field laws. "
        "The model is tied to the code on every run by differential execution (all 65536 inverses, ~80 full 65536-entry rows of Times and Div incl. constant/inverse pairs whose logs sum to 65535, Pow over exponent classes, 20k structured 64-bit polynomials); thorough sweeps all 2^32 pairs.",
   technique="Rocq proof: bilinearity + basis lifting + exp-homomorphism over 65535-entry table sweeps (vm_compute); differential correspondence check against extracted model",
   design="6/C08", note=NOTE + "Modelled, not verified: Go's uint16/uint64 arithmetic as written in Model/GF16.v."),
 "C09": dict(
   cat="proof",
   text="Theorems (Props/C09.v, closed): for every constant, every even-length buffer and every path of the kernel model (portable Go loops, scalar assembly do-while loop with the element count the assembly computes, SSSE3 nibble-table block loop, Go dispatch incl. the 32-byte split and scalar tail) the output equals c*in[i] (xor out[i]) on LE 16-bit words, the loops' byte extents stay within the buffers, and mismatched lengths panic. "
        "Tied to the code every run on all paths (hook switches SSSE3 off; 386 build reaches the !amd64 file): buffers end at / start after PROT_NONE pages, canaries at up to 64 alignments, lengths 0..130 and around 2^16 and 2^17, every 16-bit word value per path. Machine-level memory accesses of the assembly are observed, not proved.",
   technique="Rocq proof: table decomposition by linearity of fmul + loop/dispatch index arithmetic; guard-page differential correspondence check on all dispatch paths",
   design="6/C09", note=NOTE + "SSSE3 lane shuffles are modelled word-wise (each output word from the same-index input word); the byte permutations of STANDARD_TO_ALT/ALT_TO_STANDARD are covered by the differential check only."),
 "C11": dict(
   cat="proof",
   text="Theorems (Props/C11.v, closed): for the Gauss-Jordan model that follows gf2p16/matrix.go step by step (first non-zero pivot, swap, scale, eliminate below, second pass above) and every well-formed M, N of every dimension: RowReduceForInverse returns the UNIQUE X with M X = N or the singular error and never panics; Inverse returns a two-sided inverse; success implies M is injective (non-singular); the Ok/Err outcome depends on M only; Times is the row-by-column product and is associative. Proof by the invariant 'row operations preserve the solution set' plus the echelon/reduced shape invariants, over an abstract characteristic-2 field instantiated with C08's field. "
        "The singular error is returned EXACTLY when M has a non-trivial kernel vector (both directions, for row reduction and inversion; the kernel vector is constructed by back substitution from the failing echelon prefix). Tied to the code by structured matrices of every dimension 1..40 (thorough ..300); operands re-read after each call.",
   technique="Rocq proof: solution-set invariant under row operations + echelon shape invariants by induction; differential correspondence check with structured/rank-deficient generators",
   design="6/C11", note=NOTE + "Row scaling/addition in Go go through the bulk kernels (C09); the model applies fmul element-wise."),
}

def main():
    checks = []
    for pid in ALL:
        if pid not in CHECKS:
            continue
        c = CHECKS[pid]
        checks.append({
            "property_id": pid,
            "quick_cmd": "./check %s --tier quick" % pid,
            "thorough_cmd": "./check %s --tier thorough" % pid,
            "evidence_file": "/verif/evidence/%s.json" % pid,
            "replay_cmd_template": "./check %s --replay {path}" % pid,
            "engine": "rocq-model+correspondence",
            "level_claimed": {"category": c["cat"], "text": c["text"], "design_ref": "DESIGN.md §" + c["design"]},
            "level_note": c["note"],
            "technique": c["technique"],
        })
    na = [{"property_id": p, "reason": "not claimed"} for p in ALL if p not in CHECKS]
    m = {
        "version": 1,
        "setup_cmd": "./setup.sh",
        "hooks": {
            "guard": "verif",
            "enable": "go build -tags verif (the harness module replaces github.com/akalin/gopar by /repo)",
            "baseline_off_cmd": "cd /repo && GOFLAGS=-mod=mod GOPROXY=off GOSUMDB=off go test -json -vet=off -count=1 -timeout 25m ./...",
            "source_commits": HOOK_COMMITS,
            "add_only": True,
        },
        "engines": [{"name": "rocq-model+correspondence", "path": "/verif/check",
                     "serves_properties": [c["property_id"] for c in checks],
                     "kind_free_text": "Coq 8.16.1 development (coq/: Model, Proofs, Props) + extracted OCaml model (ocaml/) + Go harness (harness/) + python orchestrator (check, vlib.py, checks/)"}],
        "checks": checks,
        "not_applicable": na,
        "notes": "See DESIGN.md. known_findings.json lists recorded findings and fixed defects.",
    }
    json.dump(m, open(os.path.join(HERE, "MANIFEST.json"), "w"), indent=1)

HOOK_COMMITS = ['e2ca3fb', '4a4f2dc', 'ef2c561', '945c7ec', '3f6b88d', '0afa1b8']
if __name__ == "__main__":
    main()
