package main

import (
	"fmt"

	"github.com/akalin/gopar/rsec16"
)

func newCoder(kind string, d, p, g int) (rsec16.Coder, error) {
	if kind == "cauchy" {
		return rsec16.NewCoderCauchy(d, p, g)
	}
	return rsec16.NewCoderPAR2Vandermonde(d, p, g)
}

func digestShards(s [][]byte) int {
	h := 0
	for _, sh := range s {
		for _, b := range sh {
			h = dgStep(h, int(b))
		}
		h = dgStep(h, 256)
	}
	return h
}

// c07 new <kind> <d> <p> <g>
// c07 rt <kind> <d> <p> <g> <words> <seed> <kdmask> <kpmask>
func c07(w []string) string {
	return guard(func() string {
		switch w[0] {
		case "new":
			_, err := newCoder(w[1], atoi(w[2]), atoi(w[3]), atoi(w[4]))
			if err != nil {
				return "err"
			}
			return "ok"
		case "rt":
			kind := w[1]
			d, p, g, words := atoi(w[2]), atoi(w[3]), atoi(w[4]), atoi(w[5])
			seed := uint64(atoi(w[6]))
			kd, kp := w[7], w[8]
			coder, err := newCoder(kind, d, p, g)
			if err != nil {
				return "err new"
			}
			data := make([][]byte, d)
			orig := make([][]byte, d)
			for i := range data {
				data[i] = genBytes("rand", seed+uint64(i), 2*words)
				orig[i] = append([]byte(nil), data[i]...)
			}
			parity := coder.GenerateParity(data)
			for i := range data {
				if !sameBytes(data[i], orig[i]) {
					return "datamod-by-generate"
				}
			}
			pd := digestShards(parity)
			in := make([][]byte, d)
			keepPtr := make([][]byte, d)
			for i := range in {
				if kd[i] == '1' {
					in[i] = data[i]
					keepPtr[i] = data[i]
				}
			}
			par := make([][]byte, p)
			parCopy := make([][]byte, p)
			for i := range par {
				if kp[i] == '1' {
					par[i] = parity[i]
					parCopy[i] = append([]byte(nil), parity[i]...)
				}
			}
			err = coder.ReconstructData(in, par)
			// supplied shards must never be altered, whatever the outcome
			for i := range in {
				if kd[i] == '1' && !sameBytes(data[i], orig[i]) {
					return "supplied-data-modified"
				}
			}
			for i := range par {
				if kp[i] == '1' && !sameBytes(parity[i], parCopy[i]) {
					return "supplied-parity-modified"
				}
			}
			if err != nil {
				if _, ok := err.(rsec16.NotEnoughParityShardsError); ok {
					return fmt.Sprintf("err notenough %d", pd)
				}
				return fmt.Sprintf("err other %d", pd)
			}
			for i := range in {
				if in[i] == nil {
					return "ok-but-nil-shard"
				}
			}
			exact := "exact"
			for i := range in {
				if !sameBytes(in[i], orig[i]) {
					exact = "WRONG"
				}
			}
			return fmt.Sprintf("ok %d %d %s", pd, digestShards(in), exact)
		case "rt2":
			// the SAME coder object is used for two reconstructions with the same missing data shards but
			// different available parity shards (a coder must not carry state from one call to the next)
			kind := w[1]
			d, p, g, words := atoi(w[2]), atoi(w[3]), atoi(w[4]), atoi(w[5])
			seed := uint64(atoi(w[6]))
			kd := w[7]
			coder, err := newCoder(kind, d, p, g)
			if err != nil {
				return "err new"
			}
			orig := make([][]byte, d)
			for i := range orig {
				orig[i] = genBytes("rand", seed+uint64(i), 2*words)
			}
			parity := coder.GenerateParity(orig)
			res := ""
			for _, kp := range w[8:] {
				in := make([][]byte, d)
				for i := range in {
					if kd[i] == '1' {
						in[i] = append([]byte(nil), orig[i]...)
					}
				}
				par := make([][]byte, p)
				for i := range par {
					if kp[i] == '1' {
						par[i] = append([]byte(nil), parity[i]...)
					}
				}
				err = coder.ReconstructData(in, par)
				switch {
				case err == nil:
					exact := "exact"
					for i := range in {
						if !sameBytes(in[i], orig[i]) {
							exact = "WRONG"
						}
					}
					res += " ok-" + exact
				default:
					if _, ok := err.(rsec16.NotEnoughParityShardsError); ok {
						res += " notenough"
					} else {
						res += " other"
					}
				}
			}
			return "rt2" + res
		}
		panic("c07: bad command")
	})
}

func init() { extraDispatch["c07"] = c07 }
