package main

import (
	"fmt"
	"strconv"

	"github.com/akalin/gopar/gf2"
	"github.com/akalin/gopar/gf2p16"
)

func atoi(s string) int {
	n, err := strconv.ParseInt(s, 10, 64)
	if err != nil {
		panic(err)
	}
	return int(n)
}

func hex64(s string) uint64 {
	n, err := strconv.ParseUint(s, 16, 64)
	if err != nil {
		panic(err)
	}
	return n
}

// guard runs f and maps a Go panic to the string "panic".
func guard(f func() string) (res string) {
	defer func() {
		if r := recover(); r != nil {
			res = "panic"
		}
	}()
	return f()
}

func c08(w []string) string {
	switch w[0] {
	case "times":
		a, b := gf2p16.T(atoi(w[1])), gf2p16.T(atoi(w[2]))
		return fmt.Sprint(int(a.Times(b)))
	case "times_row":
		a := gf2p16.T(atoi(w[1]))
		h := 0
		for b := 0; b < 65536; b++ {
			h = dgStep(h, int(a.Times(gf2p16.T(b))))
		}
		return fmt.Sprint(h)
	case "div":
		a, b := gf2p16.T(atoi(w[1])), gf2p16.T(atoi(w[2]))
		return guard(func() string { return fmt.Sprint(int(a.Div(b))) })
	case "div_row":
		b := gf2p16.T(atoi(w[1]))
		return guard(func() string {
			h := 0
			for a := 0; a < 65536; a++ {
				h = dgStep(h, int(gf2p16.T(a).Div(b)))
			}
			return fmt.Sprint(h)
		})
	case "rowspec":
		// thorough tier: one whole row of Times and of Div against the specification computed HERE, bit by bit
		// (shift-and-xor product reduced modulo 0x1100B; division through the product with the inverse found by search
		// in the row itself), independent of gopar's tables and of the Coq model
		a := atoi(w[1])
		return guard(func() string {
			inv := make([]int, 65536) // inv[x*a] = x  (a != 0): x*a runs through the whole field
			for b := 0; b < 65536; b++ {
				s := specMul(a, b)
				if g := int(gf2p16.T(a).Times(gf2p16.T(b))); g != s {
					return fmt.Sprintf("bad times %d*%d impl=%d spec=%d", a, b, g, s)
				}
				inv[s] = b
			}
			if a != 0 {
				// c / a is the b with b*a = c
				for c := 0; c < 65536; c++ {
					if g := int(gf2p16.T(c).Div(gf2p16.T(a))); g != inv[c] {
						return fmt.Sprintf("bad div %d/%d impl=%d spec=%d", c, a, g, inv[c])
					}
				}
			}
			return "ok"
		})
	case "inv":
		a := gf2p16.T(atoi(w[1]))
		return guard(func() string { return fmt.Sprint(int(a.Inverse())) })
	case "pow":
		a := gf2p16.T(atoi(w[1]))
		p := uint32(atoi(w[2]))
		return fmt.Sprint(int(a.Pow(p)))
	case "ptimes":
		p, q := gf2.Poly64(hex64(w[1])), gf2.Poly64(hex64(w[2]))
		return strconv.FormatUint(uint64(p.Times(q)), 16)
	case "pdiv":
		p, d := gf2.Poly64(hex64(w[1])), gf2.Poly64(hex64(w[2]))
		return guard(func() string {
			q, r := p.Div(d)
			return strconv.FormatUint(uint64(q), 16) + " " + strconv.FormatUint(uint64(r), 16)
		})
	}
	panic("c08: bad command")
}

// specMul is the reduced carry-less product in GF(2)[x]/(x^16+x^12+x^3+x+1), written from the definition
func specMul(a, b int) int {
	r := 0
	for b != 0 {
		if b&1 != 0 {
			r ^= a
		}
		b >>= 1
		a <<= 1
		if a&0x10000 != 0 {
			a ^= 0x1100B
		}
	}
	return r
}
