package main

import (
	"fmt"
	"strconv"

	"github.com/akalin/gopar/gf2"
	"github.com/akalin/gopar/gf2p16"
)

func atoi(s string) int {
	n, err := strconv.ParseInt(s, 10, 64)
	if err != nil {
		panic(err)
	}
	return int(n)
}

func hex64(s string) uint64 {
	n, err := strconv.ParseUint(s, 16, 64)
	if err != nil {
		panic(err)
	}
	return n
}

// guard runs f and maps a Go panic to the string "panic".
func guard(f func() string) (res string) {
	defer func() {
		if r := recover(); r != nil {
			res = "panic"
		}
	}()
	return f()
}

func c08(w []string) string {
	switch w[0] {
	case "times":
		a, b := gf2p16.T(atoi(w[1])), gf2p16.T(atoi(w[2]))
		return fmt.Sprint(int(a.Times(b)))
	case "times_row":
		a := gf2p16.T(atoi(w[1]))
		h := 0
		for b := 0; b < 65536; b++ {
			h = dgStep(h, int(a.Times(gf2p16.T(b))))
		}
		return fmt.Sprint(h)
	case "div":
		a, b := gf2p16.T(atoi(w[1])), gf2p16.T(atoi(w[2]))
		return guard(func() string { return fmt.Sprint(int(a.Div(b))) })
	case "div_row":
		b := gf2p16.T(atoi(w[1]))
		return guard(func() string {
			h := 0
			for a := 0; a < 65536; a++ {
				h = dgStep(h, int(gf2p16.T(a).Div(b)))
			}
			return fmt.Sprint(h)
		})
	case "inv":
		a := gf2p16.T(atoi(w[1]))
		return guard(func() string { return fmt.Sprint(int(a.Inverse())) })
	case "pow":
		a := gf2p16.T(atoi(w[1]))
		p := uint32(atoi(w[2]))
		return fmt.Sprint(int(a.Pow(p)))
	case "ptimes":
		p, q := gf2.Poly64(hex64(w[1])), gf2.Poly64(hex64(w[2]))
		return strconv.FormatUint(uint64(p.Times(q)), 16)
	case "pdiv":
		p, d := gf2.Poly64(hex64(w[1])), gf2.Poly64(hex64(w[2]))
		return guard(func() string {
			q, r := p.Div(d)
			return strconv.FormatUint(uint64(q), 16) + " " + strconv.FormatUint(uint64(r), 16)
		})
	}
	panic("c08: bad command")
}
