package main

import (
	"fmt"
	"io/ioutil"
	"os"
	"path/filepath"
	"runtime"
	"sort"
	"strings"

	"github.com/akalin/gopar/par2"
)

// realFS materialises the virtual tree under a fresh temporary directory so
// that the exported API (default file I/O, real directory listing) is exercised.
type realFS struct {
	root  string
	orig  map[string]string
	links map[string]string // symbolic links put there by the test: unchanged while they are the same link
}

func newRealFS(fs *faultFS) *realFS {
	root, err := ioutil.TempDir("", "vh-real-")
	if err != nil {
		panic(err)
	}
	r := &realFS{root: root, orig: map[string]string{}, links: map[string]string{}}
	for _, d := range fs.dirs {
		if err := os.MkdirAll(filepath.Join(root, d), 0700); err != nil {
			panic(err)
		}
	}
	for _, f := range fs.files {
		p := filepath.Join(root, f.path)
		if err := os.MkdirAll(filepath.Dir(p), 0700); err != nil {
			panic(err)
		}
		if strings.HasPrefix(string(f.data), "VHSYMLINK:") {
			// a symbolic link to a file in the same directory (relative target); what is "there" is the target's content
			target := strings.TrimPrefix(string(f.data), "VHSYMLINK:")
			if err := os.Symlink(target, p); err != nil {
				panic(err)
			}
			r.links[f.path] = target
			r.orig[f.path] = string(f.data)
			continue
		}
		if err := ioutil.WriteFile(p, f.data, 0600); err != nil {
			panic(err)
		}
		r.orig[f.path] = string(f.data)
	}
	// markers for the syscall-level footprint check (checks/osfoot.py runs the harness under strace): what the
	// operation itself does lies between these two failing stat calls
	os.Stat("/VH-MARK-BEGIN" + root)
	return r
}

func (r *realFS) close() { os.RemoveAll(r.root) }

func (r *realFS) virt(p string) string { return strings.TrimPrefix(p, r.root) }

// changedList walks the tree: files whose content differs from the initial state or are new; deleted files as "path:DELETED".
func (r *realFS) changedList() string {
	os.Stat("/VH-MARK-END" + r.root)
	var out []string
	seen := map[string]bool{}
	filepath.Walk(r.root, func(p string, info os.FileInfo, err error) error {
		if err != nil || info.IsDir() {
			return nil
		}
		v := r.virt(p)
		seen[v] = true
		if want, isLink := r.links[v]; isLink {
			if got, lerr := os.Readlink(p); lerr == nil && got == want {
				return nil
			}
		}
		b, _ := ioutil.ReadFile(p)
		if o, had := r.orig[v]; !had || o != string(b) {
			out = append(out, hx(v)+":"+hx(string(b)))
		}
		return nil
	})
	for v := range r.orig {
		if !seen[v] {
			out = append(out, hx(v)+":DELETED")
		}
	}
	sort.Strings(out)
	return strings.Join(out, ",")
}

func countsStr(c par2.ShardCounts) string {
	return fmt.Sprintf("%d,%d,%d,%d,%s", c.UsableDataShardCount, c.UnusableDataShardCount,
		c.UsableParityShardCount, c.UnusableParityShardCount, misplacedStr(c))
}

func isNotEnough2(err error) bool { return par2.RepairErrorMeansRepairNecessaryButNotPossible(err) }

// p2 <op> <mode> ...
func p2(w []string) string {
	if os.Getenv("VH_ALLOC") == "" {
		return p2run(w)
	}
	// report the bytes allocated while the operation ran (C13/C19: memory in proportion to the input)
	var m0, m1 runtime.MemStats
	runtime.ReadMemStats(&m0)
	res := p2run(w)
	runtime.ReadMemStats(&m1)
	return fmt.Sprintf("%s alloc=%d", res, m1.TotalAlloc-m0.TotalAlloc)
}

func p2run(w []string) string {
	return guard(func() string {
		op, mode := w[0], w[1]
		w = w[2:]
		switch op {
		case "create":
			parPath := unhex(w[0])
			slice, nparity, g, nf := atoi(w[1]), atoi(w[2]), atoi(w[3]), atoi(w[4])
			w = w[5:]
			files := make([]string, nf)
			for i := range files {
				files[i] = unhex(w[i])
			}
			fs, _ := parseFS(w[nf:])
			opts := par2.CreateOptions{SliceByteCount: slice, NumParityShards: nparity, NumGoroutines: g}
			if mode == "real" {
				r := newRealFS(fs)
				defer r.close()
				rf := make([]string, nf)
				for i := range files {
					rf[i] = filepath.Join(r.root, files[i])
				}
				err := par2.Create(filepath.Join(r.root, parPath), rf, opts)
				return fmt.Sprintf("%s counts=- repaired= trace= changed=%s", errClass(err, nil), r.changedList())
			}
			err := par2.VerifCreate(fs, parPath, files, opts)
			return fsResult(errClass(err, nil), "-", nil, fs)
		case "createseq":
			// several Creates in ONE process, each from its own current directory with paths relative to it:
			// nsteps, then per step  cwd par slice nparity g nf files..., then FS.  (State kept between calls -
			// a cached working directory, a table built once - is invisible to one call per process.)
			n := atoi(w[0])
			w = w[1:]
			type step struct {
				cwd, par string
				opts     par2.CreateOptions
				files    []string
			}
			steps := make([]step, n)
			for k := range steps {
				nf := atoi(w[5])
				st := step{cwd: unhex(w[0]), par: unhex(w[1]), opts: par2.CreateOptions{SliceByteCount: atoi(w[2]), NumParityShards: atoi(w[3]), NumGoroutines: atoi(w[4])}}
				for i := 0; i < nf; i++ {
					st.files = append(st.files, unhex(w[6+i]))
				}
				steps[k] = st
				w = w[6+nf:]
			}
			fs, _ := parseFS(w)
			if mode != "real" {
				panic("createseq: real mode only")
			}
			r := newRealFS(fs)
			defer r.close()
			wd0, _ := os.Getwd()
			defer os.Chdir(wd0)
			var cls []string
			for _, st := range steps {
				if err := os.Chdir(filepath.Join(r.root, st.cwd)); err != nil {
					panic(err)
				}
				cls = append(cls, errClass(par2.Create(st.par, st.files, st.opts), nil))
			}
			os.Chdir(wd0)
			return fmt.Sprintf("%s counts=- repaired= trace= changed=%s", strings.Join(cls, "|"), r.changedList())
		case "verify":
			indexPath := unhex(w[0])
			g := atoi(w[1])
			fs, _ := parseFS(w[2:])
			opts := par2.VerifyOptions{NumGoroutines: g}
			if mode == "real" {
				r := newRealFS(fs)
				defer r.close()
				res, err := par2.Verify(filepath.Join(r.root, indexPath), opts)
				cs := "-"
				if err == nil {
					cs = countsStr(res.ShardCounts)
				}
				return fmt.Sprintf("%s counts=%s repaired= trace= changed=%s", errClass(err, isNotEnough2), cs, r.changedList())
			}
			res, err := par2.VerifVerify(fs, indexPath, opts)
			cs := "-"
			if err == nil {
				cs = countsStr(res.ShardCounts)
			}
			return fsResult(errClass(err, isNotEnough2), cs, nil, fs)
		case "repair":
			indexPath := unhex(w[0])
			dbl, g := w[1] == "1", atoi(w[2])
			fs, _ := parseFS(w[3:])
			opts := par2.RepairOptions{DoubleCheck: dbl, NumGoroutines: g}
			if mode == "real" {
				r := newRealFS(fs)
				defer r.close()
				res, err := par2.Repair(filepath.Join(r.root, indexPath), opts)
				rp := make([]string, len(res.RepairedPaths))
				for i, p := range res.RepairedPaths {
					rp[i] = r.virt(p)
				}
				return fmt.Sprintf("%s counts=- repaired=%s trace= changed=%s", errClass(err, isNotEnough2), joinHex(rp, false), r.changedList())
			}
			res, err := par2.VerifRepair(fs, indexPath, opts)
			return fsResult(errClass(err, isNotEnough2), "-", res.RepairedPaths, fs)
		}
		panic("p2: bad op")
	})
}

func init() { extraDispatch["p2"] = p2 }

func b01(b bool) int {
	if b {
		return 1
	}
	return 0
}

// misplacedStr prints the count of files that need rewriting although all their
// slices are usable (field added by the C03 fix; "x" when the tree lacks it),
// then RepairNeeded and RepairPossible.
func misplacedStr(c par2.ShardCounts) string {
	m := "x"
	if f := reflectField(c, "MisplacedDataFileCount"); f >= 0 {
		m = fmt.Sprint(f)
	}
	return fmt.Sprintf("%s,%d,%d", m, b01(c.RepairNeeded()), b01(c.RepairPossible()))
}
