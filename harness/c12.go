package main

import (
	"fmt"

	"github.com/akalin/gopar/gf2p16"
	"github.com/akalin/gopar/rsec16"
)

// c12 params <total> <g> <min> <div>
// c12 apply <variant> <rows> <nin> <words> <g> <seed>
func c12(w []string) string {
	return guard(func() string {
		switch w[0] {
		case "defaultg":
			// the value used when the goroutine option is left at its default
			return fmt.Sprintf("%d", rsec16.DefaultNumGoroutines())
		case "params":
			per, g := rsec16.VerifParallelParams(atoi(w[1]), atoi(w[2]), atoi(w[3]), atoi(w[4]))
			return fmt.Sprintf("%d %d", per, g)
		case "apply":
			variant := w[1]
			rows, nin, words, g := atoi(w[2]), atoi(w[3]), atoi(w[4]), atoi(w[5])
			seed := uint64(atoi(w[6]))
			mb := genBytes("rand", seed, 2*rows*nin)
			m := gf2p16.NewMatrixFromFunction(rows, nin, func(i, j int) gf2p16.T {
				k := 2 * (i*nin + j)
				return gf2p16.T(uint16(mb[k]) | uint16(mb[k+1])<<8)
			})
			in := make([][]byte, nin)
			inCopy := make([][]byte, nin)
			for j := range in {
				in[j] = genBytes("rand", seed+1+uint64(j), 2*words)
				inCopy[j] = append([]byte(nil), in[j]...)
			}
			// outputs start as garbage inside a larger buffer with canaries around
			const pad = 64
			bufs := make([][]byte, rows)
			out := make([][]byte, rows)
			for i := range out {
				bufs[i] = genBytes("rand", seed+1000+uint64(i), 2*words+2*pad)
				out[i] = bufs[i][pad : pad+2*words : pad+2*words]
			}
			canary := make([][]byte, rows)
			for i := range bufs {
				canary[i] = append([]byte(nil), bufs[i]...)
			}
			switch variant {
			case "single":
				rsec16.VerifApplyMatrixSingle(m, in, out)
			case "data":
				rsec16.VerifApplyMatrixParallelData(m, in, out, g)
			case "out":
				rsec16.VerifApplyMatrixParallelOut(m, in, out, g)
			default:
				panic("bad variant")
			}
			for j := range in {
				if !sameBytes(in[j], inCopy[j]) {
					return "input-modified"
				}
			}
			for i := range bufs {
				if !sameBytes(bufs[i][:pad], canary[i][:pad]) || !sameBytes(bufs[i][pad+2*words:], canary[i][pad+2*words:]) {
					return "wrote-outside-output"
				}
			}
			return fmt.Sprintf("ok %d", digestShards(out))
		}
		panic("c12: bad command")
	})
}

func init() { extraDispatch["c12"] = c12 }
