package main

import (
	"path"
	"path/filepath"

	"github.com/akalin/gopar/par2"
)

// c15 <op> <hex> [<hex>] : Go's path functions as gopar calls them
func c15(w []string) string {
	return guard(func() string {
		a := unhex(w[1])
		switch w[0] {
		case "clean":
			return hx(path.Clean(a))
		case "fclean":
			return hx(filepath.Clean(a))
		case "isabs":
			if path.IsAbs(a) {
				return "1"
			}
			return "0"
		case "dir":
			return hx(filepath.Dir(a))
		case "base":
			return hx(filepath.Base(a))
		case "ext":
			return hx(path.Ext(a))
		case "join":
			return hx(filepath.Join(a, unhex(w[2])))
		case "check":
			if par2.VerifCheckFilename(a) != nil {
				return "err"
			}
			return "ok"
		}
		panic("c15: bad op")
	})
}

func init() { extraDispatch["c15"] = c15 }
