package main

import (
	"fmt"
	"os"
	"path/filepath"
	"runtime"

	"github.com/akalin/gopar/par1"
)

func isNotEnough1(err error) bool { return par1.RepairErrorMeansRepairNecessaryButNotPossible(err) }

func fcountsStr(r par1.VerifyResult) string {
	c := r.FileCounts
	return fmt.Sprintf("%d,%d,%d,%d,%d,%d,%d", c.UsableDataFileCount, c.UnusableDataFileCount,
		c.UsableParityFileCount, c.UnusableParityFileCount, b01(r.AllDataOk), b01(c.RepairNeeded()), b01(c.RepairPossible()))
}

// p1 create <mode> <parPath> <nvol> <nfiles> <file>... FS SCHED
// p1 verify <mode> <indexPath> <alldata> FS SCHED
// p1 repair <mode> <indexPath> <dbl> FS SCHED
func p1(w []string) string {
	if os.Getenv("VH_ALLOC") == "" {
		return p1run(w)
	}
	// report the bytes allocated while the operation ran (C13/C19: memory in proportion to the input)
	var m0, m1 runtime.MemStats
	runtime.ReadMemStats(&m0)
	res := p1run(w)
	runtime.ReadMemStats(&m1)
	return fmt.Sprintf("%s alloc=%d", res, m1.TotalAlloc-m0.TotalAlloc)
}

func p1run(w []string) string {
	return guard(func() string {
		op, mode := w[0], w[1]
		w = w[2:]
		switch op {
		case "create":
			parPath := unhex(w[0])
			nvol, nf := atoi(w[1]), atoi(w[2])
			w = w[3:]
			files := make([]string, nf)
			for i := range files {
				files[i] = unhex(w[i])
			}
			fs, _ := parseFS(w[nf:])
			opts := par1.CreateOptions{NumParityFiles: nvol}
			if mode == "real" {
				r := newRealFS(fs)
				defer r.close()
				rf := make([]string, nf)
				for i := range files {
					rf[i] = filepath.Join(r.root, files[i])
				}
				err := par1.Create(filepath.Join(r.root, parPath), rf, opts)
				return fmt.Sprintf("%s counts=- repaired= trace= changed=%s", errClass(err, nil), r.changedList())
			}
			err := par1.VerifCreate(fs, parPath, files, opts)
			return fsResult(errClass(err, nil), "-", nil, fs)
		case "verify":
			indexPath := unhex(w[0])
			all := w[1] == "1"
			fs, _ := parseFS(w[2:])
			opts := par1.VerifyOptions{VerifyAllData: all}
			if mode == "real" {
				r := newRealFS(fs)
				defer r.close()
				res, err := par1.Verify(filepath.Join(r.root, indexPath), opts)
				cs := "-"
				if err == nil {
					cs = fcountsStr(res)
				}
				return fmt.Sprintf("%s counts=%s repaired= trace= changed=%s", errClass(err, isNotEnough1), cs, r.changedList())
			}
			res, err := par1.VerifVerify(fs, indexPath, opts)
			cs := "-"
			if err == nil {
				cs = fcountsStr(res)
			}
			return fsResult(errClass(err, isNotEnough1), cs, nil, fs)
		case "repair":
			indexPath := unhex(w[0])
			dbl := w[1] == "1"
			fs, _ := parseFS(w[2:])
			opts := par1.RepairOptions{DoubleCheck: dbl}
			if mode == "real" {
				r := newRealFS(fs)
				defer r.close()
				res, err := par1.Repair(filepath.Join(r.root, indexPath), opts)
				rp := make([]string, len(res.RepairedPaths))
				for i, p := range res.RepairedPaths {
					rp[i] = r.virt(p)
				}
				return fmt.Sprintf("%s counts=- repaired=%s trace= changed=%s", errClass(err, isNotEnough1), joinHex(rp, false), r.changedList())
			}
			res, err := par1.VerifRepair(fs, indexPath, opts)
			return fsResult(errClass(err, isNotEnough1), "-", res.RepairedPaths, fs)
		}
		panic("p1: bad op")
	})
}

func init() { extraDispatch["p1"] = p1 }
