package main

import "reflect"

// reflectField returns the int field of a struct by name, or -1 if absent.
func reflectField(v interface{}, name string) int {
	f := reflect.ValueOf(v).FieldByName(name)
	if !f.IsValid() || f.Kind() != reflect.Int {
		return -1
	}
	return int(f.Int())
}
