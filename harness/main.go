// Command verifharness runs akalin/gopar (built from /repo's working tree) on
// the command files that are also fed to the extracted Coq model, one result
// line per command line, in the same textual format.
package main

import (
	"bufio"
	"fmt"
	"os"
	"strings"
)

func dgStep(h, v int) int { return int((int64(h)*31 + int64(v) + 1) % 2147483647) }

func dispatch(w []string) string {
	switch w[0] {
	case "c08":
		return c08(w[1:])
	}
	if f, ok := extraDispatch[w[0]]; ok {
		return f(w[1:])
	}
	panic("bad line: " + strings.Join(w, " "))
}

var extraDispatch = map[string]func([]string) string{}

func main() {
	if len(os.Args) > 1 {
		if f, ok := subcommands[os.Args[1]]; ok {
			os.Exit(f(os.Args[2:]))
		}
		fmt.Fprintf(os.Stderr, "unknown subcommand %s\n", os.Args[1])
		os.Exit(64)
	}
	in := bufio.NewReaderSize(os.Stdin, 1<<20)
	out := bufio.NewWriterSize(os.Stdout, 1<<20)
	defer out.Flush()
	for {
		line, err := in.ReadString('\n')
		line = strings.TrimSpace(line)
		if line != "" {
			fmt.Fprintln(out, dispatch(strings.Split(line, " ")))
			out.Flush() // a fatal runtime error must not lose the answers already computed
		}
		if err != nil {
			break
		}
	}
}

var subcommands = map[string]func([]string) int{}
