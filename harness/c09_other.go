//go:build !amd64
// +build !amd64

package main

func setSSSE3(v bool) bool { return false }

func c09r(w []string) string { return "n/a" }

func init() { extraDispatch["c09r"] = c09r }
