//go:build !amd64
// +build !amd64

package main

func setSSSE3(v bool) bool { return false }
