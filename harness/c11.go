package main

import (
	"fmt"
	"strings"

	"github.com/akalin/gopar/gf2p16"
)

func parseElems(s string) []gf2p16.T {
	if s == "-" {
		return nil
	}
	out := make([]gf2p16.T, len(s)/4)
	for i := range out {
		var v int
		fmt.Sscanf(s[4*i:4*i+4], "%04x", &v)
		out[i] = gf2p16.T(v)
	}
	return out
}

func matHex(m gf2p16.Matrix, rows, cols int) string {
	var sb strings.Builder
	for i := 0; i < rows; i++ {
		for j := 0; j < cols; j++ {
			fmt.Fprintf(&sb, "%04x", int(m.At(i, j)))
		}
	}
	return sb.String()
}

func sameElems(m gf2p16.Matrix, rows, cols int, e []gf2p16.T) bool {
	for i := 0; i < rows; i++ {
		for j := 0; j < cols; j++ {
			if m.At(i, j) != e[i*cols+j] {
				return false
			}
		}
	}
	return true
}

// c11 inv <n> <hex>
// c11 rr <n> <c> <hexM> <hexN>
// c11 times <r> <k> <k2> <c> <hexA> <hexB>     (A is r x k, B is k2 x c)
func c11(w []string) string {
	return guard(func() string {
		switch w[0] {
		case "inv":
			n := atoi(w[1])
			e := parseElems(w[2])
			ref := append([]gf2p16.T(nil), e...) // the reference must not alias what the matrix was built from
			m := gf2p16.NewMatrixFromSlice(n, n, e)
			inv, err := m.Inverse()
			mod := ""
			if !sameElems(m, n, n, ref) || !elemsEq(e, ref) {
				mod = " opmod"
			}
			if err != nil {
				return "err" + mod
			}
			return "ok " + matHex(inv, n, n) + mod
		case "rr":
			n, c := atoi(w[1]), atoi(w[2])
			em, en := parseElems(w[3]), parseElems(w[4])
			refm, refn := append([]gf2p16.T(nil), em...), append([]gf2p16.T(nil), en...)
			m := gf2p16.NewMatrixFromSlice(n, n, em)
			nn := gf2p16.NewMatrixFromSlice(n, c, en)
			res, err := m.RowReduceForInverse(nn)
			mod := ""
			if !sameElems(m, n, n, refm) || !sameElems(nn, n, c, refn) || !elemsEq(em, refm) || !elemsEq(en, refn) {
				mod = " opmod"
			}
			if err != nil {
				return "err" + mod
			}
			return "ok " + matHex(res, n, c) + mod
		case "times":
			r, k, k2, c := atoi(w[1]), atoi(w[2]), atoi(w[3]), atoi(w[4])
			ea, eb := parseElems(w[5]), parseElems(w[6])
			refa, refb := append([]gf2p16.T(nil), ea...), append([]gf2p16.T(nil), eb...)
			a := gf2p16.NewMatrixFromSlice(r, k, ea)
			b := gf2p16.NewMatrixFromSlice(k2, c, eb)
			res := a.Times(b)
			mod := ""
			if !sameElems(a, r, k, refa) || !sameElems(b, k2, c, refb) || !elemsEq(ea, refa) || !elemsEq(eb, refb) {
				mod = " opmod"
			}
			return "ok " + matHex(res, r, c) + mod
		}
		panic("c11: bad command")
	})
}

func elemsEq(a, b []gf2p16.T) bool {
	if len(a) != len(b) {
		return false
	}
	for i := range a {
		if a[i] != b[i] {
			return false
		}
	}
	return true
}

func init() { extraDispatch["c11"] = c11 }
