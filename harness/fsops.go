package main

// In-memory file system with a fault schedule and an I/O trace, with exactly the
// semantics of coq/Model/FS.v, and the line protocol shared with the OCaml driver.
//
//   p2 create <parPath> <slice> <nparity> <g> <nfiles> <file>...  FS SCHED
//   p2 verify <indexPath> <g>                                      FS SCHED
//   p2 repair <indexPath> <dbl> <g>                                FS SCHED
//   p1 ...                                                         (see par1ops.go)
//   FS    = <n> (<hexpath> <hexdata>)*n
//   SCHED = <m> (<callindex>:<n|tK>)*m
// strings are hex; the empty string is "-".

import (
	"crypto/md5"
	"encoding/hex"
	"errors"
	"fmt"
	"os"
	"sort"
	"strings"
	"syscall"
)

var errInjected = errors.New("injected I/O fault")

// injectedErr: the error an injected fault returns.  Kind "p" / "x" / "d" / "a" are errors of the permission / already-exists / not-a-directory / try-again
// class as the os package reports them (a *PathError around an errno), so that code which tolerates more than
// "does not exist" (os.IsPermission, os.IsExist, errors.Is(err, fs.ErrPermission)) is exposed; every other kind is
// an opaque error.
func injectedErr(kind, op, path string) error {
	switch kind {
	case "p":
		return &os.PathError{Op: op, Path: path, Err: syscall.EACCES}
	case "x":
		return &os.PathError{Op: op, Path: path, Err: syscall.EEXIST}
	case "d":
		return &os.PathError{Op: op, Path: path, Err: syscall.ENOTDIR}
	case "a":
		return &os.PathError{Op: op, Path: path, Err: syscall.EAGAIN}
	}
	return errInjected
}

var errIsDir = errors.New("is a directory")

type memFile struct {
	path string
	data []byte
}

type faultFS struct {
	files   []memFile // insertion order, like the model's association list
	dirs    []string
	n       int
	sched   map[int]string
	trace   []string
	orig    map[string]string
	changed map[string]bool
}

func unhex(s string) string {
	if s == "-" {
		return ""
	}
	b, err := hex.DecodeString(s)
	if err != nil {
		panic(err)
	}
	return string(b)
}

func hx(s string) string {
	if s == "" {
		return "-"
	}
	return hex.EncodeToString([]byte(s))
}

func (fs *faultFS) lookup(p string) (int, bool) {
	for i := range fs.files {
		if fs.files[i].path == p {
			return i, true
		}
	}
	return 0, false
}

func (fs *faultFS) isDir(p string) bool {
	for i := range fs.files {
		if strings.HasPrefix(fs.files[i].path, p+"/") {
			return true
		}
	}
	return false
}

func (fs *faultFS) tick(ev string) (string, bool) {
	f, ok := fs.sched[fs.n]
	fs.n++
	_ = ev
	return f, ok
}

func (fs *faultFS) ReadFile(path string) ([]byte, error) {
	if f, ok := fs.tick("R"); ok {
		fs.trace = append(fs.trace, "R:"+hx(path)+":0")
		return nil, injectedErr(f, "open", path)
	}
	if i, ok := fs.lookup(path); ok {
		fs.trace = append(fs.trace, "R:"+hx(path)+":1")
		return append([]byte(nil), fs.files[i].data...), nil
	}
	fs.trace = append(fs.trace, "R:"+hx(path)+":0")
	if fs.isDir(path) {
		return nil, errIsDir
	}
	return nil, os.ErrNotExist
}

func (fs *faultFS) FindWithPrefixAndSuffix(prefix, suffix string) ([]string, error) {
	if f, ok := fs.tick("L"); ok {
		fs.trace = append(fs.trace, "L:"+hx(prefix)+":"+hx(suffix)+":0")
		return nil, injectedErr(f, "open", prefix)
	}
	fs.trace = append(fs.trace, "L:"+hx(prefix)+":"+hx(suffix)+":1")
	var ms []string
	for _, f := range fs.files {
		// entries of ONE directory, as ReadDir gives them: a path with a further '/' behind the prefix is a file in a
		// sub-directory (and the sub-directory itself is not a file)
		if len(f.path) >= len(prefix)+len(suffix) && strings.HasPrefix(f.path, prefix) && strings.HasSuffix(f.path, suffix) &&
			!strings.Contains(f.path[len(prefix):], "/") {
			ms = append(ms, f.path)
		}
	}
	sort.Strings(ms)
	return ms, nil
}

func (fs *faultFS) set(path string, data []byte) {
	fs.changed[path] = true
	if i, ok := fs.lookup(path); ok {
		fs.files[i].data = append([]byte(nil), data...)
		return
	}
	fs.files = append(fs.files, memFile{path, append([]byte(nil), data...)})
}

func md5hex(b []byte) string {
	s := md5.Sum(b)
	return hex.EncodeToString(s[:])
}

func (fs *faultFS) WriteFile(path string, data []byte) error {
	if f, ok := fs.tick("W"); ok {
		fs.trace = append(fs.trace, "W:"+hx(path)+":"+md5hex(data)+":0")
		if f == "p" || f == "x" || f == "d" || f == "a" {
			return injectedErr(f, "open", path)
		}
		if f != "n" {
			k := atoi(f[1:])
			if k > len(data) {
				k = len(data)
			}
			fs.set(path, data[:k])
		}
		return errInjected
	}
	fs.trace = append(fs.trace, "W:"+hx(path)+":"+md5hex(data)+":1")
	fs.set(path, data)
	return nil
}

// parseFS consumes FS and SCHED from w, returning the file system and the rest.
func parseFS(w []string) (*faultFS, []string) {
	fs := &faultFS{sched: map[int]string{}, orig: map[string]string{}, changed: map[string]bool{}}
	n := atoi(w[0])
	w = w[1:]
	for i := 0; i < n; i++ {
		p, d := unhex(w[0]), unhex(w[1])
		w = w[2:]
		if strings.HasSuffix(p, "/") {
			// a directory that must exist in real mode; not a file
			fs.dirs = append(fs.dirs, p)
			continue
		}
		if _, ok := fs.lookup(p); !ok {
			fs.files = append(fs.files, memFile{p, []byte(d)})
			fs.orig[p] = d
		}
	}
	m := atoi(w[0])
	w = w[1:]
	for i := 0; i < m; i++ {
		kv := strings.SplitN(w[0], ":", 2)
		if _, dup := fs.sched[atoi(kv[0])]; !dup {
			fs.sched[atoi(kv[0])] = kv[1]
		}
		w = w[1:]
	}
	return fs, w
}

// changedList: files whose content differs from the initial state, "path:data" sorted by path.
func (fs *faultFS) changedList() string {
	var out []string
	for _, f := range fs.files {
		o, had := fs.orig[f.path]
		if !had || o != string(f.data) {
			out = append(out, hx(f.path)+":"+hx(string(f.data)))
		}
	}
	sort.Strings(out)
	return strings.Join(out, ",")
}

func errClass(err error, isNotEnough func(error) bool) string {
	if err != nil && os.Getenv("VH_ERR") != "" {
		fmt.Fprintln(os.Stderr, "error text:", err.Error()) // debugging aid: the classes below are what is compared
	}
	switch {
	case err == nil:
		return "ok"
	case errors.Is(err, errInjected), errors.Is(err, syscall.EACCES), errors.Is(err, syscall.EEXIST), errors.Is(err, syscall.ENOTDIR), errors.Is(err, syscall.EAGAIN):
		return "err:io"
	case errors.Is(err, errIsDir):
		return "err:io"
	case os.IsNotExist(err):
		return "err:notexist"
	case isNotEnough != nil && isNotEnough(err):
		return "err:notenough"
	case strings.Contains(err.Error(), "singular"):
		// the linear system of the recovery blocks in use is singular: the one failure the properties permit
		return "err:singular"
	}
	return "err:other"
}

func joinHex(paths []string, sorted bool) string {
	hs := make([]string, len(paths))
	for i, p := range paths {
		hs[i] = hx(p)
	}
	if sorted {
		sort.Strings(hs)
	}
	return strings.Join(hs, ",")
}

func fsResult(res, counts string, repaired []string, fs *faultFS) string {
	return fmt.Sprintf("%s counts=%s repaired=%s trace=%s changed=%s", res, counts, joinHex(repaired, false),
		strings.Join(fs.trace, ","), fs.changedList())
}
