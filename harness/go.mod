module verifharness

go 1.15

require github.com/akalin/gopar v0.0.0

replace github.com/akalin/gopar => /repo
