package main

import (
	"fmt"
	"runtime/debug"
	"syscall"

	"github.com/akalin/gopar/gf2p16"
)

// deterministic data generator shared with the OCaml driver
func genBytes(mode string, seed uint64, n int) []byte {
	b := make([]byte, n)
	switch mode {
	case "seq": // all 16-bit word values in order, starting at seed
		for i := 0; i+1 < n; i += 2 {
			w := (uint64(i/2) + seed) & 0xFFFF
			b[i] = byte(w)
			b[i+1] = byte(w >> 8)
		}
	default:
		s := seed
		for i := range b {
			s = s*6364136223846793005 + 1442695040888963407
			b[i] = byte(s >> 56)
		}
	}
	return b
}

func digestBytes(b []byte) int {
	h := 0
	for _, x := range b {
		h = dgStep(h, int(x))
	}
	return h
}

const pageSize = 4096

// region: [PROT_NONE page][n data pages][PROT_NONE page]
type region struct {
	mem  []byte
	data []byte
}

func newRegion(dataBytes int) *region {
	pages := (dataBytes+pageSize-1)/pageSize + 1
	mem, err := syscall.Mmap(-1, 0, (pages+2)*pageSize, syscall.PROT_READ|syscall.PROT_WRITE, syscall.MAP_ANON|syscall.MAP_PRIVATE)
	if err != nil {
		panic(err)
	}
	if err := syscall.Mprotect(mem[:pageSize], syscall.PROT_NONE); err != nil {
		panic(err)
	}
	if err := syscall.Mprotect(mem[(pages+1)*pageSize:], syscall.PROT_NONE); err != nil {
		panic(err)
	}
	return &region{mem, mem[pageSize : (pages+1)*pageSize]}
}

func (r *region) free() { syscall.Munmap(r.mem) }

// endBuf returns a slice of length n that ends exactly at the trailing guard page
// (shifted back by `back` bytes to vary the alignment when back > 0).
func (r *region) endBuf(n, back int) []byte {
	e := len(r.data) - back
	return r.data[e-n : e : e]
}

// beginBuf returns a slice of length n starting right after the leading guard page.
func (r *region) beginBuf(n, fwd int) []byte {
	return r.data[fwd : fwd+n : fwd+n]
}

type kfunc func(c gf2p16.T, in, out []byte)

func kernelFor(path string, acc bool) kfunc {
	switch path {
	case "portable":
		if acc {
			return gf2p16.VerifMulAddGeneric
		}
		return gf2p16.VerifMulGeneric
	case "disp1", "disp0":
		want := path == "disp1"
		return func(c gf2p16.T, in, out []byte) {
			old := setSSSE3(want)
			defer setSSSE3(old)
			if acc {
				gf2p16.MulAndAddByteSliceLE(c, in, out)
			} else {
				gf2p16.MulByteSliceLE(c, in, out)
			}
		}
	case "exported":
		if acc {
			return gf2p16.MulAndAddByteSliceLE
		}
		return gf2p16.MulByteSliceLE
	}
	panic("bad path " + path)
}

// runPlaced runs the kernel on copies of in/out0 placed in the given buffers.
// status: "ok", "fault" (memory fault or Go panic), "inmod" (input modified).
func runPlaced(f kfunc, c gf2p16.T, in, out0, inBuf, outBuf []byte) (status string, out []byte) {
	copy(inBuf, in)
	copy(outBuf, out0)
	faulted := func() (faulted bool) {
		defer func() {
			if r := recover(); r != nil {
				faulted = true
			}
		}()
		f(c, inBuf, outBuf)
		return false
	}()
	if faulted {
		return "fault", nil
	}
	for i := range in {
		if inBuf[i] != in[i] {
			return "inmod", nil
		}
	}
	res := make([]byte, len(outBuf))
	copy(res, outBuf)
	return "ok", res
}

func sameBytes(a, b []byte) bool {
	if len(a) != len(b) {
		return false
	}
	for i := range a {
		if a[i] != b[i] {
			return false
		}
	}
	return true
}

// c09 kern <path> <acc> <c> <len> <mode> <seed> <nalign> [full]
func c09(w []string) string {
	debug.SetPanicOnFault(true)
	path := w[1]
	acc := w[2] == "1"
	c := gf2p16.T(atoi(w[3]))
	n := atoi(w[4])
	mode := w[5]
	seed := uint64(atoi(w[6]))
	nalign := atoi(w[7])
	full := len(w) > 8 && w[8] == "full"
	in := genBytes(mode, seed, n)
	out0 := genBytes("rand", seed+1, n)
	f := kernelFor(path, acc)

	rin := newRegion(n + 64)
	rout := newRegion(n + 64)
	defer rin.free()
	defer rout.free()

	var ref []byte
	check := func(tag string, inBuf, outBuf []byte) string {
		st, out := runPlaced(f, c, in, out0, inBuf, outBuf)
		if st != "ok" {
			return st + ":" + tag
		}
		if ref == nil {
			ref = out
		} else if !sameBytes(ref, out) {
			return "placementdiff:" + tag
		}
		return ""
	}
	// 1. both buffers end exactly at a guard page: any access past the end faults
	if s := check("end", rin.endBuf(n, 0), rout.endBuf(n, 0)); s != "" {
		return s + " 0"
	}
	// 2. both buffers start right after a guard page: any access before the start faults
	if s := check("begin", rin.beginBuf(n, 0), rout.beginBuf(n, 0)); s != "" {
		return s + " 0"
	}
	// 3. alignments: canaries around buffers inside writable memory
	for a := 0; a < nalign; a++ {
		io, oo := a%8, a/8
		inArea := make([]byte, n+64+io)
		outArea := make([]byte, n+64+oo)
		for i := range inArea {
			inArea[i] = 0xA5
		}
		for i := range outArea {
			outArea[i] = 0x5A
		}
		inBuf := inArea[32+io : 32+io+n : 32+io+n]
		outBuf := outArea[32+oo : 32+oo+n : 32+oo+n]
		if s := check(fmt.Sprintf("align%d/%d", io, oo), inBuf, outBuf); s != "" {
			return s + " 0"
		}
		for i := range inArea {
			if (i < 32+io || i >= 32+io+n) && inArea[i] != 0xA5 {
				return fmt.Sprintf("canary:in%d/%d 0", io, oo)
			}
		}
		for i := range outArea {
			if (i < 32+oo || i >= 32+oo+n) && outArea[i] != 0x5A {
				return fmt.Sprintf("canary:out%d/%d 0", io, oo)
			}
		}
		// guard-page placement with this misalignment too (end placement shifted back)
		if n > 0 {
			if s := check(fmt.Sprintf("endshift%d/%d", io, oo), rin.endBuf(n, io), rout.endBuf(n, oo)); s != "" {
				return s + " 0"
			}
		}
	}
	if full {
		return "ok " + fmt.Sprintf("%x", ref)
	}
	return fmt.Sprintf("ok %d", digestBytes(ref))
}

// c09mm <path> <acc> <lenin> <lenout>: mismatched lengths must panic on the dispatch paths
func c09mm(w []string) string {
	f := kernelFor(w[0], w[1] == "1")
	in := make([]byte, atoi(w[2]))
	out := make([]byte, atoi(w[3]))
	return guard(func() string { f(3, in, out); return "ok" })
}

func init() {
	extraDispatch["c09"] = c09
	extraDispatch["c09mm"] = c09mm
}
