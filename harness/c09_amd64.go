package main

import "github.com/akalin/gopar/gf2p16"

func setSSSE3(v bool) bool { return gf2p16.VerifSetSSSE3(v) }
