//go:build amd64
// +build amd64

package main

import "github.com/akalin/gopar/gf2p16"

func setSSSE3(v bool) bool { return gf2p16.VerifSetSSSE3(v) }

// register-level SSSE3 entry points: c09r <op> <c> <hex of the input registers>
func reg16(b []byte) (r [16]byte) { copy(r[:], b); return }

func c09r(w []string) string {
	return guard(func() string {
		c := gf2p16.T(atoi(w[1]))
		b := []byte(unhex(w[2]))
		switch w[0] {
		case "s2a":
			lo, hi := gf2p16.VerifStandardToAltMap(reg16(b[0:16]), reg16(b[16:32]))
			return hx(string(lo[:]) + string(hi[:]))
		case "a2s":
			o0, o1 := gf2p16.VerifAltToStandardMap(reg16(b[0:16]), reg16(b[16:32]))
			return hx(string(o0[:]) + string(o1[:]))
		case "mulalt":
			lo, hi := gf2p16.VerifMulAltMap(c, reg16(b[0:16]), reg16(b[16:32]))
			return hx(string(lo[:]) + string(hi[:]))
		case "mulstd":
			o0, o1 := gf2p16.VerifMulSSSE3(c, reg16(b[0:16]), reg16(b[16:32]))
			return hx(string(o0[:]) + string(o1[:]))
		case "muladd":
			o0, o1 := gf2p16.VerifMulAndAddSSSE3(c, reg16(b[0:16]), reg16(b[16:32]), reg16(b[32:48]), reg16(b[48:64]))
			return hx(string(o0[:]) + string(o1[:]))
		}
		panic("c09r: bad op")
	})
}

func init() { extraDispatch["c09r"] = c09r }
