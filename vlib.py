"""Shared machinery of the gopar verification checks.

Every check: (1) makes sure the Coq development is built and re-compiles the
property's Props/<id>.v, capturing Print Assumptions; (2) rebuilds the Go
harness from /repo's *current working tree* with -tags verif; (3) generates
cases from VERIF_SEED, runs the implementation and the extracted model on the
same case file; (4) compares, evaluates the property predicate, reports
VIOLATION lines with replay files, writes evidence/<id>.json.
"""
import atexit
import concurrent.futures
import hashlib
import json
import os
import random
import re
import shutil
import subprocess
import sys
import tempfile
import time

VERIF = os.path.dirname(os.path.abspath(__file__))
REPO = os.environ.get("VERIF_REPO", "/repo")
COQ = os.path.join(VERIF, "coq")
OCAML = os.path.join(VERIF, "ocaml")
HARNESS = os.path.join(VERIF, "harness")
GOENV = dict(os.environ, GOFLAGS="-mod=mod", GOPROXY="off", GOSUMDB="off",
             GOTOOLCHAIN="local", CGO_ENABLED="0")
NPROC = os.cpu_count() or 4
# when a check is pointed at a scratch copy of the repository (mutation testing), its evidence and replays go elsewhere
EVID = os.environ.get("VERIF_EVIDENCE_DIR") or os.path.join(VERIF, "evidence")
REPLAYS = (os.path.join(os.environ["VERIF_EVIDENCE_DIR"], "replays") if os.environ.get("VERIF_EVIDENCE_DIR") else os.path.join(VERIF, "replays"))

TRUSTED_BASE = [
    "Coq 8.16.1 kernel and coqc; vm_compute (bytecode VM) for finite reflective sweeps; native_compute not used",
    "no Axiom/Parameter/Admitted in the development; axioms per theorem as printed by Print Assumptions (listed under 'theorems')",
    "hand-written Gallina model of the Go code (Model/*.v), tied to /repo only by this run's correspondence check",
    "extraction: Require Extraction + ExtrOcamlBasic only (bool/option/unit/list/prod/sumbool mapped to OCaml types; no Extract Constant/Inductive directives of our own; N/Z/positive/nat stay inductive)",
    "OCaml driver (hex/decimal parsing, printing, Digest.string as MD5 where MD5 is a section variable), ocamlfind ocamlopt 4.13.1",
    "Go harness built from /repo with -tags verif, python3 orchestrator/comparator/generators (generator coverage bounds what the tie has seen)",
    "translators (where 'regenerated_from_source' is listed): tools/asm2coq.py (Go assembler -> instruction lists) and tools/gotocoq (Go subset -> Gallina over Model/GoSem.v: its rendering of Go's integer semantics, evaluation order and control flow is trusted)",
]


# link modules that coqchk is not asked to re-check, with the reason (they are checked by coqc's kernel like everything else)
NO_COQCHK_LINKS = {
    "GoLinkC07": "GEN_generators_check is one closed computation (65536 loop rounds with a field power each) accepted by the kernel's "
                 "bytecode VM in 30 s; coqchk re-checks VM casts with its own lazy reduction, which did not finish in 100 min",
}


class Fail(Exception):
    pass


def sh(cmd, cwd=None, env=None, timeout=3600, check=True, input=None):
    p = subprocess.run(cmd, cwd=cwd, env=env, timeout=timeout, input=input,
                       stdout=subprocess.PIPE, stderr=subprocess.STDOUT, text=True)
    if check and p.returncode != 0:
        raise Fail("command failed (%d): %s\n%s" % (p.returncode, " ".join(cmd), p.stdout[-4000:]))
    return p


class Ctx:
    def __init__(self, prop, argv):
        self.prop = prop
        self.t0 = time.time()
        self.tier = os.environ.get("VERIF_TIER", "quick")
        self.replay = None
        i = 0
        while i < len(argv):
            if argv[i] == "--tier":
                self.tier = argv[i + 1]; i += 2
            elif argv[i] == "--replay":
                self.replay = argv[i + 1]; i += 2
            else:
                raise SystemExit("unknown argument " + argv[i])
        if self.tier not in ("quick", "thorough"):
            self.tier = "quick"
        try:
            self.seed = int(os.environ.get("VERIF_SEED", "20260926"))
        except ValueError:
            self.seed = 20260926
        self.rng = random.Random(self.seed * 1000003 + int(prop[1:]))
        self.tmp = tempfile.mkdtemp(prefix="verif-%s-" % prop)
        atexit.register(lambda: shutil.rmtree(self.tmp, ignore_errors=True))
        self.violations = []      # (message, replay_path)
        self.known = []           # KNOWN-FINDING lines
        self.theorems = []        # [{name, assumptions}]
        self.coverage = {}
        self.assumptions = []
        self.samples = []
        self.evaluations = 0
        self.nontrivial = set()
        self.notes = []
        self._harness = {}
        self.findings = load_known_findings()

    # ---------- Coq side ----------
    def build_coq(self):
        gate = grep_gate()
        if gate:
            raise Fail("forbidden construct in coq/: " + "; ".join(gate[:5]))
        if not os.path.exists(os.path.join(COQ, "Makefile")):
            sh(["coq_makefile", "-f", "_CoqProject", "-o", "Makefile"], cwd=COQ)
        sh(["make", "-j%d" % NPROC], cwd=COQ, timeout=3000)

    def check_props(self, extra_files=()):
        """Re-compile Props/<id>.v, capture theorem names and Print Assumptions."""
        self.build_coq()
        names = []
        for f in ("Props/%s.v" % self.prop,) + tuple(extra_files):
            path = os.path.join(COQ, f)
            src = open(path).read()
            thms = re.findall(r"^\s*(?:Theorem|Corollary)\s+(\w+)", src, re.M)
            vo = path[:-2] + ".vo"
            if os.path.exists(vo):
                os.remove(vo)
            p = sh(["make", f[:-2] + ".vo"], cwd=COQ, timeout=3000)
            out = p.stdout
            # Print Assumptions output follows each theorem in order
            blocks = parse_assumptions(out)
            for i, t in enumerate(thms):
                names.append({"name": t, "file": f,
                              "assumptions": blocks[i] if i < len(blocks) else ["<not printed>"]})
        self.theorems = names
        # the property theorems that must be present and checked: a Props file that lost a theorem is a broken proof
        try:
            required = json.load(open(os.path.join(COQ, "Props", "REQUIRED.json"))).get(self.prop, [])
        except (OSError, ValueError):
            raise Fail("coq/Props/REQUIRED.json missing or unreadable")
        have = {t["name"] for t in names if t["assumptions"] != ["<not printed>"]}
        missing = [t for t in required if t not in have]
        if missing or not required:
            raise Fail("property theorems no longer stated/checked in Props/%s.v: %s" % (self.prop, ", ".join(missing) or "(none registered)"))
        if self.tier == "thorough" and not self.replay and os.environ.get("VERIF_SKIP_COQCHK") != "1":
            # independent re-check of the compiled property file and everything it depends on, with the axiom summary
            mod = "Gopar.Props.%s" % self.prop
            p = sh(["coqchk", "-silent", "-o", "-Q", ".", "Gopar", mod], cwd=COQ, timeout=6000, check=False)
            tail = p.stdout[-1500:]
            self.coverage["coqchk"] = {"module": mod, "exit": p.returncode, "summary": tail[tail.find("CONTEXT SUMMARY"):] if "CONTEXT SUMMARY" in tail else tail}
            if p.returncode != 0:
                raise Fail("coqchk rejected %s: %s" % (mod, tail))
        return names

    def check_genlink(self, gen_cmd, gen_name, link_name, key, display=None, pre_files=()):
        """Regenerate a Gallina file from /repo's CURRENT source with a translator, compile it and the committed link
        file (coq/GenLink/<link_name>.v: generated definitions = the model's + the theorems restated for them).
        gen_cmd(outpath) -> argv of the translator.  Returns the list of theorem records; raises Fail when the
        translator refuses the source or a proof obligation no longer checks."""
        self.build_coq()
        gdir = os.path.join(self.tmp, "GoparGen")
        os.makedirs(gdir, exist_ok=True)
        gen = os.path.join(gdir, gen_name + ".v")
        p = sh(gen_cmd(gen), check=False, timeout=600)
        if p.returncode != 0:
            raise Fail("translator refused the current source (%s): %s" % (gen_name, p.stdout[-600:]))
        bad = [l for l in open(gen) if FORBIDDEN.search(re.sub(r"\(\*.*?\*\)", "", l))]
        if bad:
            raise Fail("forbidden construct in generated file: " + bad[0][:100])
        link_src = os.path.join(COQ, "GenLink", link_name + ".v")
        link = os.path.join(gdir, link_name + ".v")
        shutil.copy(link_src, link)
        base = ["coqc", "-Q", COQ, "Gopar", "-Q", gdir, "GoparGen"]
        p = sh(base + [gen], cwd=gdir, check=False, timeout=1200)
        if p.returncode != 0:
            raise Fail("generated file %s.v does not compile: %s" % (gen_name, p.stdout[-800:]))
        for pf in pre_files:      # shared lemmas of the link files (independent of the generated text)
            shutil.copy(os.path.join(COQ, "GenLink", pf + ".v"), os.path.join(gdir, pf + ".v"))
            q = sh(base + [os.path.join(gdir, pf + ".v")], cwd=gdir, check=False, timeout=1200)
            if q.returncode != 0:
                raise Fail("GenLink/%s.v does not compile: %s" % (pf, q.stdout[-800:]))
        p = sh(base + [link], cwd=gdir, check=False, timeout=1800)
        if p.returncode != 0:
            raise Fail("proof obligation of GenLink/%s.v no longer checks against the regenerated %s.v (the source changed): %s"
                       % (link_name, gen_name, p.stdout[-1200:]))
        src = open(link_src).read()
        thms = re.findall(r"^\s*(?:Theorem|Corollary)\s+(\w+)", src, re.M)
        blocks = parse_assumptions(p.stdout)
        recs = [{"name": t, "file": "GenLink/%s.v (against %s.v regenerated from the source this run)" % (link_name, gen_name),
                 "assumptions": blocks[i] if i < len(blocks) else ["<not printed>"]} for i, t in enumerate(thms)]
        required = json.load(open(os.path.join(COQ, "Props", "REQUIRED.json"))).get(key, [])
        have = {t["name"] for t in recs if t["assumptions"] != ["<not printed>"]}
        missing = [t for t in required if t not in have]
        if missing or not required:
            raise Fail("theorems no longer stated/checked in GenLink/%s.v: %s" % (link_name, ", ".join(missing) or "(none registered)"))
        self.theorems = list(self.theorems) + recs
        if link_name in NO_COQCHK_LINKS:
            self.coverage["coqchk_" + link_name] = {"skipped": NO_COQCHK_LINKS[link_name]}
        elif self.tier == "thorough" and not self.replay and os.environ.get("VERIF_SKIP_COQCHK") != "1":
            q = sh(["coqchk", "-silent", "-o", "-Q", COQ, "Gopar", "-Q", gdir, "GoparGen", "GoparGen." + link_name], cwd=gdir, timeout=6000, check=False)
            tail = q.stdout[-1500:]
            self.coverage["coqchk_" + link_name] = {"exit": q.returncode, "summary": tail[tail.find("CONTEXT SUMMARY"):] if "CONTEXT SUMMARY" in tail else tail}
            if q.returncode != 0:
                raise Fail("coqchk rejected GoparGen.%s: %s" % (link_name, tail))
        self.coverage.setdefault("regenerated_from_source", []).append(
            {"translator": display or " ".join(os.path.relpath(x, VERIF) if x.startswith(VERIF) else x for x in gen_cmd("<out>")),
             "generated_sha256": sha(open(gen, "rb").read()), "link": "coq/GenLink/%s.v" % link_name, "theorems": thms})
        return recs

    def genlink_goarith(self, link="GoLinkC08"):
        """tools/gotocoq: re-translate the arithmetic functions of the Go source, re-check GenLink/GoArithLink.v.
        Returns None or the failure text (the caller goes on to search for a concrete failing input)."""
        try:
            tdir = os.path.join(VERIF, "tools", "gotocoq")
            binp = os.path.join(self.tmp, "gotocoq")
            if not os.path.exists(binp):
                sh(["go", "build", "-o", binp, "."], cwd=tdir, env=GOENV, timeout=600)
            self.check_genlink(lambda out: [binp, REPO, out], "GoArithGen", link, link + ".gen",
                               pre_files=("GoLinkCommon",) + (("GoLinkC08",) if link in ("GoLinkC11", "GoLinkC07") else ()),
                               display="tools/gotocoq (built with go build this run) %s <out>" % REPO)
            return None
        except Fail as e:
            return str(e)

    def report_genlink(self, gen_fail, link):
        """a broken tie is a violation; without a concrete failing input from the differential runs it is reported as such"""
        if gen_fail:
            self.violation("the theorems no longer check against the source re-translated this run: %s%s" %
                           (gen_fail[:700], " (a concrete failing input was found by the differential runs: see the other violations)" if self.violations else ""),
                           {"cases": [], "theorem": "coq/GenLink/%s.v against the regenerated definitions" % link, "detail": gen_fail[-3000:],
                            "class": {"kind": "genlink", "link": link}}, no_failing_input=not self.violations)

    def build_model(self):
        model = os.path.join(OCAML, "model")
        srcs = [os.path.join(dp, f) for dp, _, fs in os.walk(COQ) for f in fs
                if f.endswith(".v") and "/Model/" in os.path.join(dp, f) or f == "Extract.v"]
        srcs.append(os.path.join(OCAML, "driver.ml"))
        if os.path.exists(model) and all(os.path.getmtime(s) <= os.path.getmtime(model) for s in srcs):
            return model
        self.build_coq()
        sh(["coqc", "-Q", "../coq", "Gopar", "../coq/Extract/Extract.v"], cwd=OCAML, timeout=1200)
        sh(["ocamlfind", "ocamlopt", "-O3", "-w", "-a", "-package", "unix", "-linkpkg",
            "model.mli", "model.ml", "driver.ml", "-o", "model"], cwd=OCAML, timeout=1200)
        return model

    # ---------- Go side ----------
    def build_harness(self, tags="verif", goarch=None, race=False, name="vh"):
        key = (tags, goarch, race)
        if key in self._harness:
            return self._harness[key]
        bdir = os.path.join(self.tmp, "hbuild")
        if not os.path.isdir(bdir):
            shutil.copytree(HARNESS, bdir)
            gomod = open(os.path.join(bdir, "go.mod")).read().replace("=> /repo", "=> " + REPO)
            open(os.path.join(bdir, "go.mod"), "w").write(gomod)
            if os.path.exists(os.path.join(REPO, "go.sum")):
                shutil.copy(os.path.join(REPO, "go.sum"), os.path.join(bdir, "go.sum"))
        out = os.path.join(self.tmp, "%s-%s-%s%s" % (name, tags or "notag", goarch or "host", "-race" if race else ""))
        env = dict(GOENV)
        if goarch:
            env["GOARCH"] = goarch
        cmd = ["go", "build"]
        if tags:
            cmd += ["-tags", tags]
        if race:
            cmd += ["-race"]
            env["CGO_ENABLED"] = "1"
        if os.environ.get("VERIF_COVER"):
            # tools/coverage.sh: statement coverage of /repo reached by the correspondence checks (GOCOVERDIR is set by the caller)
            cmd += ["-cover", "-coverpkg=github.com/akalin/gopar/...,verifharness"]   # the main package must be instrumented too or no data is written
        cmd += ["-o", out, "."]
        sh(cmd, cwd=bdir, env=env, timeout=1800)
        self._harness[key] = out
        return out

    def build_par_cli(self):
        out = os.path.join(self.tmp, "par")
        sh(["go", "build"] + (["-cover", "-coverpkg=github.com/akalin/gopar/..."] if os.environ.get("VERIF_COVER") else []) + ["-o", out, "./cmd/par"],
           cwd=REPO, env=GOENV, timeout=1800)
        return out

    # ---------- running ----------
    def run_lines(self, binary, lines, shards=None, timeout=3000, env=None, vmem_kb=None):
        """Feed command lines to a line-oriented binary, sharded; returns result lines in order."""
        if not lines:
            return []
        shards = max(1, min(shards or NPROC, len(lines)))
        chunks = [lines[i::shards] for i in range(shards)]

        def one(chunk):
            cmd = [binary]
            pre = None
            if vmem_kb:
                import resource
                def pre():
                    resource.setrlimit(resource.RLIMIT_AS, (vmem_kb * 1024, vmem_kb * 1024))
            # a hang (non-termination) must surface as a result for the line being processed, not as a stuck check
            tmo = min(timeout, int(os.environ.get("VERIF_CASE_TIMEOUT", "600" if self.tier == "quick" else "3000")))
            pr = subprocess.Popen(cmd, stdin=subprocess.PIPE, stdout=subprocess.PIPE, stderr=subprocess.PIPE, text=True,
                                  env=env, preexec_fn=pre)
            timed_out = False
            try:
                so, se = pr.communicate("\n".join(chunk) + "\n", timeout=tmo)
            except subprocess.TimeoutExpired:
                pr.kill()
                so, se = pr.communicate()
                timed_out = True
            outl = (so or "").split("\n")
            if outl and outl[-1] == "":
                outl.pop()
            if timed_out or pr.returncode != 0 or len(outl) != len(chunk):
                # the process died or hung: mark the first unanswered line
                why = "TIMEOUT after %ds (non-termination?)" % tmo if timed_out else "rc=%d %s" % (pr.returncode, (se or "").strip().replace("\n", " | ")[-300:])
                outl = outl[:len(chunk)] + ["CRASH " + why]
                outl += ["NORESULT"] * (len(chunk) - len(outl))
            return outl[:len(chunk)]
        with concurrent.futures.ThreadPoolExecutor(shards) as ex:
            outs = list(ex.map(one, chunks))
        res = [None] * len(lines)
        for s, o in enumerate(outs):
            for j, v in enumerate(o[:len(chunks[s])]):
                res[s + j * shards] = v
        return res

    # ---------- reporting ----------
    def count(self, case_key, nontrivial):
        self.evaluations += 1
        if nontrivial:
            self.nontrivial.add(case_key if isinstance(case_key, str) else json.dumps(case_key, sort_keys=True))

    def sample(self, obj, limit=6):
        if len(self.samples) < limit:
            self.samples.append(obj)

    def violation(self, what, replay_obj, no_failing_input=False):
        """Record a violation unless it matches a known finding."""
        kf = match_known(self.findings, self.prop, replay_obj)
        if kf is not None:
            line = "KNOWN-FINDING: property=%s %s" % (self.prop, kf["what"])
            if line not in self.known:
                self.known.append(line)
            return False
        rdir = REPLAYS
        os.makedirs(rdir, exist_ok=True)
        n = len(self.violations)
        path = os.path.join(rdir, "%s-%d-%d.json" % (self.prop, self.seed, n))
        replay_obj = dict(replay_obj)
        replay_obj.setdefault("property", self.prop)
        replay_obj["what"] = what
        replay_obj["rerun"] = "./check %s --replay %s" % (self.prop, path)
        with open(path, "w") as f:
            json.dump(replay_obj, f, indent=1, sort_keys=True)
        self.violations.append((what, path, no_failing_input))
        return True

    def finish(self, level, rule, checker_cmd=None, extra=None, exhaustive=False):
        for line in self.known:
            print(line)
        cov = {
            "evaluations": self.evaluations,
            "distinct_nontrivial": len(self.nontrivial),
            "rule": rule,
            "samples": self.samples or ["<no cases>"],
            "exhaustive": exhaustive,
        }
        if level == "proof":
            ok = [t for t in self.theorems if t["assumptions"] != ["<not printed>"]]
            cov.update({
                "obligations": len(self.theorems),
                "discharged": len(ok),
                "checker_cmd": checker_cmd or "make -C coq (coqc 8.16.1, full .vo build) ; coqc Props/%s.v" % self.prop,
                "trusted_base": TRUSTED_BASE + ["axioms used: " + (", ".join(sorted({a for t in self.theorems for a in t["assumptions"] if a != "Closed under the global context"})) or "none (all theorems closed under the global context)")],
                "theorems": self.theorems,
            })
        if extra:
            cov.update(extra)
        cov.update(self.coverage)
        cov["known_findings_reported"] = self.known
        if self.notes:
            cov["notes"] = self.notes
        ev = {
            "property_id": self.prop,
            "tier": self.tier,
            "seed": self.seed,
            "level": level,
            "coverage": cov,
            "assumptions": self.assumptions,
            "wall_s": round(time.time() - self.t0, 2),
            "violations": len(self.violations),
        }
        os.makedirs(EVID, exist_ok=True)
        with open(os.path.join(EVID, self.prop + ".json"), "w") as f:
            json.dump(ev, f, indent=1)
        for what, path, nf in self.violations[:20]:
            print("# " + what[:500])
            print("VIOLATION property=%s replay=%s%s" % (self.prop, path, " no-failing-input-found" if nf else ""))
        sys.stdout.flush()
        return 1 if self.violations else 0


def parse_assumptions(out):
    """Split coqc output into one block per Print Assumptions."""
    blocks = []
    cur = None
    for line in out.split("\n"):
        if line.startswith("Closed under the global context"):
            if cur is not None:
                blocks.append(cur)
                cur = None
            blocks.append(["Closed under the global context"])
        elif line.startswith("Axioms:"):
            if cur is not None:
                blocks.append(cur)
            cur = []
        elif cur is not None:
            m = re.match(r"^(\S+)\s*:", line)
            if m:
                cur.append(m.group(1))
            elif line.startswith(" ") or line.strip() == "":
                continue
            else:
                blocks.append(cur)
                cur = None
    if cur is not None:
        blocks.append(cur)
    return blocks


FORBIDDEN = re.compile(r"\b(Admitted|admit|Axiom|Axioms|Parameter|Parameters|Conjecture|Conjectures|Unset Guard Checking|bypass_check|Admit Obligations|type-in-type|impredicative-set)\b")


def grep_gate():
    bad = []
    for dp, _, fs in os.walk(COQ):
        for f in fs:
            if f.endswith(".v") or f == "_CoqProject":
                p = os.path.join(dp, f)
                for i, line in enumerate(open(p, errors="replace"), 1):
                    code = re.sub(r"\(\*.*?\*\)", "", line)
                    if FORBIDDEN.search(code):
                        bad.append("%s:%d: %s" % (os.path.relpath(p, VERIF), i, line.strip()[:80]))
    return bad


def load_known_findings():
    p = os.path.join(VERIF, "known_findings.json")
    if not os.path.exists(p):
        return []
    return json.load(open(p)).get("findings", [])


def match_known(findings, prop, replay_obj):
    """A finding matches when status == known, same property, and every key of its
    'match' object equals the replay object's 'class' entry of the same key."""
    cls = replay_obj.get("class") or {}
    for f in findings:
        if f.get("status") != "known" or f.get("property") != prop:
            continue
        m = f.get("match") or {}
        if m and all(cls.get(k) == v for k, v in m.items()):
            return f
    return None


def sha(b):
    return hashlib.sha256(b).hexdigest()


def run_check(prop, fn, argv):
    ctx = Ctx(prop, argv)
    try:
        rc = fn(ctx)
    except Fail as e:
        # infrastructure or proof failure: the property is no longer shown to hold
        rdir = REPLAYS
        os.makedirs(rdir, exist_ok=True)
        path = os.path.join(rdir, "%s-%d-infra.json" % (prop, ctx.seed))
        json.dump({"property": prop, "what": "check could not complete: a build, proof obligation or correspondence run failed",
                   "detail": str(e)[-6000:]}, open(path, "w"), indent=1)
        print("# " + str(e)[-1500:].replace("\n", "\n# "))
        print("VIOLATION property=%s replay=%s no-failing-input-found" % (prop, path))
        ev = {"property_id": prop, "tier": ctx.tier, "seed": ctx.seed, "level": "proof",
              "coverage": {"evaluations": ctx.evaluations, "distinct_nontrivial": len(ctx.nontrivial),
                           "explanation": "check aborted: " + str(e)[:500], "samples": ctx.samples or ["<none>"]},
              "wall_s": round(time.time() - ctx.t0, 2), "violations": 1}
        os.makedirs(EVID, exist_ok=True)
        json.dump(ev, open(os.path.join(EVID, prop + ".json"), "w"), indent=1)
        rc = 1
    sys.exit(rc)
