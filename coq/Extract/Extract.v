(* Extraction of the executable model to OCaml.  ExtrOcamlBasic only: bool,
   option, unit, list, prod and sumbool map to the OCaml types; positive, N, Z
   and nat stay the extracted inductive types (no 63-bit overflow). *)
Require Extraction.
Require Import ExtrOcamlBasic.
From Gopar Require Import Model.Base Model.GF16 Model.Kernels Model.Ssse3 Model.Matrix Model.RS16 Model.Parallel Model.CRC Model.GoPath Model.FS Model.Par2 Model.Par2Spec Model.GF8 Model.Par1 Model.Par1Spec Model.CLI.
Extraction Language OCaml.
Set Extraction Optimize.
Extraction "model.ml"
  clmul pmod fmul fpow hmul qpow
  Poly64_Times Poly64_Div Poly64_Times_spec Poly64_Div_check tables_init the_tables T_Times T_Inverse T_Div T_Pow
  kernel kspec_fast kern_scalar_asm_with asm_count_legacy
  std_to_alt alt_to_std mul_alt mul_std muladd_std ssse3_chunks
  RowReduce16 Inverse16 Times16 Times16_checked mmul16
  new_coder gen_parity reconstruct erase all_generators
  apply_matrix par_params chunks
  crc32 win_new win_update scan scan_spec clean dir base ext join2 check_filename is_abs rel_path
  io_init io_read io_list io_write par2_create par2_verify par2_repair repair_needed repair_possible
  read_file write_file write_packet read_next_packet
  valid_set valid_file s_parse
  valid_par1_set s1_parse
  par1_create par1_verify par1_repair read_volume write_volume g8mul g8pow par1_encode par1_reconstruct encode_utf16le decode_utf16le
  cli_run parse_flags.
