#!/bin/sh
# usage: goal.sh File.v LINE  -- show the proof state just before LINE (development aid)
f=$1; n=$2
d=$(mktemp -d)
head -n $((n-1)) "$f" > $d/G.v
printf '\nShow.\nAbort.\n' >> $d/G.v
(cd $d && timeout 120 coqc -Q /verif/coq Gopar G.v 2>&1 | tail -${3:-40})
rm -rf $d
