(* Finding 1 (fixed): the scalar assembly of the pinned commit computed its
   element count with SHRW $1, CX, i.e. asm_count_legacy; for byte lengths
   >= 65536 the loop then runs past both buffers. *)
From Gopar Require Import Model.Base Model.Kernels Proofs.KernelFacts.
Open Scope N_scope.

Theorem C09_scalar_overrun_refuted :
  exists len, N.even len = true /\ len < asm_extent asm_count_legacy len.
Proof. exact legacy_count_overruns. Qed.
Print Assumptions C09_scalar_overrun_refuted.
