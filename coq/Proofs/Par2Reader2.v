(* The resynchronising PAR2 reader (read_file_go, the model of gopar's readFile), continued.
   RD1 read_file_never_out_of_fuel: the fuel of the loop never matters.  read_file_total (the loop run with the
       fuel S (length buf) the model gives it) satisfies the fuel-free recursion equation of the loop
       (read_file_total_eq); any two fuels above length buf give the same result; and RFErr is NEVER the fuel
       running out: read_file_go (S (length buf)) buf ... = RFErr IFF reader_err buf ..., an inductive
       characterisation of the genuine causes (a hash-valid own-set packet whose body read_main / read_fdesc /
       read_ifsc / read_recv rejects, a recovery packet that conflicts with one loaded before, or the end
       reached after some packet was found but without creator packet or without set id).
   RD2 intact_packet_at_end_loaded: an intact recovery packet at the END of a recovery file (after any bytes in
       which no magic occurrence parses as a packet) IS loaded - there is no RFErr alternative; the same when it is
       followed by bytes of which nothing parses (intact_packet_before_unparsable_loaded).
   RD3 blocks_spread_over_files: LoadParityData on a fault-free state, every listed path holding a sequence of
       well-formed packets: the result is Ok acc, acc is the concatenation of the per-file recovery lists, and
       slot e of parity_array acc holds the block d IFF some file contains a recovery packet (e, d) of the set -
       whatever the distribution over the files, the order and the duplication (blocks_distribution_invariant);
       parity_array depends only on the association the list represents (parity_array_assoc_invariant,
       parity_array_set_invariant). *)
From Coq Require Import Lia ZifyN ZifyNat.
From Gopar Require Import Model.Base Model.GF16 Model.Matrix Model.RS16 Model.CRC Model.GoPath Model.FS Model.Par2
     Proofs.Par2Facts Proofs.Par2Create Proofs.Par2Layout Proofs.Par2Verify Proofs.Par2Resync Proofs.Par2Ignore
     Proofs.Par2CreatePaths.
From Gopar Require Proofs.Par1Clean.
Open Scope N_scope.
Set Default Timeout 120.

Notation read_res := Par1Clean.read_res.


(** * association lists and the recovery-block array (for RD3) *)

Lemma assoc_n_app {A} (a b : list (N * A)) e :
  assoc_n (a ++ b) e = match assoc_n a e with Some x => Some x | None => assoc_n b e end.
Proof.
  induction a as [|[k v] a IH]; cbn [app assoc_n]; [reflexivity|].
  destruct (k =? e); [reflexivity|exact IH].
Qed.

Lemma assoc_n_in {A} (l : list (N * A)) e d : assoc_n l e = Some d -> In (e, d) l.
Proof.
  induction l as [|[k v] l IH]; cbn [assoc_n In]; [discriminate|].
  destruct (N.eqb_spec k e) as [->|NE].
  - intros H. injection H as <-. left. reflexivity.
  - intros H. right. exact (IH H).
Qed.

Lemma assoc_n_not_in {A} (l : list (N * A)) e : assoc_n l e = None -> forall d, ~ In (e, d) l.
Proof.
  induction l as [|[k v] l IH]; cbn [assoc_n In]; [intros _ d []|].
  destruct (N.eqb_spec k e) as [->|NE]; [discriminate|].
  intros H d [E|Hin]; [injection E as E _; exact (NE E)|exact (IH H d Hin)].
Qed.

(* one block per exponent *)
Definition functional_acc (acc : list (N * bytes)) : Prop :=
  forall e d1 d2, In (e, d1) acc -> In (e, d2) acc -> d1 = d2.

Lemma assoc_n_functional acc e d : functional_acc acc -> (assoc_n acc e = Some d <-> In (e, d) acc).
Proof.
  intros Hf. split; [apply assoc_n_in|].
  intros Hin. destruct (assoc_n acc e) as [d'|] eqn:EA.
  - apply assoc_n_in in EA. rewrite (Hf e d' d EA Hin). reflexivity.
  - exfalso. exact (assoc_n_not_in acc e EA d Hin).
Qed.

Definition max_exp (acc : list (N * bytes)) : N := fold_left (fun m (ed : N * bytes) => N.max m (fst ed)) acc 0.

Lemma parity_array_unfold acc : acc <> [] ->
  parity_array acc = map (fun e => assoc_n acc (N.of_nat e)) (seq 0 (S (N.to_nat (max_exp acc)))).
Proof. destruct acc as [|a acc]; [intros H; exfalso; apply H; reflexivity|reflexivity]. Qed.

Lemma assoc_n_key_le (acc : list (N * bytes)) e d : assoc_n acc e = Some d -> e <= max_exp acc.
Proof.
  intros H. apply (proj2 (fold_max_bound acc 0)). apply assoc_n_some_iff. rewrite H. reflexivity.
Qed.

(* slot e of the array is what the list associates with e (None also beyond the end of the array) *)
Lemma parity_array_nth_assoc (acc : list (N * bytes)) e : nth (N.to_nat e) (parity_array acc) None = assoc_n acc e.
Proof.
  destruct acc as [|a0 acc0] eqn:Eacc; [destruct (N.to_nat e); reflexivity|]. rewrite <- Eacc.
  assert (Hne : acc <> []) by (rewrite Eacc; discriminate).
  rewrite (parity_array_unfold acc Hne). clear Eacc a0 acc0 Hne.
  destruct (N.leb_spec e (max_exp acc)) as [Hle|Hgt].
  - assert (Hlt : (N.to_nat e < S (N.to_nat (max_exp acc)))%nat) by lia.
    rewrite (nth_indep _ None (assoc_n acc (N.of_nat 0))) by (rewrite map_length, seq_length; exact Hlt).
    rewrite (map_nth (fun k => assoc_n acc (N.of_nat k)) (seq 0 (S (N.to_nat (max_exp acc)))) 0%nat).
    rewrite seq_nth by exact Hlt. cbn [plus]. rewrite N2Nat.id. reflexivity.
  - rewrite nth_overflow by (rewrite map_length, seq_length; lia).
    destruct (assoc_n acc e) as [d|] eqn:EA; [|reflexivity].
    apply assoc_n_key_le in EA. lia.
Qed.

Lemma fold_max_in : forall (acc : list (N * bytes)) m0,
  let r := fold_left (fun m (ed : N * bytes) => N.max m (fst ed)) acc m0 in r = m0 \/ In r (map fst acc).
Proof.
  induction acc as [|[k v] acc IH]; intros m0; cbn [fold_left map fst In]; [left; reflexivity|].
  cbv zeta in IH. destruct (IH (N.max m0 k)) as [E|Hin].
  - rewrite E. destruct (N.max_spec m0 k) as [[_ ->]|[_ ->]]; [right; left; reflexivity|left; reflexivity].
  - right. right. exact Hin.
Qed.

Lemma max_exp_in (acc : list (N * bytes)) : acc <> [] -> In (max_exp acc) (map fst acc).
Proof.
  intros Hne. destruct (fold_max_in acc 0) as [E|Hin]; [|exact Hin].
  fold (max_exp acc) in E.
  destruct acc as [|[k v] acc]; [exfalso; apply Hne; reflexivity|].
  pose proof (proj2 (fold_max_bound ((k, v) :: acc) 0) k (or_introl eq_refl)) as Hk.
  fold (max_exp ((k, v) :: acc)) in Hk. rewrite E in *.
  left. cbn [fst]. lia.
Qed.

(* the array depends only on the association the list represents *)
Theorem parity_array_assoc_invariant (acc1 acc2 : list (N * bytes)) :
  (forall e, assoc_n acc1 e = assoc_n acc2 e) -> parity_array acc1 = parity_array acc2.
Proof.
  intros H.
  assert (Hkeys : forall a1 a2 : list (N * bytes), (forall e, assoc_n a1 e = assoc_n a2 e) ->
                  forall k, In k (map fst a1) -> In k (map fst a2)).
  { intros a1 a2 Ha k Hk. apply assoc_n_some_iff. rewrite <- Ha. apply assoc_n_some_iff. exact Hk. }
  assert (Hnil : forall a1 a2 : list (N * bytes), (forall e, assoc_n a1 e = assoc_n a2 e) -> a1 = [] -> a2 = []).
  { intros a1 a2 Ha ->. destruct a2 as [|[k v] a2]; [reflexivity|].
    specialize (Ha k). cbn [assoc_n] in Ha. rewrite N.eqb_refl in Ha. discriminate Ha. }
  destruct acc1 as [|x1 r1] eqn:E1.
  - rewrite (Hnil [] acc2 H eq_refl). reflexivity.
  - rewrite <- E1 in *.
    assert (N1 : acc1 <> []) by (rewrite E1; discriminate).
    assert (N2 : acc2 <> []).
    { intros E2. apply N1. apply (Hnil acc2 acc1); [intros e; symmetry; apply H|exact E2]. }
    rewrite (parity_array_unfold acc1 N1), (parity_array_unfold acc2 N2).
    assert (Emx : max_exp acc1 = max_exp acc2).
    { pose proof (proj2 (fold_max_bound acc2 0) _ (Hkeys acc1 acc2 H _ (max_exp_in acc1 N1))) as L1.
      pose proof (proj2 (fold_max_bound acc1 0) _
                    (Hkeys acc2 acc1 (fun e => eq_sym (H e)) _ (max_exp_in acc2 N2))) as L2.
      fold (max_exp acc2) in L1. fold (max_exp acc1) in L2. lia. }
    rewrite Emx. apply map_ext. intros k. apply H.
Qed.

(* in particular only on the SET of (exponent, block) pairs, when there is one block per exponent *)
Theorem parity_array_set_invariant (acc1 acc2 : list (N * bytes)) :
  (forall x, In x acc1 <-> In x acc2) -> functional_acc acc1 -> parity_array acc1 = parity_array acc2.
Proof.
  intros Hm Hf1.
  assert (Hf2 : functional_acc acc2).
  { intros e d1 d2 I1 I2. apply (Hf1 e d1 d2); apply Hm; assumption. }
  apply parity_array_assoc_invariant. intros e. apply option_ext. intros d.
  rewrite (assoc_n_functional acc1 e d Hf1), (assoc_n_functional acc2 e d Hf2). apply Hm.
Qed.

(* E : t = TYPE_Y, T : t = TYPE_X with X <> Y *)
Ltac tcontra E T := exfalso; rewrite E in T; revert T; apply bytes_eqb_neq; vm_compute; reflexivity.

Section Reader2.
  Variable md5 : bytes -> bytes.

  (** * RD1. the fuel never matters *)

  (* the packet belongs to the set the loop reads (any set while none is fixed: the index file) *)
  Definition own_set (setid : option bytes) (psid : bytes) : Prop :=
    match setid with Some sid => psid = sid | None => True end.
  Definition next_setid (setid : option bytes) (psid : bytes) : option bytes :=
    match setid with Some sid => Some sid | None => Some psid end.
  Definition skip_set (setid : option bytes) (psid : bytes) : bool :=
    match setid with Some sid => negb (bytes_eqb psid sid) | None => false end.

  (* one round of the loop on a packet, in terms of step_packet *)
  Lemma read_file_go_packet fuel buf setid found f psid ptype body rest :
    read_next_packet md5 buf = NPPacket psid ptype body rest ->
    read_file_go md5 (S fuel) buf setid found f =
      if skip_set setid psid then read_file_go md5 fuel rest setid found f
      else match step_packet md5 f (psid, ptype, body) with
           | Some f' => read_file_go md5 fuel rest (next_setid setid psid) true f'
           | None => RFErr
           end.
  Proof.
    intros HP. rewrite read_file_go_S, HP. cbv zeta. fold (skip_set setid psid). fold (next_setid setid psid).
    destruct (skip_set setid psid); [reflexivity|].
    unfold step_packet. cbn [pk_type pk_body fst snd].
    destruct (bytes_eqb ptype TYPE_CREATOR); [reflexivity|].
    destruct (bytes_eqb ptype TYPE_MAIN).
    { destruct (read_main body) as [m|e|q]; reflexivity. }
    destruct (bytes_eqb ptype TYPE_FDESC).
    { destruct (read_fdesc md5 body) as [[id d]|e|q]; reflexivity. }
    destruct (bytes_eqb ptype TYPE_IFSC).
    { destruct (read_ifsc body) as [[id ps]|e|q]; reflexivity. }
    destruct (bytes_eqb ptype TYPE_RECV).
    { destruct (read_recv body) as [[e d]|e|q]; try reflexivity.
      destruct (assoc_n (pf_recv f) e) as [d'|]; [|reflexivity].
      destruct (bytes_eqb d' d); reflexivity. }
    reflexivity.
  Qed.

  (* Par2Resync.read_next_packet_shorter and read_file_go_fuel, here WITHOUT the premise on the length of the digest
     (their proofs picked it up from the context; nothing in RD1 depends on it) *)
  Lemma read_next_packet_shorter' buf psid ptype body rest :
    read_next_packet md5 buf = NPPacket psid ptype body rest -> (length rest < length buf)%nat.
  Proof.
    intros H. destruct (read_next_packet_rest md5 _ _ _ _ _ H) as (pre & -> & Hpre). rewrite app_length. lia.
  Qed.

  Lemma read_file_go_fuel' : forall fuel1 fuel2 buf setid found f,
    (length buf < fuel1)%nat -> (length buf < fuel2)%nat ->
    read_file_go md5 fuel1 buf setid found f = read_file_go md5 fuel2 buf setid found f.
  Proof.
    induction fuel1 as [|fuel1 IH]; intros fuel2 buf setid found f H1 H2; [lia|].
    destruct fuel2 as [|fuel2]; [lia|].
    destruct (read_next_packet md5 buf) as [| |psid ptype body rest] eqn:ENP.
    - rewrite !read_file_go_S, ENP. reflexivity.
    - rewrite !read_file_go_S, ENP.
      destruct (find_magic (tl buf)) as [rest|] eqn:EF; [|reflexivity].
      apply find_magic_length in EF.
      destruct buf as [|x buf]; [discriminate ENP|]. cbn [tl length] in *. apply IH; lia.
    - rewrite !(read_file_go_packet _ _ _ _ _ _ _ _ _ ENP).
      apply read_next_packet_shorter' in ENP.
      destruct (skip_set setid psid); [apply IH; lia|].
      destruct (step_packet md5 f (psid, ptype, body)) as [f'|]; [apply IH; lia|reflexivity].
  Qed.

  (* the loop with the fuel the model gives it *)
  Definition read_file_total (buf : bytes) (setid : option bytes) (found : bool) (f : pfile) : rf_result :=
    read_file_go md5 (S (length buf)) buf setid found f.

  Lemma read_file_total_fuel fuel buf setid found f : (length buf < fuel)%nat ->
    read_file_go md5 fuel buf setid found f = read_file_total buf setid found f.
  Proof. intros H. apply read_file_go_fuel'; [exact H|lia]. Qed.

  (* the recursion equation of the loop, WITHOUT fuel: no branch fails for want of it *)
  Theorem read_file_total_eq buf setid found f :
    read_file_total buf setid found f =
      match read_next_packet md5 buf with
      | NPEof => rf_finish setid found f
      | NPErr => match find_magic (tl buf) with
                 | Some rest => read_file_total rest setid found f
                 | None => rf_finish setid found f
                 end
      | NPPacket psid ptype body rest =>
          if skip_set setid psid then read_file_total rest setid found f
          else match step_packet md5 f (psid, ptype, body) with
               | Some f' => read_file_total rest (next_setid setid psid) true f'
               | None => RFErr
               end
      end.
  Proof.
    unfold read_file_total at 1.
    destruct (read_next_packet md5 buf) as [| |psid ptype body rest] eqn:ENP.
    - rewrite read_file_go_S, ENP. reflexivity.
    - rewrite read_file_go_S, ENP.
      destruct (find_magic (tl buf)) as [rest|] eqn:EF; [|reflexivity].
      apply read_file_total_fuel.
      pose proof (find_magic_length _ _ EF) as HL.
      destruct buf as [|x buf]; [discriminate ENP|]. cbn [tl length] in *. lia.
    - rewrite (read_file_go_packet _ _ _ _ _ _ _ _ _ ENP).
      pose proof (read_next_packet_shorter' _ _ _ _ _ ENP) as HL.
      destruct (skip_set setid psid); [apply read_file_total_fuel; lia|].
      destruct (step_packet md5 f (psid, ptype, body)) as [f'|]; [apply read_file_total_fuel; lia|reflexivity].
  Qed.

  (* a hash-valid packet of a type the loop interprets whose body the body reader rejects *)
  Definition body_rejected (ptype body : bytes) : Prop :=
    (ptype = TYPE_MAIN /\ forall m, read_main body <> Ok m) \/
    (ptype = TYPE_FDESC /\ forall x, read_fdesc md5 body <> Ok x) \/
    (ptype = TYPE_IFSC /\ forall x, read_ifsc body <> Ok x) \/
    (ptype = TYPE_RECV /\ forall x, read_recv body <> Ok x).

  (* a recovery packet whose block differs from the one loaded before for the same exponent *)
  Definition recv_conflict (f : pfile) (ptype body : bytes) : Prop :=
    ptype = TYPE_RECV /\ exists e d d', read_recv body = Ok (e, d) /\ assoc_n (pf_recv f) e = Some d' /\ d' <> d.

  (* the end of the input is reached after a packet was found, without creator packet or without set id *)
  Definition end_rejected (setid : option bytes) (f : pfile) : Prop := pf_client f = None \/ setid = None.

  Inductive reader_err : bytes -> option bytes -> bool -> pfile -> Prop :=
  | RE_eof setid f : end_rejected setid f -> reader_err [] setid true f
  | RE_no_magic buf setid f :
      read_next_packet md5 buf = NPErr -> find_magic (tl buf) = None -> end_rejected setid f ->
      reader_err buf setid true f
  | RE_resync buf rest setid found f :
      read_next_packet md5 buf = NPErr -> find_magic (tl buf) = Some rest ->
      reader_err rest setid found f -> reader_err buf setid found f
  | RE_other_set buf sid found f psid ptype body rest :
      read_next_packet md5 buf = NPPacket psid ptype body rest -> psid <> sid ->
      reader_err rest (Some sid) found f -> reader_err buf (Some sid) found f
  | RE_rejected buf setid found f psid ptype body rest :
      read_next_packet md5 buf = NPPacket psid ptype body rest -> own_set setid psid ->
      body_rejected ptype body -> reader_err buf setid found f
  | RE_conflict buf setid found f psid ptype body rest :
      read_next_packet md5 buf = NPPacket psid ptype body rest -> own_set setid psid ->
      recv_conflict f ptype body -> reader_err buf setid found f
  | RE_later buf setid found f psid ptype body rest f' :
      read_next_packet md5 buf = NPPacket psid ptype body rest -> own_set setid psid ->
      step_packet md5 f (psid, ptype, body) = Some f' ->
      reader_err rest (next_setid setid psid) true f' -> reader_err buf setid found f.

  Lemma rf_finish_err setid found f : rf_finish setid found f = RFErr <-> found = true /\ end_rejected setid f.
  Proof.
    unfold rf_finish, end_rejected. destruct found; cbn [negb].
    - destruct (pf_client f) as [c|]; [destruct setid as [sid|]|].
      + split; [discriminate|]. intros [_ [H|H]]; discriminate H.
      + split; [|reflexivity]. intros _. split; [reflexivity|right; reflexivity].
      + split; [|reflexivity]. intros _. split; [reflexivity|left; reflexivity].
    - split; [discriminate|]. intros [H _]. discriminate H.
  Qed.

  Lemma skip_set_true setid psid : skip_set setid psid = true <-> exists sid, setid = Some sid /\ psid <> sid.
  Proof.
    unfold skip_set. destruct setid as [sid|].
    - rewrite negb_true_iff. split.
      + intros H. exists sid. split; [reflexivity|apply bytes_eqb_neq; exact H].
      + intros (s & E & Hne). injection E as <-. apply bytes_eqb_neq_false. exact Hne.
    - split; [discriminate|]. intros (s & E & _). discriminate E.
  Qed.

  Lemma skip_set_false setid psid : skip_set setid psid = false <-> own_set setid psid.
  Proof.
    unfold skip_set, own_set. destruct setid as [sid|]; [|tauto].
    rewrite negb_false_iff. apply bytes_eqb_true_iff.
  Qed.

  (* step_packet refuses exactly the rejected bodies and the conflicting recovery packets *)
  Lemma step_packet_none f psid ptype body :
    step_packet md5 f (psid, ptype, body) = None <-> body_rejected ptype body \/ recv_conflict f ptype body.
  Proof.
    set (p := (psid, ptype, body)).
    assert (ET : pk_type p = ptype) by reflexivity. assert (EB : pk_body p = body) by reflexivity.
    clearbody p.
    unfold body_rejected, recv_conflict.
    destruct (type_cases ptype) as [E|[E|[E|[E|[E|E]]]]].
    - rewrite (step_creator md5 f p) by (rewrite ET; exact E).
      split; [discriminate|].
      intros [[(T & _)|[(T & _)|[(T & _)|(T & _)]]]|(T & _)]; tcontra E T.
    - rewrite (step_main md5 f p) by (rewrite ET; exact E). rewrite EB. split.
      + intros H. left. left. split; [exact E|]. intros m Hm. rewrite Hm in H. discriminate H.
      + intros [[(_ & H)|[(T & _)|[(T & _)|(T & _)]]]|(T & _)]; try tcontra E T.
        destruct (read_main body) as [m|e|q]; [exfalso; exact (H m eq_refl)|reflexivity|reflexivity].
    - rewrite (step_fdesc md5 f p) by (rewrite ET; exact E). rewrite EB. split.
      + intros H. left. right. left. split; [exact E|]. intros [id d] Hm. rewrite Hm in H. discriminate H.
      + intros [[(T & _)|[(_ & H)|[(T & _)|(T & _)]]]|(T & _)]; try tcontra E T.
        destruct (read_fdesc md5 body) as [[id d]|e|q]; [exfalso; exact (H _ eq_refl)|reflexivity|reflexivity].
    - rewrite (step_ifsc md5 f p) by (rewrite ET; exact E). rewrite EB. split.
      + intros H. left. right. right. left. split; [exact E|]. intros [id d] Hm. rewrite Hm in H. discriminate H.
      + intros [[(T & _)|[(T & _)|[(_ & H)|(T & _)]]]|(T & _)]; try tcontra E T.
        destruct (read_ifsc body) as [[id d]|e|q]; [exfalso; exact (H _ eq_refl)|reflexivity|reflexivity].
    - rewrite (step_recv md5 f p) by (rewrite ET; exact E). rewrite EB. split.
      + intros H. destruct (read_recv body) as [[e d]|e|q] eqn:ER.
        * right. split; [exact E|]. exists e, d.
          destruct (assoc_n (pf_recv f) e) as [d'|]; [|discriminate H].
          exists d'. split; [reflexivity|]. split; [reflexivity|].
          destruct (bytes_eqb d' d) eqn:ED; [discriminate H|apply bytes_eqb_neq; exact ED].
        * left. right. right. right. split; [exact E|]. intros x Hx. discriminate Hx.
        * left. right. right. right. split; [exact E|]. intros x Hx. discriminate Hx.
      + intros [[(T & _)|[(T & _)|[(T & _)|(_ & H)]]]|(_ & e & d & d' & ER & EA & Hne)]; try tcontra E T.
        * destruct (read_recv body) as [[e d]|e|q]; [exfalso; exact (H _ eq_refl)|reflexivity|reflexivity].
        * rewrite ER, EA, (bytes_eqb_neq_false d' d Hne). reflexivity.
    - rewrite (step_other md5 f p) by (rewrite ET; exact E).
      destruct E as (O1 & O2 & O3 & O4 & O5).
      split; [discriminate|].
      intros [[(T & _)|[(T & _)|[(T & _)|(T & _)]]]|(T & _)];
        rewrite T in O1, O2, O3, O4, O5; vm_compute in O1, O2, O3, O4, O5; congruence.
  Qed.

  (* soundness: a genuine cause gives RFErr, with ANY fuel *)
  Lemma reader_err_sound buf setid found f : reader_err buf setid found f ->
    forall fuel, read_file_go md5 fuel buf setid found f = RFErr.
  Proof.
    induction 1 as [setid f He|buf setid f HE HF He|buf rest setid found f HE HF _ IH
                    |buf sid found f psid ptype body rest HP Hne _ IH
                    |buf setid found f psid ptype body rest HP Ho Hr
                    |buf setid found f psid ptype body rest HP Ho Hc
                    |buf setid found f psid ptype body rest f' HP Ho Hs _ IH];
      intros [|fuel]; try reflexivity.
    - rewrite read_file_go_S. cbn [read_next_packet]. apply rf_finish_err. split; [reflexivity|exact He].
    - rewrite read_file_go_S, HE, HF. apply rf_finish_err. split; [reflexivity|exact He].
    - rewrite read_file_go_S, HE, HF. apply IH.
    - rewrite (read_file_go_packet _ _ _ _ _ _ _ _ _ HP).
      rewrite (proj2 (skip_set_true (Some sid) psid)) by (exists sid; split; [reflexivity|exact Hne]). apply IH.
    - rewrite (read_file_go_packet _ _ _ _ _ _ _ _ _ HP), (proj2 (skip_set_false _ _) Ho).
      rewrite (proj2 (step_packet_none f psid ptype body)) by (left; exact Hr). reflexivity.
    - rewrite (read_file_go_packet _ _ _ _ _ _ _ _ _ HP), (proj2 (skip_set_false _ _) Ho).
      rewrite (proj2 (step_packet_none f psid ptype body)) by (right; exact Hc). reflexivity.
    - rewrite (read_file_go_packet _ _ _ _ _ _ _ _ _ HP), (proj2 (skip_set_false _ _) Ho), Hs. apply IH.
  Qed.

  (* completeness: with enough fuel, RFErr has a genuine cause *)
  Lemma reader_err_complete : forall fuel buf setid found f, (length buf < fuel)%nat ->
    read_file_go md5 fuel buf setid found f = RFErr -> reader_err buf setid found f.
  Proof.
    induction fuel as [|fuel IH]; intros buf setid found f Hfuel H; [lia|].
    destruct (read_next_packet md5 buf) as [| |psid ptype body rest] eqn:ENP.
    - rewrite read_file_go_S, ENP in H. apply rf_finish_err in H. destruct H as [-> He].
      destruct buf as [|x buf]; [apply RE_eof; exact He|].
      exfalso. unfold read_next_packet in ENP.
      destruct (Nat.ltb (length (x :: buf)) 64); [discriminate ENP|]. cbv zeta in ENP.
      repeat match type of ENP with (if ?c then _ else _) = _ => destruct c; try discriminate ENP end.
    - rewrite read_file_go_S, ENP in H.
      destruct (find_magic (tl buf)) as [rest|] eqn:EF.
      + apply (RE_resync buf rest setid found f ENP EF). apply IH; [|exact H].
        pose proof (find_magic_length _ _ EF) as HL.
        destruct buf as [|x buf]; [discriminate ENP|]. cbn [tl length] in *. lia.
      + apply rf_finish_err in H. destruct H as [-> He]. apply (RE_no_magic buf setid f ENP EF He).
    - rewrite (read_file_go_packet _ _ _ _ _ _ _ _ _ ENP) in H.
      pose proof (read_next_packet_shorter' _ _ _ _ _ ENP) as HL.
      destruct (skip_set setid psid) eqn:ES.
      + apply skip_set_true in ES. destruct ES as (sid & -> & Hne).
        apply (RE_other_set buf sid found f psid ptype body rest ENP Hne). apply IH; [lia|exact H].
      + apply skip_set_false in ES.
        destruct (step_packet md5 f (psid, ptype, body)) as [f'|] eqn:EST.
        * apply (RE_later buf setid found f psid ptype body rest f' ENP ES EST). apply IH; [lia|exact H].
        * apply step_packet_none in EST. destruct EST as [Hr|Hc].
          -- apply (RE_rejected buf setid found f psid ptype body rest ENP ES Hr).
          -- apply (RE_conflict buf setid found f psid ptype body rest ENP ES Hc).
  Qed.

  Theorem read_file_never_out_of_fuel buf setid found f :
    (forall fuel1 fuel2, (length buf < fuel1)%nat -> (length buf < fuel2)%nat ->
       read_file_go md5 fuel1 buf setid found f = read_file_go md5 fuel2 buf setid found f) /\
    (forall fuel, (length buf < fuel)%nat ->
       read_file_go md5 fuel buf setid found f = read_file_total buf setid found f) /\
    (read_file_go md5 (S (length buf)) buf setid found f = RFErr <-> reader_err buf setid found f).
  Proof.
    split; [|split].
    - intros fuel1 fuel2 H1 H2. apply read_file_go_fuel'; assumption.
    - intros fuel Hf. apply read_file_total_fuel. exact Hf.
    - split.
      + apply reader_err_complete. lia.
      + intros H. apply reader_err_sound. exact H.
  Qed.

  (* restated for the two entry points *)
  Corollary read_file_never_out_of_fuel_file expected b :
    (forall fuel, (length b < fuel)%nat -> read_file_go md5 fuel b expected false pf_empty = read_file md5 expected b) /\
    (read_file md5 expected b = RFErr <-> reader_err b expected false pf_empty).
  Proof.
    split.
    - intros fuel Hf. unfold read_file. apply read_file_go_fuel'; [exact Hf|lia].
    - exact (proj2 (proj2 (read_file_never_out_of_fuel b expected false pf_empty))).
  Qed.

  Corollary read_file_never_out_of_fuel_vol sid b :
    (forall fuel, (length b < fuel)%nat -> read_file_go md5 fuel b (Some sid) false pf_vol0 = read_file_vol md5 sid b) /\
    (read_file_vol md5 sid b = RFErr <-> reader_err b (Some sid) false pf_vol0).
  Proof.
    split.
    - intros fuel Hf. unfold read_file_vol. apply read_file_go_fuel'; [exact Hf|lia].
    - exact (proj2 (proj2 (read_file_never_out_of_fuel b (Some sid) false pf_vol0))).
  Qed.

  (** * RD2. an intact recovery packet at the end of a recovery file IS loaded *)

  (* bytes of which nothing of the set parses leave the loop where it is: it finishes in the state it has *)
  Lemma read_file_go_nothing_parses_any sid found f : forall fuel buf,
    (length buf < fuel)%nat -> nothing_parses md5 sid buf ->
    read_file_go md5 fuel buf (Some sid) found f = rf_finish (Some sid) found f.
  Proof.
    induction fuel as [|fuel IH]; intros buf Hfuel Hnp; [lia|].
    rewrite read_file_go_S.
    destruct buf as [|x buf]; [reflexivity|].
    destruct (Hnp [] (x :: buf) eq_refl) as [HE|(psid & ptype & body & rest & HP & Hsid)]; [discriminate| |].
    - rewrite HE. cbn [tl].
      destruct (find_magic buf) as [rest|] eqn:EF; [|reflexivity].
      destruct (find_magic_suffix buf rest EF) as (pre & Hl & _).
      apply IH.
      + cbn [length] in Hfuel. rewrite Hl, app_length in Hfuel. lia.
      + apply (nothing_parses_suffix md5 sid (x :: pre)). cbn [app]. rewrite <- Hl. exact Hnp.
    - rewrite HP. cbv zeta. rewrite (bytes_eqb_neq_false psid sid Hsid). cbn [negb].
      destruct (read_next_packet_rest md5 _ _ _ _ _ HP) as (pre & Hl & Hpre).
      apply IH.
      + rewrite Hl, app_length in Hfuel. lia.
      + apply (nothing_parses_suffix md5 sid pre). rewrite <- Hl. exact Hnp.
  Qed.

  (* a decision procedure for no_packet_before (sound; used for the examples) *)
  Fixpoint no_packet_before_b (pre tail : bytes) : bool :=
    match pre with
    | [] => true
    | _ :: r =>
        (if bytes_eqb (firstn 8 (pre ++ tail)) MAGIC
         then match read_next_packet md5 (pre ++ tail) with NPErr => true | _ => false end
         else true) && no_packet_before_b r tail
    end.

  Lemma no_packet_before_b_sound tail : forall pre,
    no_packet_before_b pre tail = true -> no_packet_before md5 pre tail.
  Proof.
    induction pre as [|x pre IH]; intros H a s Hp Hne Hm.
    - exfalso. apply Hne. destruct a; destruct s; try discriminate Hp. reflexivity.
    - cbn [no_packet_before_b] in H. apply andb_true_iff in H. destruct H as [Hh Ht].
      destruct a as [|y a].
      + cbn [app] in Hp. subst s. rewrite Hm, bytes_eqb_refl in Hh.
        destruct (read_next_packet md5 ((x :: pre) ++ tail)); [discriminate Hh|reflexivity|discriminate Hh].
      + injection Hp as _ Hp. exact (IH Ht a s Hp Hne Hm).
  Qed.

  Hypothesis md5_len : forall x, length (md5 x) = 16%nat.

  (* pk: the image of a recovery packet of the expected set whose body read_recv accepts as (e, d);
     pre: any bytes in which no magic occurrence parses as a packet; post: bytes of which nothing of the set parses.
     The file is ACCEPTED, and what is loaded is exactly the block *)
  Theorem intact_packet_before_unparsable_loaded : forall sid body e d pre post,
    length sid = 16%nat -> 64 + N.of_nat (length body) < 2 ^ 64 -> read_recv body = Ok (e, d) ->
    let pk := write_packet md5 sid TYPE_RECV body in
    no_packet_before md5 pre (pk ++ post) -> nothing_parses md5 sid post ->
    exists f, read_file_vol md5 sid (pre ++ pk ++ post) = RFOk sid f /\ assoc_n (pf_recv f) e = Some d /\
              pf_recv f = [(e, d)].
  Proof.
    intros sid body e d pre post Hs Hv Hr pk Hno Hnp.
    destruct (read_file_intact_packets_survive_vol md5 md5_len sid body e d pre post Hs Hv Hr Hno) as [E _].
    fold pk in E. exists (recv_only_vol e d). split; [|split].
    - rewrite E. rewrite (read_file_go_nothing_parses_any sid true (recv_only_vol e d)) by (try lia; exact Hnp).
      reflexivity.
    - unfold recv_only_vol. cbn [pf_recv assoc_n]. rewrite N.eqb_refl. reflexivity.
    - reflexivity.
  Qed.

  (* the case post = []: the packet is the last thing in the file *)
  Theorem intact_packet_at_end_loaded : forall sid body e d pre,
    length sid = 16%nat -> 64 + N.of_nat (length body) < 2 ^ 64 -> read_recv body = Ok (e, d) ->
    let pk := write_packet md5 sid TYPE_RECV body in
    no_packet_before md5 pre pk ->
    exists f, read_file_vol md5 sid (pre ++ pk) = RFOk sid f /\ assoc_n (pf_recv f) e = Some d.
  Proof.
    intros sid body e d pre Hs Hv Hr pk Hno.
    destruct (intact_packet_before_unparsable_loaded sid body e d pre [] Hs Hv Hr) as (f & HR & HA & _).
    - fold pk. rewrite app_nil_r. exact Hno.
    - apply nothing_parses_nil.
    - fold pk in HR. rewrite app_nil_r in HR. exists f. split; [exact HR|exact HA].
  Qed.

  (** * RD3. recovery blocks spread over several files *)

  Definition is_recv (e : N) (dd : bytes) (q : apkt) : Prop :=
    pk_type q = TYPE_RECV /\ read_recv (pk_body q) = Ok (e, dd).
  Definition is_main (m : mainpkt) (q : apkt) : Prop :=
    pk_type q = TYPE_MAIN /\ read_main (pk_body q) = Ok m.

  (* the loop on a packet sequence whose own-set packets parse and whose recovery packets agree: it accepts, and
     the state has exactly the recovery packets of the sequence *)
  Lemma run_good sid : forall l, parses md5 sid l -> recv_agree sid l ->
    exists f found, run md5 sid l = Some (f, found) /\
      (found = true <-> own_in sid l (fun _ => True)) /\
      (forall m, pf_main f = Some m -> own_in sid l (is_main m)) /\
      (forall e dd, assoc_n (pf_recv f) e = Some dd <-> own_in sid l (is_recv e dd)) /\
      (forall e dd, In (e, dd) (pf_recv f) -> own_in sid l (is_recv e dd)).
  Proof.
    induction l as [|p l IH] using rev_ind; intros Hp Ha.
    - exists pf_empty, false. split; [reflexivity|]. cbn [pf_empty pf_main pf_recv assoc_n In].
      split; [split; [discriminate|intros H; destruct (own_in_nil _ _ H)]|].
      split; [discriminate|].
      split; [intros e dd; split; [discriminate|intros H; destruct (own_in_nil _ _ H)]|].
      intros e dd [].
    - destruct IH as (f0 & fd0 & ER & I1 & I2 & I3 & I4).
      + intros q Hin. apply Hp. apply in_or_app. left. exact Hin.
      + intros q1 q2 e d1 d2 J1 J2. apply Ha; apply in_or_app; left; assumption.
      + rewrite run_snoc, ER. cbn [lstep].
        destruct (bytes_eqb (pk_set p) sid) eqn:Eo.
        * apply bytes_eqb_eq in Eo.
          destruct (step_ok md5 f0 p) as (f1 & ES).
          -- apply Hp; [apply in_snoc_last|exact Eo].
          -- intros e d d' T R A. apply I3 in A. destruct A as (q & Hin & Hq & Tq & Rq).
             apply (Ha q p e d' d); try assumption; [apply in_or_app; left; exact Hin|apply in_snoc_last].
          -- rewrite ES. exists f1, true. split; [reflexivity|].
             split; [split; [intros _; apply own_in_snoc; right; auto|reflexivity]|].
             split; [|split].
             ++ intros m Hm. apply own_in_snoc.
                destruct (main_eff md5 _ _ _ ES) as [(E & m0 & R & Em)|(E & Em)].
                ** right. split; [exact Eo|]. split; [exact E|]. congruence.
                ** left. apply I2. congruence.
             ++ exact (recv_step md5 sid l p f0 f1 Eo ES I3).
             ++ intros e dd Hin. apply own_in_snoc.
                destruct (recv_eff md5 _ _ _ ES) as [(E & e0 & d0 & R & [(A & Em)|(A & Em)])|(E & Em)].
                ** left. apply I4. rewrite <- Em. exact Hin.
                ** rewrite Em in Hin. destruct Hin as [Hin|Hin]; [|left; apply I4; exact Hin].
                   injection Hin as <- <-. right. split; [exact Eo|]. split; [exact E|exact R].
                ** left. apply I4. rewrite <- Em. exact Hin.
        * apply bytes_eqb_neq in Eo. exists f0, fd0. split; [reflexivity|].
          split; [rewrite own_in_snoc; tauto|].
          split; [intros m Hm; apply own_in_snoc; left; exact (I2 m Hm)|].
          split; [intros e dd; rewrite own_in_snoc; specialize (I3 e dd); tauto|].
          intros e dd Hin. apply own_in_snoc. left. exact (I4 e dd Hin).
  Qed.

  (* the recovery list LoadParityData takes from a file with these bytes *)
  Definition vol_recv (sid : bytes) (b : bytes) : list (N * bytes) :=
    match read_file_vol md5 sid b with RFOk _ f => pf_recv f | _ => [] end.

  (* the volume reader on such a sequence: "no packets found" when it has no packet of the set, accepted otherwise *)
  Lemma read_file_vol_good sid l : Forall wf_pkt l -> parses md5 sid l -> recv_agree sid l ->
    (read_file_vol md5 sid (frames md5 l) = RFNoPackets /\ ~ own_in sid l (fun _ => True)) \/
    (exists f, read_file_vol md5 sid (frames md5 l) = RFOk sid f /\
       (forall m, pf_main f = Some m -> own_in sid l (is_main m)) /\
       (forall e dd, assoc_n (pf_recv f) e = Some dd <-> own_in sid l (is_recv e dd)) /\
       (forall e dd, In (e, dd) (pf_recv f) -> own_in sid l (is_recv e dd))).
  Proof.
    intros Hwf Hp Ha.
    destruct (run_good sid l Hp Ha) as (f & found & ER & I1 & I2 & I3 & I4).
    rewrite (read_file_vol_run md5 md5_len sid l Hwf), run_vol_run, ER.
    destruct found.
    - right. exists (vol_client f). split; [apply finish_vol|].
      split; [exact I2|split; [exact I3|exact I4]].
    - left. split; [reflexivity|]. intros H. apply I1 in H. discriminate H.
  Qed.

  (* the main packet describes the recovery set of the decoder (what LoadParityData checks) *)
  Definition main_agrees (d : decoder) (m : mainpkt) : bool :=
    (mp_slice m =? d_slice d) && list_beq_bytes (map di_id (d_rec d)) (mp_rec m)
    && list_beq_bytes (map di_id (d_nonrec d)) (mp_nonrec m).

  (* a packet as LoadParityData accepts it: well-formed; if of the decoder's set: a body of an interpreted type
     parses (otherwise readFile rejects the whole file), a main packet describes the decoder's set, a recovery
     block has the slice size *)
  Definition pkt_ok (d : decoder) (q : apkt) : Prop :=
    wf_pkt q /\
    (pk_set q = d_setid d ->
       parses_pkt md5 q /\
       (forall m, is_main m q -> main_agrees d m = true) /\
       (forall e dd, is_recv e dd q -> N.of_nat (length dd) = d_slice d)).

  (* some file has the recovery packet (e, dd) of the set *)
  Definition has_block (sid : bytes) (ls : list (list apkt)) (e : N) (dd : bytes) : Prop :=
    exists l q, In l ls /\ In q l /\ pk_set q = sid /\ is_recv e dd q.

  Lemma has_block_concat sid ls e dd : has_block sid ls e dd <-> own_in sid (concat ls) (is_recv e dd).
  Proof.
    unfold has_block, own_in. split.
    - intros (l & q & Hl & Hq & Hs & Hr). exists q. split; [|auto].
      apply in_concat. exists l. split; assumption.
    - intros (q & Hin & Hs & Hr). apply in_concat in Hin. destruct Hin as (l & Hl & Hq).
      exists l, q. auto.
  Qed.

  (* LoadParityData on a fault-free state: the accumulator grows by the recovery list of each file, the last file first *)
  Lemma load_parity_spread d : forall paths ls, Forall2 (fun p l => True) paths ls ->
    forall acc st, io_sched st = [] ->
    Forall2 (fun p l => read_res (io_fs st) p = Ok (frames md5 l)) paths ls ->
    (forall l q, In l ls -> In q l -> pkt_ok d q) ->
    (forall l, In l ls -> recv_agree (d_setid d) l) ->
    exists st', load_parity md5 d paths acc st =
                  (Ok (concat (rev (map (fun l => vol_recv (d_setid d) (frames md5 l)) ls)) ++ acc), st') /\
                io_sched st' = [] /\ io_fs st' = io_fs st.
  Proof.
    induction 1 as [|p l paths ls _ _ IH]; intros acc st Hs HR Hok Hag.
    - exists st. cbn [load_parity map rev concat app]. split; [reflexivity|split; [exact Hs|reflexivity]].
    - inversion HR as [|p' l' paths' ls' Hread HR']; subst p' l' paths' ls'.
      destruct (Par1Clean.io_read_nosched p st Hs) as (st1 & ER & Hs1 & Hf1).
      cbn [load_parity]. rewrite ER, Hread.
      assert (Hwf : Forall wf_pkt l).
      { apply Forall_forall. intros q Hq. exact (proj1 (Hok l q (or_introl eq_refl) Hq)). }
      assert (Hp : parses md5 (d_setid d) l).
      { intros q Hq Hsq. exact (proj1 (proj2 (Hok l q (or_introl eq_refl) Hq) Hsq)). }
      assert (IH' : forall acc', exists st',
                 load_parity md5 d paths acc' st1 =
                   (Ok (concat (rev (map (fun l => vol_recv (d_setid d) (frames md5 l)) ls)) ++ acc'), st') /\
                 io_sched st' = [] /\ io_fs st' = io_fs st).
      { intros acc'. destruct (IH acc' st1 Hs1) as (st' & E & Hs' & Hf').
        - rewrite Hf1. exact HR'.
        - intros l0 q Hl0. apply Hok. right. exact Hl0.
        - intros l0 Hl0. apply Hag. right. exact Hl0.
        - exists st'. split; [exact E|split; [exact Hs'|rewrite Hf'; exact Hf1]]. }
      cbn [map rev]. rewrite concat_app. cbn [concat]. rewrite app_nil_r, <- app_assoc.
      unfold vol_recv at 2.
      destruct (read_file_vol_good (d_setid d) l Hwf Hp (Hag l (or_introl eq_refl)))
        as [(EV & _)|(f & EV & M & _ & R)]; rewrite EV.
      + cbn [app]. apply IH'.
      + assert (Emain : negb (match pf_main f with
                              | None => true
                              | Some m => (mp_slice m =? d_slice d)
                                          && list_beq_bytes (map di_id (d_rec d)) (mp_rec m)
                                          && list_beq_bytes (map di_id (d_nonrec d)) (mp_nonrec m)
                              end) = false).
        { destruct (pf_main f) as [m|] eqn:EM; [|reflexivity].
          destruct (M m eq_refl) as (q & Hq & Hsq & Hm).
          pose proof (proj1 (proj2 (proj2 (Hok l q (or_introl eq_refl) Hq) Hsq)) m Hm) as A.
          unfold main_agrees in A. rewrite A. reflexivity. }
        rewrite Emain.
        assert (Elen : existsb (fun ed : N * bytes => negb (N.of_nat (length (snd ed)) =? d_slice d)) (pf_recv f) = false).
        { destruct (existsb (fun ed : N * bytes => negb (N.of_nat (length (snd ed)) =? d_slice d)) (pf_recv f)) eqn:EX;
            [|reflexivity].
          apply existsb_exists in EX. destruct EX as ([e dd] & Hin & Hneg).
          destruct (R e dd Hin) as (q & Hq & Hsq & Hr).
          pose proof (proj2 (proj2 (proj2 (Hok l q (or_introl eq_refl) Hq) Hsq)) e dd Hr) as A.
          cbn [snd] in Hneg. rewrite A, N.eqb_refl in Hneg. discriminate Hneg. }
        rewrite Elen. apply IH'.
  Qed.

  Lemma assoc_n_concat {A} (L : list (list (N * A))) e d :
    assoc_n (concat L) e = Some d -> exists a, In a L /\ assoc_n a e = Some d.
  Proof.
    induction L as [|a L IH]; cbn [concat]; [discriminate|].
    rewrite assoc_n_app. destruct (assoc_n a e) as [x|] eqn:EA.
    - intros H. exists a. split; [left; reflexivity|congruence].
    - intros H. destruct (IH H) as (a' & Hin & Ha'). exists a'. split; [right; exact Hin|exact Ha'].
  Qed.

  Lemma assoc_n_concat_some {A} (L : list (list (N * A))) e a d :
    In a L -> assoc_n a e = Some d -> exists d', assoc_n (concat L) e = Some d'.
  Proof.
    induction L as [|a0 L IH]; intros Hin Ha; [destruct Hin|].
    cbn [concat]. rewrite assoc_n_app. destruct (assoc_n a0 e) as [x|] eqn:EA; [exists x; reflexivity|].
    destruct Hin as [->|Hin]; [congruence|]. exact (IH Hin Ha).
  Qed.

  (* C06: the recovery files, under whatever names (the paths are those the listing returned), hold the packets of
     the set in any distribution, order and duplication; the blocks of one exponent agree.  LoadParityData succeeds,
     its result is the concatenation of the per-file recovery lists (last file first), and slot e of the array holds
     d IFF some file has the recovery packet (e, d); it is empty (or beyond the end) IFF no file has a packet for e *)
  Theorem blocks_spread_over_files d paths ls st :
    io_sched st = [] ->
    Forall2 (fun p l => read_res (io_fs st) p = Ok (frames md5 l)) paths ls ->
    (forall l q, In l ls -> In q l -> pkt_ok d q) ->
    recv_agree (d_setid d) (concat ls) ->
    exists acc st',
      load_parity md5 d paths [] st = (Ok acc, st') /\
      acc = concat (rev (map (fun l => vol_recv (d_setid d) (frames md5 l)) ls)) /\
      (forall e dd, assoc_n acc e = Some dd <-> has_block (d_setid d) ls e dd) /\
      (forall e dd, nth (N.to_nat e) (parity_array acc) None = Some dd <-> has_block (d_setid d) ls e dd) /\
      (forall e, nth (N.to_nat e) (parity_array acc) None = None <-> ~ exists dd, has_block (d_setid d) ls e dd).
  Proof.
    intros Hs HR Hok Hag.
    assert (Hagl : forall l, In l ls -> recv_agree (d_setid d) l).
    { intros l Hl q1 q2 e d1 d2 J1 J2. apply Hag; apply in_concat; exists l; split; assumption. }
    assert (HF : Forall2 (fun (p : list N) (l : list apkt) => True) paths ls).
    { clear -HR. induction HR; constructor; [exact I|assumption]. }
    destruct (load_parity_spread d paths ls HF [] st Hs HR Hok Hagl) as (st' & E & _ & _).
    rewrite app_nil_r in E.
    set (acc := concat (rev (map (fun l => vol_recv (d_setid d) (frames md5 l)) ls))) in *.
    (* the per-file lists *)
    assert (Hfile : forall l, In l ls -> forall e dd,
              assoc_n (vol_recv (d_setid d) (frames md5 l)) e = Some dd <-> own_in (d_setid d) l (is_recv e dd)).
    { intros l Hl e dd.
      assert (Hwf : Forall wf_pkt l).
      { apply Forall_forall. intros q Hq. exact (proj1 (Hok l q Hl Hq)). }
      assert (Hp : parses md5 (d_setid d) l).
      { intros q Hq Hsq. exact (proj1 (proj2 (Hok l q Hl Hq) Hsq)). }
      unfold vol_recv.
      destruct (read_file_vol_good (d_setid d) l Hwf Hp (Hagl l Hl)) as [(EV & Hnone)|(f & EV & _ & R & _)]; rewrite EV.
      - cbn [assoc_n]. split; [discriminate|]. intros (q & Hq & Hsq & _). exfalso. apply Hnone. exists q. auto.
      - apply R. }
    assert (Hacc : forall e dd, assoc_n acc e = Some dd <-> has_block (d_setid d) ls e dd).
    { intros e dd. split.
      - intros H. apply assoc_n_concat in H. destruct H as (a & Hin & Ha).
        apply in_rev, in_map_iff in Hin. destruct Hin as (l & <- & Hl).
        apply (Hfile l Hl) in Ha. destruct Ha as (q & Hq & Hsq & Hr). exists l, q. auto.
      - intros (l & q & Hl & Hq & Hsq & Hr).
        assert (Ha : assoc_n (vol_recv (d_setid d) (frames md5 l)) e = Some dd).
        { apply (Hfile l Hl). exists q. auto. }
        assert (Hin : In (vol_recv (d_setid d) (frames md5 l))
                         (rev (map (fun l => vol_recv (d_setid d) (frames md5 l)) ls))).
        { apply in_rev. rewrite rev_involutive. apply in_map_iff. exists l. split; [reflexivity|exact Hl]. }
        destruct (assoc_n_concat_some _ e _ dd Hin Ha) as (d' & Hd'). fold acc in Hd'.
        rewrite Hd'. f_equal.
        (* the first hit is a block of some file: the blocks agree *)
        apply assoc_n_concat in Hd'. destruct Hd' as (a' & Hin' & Ha').
        apply in_rev, in_map_iff in Hin'. destruct Hin' as (l' & <- & Hl').
        apply (Hfile l' Hl') in Ha'. destruct Ha' as (q' & Hq' & Hsq' & Tq' & Rq').
        destruct Hr as (Tq & Rq).
        apply (Hag q' q e d' dd); try assumption; apply in_concat; [exists l'|exists l]; split; assumption. }
    exists acc, st'. split; [exact E|]. split; [reflexivity|]. split; [exact Hacc|]. split.
    - intros e dd. rewrite parity_array_nth_assoc. apply Hacc.
    - intros e. rewrite parity_array_nth_assoc. split.
      + intros Hn (dd & Hb). apply Hacc in Hb. congruence.
      + intros Hn. destruct (assoc_n acc e) as [dd|] eqn:EA; [|reflexivity].
        exfalso. apply Hn. exists dd. apply Hacc. exact EA.
  Qed.

  (* ... whatever the distribution: two sets of recovery files that hold the same SET of packets (over any number of
     files, under any names, in any order, with any duplication) give the same array of recovery blocks *)
  Theorem blocks_distribution_invariant d paths1 ls1 st1 paths2 ls2 st2 :
    io_sched st1 = [] -> io_sched st2 = [] ->
    Forall2 (fun p l => read_res (io_fs st1) p = Ok (frames md5 l)) paths1 ls1 ->
    Forall2 (fun p l => read_res (io_fs st2) p = Ok (frames md5 l)) paths2 ls2 ->
    (forall q, In q (concat ls1) <-> In q (concat ls2)) ->
    (forall q, In q (concat ls1) -> pkt_ok d q) ->
    recv_agree (d_setid d) (concat ls1) ->
    exists acc1 st1' acc2 st2',
      load_parity md5 d paths1 [] st1 = (Ok acc1, st1') /\
      load_parity md5 d paths2 [] st2 = (Ok acc2, st2') /\
      parity_array acc1 = parity_array acc2.
  Proof.
    intros Hs1 Hs2 HR1 HR2 Hm Hok Hag.
    assert (Hag2 : recv_agree (d_setid d) (concat ls2)).
    { intros q1 q2 e d1 d2 J1 J2. apply Hag; apply Hm; assumption. }
    destruct (blocks_spread_over_files d paths1 ls1 st1 Hs1 HR1) as (acc1 & st1' & E1 & _ & A1 & _).
    { intros l q Hl Hq. apply Hok. apply in_concat. exists l. split; assumption. }
    { exact Hag. }
    destruct (blocks_spread_over_files d paths2 ls2 st2 Hs2 HR2) as (acc2 & st2' & E2 & _ & A2 & _).
    { intros l q Hl Hq. apply Hok. apply Hm. apply in_concat. exists l. split; assumption. }
    { exact Hag2. }
    exists acc1, st1', acc2, st2'. split; [exact E1|]. split; [exact E2|].
    apply parity_array_assoc_invariant. intros e. apply option_ext. intros dd.
    rewrite A1, A2, !has_block_concat. apply own_in_ext. exact Hm.
  Qed.
End Reader2.

(** * examples with the toy hash *)

Lemma toy_md5_len16 : forall x, List.length (toy_md5 x) = 16%nat.
Proof.
  intros x. unfold toy_md5. rewrite firstn_length, app_length, map_length, Par2Create.zeros_length. lia.
Qed.

Module RD1Example.
  Definition body5 : bytes := [5; 0; 0; 0; 1; 2; 3; 4].          (* exponent 5, block 1 2 3 4 *)
  Definition body5' : bytes := [5; 0; 0; 0; 9; 9; 9; 9].         (* exponent 5, another block *)
  Definition pk1 : bytes := write_packet toy_md5 ig_sid TYPE_RECV body5.
  Definition pk2 : bytes := write_packet toy_md5 ig_sid TYPE_RECV body5'.

  (* a good file: junk, a packet, junk that contains the magic sequence.  Accepted with the model's fuel and with
     any larger one; with too little fuel the loop gives RFErr although nothing is wrong with the file - the
     bound length buf < fuel of RD1 is what excludes this *)
  Definition good_file : bytes := [7; 7] ++ pk1 ++ ig_garbage.
  Example rd1_good :
    read_file_vol toy_md5 ig_sid good_file = RFOk ig_sid (recv_only_vol 5 [1; 2; 3; 4]) /\
    read_file_go toy_md5 1000 good_file (Some ig_sid) false pf_vol0 = read_file_vol toy_md5 ig_sid good_file /\
    read_file_go toy_md5 2 good_file (Some ig_sid) false pf_vol0 = RFErr /\
    ~ reader_err toy_md5 good_file (Some ig_sid) false pf_vol0.
  Proof.
    split; [vm_compute; reflexivity|]. split; [vm_compute; reflexivity|]. split; [vm_compute; reflexivity|].
    intros H. apply (proj2 (read_file_never_out_of_fuel_vol toy_md5 ig_sid good_file)) in H.
    vm_compute in H. discriminate H.
  Qed.

  (* the three genuine causes *)
  (* 1. a conflicting duplicate: two recovery packets for exponent 5 with different blocks *)
  Definition conflict_file : bytes := pk1 ++ [7; 7] ++ pk2.
  Example rd1_conflict :
    read_file_vol toy_md5 ig_sid conflict_file = RFErr /\ reader_err toy_md5 conflict_file (Some ig_sid) false pf_vol0.
  Proof.
    assert (E : read_file_vol toy_md5 ig_sid conflict_file = RFErr) by (vm_compute; reflexivity).
    split; [exact E|]. apply (proj2 (read_file_never_out_of_fuel_vol toy_md5 ig_sid conflict_file)). exact E.
  Qed.
  (* the derivation, spelled out: the first packet is taken, two bytes are skipped, the second packet conflicts *)
  Example rd1_conflict_derivation : reader_err toy_md5 conflict_file (Some ig_sid) false pf_vol0.
  Proof.
    apply (RE_later toy_md5 conflict_file (Some ig_sid) false pf_vol0 ig_sid TYPE_RECV body5 ([7; 7] ++ pk2)
             (recv_only_vol 5 [1; 2; 3; 4])); [vm_compute; reflexivity|reflexivity|vm_compute; reflexivity|].
    apply (RE_resync toy_md5 ([7; 7] ++ pk2) pk2); [vm_compute; reflexivity|vm_compute; reflexivity|].
    apply (RE_conflict toy_md5 pk2 _ true _ ig_sid TYPE_RECV body5' []); [vm_compute; reflexivity|reflexivity|].
    split; [reflexivity|]. exists 5, [9; 9; 9; 9], [1; 2; 3; 4].
    split; [vm_compute; reflexivity|]. split; [vm_compute; reflexivity|discriminate].
  Qed.

  (* 2. a hash-valid recovery packet whose body read_recv rejects (it is empty) *)
  Definition rejected_file : bytes := write_packet toy_md5 ig_sid TYPE_RECV [].
  Example rd1_rejected :
    read_file_vol toy_md5 ig_sid rejected_file = RFErr /\ reader_err toy_md5 rejected_file (Some ig_sid) false pf_vol0.
  Proof.
    split; [vm_compute; reflexivity|].
    apply (RE_rejected toy_md5 rejected_file _ false _ ig_sid TYPE_RECV [] []); [vm_compute; reflexivity|reflexivity|].
    right. right. right. split; [reflexivity|]. intros x Hx. vm_compute in Hx. discriminate Hx.
  Qed.

  (* 3. the end reached without creator packet (the ordinary reader; the volume reader accepts the same bytes) *)
  Example rd1_no_creator :
    read_file toy_md5 (Some ig_sid) pk1 = RFErr /\ reader_err toy_md5 pk1 (Some ig_sid) false pf_empty /\
    read_file_vol toy_md5 ig_sid pk1 = RFOk ig_sid (recv_only_vol 5 [1; 2; 3; 4]).
  Proof.
    assert (E : read_file toy_md5 (Some ig_sid) pk1 = RFErr) by (vm_compute; reflexivity).
    split; [exact E|]. split; [|vm_compute; reflexivity].
    apply (proj2 (read_file_never_out_of_fuel_file toy_md5 (Some ig_sid) pk1)). exact E.
  Qed.
End RD1Example.

Module RD2Example.
  Definition body : bytes := [5; 0; 0; 0; 1; 2; 3; 4].
  Definition pk : bytes := write_packet toy_md5 ig_sid TYPE_RECV body.
  (* before the packet: garbage with two magic sequences, and a copy of the packet with one byte of the set id
     changed (its hash does not match) *)
  Definition pre : bytes := ig_garbage ++ [1; 2; 3] ++ firstn 33 pk ++ [99] ++ skipn 34 pk.
  (* after it: garbage with magic sequences, and a packet of another set *)
  Definition post : bytes := ig_garbage ++ ig_other.

  Example rd2_premises :
    List.length ig_sid = 16%nat /\ 64 + N.of_nat (List.length body) < 2 ^ 64 /\ read_recv body = Ok (5, [1; 2; 3; 4]) /\
    no_packet_before toy_md5 pre pk /\ no_packet_before toy_md5 pre (pk ++ post) /\ nothing_parses toy_md5 ig_sid post /\
    List.length pre = 151%nat /\ List.length post = 161%nat.
  Proof.
    split; [reflexivity|]. split; [vm_compute; reflexivity|]. split; [vm_compute; reflexivity|].
    split; [apply no_packet_before_b_sound; vm_compute; reflexivity|].
    split; [apply no_packet_before_b_sound; vm_compute; reflexivity|].
    split; [apply nothing_parses_b_sound; vm_compute; reflexivity|].
    split; vm_compute; reflexivity.
  Qed.

  (* the conclusions, computed *)
  Example rd2_at_end : read_file_vol toy_md5 ig_sid (pre ++ pk) = RFOk ig_sid (recv_only_vol 5 [1; 2; 3; 4]).
  Proof. vm_compute. reflexivity. Qed.
  Example rd2_before_unparsable :
    read_file_vol toy_md5 ig_sid (pre ++ pk ++ post) = RFOk ig_sid (recv_only_vol 5 [1; 2; 3; 4]).
  Proof. vm_compute. reflexivity. Qed.

  (* and by the theorems *)
  Example rd2_by_theorem :
    (exists f, read_file_vol toy_md5 ig_sid (pre ++ pk) = RFOk ig_sid f /\ assoc_n (pf_recv f) 5 = Some [1; 2; 3; 4]) /\
    (exists f, read_file_vol toy_md5 ig_sid (pre ++ pk ++ post) = RFOk ig_sid f /\ pf_recv f = [(5, [1; 2; 3; 4])]).
  Proof.
    destruct rd2_premises as (H1 & H2 & H3 & H4 & H5 & H6 & _). split.
    - exact (intact_packet_at_end_loaded toy_md5 toy_md5_len16 ig_sid body 5 [1; 2; 3; 4] pre H1 H2 H3 H4).
    - destruct (intact_packet_before_unparsable_loaded toy_md5 toy_md5_len16 ig_sid body 5 [1; 2; 3; 4] pre post
                  H1 H2 H3 H5 H6) as (f & HR & _ & HP).
      exists f. split; [exact HR|exact HP].
  Qed.
End RD2Example.

Module RD3Example.
  Import String.
  Local Open Scope string_scope.
  Local Open Scope list_scope.
  Definition sid : bytes := ig_sid.
  Definition fid : bytes := map N.of_nat (seq 100 16).          (* the id of the one protected file *)
  Definition dec : decoder :=
    {| d_index := bs "/w/o.par2"; d_setid := sid; d_slice := 4;
       d_rec := [{| di_id := fid; di_name := bs "a"; di_len := 5; di_h16 := []; di_hash := []; di_pairs := [] |}];
       d_nonrec := [] |}.
  (* the packets: the main packet of the set, three recovery packets (exponents 0, 1, 3), the creator packet, a
     packet of a type the reader does not interpret, and a recovery packet of ANOTHER set (same exponent as r1,
     a block of another size: ignored) *)
  Definition pmain : apkt := (sid, TYPE_MAIN, le_encode 8 4 ++ le_encode 4 1 ++ fid).
  Definition r0 : apkt := (sid, TYPE_RECV, le_encode 4 0 ++ [1; 2; 3; 4]).
  Definition r1 : apkt := (sid, TYPE_RECV, le_encode 4 1 ++ [5; 6; 7; 8]).
  Definition r3 : apkt := (sid, TYPE_RECV, le_encode 4 3 ++ [9; 9; 9; 9]).
  Definition creator : apkt := (sid, TYPE_CREATOR, [103; 111; 112; 97]).
  Definition unk : apkt := (sid, ascii_type (PAR2_0 ++ [88]), [1; 2; 3; 4]).
  Definition other : apkt := (ig_sid2, TYPE_RECV, le_encode 4 1 ++ [0; 0; 0; 0; 0; 0; 0; 0]).

  (* distribution A: three files under unrelated names; the second has nothing of the set *)
  Definition lsA : list (list apkt) := [[pmain; r3; r0]; [other]; [r3; other; unk; r1; creator; r3]].
  Definition pathsA : list (list N) := [bs "/w/o.vol00+02.par2"; bs "/w/x.par2"; bs "/elsewhere/zz.par2"].
  Definition fsA : list (list N * bytes) := combine pathsA (map (frames toy_md5) lsA).
  (* distribution B: everything in one file, another order, r0 twice *)
  Definition lsB : list (list apkt) := [[r1; creator; r0; r0; pmain; unk; other; r3]].
  Definition pathsB : list (list N) := [bs "/w/all.par2"].
  Definition fsB : list (list N * bytes) := combine pathsB (map (frames toy_md5) lsB).

  Ltac in_cases H :=
    cbn [List.concat app In] in H;
    repeat match type of H with _ \/ _ => destruct H as [<-|H] end; try (destruct H).

  Lemma pkt_ok_A : forall q, In q (List.concat lsA) -> pkt_ok toy_md5 dec q.
  Proof.
    intros q Hin. unfold lsA in Hin. in_cases Hin.
    all: split; [repeat split; vm_compute; reflexivity|].
    all: intros Hs; try (vm_compute in Hs; discriminate Hs).
    all: split; [|split].
    all: try (split; [|split; [|split]]; intros T; try (vm_compute in T; discriminate T); repeat eexists;
              vm_compute; reflexivity).
    all: try (intros m (T & R); try (vm_compute in T; discriminate T); vm_compute in R; injection R as <-;
              vm_compute; reflexivity).
    all: intros e dd (T & R); try (vm_compute in T; discriminate T); vm_compute in R; injection R as <- <-;
         vm_compute; reflexivity.
  Qed.

  Lemma recv_agree_A : recv_agree sid (List.concat lsA).
  Proof.
    intros q1 q2 e d1 d2 I1 I2 S1 S2 T1 T2 R1 R2. unfold lsA in I1, I2.
    in_cases I1; try (vm_compute in T1; discriminate T1); try (vm_compute in S1; discriminate S1);
      in_cases I2; try (vm_compute in T2; discriminate T2); try (vm_compute in S2; discriminate S2);
      vm_compute in R1, R2; congruence.
  Qed.

  Lemma same_set_AB : forall q, In q (List.concat lsA) <-> In q (List.concat lsB).
  Proof.
    intros q. unfold lsA, lsB. cbn [List.concat app In]. tauto.
  Qed.

  (* the premises of RD3 for distribution A *)
  Example rd3_premises_A :
    io_sched (io_init fsA []) = [] /\
    Forall2 (fun p l => read_res (io_fs (io_init fsA [])) p = Ok (frames toy_md5 l)) pathsA lsA /\
    (forall l q, In l lsA -> In q l -> pkt_ok toy_md5 dec q) /\
    recv_agree (d_setid dec) (List.concat lsA).
  Proof.
    split; [reflexivity|]. split; [|split].
    - unfold pathsA, lsA. repeat (constructor; [vm_compute; reflexivity|]). constructor.
    - intros l q Hl Hq. apply pkt_ok_A. apply in_concat. exists l. split; [exact Hl|exact Hq].
    - intros q1 q2 e d1 d2 I1 I2. apply recv_agree_A; assumption.
  Qed.

  (* what RD3 gives, and the same computed: blocks 0, 1, 3 are loaded, slot 2 is empty *)
  Example rd3_A_by_theorem :
    exists acc st', load_parity toy_md5 dec pathsA [] (io_init fsA []) = (Ok acc, st') /\
      nth 0 (parity_array acc) None = Some [1; 2; 3; 4] /\ nth 1 (parity_array acc) None = Some [5; 6; 7; 8] /\
      nth 2 (parity_array acc) None = None /\ nth 3 (parity_array acc) None = Some [9; 9; 9; 9].
  Proof.
    destruct rd3_premises_A as (H1 & H2 & H3 & H4).
    destruct (blocks_spread_over_files toy_md5 toy_md5_len16 dec pathsA lsA _ H1 H2 H3 H4)
      as (acc & st' & E & _ & _ & HS & HN).
    exists acc, st'. split; [exact E|].
    split; [|split; [|split]].
    - apply (HS 0). exists [pmain; r3; r0], r0. unfold lsA. cbn [In].
      split; [tauto|]. split; [tauto|]. split; [reflexivity|]. split; [reflexivity|vm_compute; reflexivity].
    - apply (HS 1). exists [r3; other; unk; r1; creator; r3], r1. unfold lsA. cbn [In].
      split; [tauto|]. split; [tauto|]. split; [reflexivity|]. split; [reflexivity|vm_compute; reflexivity].
    - apply (HN 2). intros (dd & l & q & Hl & Hq & Hs & T & R).
      assert (Hin : In q (List.concat lsA)) by (apply in_concat; exists l; split; assumption).
      clear Hl Hq. unfold lsA in Hin. in_cases Hin; vm_compute in R; discriminate R.
    - apply (HS 3). exists [pmain; r3; r0], r3. unfold lsA. cbn [In].
      split; [tauto|]. split; [tauto|]. split; [reflexivity|]. split; [reflexivity|vm_compute; reflexivity].
  Qed.

  Example rd3_A_computed :
    option_map parity_array (match fst (load_parity toy_md5 dec pathsA [] (io_init fsA [])) with Ok a => Some a | _ => None end)
      = Some [Some [1; 2; 3; 4]; Some [5; 6; 7; 8]; None; Some [9; 9; 9; 9]] /\
    option_map parity_array (match fst (load_parity toy_md5 dec pathsB [] (io_init fsB [])) with Ok a => Some a | _ => None end)
      = Some [Some [1; 2; 3; 4]; Some [5; 6; 7; 8]; None; Some [9; 9; 9; 9]].
  Proof. split; vm_compute; reflexivity. Qed.

  (* the premises of the invariance theorem for A and B, and its conclusion *)
  Example rd3_invariance_AB :
    exists acc1 st1' acc2 st2',
      load_parity toy_md5 dec pathsA [] (io_init fsA []) = (Ok acc1, st1') /\
      load_parity toy_md5 dec pathsB [] (io_init fsB []) = (Ok acc2, st2') /\
      parity_array acc1 = parity_array acc2.
  Proof.
    destruct rd3_premises_A as (H1 & H2 & H3 & H4).
    apply (blocks_distribution_invariant toy_md5 toy_md5_len16 dec pathsA lsA (io_init fsA []) pathsB lsB (io_init fsB []));
      [exact H1|reflexivity|exact H2| |exact same_set_AB| |exact H4].
    - unfold pathsB, lsB. repeat (constructor; [vm_compute; reflexivity|]). constructor.
    - intros q Hq. apply in_concat in Hq. destruct Hq as (l & Hl & Hq). exact (H3 l q Hl Hq).
  Qed.

  (* the hypotheses are needed: a recovery packet of the set that contradicts r1 (same exponent, another block) in a
     further file does not make the load fail - the later file wins, so "the block of exponent 1" would not be
     well defined (hence recv_agree over ALL the files); in the SAME file it makes the load fail *)
  Definition r1' : apkt := (sid, TYPE_RECV, le_encode 4 1 ++ [0; 0; 0; 0]).
  Example rd3_conflict_across_files :
    let ls := lsA ++ [[r1']] in let paths := pathsA ++ [bs "/w/late.par2"] in
    let fs := combine paths (map (frames toy_md5) ls) in
    option_map parity_array (match fst (load_parity toy_md5 dec paths [] (io_init fs [])) with Ok a => Some a | _ => None end)
      = Some [Some [1; 2; 3; 4]; Some [0; 0; 0; 0]; None; Some [9; 9; 9; 9]].
  Proof. vm_compute. reflexivity. Qed.
  Example rd3_conflict_same_file :
    let ls := [[r1; r0; r1']] in let paths := [bs "/w/one.par2"] in
    let fs := combine paths (map (frames toy_md5) ls) in
    fst (load_parity toy_md5 dec paths [] (io_init fs [])) = Err EMalformed.
  Proof. vm_compute. reflexivity. Qed.
  (* a main packet of the set that describes another set of files, or a block of another size: rejected *)
  Example rd3_wrong_main_or_size :
    let bad_main : apkt := (sid, TYPE_MAIN, le_encode 8 8 ++ le_encode 4 1 ++ fid) in
    let bad_size : apkt := (sid, TYPE_RECV, le_encode 4 2 ++ [1; 2; 3; 4; 5; 6; 7; 8]) in
    let run (l : list apkt) := fst (load_parity toy_md5 dec [bs "/w/one.par2"] []
                                      (io_init [(bs "/w/one.par2", frames toy_md5 l)] [])) in
    run [r0; bad_main] = Err EMalformed /\ run [r0; bad_size] = Err EMalformed /\ run [r0; pmain] = Ok [(0, [1; 2; 3; 4])].
  Proof. vm_compute. repeat split; reflexivity. Qed.
End RD3Example.

Print Assumptions read_file_total_eq.
Print Assumptions read_file_never_out_of_fuel.
Print Assumptions read_file_never_out_of_fuel_file.
Print Assumptions read_file_never_out_of_fuel_vol.
Print Assumptions reader_err_sound.
Print Assumptions reader_err_complete.
Print Assumptions intact_packet_before_unparsable_loaded.
Print Assumptions intact_packet_at_end_loaded.
Print Assumptions parity_array_nth_assoc.
Print Assumptions parity_array_assoc_invariant.
Print Assumptions parity_array_set_invariant.
Print Assumptions load_parity_spread.
Print Assumptions blocks_spread_over_files.
Print Assumptions blocks_distribution_invariant.
Print Assumptions RD1Example.rd1_good.
Print Assumptions RD1Example.rd1_conflict.
Print Assumptions RD1Example.rd1_conflict_derivation.
Print Assumptions RD1Example.rd1_rejected.
Print Assumptions RD1Example.rd1_no_creator.
Print Assumptions RD2Example.rd2_premises.
Print Assumptions RD2Example.rd2_at_end.
Print Assumptions RD2Example.rd2_before_unparsable.
Print Assumptions RD2Example.rd2_by_theorem.
Print Assumptions RD3Example.rd3_premises_A.
Print Assumptions RD3Example.rd3_A_by_theorem.
Print Assumptions RD3Example.rd3_A_computed.
Print Assumptions RD3Example.rd3_invariance_AB.
Print Assumptions RD3Example.rd3_conflict_across_files.
Print Assumptions RD3Example.rd3_conflict_same_file.
Print Assumptions RD3Example.rd3_wrong_main_or_size.
