(* A PAR2 recovery file in which NO packet of the recovery set parses is ignored by LoadParityData.
   nothing_parses sid b: at every non-empty suffix of b the packet reader fails, or it returns a packet of
   another recovery set (psid <> sid; the loop skips such a packet without effect).
   I1 read_file_vol_nothing_parses: then the volume reader returns "no packets found" (RFNoPackets);
   I2 load_parity_skips_unparsable: LoadParityData goes on to the next path with the accumulator unchanged;
   I3 load_all_ignores_unparsable_recovery_file: the loading phase (newDecoder + LoadFileData + LoadParityData)
      returns the same outcome on a file system with one extra such file at a path of the recovery-file
      pattern as without it (the PAR2 analogue of Par1Volumes.p1_load_ignores_unparsable_volume).
      load_all_ignores_unparsable_recovery_file_gen: the same with the premise on the LISTING itself.
   I4 load_all_frame: the loading phase depends on the file system only through the index file, the protected files,
      the listing of the recovery-file pattern (files of the index file's own directory) and the files listed. *)
From Coq Require Import Lia Permutation.
From Gopar Require Import Model.Base Model.GF16 Model.Matrix Model.RS16 Model.CRC Model.GoPath Model.FS Model.Par2
     Proofs.GoPathFacts Proofs.Par2Facts Proofs.Par2Create Proofs.Par2Layout Proofs.Par2Verify Proofs.Par2Clean
     Proofs.CreatePerm Proofs.Par2Resync Proofs.Par2CreatePaths.
From Gopar Require Proofs.Par1Clean.
Open Scope N_scope.
Set Default Timeout 120.

Notation read_res := Par1Clean.read_res.

(** * the sorted listing: insertion sort over the total order str_ltb *)

Lemma str_ltb_le_lt z x y : str_ltb z x = false -> str_ltb z y = true -> str_ltb x y = true.
Proof.
  intros Hzx Hzy. destruct (str_ltb x z) eqn:C.
  - exact (str_ltb_trans x z y C Hzy).
  - pose proof (str_ltb_tri z x Hzx C) as E. subst z. exact Hzy.
Qed.

Lemma insert_sorted_two x y (l : list (list N)) :
  (if str_ltb y x then y :: x :: l else x :: y :: l) = (if str_ltb x y then x :: y :: l else y :: x :: l).
Proof.
  destruct (str_ltb y x) eqn:A; destruct (str_ltb x y) eqn:B; try reflexivity.
  - rewrite (str_ltb_asym y x A) in B. discriminate B.
  - pose proof (str_ltb_tri x y B A) as E. subst y. reflexivity.
Qed.

Lemma insert_sorted_comm x y : forall l,
  insert_sorted x (insert_sorted y l) = insert_sorted y (insert_sorted x l).
Proof.
  induction l as [|z l IH]; cbn [insert_sorted].
  - exact (insert_sorted_two x y []).
  - destruct (str_ltb z y) eqn:Zy; destruct (str_ltb z x) eqn:Zx; cbn [insert_sorted]; rewrite ?Zy, ?Zx.
    + rewrite IH. reflexivity.
    + rewrite (str_ltb_le_lt z x y Zx Zy). cbn [insert_sorted]. rewrite ?Zy. reflexivity.
    + rewrite (str_ltb_le_lt z y x Zy Zx). cbn [insert_sorted]. rewrite ?Zx. reflexivity.
    + pose proof (insert_sorted_two x y (z :: l)) as T.
      destruct (str_ltb y x); destruct (str_ltb x y); cbn [insert_sorted]; rewrite ?Zy, ?Zx; exact T.
Qed.

Lemma sort_paths_perm l l' : Permutation l l' -> sort_paths l = sort_paths l'.
Proof.
  unfold sort_paths. intros P. induction P as [|x l l' P IH|x y l|l l' l'' P1 IH1 P2 IH2]; cbn [fold_right].
  - reflexivity.
  - rewrite IH. reflexivity.
  - apply insert_sorted_comm.
  - rewrite IH1. exact IH2.
Qed.

Lemma filter_perm {A} (f : A -> bool) l l' : Permutation l l' -> Permutation (filter f l) (filter f l').
Proof.
  intros P. induction P as [|x l l' P IH|x y l|l l' l'' P1 IH1 P2 IH2]; cbn [filter].
  - constructor.
  - destruct (f x); [constructor; exact IH|exact IH].
  - destruct (f x); destruct (f y); try apply Permutation_refl. apply perm_swap.
  - exact (Permutation_trans IH1 IH2).
Qed.

Lemma insert_sorted_split x : forall l, exists l1 l2, l = l1 ++ l2 /\ insert_sorted x l = l1 ++ x :: l2.
Proof.
  induction l as [|y l IH]; cbn [insert_sorted].
  - exists [], []. split; reflexivity.
  - destruct (str_ltb y x).
    + destruct IH as (l1 & l2 & Hl & Hi). exists (y :: l1), l2. rewrite Hi. split; [rewrite Hl at 1|]; reflexivity.
    + exists [], (y :: l). split; reflexivity.
Qed.

Lemma fs_lookup_in : forall (fs : list (list N * bytes)) p, In p (map fst fs) -> fs_lookup fs p <> None.
Proof.
  induction fs as [|[k v] fs IH]; intros p Hin; cbn [map fst In fs_lookup] in *; [contradiction|].
  destruct (str_eqb k p) eqn:E; [discriminate|].
  destruct Hin as [->|Hin]; [rewrite str_eqb_refl in E; discriminate E|exact (IH p Hin)].
Qed.

(* what FindWithPrefixAndSuffix(<base>., <ext>) returns on a fault-free state: the keys of the pattern, sorted *)
Definition rec_pattern (ix p : list N) : bool :=
  Nat.leb (length (strip_ext ix ++ [DOT]) + length (ext ix)) (length p)
  && starts_with p (strip_ext ix ++ [DOT]) && ends_with p (ext ix)
  && no_slash (skipn (length (strip_ext ix ++ [DOT])) p).
Definition rec_listing (ix : list N) (fs : list (list N * bytes)) : list (list N) :=
  sort_paths (filter (rec_pattern ix) (map fst fs)).

Lemma io_list_nosched ix st : io_sched st = [] ->
  exists st1, io_list (strip_ext ix ++ [DOT]) (ext ix) st = (Ok (rec_listing ix (io_fs st)), st1) /\
              io_sched st1 = [] /\ io_fs st1 = io_fs st.
Proof.
  intros Hs. unfold io_list. rewrite Hs. cbn [sched_lookup]. eexists. split; [reflexivity|].
  split; [exact Hs|reflexivity].
Qed.

Lemma rec_pattern_vol ix p : ext ix = EXT_PAR2 -> rec_pattern ix p = vol_pattern (strip_ext ix) p.
Proof. intros E. unfold rec_pattern, vol_pattern. rewrite E. reflexivity. Qed.

(* one more key of the pattern, anywhere in the key list: the listing has it inserted *)
Lemma rec_listing_insert ix q fs fs' :
  Permutation (map fst fs') (q :: map fst fs) -> rec_pattern ix q = true ->
  exists l1 l2, rec_listing ix fs = l1 ++ l2 /\ rec_listing ix fs' = l1 ++ q :: l2.
Proof.
  intros P Hq. unfold rec_listing.
  rewrite (sort_paths_perm _ _ (filter_perm (rec_pattern ix) _ _ P)). cbn [filter]. rewrite Hq.
  unfold sort_paths at 2. cbn [fold_right]. fold (sort_paths (filter (rec_pattern ix) (map fst fs))).
  apply insert_sorted_split.
Qed.

Section Par2Ignore.
  Variable md5 : bytes -> bytes.

  (** * I1. nothing of the set parses: "no packets found" *)

  (* at s the packet reader fails, or returns a packet of another recovery set *)
  Definition err_or_other_set (sid s : bytes) : Prop :=
    read_next_packet md5 s = NPErr \/
    exists psid ptype body rest, read_next_packet md5 s = NPPacket psid ptype body rest /\ psid <> sid.

  Definition nothing_parses (sid b : bytes) : Prop :=
    forall a s, b = a ++ s -> s <> [] -> err_or_other_set sid s.

  (* the stronger form: the packet reader fails at every non-empty suffix *)
  Lemma nothing_parses_all_err sid b :
    (forall a s, b = a ++ s -> s <> [] -> read_next_packet md5 s = NPErr) -> nothing_parses sid b.
  Proof. intros H a s Hb Hne. left. exact (H a s Hb Hne). Qed.

  (* in particular when the magic sequence does not occur in b *)
  Lemma nothing_parses_no_magic sid b :
    (forall a s, b = a ++ s -> firstn 8 s <> MAGIC) -> nothing_parses sid b.
  Proof.
    intros H. apply nothing_parses_all_err. intros a s Hb Hne.
    destruct s as [|x s]; [contradiction|].
    unfold read_next_packet. destruct (Nat.ltb (length (x :: s)) 64); [reflexivity|].
    cbv zeta. rewrite (bytes_eqb_neq_false _ _ (H a (x :: s) Hb)). reflexivity.
  Qed.

  Lemma nothing_parses_nil sid : nothing_parses sid [].
  Proof.
    intros a s Hb Hne. exfalso. apply Hne. destruct a; destruct s; try discriminate Hb. reflexivity.
  Qed.

  Lemma nothing_parses_suffix sid a b : nothing_parses sid (a ++ b) -> nothing_parses sid b.
  Proof. intros H a' s Hb Hne. apply (H (a ++ a') s); [rewrite Hb, app_assoc; reflexivity|exact Hne]. Qed.

  (* a decision procedure for nothing_parses (sound; used for the examples below) *)
  Fixpoint nothing_parses_b (sid b : bytes) : bool :=
    match b with
    | [] => true
    | _ :: r =>
        match read_next_packet md5 b with
        | NPErr => true
        | NPPacket psid _ _ _ => negb (bytes_eqb psid sid)
        | NPEof => false
        end && nothing_parses_b sid r
    end.

  Lemma nothing_parses_b_sound sid : forall b, nothing_parses_b sid b = true -> nothing_parses sid b.
  Proof.
    induction b as [|x b IH]; intros H; [apply nothing_parses_nil|].
    cbn [nothing_parses_b] in H. apply andb_true_iff in H. destruct H as [Hh Ht].
    intros a s Hb Hne. destruct a as [|y a].
    - cbn [app] in Hb. subst s.
      destruct (read_next_packet md5 (x :: b)) as [| |psid ptype body rest] eqn:E; [discriminate Hh|left; exact E|].
      right. exists psid, ptype, body, rest. split; [exact E|].
      apply bytes_eqb_neq. apply negb_true_iff. exact Hh.
    - injection Hb as _ Hb. exact (IH Ht a s Hb Hne).
  Qed.

  (* a packet that is read is a proper prefix of the buffer: what remains is a suffix *)
  Lemma read_next_packet_rest buf psid ptype body rest :
    read_next_packet md5 buf = NPPacket psid ptype body rest ->
    exists pre, buf = pre ++ rest /\ (0 < length pre)%nat.
  Proof.
    intros H. destruct buf as [|x buf]; [discriminate H|].
    unfold read_next_packet in H. cbv beta iota in H.
    set (l := x :: buf) in *. clearbody l. clear x buf.
    destruct (Nat.ltb (length l) 64) eqn:E64; [discriminate H|]. apply Nat.ltb_ge in E64.
    cbv zeta in H.
    destruct (negb (bytes_eqb (firstn 8 l) MAGIC)); [discriminate H|].
    match type of H with (if ?c then _ else _) = _ => destruct c end; [discriminate H|].
    match type of H with (if ?c then _ else _) = _ => destruct c end; [discriminate H|].
    match type of H with (if ?c then _ else _) = _ => destruct c end; [discriminate H|].
    match type of H with NPPacket _ _ _ (skipn ?n ?r) = _ => set (n0 := n) in H; set (r0 := r) in H end.
    assert (Hsp : l = (firstn 64 l ++ firstn n0 r0) ++ skipn n0 r0).
    { unfold r0. rewrite <- app_assoc, (firstn_skipn n0), (firstn_skipn 64). reflexivity. }
    assert (Hlen : (0 < length (firstn 64 l ++ firstn n0 r0))%nat).
    { rewrite app_length, firstn_length. lia. }
    clearbody r0 n0. injection H as _ _ _ <-.
    eexists. split; [exact Hsp|exact Hlen].
  Qed.

  Lemma rf_finish_not_found setid f : rf_finish setid false f = RFNoPackets.
  Proof. reflexivity. Qed.

  (* the loop, from any state in which nothing has been found yet *)
  Lemma read_file_go_nothing_parses sid f : forall fuel buf,
    (length buf < fuel)%nat -> nothing_parses sid buf ->
    read_file_go md5 fuel buf (Some sid) false f = RFNoPackets.
  Proof.
    induction fuel as [|fuel IH]; intros buf Hfuel Hnp; [lia|].
    rewrite read_file_go_S.
    destruct buf as [|x buf]; [reflexivity|].
    destruct (Hnp [] (x :: buf) eq_refl) as [HE|(psid & ptype & body & rest & HP & Hsid)]; [discriminate| |].
    - rewrite HE. cbn [tl].
      destruct (find_magic buf) as [rest|] eqn:EF; [|apply rf_finish_not_found].
      destruct (find_magic_suffix buf rest EF) as (pre & Hl & _).
      apply IH.
      + cbn [length] in Hfuel. rewrite Hl, app_length in Hfuel. lia.
      + apply (nothing_parses_suffix sid (x :: pre)). cbn [app]. rewrite <- Hl. exact Hnp.
    - rewrite HP. cbv zeta. rewrite (bytes_eqb_neq_false psid sid Hsid). cbn [negb].
      destruct (read_next_packet_rest _ _ _ _ _ HP) as (pre & Hl & Hpre).
      apply IH.
      + rewrite Hl, app_length in Hfuel. lia.
      + apply (nothing_parses_suffix sid pre). rewrite <- Hl. exact Hnp.
  Qed.

  Theorem read_file_vol_nothing_parses sid b : nothing_parses sid b -> read_file_vol md5 sid b = RFNoPackets.
  Proof.
    intros H. unfold read_file_vol. apply read_file_go_nothing_parses; [apply Nat.lt_succ_diag_r|exact H].
  Qed.

  (* the empty file *)
  Corollary read_file_vol_nil sid : read_file_vol md5 sid [] = RFNoPackets.
  Proof. apply read_file_vol_nothing_parses, nothing_parses_nil. Qed.

  (** * I2. LoadParityData skips such a file *)
  Theorem load_parity_skips_unparsable d p r acc st b st1 :
    io_read p st = (Ok b, st1) -> nothing_parses (d_setid d) b ->
    load_parity md5 d (p :: r) acc st = load_parity md5 d r acc st1.
  Proof.
    intros ER Hnp. cbn [load_parity]. rewrite ER, (read_file_vol_nothing_parses _ _ Hnp). reflexivity.
  Qed.

  (** * I3. the loading phase: the phases on two fault-free states whose reads agree *)

  Lemma new_decoder_fst_same ix st st2 : io_sched st = [] -> io_sched st2 = [] ->
    read_res (io_fs st2) ix = read_res (io_fs st) ix ->
    fst (new_decoder md5 ix st2) = fst (new_decoder md5 ix st).
  Proof.
    intros Hs Hs2 Hr. unfold new_decoder.
    destruct (Par1Clean.io_read_nosched ix st Hs) as (s1 & ER & _).
    destruct (Par1Clean.io_read_nosched ix st2 Hs2) as (s2 & ER2 & _).
    rewrite ER, ER2, Hr. destruct (read_res (io_fs st) ix) as [b|e|x]; reflexivity.
  Qed.

  Lemma load_files_fst_same d w t : forall todo fis st st2, io_sched st = [] -> io_sched st2 = [] ->
    (forall i info, In (i, info) todo ->
       read_res (io_fs st2) (file_path (d_index d) (di_name info)) =
       read_res (io_fs st) (file_path (d_index d) (di_name info))) ->
    fst (load_files md5 d w t todo fis st2) = fst (load_files md5 d w t todo fis st).
  Proof.
    induction todo as [|[i info] r IH]; intros fis st st2 Hs Hs2 Hrd; cbn [load_files]; [reflexivity|].
    destruct (Par1Clean.io_read_nosched (file_path (d_index d) (di_name info)) st Hs) as (s1 & ER & Hs1 & Hf1).
    destruct (Par1Clean.io_read_nosched (file_path (d_index d) (di_name info)) st2 Hs2) as (s2 & ER2 & Hs2' & Hf2).
    rewrite ER, ER2, (Hrd i info (or_introl eq_refl)).
    assert (IH' : forall fis', fst (load_files md5 d w t r fis' s2) = fst (load_files md5 d w t r fis' s1)).
    { intros fis'. apply IH; [exact Hs1|exact Hs2'|].
      intros i' info' Hin. rewrite Hf1, Hf2. apply (Hrd i' info'). right. exact Hin. }
    destruct (read_res (io_fs st) (file_path (d_index d) (di_name info))) as [data|e|x].
    - apply IH'.
    - destruct e; try reflexivity. apply IH'.
    - reflexivity.
  Qed.

  Lemma load_parity_fst_same d : forall paths acc st st2, io_sched st = [] -> io_sched st2 = [] ->
    (forall p, In p paths -> read_res (io_fs st2) p = read_res (io_fs st) p) ->
    fst (load_parity md5 d paths acc st2) = fst (load_parity md5 d paths acc st).
  Proof.
    induction paths as [|p r IH]; intros acc st st2 Hs Hs2 Hrd; cbn [load_parity]; [reflexivity|].
    destruct (Par1Clean.io_read_nosched p st Hs) as (s1 & ER & Hs1 & Hf1).
    destruct (Par1Clean.io_read_nosched p st2 Hs2) as (s2 & ER2 & Hs2' & Hf2).
    rewrite ER, ER2, (Hrd p (or_introl eq_refl)).
    assert (IH' : forall acc', fst (load_parity md5 d r acc' s2) = fst (load_parity md5 d r acc' s1)).
    { intros acc'. apply IH; [exact Hs1|exact Hs2'|].
      intros p' Hin. rewrite Hf1, Hf2. apply Hrd. right. exact Hin. }
    destruct (read_res (io_fs st) p) as [b|e|x]; [|reflexivity|reflexivity].
    destruct (read_file_vol md5 (d_setid d) b) as [| |sid f]; [reflexivity|apply IH'|].
    repeat lazymatch goal with
           | |- fst (if ?c then _ else _) = _ => destruct c; [reflexivity|]
           end.
    apply IH'.
  Qed.

  (* the second state has one more path in the list, where it holds a file of which nothing parses *)
  Lemma load_parity_fst_insert d q b : read_file_vol md5 (d_setid d) b = RFNoPackets ->
    forall l1 l2 acc st st2, io_sched st = [] -> io_sched st2 = [] ->
    (forall p, In p (l1 ++ l2) -> read_res (io_fs st2) p = read_res (io_fs st) p) ->
    read_res (io_fs st2) q = Ok b ->
    fst (load_parity md5 d (l1 ++ q :: l2) acc st2) = fst (load_parity md5 d (l1 ++ l2) acc st).
  Proof.
    intros Hb. induction l1 as [|p r IH]; intros l2 acc st st2 Hs Hs2 Hrd Hq.
    - cbn [app]. cbn [load_parity].
      destruct (Par1Clean.io_read_nosched q st2 Hs2) as (s2 & ER2 & Hs2' & Hf2).
      rewrite ER2, Hq, Hb.
      apply load_parity_fst_same; [exact Hs|exact Hs2'|].
      intros p Hin. rewrite Hf2. apply Hrd. exact Hin.
    - cbn [app]. cbn [load_parity].
      destruct (Par1Clean.io_read_nosched p st Hs) as (s1 & ER & Hs1 & Hf1).
      destruct (Par1Clean.io_read_nosched p st2 Hs2) as (s2 & ER2 & Hs2' & Hf2).
      rewrite ER, ER2, (Hrd p (or_introl eq_refl)).
      assert (IH' : forall acc', fst (load_parity md5 d (r ++ q :: l2) acc' s2) = fst (load_parity md5 d (r ++ l2) acc' s1)).
      { intros acc'. apply IH; [exact Hs1|exact Hs2'| |rewrite Hf2; exact Hq].
        intros p' Hin. rewrite Hf1, Hf2. apply Hrd. right. exact Hin. }
      destruct (read_res (io_fs st) p) as [b'|e|x]; [|reflexivity|reflexivity].
      destruct (read_file_vol md5 (d_setid d) b') as [| |sid f]; [reflexivity|apply IH'|].
      repeat lazymatch goal with
             | |- fst (if ?c then _ else _) = _ => destruct c; [reflexivity|]
             end.
      apply IH'.
  Qed.

  (* fs' is fs plus ONE file at q (lookups and "is a directory" agree elsewhere; q is absent from fs), of which
     nothing parses for the set id of the index, and which the listing of the recovery-file pattern returns:
     the listing on fs' is the listing on fs with q inserted.  q is neither the index nor the path of a
     protected file.  Then the loading phase returns the same outcome: the same decoder, file states, checksum
     table and recovery-block array, or the same error. *)
  Theorem load_all_ignores_unparsable_recovery_file_gen ix q fs fs' b :
    (forall p, p <> q -> fs_lookup fs' p = fs_lookup fs p /\ is_dir fs' p = is_dir fs p) ->
    fs_lookup fs q = None -> fs_lookup fs' q = Some b ->
    (exists l1 l2, rec_listing ix fs = l1 ++ l2 /\ rec_listing ix fs' = l1 ++ q :: l2) ->
    q <> ix ->
    (forall d st1, new_decoder md5 ix (io_init fs []) = (Ok d, st1) ->
       nothing_parses (d_setid d) b /\
       forall info, In info (d_rec d) -> file_path ix (di_name info) <> q) ->
    fst (load_all md5 ix (io_init fs' [])) = fst (load_all md5 ix (io_init fs [])).
  Proof.
    intros Hdiff Hnone Hsome (l1 & l2 & HL & HL') Hix Hdec.
    assert (Hsame : forall p, p <> q -> read_res fs' p = read_res fs p).
    { intros p Hp. unfold Par1Clean.read_res. destruct (Hdiff p Hp) as [-> ->]. reflexivity. }
    unfold load_all.
    destruct (negb (str_eqb (ext ix) EXT_PAR2)); [reflexivity|].
    pose proof (new_decoder_fst_same ix (io_init fs []) (io_init fs' []) eq_refl eq_refl
                  (Hsame ix (fun E => Hix (eq_sym E)))) as ND.
    pose proof (new_decoder_pres md5 ix (io_init fs [])) as P1.
    pose proof (new_decoder_pres md5 ix (io_init fs' [])) as P1'.
    destruct (new_decoder md5 ix (io_init fs [])) as [[d|e|x] s1] eqn:E1;
      destruct (new_decoder md5 ix (io_init fs' [])) as [[d'|e'|x'] s1'];
      cbn [fst snd] in ND, P1, P1' |- *; try discriminate ND; try (injection ND as ->; reflexivity).
    injection ND as ->.
    destruct P1 as (Pf1 & Ps1 & _). destruct P1' as (Pf1' & Ps1' & _).
    cbn [io_init io_fs io_sched] in Pf1, Ps1, Pf1', Ps1'.
    destruct (Hdec d s1 eq_refl) as [Hnp Hprot].
    destruct (new_decoder_ok md5 _ _ _ _ E1) as [Hdix _].
    destruct (win_new (Z.of_N (d_slice d))) as [w|e|x]; [|reflexivity|reflexivity].
    cbv zeta.
    match goal with |- context [load_files md5 d w ?t ?todo ?f0 s1] =>
      pose proof (load_files_fst_same d w t todo f0 s1 s1' Ps1 Ps1') as LF;
      pose proof (load_files_pres md5 d w t todo f0 s1) as P2;
      pose proof (load_files_pres md5 d w t todo f0 s1') as P2';
      destruct (load_files md5 d w t todo f0 s1) as [[fis|e|x] s2];
      destruct (load_files md5 d w t todo f0 s1') as [[fis'|e'|x'] s2']
    end;
      cbn [fst snd] in LF, P2, P2' |- *;
      (assert (LF' : _) by (apply LF; intros i info Hin; apply in_combine_r in Hin;
                            rewrite Pf1, Pf1', Hdix; apply Hsame; exact (Hprot info Hin)));
      try discriminate LF'; try (injection LF' as ->; reflexivity).
    injection LF' as ->. clear LF.
    destruct P2 as (Pf2 & Ps2 & _). destruct P2' as (Pf2' & Ps2' & _).
    assert (Hs2 : io_sched s2 = []) by congruence.
    assert (Hs2' : io_sched s2' = []) by congruence.
    assert (Hf2 : io_fs s2 = fs) by congruence.
    assert (Hf2' : io_fs s2' = fs') by congruence.
    destruct (io_list_nosched ix s2 Hs2) as (s3 & IL & Hs3 & Hf3).
    destruct (io_list_nosched ix s2' Hs2') as (s3' & IL' & Hs3' & Hf3').
    rewrite IL, IL', Hf2, Hf2', HL, HL'.
    pose proof (load_parity_fst_insert d q b (read_file_vol_nothing_parses _ _ Hnp) l1 l2 [] s3 s3' Hs3 Hs3') as LP.
    assert (LP' : fst (load_parity md5 d (l1 ++ q :: l2) [] s3') = fst (load_parity md5 d (l1 ++ l2) [] s3)).
    { apply LP.
      - intros p Hin. rewrite Hf3, Hf3', Hf2, Hf2'. apply Hsame. intros ->.
        rewrite <- HL in Hin. unfold rec_listing in Hin.
        apply (proj1 (sort_paths_in _ _)) in Hin. apply (proj1 (filter_In _ _ _)) in Hin.
        exact (fs_lookup_in fs q (proj1 Hin) Hnone).
      - rewrite Hf3', Hf2'. unfold Par1Clean.read_res. rewrite Hsome. reflexivity. }
    destruct (load_parity md5 d (l1 ++ l2) [] s3) as [[acc|e|x] s4];
      destruct (load_parity md5 d (l1 ++ q :: l2) [] s3') as [[acc'|e'|x'] s4'];
      cbn [fst] in LP' |- *; try discriminate LP'; injection LP' as ->; reflexivity.
  Qed.

  (* the premise on the key lists: the keys of fs' are those of fs and q, in any order (so that the listing of
     fs' has no other new entry), and q is of the pattern <base>.*.par2 *)
  Theorem load_all_ignores_unparsable_recovery_file ix q fs fs' b :
    (forall p, p <> q -> fs_lookup fs' p = fs_lookup fs p /\ is_dir fs' p = is_dir fs p) ->
    fs_lookup fs q = None -> fs_lookup fs' q = Some b ->
    Permutation (map fst fs') (q :: map fst fs) ->
    vol_pattern (strip_ext ix) q = true ->
    q <> ix ->
    (forall d st1, new_decoder md5 ix (io_init fs []) = (Ok d, st1) ->
       nothing_parses (d_setid d) b /\
       forall info, In info (d_rec d) -> file_path ix (di_name info) <> q) ->
    fst (load_all md5 ix (io_init fs' [])) = fst (load_all md5 ix (io_init fs [])).
  Proof.
    intros Hdiff Hnone Hsome Hperm Hpat Hix Hdec.
    destruct (str_eqb (ext ix) EXT_PAR2) eqn:He.
    2:{ unfold load_all. rewrite He. reflexivity. }
    apply str_eqb_eq in He.
    apply (load_all_ignores_unparsable_recovery_file_gen ix q fs fs' b Hdiff Hnone Hsome); [|exact Hix|exact Hdec].
    apply rec_listing_insert; [exact Hperm|]. rewrite (rec_pattern_vol ix q He). exact Hpat.
  Qed.

  (* the state-level reading: a successful load of fs is a successful load of fs' with the same state *)
  Corollary load_all_ignores_unparsable_recovery_file_state ix q fs fs' b :
    (forall p, p <> q -> fs_lookup fs' p = fs_lookup fs p /\ is_dir fs' p = is_dir fs p) ->
    fs_lookup fs q = None -> fs_lookup fs' q = Some b ->
    Permutation (map fst fs') (q :: map fst fs) ->
    vol_pattern (strip_ext ix) q = true ->
    q <> ix ->
    (forall d st1, new_decoder md5 ix (io_init fs []) = (Ok d, st1) ->
       nothing_parses (d_setid d) b /\
       forall info, In info (d_rec d) -> file_path ix (di_name info) <> q) ->
    forall ds st1, load_all md5 ix (io_init fs []) = (Ok ds, st1) ->
    exists ds' st1', load_all md5 ix (io_init fs' []) = (Ok ds', st1') /\
      ds_dec ds' = ds_dec ds /\ ds_fis ds' = ds_fis ds /\ ds_tbl ds' = ds_tbl ds /\ ds_parity ds' = ds_parity ds.
  Proof.
    intros Hdiff Hnone Hsome Hperm Hpat Hix Hdec ds st1 HLA.
    pose proof (load_all_ignores_unparsable_recovery_file ix q fs fs' b Hdiff Hnone Hsome Hperm Hpat Hix Hdec) as E.
    rewrite HLA in E. cbn [fst] in E.
    destruct (load_all md5 ix (io_init fs' [])) as [o st1']. cbn [fst] in E. subst o.
    exists ds, st1'. repeat split; reflexivity.
  Qed.

  (** * I4. the loading phase sees the file system only through the index file, the protected files, the listing of
      the recovery-file pattern, and the files listed: two fault-free file systems that agree on these load alike *)
  Theorem load_all_frame ix fs fs' :
    read_res fs' ix = read_res fs ix ->
    (forall d st1, new_decoder md5 ix (io_init fs []) = (Ok d, st1) ->
       forall info, In info (d_rec d) ->
         read_res fs' (file_path ix (di_name info)) = read_res fs (file_path ix (di_name info))) ->
    rec_listing ix fs' = rec_listing ix fs ->
    (forall p, In p (rec_listing ix fs) -> read_res fs' p = read_res fs p) ->
    fst (load_all md5 ix (io_init fs' [])) = fst (load_all md5 ix (io_init fs [])).
  Proof.
    intros Hix Hprot HL Hlisted.
    unfold load_all.
    destruct (negb (str_eqb (ext ix) EXT_PAR2)); [reflexivity|].
    pose proof (new_decoder_fst_same ix (io_init fs []) (io_init fs' []) eq_refl eq_refl Hix) as ND.
    pose proof (new_decoder_pres md5 ix (io_init fs [])) as P1.
    pose proof (new_decoder_pres md5 ix (io_init fs' [])) as P1'.
    destruct (new_decoder md5 ix (io_init fs [])) as [[d|e|x] s1] eqn:E1;
      destruct (new_decoder md5 ix (io_init fs' [])) as [[d'|e'|x'] s1'];
      cbn [fst snd] in ND, P1, P1' |- *; try discriminate ND; try (injection ND as ->; reflexivity).
    injection ND as ->.
    destruct P1 as (Pf1 & Ps1 & _). destruct P1' as (Pf1' & Ps1' & _).
    cbn [io_init io_fs io_sched] in Pf1, Ps1, Pf1', Ps1'.
    pose proof (Hprot d s1 eq_refl) as Hp.
    destruct (new_decoder_ok md5 _ _ _ _ E1) as [Hdix _].
    destruct (win_new (Z.of_N (d_slice d))) as [w|e|x]; [|reflexivity|reflexivity].
    cbv zeta.
    match goal with |- context [load_files md5 d w ?t ?todo ?f0 s1] =>
      pose proof (load_files_fst_same d w t todo f0 s1 s1' Ps1 Ps1') as LF;
      pose proof (load_files_pres md5 d w t todo f0 s1) as P2;
      pose proof (load_files_pres md5 d w t todo f0 s1') as P2';
      destruct (load_files md5 d w t todo f0 s1) as [[fis|e|x] s2];
      destruct (load_files md5 d w t todo f0 s1') as [[fis'|e'|x'] s2']
    end;
      cbn [fst snd] in LF, P2, P2' |- *;
      (assert (LF' : _) by (apply LF; intros i info Hin; apply in_combine_r in Hin;
                            rewrite Pf1, Pf1', Hdix; exact (Hp info Hin)));
      try discriminate LF'; try (injection LF' as ->; reflexivity).
    injection LF' as ->. clear LF.
    destruct P2 as (Pf2 & Ps2 & _). destruct P2' as (Pf2' & Ps2' & _).
    assert (Hs2 : io_sched s2 = []) by congruence.
    assert (Hs2' : io_sched s2' = []) by congruence.
    assert (Hf2 : io_fs s2 = fs) by congruence.
    assert (Hf2' : io_fs s2' = fs') by congruence.
    destruct (io_list_nosched ix s2 Hs2) as (s3 & IL & Hs3 & Hf3).
    destruct (io_list_nosched ix s2' Hs2') as (s3' & IL' & Hs3' & Hf3').
    rewrite IL, IL', Hf2, Hf2', HL.
    assert (LP : fst (load_parity md5 d (rec_listing ix fs) [] s3') = fst (load_parity md5 d (rec_listing ix fs) [] s3)).
    { apply load_parity_fst_same; [exact Hs3|exact Hs3'|].
      intros p Hin. rewrite Hf3, Hf3', Hf2, Hf2'. apply Hlisted. exact Hin. }
    destruct (load_parity md5 d (rec_listing ix fs) [] s3) as [[acc|e|x] s4];
      destruct (load_parity md5 d (rec_listing ix fs) [] s3') as [[acc'|e'|x'] s4'];
      cbn [fst] in LP |- *; try discriminate LP; injection LP as ->; reflexivity.
  Qed.
End Par2Ignore.

(** * examples with the toy hash *)

Definition ig_sid : bytes := [1; 2; 3; 4; 5; 6; 7; 8; 9; 10; 11; 12; 13; 14; 15; 16].
Definition ig_sid2 : bytes := [16; 15; 14; 13; 12; 11; 10; 9; 8; 7; 6; 5; 4; 3; 2; 1].

(* the magic sequence followed by a few bytes of garbage: too short for a header *)
Example magic_then_garbage_short :
  read_file_vol toy_md5 ig_sid (MAGIC ++ [7; 7; 7; 255; 0; 1]) = RFNoPackets.
Proof. vm_compute. reflexivity. Qed.

(* the magic sequence, a plausible length (68), and 60 bytes of garbage where the hash, the set id, the type
   and the body should be: the hash does not match; the garbage contains a second magic sequence *)
Definition ig_garbage : bytes :=
  MAGIC ++ le_encode 8 68 ++ [9; 9; 9; 9] ++ MAGIC ++ map N.of_nat (seq 0 48).
Example magic_then_garbage_long :
  length ig_garbage = 76%nat /\ read_next_packet toy_md5 ig_garbage = NPErr /\
  read_file_vol toy_md5 ig_sid ig_garbage = RFNoPackets.
Proof. vm_compute. repeat split; reflexivity. Qed.
Example magic_then_garbage_long_np : nothing_parses toy_md5 ig_sid ig_garbage.
Proof. apply nothing_parses_b_sound. vm_compute. reflexivity. Qed.

(* an intact recovery packet of ANOTHER set, between garbage: skipped, "no packets found" for this set,
   while the reader for that other set finds it *)
Definition ig_other : bytes :=
  [1; 2; 3] ++ write_packet toy_md5 ig_sid2 TYPE_RECV [5; 0; 0; 0; 1; 2; 3; 4] ++ MAGIC ++ [0; 0].
Example other_set_packet_skipped :
  read_file_vol toy_md5 ig_sid ig_other = RFNoPackets /\
  (exists f, read_file_vol toy_md5 ig_sid2 ig_other = RFOk ig_sid2 f /\ pf_recv f = [(5, [1; 2; 3; 4])]).
Proof. split; [vm_compute; reflexivity|eexists; split; vm_compute; reflexivity]. Qed.
Example other_set_packet_np : nothing_parses toy_md5 ig_sid ig_other /\ ~ nothing_parses toy_md5 ig_sid2 ig_other.
Proof.
  split; [apply nothing_parses_b_sound; vm_compute; reflexivity|].
  intros H. apply read_file_vol_nothing_parses in H. vm_compute in H. discriminate H.
Qed.

Print Assumptions read_file_vol_nothing_parses.
Print Assumptions read_file_vol_nil.
Print Assumptions load_parity_skips_unparsable.
Print Assumptions load_all_ignores_unparsable_recovery_file_gen.
Print Assumptions load_all_ignores_unparsable_recovery_file.
Print Assumptions load_all_ignores_unparsable_recovery_file_state.
Print Assumptions load_all_frame.
Print Assumptions magic_then_garbage_short.
Print Assumptions magic_then_garbage_long.
Print Assumptions other_set_packet_skipped.
Print Assumptions magic_then_garbage_long_np.
Print Assumptions other_set_packet_np.
