(* GF(2^16) instance of Proofs/LinAlgSingular.v: gopar's row reduction / inversion
   reports the singular-matrix error exactly when the matrix has a non-trivial
   kernel vector. *)
From Coq Require Import Lia.
From Gopar Require Import Model.Base Model.GF16 Model.Matrix Model.RS16
     Proofs.GF16Facts Proofs.GF16Tables Proofs.LinAlg Proofs.Matrix16 Proofs.LinAlgSingular.
Open Scope N_scope.

(* M applied to the column vector v over GF(2^16): entry t is xor_j M[t][j]*v[j] *)
Definition mvec16 : list (list N) -> list N -> list N := mvec fmul.

Theorem row_reduce16_singular_kernel : forall k c M N, (0 < k)%nat -> wfm16 k k M -> wfm16 k c N ->
  RowReduce16 M N = Err ESingular ->
  exists v, wfv16 k v /\ v <> zeros k /\ mvec16 M v = zeros k.
Proof.
  intros k c M N Hk HM HN. unfold RowReduce16, mvec16.
  apply (row_reduce_singular_kernel 65536 fmul gf_inv) with (c := c); try field16; assumption.
Qed.

Theorem row_reduce16_singular_iff : forall k c M N, (0 < k)%nat -> wfm16 k k M -> wfm16 k c N ->
  (RowReduce16 M N = Err ESingular <-> exists v, wfv16 k v /\ v <> zeros k /\ mvec16 M v = zeros k).
Proof.
  intros k c M N Hk HM HN. unfold RowReduce16, mvec16.
  apply (row_reduce_singular_iff 65536 fmul gf_inv) with (c := c); try field16; assumption.
Qed.

Theorem inverse16_singular_iff : forall k M, (0 < k)%nat -> wfm16 k k M ->
  (Inverse16 M = Err ESingular <-> exists v, wfv16 k v /\ v <> zeros k /\ mvec16 M v = zeros k).
Proof.
  intros k M Hk HM. unfold Inverse16, mvec16.
  apply (inverse_singular_iff 65536 fmul gf_inv); try field16; assumption.
Qed.

(* the three outcomes on well-formed operands, now with the error case characterised:
   Ok with the unique solution, or Err ESingular with a kernel witness; never a panic *)
Corollary row_reduce16_ok_iff_injective : forall k c M N, (0 < k)%nat -> wfm16 k k M -> wfm16 k c N ->
  (is_ok (RowReduce16 M N) = true <->
   forall v, wfv16 k v -> mvec16 M v = zeros k -> v = zeros k).
Proof.
  intros k c M N Hk HM HN.
  pose proof (row_reduce16_singular_iff k c M N Hk HM HN) as [S1 S2].
  pose proof (RowReduce16_spec k c M N HM HN) as Sp.
  split.
  - intros Hok v Wv Kv.
    destruct (list_eq_dec N.eq_dec v (zeros k)) as [E|Ne]; [exact E|].
    rewrite S2 in Hok by (exists v; split; [|split]; assumption). discriminate.
  - intros Hinj. destruct (RowReduce16 M N) as [N'|e|p]; [reflexivity| |contradiction].
    subst e. destruct (S1 eq_refl) as (v & Wv & Nz & Kv). exfalso. apply Nz. apply Hinj; assumption.
Qed.

Print Assumptions row_reduce16_singular_kernel.
Print Assumptions row_reduce16_singular_iff.
Print Assumptions inverse16_singular_iff.
Print Assumptions row_reduce16_ok_iff_injective.

(* the singular example of Props/C11.v and its kernel vector (2,1): 1*2 + 2*1 = 0, 2*2 + 4*1 = 0 *)
Example singular16_example :
  Inverse16 [[1; 2]; [2; 4]] = Err ESingular /\ mvec16 [[1; 2]; [2; 4]] [2; 1] = zeros 2.
Proof. vm_compute. split; reflexivity. Qed.
