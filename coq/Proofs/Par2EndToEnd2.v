(* C01/C03 from Create to Repair with ARBITRARILY DAMAGED recovery files.

   Par2EndToEnd.create_damage_verify_repair lets whole recovery files disappear but requires the surviving ones
   to have their written content.  Here every file matching <base>.*.par2 may hold ANY bytes; what is required
   instead is a packet-level collision-freeness premise (recovery_packets_genuine, "PK"): a packet of the
   created recovery set that the packet reader accepts at some offset of such a file is one Create could have
   written (a main packet is the created main packet, a recovery packet carries the true block of an exponent
   below the block count, a file-description / checksum packet parses).

   A  the reader on arbitrary bytes (section ReaderAny):
        read_file_go_any      under PK the loop never fails, and keeps an invariant of the loaded state;
        reaches / read_file_go_recv_exact   what a successful run has loaded: exactly the recovery packets of the
                              set accepted at the offsets the reader reaches (no premise);
   B  load_parity_any         LoadParityData over such files;
   C  section CreateAnyDamage: the loaded state (any_load_shape), success of the loading phase (any_load_ok),
      the ground truths of repair_within_capacity and the composition (as in Par2EndToEnd, with any_load_shape
      in place of load_shape);
   D  the closed statements create_any_damage_load_shape, create_any_damage_load_ok, create_any_damage_repair,
      create_any_damage_verify_repair (the name fixed by the task: create_any_damage_repair is the form with the
      loaded state, the _verify_ form has Verify's report), and the count of usable blocks;
   E  an example with the toy digest. *)
From Coq Require Import Lia ZifyN ZifyNat ZifyBool Permutation.
From Gopar Require Import Model.Base Model.GF16 Model.Matrix Model.RS16 Model.CRC Model.GoPath Model.FS Model.Par2
     Proofs.LinAlg Proofs.Matrix16 Proofs.RS16Facts Proofs.GoPathFacts Proofs.CRCFacts Proofs.ScanFacts
     Proofs.Par2Facts Proofs.Par2Verify Proofs.Par2Create Proofs.Par2Layout Proofs.Par2Faults
     Proofs.Par2Clean Proofs.Par2Converge Proofs.Par2RepairComplete Proofs.Par2Resync Proofs.Par2Ignore
     Proofs.Par2EndToEnd.
Open Scope nat_scope.
Set Default Timeout 120.

(** * A. the packet reader on arbitrary bytes *)
Section ReaderAny.
  Variable md5 : bytes -> bytes.
  Variable sid : bytes.

  (** ** the offsets the loop visits *)
  Inductive reaches : bytes -> bytes -> Prop :=
  | reach_here buf : reaches buf buf
  | reach_err buf r s : read_next_packet md5 buf = NPErr -> find_magic (tl buf) = Some r -> reaches r s -> reaches buf s
  | reach_pkt buf psid pt body rest s :
      read_next_packet md5 buf = NPPacket psid pt body rest -> reaches rest s -> reaches buf s.

  Lemma reaches_suffix buf s : reaches buf s -> exists a, buf = a ++ s.
  Proof.
    induction 1 as [buf|buf r s HE HF _ (a & IH)|buf psid pt body rest s HP _ (a & IH)].
    - exists []. reflexivity.
    - destruct (find_magic_suffix _ _ HF) as (pre & Hl & _).
      destruct buf as [|x buf]; [discriminate HE|]. cbn [tl] in Hl.
      exists (x :: pre ++ a). rewrite Hl, IH. cbn [app]. rewrite <- app_assoc. reflexivity.
    - destruct (read_next_packet_rest md5 _ _ _ _ _ HP) as (pre & Hl & _).
      exists (pre ++ a). rewrite Hl, IH, app_assoc. reflexivity.
  Qed.

  (* a recovery packet of the set is accepted at an offset the loop reaches from buf *)
  Definition accepted_recv (buf : bytes) (ed : N * bytes) : Prop :=
    exists s body rest, reaches buf s /\ read_next_packet md5 s = NPPacket sid TYPE_RECV body rest /\
                        read_recv body = Ok ed.

  (** ** under PK the loop never fails *)
  Variable M : mainpkt.
  Variable R : N * bytes -> Prop.
  Hypothesis R_fun : forall e d d', R (e, d) -> R (e, d') -> d = d'.

  (* the premise at one offset *)
  Definition packet_ok (s : bytes) : Prop :=
    forall ptype body rest, read_next_packet md5 s = NPPacket sid ptype body rest ->
      (ptype = TYPE_MAIN -> read_main body = Ok M) /\
      (ptype = TYPE_FDESC -> exists x, read_fdesc md5 body = Ok x) /\
      (ptype = TYPE_IFSC -> exists x, read_ifsc body = Ok x) /\
      (ptype = TYPE_RECV -> exists ed, read_recv body = Ok ed /\ R ed).
  Definition packets_ok (b : bytes) : Prop := forall a s, b = a ++ s -> packet_ok s.

  Lemma packets_ok_suffix a b : packets_ok (a ++ b) -> packets_ok b.
  Proof. intros H a' s Hb. apply (H (a ++ a') s). rewrite Hb, app_assoc. reflexivity. Qed.

  Definition pf_ok (f : pfile) : Prop :=
    pf_client f <> None /\ (pf_main f = None \/ pf_main f = Some M) /\ Forall R (pf_recv f).

  Lemma rf_finish_any found f : pf_ok f ->
    rf_finish (Some sid) found f = RFNoPackets \/ rf_finish (Some sid) found f = RFOk sid f.
  Proof.
    intros (Hc & _). unfold rf_finish. destruct (negb found); [left; reflexivity|right].
    destruct (pf_client f); [reflexivity|contradiction].
  Qed.

  Theorem read_file_go_any : forall fuel buf found f, length buf < fuel -> packets_ok buf -> pf_ok f ->
    read_file_go md5 fuel buf (Some sid) found f = RFNoPackets \/
    exists f', read_file_go md5 fuel buf (Some sid) found f = RFOk sid f' /\ pf_ok f'.
  Proof.
    induction fuel as [|fuel IH]; intros buf found f Hfuel Hpk Hf; [lia|].
    rewrite read_file_go_S.
    assert (Hfin : rf_finish (Some sid) found f = RFNoPackets \/
                   exists f', rf_finish (Some sid) found f = RFOk sid f' /\ pf_ok f').
    { destruct (rf_finish_any found f Hf) as [E|E]; [left; exact E|right; exists f; split; assumption]. }
    destruct (read_next_packet md5 buf) as [| |psid ptype body rest] eqn:ENP.
    - exact Hfin.
    - destruct (find_magic (tl buf)) as [rest|] eqn:EF; [|exact Hfin].
      destruct (find_magic_suffix _ _ EF) as (pre & Hl & _).
      destruct buf as [|x buf]; [discriminate ENP|]. cbn [tl] in Hl.
      apply IH; [cbn [length] in Hfuel; rewrite Hl, app_length in Hfuel; lia| |exact Hf].
      apply (packets_ok_suffix (x :: pre)). cbn [app]. rewrite <- Hl. exact Hpk.
    - destruct (read_next_packet_rest md5 _ _ _ _ _ ENP) as (pre & Hl & Hpre).
      assert (Hfuel' : length rest < fuel) by (rewrite Hl, app_length in Hfuel; lia).
      assert (Hpk' : packets_ok rest) by (apply (packets_ok_suffix pre); rewrite <- Hl; exact Hpk).
      cbv zeta.
      destruct (bytes_eqb psid sid) eqn:Esid; cbn [negb]; [|apply IH; assumption].
      apply bytes_eqb_eq in Esid. subst psid.
      destruct (Hpk [] buf eq_refl ptype body rest ENP) as (PM & PF & PI & PR).
      destruct Hf as (Hc & Hm & Hr).
      destruct (bytes_eqb ptype TYPE_CREATOR) eqn:E1.
      { apply IH; [exact Hfuel'|exact Hpk'|]. split; [cbn [pf_client]; discriminate|]. split; assumption. }
      destruct (bytes_eqb ptype TYPE_MAIN) eqn:E2.
      { rewrite (PM (bytes_eqb_eq _ _ E2)). apply IH; [exact Hfuel'|exact Hpk'|].
        split; [exact Hc|]. split; [right; reflexivity|exact Hr]. }
      destruct (bytes_eqb ptype TYPE_FDESC) eqn:E3.
      { destruct (PF (bytes_eqb_eq _ _ E3)) as ([id dd] & ->). apply IH; [exact Hfuel'|exact Hpk'|].
        split; [exact Hc|]. split; assumption. }
      destruct (bytes_eqb ptype TYPE_IFSC) eqn:E4.
      { destruct (PI (bytes_eqb_eq _ _ E4)) as ([id ps] & ->). apply IH; [exact Hfuel'|exact Hpk'|].
        split; [exact Hc|]. split; assumption. }
      destruct (bytes_eqb ptype TYPE_RECV) eqn:E5.
      { destruct (PR (bytes_eqb_eq _ _ E5)) as ([e d] & -> & HR).
        destruct (assoc_n (pf_recv f) e) as [d'|] eqn:EA.
        - apply assoc_n_in_pair in EA. rewrite Forall_forall in Hr.
          rewrite (R_fun e d' d (Hr _ EA) HR), bytes_eqb_refl.
          apply IH; [exact Hfuel'|exact Hpk'|]. split; [exact Hc|]. split; [exact Hm|].
          apply Forall_forall. exact Hr.
        - apply IH; [exact Hfuel'|exact Hpk'|]. split; [exact Hc|]. split; [exact Hm|].
          cbn [pf_recv]. constructor; assumption. }
      apply IH; [exact Hfuel'|exact Hpk'|]. split; [exact Hc|]. split; assumption.
  Qed.

  (** ** what a successful run has loaded (no premise) *)
  Lemma read_file_go_recv_mono : forall fuel buf found f sid' f',
    read_file_go md5 fuel buf (Some sid) found f = RFOk sid' f' ->
    forall ed, In ed (pf_recv f) -> In ed (pf_recv f').
  Proof.
    induction fuel as [|fuel IH]; intros buf found f sid' f' H ed Hin; [discriminate H|].
    rewrite read_file_go_S in H.
    assert (Hfin : rf_finish (Some sid) found f = RFOk sid' f' -> In ed (pf_recv f')).
    { intros HR. rewrite (rf_finish_ok _ _ _ _ _ HR). exact Hin. }
    destruct (read_next_packet md5 buf) as [| |psid ptype body rest].
    - exact (Hfin H).
    - destruct (find_magic (tl buf)) as [rest|]; [exact (IH _ _ _ _ _ H ed Hin)|exact (Hfin H)].
    - cbv zeta in H.
      match type of H with (if ?c then _ else _) = _ => destruct c end; [exact (IH _ _ _ _ _ H ed Hin)|].
      destruct (bytes_eqb ptype TYPE_CREATOR); [exact (IH _ _ _ _ _ H ed Hin)|].
      destruct (bytes_eqb ptype TYPE_MAIN).
      { destruct (read_main body) as [m|e0|q]; try discriminate H. exact (IH _ _ _ _ _ H ed Hin). }
      destruct (bytes_eqb ptype TYPE_FDESC).
      { destruct (read_fdesc md5 body) as [[id dd]|e0|q]; try discriminate H. exact (IH _ _ _ _ _ H ed Hin). }
      destruct (bytes_eqb ptype TYPE_IFSC).
      { destruct (read_ifsc body) as [[id ps]|e0|q]; try discriminate H. exact (IH _ _ _ _ _ H ed Hin). }
      destruct (bytes_eqb ptype TYPE_RECV).
      { destruct (read_recv body) as [[e0 dd]|e0|q]; try discriminate H.
        destruct (assoc_n (pf_recv f) e0) as [d'|].
        - destruct (bytes_eqb d' dd); [|discriminate H]. exact (IH _ _ _ _ _ H ed Hin).
        - apply (IH _ _ _ _ _ H ed). cbn [pf_recv]. right. exact Hin. }
      exact (IH _ _ _ _ _ H ed Hin).
  Qed.

  Lemma reaches_inv buf s : reaches buf s ->
    s = buf \/
    (exists r, read_next_packet md5 buf = NPErr /\ find_magic (tl buf) = Some r /\ reaches r s) \/
    (exists psid pt body rest, read_next_packet md5 buf = NPPacket psid pt body rest /\ reaches rest s).
  Proof.
    intros H. destruct H as [buf|buf r s HE HF Hr|buf psid pt body rest s HP Hr].
    - left. reflexivity.
    - right. left. exists r. repeat split; assumption.
    - right. right. exists psid, pt, body, rest. split; assumption.
  Qed.

  Theorem read_file_go_recv_exact : forall fuel buf found f sid' f',
    read_file_go md5 fuel buf (Some sid) found f = RFOk sid' f' ->
    forall ed, In ed (pf_recv f') <-> In ed (pf_recv f) \/ accepted_recv buf ed.
  Proof.
    induction fuel as [|fuel IH]; intros buf found f sid' f' H ed; [discriminate H|].
    rewrite read_file_go_S in H.
    (* the end of the loop: nothing is accepted at buf and nothing further is reached *)
    assert (Hfin : forall (Hstop : forall s, reaches buf s -> s = buf)
                          (Hnone : forall psid pt body rest, read_next_packet md5 buf <> NPPacket psid pt body rest),
               rf_finish (Some sid) found f = RFOk sid' f' ->
               (In ed (pf_recv f') <-> In ed (pf_recv f) \/ accepted_recv buf ed)).
    { intros Hstop Hnone HR. rewrite (rf_finish_ok _ _ _ _ _ HR). split; [left; assumption|].
      intros [Hin|(s & body & rest & Hs & HP & _)]; [exact Hin|]. rewrite (Hstop s Hs) in HP.
      exfalso. exact (Hnone _ _ _ _ HP). }
    destruct (read_next_packet md5 buf) as [| |psid ptype body rest] eqn:ENP.
    - apply Hfin; [|discriminate|exact H].
      intros s Hs. destruct (reaches_inv _ _ Hs) as [E|[(r & HE & _)|(p1 & p2 & p3 & p4 & HP & _)]];
        [exact E|rewrite ENP in HE; discriminate HE|rewrite ENP in HP; discriminate HP].
    - destruct (find_magic (tl buf)) as [rest|] eqn:EF.
      + rewrite (IH _ _ _ _ _ H ed). split; (intros [Hin|Ha]; [left; exact Hin|right]).
        * destruct Ha as (s & body & rest' & Hs & HP & Hr). exists s, body, rest'.
          split; [exact (reach_err _ _ _ ENP EF Hs)|split; assumption].
        * destruct Ha as (s & body & rest' & Hs & HP & Hr).
          destruct (reaches_inv _ _ Hs) as [E|[(r & _ & HF & Hs')|(p1 & p2 & p3 & p4 & HP' & _)]].
          -- subst s. rewrite ENP in HP. discriminate HP.
          -- rewrite EF in HF. injection HF as <-. exists s, body, rest'. repeat split; assumption.
          -- rewrite ENP in HP'. discriminate HP'.
      + apply Hfin; [|discriminate|exact H].
        intros s Hs. destruct (reaches_inv _ _ Hs) as [E|[(r & _ & HF & _)|(p1 & p2 & p3 & p4 & HP & _)]];
          [exact E|rewrite EF in HF; discriminate HF|rewrite ENP in HP; discriminate HP].
    - cbv zeta in H.
      (* the packet at buf contributes nothing that is not in g already; the loop goes on at rest from g *)
      assert (Hgo : forall found' g,
                 read_file_go md5 fuel rest (Some sid) found' g = RFOk sid' f' ->
                 (forall x, In x (pf_recv g) <-> In x (pf_recv f) \/
                              (psid = sid /\ ptype = TYPE_RECV /\ read_recv body = Ok x)) ->
                 (In ed (pf_recv f') <-> In ed (pf_recv f) \/ accepted_recv buf ed)).
      { intros found' g HG Hg. rewrite (IH _ _ _ _ _ HG ed), Hg. split.
        - intros [[Hin|(-> & -> & Hr)]|Ha].
          + left. exact Hin.
          + right. exists buf, body, rest. split; [apply reach_here|split; assumption].
          + right. destruct Ha as (s & body' & rest' & Hs & HP & Hr). exists s, body', rest'.
            split; [exact (reach_pkt _ _ _ _ _ _ ENP Hs)|split; assumption].
        - intros [Hin|(s & body' & rest' & Hs & HP & Hr)]; [left; left; exact Hin|].
          destruct (reaches_inv _ _ Hs) as [E|[(r & HE & _)|(p1 & p2 & p3 & p4 & HP' & Hs')]].
          + subst s. rewrite ENP in HP. injection HP as -> -> -> ->. left. right. repeat split. exact Hr.
          + rewrite ENP in HE. discriminate HE.
          + rewrite ENP in HP'. injection HP' as <- <- <- <-. right. exists s, body', rest'. repeat split; assumption. }
      assert (Hsame : forall x, psid <> sid \/ ptype <> TYPE_RECV ->
                 (In x (pf_recv f) <-> In x (pf_recv f) \/ (psid = sid /\ ptype = TYPE_RECV /\ read_recv body = Ok x))).
      { intros x Hne. split; [left; assumption|]. intros [Hin|(E1 & E2 & _)]; [exact Hin|]. destruct Hne; contradiction. }
      destruct (bytes_eqb psid sid) eqn:Esid; cbn [negb] in H.
      2:{ apply (Hgo _ _ H). intros x. apply Hsame. left. apply bytes_eqb_neq. exact Esid. }
      apply bytes_eqb_eq in Esid.
      destruct (bytes_eqb ptype TYPE_CREATOR) eqn:E1.
      { apply (Hgo _ _ H). intros x. cbn [pf_recv]. apply Hsame. right. intros ->. discriminate E1. }
      destruct (bytes_eqb ptype TYPE_MAIN) eqn:E2.
      { destruct (read_main body) as [m|e0|q]; try discriminate H.
        apply (Hgo _ _ H). intros x. cbn [pf_recv]. apply Hsame. right. intros ->. discriminate E2. }
      destruct (bytes_eqb ptype TYPE_FDESC) eqn:E3.
      { destruct (read_fdesc md5 body) as [[id dd]|e0|q]; try discriminate H.
        apply (Hgo _ _ H). intros x. cbn [pf_recv]. apply Hsame. right. intros ->. discriminate E3. }
      destruct (bytes_eqb ptype TYPE_IFSC) eqn:E4.
      { destruct (read_ifsc body) as [[id ps]|e0|q]; try discriminate H.
        apply (Hgo _ _ H). intros x. cbn [pf_recv]. apply Hsame. right. intros ->. discriminate E4. }
      destruct (bytes_eqb ptype TYPE_RECV) eqn:E5.
      { apply bytes_eqb_eq in E5.
        destruct (read_recv body) as [[e0 dd]|e0|q] eqn:ER; try discriminate H.
        destruct (assoc_n (pf_recv f) e0) as [d'|] eqn:EA.
        - destruct (bytes_eqb d' dd) eqn:Ed; [|discriminate H]. apply bytes_eqb_eq in Ed. subst d'.
          apply assoc_n_in_pair in EA.
          apply (Hgo _ _ H). intros x. split; [left; assumption|].
          intros [Hin|(_ & _ & Ex)]; [exact Hin|]. injection Ex as <-. exact EA.
        - apply (Hgo _ _ H). intros x. cbn [pf_recv In]. split.
          + intros [<-|Hin]; [right; repeat split; assumption|left; exact Hin].
          + intros [Hin|(_ & _ & Ex)]; [right; exact Hin|left]. injection Ex as <-. reflexivity. }
      apply (Hgo _ _ H). intros x. apply Hsame. right. intros ->. rewrite bytes_eqb_refl in E5. discriminate E5.
  Qed.

  (* "no packets found": no packet of the set is accepted at an offset the loop reaches *)
  Theorem read_file_go_nopackets_exact : forall fuel buf f,
    read_file_go md5 fuel buf (Some sid) false f = RFNoPackets ->
    forall s pt body rest, reaches buf s -> read_next_packet md5 s <> NPPacket sid pt body rest.
  Proof.
    induction fuel as [|fuel IH]; intros buf f H s pt body rest Hs HP; [discriminate H|].
    rewrite read_file_go_S in H.
    destruct (reaches_inv _ _ Hs) as [E|[(r & HE & HF & Hs')|(p1 & p2 & p3 & p4 & HP' & Hs')]].
    - subst s. rewrite HP in H. cbv zeta in H. rewrite bytes_eqb_refl in H. cbn [negb] in H.
      destruct (bytes_eqb pt TYPE_CREATOR); [exact (read_file_go_found md5 _ _ _ _ H)|].
      destruct (bytes_eqb pt TYPE_MAIN).
      { destruct (read_main body) as [m|e0|q]; try discriminate H. exact (read_file_go_found md5 _ _ _ _ H). }
      destruct (bytes_eqb pt TYPE_FDESC).
      { destruct (read_fdesc md5 body) as [[id dd]|e0|q]; try discriminate H. exact (read_file_go_found md5 _ _ _ _ H). }
      destruct (bytes_eqb pt TYPE_IFSC).
      { destruct (read_ifsc body) as [[id ps]|e0|q]; try discriminate H. exact (read_file_go_found md5 _ _ _ _ H). }
      destruct (bytes_eqb pt TYPE_RECV).
      { destruct (read_recv body) as [[e0 dd]|e0|q]; try discriminate H.
        destruct (assoc_n (pf_recv f) e0) as [d'|]; [|exact (read_file_go_found md5 _ _ _ _ H)].
        destruct (bytes_eqb d' dd); [exact (read_file_go_found md5 _ _ _ _ H)|discriminate H]. }
      exact (read_file_go_found md5 _ _ _ _ H).
    - rewrite HE, HF in H. exact (IH _ _ H s pt body rest Hs' HP).
    - rewrite HP' in H. cbv zeta in H.
      destruct (bytes_eqb p1 sid); cbn [negb] in H; [|exact (IH _ _ H s pt body rest Hs' HP)].
      destruct (bytes_eqb p2 TYPE_CREATOR); [exact (read_file_go_found md5 _ _ _ _ H)|].
      destruct (bytes_eqb p2 TYPE_MAIN).
      { destruct (read_main p3) as [m|e0|q]; try discriminate H. exact (read_file_go_found md5 _ _ _ _ H). }
      destruct (bytes_eqb p2 TYPE_FDESC).
      { destruct (read_fdesc md5 p3) as [[id dd]|e0|q]; try discriminate H. exact (read_file_go_found md5 _ _ _ _ H). }
      destruct (bytes_eqb p2 TYPE_IFSC).
      { destruct (read_ifsc p3) as [[id ps]|e0|q]; try discriminate H. exact (read_file_go_found md5 _ _ _ _ H). }
      destruct (bytes_eqb p2 TYPE_RECV).
      { destruct (read_recv p3) as [[e0 dd]|e0|q]; try discriminate H.
        destruct (assoc_n (pf_recv f) e0) as [d'|]; [|exact (read_file_go_found md5 _ _ _ _ H)].
        destruct (bytes_eqb d' dd); [exact (read_file_go_found md5 _ _ _ _ H)|discriminate H]. }
      exact (read_file_go_found md5 _ _ _ _ H).
  Qed.

  (** ** the recovery-file reader *)
  Lemma pf_vol0_ok : pf_ok pf_vol0.
  Proof. split; [discriminate|]. split; [left; reflexivity|constructor]. Qed.

  Theorem read_file_vol_any b : packets_ok b ->
    (read_file_vol md5 sid b = RFNoPackets /\ forall ed, ~ accepted_recv b ed) \/
    exists f, read_file_vol md5 sid b = RFOk sid f /\ (pf_main f = None \/ pf_main f = Some M) /\
              Forall R (pf_recv f) /\ forall ed, In ed (pf_recv f) <-> accepted_recv b ed.
  Proof.
    intros Hpk. unfold read_file_vol.
    destruct (read_file_go_any (S (length b)) b false pf_vol0 (Nat.lt_succ_diag_r _) Hpk pf_vol0_ok)
      as [E|(f & E & _ & Hm & Hr)].
    - left. split; [exact E|]. intros ed (s & body & rest & Hs & HP & _).
      exact (read_file_go_nopackets_exact _ _ _ E s _ _ _ Hs HP).
    - right. exists f. split; [exact E|]. split; [exact Hm|]. split; [exact Hr|].
      intros ed. rewrite (read_file_go_recv_exact _ _ _ _ _ _ E ed). cbn [pf_vol0 pf_recv In]. tauto.
  Qed.
End ReaderAny.

(** * B. LoadParityData over files that hold arbitrary bytes: every file is skipped ("no packets found") or read *)
Section LoadParityAny.
  Variable md5 : bytes -> bytes.

  Lemma load_parity_any d (E : list N -> N -> Prop) (Q : N * bytes -> Prop) : forall paths acc st, io_sched st = [] ->
    (forall p, In p paths -> exists b, fs_lookup (io_fs st) p = Some b /\
        ((read_file_vol md5 (d_setid d) b = RFNoPackets /\ forall e, ~ E p e) \/
         exists sid f, read_file_vol md5 (d_setid d) b = RFOk sid f /\
           (pf_main f = None \/
            pf_main f = Some {| mp_slice := d_slice d; mp_rec := map di_id (d_rec d); mp_nonrec := map di_id (d_nonrec d) |}) /\
           Forall (fun ed : N * bytes => N.of_nat (length (snd ed)) = d_slice d) (pf_recv f) /\
           Forall Q (pf_recv f) /\
           (forall e, In e (map fst (pf_recv f)) <-> E p e))) ->
    Forall Q acc ->
    exists acc' st', load_parity md5 d paths acc st = (Ok acc', st') /\ Forall Q acc' /\
      (forall e, In e (map fst acc') <-> In e (map fst acc) \/ exists p, In p paths /\ E p e).
  Proof.
    induction paths as [|p r IH]; intros acc st Hs Hall HQ; cbn [load_parity].
    - exists acc, st. split; [reflexivity|]. split; [exact HQ|]. intros e. split; [tauto|]. intros [H|(p & [] & _)]. exact H.
    - destruct (Hall p (or_introl eq_refl)) as (b & Hlk & Hcase).
      destruct (io_read_some _ st b Hs Hlk) as (st1 & ER & Hs1 & Hf1).
      rewrite ER.
      assert (Hall' : forall p', In p' r -> exists b', fs_lookup (io_fs st1) p' = Some b' /\
                ((read_file_vol md5 (d_setid d) b' = RFNoPackets /\ forall e, ~ E p' e) \/
                 exists sid' f', read_file_vol md5 (d_setid d) b' = RFOk sid' f' /\
                   (pf_main f' = None \/
                    pf_main f' = Some {| mp_slice := d_slice d; mp_rec := map di_id (d_rec d); mp_nonrec := map di_id (d_nonrec d) |}) /\
                   Forall (fun ed : N * bytes => N.of_nat (length (snd ed)) = d_slice d) (pf_recv f') /\
                   Forall Q (pf_recv f') /\
                   (forall e, In e (map fst (pf_recv f')) <-> E p' e))).
      { intros p' Hin. rewrite Hf1. apply Hall. right. exact Hin. }
      destruct Hcase as [[Hrf HnE]|(sid & f & Hrf & Hm & Hlen & HQf & HE)]; rewrite Hrf.
      + destruct (IH acc st1 Hs1 Hall' HQ) as (acc' & st' & EL & HQa & Hacc).
        exists acc', st'. split; [exact EL|]. split; [exact HQa|]. intros e. rewrite Hacc. split.
        * intros [H|(p' & Hp' & He)]; [left; exact H|right; exists p'; split; [right; exact Hp'|exact He]].
        * intros [H|(p' & [<-|Hp'] & He)]; [left; exact H|exfalso; exact (HnE e He)|right; exists p'; split; assumption].
      + assert (OKM : negb match pf_main f with
                           | None => true
                           | Some m => (mp_slice m =? d_slice d)%N && list_beq_bytes (map di_id (d_rec d)) (mp_rec m)
                                       && list_beq_bytes (map di_id (d_nonrec d)) (mp_nonrec m)
                           end = false).
        { destruct Hm as [->| ->]; [reflexivity|]. cbn [mp_slice mp_rec mp_nonrec].
          rewrite N.eqb_refl, !list_beq_bytes_refl. reflexivity. }
        rewrite OKM.
        assert (EX : existsb (fun ed : N * bytes => negb (N.of_nat (length (snd ed)) =? d_slice d)%N) (pf_recv f) = false).
        { apply existsb_false_of_Forall. revert Hlen. apply Forall_impl. intros ed Hed. rewrite Hed, N.eqb_refl. reflexivity. }
        rewrite EX.
        assert (HQ' : Forall Q (pf_recv f ++ acc)) by (apply Forall_app; split; assumption).
        destruct (IH (pf_recv f ++ acc) st1 Hs1 Hall' HQ') as (acc' & st' & EL & HQa & Hacc).
        exists acc', st'. split; [exact EL|]. split; [exact HQa|]. intros e. rewrite Hacc, map_app, in_app_iff.
        split.
        * intros [[H|H]|(p' & Hp' & He)]; [right; exists p; split; [left; reflexivity|apply HE; exact H]|left; exact H|].
          right. exists p'. split; [right; exact Hp'|exact He].
        * intros [H|(p' & [<-|Hp'] & He)]; [left; right; exact H|left; left; apply HE; exact He|].
          right. exists p'. split; assumption.
  Qed.
End LoadParityAny.

(** * C. Create, arbitrary damage (recovery files included), Repair *)
Section CreateAnyDamage.
  Variable md5 : bytes -> bytes.
  Hypothesis md5_len : forall x, length (md5 x) = 16.
  Variables (parPath : list N) (sz np : nat) (names datas : list bytes) (outs : list (list N * bytes)).
  Hypothesis Hcreate : create_outputs md5 parPath sz np names datas = Ok outs.
  Hypothesis Hsz4 : 4 <= sz.
  Hypothesis Hszmax : (N.of_nat sz <= MAXSLICE)%N.
  Hypothesis Hnames : Forall (fun nm : bytes => no_nul nm /\ (N.of_nat (length nm) < 2 ^ 32)%N) names.
  Hypothesis Hdatas : Forall (fun d : bytes => wf_bytes d /\ (N.of_nat (length d) <= MAXINT)%N) datas.

  Let infos := map (fun nd : bytes * bytes => data_file_info md5 sz (fst nd) (snd nd)) (combine names datas).
  Hypothesis Hnd : NoDup (map fi_id infos).

  Let rinfos := rev infos.
  Let recset := sort_ids (map fi_id infos).
  Let shards := flat_map (fun id => match find_info rinfos id with Some i => fi_slices i | None => [] end) recset.
  Let parity := gen_parity {| c_data := length shards; c_parity := np; c_pm := vandermonde_pm (length shards) np |}
                           (map le_words shards).
  Let m := {| mp_slice := N.of_nat sz; mp_rec := recset; mp_nonrec := [] |}.
  Let fds := map (fun i => (fi_id i, fi_desc i)) rinfos.
  Let ifs := map (fun i => (fi_id i, fi_pairs i)) rinfos.
  Let basep := strip_ext parPath.
  Let info_at (id : bytes) : finfo :=
    match find_info rinfos id with Some i => i | None => data_file_info md5 sz [] [] end.
  Let recs := map (fun id => dinfo_of (info_at id)) recset.
  Let ix := basep ++ EXT_PAR2.
  Let pr (s : bytes) : bytes * N := (md5 s, crc32 s).
  Let sl (id : bytes) : list bytes := fi_slices (info_at id).
  (* the set id Create gives the set: the digest of the (padded) main packet body *)
  Let csid : bytes := md5 (mbody m).

  (** ** the facts of Par2EndToEnd (section CreateDamageRepair) that do not depend on the recovery files *)
  Lemma y_co_inv : 0 < length shards /\ (N.of_nat (length shards) <= 32768)%N /\ (N.of_nat np <= 65535)%N.
  Proof.
    destruct (x_co_inv md5 md5_len parPath sz np names datas outs Hcreate Hsz4 Hszmax) as (H1 & H2 & H3 & _).
    repeat split; assumption.
  Qed.

  Lemma y_sz_mod4 : sz mod 4 = 0.
  Proof. exact (x_sz_mod4 md5 md5_len parPath sz np names datas outs Hcreate Hsz4 Hszmax). Qed.

  Lemma y_recset_in id : In id recset <-> exists i, In i infos /\ fi_id i = id.
  Proof. exact (x_recset_in md5 sz names datas id). Qed.

  Lemma y_recset_nd : NoDup recset.
  Proof. exact (x_recset_nd md5 sz names datas Hnd). Qed.

  Lemma y_info_in i : In i infos ->
    exists name data, In (name, data) (combine names datas) /\ i = data_file_info md5 sz name data.
  Proof. exact (x_info_in md5 sz names datas i). Qed.

  Lemma y_info_at_id i : In i infos -> info_at (fi_id i) = i.
  Proof. exact (x_info_at_id md5 sz names datas Hnd i). Qed.

  Lemma y_recs_ids : map di_id recs = recset.
  Proof. exact (x_recs_ids md5 sz names datas Hnd). Qed.

  Lemma y_recs_in info : In info recs -> exists name data, In (name, data) (combine names datas) /\
    info = dinfo_of (data_file_info md5 sz name data).
  Proof. exact (x_recs_in md5 sz names datas Hnd info). Qed.

  Lemma y_parity_row e : e < np -> length (le_bytes (nth e parity [])) = sz.
  Proof. exact (x_parity_row md5 md5_len parPath sz np names datas outs Hcreate Hsz4 Hszmax Hnd e). Qed.

  Lemma y_ext_ix : ext ix = EXT_PAR2.
  Proof. exact (ext_ix parPath). Qed.

  Lemma y_shards_eq : shards = flat_map sl recset.
  Proof. exact (shards_eq md5 sz names datas). Qed.

  Lemma y_recs_pairs : flat_map di_pairs recs = map pr shards.
  Proof. exact (recs_pairs md5 sz names datas). Qed.

  Lemma y_recs_shape : map (fun info => length (di_pairs info)) recs = map (fun id => length (sl id)) recset.
  Proof. exact (recs_shape md5 sz names datas). Qed.

  Lemma y_shards_wf : Forall (fun s => wf_bytes s /\ length s = sz) shards.
  Proof. eapply shards_wf; eassumption. Qed.

  Lemma y_recs_has name data : In (name, data) (combine names datas) ->
    In (dinfo_of (data_file_info md5 sz name data)) recs.
  Proof. exact (recs_has md5 sz names datas Hnd name data). Qed.

  (** ** the damaged archive: the index file as written; ANY bytes in the files of the recovery-file pattern, subject
         to PK; anything at all at the protected paths *)
  Variables (fs0 fs : list (list N * bytes)).
  Hypothesis Hix : fs_lookup fs ix = fs_lookup (apply_writes outs fs0) ix.
  (* PK: a packet of the created set accepted at any offset of a file of the recovery-file pattern is genuine *)
  Hypothesis Hpk : forall p b a s ptype body rest,
    vol_pattern basep p = true -> fs_lookup fs p = Some b -> b = a ++ s ->
    read_next_packet md5 s = NPPacket csid ptype body rest ->
    (ptype = TYPE_MAIN -> read_main body = Ok m) /\
    (ptype = TYPE_FDESC -> exists x, read_fdesc md5 body = Ok x) /\
    (ptype = TYPE_IFSC -> exists x, read_ifsc body = Ok x) /\
    (ptype = TYPE_RECV -> exists e, e < np /\ read_recv body = Ok (N.of_nat e, le_bytes (nth e parity []))).

  Let dec (sid : bytes) : decoder :=
    {| d_index := ix; d_setid := sid; d_slice := N.of_nat sz; d_rec := recs; d_nonrec := [] |}.
  Let Q (ed : N * bytes) : Prop := exists k, k < np /\ fst ed = N.of_nat k /\ snd ed = le_bytes (nth k parity []).
  (* a recovery packet of the set for exponent e is accepted at an offset the reader reaches in a listed file *)
  Let found (e : N) : Prop :=
    exists p b d, vol_pattern basep p = true /\ fs_lookup fs p = Some b /\ accepted_recv md5 csid b (e, d).

  Lemma y_decoder_read : exists st1,
    new_decoder md5 ix (io_init fs []) = (Ok (dec csid), st1) /\ io_sched st1 = [] /\ io_fs st1 = fs.
  Proof.
    destruct (decoder_read md5 md5_len parPath sz np names datas outs Hcreate Hsz4 Hszmax Hnames Hdatas Hnd fs0 fs Hix)
      as (sid & ixb & vols & st1 & EW & _ & _ & ND & Hs1 & Hf1).
    exists st1. split; [|split; assumption].
    assert (Es : sid = csid) by (unfold csid; exact (rw_sid md5 _ _ _ _ _ _ _ EW)).
    subst sid. exact ND.
  Qed.

  Lemma y_listing_in p : In p (rec_listing ix fs) <-> In p (map fst fs) /\ vol_pattern basep p = true.
  Proof. eapply listing_in; eassumption. Qed.

  Lemma Q_fun e d d' : Q (e, d) -> Q (e, d') -> d = d'.
  Proof.
    intros (k & _ & Ek & Ed) (k' & _ & Ek' & Ed'). cbn [fst snd] in *.
    rewrite Ek in Ek'. apply Nat2N.inj in Ek'. subst k' d d'. reflexivity.
  Qed.

  Lemma packets_ok_listed p b : vol_pattern basep p = true -> fs_lookup fs p = Some b -> packets_ok md5 csid m Q b.
  Proof.
    intros Hpat Hlk a s Hb ptype body rest HP.
    destruct (Hpk p b a s ptype body rest Hpat Hlk Hb HP) as (PM & PF & PI & PR).
    split; [exact PM|]. split; [exact PF|]. split; [exact PI|].
    intros Et. destruct (PR Et) as (e & He & Hr). eexists. split; [exact Hr|].
    exists e. cbn [fst snd]. split; [exact He|split; reflexivity].
  Qed.

  Lemma any_parity_read st3 : io_sched st3 = [] -> io_fs st3 = fs ->
    exists acc st4, load_parity md5 (dec csid) (rec_listing ix fs) [] st3 = (Ok acc, st4) /\ Forall Q acc /\
      (forall e, In e (map fst acc) <-> found e).
  Proof.
    intros Hs3 Hf3.
    set (E := fun (p : list N) (e : N) => exists b d, fs_lookup fs p = Some b /\ accepted_recv md5 csid b (e, d)).
    destruct (load_parity_any md5 (dec csid) E Q (rec_listing ix fs) [] st3 Hs3) as (acc & st4 & LP & HQ & Hacc).
    { intros p Hp. apply y_listing_in in Hp. destruct Hp as [Hpin Hpat].
      destruct (fs_lookup fs p) as [b|] eqn:Hlk; [|exfalso; exact (fs_lookup_in fs p Hpin Hlk)].
      exists b. rewrite Hf3. split; [exact Hlk|].
      unfold dec at 1 2. cbn [d_setid].
      destruct (read_file_vol_any md5 csid m Q Q_fun b (packets_ok_listed p b Hpat Hlk))
        as [[Hrf Hno]|(f & Hrf & Hm & HQf & Hex)].
      - left. split; [exact Hrf|]. intros e (b' & d & Hlk' & Ha). rewrite Hlk in Hlk'. injection Hlk' as <-.
        exact (Hno _ Ha).
      - right. exists csid, f. split; [exact Hrf|]. split; [|split; [|split]].
        + unfold dec, m in *. cbn [d_slice d_rec d_nonrec map]. rewrite y_recs_ids. exact Hm.
        + revert HQf. apply Forall_impl. intros [e dd] (k & Hk & _ & Ed). cbn [snd] in *. subst dd.
          unfold dec. cbn [d_slice]. rewrite y_parity_row by exact Hk. reflexivity.
        + exact HQf.
        + intros e. split.
          * intros Hin. apply in_map_iff in Hin. destruct Hin as ([e' dd] & Ee & Hed). cbn [fst] in Ee. subst e'.
            exists b, dd. split; [exact Hlk|]. apply Hex. exact Hed.
          * intros (b' & d & Hlk' & Ha). rewrite Hlk in Hlk'. injection Hlk' as <-.
            apply in_map_iff. exists (e, d). split; [reflexivity|]. apply Hex. exact Ha. }
    { constructor. }
    exists acc, st4. split; [exact LP|]. split; [exact HQ|]. intros e. rewrite Hacc. cbn [map In]. unfold found. split.
    - intros [[]|(p & Hp & b & d & Hlk & Ha)]. apply y_listing_in in Hp. exists p, b, d.
      split; [apply Hp|split; assumption].
    - intros (p & b & d & Hp & Hlk & Ha). right. exists p. split; [|exists b, d; split; assumption].
      apply y_listing_in. split; [exact (fs_lookup_some_in _ _ _ Hlk)|exact Hp].
  Qed.

  (** ** E1: what load_all returns on the damaged archive *)
  Theorem any_load_shape ds st' : load_all md5 ix (io_init fs []) = (Ok ds, st') ->
    d_rec (ds_dec ds) = recs /\ d_slice (ds_dec ds) = N.of_nat sz /\
    (forall e b, nth e (ds_parity ds) None = Some b -> e < np /\ b = le_bytes (nth e parity [])) /\
    length (ds_parity ds) <= np /\
    c_pusable (shard_counts ds) <= np /\
    (forall e, nth e (ds_parity ds) None <> None <-> found (N.of_nat e)) /\
    (forall L : list nat, NoDup L -> (forall e, In e L <-> found (N.of_nat e)) -> c_pusable (shard_counts ds) = length L).
  Proof.
    intros HL.
    destruct (load_all_inv_full md5 _ _ _ _ HL) as (d & st1 & w & fis & st2 & paths & st3 & acc & _ & ND & _ & LF & IL & LP & ->).
    destruct y_decoder_read as (st1' & ND' & Hs1 & Hf1).
    rewrite ND' in ND. injection ND as <- <-.
    pose proof (load_files_pres md5 (dec csid) w (make_cstable (d_rec (dec csid)))
                  (combine (seq 0 (length (d_rec (dec csid)))) (d_rec (dec csid))) (fis0 (dec csid)) st1') as P2.
    rewrite LF in P2. cbn [snd] in P2. destruct P2 as (Pf2 & Ps2 & _).
    assert (Hs2 : io_sched st2 = []) by congruence. assert (Hf2 : io_fs st2 = fs) by congruence.
    destruct (io_list_nosched ix st2 Hs2) as (st3' & IL' & Hs3 & Hf3). rewrite IL' in IL. injection IL as <- <-.
    rewrite Hf2 in Hf3.
    destruct (any_parity_read st3' Hs3 Hf3) as (acc' & st4 & LP' & HQ & Hkeys).
    rewrite Hf2 in LP. rewrite LP' in LP. injection LP as <- _.
    cbn [ds_dec ds_parity]. unfold dec at 1 2. cbn [d_rec d_slice].
    assert (Hkn : forall k, In k (map fst acc') -> (k < N.of_nat np)%N).
    { intros k Hk. apply in_map_iff in Hk. destruct Hk as ([k' b] & <- & Hin).
      rewrite Forall_forall in HQ. destruct (HQ _ Hin) as (k & Hk & Ek & _). cbn [fst] in *. lia. }
    pose proof (parity_array_length_le acc' np Hkn) as Hlen.
    assert (Hnth : forall e, nth e (parity_array acc') None <> None <-> In (N.of_nat e) (map fst acc')).
    { intros e. split.
      - intros Hne. destruct (nth e (parity_array acc') None) as [b|] eqn:Eb; [|contradiction].
        apply parity_array_nth in Eb. apply in_map_iff. exists (N.of_nat e, b). split; [reflexivity|exact Eb].
      - intros Hin. unfold parity_array. destruct acc' as [|a0 acc0] eqn:Ea; [destruct Hin|]. rewrite <- Ea in *.
        set (mx := fold_left (fun m0 (ed : N * bytes) => N.max m0 (fst ed)) acc' 0%N).
        assert (Hmx : forall l m0 k, In k (map fst l) \/ (k <= m0)%N ->
                  (k <= fold_left (fun m1 (ed : N * bytes) => N.max m1 (fst ed)) l m0)%N).
        { clear. induction l as [|[k' v] l IHl]; intros m0 k [H|H]; cbn [fold_left map fst In] in *;
            [destruct H|exact H| |].
          - apply IHl. destruct H as [<-|H]; [right; lia|left; exact H].
          - apply IHl. right. lia. }
        pose proof (Hmx acc' 0%N (N.of_nat e) (or_introl Hin)) as Hle. fold mx in Hle.
        rewrite nth_map_seq by lia.
        apply assoc_n_some_iff in Hin. destruct (assoc_n acc' (N.of_nat e)); [discriminate|discriminate Hin]. }
    split; [reflexivity|]. split; [reflexivity|]. split; [|split; [exact Hlen|split; [|split]]].
    - intros e b He. apply parity_array_nth in He. rewrite Forall_forall in HQ.
      destruct (HQ _ He) as (k & Hk & Ek & Eb). cbn [fst snd] in Ek, Eb. apply Nat2N.inj in Ek. subst k.
      split; [exact Hk|exact Eb].
    - unfold shard_counts. cbn [c_pusable ds_parity].
      pose proof (count_some_nones (parity_array acc')). lia.
    - intros e. rewrite Hnth. apply Hkeys.
    - intros L HLnd HLin.
      unfold shard_counts. cbn [c_pusable ds_parity]. rewrite parity_count_distinct.
      set (L1 := nodup N.eq_dec (map fst acc')). set (L2 := map N.of_nat L).
      assert (HL2 : length L2 = length L) by (unfold L2; apply map_length).
      assert (N1 : NoDup L1) by apply NoDup_nodup.
      assert (N2 : NoDup L2).
      { unfold L2. apply (NoDup_map_by (fun e : nat => e)); [rewrite map_id; exact HLnd|].
        intros x y _ _ Exy. apply Nat2N.inj. exact Exy. }
      assert (I12 : incl L1 L2).
      { intros e He. unfold L1 in He. apply nodup_In in He. pose proof (Hkn e He) as Hlt.
        replace e with (N.of_nat (N.to_nat e)) in * by apply N2Nat.id.
        unfold L2. apply in_map. apply HLin. apply Hkeys. exact He. }
      assert (I21 : incl L2 L1).
      { intros e He. unfold L2 in He. apply in_map_iff in He. destruct He as (k & <- & Hk).
        unfold L1. apply nodup_In. apply Hkeys. apply HLin. exact Hk. }
      pose proof (NoDup_incl_length N1 I12). pose proof (NoDup_incl_length N2 I21). lia.
  Qed.

  (* the decoder's set id is the created one *)
  Lemma any_load_setid ds st' : load_all md5 ix (io_init fs []) = (Ok ds, st') -> d_setid (ds_dec ds) = csid.
  Proof.
    intros HL.
    destruct (load_all_inv_full md5 _ _ _ _ HL) as (d & st1 & w & fis & st2 & paths & st3 & acc & _ & ND & _ & _ & _ & _ & ->).
    destruct y_decoder_read as (st1' & ND' & _). rewrite ND' in ND. injection ND as <- _. reflexivity.
  Qed.

  (** ** the loading phase succeeds when no protected path without a file is a directory *)
  Theorem any_load_ok :
    (forall name, In name names -> fs_lookup fs (file_path ix name) = None -> is_dir fs (file_path ix name) = false) ->
    exists ds st', load_all md5 ix (io_init fs []) = (Ok ds, st').
  Proof.
    intros Hnodir.
    destruct y_decoder_read as (st1 & ND & Hs1 & Hf1).
    assert (HW : exists w, win_new (Z.of_N (d_slice (dec csid))) = Ok w).
    { unfold win_new, dec. cbn [d_slice].
      destruct (Z.ltb_spec (Z.of_N (N.of_nat sz)) 4) as [Hlt|_]; [lia|]. eexists. reflexivity. }
    destruct HW as (w & HW).
    destruct (load_files_total md5 (dec csid) w (make_cstable (d_rec (dec csid)))
                (combine (seq 0 (length (d_rec (dec csid)))) (d_rec (dec csid))) (fis0 (dec csid)) st1 Hs1)
      as (fis & st2 & LF & Hs2 & Hf2).
    { intros i info Hin. apply in_combine_r in Hin. unfold dec in Hin. cbn [d_rec] in Hin.
      destruct (y_recs_in info Hin) as (name & data & Hnd' & ->).
      rewrite Hf1. unfold dec. cbn [d_index dinfo_of di_name data_file_info fi_desc fd_name].
      apply Hnodir. exact (in_combine_l _ _ _ _ Hnd'). }
    destruct (io_list_nosched ix st2 Hs2) as (st3 & IL & Hs3 & Hf3).
    rewrite Hf2, Hf1 in IL. rewrite Hf2, Hf1 in Hf3.
    destruct (any_parity_read st3 Hs3 Hf3) as (acc & st4 & LP & _ & _).
    assert (Hext : str_eqb (ext ix) EXT_PAR2 = true) by (rewrite y_ext_ix; apply str_eqb_refl).
    eexists. eexists.
    exact (load_all_ok md5 ix (io_init fs []) (dec csid) st1 w fis st2 _ st3 acc st4 Hext ND HW LF IL LP).
  Qed.

  (** ** E2: the ground-truth premises of repair_within_capacity hold for the loaded state
         (as in Par2EndToEnd, from any_load_shape) *)
  Lemma any_ds_lens ds st' : load_all md5 ix (io_init fs []) = (Ok ds, st') ->
    map (fun fi => length (fi_shards fi)) (ds_fis ds) = map (fun id => length (sl id)) recset.
  Proof.
    intros HL. destruct (any_load_shape ds st' HL) as (Erec & _).
    destruct (load_all_shape md5 _ _ _ _ HL) as (_ & _ & _ & Hsh & _ & _).
    rewrite Erec, y_recs_shape in Hsh. exact Hsh.
  Qed.

  Lemma any_loaded_parity_true ds st' : load_all md5 ix (io_init fs []) = (Ok ds, st') ->
    let c := {| c_data := length shards; c_parity := length (ds_parity ds);
                c_pm := vandermonde_pm (length shards) (length (ds_parity ds)) |} in
    forall e b, nth e (ds_parity ds) None = Some b -> b = le_bytes (nth e (gen_parity c (map le_words shards)) []).
  Proof.
    intros HL c e b He. destruct (any_load_shape ds st' HL) as (_ & _ & Hpar & _).
    destruct (Hpar e b He) as [Hlt ->]. f_equal. unfold parity, c. apply gen_parity_row_indep; [exact Hlt|].
    destruct (lt_dec e (length (ds_parity ds))) as [H|H]; [exact H|].
    rewrite nth_overflow in He by lia. discriminate He.
  Qed.

  Lemma any_originals_recorded ds st' : load_all md5 ix (io_init fs []) = (Ok ds, st') ->
    forall i info, nth_error (d_rec (ds_dec ds)) i = Some info ->
      recorded md5 info (firstn (N.to_nat (di_len info))
        (concat (nth i (split_by (map (fun fi => length (fi_shards fi)) (ds_fis ds)) shards) []))).
  Proof.
    intros HL i info Hi. destruct (any_load_shape ds st' HL) as (Erec & _).
    rewrite (any_ds_lens ds st' HL), y_shards_eq, split_by_flat_map.
    rewrite Erec in Hi. unfold recs in Hi. apply nth_error_map_inv in Hi. destruct Hi as (id & Hid & ->).
    rewrite (nth_error_nth _ _ _ (map_nth_error sl i recset Hid)).
    apply nth_error_In in Hid. apply y_recset_in in Hid. destruct Hid as (i0 & Hi0 & <-).
    unfold sl. rewrite (y_info_at_id i0 Hi0). destruct (y_info_in i0 Hi0) as (name & data & _ & ->).
    cbn [dinfo_of data_file_info fi_desc fi_slices fi_pairs fi_id fd_len fd_hash fd_hash16k fd_name
         di_len di_hash di_h16].
    rewrite Nat2N.id, slices_concat_firstn by lia.
    unfold recorded. cbn [di_hash di_h16 di_len]. repeat split; reflexivity.
  Qed.

  (** ** E3: the composition *)
  Hypothesis Hwf : forall name dat, In name names -> fs_lookup fs (file_path ix name) = Some dat -> wf_bytes dat.
  Hypothesis Hloc : forall k w, k < length shards -> length w = sz -> wf_bytes w ->
    md5 w = md5 (nth k shards []) -> crc32 w = crc32 (nth k shards []) -> w = nth k shards [].
  Hypothesis Hfile : forall name data data', In (name, data) (combine names datas) -> wf_bytes data' ->
    length data' = length data -> md5 data' = md5 data -> hash16k md5 data' = hash16k md5 data -> data' = data.
  Hypothesis Hpaths : NoDup (map (file_path ix) names).

  Theorem create_any_damage_repair_section dbl ds st1 :
    load_all md5 ix (io_init fs []) = (Ok ds, st1) ->
    c_unusable (shard_counts ds) <= c_pusable (shard_counts ds) ->
    exists r rp st', par2_repair md5 ix dbl (io_init fs []) = ((r, rp), st') /\
      (r = Err ESingular \/
       (r = Ok tt /\ forall name data, In (name, data) (combine names datas) ->
                       fs_lookup (io_fs st') (file_path ix name) = Some data)).
  Proof.
    intros HL Hcap.
    destruct (any_load_shape ds st1 HL) as (Erec & Esl & Hpar & Hplen & _).
    destruct y_co_inv as (_ & Hsh32 & Hnp).
    pose proof y_sz_mod4 as M4. pose proof (Nat.div_mod sz 4 ltac:(discriminate)) as DM. rewrite M4 in DM.
    assert (ES : N.to_nat (d_slice (ds_dec ds)) = sz) by (rewrite Esl; apply Nat2N.id).
    assert (A1 : N.to_nat (d_slice (ds_dec ds)) = 2 * (2 * (sz / 4))) by lia.
    assert (A2 : length shards = length (flat_map fi_shards (ds_fis ds))).
    { rewrite length_flat_shards. change (map shlen (ds_fis ds)) with (map (fun fi => length (fi_shards fi)) (ds_fis ds)).
      rewrite (any_ds_lens ds st1 HL), y_shards_eq. apply length_flat_map_sum. }
    assert (A3 : Forall (fun s => wf_bytes s /\ length s = N.to_nat (d_slice (ds_dec ds))) shards).
    { rewrite ES. exact y_shards_wf. }
    assert (A5 : NoDup (map di_id (d_rec (ds_dec ds)))) by (rewrite Erec, y_recs_ids; exact y_recset_nd).
    assert (A6 : forall k w, length w = N.to_nat (d_slice (ds_dec ds)) -> wf_bytes w ->
               nth_error (flat_map di_pairs (d_rec (ds_dec ds))) k = Some (md5 w, crc32 w) -> w = nth k shards []).
    { intros k w Hl Hw Hn. rewrite Erec, y_recs_pairs in Hn. apply nth_error_map_inv in Hn.
      destruct Hn as (s & Hs & Ep). unfold pr in Ep. injection Ep as E1 E2.
      assert (Hk : k < length shards) by (apply nth_error_Some; congruence).
      rewrite ES in Hl. assert (En : @nth bytes k shards [] = s) by exact (nth_error_nth _ _ [] Hs).
      apply Hloc; try assumption; rewrite En; assumption. }
    assert (A9 : ds_parity ds <> [] -> (N.of_nat (length (flat_map fi_shards (ds_fis ds))) <= 32768)%N /\
                                       (N.of_nat (length (ds_parity ds)) <= 65535)%N).
    { intros _. rewrite <- A2. split; [exact Hsh32|lia]. }
    assert (Hcnd : NoDup (map (fun p : bytes * bytes => file_path ix (fst p)) (combine names datas))).
    { apply NoDup_map_combine_fst. exact Hpaths. }
    assert (A11 : NoDup (map (fun info => file_path ix (di_name info)) (d_rec (ds_dec ds)))).
    { rewrite Erec. unfold recs. rewrite map_map.
      apply (NoDup_map_by (fun id : bytes => id)); [rewrite map_id; exact y_recset_nd|].
      intros x y Hx Hy E. apply y_recset_in in Hx, Hy.
      destruct Hx as (i1 & Hi1 & <-), Hy as (i2 & Hi2 & <-).
      rewrite (y_info_at_id i1 Hi1), (y_info_at_id i2 Hi2) in E.
      destruct (y_info_in i1 Hi1) as (n1 & d1 & Hc1 & ->). destruct (y_info_in i2 Hi2) as (n2 & d2 & Hc2 & ->).
      cbn [dinfo_of data_file_info fi_desc fd_name di_name] in E.
      pose proof (NoDup_map_inj_in (fun p : bytes * bytes => file_path ix (fst p)) _ (n1, d1) (n2, d2) Hcnd Hc1 Hc2 E) as Eq.
      injection Eq as -> ->. reflexivity. }
    assert (G1 : forall k s, nth k (flat_map fi_shards (ds_fis ds)) None = Some s -> si_data s = nth k shards []).
    { intros k s Hk.
      destruct (load_all_credited_protected md5 ix fs ds st1 HL) with (K := k) (s := s) as (Hl & Hw & Hp);
        [|exact A5|exact Hk|apply A6; assumption].
      intros info dat Hin. rewrite Erec in Hin. destruct (y_recs_in info Hin) as (name & data & Hc & ->).
      cbn [dinfo_of data_file_info fi_desc fd_name di_name]. apply Hwf. exact (in_combine_l _ _ _ _ Hc). }
    destruct (repair_within_capacity_restores md5 ix dbl fs ds st1 shards (2 * (sz / 4)) HL A1 A2 A3 G1
                (any_loaded_parity_true ds st1 HL) (any_originals_recorded ds st1 HL) A9 Hcap A11)
      as (r & rp & st' & HR & Hres).
    exists r, rp, st'. split; [exact HR|]. destruct Hres as [E|[E Hall]]; [left; exact E|right].
    split; [exact E|]. intros name data Hin.
    destruct (Hall (dinfo_of (data_file_info md5 sz name data))) as (data' & Hlk & Hm & H16 & Hlen).
    { rewrite Erec. apply y_recs_has. exact Hin. }
    cbn [dinfo_of data_file_info fi_desc fd_name fd_len fd_hash fd_hash16k di_name di_len di_hash di_h16] in *.
    rewrite Hlk. f_equal. apply (Hfile name data data' Hin); [|lia|exact Hm|exact H16].
    assert (Hcore : forall dat, repair_core ds dbl = Ok dat -> Forall wf_bytes dat).
    { intros dat Ed.
      assert (A3' : Forall (fun s => wf_bytes s /\ length s = 2 * (2 * (sz / 4))) shards) by (rewrite <- A1; exact A3).
      destruct (repair_core_within_capacity ds dbl shards (2 * (sz / 4)) (load_all_shards_pos md5 _ _ _ _ HL) A2 A3' G1
                  (any_loaded_parity_true ds st1 HL) A9 Hcap) as [Ek|Ek]; rewrite Ek in Ed; [|discriminate Ed].
      injection Ed as <-. revert A3. apply Forall_impl. intros a [Ha _]. exact Ha. }
    destruct (repair_contents md5 ix dbl fs r rp st' ds st1 HR HL Hcore _ _ Hlk) as [Hold|Hw]; [|exact Hw].
    exact (Hwf name data' (in_combine_l _ _ _ _ Hin) Hold).
  Qed.
End CreateAnyDamage.

Print Assumptions any_load_shape.
Print Assumptions any_load_ok.
Print Assumptions create_any_damage_repair_section.

(** * D. the closed statements *)

(* the main packet Create writes for the set, and the set id it gives it (the digest of the padded main packet body;
   rw_sid: the set id of every file write_file writes for this main packet) *)
Definition created_main (md5 : bytes -> bytes) (sz : nat) (names datas : list bytes) : mainpkt :=
  {| mp_slice := N.of_nat sz;
     mp_rec := sort_ids (map fi_id (map (fun nd : bytes * bytes => data_file_info md5 sz (fst nd) (snd nd))
                                        (combine names datas)));
     mp_nonrec := [] |}.
Definition created_set_id (md5 : bytes -> bytes) (sz : nat) (names datas : list bytes) : bytes :=
  md5 (mbody (created_main md5 sz names datas)).

(* PK, PACKET-LEVEL COLLISION-FREENESS.  For every file of fs whose path matches <base>.*.par2, with content b, and
   every suffix s of b: if the packet reader accepts a packet at s (magic, length, MD5 of set id ++ type ++ body all
   right) and its set id is the created one, then
     - a main packet parses to the created main packet;
     - a file-description packet and a checksum packet parse (the reader parses them in a recovery file too, and a
       body that does not parse makes the whole file an error);
     - a recovery packet parses to (e, the true recovery block of exponent e) for some e below the block count.
   Creator packets and packets of unknown type are not constrained (the reader does not interpret them). *)
Definition recovery_packets_genuine (md5 : bytes -> bytes) (parPath : list N) (sz np : nat) (names datas : list bytes)
           (fs : list (list N * bytes)) : Prop :=
  forall p b a s ptype body rest,
    vol_pattern (strip_ext parPath) p = true -> fs_lookup fs p = Some b -> b = a ++ s ->
    read_next_packet md5 s = NPPacket (created_set_id md5 sz names datas) ptype body rest ->
    (ptype = TYPE_MAIN -> read_main body = Ok (created_main md5 sz names datas)) /\
    (ptype = TYPE_FDESC -> exists x, read_fdesc md5 body = Ok x) /\
    (ptype = TYPE_IFSC -> exists x, read_ifsc body = Ok x) /\
    (ptype = TYPE_RECV -> exists e, e < np /\
       read_recv body = Ok (N.of_nat e, le_bytes (nth e (true_blocks md5 sz np names datas) []))).

(* the archive after damage: the index file is as written; the files of the recovery-file pattern hold ANY bytes
   subject to PK (they may also be gone, and there may be others); nothing is said about the protected paths *)
Definition any_damaged_archive (md5 : bytes -> bytes) (parPath : list N) (sz np : nat) (names datas : list bytes)
           (outs fs0 fs : list (list N * bytes)) : Prop :=
  let ix := strip_ext parPath ++ EXT_PAR2 in
  fs_lookup fs ix = fs_lookup (apply_writes outs fs0) ix /\
  recovery_packets_genuine md5 parPath sz np names datas fs.

(* a recovery packet of the created set for exponent e is accepted at an offset the reader reaches (reaches: it
   starts at offset 0; after an accepted packet it goes on behind it; after a failure it goes on at the next magic
   sequence behind the first byte) in some file of the recovery-file pattern *)
Definition block_found (md5 : bytes -> bytes) (parPath : list N) (sz : nat) (names datas : list bytes)
           (fs : list (list N * bytes)) (e : nat) : Prop :=
  exists p b d, vol_pattern (strip_ext parPath) p = true /\ fs_lookup fs p = Some b /\
                accepted_recv md5 (created_set_id md5 sz names datas) b (N.of_nat e, d).

Section Par2EndToEnd2.
  Variable md5 : bytes -> bytes.
  Hypothesis md5_len : forall x, length (md5 x) = 16.

  (** E1: the loaded state of an archive whose recovery files are arbitrarily damaged: the decoder is the created one,
      every loaded recovery block is the true block of its exponent, there are at most np of them, and the loaded
      exponents are exactly those for which the reader meets a recovery packet *)
  Theorem create_any_damage_load_shape : forall parPath sz np names datas outs fs0 fs ds st1,
    created md5 parPath sz np names datas outs ->
    any_damaged_archive md5 parPath sz np names datas outs fs0 fs ->
    let ix := strip_ext parPath ++ EXT_PAR2 in
    load_all md5 ix (io_init fs []) = (Ok ds, st1) ->
    d_slice (ds_dec ds) = N.of_nat sz /\
    d_setid (ds_dec ds) = created_set_id md5 sz names datas /\
    (forall name data, In (name, data) (combine names datas) ->
       In (dinfo_of (data_file_info md5 sz name data)) (d_rec (ds_dec ds))) /\
    (forall e b, nth e (ds_parity ds) None = Some b ->
       e < np /\ b = le_bytes (nth e (true_blocks md5 sz np names datas) [])) /\
    length (ds_parity ds) <= np /\
    c_pusable (shard_counts ds) <= np /\
    (forall e, nth e (ds_parity ds) None <> None <-> block_found md5 parPath sz names datas fs e) /\
    (forall L : list nat, NoDup L -> (forall e, In e L <-> block_found md5 parPath sz names datas fs e) ->
       c_pusable (shard_counts ds) = length L).
  Proof.
    intros parPath sz np names datas outs fs0 fs ds st1 (Hc & H4 & Hmax & Hn & Hd & Hnd) (Hix & Hpk) ix HL.
    destruct (any_load_shape md5 md5_len parPath sz np names datas outs Hc H4 Hmax Hn Hd Hnd fs0 fs Hix Hpk ds st1 HL)
      as (Erec & Esl & Hpar & Hplen & Hpus & Hfound & Hcount).
    split; [exact Esl|]. split.
    { exact (any_load_setid md5 md5_len parPath sz np names datas outs Hc H4 Hmax Hn Hd Hnd fs0 fs Hix ds st1 HL). }
    split; [|split; [exact Hpar|split; [exact Hplen|split; [exact Hpus|split; [exact Hfound|exact Hcount]]]]].
    intros name data Hin. rewrite Erec. exact (recs_has md5 sz names datas Hnd name data Hin).
  Qed.

  (** the loading phase never fails on such an archive (no protected path without a file being a directory) *)
  Theorem create_any_damage_load_ok : forall parPath sz np names datas outs fs0 fs,
    created md5 parPath sz np names datas outs ->
    any_damaged_archive md5 parPath sz np names datas outs fs0 fs ->
    let ix := strip_ext parPath ++ EXT_PAR2 in
    (forall name, In name names -> fs_lookup fs (file_path ix name) = None -> is_dir fs (file_path ix name) = false) ->
    exists ds st1, load_all md5 ix (io_init fs []) = (Ok ds, st1).
  Proof.
    intros parPath sz np names datas outs fs0 fs (Hc & H4 & Hmax & Hn & Hd & Hnd) (Hix & Hpk) ix Hnodir.
    exact (any_load_ok md5 md5_len parPath sz np names datas outs Hc H4 Hmax Hn Hd Hnd fs0 fs Hix Hpk Hnodir).
  Qed.

  (** C01 from Create to Repair, recovery files arbitrarily damaged; the form with the loaded state *)
  Theorem create_any_damage_repair_loaded : forall parPath sz np names datas outs fs0 fs dbl ds st1,
    created md5 parPath sz np names datas outs ->
    any_damaged_archive md5 parPath sz np names datas outs fs0 fs ->
    let ix := strip_ext parPath ++ EXT_PAR2 in
    let orig := originals md5 sz names datas in
    (forall name dat, In name names -> fs_lookup fs (file_path ix name) = Some dat -> wf_bytes dat) ->
    NoDup (map (file_path ix) names) ->
    (forall k w, k < length orig -> length w = sz -> wf_bytes w ->
       md5 w = md5 (nth k orig []) -> crc32 w = crc32 (nth k orig []) -> w = nth k orig []) ->
    (forall name data data', In (name, data) (combine names datas) -> wf_bytes data' ->
       length data' = length data -> md5 data' = md5 data -> hash16k md5 data' = hash16k md5 data -> data' = data) ->
    load_all md5 ix (io_init fs []) = (Ok ds, st1) ->
    c_unusable (shard_counts ds) <= c_pusable (shard_counts ds) ->
    exists r rp st', par2_repair md5 ix dbl (io_init fs []) = ((r, rp), st') /\
      (r = Err ESingular \/
       (r = Ok tt /\ forall name data, In (name, data) (combine names datas) ->
                       fs_lookup (io_fs st') (file_path ix name) = Some data)).
  Proof.
    intros parPath sz np names datas outs fs0 fs dbl ds st1 (Hc & H4 & Hmax & Hn & Hd & Hnd) (Hix & Hpk) ix orig
           Hwf Hpaths Hloc Hfile HL Hcap.
    exact (create_any_damage_repair_section md5 md5_len parPath sz np names datas outs Hc H4 Hmax Hn Hd Hnd fs0 fs
             Hix Hpk Hwf Hloc Hfile Hpaths dbl ds st1 HL Hcap).
  Qed.

  (** C01/C03 FROM CREATE TO REPAIR, RECOVERY FILES ARBITRARILY DAMAGED, from Verify's report: Verify succeeds; the
      blocks it counts as usable are at most np, and exactly as many as there are exponents for which the reader
      meets a recovery packet; if it reports "repair possible", Repair restores every protected file byte for byte
      (or reports the singular system) *)
  Theorem create_any_damage_repair : forall parPath sz np names datas outs fs0 fs dbl,
    created md5 parPath sz np names datas outs ->
    any_damaged_archive md5 parPath sz np names datas outs fs0 fs ->
    let ix := strip_ext parPath ++ EXT_PAR2 in
    let orig := originals md5 sz names datas in
    (forall name, In name names -> fs_lookup fs (file_path ix name) = None -> is_dir fs (file_path ix name) = false) ->
    (forall name dat, In name names -> fs_lookup fs (file_path ix name) = Some dat -> wf_bytes dat) ->
    NoDup (map (file_path ix) names) ->
    (forall k w, k < length orig -> length w = sz -> wf_bytes w ->
       md5 w = md5 (nth k orig []) -> crc32 w = crc32 (nth k orig []) -> w = nth k orig []) ->
    (forall name data data', In (name, data) (combine names datas) -> wf_bytes data' ->
       length data' = length data -> md5 data' = md5 data -> hash16k md5 data' = hash16k md5 data -> data' = data) ->
    exists c st1, par2_verify md5 ix (io_init fs []) = (Ok c, st1) /\
      c_pusable c <= np /\
      (forall L : list nat, NoDup L -> (forall e, In e L <-> block_found md5 parPath sz names datas fs e) ->
         c_pusable c = length L) /\
      (repair_possible c = true ->
       exists r rp st', par2_repair md5 ix dbl (io_init fs []) = ((r, rp), st') /\
         (r = Err ESingular \/
          (r = Ok tt /\ forall name data, In (name, data) (combine names datas) ->
                          fs_lookup (io_fs st') (file_path ix name) = Some data))).
  Proof.
    intros parPath sz np names datas outs fs0 fs dbl HC HD ix orig Hnodir Hwf Hpaths Hloc Hfile.
    destruct (create_any_damage_load_ok parPath sz np names datas outs fs0 fs HC HD Hnodir) as (ds & st1 & HL).
    exists (shard_counts ds), st1. split; [unfold par2_verify, ix; rewrite HL; reflexivity|].
    destruct (create_any_damage_load_shape parPath sz np names datas outs fs0 fs ds st1 HC HD HL)
      as (_ & _ & _ & _ & _ & Hpus & _ & Hcount).
    split; [exact Hpus|]. split; [exact Hcount|]. intros Hposs. apply verify_possible_iff in Hposs.
    exact (create_any_damage_repair_loaded parPath sz np names datas outs fs0 fs dbl ds st1 HC HD Hwf Hpaths Hloc Hfile HL Hposs).
  Qed.
End Par2EndToEnd2.

Print Assumptions create_any_damage_load_shape.
Print Assumptions create_any_damage_load_ok.
Print Assumptions create_any_damage_repair_loaded.
Print Assumptions create_any_damage_repair.

(** * a decision procedure for PK (sound; used for the example below) *)
Lemma list_beq_bytes_eq : forall a b, list_beq_bytes a b = true -> a = b.
Proof.
  induction a as [|x a IH]; intros [|y b] H; cbn [list_beq_bytes] in H; try discriminate H; [reflexivity|].
  apply andb_true_iff in H. destruct H as [H1 H2]. rewrite (bytes_eqb_eq _ _ H1), (IH _ H2). reflexivity.
Qed.

Lemma fs_lookup_in_pair : forall (f : list (list N * bytes)) p b, fs_lookup f p = Some b -> In (p, b) f.
Proof.
  induction f as [|[q e] f IH]; intros p b H; cbn [fs_lookup] in H; [discriminate H|].
  destruct (str_eqb q p) eqn:E; [|right; exact (IH _ _ H)].
  left. apply str_eqb_eq in E. injection H as ->. rewrite E. reflexivity.
Qed.

Section PKCheck.
  Variable md5 : bytes -> bytes.
  Variables (sid : bytes) (M : mainpkt) (np : nat) (blocks : list (list N)).

  Definition mainpkt_eqb (a b : mainpkt) : bool :=
    (mp_slice a =? mp_slice b)%N && list_beq_bytes (mp_rec a) (mp_rec b) && list_beq_bytes (mp_nonrec a) (mp_nonrec b).

  Lemma mainpkt_eqb_eq a b : mainpkt_eqb a b = true -> a = b.
  Proof.
    destruct a as [s1 r1 n1], b as [s2 r2 n2]. unfold mainpkt_eqb. cbn [mp_slice mp_rec mp_nonrec]. intros H.
    apply andb_true_iff in H. destruct H as [H H3]. apply andb_true_iff in H. destruct H as [H1 H2].
    apply N.eqb_eq in H1. apply list_beq_bytes_eq in H2, H3. subst. reflexivity.
  Qed.

  Definition packet_ok_b (s : bytes) : bool :=
    match read_next_packet md5 s with
    | NPPacket psid ptype body _ =>
        if bytes_eqb psid sid then
          (if bytes_eqb ptype TYPE_MAIN
           then match read_main body with Ok m' => mainpkt_eqb m' M | _ => false end else true) &&
          (if bytes_eqb ptype TYPE_FDESC
           then match read_fdesc md5 body with Ok _ => true | _ => false end else true) &&
          (if bytes_eqb ptype TYPE_IFSC
           then match read_ifsc body with Ok _ => true | _ => false end else true) &&
          (if bytes_eqb ptype TYPE_RECV
           then match read_recv body with
                | Ok (e, d) => Nat.ltb (N.to_nat e) np && bytes_eqb d (le_bytes (nth (N.to_nat e) blocks []))
                | _ => false
                end
           else true)
        else true
    | _ => true
    end.

  Lemma packet_ok_b_sound s : packet_ok_b s = true ->
    forall ptype body rest, read_next_packet md5 s = NPPacket sid ptype body rest ->
      (ptype = TYPE_MAIN -> read_main body = Ok M) /\
      (ptype = TYPE_FDESC -> exists x, read_fdesc md5 body = Ok x) /\
      (ptype = TYPE_IFSC -> exists x, read_ifsc body = Ok x) /\
      (ptype = TYPE_RECV -> exists e, e < np /\ read_recv body = Ok (N.of_nat e, le_bytes (nth e blocks []))).
  Proof.
    intros H ptype body rest HP. unfold packet_ok_b in H. rewrite HP, bytes_eqb_refl in H.
    apply andb_true_iff in H. destruct H as [H H4]. apply andb_true_iff in H. destruct H as [H H3].
    apply andb_true_iff in H. destruct H as [H1 H2].
    split; [|split; [|split]]; intros ->.
    - rewrite bytes_eqb_refl in H1. destruct (read_main body) as [m'|e|q]; try discriminate H1.
      rewrite (mainpkt_eqb_eq _ _ H1). reflexivity.
    - rewrite bytes_eqb_refl in H2. destruct (read_fdesc md5 body) as [x|e|q]; try discriminate H2. exists x. reflexivity.
    - rewrite bytes_eqb_refl in H3. destruct (read_ifsc body) as [x|e|q]; try discriminate H3. exists x. reflexivity.
    - rewrite bytes_eqb_refl in H4. destruct (read_recv body) as [[e d]|e|q]; try discriminate H4.
      apply andb_true_iff in H4. destruct H4 as [Hlt Hd]. apply Nat.ltb_lt in Hlt. apply bytes_eqb_eq in Hd.
      exists (N.to_nat e). split; [exact Hlt|]. rewrite N2Nat.id, Hd. reflexivity.
  Qed.

  Fixpoint packets_ok_b (b : bytes) : bool :=
    packet_ok_b b && match b with [] => true | _ :: r => packets_ok_b r end.

  Lemma packets_ok_b_sound : forall b, packets_ok_b b = true -> forall a s, b = a ++ s -> packet_ok_b s = true.
  Proof.
    induction b as [|x b IH]; intros H a s Hb; cbn [packets_ok_b] in H; apply andb_true_iff in H; destruct H as [Hh Ht].
    - destruct a; destruct s; try discriminate Hb. exact Hh.
    - destruct a as [|y a]; [cbn [app] in Hb; subst s; exact Hh|]. injection Hb as _ Hb. exact (IH Ht a s Hb).
  Qed.
End PKCheck.

Definition recovery_packets_genuine_b (md5 : bytes -> bytes) (parPath : list N) (sz np : nat) (names datas : list bytes)
           (fs : list (list N * bytes)) : bool :=
  forallb (fun e : list N * bytes =>
             if vol_pattern (strip_ext parPath) (fst e)
             then packets_ok_b md5 (created_set_id md5 sz names datas) (created_main md5 sz names datas) np
                               (true_blocks md5 sz np names datas) (snd e)
             else true) fs.

Lemma recovery_packets_genuine_b_sound md5 parPath sz np names datas fs :
  recovery_packets_genuine_b md5 parPath sz np names datas fs = true ->
  recovery_packets_genuine md5 parPath sz np names datas fs.
Proof.
  intros H p b a s ptype body rest Hpat Hlk Hb HP. unfold recovery_packets_genuine_b in H.
  rewrite forallb_forall in H. specialize (H (p, b) (fs_lookup_in_pair _ _ _ Hlk)). cbn [fst snd] in H.
  rewrite Hpat in H.
  exact (packet_ok_b_sound md5 _ _ _ _ s (packets_ok_b_sound md5 _ _ _ _ b H a s Hb) ptype body rest HP).
Qed.

(** * E. Non-vacuity: two files, two recovery blocks in two recovery files.  The damage: the file "a" (two slices) is
      deleted; the first recovery file has garbage (with a magic sequence in it) prepended and a byte flipped inside
      its creator packet (in the stored packet hash).  Both recovery blocks are needed and both are found. *)
From Coq Require Import String.
From Coq Require Import List.
From Gopar Require Import Proofs.Par2CreatePaths.   (* bs, toy_md5 *)
Open Scope nat_scope.

Module EE2Example.
  Import EEExample.   (* parPath, names, datas, fs0, outs, fs1 (the file system right after Create), ix *)

  Definition flip_at (n : nat) (b : bytes) : bytes := firstn n b ++ ((nth n b 0 + 1) mod 256)%N :: skipn (S n) b.
  Definition garbage : bytes := [1; 2; 3]%N ++ MAGIC ++ [9; 9]%N.
  Definition damage (b : bytes) : bytes := garbage ++ flip_at 20 b.
  Definition vol0 := bs "/w/o.vol00+01.par2".
  Definition fs : list (list N * bytes) :=
    map (fun e : list N * bytes => if str_eqb (fst e) vol0 then (fst e, damage (snd e)) else e)
        (filter (fun e : list N * bytes => negb (str_eqb (fst e) (bs "/w/a"))) fs1).

  Example ee2_files :
    map fst fs = [bs "/w/b"; bs "/w/o.par2"; bs "/w/o.vol00+01.par2"; bs "/w/o.vol01+01.par2"].
  Proof. vm_compute. reflexivity. Qed.

  (* the damaged recovery file: 13 bytes longer; its creator packet no longer parses (the flipped byte is byte 20 of
     the packet: the stored hash); the written content is no longer there, so Par2EndToEnd's damaged_archive fails *)
  Example ee2_damaged_file : exists b b',
    fs_lookup fs1 vol0 = Some b /\ fs_lookup fs vol0 = Some b' /\ b' <> b /\
    List.length b' = 13 + List.length b /\
    (exists sid body rest, read_next_packet toy_md5 b = NPPacket sid TYPE_CREATOR body rest) /\
    read_next_packet toy_md5 (flip_at 20 b) = NPErr /\ read_next_packet toy_md5 b' = NPErr.
  Proof.
    eexists. eexists. split; [vm_compute; reflexivity|]. split; [vm_compute; reflexivity|].
    split; [intros H; discriminate H|]. split; [vm_compute; reflexivity|].
    split; [eexists; eexists; eexists; vm_compute; reflexivity|]. split; vm_compute; reflexivity.
  Qed.

  (* Verify: one slice usable, two unusable, two recovery blocks usable *)
  Example ee2_verify :
    fst (par2_verify toy_md5 ix (io_init fs [])) =
      Ok {| c_usable := 1; c_unusable := 2; c_pusable := 2; c_punusable := 0; c_misplaced := 0 |}.
  Proof. vm_compute. reflexivity. Qed.

  (* Repair (with the double-check) rewrites "a"; afterwards both files are byte-identical to the originals *)
  Example ee2_repair :
    let r := par2_repair toy_md5 ix true (io_init fs []) in
    fst r = (Ok tt, [bs "/w/a"]) /\
    fs_lookup (io_fs (snd r)) (bs "/w/a") = Some [1; 2; 3; 4; 5]%N /\
    fs_lookup (io_fs (snd r)) (bs "/w/b") = Some [6; 7; 8; 9]%N.
  Proof. vm_compute. repeat split; reflexivity. Qed.

  (** the premises of create_any_damage_repair hold for this instance (for the stand-in digest) *)
  Example ee2_packets_genuine : recovery_packets_genuine toy_md5 parPath 4 2 names datas fs.
  Proof. apply recovery_packets_genuine_b_sound. vm_compute. reflexivity. Qed.

  Example ee2_damaged : any_damaged_archive toy_md5 parPath 4 2 names datas outs fs0 fs.
  Proof. split; [vm_compute; reflexivity|exact ee2_packets_genuine]. Qed.

  Example ee2_protected_bytes : forall name dat, In name names -> fs_lookup fs (file_path ix name) = Some dat -> wf_bytes dat.
  Proof.
    intros name dat [<-|[<-|[]]]; vm_compute; intros H; [discriminate H|].
    injection H as <-. repeat constructor.
  Qed.

  Example ee2_no_directory : forall name, In name names ->
    fs_lookup fs (file_path ix name) = None -> is_dir fs (file_path ix name) = false.
  Proof. intros name [<-|[<-|[]]] _; vm_compute; reflexivity. Qed.

  (* both exponents are found: recovery packets are accepted at offsets the reader reaches *)
  Example ee2_blocks_found : forall e, In e [0; 1] <-> block_found toy_md5 parPath 4 names datas fs e.
  Proof.
    intros e. split.
    - intros He.
      destruct (create_any_damage_load_ok toy_md5 toy_md5_len parPath 4 2 names datas outs fs0 fs ee_created ee2_damaged
                  ee2_no_directory) as (ds & st1 & HL).
      destruct (create_any_damage_load_shape toy_md5 toy_md5_len parPath 4 2 names datas outs fs0 fs ds st1 ee_created
                  ee2_damaged HL) as (_ & _ & _ & _ & _ & _ & Hf & _).
      apply Hf. change (strip_ext parPath ++ EXT_PAR2) with ix in HL.
      assert (E : ds_parity ds = ds_parity (match fst (load_all toy_md5 ix (io_init fs [])) with
                                            | Ok ds' => ds' | _ => ds end)) by (rewrite HL; reflexivity).
      rewrite E. destruct He as [<-|[<-|[]]]; vm_compute; discriminate.
    - intros Hb.
      destruct (create_any_damage_load_ok toy_md5 toy_md5_len parPath 4 2 names datas outs fs0 fs ee_created ee2_damaged
                  ee2_no_directory) as (ds & st1 & HL).
      destruct (create_any_damage_load_shape toy_md5 toy_md5_len parPath 4 2 names datas outs fs0 fs ds st1 ee_created
                  ee2_damaged HL) as (_ & _ & _ & Hpar & _ & _ & Hf & _).
      apply Hf in Hb. destruct (nth e (ds_parity ds) None) as [b|] eqn:Eb; [|contradiction].
      destruct (Hpar e b Eb) as [Hlt _]. cbn [In]. lia.
  Qed.

  (* the end-to-end theorem applies: Verify counts exactly the two blocks found and reports "repair possible";
     Repair (either setting of the double-check) restores both files byte for byte, or reports the singular system *)
  Example ee2_by_theorem : forall dbl,
    exists c st1, par2_verify toy_md5 ix (io_init fs []) = (Ok c, st1) /\
      c_pusable c = 2 /\
      exists r rp st', par2_repair toy_md5 ix dbl (io_init fs []) = ((r, rp), st') /\
        (r = Err ESingular \/
         (r = Ok tt /\ fs_lookup (io_fs st') (bs "/w/a") = Some [1; 2; 3; 4; 5]%N /\
                       fs_lookup (io_fs st') (bs "/w/b") = Some [6; 7; 8; 9]%N)).
  Proof.
    intros dbl.
    destruct (create_any_damage_repair toy_md5 toy_md5_len parPath 4 2 names datas outs fs0 fs dbl ee_created ee2_damaged
                ee2_no_directory ee2_protected_bytes ee_paths_distinct ee_slices_collision_free ee_files_collision_free)
      as (c & st1 & HV & _ & Hcount & HR).
    change (strip_ext parPath ++ EXT_PAR2) with ix in *.
    exists c, st1. split; [exact HV|]. split.
    { apply (Hcount [0; 1]); [|exact ee2_blocks_found].
      constructor; [intros [H|[]]; discriminate H|]. constructor; [intros []|constructor]. }
    destruct HR as (r & rp & st' & HR & Hres).
    { pose proof ee2_verify as EV. rewrite HV in EV. cbn [fst] in EV. injection EV as ->. reflexivity. }
    exists r, rp, st'. split; [exact HR|]. destruct Hres as [E|[E Hall]]; [left; exact E|right].
    split; [exact E|]. split.
    - exact (Hall (bs "a") [1; 2; 3; 4; 5]%N (or_introl eq_refl)).
    - exact (Hall (bs "b") [6; 7; 8; 9]%N (or_intror (or_introl eq_refl))).
  Qed.
End EE2Example.

Print Assumptions recovery_packets_genuine_b_sound.
Print Assumptions EE2Example.ee2_files.
Print Assumptions EE2Example.ee2_damaged_file.
Print Assumptions EE2Example.ee2_verify.
Print Assumptions EE2Example.ee2_repair.
Print Assumptions EE2Example.ee2_packets_genuine.
Print Assumptions EE2Example.ee2_blocks_found.
Print Assumptions EE2Example.ee2_by_theorem.
