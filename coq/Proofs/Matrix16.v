(* Instantiation of the list-based linear algebra with GF(2^16). *)
From Coq Require Import Lia.
From Gopar Require Import Model.Base Model.GF16 Model.Matrix Model.RS16
     Proofs.GF16Facts Proofs.GF16Tables Proofs.LinAlg.
Open Scope N_scope.

Lemma gf_inv_closed a : 0 < a < 65536 -> gf_inv a < 65536.
Proof. intros H. unfold gf_inv. destruct (T_Inverse_spec a H) as (i & -> & Hi & _). exact Hi. Qed.
Lemma gf_mul_inv a : 0 < a < 65536 -> fmul a (gf_inv a) = 1.
Proof. intros H. unfold gf_inv. destruct (T_Inverse_spec a H) as (i & -> & _ & Hi). exact Hi. Qed.
Lemma one_lt_B : 1 < 65536. Proof. reflexivity. Qed.
Lemma fmul_lxor_r' a b c : a < 65536 -> b < 65536 -> c < 65536 ->
  fmul a (N.lxor b c) = N.lxor (fmul a b) (fmul a c).
Proof. intros _ _ _. apply fmul_lxor_r. Qed.
Lemma fmul_lt' a b : a < 65536 -> b < 65536 -> fmul a b < 65536.
Proof. intros _ _. apply fmul_lt. Qed.

Ltac field16 := first
  [ exact one_lt_B | exact lxor_lt16 | exact fmul_lt' | exact fmul_comm | exact fmul_assoc
  | exact fmul_lxor_r' | exact fmul_1_l | exact gf_inv_closed | exact gf_mul_inv ].

Notation wfm16 := (wfm 65536).
Notation wfv16 := (wfv 65536).

Theorem RowReduce16_spec r c M Nn : wfm16 r r M -> wfm16 r c Nn ->
  match RowReduce16 M Nn with
  | Ok N' => wfm16 r c N' /\ mmul16 c M N' = Nn /\ (forall X, wfm16 r c X -> mmul16 c M X = Nn -> X = N')
  | Err e => e = ESingular
  | Panic _ => False
  end.
Proof.
  apply (RowReduceForInverse_spec 65536 fmul gf_inv); field16.
Qed.

Theorem Inverse16_spec r M : wfm16 r r M ->
  match Inverse16 M with
  | Ok M' => wfm16 r r M' /\ mmul16 r M M' = identity r /\ mmul16 r M' M = identity r
  | Err e => e = ESingular
  | Panic _ => False
  end.
Proof.
  apply (Inverse_spec 65536 fmul gf_inv); field16.
Qed.

Theorem Times16_spec r k c M X : wfm16 r k M -> wfm16 k c X -> Times16 c M X = mmul16 c M X.
Proof.
  intros HM HX. apply (Times_mmul 65536 fmul) with (r := r) (k := k); try field16; assumption.
Qed.

Theorem mmul16_assoc r k c1 c2 M A Bm : wfm16 r k M -> wfm16 k c1 A -> wfm16 c1 c2 Bm ->
  mmul16 c2 (mmul16 c1 M A) Bm = mmul16 c2 M (mmul16 c2 A Bm).
Proof.
  intros HM HA HB. apply (mmul_assoc 65536 fmul) with (r := r) (k := k) (c1 := c1); try field16; assumption.
Qed.

(* a successful reduction: M X = M X' forces X = X' (M is injective, i.e. non-singular) *)
Theorem ok_injective16 r c c' M Nn N' X X' : wfm16 r r M -> wfm16 r c Nn -> RowReduce16 M Nn = Ok N' ->
  wfm16 r c' X -> wfm16 r c' X' -> mmul16 c' M X = mmul16 c' M X' -> X = X'.
Proof.
  intros HM HN Hok. unfold RowReduce16, RowReduceForInverse in Hok.
  assert (Sq : is_square M = true) by (eapply (is_square_wf 65536); try field16; eassumption).
  rewrite Sq in Hok. cbn [negb] in Hok.
  destruct HM as [Hl HF]. destruct HN as [Hl' HF']. rewrite Hl, Hl', Nat.eqb_refl in Hok. cbn [negb] in Hok.
  destruct (row_reduce_pair fmul gf_inv M Nn) as [mn|e|p] eqn:E; try discriminate.
  intros HX HX' EX.
  apply (ok_unique_any_rhs 65536 fmul gf_inv) with (r := r) (c := c) (c' := c') (M := M) (Nn := Nn) (mn := mn);
    try field16; try assumption; split; assumption.
Qed.
