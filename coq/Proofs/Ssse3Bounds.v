(* Machine-level bounds theorem for the SSSE3 routines of gf2p16/slice_amd64.s.

   The machine of Model/Ssse3.v does not bounds-check (load16/store16 silently
   truncate/extend).  This file adds an INSTRUMENTED interpreter over the same
   [instr]/[state]:
   - [step_ok], [run_ok], [run_loop_ok]   no MOVOU outside the buffer its pointer refers to,
                                          no MOVOU through an integer (wild pointer), no pointer
                                          used where the machine silently ignores it;
   - [step_writes_in], [writes_only] ...  every MOVOU_st targets an output buffer;
   and proves, for the instruction lists of Model/Ssse3.v, that under exactly the
   preconditions the Go caller (slice_amd64.go) establishes no access leaves its
   buffer, only the output buffer is stored to, inputs/table/lengths are unchanged,
   and that the bounds are tight (one byte less and the instrumented run faults).

   Method (so that the same script re-proves everything for a regenerated list):
   the address computations of [step] depend only on [sg]/[sargs]; a SYMBOLIC
   interpreter ([sstep], [saccess]) runs a program on register shapes whose integers are
   expressions and whose pointers are "buffer, optional base variable, constant";
   it is sound for every valuation ([models_step], [step_ok_eq]).  A boolean checker
   ([slice_check], [straight_check]) is evaluated by vm_compute on the instruction
   list; generic theorems turn [check = true] into the bounds statements. *)
From Coq Require Import Lia ZifyN ZifyNat ZifyBool.
From Gopar Require Import Model.Base Model.GF16 Model.Kernels Model.Ssse3.
Open Scope N_scope.
Set Default Timeout 300.

(** * 1. The instrumented interpreter *)

(* the 16 bytes at byte offset k of buffer b lie inside that buffer *)
Definition in_buf (st : state) (b : nat) (k : N) : bool :=
  (N.to_nat k + 16 <=? length (membuf st b))%nat.

Definition step_ok (i : instr) (st : state) : bool :=
  match i with
  | MOVOU_ld off g _ | MOVOU_st _ off g =>
      match getg st g with
      | GPtr b o => in_buf st b (o + off)
      | GInt _ => false                       (* MOVOU through an integer: wild pointer *)
      end
  | MOVQ_gx g _ | SHRQ _ g | SUBQ _ g =>
      match getg st g with
      | GInt _ => true
      | GPtr _ _ => false                     (* the machine would silently ignore it *)
      end
  | _ => true
  end.

Fixpoint run_ok (p : list instr) (st : state) : bool :=
  match p with
  | [] => true
  | i :: r => step_ok i st && run_ok r (step i st)
  end.

Fixpoint run_loop_ok (fuel : nat) (ctr : greg) (body : list instr) (st : state) : bool :=
  match fuel with
  | O => true
  | S f =>
      run_ok body st &&
      (let st' := run body st in
       match getg st' ctr with
       | GInt 0 => true
       | _ => run_loop_ok f ctr body st'
       end)
  end.

(* every store goes to a buffer of [outs] *)
Definition step_writes_in (outs : nat -> bool) (i : instr) (st : state) : bool :=
  match i with
  | MOVOU_st _ _ g =>
      match getg st g with
      | GPtr b _ => outs b
      | GInt _ => true                        (* nothing is stored (and step_ok reports it) *)
      end
  | _ => true
  end.

Fixpoint run_writes_in (outs : nat -> bool) (p : list instr) (st : state) : bool :=
  match p with
  | [] => true
  | i :: r => step_writes_in outs i st && run_writes_in outs r (step i st)
  end.

Fixpoint loop_writes_in (outs : nat -> bool) (fuel : nat) (ctr : greg) (body : list instr)
         (st : state) : bool :=
  match fuel with
  | O => true
  | S f =>
      run_writes_in outs body st &&
      (let st' := run body st in
       match getg st' ctr with
       | GInt 0 => true
       | _ => loop_writes_in outs f ctr body st'
       end)
  end.

(* every MOVOU_st of the run targets buffer number [bout] *)
Definition writes_only (bout : nat) : list instr -> state -> bool := run_writes_in (Nat.eqb bout).
Definition loop_writes_only (bout : nat) : nat -> greg -> list instr -> state -> bool :=
  loop_writes_in (Nat.eqb bout).

Lemma run_cons i p st : run (i :: p) st = run p (step i st).
Proof. reflexivity. Qed.

(** * 2. Small list facts *)

Lemma upd_length {A} (v : A) : forall l i, length (upd i v l) = length l.
Proof. induction l as [|x l IH]; intros [|i]; cbn; try reflexivity. rewrite IH. reflexivity. Qed.

Lemma upd_map {A B} (f : A -> B) (v : A) : forall l i, upd i (f v) (map f l) = map f (upd i v l).
Proof. induction l as [|x l IH]; intros [|i]; cbn; try reflexivity. rewrite IH. reflexivity. Qed.

Lemma upd_Forall {A} (P : A -> Prop) (v : A) : forall l i, Forall P l -> P v -> Forall P (upd i v l).
Proof.
  induction l as [|x l IH]; intros [|i] HF Hv; cbn; try assumption.
  - inversion HF; subst. constructor; assumption.
  - inversion HF; subst. constructor; [assumption|]. apply IH; assumption.
Qed.

Lemma nth_upd_ne {A} (v d : A) : forall l i j, i <> j -> nth j (upd i v l) d = nth j l d.
Proof.
  induction l as [|x l IH]; intros [|i] [|j] H; cbn; try reflexivity; try congruence.
  apply IH. congruence.
Qed.

Lemma map_length_upd (v : bytes) : forall (m : list bytes) b,
  length v = length (nth b m []) -> map (@length N) (upd b v m) = map (@length N) m.
Proof.
  induction m as [|x m IH]; intros [|b] H; cbn in *; try reflexivity.
  - rewrite H. reflexivity.
  - rewrite IH by exact H. reflexivity.
Qed.

(** * 3. Stores only to [outs]: the other buffers are unchanged (no bounds needed) *)

Lemma step_writes_frame outs i st b :
  step_writes_in outs i st = true -> outs b = false -> membuf (step i st) b = membuf st b.
Proof.
  intros Hw Hb. destruct i; cbn [step]; try reflexivity;
    try (destruct (getg st g); reflexivity).
  cbn [step_writes_in] in Hw. destruct (getg st g) as [v|b' o]; [reflexivity|].
  unfold membuf. cbn [sm]. apply nth_upd_ne. intros ->. congruence.
Qed.

Lemma run_writes_frame outs b : forall p st,
  run_writes_in outs p st = true -> outs b = false -> membuf (run p st) b = membuf st b.
Proof.
  induction p as [|i p IH]; intros st Hw Hb; [reflexivity|].
  cbn [run_writes_in] in Hw. apply andb_true_iff in Hw. destruct Hw as [H1 H2].
  rewrite run_cons, IH by assumption. apply step_writes_frame with outs; assumption.
Qed.

Lemma loop_writes_frame outs b ctr body : forall fuel st,
  loop_writes_in outs fuel ctr body st = true -> outs b = false ->
  membuf (run_loop fuel ctr body st) b = membuf st b.
Proof.
  induction fuel as [|f IH]; intros st Hw Hb; [reflexivity|].
  cbn [loop_writes_in] in Hw. apply andb_true_iff in Hw. destruct Hw as [H1 H2].
  cbn [run_loop]. cbv zeta in H2 |- *.
  pose proof (run_writes_frame outs b body st H1 Hb) as E.
  destruct (getg (run body st) ctr) as [[|q]|b' o]; try exact E;
    (rewrite IH by assumption; exact E).
Qed.

(** * 4. The invariant: register widths and buffer lengths *)

Definition inv (lens : list nat) (st : state) : Prop :=
  length (sx st) = 16%nat /\ Forall (fun r : reg => length r = 16%nat) (sx st) /\
  map (@length N) (sm st) = lens.

Lemma membuf_len lens st b : inv lens st -> length (membuf st b) = nth b lens 0%nat.
Proof.
  intros (_ & _ & H). unfold membuf. rewrite <- H.
  change 0%nat with (length (@nil N)). symmetry. apply map_nth.
Qed.

Definition xok (x : xreg) : bool := (x <? 16)%nat.

(* every X operand names one of X0..X15 *)
Definition wfx (i : instr) : bool :=
  match i with
  | MOVQ_gx _ x | MOVOU_ld _ _ x | MOVOU_st x _ _ | PSRLW _ x => xok x
  | MOVO s d | PXOR s d | PAND s d | PSHUFB s d | PACKUSWB s d | PUNPCKLBW s d | PUNPCKHBW s d =>
      xok s && xok d
  | _ => true
  end.

Lemma getx_len lens st x : inv lens st -> xok x = true -> length (getx st x) = 16%nat.
Proof.
  intros (HL & HF & _) Hx. unfold xok in Hx. apply Nat.ltb_lt in Hx.
  unfold getx. rewrite Forall_forall in HF. apply HF. apply nth_In. lia.
Qed.

Lemma inv_setx lens st x v : inv lens st -> length v = 16%nat -> inv lens (setx x v st).
Proof.
  intros (HL & HF & HM) Hv. unfold inv, setx. cbn [sx sm]. repeat split.
  - rewrite upd_length. exact HL.
  - apply upd_Forall; assumption.
  - exact HM.
Qed.

Lemma inv_setg lens st g v : inv lens st -> inv lens (setg g v st).
Proof. intros H. exact H. Qed.

Ltac destr16 l H :=
  do 16 (destruct l as [|? l]; [exfalso; cbn in H; lia|]);
  destruct l; [|exfalso; cbn in H; lia]; clear H.

Lemma len_movq_x v : length (movq_x v) = 16%nat.
Proof. reflexivity. Qed.
Lemma len_pshufb a b : length a = 16%nat -> length (pshufb a b) = 16%nat.
Proof. intros H. unfold pshufb. rewrite map_length. exact H. Qed.
Lemma len_pxor a b : length a = 16%nat -> length b = 16%nat -> length (pxor a b) = 16%nat.
Proof. intros Ha Hb. destr16 a Ha. destr16 b Hb. reflexivity. Qed.
Lemma len_pand a b : length a = 16%nat -> length b = 16%nat -> length (pand a b) = 16%nat.
Proof. intros Ha Hb. destr16 a Ha. destr16 b Hb. reflexivity. Qed.
Lemma len_psrlw k a : length a = 16%nat -> length (psrlw k a) = 16%nat.
Proof. intros Ha. destr16 a Ha. reflexivity. Qed.
Lemma len_packuswb a b : length a = 16%nat -> length b = 16%nat -> length (packuswb a b) = 16%nat.
Proof. intros Ha Hb. destr16 a Ha. destr16 b Hb. reflexivity. Qed.
Lemma len_punpcklbw a b : length a = 16%nat -> length b = 16%nat -> length (punpcklbw a b) = 16%nat.
Proof. intros Ha Hb. destr16 a Ha. destr16 b Hb. reflexivity. Qed.
Lemma len_punpckhbw a b : length a = 16%nat -> length b = 16%nat -> length (punpckhbw a b) = 16%nat.
Proof. intros Ha Hb. destr16 a Ha. destr16 b Hb. reflexivity. Qed.

Lemma len_load16 (buf : bytes) k : (k + 16 <= length buf)%nat -> length (load16 buf k) = 16%nat.
Proof. intros H. unfold load16. rewrite firstn_length, skipn_length. lia. Qed.

Lemma len_store16 (buf : bytes) k v :
  (k + 16 <= length buf)%nat -> length v = 16%nat -> length (store16 buf k v) = length buf.
Proof.
  intros H Hv. unfold store16. rewrite !app_length, firstn_length, skipn_length. lia.
Qed.

(* a step that the instrumented interpreter accepts keeps all widths and lengths *)
Lemma step_inv lens i st : inv lens st -> wfx i = true -> step_ok i st = true -> inv lens (step i st).
Proof.
  intros HI Hw Hok.
  destruct i; cbn [step wfx step_ok] in *;
    try (apply andb_true_iff in Hw; destruct Hw as [Hs Hd]).
  - (* MOVQ_fp *) exact HI.
  - (* MOVQ_imm *) exact HI.
  - (* MOVQ_gx *) destruct (getg st g) as [n|b o]; [|exact HI].
    apply inv_setx; [exact HI|apply len_movq_x].
  - (* SHRQ *) destruct (getg st g) as [n|b o]; exact HI.
  - (* ADDQ *) destruct (getg st g) as [n|b o]; exact HI.
  - (* SUBQ *) destruct (getg st g) as [n|b o]; exact HI.
  - (* MOVOU_ld *) destruct (getg st g) as [n|b o]; [exact HI|].
    apply inv_setx; [exact HI|]. apply len_load16.
    unfold in_buf in Hok. apply Nat.leb_le in Hok. exact Hok.
  - (* MOVOU_st *) destruct (getg st g) as [n|b o]; [exact HI|].
    unfold in_buf in Hok. apply Nat.leb_le in Hok.
    destruct HI as (HL & HF & HM). unfold inv. cbn [sx sm]. repeat split; try assumption.
    rewrite <- HM. apply map_length_upd. fold (membuf st b).
    apply len_store16; [exact Hok|]. apply getx_len with lens; [repeat split; assumption|exact Hw].
  - (* MOVO *) apply inv_setx; [exact HI|]. apply getx_len with lens; assumption.
  - (* PXOR *) apply inv_setx; [exact HI|]. apply len_pxor; apply getx_len with lens; assumption.
  - (* PAND *) apply inv_setx; [exact HI|]. apply len_pand; apply getx_len with lens; assumption.
  - (* PSHUFB *) apply inv_setx; [exact HI|]. apply len_pshufb; apply getx_len with lens; assumption.
  - (* PSRLW *) apply inv_setx; [exact HI|]. apply len_psrlw; apply getx_len with lens; assumption.
  - (* PACKUSWB *) apply inv_setx; [exact HI|]. apply len_packuswb; apply getx_len with lens; assumption.
  - (* PUNPCKLBW *) apply inv_setx; [exact HI|]. apply len_punpcklbw; apply getx_len with lens; assumption.
  - (* PUNPCKHBW *) apply inv_setx; [exact HI|]. apply len_punpckhbw; apply getx_len with lens; assumption.
Qed.

Lemma inv_init args mem : inv (map (@length N) mem) (init_state args mem).
Proof.
  unfold inv, init_state. cbn [sx sm]. repeat split.
  apply Forall_forall. intros r Hr. apply repeat_spec in Hr. subst r. reflexivity.
Qed.

(** * 5. The symbolic interpreter on register shapes *)

(* integer expressions over variables (the arguments' lengths, the loop counter) *)
Inductive exp :=
| EC (c : N)
| EV (v : nat)
| EShr (e : exp) (k : N)
| EAddM (e : exp) (c : N)      (* ADDQ on an integer: mod 2^64 *)
| ESubM (e : exp) (c : N).     (* SUBQ *)

Fixpoint ev (rho : nat -> N) (e : exp) : N :=
  match e with
  | EC c => c
  | EV v => rho v
  | EShr e k => N.shiftr (ev rho e) k
  | EAddM e c => (ev rho e + c) mod two64
  | ESubM e c => (ev rho e + two64 - c) mod two64
  end.

(* a symbolic register/argument: an integer expression, or a pointer into buffer b
   at offset  [base variable] + constant *)
Inductive sval :=
| SInt (e : exp)
| SPtr (b : nat) (base : option nat) (c : N).

Definition evlin (rho : nat -> N) (base : option nat) (c : N) : N :=
  match base with Some v => rho v + c | None => c end.

Definition cval (rho : nat -> N) (s : sval) : gval :=
  match s with
  | SInt e => GInt (ev rho e)
  | SPtr b base c => GPtr b (evlin rho base c)
  end.

Record ssh := mkS { s_regs : list sval; s_args : list sval }.

Definition sdef : sval := SInt (EC 0).
Definition sget (ss : ssh) (g : greg) : sval := nth g (s_regs ss) sdef.
Definition sset (g : greg) (v : sval) (ss : ssh) : ssh := mkS (upd g v (s_regs ss)) (s_args ss).

Definition sstep (i : instr) (ss : ssh) : ssh :=
  match i with
  | MOVQ_fp off g => sset g (nth (N.to_nat (off / 8)) (s_args ss) sdef) ss
  | MOVQ_imm v g => sset g (SInt (EC v)) ss
  | SHRQ k g =>
      match sget ss g with
      | SInt e => sset g (SInt (EShr e k)) ss
      | SPtr _ _ _ => ss
      end
  | ADDQ v g =>
      match sget ss g with
      | SInt e => sset g (SInt (EAddM e v)) ss
      | SPtr b base c => sset g (SPtr b base (c + v)) ss
      end
  | SUBQ v g =>
      match sget ss g with
      | SInt e => sset g (SInt (ESubM e v)) ss
      | SPtr _ _ _ => ss
      end
  | _ => ss
  end.

Definition srun (p : list instr) (ss : ssh) : ssh := fold_left (fun s i => sstep i s) p ss.

(* what an instruction does to memory, symbolically *)
Inductive sacc :=
| SNone
| SFault
| SMem (store : bool) (b : nat) (base : option nat) (c : N).

Definition saccess (i : instr) (ss : ssh) : sacc :=
  match i with
  | MOVOU_ld off g _ =>
      match sget ss g with
      | SPtr b base c => SMem false b base (c + off)
      | SInt _ => SFault
      end
  | MOVOU_st _ off g =>
      match sget ss g with
      | SPtr b base c => SMem true b base (c + off)
      | SInt _ => SFault
      end
  | MOVQ_gx g _ | SHRQ _ g | SUBQ _ g =>
      match sget ss g with
      | SInt _ => SNone
      | SPtr _ _ _ => SFault
      end
  | _ => SNone
  end.

Fixpoint strace (p : list instr) (ss : ssh) : list sacc :=
  match p with
  | [] => []
  | i :: r => saccess i ss :: strace r (sstep i ss)
  end.

(* the shape describes the state under the valuation rho *)
Definition models (rho : nat -> N) (ss : ssh) (st : state) : Prop :=
  sg st = map (cval rho) (s_regs ss) /\ sargs st = map (cval rho) (s_args ss).

Lemma getg_models rho ss st g : models rho ss st -> getg st g = cval rho (sget ss g).
Proof.
  intros [H _]. unfold getg, sget. rewrite H.
  change (GInt 0) with (cval rho sdef). apply map_nth.
Qed.

Lemma models_sset rho ss st g v :
  models rho ss st -> models rho (sset g v ss) (setg g (cval rho v) st).
Proof.
  intros [H1 H2]. unfold models, sset, setg. cbn [sg sargs s_regs s_args]. split; [|exact H2].
  rewrite H1. apply upd_map.
Qed.

Lemma evlin_add rho base c v : evlin rho base (c + v) = evlin rho base c + v.
Proof. destruct base; cbn [evlin]; lia. Qed.

(* the general registers and the frame evolve exactly as the symbolic step says:
   independently of the X registers and of all buffer contents *)
Lemma models_step rho i ss st : models rho ss st -> models rho (sstep i ss) (step i st).
Proof.
  intros M.
  destruct i; cbn [step sstep]; try exact M;
    try (rewrite (getg_models rho ss st g M); destruct (sget ss g) as [e|b base c]; cbn [cval];
         try exact M).
  - (* MOVQ_fp *)
    replace (nth (N.to_nat (off / 8)) (sargs st) (GInt 0))
      with (cval rho (nth (N.to_nat (off / 8)) (s_args ss) sdef)).
    + apply models_sset. exact M.
    + destruct M as [_ H2]. rewrite H2. change (GInt 0) with (cval rho sdef).
      symmetry. apply map_nth.
  - (* MOVQ_imm *) apply (models_sset rho ss st g (SInt (EC v))). exact M.
  - (* SHRQ *) apply (models_sset rho ss st g (SInt (EShr e k))). exact M.
  - (* ADDQ int *) apply (models_sset rho ss st g (SInt (EAddM e v))). exact M.
  - (* ADDQ ptr *)
    rewrite <- evlin_add. apply (models_sset rho ss st g (SPtr b base (c + v))). exact M.
  - (* SUBQ *) apply (models_sset rho ss st g (SInt (ESubM e v))). exact M.
Qed.

Lemma srun_cons i p ss : srun (i :: p) ss = srun p (sstep i ss).
Proof. reflexivity. Qed.

Lemma models_run rho : forall p ss st, models rho ss st -> models rho (srun p ss) (run p st).
Proof.
  induction p as [|i p IH]; intros ss st M; [exact M|].
  rewrite run_cons, srun_cons. apply IH. apply models_step. exact M.
Qed.

(* an access is inside its buffer, for buffer lengths [lens] and valuation rho *)
Definition acc_in (lens : list nat) (rho : nat -> N) (a : sacc) : bool :=
  match a with
  | SNone => true
  | SFault => false
  | SMem _ b base c => (N.to_nat (evlin rho base c) + 16 <=? nth b lens 0)%nat
  end.

Definition acc_out (outs : nat -> bool) (a : sacc) : bool :=
  match a with
  | SMem true b _ _ => outs b
  | _ => true
  end.

(* [step_ok] depends only on the register shape and the buffer lengths *)
Lemma step_ok_eq lens rho i ss st :
  inv lens st -> models rho ss st -> step_ok i st = acc_in lens rho (saccess i ss).
Proof.
  intros HI M.
  destruct i; cbn [step_ok saccess]; try reflexivity;
    rewrite (getg_models rho ss st g M); destruct (sget ss g) as [e|b base c];
    cbn [cval acc_in]; try reflexivity;
    unfold in_buf; rewrite (membuf_len lens st b HI), evlin_add; reflexivity.
Qed.

Lemma step_writes_eq outs rho i ss st :
  models rho ss st -> step_writes_in outs i st = acc_out outs (saccess i ss).
Proof.
  intros M.
  destruct i; cbn [step_writes_in saccess]; try reflexivity;
    try (destruct (sget ss g); reflexivity).
  rewrite (getg_models rho ss st g M). destruct (sget ss g) as [e|b base c]; reflexivity.
Qed.

Lemma run_ok_eq lens rho : forall p ss st,
  inv lens st -> models rho ss st -> forallb wfx p = true ->
  run_ok p st = forallb (acc_in lens rho) (strace p ss).
Proof.
  induction p as [|i p IH]; intros ss st HI M Hw; [reflexivity|].
  cbn [forallb] in Hw. apply andb_true_iff in Hw. destruct Hw as [Hwi Hwp].
  cbn [run_ok strace forallb].
  rewrite <- (step_ok_eq lens rho i ss st HI M).
  destruct (step_ok i st) eqn:E; [|reflexivity]. cbn [andb].
  apply IH; [apply step_inv; assumption|apply models_step; exact M|exact Hwp].
Qed.

Lemma run_inv lens rho : forall p ss st,
  inv lens st -> models rho ss st -> forallb wfx p = true ->
  forallb (acc_in lens rho) (strace p ss) = true -> inv lens (run p st).
Proof.
  induction p as [|i p IH]; intros ss st HI M Hw Ha; [exact HI|].
  cbn [forallb] in Hw. apply andb_true_iff in Hw. destruct Hw as [Hwi Hwp].
  cbn [strace forallb] in Ha. apply andb_true_iff in Ha. destruct Ha as [Hai Hap].
  rewrite run_cons. apply (IH (sstep i ss)); try assumption.
  - apply step_inv; try assumption. rewrite (step_ok_eq lens rho i ss st HI M). exact Hai.
  - apply models_step. exact M.
Qed.

Lemma run_writes_eq outs rho : forall p ss st,
  models rho ss st -> run_writes_in outs p st = forallb (acc_out outs) (strace p ss).
Proof.
  induction p as [|i p IH]; intros ss st M; [reflexivity|].
  cbn [run_writes_in strace forallb].
  rewrite (step_writes_eq outs rho i ss st M). f_equal.
  apply IH. apply models_step. exact M.
Qed.

(** * 6. Decidable equality of shapes (for the checker) *)

Fixpoint exp_eqb (a b : exp) : bool :=
  match a, b with
  | EC x, EC y => x =? y
  | EV x, EV y => (x =? y)%nat
  | EShr e x, EShr f y => exp_eqb e f && (x =? y)
  | EAddM e x, EAddM f y => exp_eqb e f && (x =? y)
  | ESubM e x, ESubM f y => exp_eqb e f && (x =? y)
  | _, _ => false
  end.

Lemma exp_eqb_eq : forall a b, exp_eqb a b = true -> a = b.
Proof.
  induction a as [x|x|e IH x|e IH x|e IH x]; intros [y|y|f y|f y|f y] H; cbn [exp_eqb] in H;
    try discriminate.
  - apply N.eqb_eq in H. congruence.
  - apply Nat.eqb_eq in H. congruence.
  - apply andb_true_iff in H. destruct H as [H1 H2]. apply N.eqb_eq in H2. rewrite (IH f H1), H2. reflexivity.
  - apply andb_true_iff in H. destruct H as [H1 H2]. apply N.eqb_eq in H2. rewrite (IH f H1), H2. reflexivity.
  - apply andb_true_iff in H. destruct H as [H1 H2]. apply N.eqb_eq in H2. rewrite (IH f H1), H2. reflexivity.
Qed.

Definition base_eqb (a b : option nat) : bool :=
  match a, b with
  | Some x, Some y => (x =? y)%nat
  | None, None => true
  | _, _ => false
  end.

Definition sval_eqb (a b : sval) : bool :=
  match a, b with
  | SInt e, SInt f => exp_eqb e f
  | SPtr b1 v1 c1, SPtr b2 v2 c2 => (b1 =? b2)%nat && base_eqb v1 v2 && (c1 =? c2)
  | _, _ => false
  end.

Lemma sval_eqb_eq a b : sval_eqb a b = true -> a = b.
Proof.
  destruct a as [e|b1 v1 c1], b as [f|b2 v2 c2]; cbn [sval_eqb]; intros H; try discriminate.
  - f_equal. apply exp_eqb_eq. exact H.
  - apply andb_true_iff in H. destruct H as [H H3].
    apply andb_true_iff in H. destruct H as [H1 H2].
    apply Nat.eqb_eq in H1. apply N.eqb_eq in H3. subst.
    destruct v1 as [x|], v2 as [y|]; cbn [base_eqb] in H2; try discriminate; [|reflexivity].
    apply Nat.eqb_eq in H2. subst. reflexivity.
Qed.

Fixpoint svals_eqb (a b : list sval) : bool :=
  match a, b with
  | [], [] => true
  | x :: a', y :: b' => sval_eqb x y && svals_eqb a' b'
  | _, _ => false
  end.

Lemma svals_eqb_eq : forall a b, svals_eqb a b = true -> a = b.
Proof.
  induction a as [|x a IH]; intros [|y b] H; cbn [svals_eqb] in H; try discriminate; [reflexivity|].
  apply andb_true_iff in H. destruct H as [H1 H2].
  rewrite (sval_eqb_eq x y H1), (IH b H2). reflexivity.
Qed.

Definition ssh_eqb (a b : ssh) : bool :=
  svals_eqb (s_regs a) (s_regs b) && svals_eqb (s_args a) (s_args b).

Lemma ssh_eqb_eq a b : ssh_eqb a b = true -> a = b.
Proof.
  destruct a, b. unfold ssh_eqb. cbn [s_regs s_args]. intros H.
  apply andb_true_iff in H. destruct H as [H1 H2].
  rewrite (svals_eqb_eq _ _ H1), (svals_eqb_eq _ _ H2). reflexivity.
Qed.

(** * 7. Straight-line routines: pointer arguments to fixed-size buffers *)

(* the frame  (GPtr 0 0, GPtr 1 0, ..., GPtr (k-1) 0)  and its shape *)
Definition frame_ptrs (k : nat) : list gval := map (fun b => GPtr b 0) (seq 0 k).
Definition sframe_ptrs (k : nat) : list sval := map (fun b => SPtr b None 0) (seq 0 k).
Definition Sstraight (k : nat) : ssh := mkS [sdef; sdef; sdef] (sframe_ptrs k).
Definition rho0 : nat -> N := fun _ => 0.

Lemma models_straight k mem : models rho0 (Sstraight k) (init_state (frame_ptrs k) mem).
Proof.
  split; [reflexivity|]. unfold init_state, Sstraight, frame_ptrs, sframe_ptrs. cbn [sargs s_args].
  rewrite map_map. reflexivity.
Qed.

Definition straight_check (p : list instr) (lens : list nat) (outs : nat -> bool) : bool :=
  forallb wfx p &&
  forallb (acc_in lens rho0) (strace p (Sstraight (length lens))) &&
  forallb (acc_out outs) (strace p (Sstraight (length lens))).

(* for ANY buffers, the instrumented run is decided by the boolean computed from the
   instruction list and the buffer lengths alone *)
Theorem straight_run_ok_eq p mem :
  forallb wfx p = true ->
  run_ok p (init_state (frame_ptrs (length mem)) mem) =
  forallb (acc_in (map (@length N) mem) rho0) (strace p (Sstraight (length mem))).
Proof.
  intros Hw. apply run_ok_eq; [apply inv_init|apply models_straight|exact Hw].
Qed.

Theorem straight_safe p lens outs :
  straight_check p lens outs = true ->
  forall mem, map (@length N) mem = lens ->
  let st0 := init_state (frame_ptrs (length lens)) mem in
  run_ok p st0 = true /\
  run_writes_in outs p st0 = true /\
  (forall b, outs b = false -> membuf (run p st0) b = membuf st0 b) /\
  map (@length N) (sm (run p st0)) = lens.
Proof.
  intros Hc mem Hm st0. unfold straight_check in Hc.
  apply andb_true_iff in Hc. destruct Hc as [Hc H3].
  apply andb_true_iff in Hc. destruct Hc as [H1 H2].
  assert (HI : inv lens st0) by (rewrite <- Hm; apply inv_init).
  assert (M : models rho0 (Sstraight (length lens)) st0) by apply models_straight.
  assert (Hok : run_ok p st0 = true) by (rewrite (run_ok_eq lens rho0 p _ st0 HI M H1); exact H2).
  assert (Hwr : run_writes_in outs p st0 = true) by (rewrite (run_writes_eq outs rho0 p _ st0 M); exact H3).
  repeat split; try assumption.
  - intros b Hb. apply run_writes_frame with outs; assumption.
  - destruct (run_inv lens rho0 p _ st0 HI M H1 H2) as (_ & _ & HL). exact HL.
Qed.

(** * 8. The slice loops: prologue + do-while body *)

(* argument frame of  f(cEntry *T, in []byte, out []byte):
   cEntry, in (ptr, len, cap), out (ptr, len, cap) *)
Definition slice_frame (li lo : N) : list gval :=
  [GPtr 0 0; GPtr 1 0; GInt li; GInt li; GPtr 2 0; GInt lo; GInt lo].
Definition slice_state (tb inb outb : bytes) (li lo : N) : state :=
  init_state (slice_frame li lo) [tb; inb; outb].

(* variables: 0 = in_len, 1 = out_len, 2 = the counter at the head of an iteration,
   3 / 4 = the offsets of the in / out pointers at the head of an iteration *)
Definition rho (li lo a o : N) (v : nat) : N :=
  match v with
  | 0%nat => li | 1%nat => lo | 2%nat => a | 3%nat => o | 4%nat => o | _ => 0
  end.

Definition Sargs : list sval :=
  [SPtr 0 None 0; SPtr 1 None 0; SInt (EV 0); SInt (EV 0); SPtr 2 None 0; SInt (EV 1); SInt (EV 1)].
(* on entry *)
Definition Sinit : ssh := mkS [sdef; sdef; sdef] Sargs.
(* after the prologue: AX = in_len >> 5, BX = in, CX = out *)
Definition Spre : ssh := mkS [SInt (EShr (EV 0) 5); SPtr 1 None 0; SPtr 2 None 0] Sargs.
(* at the head of an iteration / after the body: both pointers advanced by 32, counter - 1 *)
Definition S0 : ssh := mkS [SInt (EV 2); SPtr 1 (Some 3%nat) 0; SPtr 2 (Some 4%nat) 0] Sargs.
Definition S1 : ssh := mkS [SInt (ESubM (EV 2) 1); SPtr 1 (Some 3%nat) 32; SPtr 2 (Some 4%nat) 32] Sargs.

(* an access allowed in a slice routine: a load inside the 128-byte table entry through a
   constant pointer, a load inside the current 32-byte chunk of in, a load or store inside
   the current 32-byte chunk of out *)
Definition chk_acc (a : sacc) : bool :=
  match a with
  | SNone => true
  | SFault => false
  | SMem st 0%nat None c => negb st && (c + 16 <=? 128)
  | SMem st 1%nat (Some 3%nat) c => negb st && (c + 16 <=? 32)
  | SMem st 2%nat (Some 4%nat) c => c + 16 <=? 32
  | _ => false
  end.

Definition slice_check (pre body : list instr) : bool :=
  forallb wfx pre && forallb chk_acc (strace pre Sinit) && ssh_eqb (srun pre Sinit) Spre &&
  forallb wfx body && forallb chk_acc (strace body S0) && ssh_eqb (srun body S0) S1.

(* the accesses that make the bounds tight: the last 16 bytes of the table entry, of the
   in chunk and of the out chunk are touched *)
Definition touches (b : nat) (base : option nat) (lim : N) (a : sacc) : bool :=
  match a with
  | SMem _ b' base' c => (b' =? b)%nat && base_eqb base' base && (c + 16 =? lim)
  | _ => false
  end.
Definition slice_tight_check (pre body : list instr) : bool :=
  existsb (touches 0 None 128) (strace pre Sinit) &&
  existsb (touches 1 (Some 3%nat) 32) (strace body S0) &&
  existsb (touches 2 (Some 4%nat) 32) (strace body S0).

Lemma chk_acc_in a l0 l1 l2 li lo ai (n i : nat) :
  chk_acc a = true -> (128 <= l0)%nat -> (32 * n <= l1)%nat -> (32 * n <= l2)%nat -> (i < n)%nat ->
  acc_in [l0; l1; l2] (rho li lo ai (N.of_nat (32 * i))) a = true.
Proof.
  intros H H0 H1 H2 Hi.
  destruct a as [| |st b base c]; [reflexivity|discriminate|].
  destruct b as [|[|[|b]]]; cbn [chk_acc] in H; try discriminate.
  - destruct base as [v|]; [discriminate|].
    apply andb_true_iff in H. destruct H as [_ H]. apply N.leb_le in H.
    cbn [acc_in evlin nth]. apply Nat.leb_le. lia.
  - destruct base as [[|[|[|[|v]]]]|]; try discriminate.
    apply andb_true_iff in H. destruct H as [_ H]. apply N.leb_le in H.
    cbn [acc_in evlin nth rho]. apply Nat.leb_le. lia.
  - destruct base as [[|[|[|[|[|v]]]]]|]; try discriminate.
    apply N.leb_le in H.
    cbn [acc_in evlin nth rho]. apply Nat.leb_le. lia.
Qed.

Lemma chk_acc_out a : chk_acc a = true -> acc_out (Nat.eqb 2) a = true.
Proof.
  intros H. destruct a as [| |st b base c]; try reflexivity.
  destruct st; [|reflexivity].
  destruct b as [|[|[|b]]]; cbn [chk_acc] in H; try discriminate.
  - destruct base as [v|]; discriminate.
  - destruct base as [[|[|[|[|v]]]]|]; discriminate.
  - reflexivity.
Qed.

Lemma forallb_imp {A} (f g : A -> bool) (l : list A) :
  (forall a, f a = true -> g a = true) -> forallb f l = true -> forallb g l = true.
Proof.
  intros H. induction l as [|x l IH]; [reflexivity|]. cbn [forallb]. intros E.
  apply andb_true_iff in E. destruct E as [E1 E2]. rewrite (H x E1), (IH E2). reflexivity.
Qed.

Lemma counter_dec a : 1 <= a -> a < two64 -> (a + two64 - 1) mod two64 = a - 1.
Proof.
  intros H1 H2. replace (a + two64 - 1) with ((a - 1) + 1 * two64) by (unfold two64 in *; lia).
  rewrite N.mod_add by discriminate. apply N.mod_small. lia.
Qed.

Lemma models_S0 li lo a o st :
  sg st = [GInt a; GPtr 1 o; GPtr 2 o] -> sargs st = slice_frame li lo ->
  models (rho li lo a o) S0 st.
Proof.
  intros H1 H2. split.
  - rewrite H1. cbn [S0 s_regs map cval ev evlin rho]. rewrite !N.add_0_r. reflexivity.
  - rewrite H2. reflexivity.
Qed.

Section SliceLoop.
  Variables (pre body : list instr).
  Hypothesis Hcheck : slice_check pre body = true.

  Let Hparts :
    (forallb wfx pre = true /\ forallb chk_acc (strace pre Sinit) = true /\ srun pre Sinit = Spre) /\
    (forallb wfx body = true /\ forallb chk_acc (strace body S0) = true /\ srun body S0 = S1).
  Proof.
    unfold slice_check in Hcheck.
    pose proof Hcheck as C.
    apply andb_true_iff in C. destruct C as [C C6].
    apply andb_true_iff in C. destruct C as [C C5].
    apply andb_true_iff in C. destruct C as [C C4].
    apply andb_true_iff in C. destruct C as [C C3].
    apply andb_true_iff in C. destruct C as [C1 C2].
    apply ssh_eqb_eq in C3. apply ssh_eqb_eq in C6.
    repeat split; assumption.
  Qed.

  Variables (tb inb outb : bytes) (li lo : N) (n : nat).
  Let lens := [length tb; length inb; length outb].
  Let st0 := slice_state tb inb outb li lo.
  Let st1 := run pre st0.

  Hypothesis Hn : N.of_nat n = li / 32.
  Hypothesis Hli : li < two64.

  Lemma st0_inv : inv lens st0.
  Proof. exact (inv_init (slice_frame li lo) [tb; inb; outb]). Qed.

  Lemma st0_models a o : models (rho li lo a o) Sinit st0.
  Proof. split; reflexivity. Qed.

  Lemma st1_models a o : models (rho li lo a o) Spre st1.
  Proof.
    destruct Hparts as [(_ & _ & E) _]. rewrite <- E. apply models_run. apply st0_models.
  Qed.

  Lemma st1_regs : sg st1 = [GInt (N.of_nat n); GPtr 1 0; GPtr 2 0] /\ sargs st1 = slice_frame li lo.
  Proof.
    destruct (st1_models 0 0) as [H1 H2]. split; [|exact H2].
    rewrite H1. cbn [Spre s_regs map cval ev evlin rho].
    rewrite Hn, N.shiftr_div_pow2. reflexivity.
  Qed.

  (* one iteration, from the head of iteration i *)
  Lemma body_from i st :
    sg st = [GInt (N.of_nat (n - i)); GPtr 1 (N.of_nat (32 * i)); GPtr 2 (N.of_nat (32 * i))] ->
    sargs st = slice_frame li lo -> (i < n)%nat ->
    models (rho li lo (N.of_nat (n - i)) (N.of_nat (32 * i))) S0 st /\
    sg (run body st) = [GInt (N.of_nat (n - S i)); GPtr 1 (N.of_nat (32 * S i)); GPtr 2 (N.of_nat (32 * S i))] /\
    sargs (run body st) = slice_frame li lo.
  Proof.
    intros Hg Ha Hi.
    pose proof (models_S0 li lo _ _ st Hg Ha) as M. split; [exact M|].
    destruct Hparts as [_ (_ & _ & E)].
    pose proof (models_run _ body S0 st M) as M1. rewrite E in M1. destruct M1 as [G1 A1].
    split; [|rewrite A1; reflexivity].
    rewrite G1. cbn [S1 s_regs map cval ev evlin rho].
    assert (Hlt : N.of_nat n < two64).
    { rewrite Hn. apply N.le_lt_trans with li; [|exact Hli]. apply N.div_le_upper_bound; lia. }
    rewrite counter_dec by lia.
    repeat f_equal; lia.
  Qed.

  Section Safe.
    Hypothesis Htb : (128 <= length tb)%nat.
    Hypothesis Hin : (32 * n <= length inb)%nat.
    Hypothesis Hout : (32 * n <= length outb)%nat.
    Hypothesis Hn1 : (1 <= n)%nat.

    Lemma pre_safe :
      run_ok pre st0 = true /\ inv lens st1 /\ writes_only 2 pre st0 = true.
    Proof.
      destruct Hparts as [(W & C & _) _].
      assert (A : forallb (acc_in lens (rho li lo 0 (N.of_nat (32 * 0)))) (strace pre Sinit) = true).
      { revert C. apply forallb_imp. intros a Ha. apply chk_acc_in with n; try assumption; try lia. }
      split; [|split].
      - rewrite (run_ok_eq lens _ pre Sinit st0 st0_inv (st0_models 0 (N.of_nat (32 * 0))) W). exact A.
      - apply (run_inv lens _ pre Sinit st0 st0_inv (st0_models 0 (N.of_nat (32 * 0))) W A).
      - unfold writes_only. rewrite (run_writes_eq _ _ pre Sinit st0 (st0_models 0 0)).
        revert C. apply forallb_imp. exact chk_acc_out.
    Qed.

    Lemma loop_safe : forall fuel i st,
      (i < n)%nat -> inv lens st ->
      sg st = [GInt (N.of_nat (n - i)); GPtr 1 (N.of_nat (32 * i)); GPtr 2 (N.of_nat (32 * i))] ->
      sargs st = slice_frame li lo ->
      run_loop_ok fuel AX body st = true /\
      loop_writes_only 2 fuel AX body st = true /\
      inv lens (run_loop fuel AX body st).
    Proof.
      induction fuel as [|f IH]; intros i st Hi HI Hg Ha;
        [split; [reflexivity|split; [reflexivity|exact HI]]|].
      destruct (body_from i st Hg Ha Hi) as (M & G1 & A1).
      destruct Hparts as [_ (W & C & _)].
      assert (A : forallb (acc_in lens (rho li lo (N.of_nat (n - i)) (N.of_nat (32 * i)))) (strace body S0) = true).
      { revert C. apply forallb_imp. intros a Hc. apply chk_acc_in with n; assumption. }
      assert (Hok : run_ok body st = true) by (rewrite (run_ok_eq lens _ body S0 st HI M W); exact A).
      assert (Hwr : run_writes_in (Nat.eqb 2) body st = true).
      { rewrite (run_writes_eq _ _ body S0 st M). revert C. apply forallb_imp. exact chk_acc_out. }
      pose proof (run_inv lens _ body S0 st HI M W A) as HI1.
      unfold loop_writes_only.
      cbn [run_loop_ok loop_writes_in run_loop]. cbv zeta. rewrite Hok, Hwr. cbn [andb].
      unfold getg. rewrite G1. cbn [nth AX].
      destruct (N.of_nat (n - S i)) as [|q] eqn:Eq.
      - split; [reflexivity|split; [reflexivity|exact HI1]].
      - rewrite <- Eq in G1. apply (IH (S i)); try assumption; lia.
    Qed.

    (* the slice routine, from its entry, for any amount of fuel *)
    Theorem slice_safe_n : forall fuel,
      let st2 := run_loop fuel AX body st1 in
      run_ok pre st0 = true /\ run_loop_ok fuel AX body st1 = true /\
      writes_only 2 pre st0 = true /\ loop_writes_only 2 fuel AX body st1 = true /\
      membuf st2 0 = tb /\ membuf st2 1 = inb /\
      length (membuf st2 2) = length outb /\ map (@length N) (sm st2) = lens.
    Proof.
      intros fuel st2.
      destruct pre_safe as (P1 & P2 & P3).
      destruct st1_regs as [G A].
      destruct (loop_safe fuel 0 st1) as (L1 & L2 & L3); try assumption; try lia.
      { rewrite G. replace (n - 0)%nat with n by lia. reflexivity. }
      split; [exact P1|]. split; [exact L1|]. split; [exact P3|]. split; [exact L2|].
      split; [|split; [|split]].
      - unfold st2. rewrite (loop_writes_frame (Nat.eqb 2) 0 AX body fuel st1 L2 eq_refl).
        unfold st1. rewrite (run_writes_frame (Nat.eqb 2) 0 pre st0 P3 eq_refl). reflexivity.
      - unfold st2. rewrite (loop_writes_frame (Nat.eqb 2) 1 AX body fuel st1 L2 eq_refl).
        unfold st1. rewrite (run_writes_frame (Nat.eqb 2) 1 pre st0 P3 eq_refl). reflexivity.
      - rewrite (membuf_len lens st2 2 L3). reflexivity.
      - destruct L3 as (_ & _ & L3). exact L3.
    Qed.
  End Safe.

  Section Tight.
    Hypothesis Htight : slice_tight_check pre body = true.
    Hypothesis Hn1 : (1 <= n)%nat.

    Lemma touches_spec b base lim T :
      existsb (touches b base lim) T = true ->
      exists st c, In (SMem st b base c) T /\ c + 16 = lim.
    Proof.
      intros H. apply existsb_exists in H. destruct H as (a & Hin & Ht).
      destruct a as [| |st b' base' c]; try discriminate. cbn [touches] in Ht.
      apply andb_true_iff in Ht. destruct Ht as [Ht H3].
      apply andb_true_iff in Ht. destruct Ht as [H1 H2].
      apply Nat.eqb_eq in H1. apply N.eqb_eq in H3. subst b'.
      assert (base' = base).
      { destruct base' as [x|], base as [y|]; cbn [base_eqb] in H2; try discriminate; [|reflexivity].
        apply Nat.eqb_eq in H2. subst. reflexivity. }
      subst base'. exists st, c. split; assumption.
    Qed.

    (* a table entry shorter than 128 bytes: the prologue faults *)
    Lemma pre_tight : (length tb < 128)%nat -> run_ok pre st0 = false.
    Proof.
      intros Hs. destruct Hparts as [(W & _ & _) _].
      rewrite (run_ok_eq lens _ pre Sinit st0 st0_inv (st0_models 0 0) W).
      unfold slice_tight_check in Htight.
      apply andb_true_iff in Htight. destruct Htight as [Ht _].
      apply andb_true_iff in Ht. destruct Ht as [Ht _].
      destruct (touches_spec _ _ _ _ Ht) as (s & c & Hin & Hc).
      destruct (forallb (acc_in lens (rho li lo 0 0)) (strace pre Sinit)) eqn:E; [|reflexivity].
      rewrite forallb_forall in E. specialize (E _ Hin).
      cbn [acc_in evlin nth lens] in E. apply Nat.leb_le in E. lia.
    Qed.

    (* in or out shorter than 32*n bytes: the loop faults (at the latest in its last iteration) *)
    Lemma loop_tight : (length inb < 32 * n)%nat \/ (length outb < 32 * n)%nat ->
      forall fuel i st,
      (i < n)%nat -> (n - i <= fuel)%nat -> inv lens st ->
      sg st = [GInt (N.of_nat (n - i)); GPtr 1 (N.of_nat (32 * i)); GPtr 2 (N.of_nat (32 * i))] ->
      sargs st = slice_frame li lo ->
      run_loop_ok fuel AX body st = false.
    Proof.
      intros Hshort.
      induction fuel as [|f IH]; intros i st Hi Hf HI Hg Ha; [lia|].
      destruct (body_from i st Hg Ha Hi) as (M & G1 & A1).
      destruct Hparts as [_ (W & _ & _)].
      cbn [run_loop_ok]. cbv zeta.
      rewrite (run_ok_eq lens _ body S0 st HI M W).
      destruct (forallb (acc_in lens (rho li lo (N.of_nat (n - i)) (N.of_nat (32 * i)))) (strace body S0)) eqn:E;
        [|reflexivity].
      cbn [andb].
      pose proof (run_inv lens _ body S0 st HI M W E) as HI1.
      unfold slice_tight_check in Htight.
      apply andb_true_iff in Htight. destruct Htight as [Ht Ht2].
      apply andb_true_iff in Ht. destruct Ht as [_ Ht1].
      destruct (touches_spec _ _ _ _ Ht1) as (s1 & c1 & Hin1 & Hc1).
      destruct (touches_spec _ _ _ _ Ht2) as (s2 & c2 & Hin2 & Hc2).
      rewrite forallb_forall in E.
      pose proof (E _ Hin1) as E1. pose proof (E _ Hin2) as E2.
      cbn [acc_in evlin nth lens rho] in E1, E2. apply Nat.leb_le in E1. apply Nat.leb_le in E2.
      unfold getg. rewrite G1. cbn [nth AX].
      destruct (N.of_nat (n - S i)) as [|q] eqn:Eq.
      - exfalso. lia.
      - rewrite <- Eq in G1. apply (IH (S i)); try assumption; lia.
    Qed.

    Theorem slice_tight_n : forall fuel, (n <= fuel)%nat ->
      (length tb < 128)%nat \/ (length inb < 32 * n)%nat \/ (length outb < 32 * n)%nat ->
      run_ok pre st0 && run_loop_ok fuel AX body st1 = false.
    Proof.
      intros fuel Hf Hs.
      destruct (run_ok pre st0) eqn:E; [|reflexivity]. cbn [andb].
      destruct Hs as [Hs|Hs]; [rewrite (pre_tight Hs) in E; discriminate|].
      destruct Hparts as [(W & _ & _) _].
      rewrite (run_ok_eq lens _ pre Sinit st0 st0_inv (st0_models 0 0) W) in E.
      pose proof (run_inv lens _ pre Sinit st0 st0_inv (st0_models 0 0) W E) as HI1.
      destruct st1_regs as [G A].
      apply (loop_tight Hs fuel 0 st1); try assumption; try lia.
      rewrite G. replace (n - 0)%nat with n by lia. reflexivity.
    Qed.
  End Tight.
End SliceLoop.

(* the checked slice routine is safe exactly when both slices hold 32 * (in_len / 32) bytes *)
Theorem slice_safe pre body : slice_check pre body = true ->
  forall tb inb outb li lo fuel,
  (128 <= length tb)%nat -> 1 <= li / 32 -> li < two64 ->
  32 * (li / 32) <= lenN inb -> 32 * (li / 32) <= lenN outb ->
  let st0 := slice_state tb inb outb li lo in
  let st1 := run pre st0 in
  let st2 := run_loop fuel AX body st1 in
  run_ok pre st0 = true /\ run_loop_ok fuel AX body st1 = true /\
  writes_only 2 pre st0 = true /\ loop_writes_only 2 fuel AX body st1 = true /\
  membuf st2 0 = tb /\ membuf st2 1 = inb /\
  length (membuf st2 2) = length outb /\ map (@length N) (sm st2) = [length tb; length inb; length outb].
Proof.
  intros Hc tb inb outb li lo fuel Htb Hn1 Hli Hin Hout.
  apply (slice_safe_n pre body Hc tb inb outb li lo (N.to_nat (li / 32)));
    unfold lenN in *; try assumption; lia.
Qed.

Theorem slice_tight pre body : slice_check pre body = true -> slice_tight_check pre body = true ->
  forall tb inb outb li lo fuel,
  1 <= li / 32 -> li < two64 -> (N.to_nat (li / 32) <= fuel)%nat ->
  (length tb < 128)%nat \/ lenN inb < 32 * (li / 32) \/ lenN outb < 32 * (li / 32) ->
  let st0 := slice_state tb inb outb li lo in
  run_ok pre st0 && run_loop_ok fuel AX body (run pre st0) = false.
Proof.
  intros Hc Ht tb inb outb li lo fuel Hn1 Hli Hf Hs.
  apply (slice_tight_n pre body Hc tb inb outb li lo (N.to_nat (li / 32)));
    unfold lenN in *; try assumption; lia.
Qed.

(* what the Go callers (mulByteSliceLE / mulAndAddByteSliceLE) establish:
   len(out) == len(in), len(in) >= 32, and a slice length fits in 64 bits *)
Theorem slice_safe_caller pre body : slice_check pre body = true ->
  forall tb inb outb fuel,
  (128 <= length tb)%nat -> length inb = length outb -> (32 <= length inb)%nat -> lenN inb < two64 ->
  let st0 := slice_state tb inb outb (lenN inb) (lenN outb) in
  let st1 := run pre st0 in
  let st2 := run_loop fuel AX body st1 in
  run_ok pre st0 = true /\ run_loop_ok fuel AX body st1 = true /\
  writes_only 2 pre st0 = true /\ loop_writes_only 2 fuel AX body st1 = true /\
  membuf st2 0 = tb /\ membuf st2 1 = inb /\
  length (membuf st2 2) = length outb /\ map (@length N) (sm st2) = [length tb; length inb; length outb].
Proof.
  intros Hc tb inb outb fuel Htb Hl H32 H64.
  assert (E : lenN outb = lenN inb) by (unfold lenN; rewrite Hl; reflexivity).
  apply (slice_safe pre body Hc); try assumption; rewrite ?E; unfold lenN in *; lia.
Qed.

(* under the caller-independent side conditions the instrumented run succeeds EXACTLY when both
   slices hold the 32 * (in_len / 32) bytes the loop walks over *)
Theorem slice_exact pre body : slice_check pre body = true -> slice_tight_check pre body = true ->
  forall tb inb outb li lo fuel,
  (128 <= length tb)%nat -> 1 <= li / 32 -> li < two64 -> (N.to_nat (li / 32) <= fuel)%nat ->
  let st0 := slice_state tb inb outb li lo in
  run_ok pre st0 && run_loop_ok fuel AX body (run pre st0) = true <->
  (32 * (li / 32) <= lenN inb /\ 32 * (li / 32) <= lenN outb).
Proof.
  intros Hc Ht tb inb outb li lo fuel Htb Hn1 Hli Hf st0. split.
  - intros H.
    destruct (N.lt_ge_cases (lenN inb) (32 * (li / 32))) as [Hs|Hi].
    { unfold st0 in H.
      rewrite (slice_tight pre body Hc Ht tb inb outb li lo fuel Hn1 Hli Hf) in H;
        [discriminate|right; left; exact Hs]. }
    destruct (N.lt_ge_cases (lenN outb) (32 * (li / 32))) as [Hs|Ho].
    { unfold st0 in H.
      rewrite (slice_tight pre body Hc Ht tb inb outb li lo fuel Hn1 Hli Hf) in H;
        [discriminate|right; right; exact Hs]. }
    split; assumption.
  - intros [Hi Ho].
    destruct (slice_safe pre body Hc tb inb outb li lo fuel Htb Hn1 Hli Hi Ho) as (H1 & H2 & _).
    unfold st0. rewrite H1, H2. reflexivity.
Qed.

(** * 9. The statements for a straight-line routine with 4 / 5 pointer arguments *)

Definition outs23 (b : nat) : bool := ((b =? 2) || (b =? 3))%nat.
Definition outs34 (b : nat) : bool := ((b =? 3) || (b =? 4))%nat.

(* f(in0, in1, out0, out1 *[16]byte) *)
Definition bounds4 (p : list instr) : Prop :=
  forall a b o0 o1 : bytes,
  length a = 16%nat -> length b = 16%nat -> length o0 = 16%nat -> length o1 = 16%nat ->
  let st0 := init_state [GPtr 0 0; GPtr 1 0; GPtr 2 0; GPtr 3 0] [a; b; o0; o1] in
  let st := run p st0 in
  run_ok p st0 = true /\ run_writes_in outs23 p st0 = true /\
  membuf st 0 = a /\ membuf st 1 = b /\
  length (membuf st 2) = 16%nat /\ length (membuf st 3) = 16%nat /\ length (sm st) = 4%nat.

(* f(cEntry *mulTable64Entry, in0, in1, out0, out1 *[16]byte) *)
Definition bounds5 (p : list instr) : Prop :=
  forall tb a b o0 o1 : bytes,
  length tb = 128%nat ->
  length a = 16%nat -> length b = 16%nat -> length o0 = 16%nat -> length o1 = 16%nat ->
  let st0 := init_state [GPtr 0 0; GPtr 1 0; GPtr 2 0; GPtr 3 0; GPtr 4 0] [tb; a; b; o0; o1] in
  let st := run p st0 in
  run_ok p st0 = true /\ run_writes_in outs34 p st0 = true /\
  membuf st 0 = tb /\ membuf st 1 = a /\ membuf st 2 = b /\
  length (membuf st 3) = 16%nat /\ length (membuf st 4) = 16%nat /\ length (sm st) = 5%nat.

Definition lens4 : list nat := [16; 16; 16; 16]%nat.
Definition lens5 : list nat := [128; 16; 16; 16; 16]%nat.

Lemma nth_map_length (m : list bytes) (b : nat) :
  length (nth b m []) = nth b (map (@length N) m) 0%nat.
Proof. change 0%nat with (length (@nil N)). symmetry. apply map_nth. Qed.

Theorem bounds4_of_check p : straight_check p lens4 outs23 = true -> bounds4 p.
Proof.
  intros Hc a b o0 o1 La Lb L0 L1.
  destruct (straight_safe p lens4 outs23 Hc [a; b; o0; o1]) as (H1 & H2 & H3 & H4).
  { cbn [map]. rewrite La, Lb, L0, L1. reflexivity. }
  change (frame_ptrs (length lens4)) with [GPtr 0 0; GPtr 1 0; GPtr 2 0; GPtr 3 0] in *.
  cbv zeta.
  split; [exact H1|]. split; [exact H2|].
  split; [exact (H3 0%nat eq_refl)|]. split; [exact (H3 1%nat eq_refl)|].
  unfold membuf. rewrite !nth_map_length, H4.
  split; [reflexivity|]. split; [reflexivity|].
  rewrite <- (map_length (@length N)), H4. reflexivity.
Qed.

Theorem bounds5_of_check p : straight_check p lens5 outs34 = true -> bounds5 p.
Proof.
  intros Hc tb a b o0 o1 Lt La Lb L0 L1.
  destruct (straight_safe p lens5 outs34 Hc [tb; a; b; o0; o1]) as (H1 & H2 & H3 & H4).
  { cbn [map]. rewrite Lt, La, Lb, L0, L1. reflexivity. }
  change (frame_ptrs (length lens5)) with [GPtr 0 0; GPtr 1 0; GPtr 2 0; GPtr 3 0; GPtr 4 0] in *.
  cbv zeta.
  split; [exact H1|]. split; [exact H2|].
  split; [exact (H3 0%nat eq_refl)|]. split; [exact (H3 1%nat eq_refl)|].
  split; [exact (H3 2%nat eq_refl)|].
  unfold membuf. rewrite !nth_map_length, H4.
  split; [reflexivity|]. split; [reflexivity|].
  rewrite <- (map_length (@length N)), H4. reflexivity.
Qed.

(* tightness: shorten any one buffer by one byte and the instrumented run faults *)
Definition straight_ok_lens (p : list instr) (lens : list nat) : bool :=
  forallb (acc_in lens rho0) (strace p (Sstraight (length lens))).
Definition dec_nth (j : nat) (lens : list nat) : list nat := upd j (nth j lens 0 - 1)%nat lens.
Definition straight_tight_check (p : list instr) (lens : list nat) : bool :=
  forallb wfx p &&
  forallb (fun j => negb (straight_ok_lens p (dec_nth j lens))) (seq 0 (length lens)).

Theorem straight_tight p lens : straight_tight_check p lens = true ->
  forall (mem : list bytes) j, (j < length lens)%nat -> map (@length N) mem = dec_nth j lens ->
  run_ok p (init_state (frame_ptrs (length lens)) mem) = false.
Proof.
  intros Hc mem j Hj Hm. unfold straight_tight_check in Hc.
  apply andb_true_iff in Hc. destruct Hc as [Hw Hc].
  assert (Hl : length mem = length lens).
  { rewrite <- (map_length (@length N)), Hm. unfold dec_nth. apply upd_length. }
  rewrite <- Hl, (straight_run_ok_eq p mem Hw), Hm.
  rewrite forallb_forall in Hc. specialize (Hc j).
  assert (Hin : In j (seq 0 (length lens))) by (apply in_seq; lia).
  specialize (Hc Hin). apply negb_true_iff in Hc. unfold straight_ok_lens in Hc.
  unfold dec_nth in Hc at 2. rewrite upd_length in Hc. rewrite Hl. exact Hc.
Qed.

(** * 10. The instruction lists of Model/Ssse3.v *)

(* each check is a computation on the instruction list *)
Lemma check_standardToAltMap : straight_check standardToAltMapSSSE3Unsafe lens4 outs23 = true.
Proof. vm_compute. reflexivity. Qed.
Lemma check_altToStandardMap : straight_check altToStandardMapSSSE3Unsafe lens4 outs23 = true.
Proof. vm_compute. reflexivity. Qed.
Lemma check_mulAltMap : straight_check mulAltMapSSSE3Unsafe lens5 outs34 = true.
Proof. vm_compute. reflexivity. Qed.
Lemma check_mul : straight_check mulSSSE3Unsafe lens5 outs34 = true.
Proof. vm_compute. reflexivity. Qed.
Lemma check_mulAndAdd : straight_check mulAndAddSSSE3Unsafe lens5 outs34 = true.
Proof. vm_compute. reflexivity. Qed.
Lemma check_mulSlice : slice_check mulSliceSSSE3Unsafe_pre mulSliceSSSE3Unsafe_body = true.
Proof. vm_compute. reflexivity. Qed.
Lemma check_mulAndAddSlice :
  slice_check mulAndAddSliceSSSE3Unsafe_pre mulAndAddSliceSSSE3Unsafe_body = true.
Proof. vm_compute. reflexivity. Qed.
Lemma tcheck_mulSlice : slice_tight_check mulSliceSSSE3Unsafe_pre mulSliceSSSE3Unsafe_body = true.
Proof. vm_compute. reflexivity. Qed.
Lemma tcheck_mulAndAddSlice :
  slice_tight_check mulAndAddSliceSSSE3Unsafe_pre mulAndAddSliceSSSE3Unsafe_body = true.
Proof. vm_compute. reflexivity. Qed.

(** ** the 16-byte routines *)

Theorem standardToAltMapSSSE3Unsafe_bounds : bounds4 standardToAltMapSSSE3Unsafe.
Proof. exact (bounds4_of_check _ check_standardToAltMap). Qed.
Print Assumptions standardToAltMapSSSE3Unsafe_bounds.

Theorem altToStandardMapSSSE3Unsafe_bounds : bounds4 altToStandardMapSSSE3Unsafe.
Proof. exact (bounds4_of_check _ check_altToStandardMap). Qed.
Print Assumptions altToStandardMapSSSE3Unsafe_bounds.

Theorem mulAltMapSSSE3Unsafe_bounds : bounds5 mulAltMapSSSE3Unsafe.
Proof. exact (bounds5_of_check _ check_mulAltMap). Qed.
Print Assumptions mulAltMapSSSE3Unsafe_bounds.

Theorem mulSSSE3Unsafe_bounds : bounds5 mulSSSE3Unsafe.
Proof. exact (bounds5_of_check _ check_mul). Qed.
Print Assumptions mulSSSE3Unsafe_bounds.

Theorem mulAndAddSSSE3Unsafe_bounds : bounds5 mulAndAddSSSE3Unsafe.
Proof. exact (bounds5_of_check _ check_mulAndAdd). Qed.
Print Assumptions mulAndAddSSSE3Unsafe_bounds.

(* any ONE of the buffers one byte short: fault *)
Definition tight_straight (p : list instr) (lens : list nat) : Prop :=
  forall (mem : list bytes) j, (j < length lens)%nat -> map (@length N) mem = dec_nth j lens ->
  run_ok p (init_state (frame_ptrs (length lens)) mem) = false.

Theorem straight_routines_tight :
  tight_straight standardToAltMapSSSE3Unsafe lens4 /\
  tight_straight altToStandardMapSSSE3Unsafe lens4 /\
  tight_straight mulAltMapSSSE3Unsafe lens5 /\
  tight_straight mulSSSE3Unsafe lens5 /\
  tight_straight mulAndAddSSSE3Unsafe lens5.
Proof.
  repeat split; refine (straight_tight _ _ _); vm_compute; reflexivity.
Qed.
Print Assumptions straight_routines_tight.

(** ** the slice loops, under the preconditions of mulByteSliceLE / mulAndAddByteSliceLE *)

Definition slice_pre (acc : bool) : list instr :=
  if acc then mulAndAddSliceSSSE3Unsafe_pre else mulSliceSSSE3Unsafe_pre.
Definition slice_body (acc : bool) : list instr :=
  if acc then mulAndAddSliceSSSE3Unsafe_body else mulSliceSSSE3Unsafe_body.

Lemma check_slice acc : slice_check (slice_pre acc) (slice_body acc) = true.
Proof. destruct acc; [exact check_mulAndAddSlice|exact check_mulSlice]. Qed.
Lemma tcheck_slice acc : slice_tight_check (slice_pre acc) (slice_body acc) = true.
Proof. destruct acc; [exact tcheck_mulAndAddSlice|exact tcheck_mulSlice]. Qed.

(* (a) no access outside a buffer, no wild pointer; (b) stores go to out only; the table
   entry and in are unchanged, all lengths are unchanged.  acc = false: mulSliceSSSE3Unsafe,
   acc = true: mulAndAddSliceSSSE3Unsafe.  For every amount of fuel (the loop leaves after
   len/32 iterations by itself). *)
Theorem sliceSSSE3Unsafe_bounds : forall acc tb inb outb fuel,
  (128 <= length tb)%nat -> length inb = length outb -> (32 <= length inb)%nat -> lenN inb < two64 ->
  let st0 := slice_state tb inb outb (lenN inb) (lenN outb) in
  let st1 := run (slice_pre acc) st0 in
  let st2 := run_loop fuel AX (slice_body acc) st1 in
  run_ok (slice_pre acc) st0 = true /\ run_loop_ok fuel AX (slice_body acc) st1 = true /\
  writes_only 2 (slice_pre acc) st0 = true /\ loop_writes_only 2 fuel AX (slice_body acc) st1 = true /\
  membuf st2 0 = tb /\ membuf st2 1 = inb /\
  length (membuf st2 2) = length outb /\ map (@length N) (sm st2) = [length tb; length inb; length outb].
Proof. intros acc. exact (slice_safe_caller _ _ (check_slice acc)). Qed.
Print Assumptions sliceSSSE3Unsafe_bounds.

(* the run that Model/Ssse3.v's [ssse3_chunks] performs (table of the constant c, fuel =
   dowhile_iters (len/32)) is such a run *)
Theorem ssse3_chunks_run_in_bounds : forall (c : N) (acc : bool) (inb outb : bytes),
  length inb = length outb -> (32 <= length inb)%nat -> lenN inb < two64 ->
  let st0 := init_state [GPtr 0 0; GPtr 1 0; GInt (lenN inb); GInt (lenN inb);
                         GPtr 2 0; GInt (lenN outb); GInt (lenN outb)]
                        [table64 c; inb; outb] in
  let pre := if acc then mulAndAddSliceSSSE3Unsafe_pre else mulSliceSSSE3Unsafe_pre in
  let body := if acc then mulAndAddSliceSSSE3Unsafe_body else mulSliceSSSE3Unsafe_body in
  let st1 := run pre st0 in
  let fuel := match getg st1 AX with
              | GInt n => N.to_nat (dowhile_iters n)
              | GPtr _ _ => O
              end in
  let st2 := run_loop fuel AX body st1 in
  run_ok pre st0 = true /\ run_loop_ok fuel AX body st1 = true /\
  writes_only 2 pre st0 = true /\ loop_writes_only 2 fuel AX body st1 = true /\
  membuf st2 0 = table64 c /\ membuf st2 1 = inb /\ membuf st2 2 = ssse3_chunks c acc inb outb /\
  length (ssse3_chunks c acc inb outb) = length outb.
Proof.
  intros c acc inb outb Hl H32 H64 st0 pre body st1 fuel st2.
  assert (Ht : (128 <= length (table64 c))%nat) by (cbn; lia).
  destruct (sliceSSSE3Unsafe_bounds acc (table64 c) inb outb fuel Ht Hl H32 H64)
    as (H1 & H2 & H3 & H4 & H5 & H6 & H7 & _).
  repeat split; assumption.
Qed.
Print Assumptions ssse3_chunks_run_in_bounds.

(* (c) the bound is tight, in general: whenever the table entry is shorter than 128 bytes, or
   in or out is shorter than the 32 * (in_len/32) bytes announced in the frame, the
   instrumented run reports a fault (fuel >= in_len/32, i.e. the loop is run to its end) *)
Theorem sliceSSSE3Unsafe_tight : forall acc tb inb outb li lo fuel,
  1 <= li / 32 -> li < two64 -> (N.to_nat (li / 32) <= fuel)%nat ->
  (length tb < 128)%nat \/ lenN inb < 32 * (li / 32) \/ lenN outb < 32 * (li / 32) ->
  let st0 := slice_state tb inb outb li lo in
  run_ok (slice_pre acc) st0 && run_loop_ok fuel AX (slice_body acc) (run (slice_pre acc) st0) = false.
Proof. intros acc. exact (slice_tight _ _ (check_slice acc) (tcheck_slice acc)). Qed.
Print Assumptions sliceSSSE3Unsafe_tight.

Theorem sliceSSSE3Unsafe_exact : forall acc tb inb outb li lo fuel,
  (128 <= length tb)%nat -> 1 <= li / 32 -> li < two64 -> (N.to_nat (li / 32) <= fuel)%nat ->
  let st0 := slice_state tb inb outb li lo in
  run_ok (slice_pre acc) st0 && run_loop_ok fuel AX (slice_body acc) (run (slice_pre acc) st0) = true <->
  (32 * (li / 32) <= lenN inb /\ 32 * (li / 32) <= lenN outb).
Proof. intros acc. exact (slice_exact _ _ (check_slice acc) (tcheck_slice acc)). Qed.
Print Assumptions sliceSSSE3Unsafe_exact.

(** * 11. Non-vacuity: the theorems instantiated on concrete states, and the instrumented
      interpreter run directly (vm_compute, independent of the symbolic machinery) *)

Module Ssse3BoundsExamples.
  Definition c0 : N := 0x1234.
  Definition in70 : bytes := map (fun k => N.of_nat ((7 * k + 3) mod 256)) (seq 0 70).
  Definition out70 : bytes := map (fun k => N.of_nat ((11 * k + 5) mod 256)) (seq 0 70).
  Definition r16 (s : nat) : bytes := map (fun k => N.of_nat ((13 * k + s) mod 256)) (seq 0 16).

  (* all hypotheses of sliceSSSE3Unsafe_bounds hold on a 70-byte pair (2 chunks + 6 bytes) *)
  Example slice_bounds_instance : forall acc,
    let st0 := slice_state (table64 c0) in70 out70 (lenN in70) (lenN out70) in
    let st1 := run (slice_pre acc) st0 in
    let st2 := run_loop 2 AX (slice_body acc) st1 in
    run_ok (slice_pre acc) st0 = true /\ run_loop_ok 2 AX (slice_body acc) st1 = true /\
    writes_only 2 (slice_pre acc) st0 = true /\ loop_writes_only 2 2 AX (slice_body acc) st1 = true /\
    membuf st2 0 = table64 c0 /\ membuf st2 1 = in70 /\
    length (membuf st2 2) = length out70 /\
    map (@length N) (sm st2) = [length (table64 c0); length in70; length out70].
  Proof.
    intros acc. apply sliceSSSE3Unsafe_bounds.
    - cbn. lia.
    - reflexivity.
    - cbn. lia.
    - vm_compute. reflexivity.
  Qed.

  (* the same facts by running the instrumented interpreter on the concrete state *)
  Example slice_run_direct :
    forallb (fun acc =>
      let st0 := slice_state (table64 c0) in70 out70 (lenN in70) (lenN out70) in
      let st1 := run (slice_pre acc) st0 in
      run_ok (slice_pre acc) st0 && run_loop_ok 5 AX (slice_body acc) st1 &&
      writes_only 2 (slice_pre acc) st0 && loop_writes_only 2 5 AX (slice_body acc) st1)
      [false; true] = true.
  Proof. vm_compute. reflexivity. Qed.

  (* (c) one byte short, n = 2: out of 63 bytes, in of 63 bytes, table entry of 127 bytes *)
  Definition in64 : bytes := firstn 64 in70.
  Definition out64 : bytes := firstn 64 out70.
  Definition faults (acc : bool) (tb inb outb : bytes) (li : N) (fuel : nat) : bool :=
    let st0 := slice_state tb inb outb li li in
    negb (run_ok (slice_pre acc) st0 && run_loop_ok fuel AX (slice_body acc) (run (slice_pre acc) st0)).

  Example slice_ok_64 : forallb (fun acc => negb (faults acc (table64 c0) in64 out64 64 2)) [false; true] = true.
  Proof. vm_compute. reflexivity. Qed.
  Example slice_out_short : forallb (fun acc => faults acc (table64 c0) in64 (firstn 63 out64) 64 2) [false; true] = true.
  Proof. vm_compute. reflexivity. Qed.
  Example slice_in_short : forallb (fun acc => faults acc (table64 c0) (firstn 63 in64) out64 64 2) [false; true] = true.
  Proof. vm_compute. reflexivity. Qed.
  Example slice_table_short : forallb (fun acc => faults acc (firstn 127 (table64 c0)) in64 out64 64 2) [false; true] = true.
  Proof. vm_compute. reflexivity. Qed.

  (* the hypotheses of sliceSSSE3Unsafe_tight on the 63-byte out *)
  Example slice_tight_instance : forall acc,
    let st0 := slice_state (table64 c0) in64 (firstn 63 out64) 64 64 in
    run_ok (slice_pre acc) st0 && run_loop_ok 2 AX (slice_body acc) (run (slice_pre acc) st0) = false.
  Proof.
    intros acc. apply sliceSSSE3Unsafe_tight.
    - vm_compute. discriminate.
    - vm_compute. reflexivity.
    - vm_compute. lia.
    - right. right. vm_compute. reflexivity.
  Qed.

  (* why the callers' guard len >= 32 matters: the routines have no  CMPQ AX, $0 / JEQ done ;
     on a 31-byte pair (the callers never pass one) the first iteration already leaves the buffers *)
  Example slice_below_32_faults :
    forallb (fun acc => faults acc (table64 c0) (firstn 31 in64) (firstn 31 out64) 31 1) [false; true] = true.
  Proof. vm_compute. reflexivity. Qed.

  (* the 16-byte routines: hypotheses of bounds4 / bounds5 *)
  Example mul_bounds_instance :
    let st0 := init_state [GPtr 0 0; GPtr 1 0; GPtr 2 0; GPtr 3 0; GPtr 4 0]
                          [table64 c0; r16 1; r16 2; r16 3; r16 4] in
    let st := run mulAndAddSSSE3Unsafe st0 in
    run_ok mulAndAddSSSE3Unsafe st0 = true /\ run_writes_in outs34 mulAndAddSSSE3Unsafe st0 = true /\
    membuf st 0 = table64 c0 /\ membuf st 1 = r16 1 /\ membuf st 2 = r16 2 /\
    length (membuf st 3) = 16%nat /\ length (membuf st 4) = 16%nat /\ length (sm st) = 5%nat.
  Proof. apply mulAndAddSSSE3Unsafe_bounds; reflexivity. Qed.

  Example shuffle_bounds_instance :
    let st0 := init_state [GPtr 0 0; GPtr 1 0; GPtr 2 0; GPtr 3 0] [r16 1; r16 2; r16 3; r16 4] in
    let st := run standardToAltMapSSSE3Unsafe st0 in
    run_ok standardToAltMapSSSE3Unsafe st0 = true /\
    run_writes_in outs23 standardToAltMapSSSE3Unsafe st0 = true /\
    membuf st 0 = r16 1 /\ membuf st 1 = r16 2 /\
    length (membuf st 2) = 16%nat /\ length (membuf st 3) = 16%nat /\ length (sm st) = 4%nat.
  Proof. apply standardToAltMapSSSE3Unsafe_bounds; reflexivity. Qed.

  (* run directly; and with out1 of 15 bytes the instrumented run faults *)
  Example straight_run_direct :
    forallb (fun p => run_ok p (init_state (frame_ptrs 5) [table64 c0; r16 1; r16 2; r16 3; r16 4]))
            [mulAltMapSSSE3Unsafe; mulSSSE3Unsafe; mulAndAddSSSE3Unsafe] &&
    forallb (fun p => negb (run_ok p (init_state (frame_ptrs 5)
                                        [table64 c0; r16 1; r16 2; r16 3; firstn 15 (r16 4)])))
            [mulAltMapSSSE3Unsafe; mulSSSE3Unsafe; mulAndAddSSSE3Unsafe] &&
    forallb (fun p => run_ok p (init_state (frame_ptrs 4) [r16 1; r16 2; r16 3; r16 4]) &&
                      negb (run_ok p (init_state (frame_ptrs 4) [r16 1; firstn 15 (r16 2); r16 3; r16 4])))
            [standardToAltMapSSSE3Unsafe; altToStandardMapSSSE3Unsafe] = true.
  Proof. vm_compute. reflexivity. Qed.

  (* the instrumented semantics also reports wild pointers and ignored pointers *)
  Example wild_pointer_faults :
    run_ok [MOVQ_imm 64 AX; MOVOU_ld 0 AX X0] (init_state [] [zeros 128]) = false /\
    run_ok [MOVQ_fp 0 AX; SHRQ 5 AX] (init_state [GPtr 0 0] [zeros 128]) = false /\
    run_ok [MOVQ_fp 0 AX; ADDQ 113 AX; MOVOU_ld 0 AX X0] (init_state [GPtr 0 0] [zeros 128]) = false /\
    run_ok [MOVQ_fp 0 AX; ADDQ 112 AX; MOVOU_ld 0 AX X0] (init_state [GPtr 0 0] [zeros 128]) = true.
  Proof. repeat split; reflexivity. Qed.
End Ssse3BoundsExamples.
