(* Facts about the PAR2 decoder model (Model/Par2.v over Model/FS.v):
   A. Verify and the loading phase never modify the file system and emit no
      write event; Repair (fault-free run) changes the file system only through
      completed writes of data matching both recorded hashes and the length.
   B. repair_shards never returns wrong bytes (via reconstruct_spec). *)
From Coq Require Import Lia.
From Gopar Require Import Model.Base Model.GF16 Model.Matrix Model.RS16 Model.CRC Model.GoPath Model.FS Model.Par2
     Proofs.LinAlg Proofs.Matrix16 Proofs.RS16Facts.
Open Scope N_scope.
Set Default Timeout 120.

(** * bytes_eqb decides equality *)
Lemma bytes_eqb_eq : forall a b, bytes_eqb a b = true -> a = b.
Proof.
  intros a b H. unfold bytes_eqb in H. apply andb_true_iff in H. destruct H as [Hl Hf].
  apply Nat.eqb_eq in Hl. revert b Hl Hf.
  induction a as [|x a IH]; intros [|y b] Hl Hf; try discriminate; [reflexivity|].
  cbn [forallb combine fst snd] in Hf. apply andb_true_iff in Hf. destruct Hf as [Hx Hf].
  apply N.eqb_eq in Hx. f_equal; [exact Hx|]. apply IH; [cbn [length] in Hl; lia|exact Hf].
Qed.

Lemma bytes_eqb_refl : forall a, bytes_eqb a a = true.
Proof.
  intros a. unfold bytes_eqb. rewrite Nat.eqb_refl. cbn [andb].
  induction a as [|x a IH]; [reflexivity|].
  cbn [forallb combine fst snd]. rewrite N.eqb_refl, IH. reflexivity.
Qed.

(** * A. framing of the file system *)

Definition no_write (ev : ioev) : Prop := match ev with EvWrite _ _ _ => False | _ => True end.

(* st' is reachable from st by steps that keep the file map and the schedule
   and append only non-write events *)
Definition pres (st st' : io) : Prop :=
  io_fs st' = io_fs st /\ io_sched st' = io_sched st /\
  exists t, io_trace st' = io_trace st ++ t /\ Forall no_write t.

Lemma pres_refl st : pres st st.
Proof.
  split; [reflexivity|split; [reflexivity|]]. exists []. split; [symmetry; apply app_nil_r|constructor].
Qed.

Lemma pres_trans a b c : pres a b -> pres b c -> pres a c.
Proof.
  intros (F1 & S1 & t1 & T1 & W1) (F2 & S2 & t2 & T2 & W2).
  split; [congruence|split; [congruence|]].
  exists (t1 ++ t2). split; [rewrite T2, T1, app_assoc; reflexivity|apply Forall_app; split; assumption].
Qed.

Lemma pres_tick st ev : no_write ev -> pres st (tick st ev (io_fs st)).
Proof.
  intros H. split; [reflexivity|split; [reflexivity|]]. exists [ev]. split; [reflexivity|].
  constructor; [exact H|constructor].
Qed.

Lemma io_read_pres p st : pres st (snd (io_read p st)).
Proof.
  unfold io_read. destruct (sched_lookup (io_sched st) (io_n st)) as [f|].
  - cbn [snd]. apply pres_tick. exact I.
  - destruct (fs_lookup (io_fs st) p) as [d|].
    + cbn [snd]. apply pres_tick. exact I.
    + destruct (is_dir (io_fs st) p); cbn [snd]; apply pres_tick; exact I.
Qed.

Lemma io_list_pres a b st : pres st (snd (io_list a b st)).
Proof.
  unfold io_list. destruct (sched_lookup (io_sched st) (io_n st)) as [f|]; cbn [snd]; apply pres_tick; exact I.
Qed.

Lemma io_read_fs : forall p st, io_fs (snd (io_read p st)) = io_fs st.
Proof. intros p st. apply (io_read_pres p st). Qed.
Lemma io_list_fs : forall a b st, io_fs (snd (io_list a b st)) = io_fs st.
Proof. intros a b st. apply (io_list_pres a b st). Qed.

Lemma io_write_nosched p d st : io_sched st = [] ->
  io_write p d st = (Ok tt, tick st (EvWrite p d true) (fs_set (io_fs st) p d)).
Proof. intros H. unfold io_write. rewrite H. reflexivity. Qed.

Definition apply_writes (ws : list (list N * bytes)) (fs : list (list N * bytes)) : list (list N * bytes) :=
  fold_left (fun f w => fs_set f (fst w) (snd w)) ws fs.

Section Par2Facts.
  Variable md5 : bytes -> bytes.

  Lemma new_decoder_pres ix st : pres st (snd (new_decoder md5 ix st)).
  Proof.
    unfold new_decoder. pose proof (io_read_pres ix st) as P.
    destruct (io_read ix st) as [[b|e|q] st1]; cbn [snd] in *; exact P.
  Qed.

  Lemma load_files_pres d w t : forall todo fis st, pres st (snd (load_files md5 d w t todo fis st)).
  Proof.
    induction todo as [|[i info] r IH]; intros fis st; cbn [load_files].
    - apply pres_refl.
    - pose proof (io_read_pres (file_path (d_index d) (di_name info)) st) as P.
      destruct (io_read (file_path (d_index d) (di_name info)) st) as [[data|e|q] st1]; cbn [snd] in P.
      + eapply pres_trans; [exact P|apply IH].
      + destruct e; try (cbn [snd]; exact P). eapply pres_trans; [exact P|apply IH].
      + cbn [snd]. exact P.
  Qed.

  Lemma load_parity_pres d : forall paths acc st, pres st (snd (load_parity md5 d paths acc st)).
  Proof.
    induction paths as [|p r IH]; intros acc st; cbn [load_parity].
    - apply pres_refl.
    - pose proof (io_read_pres p st) as P.
      destruct (io_read p st) as [[b|e|q] st1]; cbn [snd] in P.
      + destruct (read_file_vol md5 (d_setid d) b) as [| |sid f].
        * cbn [snd]. exact P.
        * eapply pres_trans; [exact P|apply IH].
        * lazymatch goal with |- pres _ (snd (if ?c then _ else _)) => destruct c end; [cbn [snd]; exact P|].
          lazymatch goal with |- pres _ (snd (if ?c then _ else _)) => destruct c end; [cbn [snd]; exact P|].
          eapply pres_trans; [exact P|apply IH].
      + cbn [snd]. exact P.
      + cbn [snd]. exact P.
  Qed.

  Lemma load_all_pres ix st : pres st (snd (load_all md5 ix st)).
  Proof.
    unfold load_all.
    lazymatch goal with |- pres _ (snd (if ?c then _ else _)) => destruct c end; [cbn [snd]; apply pres_refl|].
    pose proof (new_decoder_pres ix st) as P1.
    destruct (new_decoder md5 ix st) as [[d|e|q] st1]; cbn [snd] in P1; try (cbn [snd]; exact P1).
    destruct (win_new (Z.of_N (d_slice d))) as [w|e|q]; try (cbn [snd]; exact P1).
    match goal with |- context [load_files md5 d w ?t ?todo ?fis st1] =>
      pose proof (load_files_pres d w t todo fis st1) as P2;
      destruct (load_files md5 d w t todo fis st1) as [[fis'|e|q] st2] end;
      cbn [snd] in P2; try (cbn [snd]; eapply pres_trans; [exact P1|exact P2]).
    pose proof (pres_trans _ _ _ P1 P2) as P12.
    match goal with |- context [io_list ?a ?b st2] =>
      pose proof (io_list_pres a b st2) as P3;
      destruct (io_list a b st2) as [[paths|e|q] st3] end;
      cbn [snd] in P3; try (cbn [snd]; eapply pres_trans; [exact P12|exact P3]).
    pose proof (pres_trans _ _ _ P12 P3) as P123.
    pose proof (load_parity_pres d paths [] st3) as P4.
    destruct (load_parity md5 d paths [] st3) as [[acc|e|q] st4]; cbn [snd] in *;
      eapply pres_trans; [exact P123|exact P4|exact P123|exact P4|exact P123|exact P4].
  Qed.

  Lemma verify_pres ix st : pres st (snd (par2_verify md5 ix st)).
  Proof.
    unfold par2_verify. pose proof (load_all_pres ix st) as P.
    destruct (load_all md5 ix st) as [[ds|e|q] st1]; cbn [snd] in *; exact P.
  Qed.

  Theorem load_all_fs : forall ix st, io_fs (snd (load_all md5 ix st)) = io_fs st.
  Proof. intros ix st. apply (load_all_pres ix st). Qed.

  Theorem verify_pure : forall ix st, io_fs (snd (par2_verify md5 ix st)) = io_fs st.
  Proof. intros ix st. apply (verify_pres ix st). Qed.

  Theorem verify_no_write : forall ix fs sched,
    Forall no_write (io_trace (snd (par2_verify md5 ix (io_init fs sched)))).
  Proof.
    intros ix fs sched. destruct (verify_pres ix (io_init fs sched)) as (_ & _ & t & T & W).
    cbn [io_init io_trace app] in T. rewrite T. exact W.
  Qed.

  (** ** A2: Repair *)
  Lemma write_repaired_spec ix (recs : list dinfo) : forall todo done st r rp st',
    io_sched st = [] ->
    Forall (fun t : bool * (dinfo * list bytes) => In (fst (snd t)) recs) todo ->
    write_repaired md5 ix todo done st = ((r, rp), st') ->
    exists ws,
      io_fs st' = apply_writes ws (io_fs st) /\ rp = done ++ map fst ws /\
      Forall (fun w : list N * bytes => exists info, In info recs /\
                 fst w = file_path ix (di_name info) /\
                 md5 (snd w) = di_hash info /\ hash16k md5 (snd w) = di_h16 info /\
                 N.of_nat (length (snd w)) = di_len info) ws.
  Proof.
    induction todo as [|[b [info shards]] todo IH]; intros done st r rp st' Hs Hin H.
    - cbn [write_repaired] in H. injection H as _ <- <-. exists []. cbn [apply_writes fold_left map].
      split; [reflexivity|split; [symmetry; apply app_nil_r|constructor]].
    - inversion Hin as [|? ? Hi Hin']; subst. cbn [fst snd] in Hi.
      cbn [write_repaired] in H. destruct b.
      { eapply IH; eassumption. }
      set (all := concat shards) in *.
      destruct (N.ltb_spec (N.of_nat (length all)) (di_len info)) as [Hlt|Hge].
      { injection H as _ <- <-. exists []. cbn [apply_writes fold_left map].
        split; [reflexivity|split; [symmetry; apply app_nil_r|constructor]]. }
      set (data := firstn (N.to_nat (di_len info)) all) in *.
      destruct (bytes_eqb (hash16k md5 data) (di_h16 info)) eqn:E1; cbn [negb] in H.
      2:{ injection H as _ <- <-. exists []. cbn [apply_writes fold_left map].
          split; [reflexivity|split; [symmetry; apply app_nil_r|constructor]]. }
      destruct (bytes_eqb (md5 data) (di_hash info)) eqn:E2; cbn [negb] in H.
      2:{ injection H as _ <- <-. exists []. cbn [apply_writes fold_left map].
          split; [reflexivity|split; [symmetry; apply app_nil_r|constructor]]. }
      rewrite (io_write_nosched _ _ st Hs) in H.
      apply IH in H; [|exact Hs|exact Hin'].
      destruct H as (ws & Hfs & Hrp & Hws).
      exists ((file_path ix (di_name info), data) :: ws).
      split; [|split].
      + rewrite Hfs. reflexivity.
      + rewrite Hrp, <- app_assoc. reflexivity.
      + constructor; [|exact Hws]. exists info. cbn [fst snd].
        split; [exact Hi|]. split; [reflexivity|].
        split; [apply bytes_eqb_eq; exact E2|]. split; [apply bytes_eqb_eq; exact E1|].
        unfold data. rewrite firstn_length. lia.
  Qed.

  Theorem repair_writes : forall ix dbl fs r rp st',
    par2_repair md5 ix dbl (io_init fs []) = ((r, rp), st') ->
    (io_fs st' = fs /\ rp = []) \/
    exists ds st1 ws,
      load_all md5 ix (io_init fs []) = (Ok ds, st1) /\
      io_fs st' = apply_writes ws fs /\ rp = map fst ws /\
      Forall (fun w => exists info, In info (d_rec (ds_dec ds)) /\
                         fst w = file_path ix (di_name info) /\
                         md5 (snd w) = di_hash info /\ hash16k md5 (snd w) = di_h16 info /\
                         N.of_nat (length (snd w)) = di_len info) ws.
  Proof.
    intros ix dbl fs r rp st' H. unfold par2_repair in H.
    pose proof (load_all_pres ix (io_init fs [])) as P.
    destruct (load_all md5 ix (io_init fs [])) as [[ds|e|q] st1] eqn:EL; cbn [snd] in P;
      destruct P as (Pf & Ps & _); cbn [io_init io_fs io_sched] in Pf, Ps.
    - destruct (ds_fis ds) as [|fi0 fis0] eqn:Efis.
      { left. injection H as _ <- <-. split; [exact Pf|reflexivity]. }
      rewrite <- Efis in H.
      destruct (repair_core ds dbl) as [data|e|q].
      + right.
        apply (write_repaired_spec ix (d_rec (ds_dec ds))) in H; [|exact Ps|].
        * destruct H as (ws & Hfs & Hrp & Hws). exists ds, st1, ws.
          split; [reflexivity|]. split; [rewrite Hfs, Pf; reflexivity|]. split; [exact Hrp|exact Hws].
        * apply Forall_forall. intros [b [info sh]] Hin. cbn [fst snd].
          apply in_combine_r in Hin. apply in_combine_l in Hin. exact Hin.
      + left. injection H as _ <- <-. split; [exact Pf|reflexivity].
      + left. injection H as _ <- <-. split; [exact Pf|reflexivity].
    - left. injection H as _ <- <-. split; [exact Pf|reflexivity].
    - left. injection H as _ <- <-. split; [exact Pf|reflexivity].
  Qed.
End Par2Facts.

(** * B. reconstruction never returns wrong bytes *)

Definition opt_words (o : option bytes) : option (list N) :=
  match o with Some b => Some (le_words b) | None => None end.

Lemma le_words_le_bytes_any : forall w, le_words (le_bytes w) = w.
Proof.
  induction w as [|x w IH]; [reflexivity|]. cbn [le_bytes le_words]. rewrite IH. f_equal.
  pose proof (N.div_mod' x 256). lia.
Qed.

Lemma le_words_le_bytes : forall w, wf_words w -> le_words (le_bytes w) = w.
Proof. intros w _. apply le_words_le_bytes_any. Qed.

Lemma le_bytes_le_words_n : forall n b, length b = (2 * n)%nat -> wf_bytes b -> le_bytes (le_words b) = b.
Proof.
  induction n as [|n IH]; intros b Hl Hw.
  - destruct b; [reflexivity|discriminate].
  - destruct b as [|lo [|hi r]]; cbn [length] in Hl; try lia.
    inversion Hw as [|? ? Hlo Hw1]; subst. inversion Hw1 as [|? ? Hhi Hw2]; subst.
    unfold wf_byte in Hlo, Hhi.
    cbn [le_words le_bytes]. rewrite (IH r) by (try assumption; lia).
    f_equal; [|f_equal].
    + symmetry. apply N.mod_unique with hi; [exact Hlo|lia].
    + symmetry. apply N.div_unique with lo; [exact Hlo|lia].
Qed.

Lemma le_bytes_le_words : forall b, wf_bytes b -> Nat.even (length b) = true -> le_bytes (le_words b) = b.
Proof.
  intros b Hw He. apply Nat.even_spec in He. destruct He as [n Hn].
  apply (le_bytes_le_words_n n); assumption.
Qed.

Lemma le_words_wfv : forall L b, length b = (2 * L)%nat -> wf_bytes b -> wfv16 L (le_words b).
Proof.
  induction L as [|L IH]; intros b Hl Hw.
  - destruct b; [|discriminate]. split; [reflexivity|constructor].
  - destruct b as [|lo [|hi r]]; cbn [length] in Hl; try lia.
    inversion Hw as [|? ? Hlo Hw1]; subst. inversion Hw1 as [|? ? Hhi Hw2]; subst.
    unfold wf_byte in Hlo, Hhi.
    destruct (IH r ltac:(lia) Hw2) as [Il If].
    cbn [le_words]. split; [cbn [length]; lia|]. constructor; [unfold wfe; lia|exact If].
Qed.

Lemma wf_words_le_words : forall L b, length b = (2 * L)%nat -> wf_bytes b -> wf_words (le_words b).
Proof. intros L b Hl Hw. destruct (le_words_wfv L b Hl Hw) as [_ H]. exact H. Qed.

Lemma count_nones_eq {A} : forall l : list (option A), count_nones l = count_none l.
Proof.
  unfold count_nones. induction l as [|[x|] l IH]; cbn [filter count_none length]; [reflexivity|exact IH|].
  rewrite IH. reflexivity.
Qed.

Lemma map_erase {A B} (f : A -> B) : forall (k : list bool) (l : list A),
  map (fun o => match o with Some b => Some (f b) | None => None end) (erase k l) = erase k (map f l).
Proof.
  induction k as [|b k IH]; intros [|x l]; try reflexivity.
  cbn [map]. rewrite !erase_cons. cbn [map]. rewrite IH. destruct b; reflexivity.
Qed.

Lemma map_id_Forall {A} (f : A -> A) (P : A -> Prop) :
  (forall x, P x -> f x = x) -> forall l, Forall P l -> map f l = l.
Proof.
  intros Hf. induction l as [|x l IH]; intros H; [reflexivity|].
  inversion H; subst. cbn [map]. rewrite Hf, IH by assumption. reflexivity.
Qed.

Lemma double_check_true : forall (G : list (list N)) (kp : list bool),
  forallb (fun gp : list N * option (list N) =>
             match snd gp with Some given => bytes_eqb (fst gp) given | None => true end)
          (combine G (erase kp G)) = true.
Proof.
  induction G as [|g G IH]; intros kp; [reflexivity|].
  destruct kp as [|b kp]; [reflexivity|].
  rewrite erase_cons. cbn [combine forallb fst snd]. rewrite IH.
  destruct b; [rewrite bytes_eqb_refl|]; reflexivity.
Qed.

(* the second branch of repair_shards *)
Definition repair_shards2 (shards : list (option bytes)) (parity : list (option bytes)) (dbl : bool) : outcome (list bytes) :=
  let nd := length shards in
  let np := length parity in
  if Nat.eqb nd 0 then Panic PExplicit
  else if (32768 <? N.of_nat nd) then Err EOther
  else if (65535 <? N.of_nat np) then Err EOther
  else
    let c := {| c_data := nd; c_parity := np; c_pm := vandermonde_pm nd np |} in
    let pw := map (fun o => match o with Some b => Some (le_words b) | None => None end) parity in
    do rw <- reconstruct c (map (fun o => match o with Some b => Some (le_words b) | None => None end) shards) pw;
    if dbl && negb (forallb (fun gp : list N * option (list N) =>
                               match snd gp with Some given => bytes_eqb (fst gp) given | None => true end)
                            (combine (gen_parity c rw) pw))
    then Err EOther
    else Ok (map le_bytes rw).

Lemma repair_shards_eq shards parity dbl :
  repair_shards shards parity dbl =
  match parity with
  | [] => if Nat.eqb (count_nones shards) 0 then Ok (somes shards) else Err ENotEnoughParity
  | _ => repair_shards2 shards parity dbl
  end.
Proof. destruct parity; reflexivity. Qed.

Theorem repair_shards_sound : forall orig kd kp L dbl,
  let nd := length orig in
  forall np, (0 < nd)%nat -> N.of_nat nd <= 32768 -> N.of_nat np <= 65535 ->
  Forall (fun s => wf_bytes s /\ length s = (2 * L)%nat) orig ->
  length kd = nd -> length kp = np ->
  let c := {| c_data := nd; c_parity := np; c_pm := vandermonde_pm nd np |} in
  let blocks := map le_bytes (gen_parity c (map le_words orig)) in
  match repair_shards (erase kd orig) (erase kp blocks) dbl with
  | Ok data => data = orig
  | Err e => e = ENotEnoughParity \/ e = ESingular
  | Panic _ => False
  end.
Proof.
  intros orig kd kp L dbl nd np Hnd Hnd' Hnp Horig Hkd Hkp c blocks.
  assert (Hlo : length orig = nd) by reflexivity. clearbody nd.
  set (D := map le_words orig) in *.
  assert (HD : wfm16 nd L D).
  { split; [unfold D; rewrite map_length; exact Hlo|].
    apply Forall_forall. intros v Hv. unfold D in Hv. apply in_map_iff in Hv. destruct Hv as [s [<- Hs]].
    rewrite Forall_forall in Horig. destruct (Horig s Hs) as [Hw Hl]. apply le_words_wfv; assumption. }
  assert (Hpm : wfm16 np nd (vandermonde_pm nd np)) by (apply vandermonde_pm_wf; assumption).
  set (G := gen_parity c D) in *.
  assert (HG : wfm16 np L G).
  { unfold G, gen_parity, apply_matrix, c. cbn [c_pm].
    assert (HL : shard_len D = L).
    { unfold shard_len. assert (Hk : nd = S (pred nd)) by lia. apply (wfm_hd (pred nd)). rewrite <- Hk. exact HD. }
    rewrite HL. apply (mmul_wf16 np nd); assumption. }
  assert (HGl : length G = np) by (destruct HG as [HGl _]; exact HGl).
  assert (Hbl : length blocks = np) by (unfold blocks; rewrite map_length; exact HGl).
  assert (Hwb : map le_words blocks = G).
  { unfold blocks. rewrite map_map. rewrite <- (map_id G) at 2. apply map_ext. intros a. apply le_words_le_bytes_any. }
  rewrite repair_shards_eq.
  destruct (erase kp blocks) as [|o l] eqn:EP.
  - rewrite count_nones_eq.
    destruct (Nat.eqb_spec (count_none (erase kd orig)) 0) as [Z|NZ]; [|left; reflexivity].
    apply somes_all; [lia|exact Z].
  - rewrite <- EP. clear o l EP.
    unfold repair_shards2. cbv zeta.
    rewrite (erase_length kd orig) by lia. rewrite (erase_length kp blocks) by lia.
    rewrite Hlo, Hbl.
    destruct (Nat.eqb_spec nd 0) as [Z|_]; [lia|].
    destruct (N.ltb_spec 32768 (N.of_nat nd)) as [Z|_]; [lia|].
    destruct (N.ltb_spec 65535 (N.of_nat np)) as [Z|_]; [lia|].
    fold c. rewrite !map_erase. fold D. rewrite Hwb.
    pose proof (reconstruct_spec c D kd kp L Hnd Hpm HD Hkd Hkp) as RS. fold G in RS.
    destruct (reconstruct c (erase kd D) (erase kp G)) as [rw|e|p]; cbn [obind].
    + subst rw. fold G. rewrite double_check_true. cbn [negb]. rewrite andb_false_r.
      unfold D. rewrite map_map.
      apply (map_id_Forall (fun x => le_bytes (le_words x)) (fun s => wf_bytes s /\ length s = (2 * L)%nat)); [|exact Horig].
      intros s [Hw Hl]. apply le_bytes_le_words; [exact Hw|]. rewrite Hl. apply Nat.even_spec. exists L. reflexivity.
    + exact RS.
    + exact RS.
Qed.

(** * C. the directory-listing pattern: no path separator after the prefix *)
Lemma no_slash_app a b : no_slash (a ++ b) = no_slash a && no_slash b.
Proof. unfold no_slash. rewrite existsb_app, negb_orb. reflexivity. Qed.

Lemma no_slash_cons x l : no_slash (x :: l) = negb (x =? SLASH) && no_slash l.
Proof. unfold no_slash. cbn [existsb]. rewrite negb_orb. reflexivity. Qed.

Lemma no_slash_spec s : no_slash s = true <-> ~ In SLASH s.
Proof.
  unfold no_slash. rewrite negb_true_iff. split.
  - intros H Hin.
    assert (E : existsb (fun c => c =? SLASH) s = true)
      by (apply existsb_exists; exists SLASH; split; [exact Hin|apply N.eqb_refl]).
    rewrite E in H. discriminate H.
  - intros H. destruct (existsb (fun c => c =? SLASH) s) eqn:E; [|reflexivity].
    apply existsb_exists in E. destruct E as (c & Hc & Ec). apply N.eqb_eq in Ec. subst c. contradiction.
Qed.

(* the digits of fmt %02d *)
Fixpoint dec2_digits (fuel : nat) (n : N) (acc : bytes) {struct fuel} : bytes :=
  match fuel with O => acc | S f => if n <? 10 then (48 + n) :: acc else dec2_digits f (n / 10) ((48 + n mod 10) :: acc) end.

Lemma dec2_digits_eq n :
  dec2 n = if Nat.ltb (length (dec2_digits 20 n [])) 2 then 48 :: dec2_digits 20 n [] else dec2_digits 20 n [].
Proof. reflexivity. Qed.

Lemma no_slash_dec2_digits : forall fuel n acc, no_slash acc = true -> no_slash (dec2_digits fuel n acc) = true.
Proof.
  induction fuel as [|f IH]; intros k acc Hacc; [exact Hacc|].
  cbn [dec2_digits]. destruct (k <? 10) eqn:E.
  - rewrite no_slash_cons, Hacc.
    assert (Hne : (48 + k =? SLASH) = false) by (apply N.eqb_neq; unfold SLASH; lia). rewrite Hne. reflexivity.
  - apply IH. rewrite no_slash_cons, Hacc.
    assert (Hne : (48 + k mod 10 =? SLASH) = false)
      by (apply N.eqb_neq; unfold SLASH; generalize (k mod 10); intros m; lia).
    rewrite Hne. reflexivity.
Qed.

Lemma no_slash_dec2 n : no_slash (dec2 n) = true.
Proof.
  rewrite dec2_digits_eq. destruct (Nat.ltb _ 2).
  - rewrite no_slash_cons. rewrite no_slash_dec2_digits by reflexivity. reflexivity.
  - apply no_slash_dec2_digits. reflexivity.
Qed.

(* "vol" II "+" CC ".par2" *)
Lemma no_slash_vol_tail i c :
  no_slash ([118; 111; 108] ++ dec2 (N.of_nat i) ++ [43] ++ dec2 (N.of_nat c) ++ EXT_PAR2) = true.
Proof. rewrite !no_slash_app, !no_slash_dec2. reflexivity. Qed.

Lemma skipn_length_app {A} (a b : list A) : skipn (length a) (a ++ b) = b.
Proof. induction a as [|x a IH]; [reflexivity|exact IH]. Qed.

(* a volume path of Create has no separator after <base>. *)
Lemma no_slash_vol_path basep i c :
  no_slash (skipn (length (basep ++ [DOT]))
                  (basep ++ [46; 118; 111; 108] ++ dec2 (N.of_nat i) ++ [43] ++ dec2 (N.of_nat c) ++ EXT_PAR2)) = true.
Proof.
  replace (basep ++ [46; 118; 111; 108] ++ dec2 (N.of_nat i) ++ [43] ++ dec2 (N.of_nat c) ++ EXT_PAR2)
    with ((basep ++ [DOT]) ++ [118; 111; 108] ++ dec2 (N.of_nat i) ++ [43] ++ dec2 (N.of_nat c) ++ EXT_PAR2)
    by (rewrite <- app_assoc; reflexivity).
  rewrite skipn_length_app. apply no_slash_vol_tail.
Qed.

Print Assumptions io_read_fs.
Print Assumptions io_list_fs.
Print Assumptions load_all_fs.
Print Assumptions verify_pure.
Print Assumptions verify_no_write.
Print Assumptions repair_writes.
Print Assumptions le_words_le_bytes.
Print Assumptions le_bytes_le_words.
Print Assumptions repair_shards_sound.
Print Assumptions no_slash_vol_path.
