(* Facts about the PAR2 writer model (Model/Par2.v, Create side):
   1. packet framing round trip (write_packet / read_next_packet),
   2. pad4,
   3. the doubling volume layout covers every recovery block exactly once, in order,
   4. the recovery set is the sorted permutation of the file ids,
   5. recovery block e is sum_i c_i^e * slice_i with the specification product/power. *)
From Coq Require Import Lia ZifyN ZifyNat Permutation.
From Gopar Require Import Model.Base Model.GF16 Model.Matrix Model.RS16 Model.CRC Model.GoPath Model.FS Model.Par2
     Proofs.GF16Facts Proofs.GF16Tables Proofs.LinAlg Proofs.Matrix16 Proofs.RS16Facts
     Proofs.ParallelFacts Proofs.ParallelLink Proofs.Par2Facts.
Open Scope N_scope.
Set Default Timeout 120.

(** * list helpers *)
Lemma firstn_app_len {A} (a b : list A) n : length a = n -> firstn n (a ++ b) = a.
Proof.
  intros <-. induction a as [|x a IH]; cbn [length app firstn].
  - reflexivity.
  - f_equal. exact IH.
Qed.

Lemma skipn_app_len {A} (a b : list A) n : length a = n -> skipn n (a ++ b) = b.
Proof.
  intros <-. induction a as [|x a IH]; cbn [length app skipn].
  - reflexivity.
  - exact IH.
Qed.

Lemma skipn_add {A} n m : forall l : list A, skipn (n + m) l = skipn m (skipn n l).
Proof.
  induction n as [|n IH]; intros l; cbn [Nat.add skipn].
  - reflexivity.
  - destruct l as [|x l].
    + destruct m; reflexivity.
    + apply IH.
Qed.

(** * little-endian numbers *)
Lemma le_encode_length : forall n v, length (le_encode n v) = n.
Proof.
  induction n as [|n IH]; intros v; cbn [le_encode length].
  - reflexivity.
  - rewrite IH. reflexivity.
Qed.

Lemma le_decode_encode : forall n v, v < 256 ^ N.of_nat n -> le_decode (le_encode n v) = v.
Proof.
  induction n as [|n IH]; intros v Hv.
  - cbn [le_encode le_decode]. change (256 ^ N.of_nat 0) with 1 in Hv. lia.
  - cbn [le_encode le_decode].
    rewrite IH.
    + pose proof (N.div_mod v 256) as E. lia.
    + rewrite Nat2N.inj_succ, N.pow_succ_r' in Hv.
      apply N.div_lt_upper_bound; [discriminate|exact Hv].
Qed.

Lemma le_decode_encode8 v : v < 2 ^ 64 -> le_decode (le_encode 8 v) = v.
Proof. intros Hv. apply le_decode_encode. exact Hv. Qed.

(** * 1. packet framing *)
Section Framing.
  Variable md5 : bytes -> bytes.
  Hypothesis md5_len : forall x, length (md5 x) = 16%nat.

  Lemma read_next_packet_unfold buf : (64 <= length buf)%nat ->
    read_next_packet md5 buf =
      let magic := firstn 8 buf in
      let len := le_decode (firstn 8 (skipn 8 buf)) in
      let hash := firstn 16 (skipn 16 buf) in
      let setid := firstn 16 (skipn 32 buf) in
      let ptype := firstn 16 (skipn 48 buf) in
      let rest := skipn 64 buf in
      if negb (bytes_eqb magic MAGIC) then NPErr
      else if (len <? 64) || negb (len mod 4 =? 0) then NPErr
      else
        let blen := len - 64 in
        if N.of_nat (length rest) <? blen then NPErr
        else
          let body := firstn (N.to_nat blen) rest in
          if negb (bytes_eqb (md5 (setid ++ ptype ++ body)) hash) then NPErr
          else NPPacket setid ptype body (skipn (N.to_nat blen) rest).
  Proof.
    intros Hl. destruct buf as [|b0 buf]; [cbn [length] in Hl; lia|].
    unfold read_next_packet.
    assert (E : Nat.ltb (length (b0 :: buf)) 64 = false) by (apply Nat.ltb_ge; exact Hl).
    rewrite E. reflexivity.
  Qed.

  Lemma frame_fields (m l h s t r : bytes) :
    length m = 8%nat -> length l = 8%nat -> length h = 16%nat -> length s = 16%nat -> length t = 16%nat ->
    let buf := m ++ l ++ h ++ s ++ t ++ r in
    firstn 8 buf = m /\ firstn 8 (skipn 8 buf) = l /\ firstn 16 (skipn 16 buf) = h /\
    firstn 16 (skipn 32 buf) = s /\ firstn 16 (skipn 48 buf) = t /\ skipn 64 buf = r.
  Proof.
    intros Hm Hl Hh Hs Ht buf.
    assert (S8 : skipn 8 buf = l ++ h ++ s ++ t ++ r) by (apply skipn_app_len; exact Hm).
    assert (S16 : skipn 16 buf = h ++ s ++ t ++ r).
    { rewrite (skipn_add 8 8 buf : skipn 16 buf = _), S8. apply skipn_app_len; exact Hl. }
    assert (S32 : skipn 32 buf = s ++ t ++ r).
    { rewrite (skipn_add 16 16 buf : skipn 32 buf = _), S16. apply skipn_app_len; exact Hh. }
    assert (S48 : skipn 48 buf = t ++ r).
    { rewrite (skipn_add 32 16 buf : skipn 48 buf = _), S32. apply skipn_app_len; exact Hs. }
    assert (S64 : skipn 64 buf = r).
    { rewrite (skipn_add 48 16 buf : skipn 64 buf = _), S48. apply skipn_app_len; exact Ht. }
    rewrite S8, S16, S32, S48, S64.
    repeat split; apply firstn_app_len; assumption.
  Qed.

  Lemma write_packet_length setid ptype body :
    length setid = 16%nat -> length ptype = 16%nat ->
    length (write_packet md5 setid ptype body) = (64 + length body)%nat.
  Proof.
    intros Hs Ht. unfold write_packet.
    rewrite !app_length, le_encode_length, md5_len, Hs, Ht. reflexivity.
  Qed.

  (* what the writer frames, the reader unframes, whatever follows.  The size bound is the
     range of the 8-byte length field (le_decode (le_encode 8 v) = v needs v < 2^64). *)
  Theorem packet_round_trip : forall setid ptype body rest,
    length setid = 16%nat -> length ptype = 16%nat -> (length body mod 4 = 0)%nat ->
    64 + N.of_nat (length body) < 2 ^ 64 ->
    read_next_packet md5 (write_packet md5 setid ptype body ++ rest) = NPPacket setid ptype body rest.
  Proof.
    intros setid ptype body rest Hs Ht Hb Hv.
    rewrite read_next_packet_unfold
      by (rewrite app_length, write_packet_length by assumption; lia).
    unfold write_packet.
    set (v := 64 + N.of_nat (length body)) in *.
    set (h := md5 (setid ++ ptype ++ body)).
    assert (Hh : length h = 16%nat) by apply md5_len.
    assert (EB : (MAGIC ++ le_encode 8 v ++ h ++ setid ++ ptype ++ body) ++ rest =
                 MAGIC ++ le_encode 8 v ++ h ++ setid ++ ptype ++ (body ++ rest))
      by (rewrite <- !app_assoc; reflexivity).
    rewrite EB. clear EB.
    destruct (frame_fields MAGIC (le_encode 8 v) h setid ptype (body ++ rest)
                eq_refl (le_encode_length 8 v) Hh Hs Ht) as (F1 & F2 & F3 & F4 & F5 & F6).
    cbv zeta. rewrite F1, F2, F3, F4, F5, F6.
    rewrite bytes_eqb_refl. cbn [negb].
    rewrite (le_decode_encode8 v Hv).
    assert (E1 : (v <? 64) = false) by (apply N.ltb_ge; unfold v; lia).
    assert (E2 : (v mod 4 =? 0) = true).
    { apply N.eqb_eq. unfold v.
      assert (Hq : length body = (4 * (length body / 4))%nat).
      { pose proof (Nat.div_mod (length body) 4). lia. }
      rewrite Hq. rewrite Nat2N.inj_mul. change (N.of_nat 4) with 4.
      replace (64 + 4 * N.of_nat (length body / 4)) with ((16 + N.of_nat (length body / 4)) * 4) by lia.
      apply N.mod_mul. discriminate. }
    rewrite E1, E2. cbn [orb negb].
    assert (E3 : v - 64 = N.of_nat (length body)) by (unfold v; lia).
    rewrite E3.
    assert (E4 : (N.of_nat (length (body ++ rest)) <? N.of_nat (length body)) = false).
    { apply N.ltb_ge. rewrite app_length. lia. }
    rewrite E4. rewrite Nat2N.id.
    rewrite (firstn_app_len body rest (length body) eq_refl).
    rewrite (skipn_app_len body rest (length body) eq_refl).
    fold h. rewrite bytes_eqb_refl. cbn [negb]. reflexivity.
  Qed.
End Framing.

(** * 2. padding *)
Lemma zeros_length n : length (zeros n) = n.
Proof. unfold zeros. apply repeat_length. Qed.

Lemma pad4_length : forall b, (length (pad4 b) mod 4 = 0)%nat.
Proof.
  intros b. unfold pad4.
  destruct (Nat.eqb (length b mod 4) 0) eqn:E.
  - apply Nat.eqb_eq in E. exact E.
  - apply Nat.eqb_neq in E. rewrite app_length, zeros_length.
    pose proof (Nat.div_mod (length b) 4) as D.
    pose proof (Nat.mod_upper_bound (length b) 4) as U.
    set (r := (length b mod 4)%nat) in *. set (q := (length b / 4)%nat) in *.
    replace (length b + (4 - r))%nat with ((q + 1) * 4)%nat by lia.
    apply Nat.mod_mul. discriminate.
Qed.

Lemma pad4_prefix : forall b, firstn (length b) (pad4 b) = b.
Proof.
  intros b. unfold pad4.
  destruct (Nat.eqb (length b mod 4) 0).
  - apply firstn_all.
  - apply firstn_app_len. reflexivity.
Qed.

(** * 3. the doubling volume layout *)
Lemma volume_layout_covers_gen : forall fuel i count total,
  (i <= total)%nat -> (0 < count)%nat -> (total - i < fuel)%nat ->
  concat (map (fun ic : nat * nat => seq (fst ic) (snd ic)) (volume_layout fuel i count total)) = seq i (total - i).
Proof.
  induction fuel as [|f IH]; intros i count total Hi Hc Hf; [lia|].
  cbn [volume_layout].
  destruct (Nat.leb total i) eqn:E.
  - apply Nat.leb_le in E. replace (total - i)%nat with 0%nat by lia. reflexivity.
  - apply Nat.leb_gt in E.
    set (c := if Nat.ltb total (i + count) then (total - i)%nat else count).
    assert (Hcb : (0 < c /\ c <= total - i)%nat).
    { unfold c. destruct (Nat.ltb total (i + count)) eqn:E2.
      - apply Nat.ltb_lt in E2. lia.
      - apply Nat.ltb_ge in E2. lia. }
    cbn [map concat fst snd].
    rewrite IH by lia.
    transitivity (seq i (c + (total - (i + c)))).
    + rewrite seq_app. reflexivity.
    + f_equal. lia.
Qed.

Theorem volume_layout_covers : forall n,
  concat (map (fun ic : nat * nat => seq (fst ic) (snd ic)) (volume_layout (S n) 0 1 n)) = seq 0 n.
Proof.
  intros n. rewrite volume_layout_covers_gen by lia.
  rewrite Nat.sub_0_r. reflexivity.
Qed.

Lemma volume_layout_nonempty_gen : forall fuel i count total ic,
  (0 < count)%nat -> In ic (volume_layout fuel i count total) -> (0 < snd ic)%nat.
Proof.
  induction fuel as [|f IH]; intros i count total ic Hc Hin; [destruct Hin|].
  cbn [volume_layout] in Hin.
  destruct (Nat.leb total i) eqn:E; [destruct Hin|].
  apply Nat.leb_gt in E.
  set (c := if Nat.ltb total (i + count) then (total - i)%nat else count) in *.
  assert (Hcb : (0 < c)%nat).
  { unfold c. destruct (Nat.ltb total (i + count)); lia. }
  destruct Hin as [<-|Hin].
  - exact Hcb.
  - apply (IH (i + c)%nat (c * 2)%nat total ic); [lia|exact Hin].
Qed.

Theorem volume_layout_nonempty : forall n ic, In ic (volume_layout (S n) 0 1 n) -> (0 < snd ic)%nat.
Proof.
  intros n ic Hin. apply (volume_layout_nonempty_gen (S n) 0%nat 1%nat n ic); [lia|exact Hin].
Qed.

(** * 4. the recovery set *)
Lemma str_ltb_asym : forall a b, str_ltb a b = true -> str_ltb b a = false.
Proof.
  induction a as [|x a IH]; intros [|y b] H; cbn [str_ltb] in *; try reflexivity; try discriminate.
  destruct (x <? y) eqn:Exy.
  - apply N.ltb_lt in Exy.
    assert (Eyx : (y <? x) = false) by (apply N.ltb_ge; lia).
    rewrite Eyx. reflexivity.
  - destruct (y <? x) eqn:Eyx; [discriminate|]. apply IH. exact H.
Qed.

Lemma id_ltb_asym a b : id_ltb a b = true -> id_ltb b a = false.
Proof. unfold id_ltb. apply str_ltb_asym. Qed.

Lemma ids_sorted_cons2 a b r : ids_sorted (a :: b :: r) = negb (id_ltb b a) && ids_sorted (b :: r).
Proof. reflexivity. Qed.

Lemma insert_id_sorted : forall l x, ids_sorted l = true -> ids_sorted (insert_id x l) = true.
Proof.
  induction l as [|y r IH]; intros x Hs.
  - reflexivity.
  - cbn [insert_id]. destruct (id_ltb x y) eqn:E.
    + rewrite ids_sorted_cons2, Hs, (id_ltb_asym x y E). reflexivity.
    + destruct r as [|z r'].
      * cbn [insert_id]. rewrite ids_sorted_cons2, E. reflexivity.
      * rewrite ids_sorted_cons2 in Hs. apply andb_true_iff in Hs. destruct Hs as [Hzy Hs].
        pose proof (IH x Hs) as IHx. cbn [insert_id] in *.
        destruct (id_ltb x z) eqn:E2.
        -- rewrite ids_sorted_cons2, E, IHx. reflexivity.
        -- rewrite ids_sorted_cons2, Hzy, IHx. reflexivity.
Qed.

Theorem sort_ids_sorted : forall l, ids_sorted (sort_ids l) = true.
Proof.
  induction l as [|x l IH].
  - reflexivity.
  - unfold sort_ids in *. cbn [fold_right]. apply insert_id_sorted. exact IH.
Qed.

Lemma insert_id_perm : forall l x, Permutation (x :: l) (insert_id x l).
Proof.
  induction l as [|y r IH]; intros x.
  - apply Permutation_refl.
  - cbn [insert_id]. destruct (id_ltb x y).
    + apply Permutation_refl.
    + eapply perm_trans; [apply perm_swap|]. apply perm_skip. apply IH.
Qed.

Theorem sort_ids_perm : forall l, Permutation l (sort_ids l).
Proof.
  induction l as [|x l IH].
  - apply perm_nil.
  - unfold sort_ids in *. cbn [fold_right].
    eapply perm_trans; [apply perm_skip; exact IH|]. apply insert_id_perm.
Qed.

(* the check of the id lists of a main packet: sorted, and no id listed twice *)
Lemma ids_adj_distinct_cons2 a b r :
  ids_adj_distinct (a :: b :: r) = negb (bytes_eqb a b) && ids_adj_distinct (b :: r).
Proof. reflexivity. Qed.

Lemma nodup_ids_adj_distinct : forall l, NoDup l -> ids_adj_distinct l = true.
Proof.
  induction l as [|a r IH]; intros ND; [reflexivity|].
  destruct r as [|b r']; [reflexivity|].
  rewrite ids_adj_distinct_cons2. apply NoDup_cons_iff in ND. destruct ND as [Hn ND].
  rewrite (IH ND). destruct (bytes_eqb a b) eqn:E; [|reflexivity].
  apply bytes_eqb_eq in E. exfalso. apply Hn. left. symmetry. exact E.
Qed.

Theorem sort_ids_ok : forall l, NoDup l -> ids_ok (sort_ids l) = true.
Proof.
  intros l ND. unfold ids_ok. rewrite sort_ids_sorted. cbn [andb].
  apply nodup_ids_adj_distinct. eapply Permutation_NoDup; [apply sort_ids_perm|exact ND].
Qed.

(** * 5. recovery blocks are the specification's sums *)
Lemma generators_first_length d : N.of_nat d <= 32768 -> length (generators_first d) = d.
Proof.
  intros Hd. unfold generators_first. rewrite firstn_length.
  pose proof all_generators_length. lia.
Qed.

Lemma generators_first_lt d : Forall (fun g => g < 65536) (generators_first d).
Proof.
  apply Forall_forall. intros g Hg. unfold generators_first in Hg.
  apply In_firstn_l in Hg. apply all_generators_lt. exact Hg.
Qed.

Lemma vandermonde_pm_entry d p e j :
  N.of_nat d <= 32768 -> N.of_nat p <= 65535 -> (e < p)%nat -> (j < d)%nat ->
  nth j (nth e (vandermonde_pm d p) []) 0 = fpow (nth j (generators_first d) 0) (N.of_nat e).
Proof.
  intros Hd Hp He Hj. unfold vandermonde_pm.
  pose proof (generators_first_length d Hd) as Lg.
  rewrite (nth_map' _ (seq 0 p) e [] 0%nat) by (rewrite seq_length; exact He).
  rewrite seq_nth by exact He. cbn [Nat.add].
  rewrite (nth_map' _ (generators_first d) j 0 0) by (rewrite Lg; exact Hj).
  apply T_Pow_spec.
  - pose proof (generators_first_lt d) as F.
    apply (proj1 (Forall_forall _ _) F). apply nth_In. rewrite Lg. exact Hj.
  - change (2 ^ 32) with 4294967296. lia.
Qed.

Lemma fold_xor_ext (f g : nat -> N) : forall l, (forall j, In j l -> f j = g j) ->
  fold_right (fun j acc => N.lxor (f j) acc) 0 l = fold_right (fun j acc => N.lxor (g j) acc) 0 l.
Proof.
  induction l as [|j l IH]; intros H; [reflexivity|].
  cbn [fold_right]. rewrite IH by (intros; apply H; right; assumption).
  rewrite (H j (or_introl eq_refl)). reflexivity.
Qed.

Theorem parity_is_spec_sum : forall d p D L e w,
  (0 < d)%nat -> N.of_nat d <= 32768 -> N.of_nat p <= 65535 -> wfm16 d L D -> (e < p)%nat -> (w < L)%nat ->
  let c := {| c_data := d; c_parity := p; c_pm := vandermonde_pm d p |} in
  nth w (nth e (gen_parity c D) []) 0 =
  fold_right (fun j acc => N.lxor (fmul (fpow (nth j (generators_first d) 0) (N.of_nat e)) (nth w (nth j D []) 0)) acc)
             0 (seq 0 d).
Proof.
  intros d p D L e w Hd0 Hd Hp HD He Hw c. subst c.
  unfold gen_parity. cbn [c_pm].
  assert (HL : shard_len D = L).
  { unfold shard_len. destruct d as [|d']; [lia|]. apply (wfm_hd d' L D HD). }
  rewrite HL.
  pose proof (vandermonde_pm_wf d p Hd Hp) as Hm.
  unfold apply_matrix.
  rewrite mmul_nth16 by (destruct Hm as [Hml _]; rewrite Hml; exact He).
  pose proof (wfm_nth16 p d (vandermonde_pm d p) e Hm He) as Hr.
  rewrite (nth_lincomb 65536 fmul) with (k := d); try field16; try assumption.
  destruct Hr as [Hrl _]. destruct HD as [HDl HDf].
  rewrite (dot_as_fold _ D w 0%nat) by lia.
  rewrite HDl.
  apply (fold_xor_ext
    (fun j => fmul (nth (j - 0) (nth e (vandermonde_pm d p) []) 0) (nth w (nth (j - 0) D []) 0))
    (fun j => fmul (fpow (nth j (generators_first d) 0) (N.of_nat e)) (nth w (nth j D []) 0))).
  intros j Hj. apply in_seq in Hj. rewrite Nat.sub_0_r.
  rewrite vandermonde_pm_entry by (try assumption; lia). reflexivity.
Qed.

Print Assumptions packet_round_trip.
Print Assumptions pad4_length.
Print Assumptions pad4_prefix.
Print Assumptions volume_layout_covers.
Print Assumptions volume_layout_nonempty.
Print Assumptions sort_ids_sorted.
Print Assumptions sort_ids_perm.
Print Assumptions sort_ids_ok.
Print Assumptions parity_is_spec_sum.
