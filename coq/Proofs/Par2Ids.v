(* The file ids of a main packet are pairwise distinct (Model/Par2.v, ids_ok = checkFileIDSetsSorted:
   sorted by fileIDLess and no id listed twice in a row).
   ID1 ids_ok_nodup: a list that passes the check has no duplicates (id_ltb is a strict total order on
       byte strings of any length, so no length premise is needed);
   ID2 decoder_ids_distinct: the ids of the recovery set of a decoder are pairwise distinct, and so are
       the ids of its non-recovery set (an id may still occur once in each). *)
From Coq Require Import Lia Permutation.
From Gopar Require Import Model.Base Model.CRC Model.GoPath Model.FS Model.Par2
     Proofs.Par2Facts Proofs.Par2Create Proofs.CreatePerm.
Open Scope N_scope.
Set Default Timeout 120.

(** * ID1 *)

Lemma ids_ok_cons2 a b r :
  ids_ok (a :: b :: r) = true -> id_ltb b a = false /\ a <> b /\ ids_ok (b :: r) = true.
Proof.
  unfold ids_ok. rewrite ids_sorted_cons2, ids_adj_distinct_cons2. intros H.
  apply andb_true_iff in H. destruct H as [Hs Hd].
  apply andb_true_iff in Hs. destruct Hs as [Hba Hs].
  apply andb_true_iff in Hd. destruct Hd as [Hab Hd].
  apply negb_true_iff in Hba. apply negb_true_iff in Hab.
  split; [exact Hba|]. split.
  - intros E. subst b. rewrite bytes_eqb_refl in Hab. discriminate Hab.
  - rewrite Hs, Hd. reflexivity.
Qed.

Lemma ids_ok_sorted l : ids_ok l = true -> ids_sorted l = true.
Proof. unfold ids_ok. intros H. apply andb_true_iff in H. exact (proj1 H). Qed.

Theorem ids_ok_nodup : forall l, ids_ok l = true -> NoDup l.
Proof.
  induction l as [|a r IH]; intros H; [constructor|].
  destruct r as [|b r'].
  - constructor; [intros []|constructor].
  - destruct (ids_ok_cons2 a b r' H) as (Hba & Hne & Hok).
    constructor; [|apply IH; exact Hok].
    intros [E|Hin].
    + apply Hne. symmetry. exact E.
    + (* a occurs after b: then a is not less than b, and b is not less than a *)
      pose proof (ids_sorted_ssorted (b :: r') (ids_ok_sorted _ Hok)) as Hss.
      destruct Hss as [Hb _]. specialize (Hb a Hin).
      apply Hne. apply id_ltb_tri; [exact Hb|exact Hba].
Qed.

(* the converse direction for sorted lists, for the record: ids_ok is "sorted and NoDup" *)
Theorem ids_ok_iff l : ids_ok l = true <-> ids_sorted l = true /\ NoDup l.
Proof.
  split.
  - intros H. split; [apply ids_ok_sorted; exact H|apply ids_ok_nodup; exact H].
  - intros [Hs Hn]. unfold ids_ok. rewrite Hs. cbn [andb]. apply nodup_ids_adj_distinct. exact Hn.
Qed.

(** * ID2 *)

Lemma read_main_ids_ok body m : read_main body = Ok m ->
  ids_ok (mp_rec m) = true /\ ids_ok (mp_nonrec m) = true.
Proof.
  unfold read_main. cbv zeta. intros H.
  destruct (Nat.ltb (length body) 12); [discriminate H|].
  match type of H with (if ?c then _ else _) = _ => destruct c end; [discriminate H|].
  match type of H with (if ?c then _ else _) = _ => destruct c end; [discriminate H|].
  match type of H with (if ?c then _ else _) = _ => destruct c end; [discriminate H|].
  match type of H with (if ?c then _ else _) = _ => destruct c end; [discriminate H|].
  match type of H with (if negb ?a || negb ?b then _ else _) = _ => destruct a eqn:Ea; destruct b eqn:Eb end;
    cbn [negb orb] in H; try discriminate H.
  injection H as <-. cbn [mp_rec mp_nonrec]. split; [exact Ea|exact Eb].
Qed.

(* the writer applies the same check: a main packet that is written lists no id twice *)
Lemma write_main_ids_ok m mb : write_main m = Ok mb ->
  ids_ok (mp_rec m) = true /\ ids_ok (mp_nonrec m) = true.
Proof.
  unfold write_main. intros H.
  match type of H with (if ?c then _ else _) = _ => destruct c end; [discriminate H|].
  match type of H with (if ?c then _ else _) = _ => destruct c end; [discriminate H|].
  destruct (ids_ok (mp_rec m)); destruct (ids_ok (mp_nonrec m)); cbn [negb orb] in H; try discriminate H.
  split; reflexivity.
Qed.

Theorem write_main_ids_distinct m mb : write_main m = Ok mb -> NoDup (mp_rec m) /\ NoDup (mp_nonrec m).
Proof.
  intros H. destruct (write_main_ids_ok m mb H) as [H1 H2]. split; apply ids_ok_nodup; assumption.
Qed.

Definition main_ids_ok (f : pfile) : Prop :=
  match pf_main f with
  | Some m => ids_ok (mp_rec m) = true /\ ids_ok (mp_nonrec m) = true
  | None => True
  end.

Section Par2Ids.
  Variable md5 : bytes -> bytes.

  Lemma rf_finish_ok_same setid found f sid f' : rf_finish setid found f = RFOk sid f' -> f' = f.
  Proof.
    unfold rf_finish. intros H.
    destruct (negb found); [discriminate H|].
    destruct (pf_client f) as [cl|]; [|discriminate H].
    destruct setid as [sid0|]; [|discriminate H].
    injection H as _ <-. reflexivity.
  Qed.

  (* the main packet that readFile keeps was accepted by read_main *)
  Lemma read_file_go_main_ids : forall fuel buf setid found f sid f',
    main_ids_ok f -> read_file_go md5 fuel buf setid found f = RFOk sid f' -> main_ids_ok f'.
  Proof.
    induction fuel as [|fuel IH]; intros buf setid found f sid f' Hf H; cbn [read_file_go] in H; [discriminate H|].
    destruct (read_next_packet md5 buf) as [| |psid ptype body rest].
    - apply rf_finish_ok_same in H. rewrite H. exact Hf.
    - destruct (find_magic (tl buf)) as [rest|].
      + eapply IH; [exact Hf|exact H].
      + apply rf_finish_ok_same in H. rewrite H. exact Hf.
    - lazymatch type of H with (if ?c then _ else _) = _ => destruct c end.
      { eapply IH; [exact Hf|exact H]. }
      destruct (bytes_eqb ptype TYPE_CREATOR).
      { eapply IH; [|exact H]. exact Hf. }
      destruct (bytes_eqb ptype TYPE_MAIN).
      { destruct (read_main body) as [m|e|q] eqn:EM; try discriminate H.
        eapply IH; [|exact H]. unfold main_ids_ok. cbn [pf_main]. apply read_main_ids_ok with body. exact EM. }
      destruct (bytes_eqb ptype TYPE_FDESC).
      { destruct (read_fdesc md5 body) as [[id dd]|e|q]; try discriminate H.
        eapply IH; [|exact H]. exact Hf. }
      destruct (bytes_eqb ptype TYPE_IFSC).
      { destruct (read_ifsc body) as [[id ps]|e|q]; try discriminate H.
        eapply IH; [|exact H]. exact Hf. }
      destruct (bytes_eqb ptype TYPE_RECV).
      { destruct (read_recv body) as [[e dd]|e|q]; try discriminate H.
        destruct (assoc_n (pf_recv f) e) as [d'|].
        - destruct (bytes_eqb d' dd); [|discriminate H]. eapply IH; [exact Hf|exact H].
        - eapply IH; [|exact H]. exact Hf. }
      eapply IH; [exact Hf|exact H].
  Qed.

  Theorem read_file_main_ids expected b sid f m : read_file md5 expected b = RFOk sid f -> pf_main f = Some m ->
    ids_ok (mp_rec m) = true /\ ids_ok (mp_nonrec m) = true.
  Proof.
    unfold read_file. intros H EM. apply read_file_go_main_ids in H; [|exact I].
    unfold main_ids_ok in H. rewrite EM in H. exact H.
  Qed.

  (* make_infos keeps the ids, in order *)
  Lemma make_infos_ids S ids f infos : make_infos S ids f = Ok infos -> map di_id infos = ids.
  Proof.
    unfold make_infos. revert infos. induction ids as [|id ids IH]; intros infos H; cbn [omap] in H.
    - injection H as <-. reflexivity.
    - destruct (assoc_b (pf_fdesc f) id) as [d|]; [|discriminate H].
      destruct (assoc_b (pf_ifsc f) id) as [ps|]; [|discriminate H].
      lazymatch type of H with obind (if ?c then _ else _) _ = _ => destruct c end; cbn [obind] in H; [discriminate H|].
      lazymatch type of H with obind ?o _ = _ => destruct o as [ys|e|q] eqn:EO end; cbn [obind] in H; try discriminate H.
      injection H as <-. cbn [map di_id]. rewrite (IH ys eq_refl). reflexivity.
  Qed.

  (* the id lists of a decoder pass the check of the main packet *)
  Theorem decoder_ids_ok ix st d st1 : new_decoder md5 ix st = (Ok d, st1) ->
    ids_ok (map di_id (d_rec d)) = true /\ ids_ok (map di_id (d_nonrec d)) = true.
  Proof.
    intros H. unfold new_decoder in H.
    destruct (io_read ix st) as [[b|e|q] s1]; try discriminate H.
    injection H as H _.
    destruct (read_file md5 None b) as [| |sid f] eqn:ERF; try discriminate H.
    destruct (pf_main f) as [m|] eqn:EM; [|discriminate H].
    destruct (pf_recv f) as [|r0 rr]; [|discriminate H].
    destruct (make_infos (mp_slice m) (mp_rec m) f) as [rs|e|q] eqn:E1; cbn [obind] in H; try discriminate H.
    destruct (make_infos (mp_slice m) (mp_nonrec m) f) as [nrs|e|q] eqn:E2; cbn [obind] in H; try discriminate H.
    injection H as <-. cbn [d_rec d_nonrec].
    rewrite (make_infos_ids _ _ _ _ E1), (make_infos_ids _ _ _ _ E2).
    exact (read_file_main_ids _ _ _ _ _ ERF EM).
  Qed.

  Theorem decoder_ids_distinct ix st d st1 : new_decoder md5 ix st = (Ok d, st1) ->
    NoDup (map di_id (d_rec d)) /\ NoDup (map di_id (d_nonrec d)).
  Proof.
    intros H. destruct (decoder_ids_ok _ _ _ _ H) as [H1 H2].
    split; apply ids_ok_nodup; assumption.
  Qed.
End Par2Ids.

Print Assumptions ids_ok_nodup.
Print Assumptions ids_ok_iff.
Print Assumptions read_main_ids_ok.
Print Assumptions write_main_ids_distinct.
Print Assumptions read_file_main_ids.
Print Assumptions decoder_ids_ok.
Print Assumptions decoder_ids_distinct.
