(* PAR2 Create does not depend on the order in which the input files are listed
   (Model/Par2.v, create_outputs): the recovery set is sorted by file id, and
   every per-file datum is looked up by id. *)
From Coq Require Import Lia Permutation.
From Gopar Require Import Model.Base Model.GF16 Model.Matrix Model.RS16 Model.CRC Model.GoPath Model.FS Model.Par2
     Proofs.GoPathFacts Proofs.Par2Facts Proofs.Par2Create.
Open Scope N_scope.
Set Default Timeout 120.

(** * the order on strings / ids is a strict total order *)

Lemma str_ltb_trans : forall a b c, str_ltb a b = true -> str_ltb b c = true -> str_ltb a c = true.
Proof.
  induction a as [|x a IH]; intros [|y b] [|z c] H1 H2; cbn [str_ltb] in *; try discriminate; try reflexivity.
  destruct (N.ltb_spec x y) as [Lxy|Lxy]; destruct (N.ltb_spec y x) as [Lyx|Lyx]; try discriminate; try lia;
  destruct (N.ltb_spec y z) as [Lyz|Lyz]; destruct (N.ltb_spec z y) as [Lzy|Lzy]; try discriminate; try lia;
  destruct (N.ltb_spec x z) as [Lxz|Lxz]; destruct (N.ltb_spec z x) as [Lzx|Lzx]; try reflexivity; try lia.
  eapply IH; eassumption.
Qed.

Lemma str_ltb_tri : forall a b, str_ltb a b = false -> str_ltb b a = false -> a = b.
Proof.
  induction a as [|x a IH]; intros [|y b] H1 H2; cbn [str_ltb] in *; try discriminate; try reflexivity.
  destruct (N.ltb_spec x y) as [Lxy|Lxy]; destruct (N.ltb_spec y x) as [Lyx|Lyx]; try discriminate; try lia.
  assert (x = y) by lia. subst y. f_equal. apply IH; assumption.
Qed.

Lemma rev_inj {A} (a b : list A) : rev a = rev b -> a = b.
Proof. intros H. rewrite <- (rev_involutive a), <- (rev_involutive b), H. reflexivity. Qed.

Lemma id_ltb_trans a b c : id_ltb a b = true -> id_ltb b c = true -> id_ltb a c = true.
Proof. unfold id_ltb. apply str_ltb_trans. Qed.

Lemma id_ltb_tri a b : id_ltb a b = false -> id_ltb b a = false -> a = b.
Proof. unfold id_ltb. intros H1 H2. apply rev_inj. apply str_ltb_tri; assumption. Qed.

(* "not less" is transitive *)
Lemma id_le_trans a b c : id_ltb b a = false -> id_ltb c b = false -> id_ltb c a = false.
Proof.
  intros Hab Hbc. destruct (id_ltb c a) eqn:Eca; [|reflexivity].
  destruct (id_ltb a b) eqn:Eab.
  - rewrite (id_ltb_trans c a b Eca Eab) in Hbc. discriminate.
  - assert (a = b) by (apply id_ltb_tri; assumption). subst b. rewrite Eca in Hbc. discriminate.
Qed.

(** * sorted lists are unique among their permutations *)

Fixpoint ssorted (l : list bytes) : Prop :=
  match l with
  | [] => True
  | a :: r => (forall b, In b r -> id_ltb b a = false) /\ ssorted r
  end.

Lemma ids_sorted_ssorted : forall l, ids_sorted l = true -> ssorted l.
Proof.
  induction l as [|a r IH]; intros H; [exact I|].
  destruct r as [|b r'].
  - split; [intros b []|exact I].
  - rewrite ids_sorted_cons2 in H. apply andb_true_iff in H. destruct H as [Hba Hs].
    apply negb_true_iff in Hba. specialize (IH Hs). split; [|exact IH].
    destruct IH as [Hb _]. intros c [Hc|Hc].
    + subst c. exact Hba.
    + apply (id_le_trans a b c); [exact Hba|apply Hb; exact Hc].
Qed.

Lemma ssorted_perm_eq : forall l1 l2, ssorted l1 -> ssorted l2 -> Permutation l1 l2 -> l1 = l2.
Proof.
  induction l1 as [|a r1 IH]; intros [|b r2] S1 S2 P.
  - reflexivity.
  - apply Permutation_nil in P. discriminate.
  - apply Permutation_sym in P. apply Permutation_nil in P. discriminate.
  - destruct S1 as [Ha S1]. destruct S2 as [Hb S2].
    assert (Eab : a = b).
    { assert (I1 : In a (b :: r2)) by (eapply Permutation_in; [exact P|left; reflexivity]).
      assert (I2 : In b (a :: r1)) by (eapply Permutation_in; [apply Permutation_sym; exact P|left; reflexivity]).
      destruct I1 as [E|I1]; [symmetry; exact E|].
      destruct I2 as [E|I2]; [exact E|].
      apply id_ltb_tri; [apply Hb; exact I1|apply Ha; exact I2]. }
    subst b. f_equal. apply IH; [exact S1|exact S2|]. eapply Permutation_cons_inv. exact P.
Qed.

Theorem sort_ids_perm_eq : forall l1 l2, Permutation l1 l2 -> sort_ids l1 = sort_ids l2.
Proof.
  intros l1 l2 P. apply ssorted_perm_eq.
  - apply ids_sorted_ssorted. apply sort_ids_sorted.
  - apply ids_sorted_ssorted. apply sort_ids_sorted.
  - eapply Permutation_trans; [apply Permutation_sym; apply sort_ids_perm|].
    eapply Permutation_trans; [exact P|apply sort_ids_perm].
Qed.

(** * lookups by id depend only on the set when ids are distinct *)

Lemma find_info_perm : forall A B, Permutation A B -> NoDup (map fi_id A) ->
  forall id, find_info A id = find_info B id.
Proof.
  induction 1 as [|x l l' P IH|x y l|l l' l'' P1 IH1 P2 IH2]; intros ND id.
  - reflexivity.
  - cbn [find_info]. cbn [map] in ND. apply NoDup_cons_iff in ND. destruct ND as [_ ND].
    rewrite (IH ND id). reflexivity.
  - cbn [find_info].
    destruct (bytes_eqb (fi_id y) id) eqn:Ey; destruct (bytes_eqb (fi_id x) id) eqn:Ex; try reflexivity.
    apply bytes_eqb_eq in Ey. apply bytes_eqb_eq in Ex.
    cbn [map] in ND. apply NoDup_cons_iff in ND. destruct ND as [Hn _].
    exfalso. apply Hn. left. congruence.
  - rewrite (IH1 ND id). apply IH2.
    eapply Permutation_NoDup; [apply Permutation_map; exact P1|exact ND].
Qed.

Lemma assoc_b_map_info {B} (g : finfo -> B) : forall L id,
  assoc_b (map (fun i => (fi_id i, g i)) L) id = option_map g (find_info L id).
Proof.
  induction L as [|i L IH]; intros id; [reflexivity|].
  cbn [map assoc_b find_info]. destruct (bytes_eqb (fi_id i) id); [reflexivity|apply IH].
Qed.

Lemma omap_ext {A B} (f g : A -> outcome B) : forall l, (forall x, In x l -> f x = g x) -> omap f l = omap g l.
Proof.
  induction l as [|x l IH]; intros H; [reflexivity|].
  cbn [omap]. rewrite (H x (or_introl eq_refl)). rewrite IH; [reflexivity|].
  intros y Hy. apply H. right. exact Hy.
Qed.

Lemma flat_map_ext_in {A B} (f g : A -> list B) : forall l, (forall x, In x l -> f x = g x) -> flat_map f l = flat_map g l.
Proof.
  induction l as [|x l IH]; intros H; [reflexivity|].
  cbn [flat_map]. rewrite (H x (or_introl eq_refl)). rewrite IH; [reflexivity|].
  intros y Hy. apply H. right. exact Hy.
Qed.

Lemma combine_fst_snd {A B} : forall l : list (A * B), combine (map fst l) (map snd l) = l.
Proof.
  induction l as [|[a b] l IH]; [reflexivity|]. cbn [map combine fst snd]. rewrite IH. reflexivity.
Qed.

Section CreatePerm.
  Variable md5 : bytes -> bytes.

  Lemma write_file_ext client m fds ifs fds' ifs' recv :
    (forall id, assoc_b fds id = assoc_b fds' id) -> (forall id, assoc_b ifs id = assoc_b ifs' id) ->
    write_file md5 client m fds ifs recv = write_file md5 client m fds' ifs' recv.
  Proof.
    intros Hf Hi. unfold write_file.
    destruct (Nat.eqb (length client) 0); [reflexivity|].
    destruct (write_main m) as [mb|e|p]; cbn [obind]; try reflexivity.
    destruct (encode_ascii client) as [cb|e|p]; cbn [obind]; try reflexivity.
    match goal with |- obind (omap ?f ?L) _ = obind (omap ?g ?L) _ => rewrite (omap_ext f g L) end.
    - reflexivity.
    - intros id _. rewrite Hf, Hi. reflexivity.
  Qed.

  (* the general statement: no assumption on the lengths of the ids is needed,
     because the comparison of ids is a total order on all byte strings *)
  Theorem create_outputs_perm_gen : forall parPath sz np (l1 l2 : list (bytes * bytes)),
    Permutation l1 l2 ->
    NoDup (map (fun nd => fi_id (data_file_info md5 sz (fst nd) (snd nd))) l1) ->
    create_outputs md5 parPath sz np (map fst l1) (map snd l1) = create_outputs md5 parPath sz np (map fst l2) (map snd l2).
  Proof.
    intros parPath sz np l1 l2 P ND.
    unfold create_outputs. rewrite !combine_fst_snd.
    set (F := fun nd : bytes * bytes => data_file_info md5 sz (fst nd) (snd nd)).
    set (infos1 := map F l1). set (infos2 := map F l2).
    assert (PI : Permutation infos1 infos2) by (apply Permutation_map; exact P).
    assert (ND1 : NoDup (map fi_id infos1)).
    { unfold infos1. rewrite map_map. exact ND. }
    assert (PR : Permutation (rev infos1) (rev infos2)).
    { eapply Permutation_trans; [apply Permutation_sym; apply Permutation_rev|].
      eapply Permutation_trans; [exact PI|apply Permutation_rev]. }
    assert (NDR : NoDup (map fi_id (rev infos1))).
    { eapply Permutation_NoDup; [apply Permutation_map; apply Permutation_rev|exact ND1]. }
    assert (Hfind : forall id, find_info (rev infos1) id = find_info (rev infos2) id).
    { intros id. apply find_info_perm; assumption. }
    assert (Hrec : sort_ids (map fi_id infos1) = sort_ids (map fi_id infos2)).
    { apply sort_ids_perm_eq. apply Permutation_map. exact PI. }
    cbv zeta. rewrite Hrec.
    set (recset := sort_ids (map fi_id infos2)).
    assert (Hsh : flat_map (fun id => match find_info (rev infos1) id with Some i => fi_slices i | None => [] end) recset
                = flat_map (fun id => match find_info (rev infos2) id with Some i => fi_slices i | None => [] end) recset).
    { apply flat_map_ext_in. intros id _. rewrite Hfind. reflexivity. }
    rewrite Hsh.
    set (shards := flat_map (fun id => match find_info (rev infos2) id with Some i => fi_slices i | None => [] end) recset).
    assert (Hfds : forall id, assoc_b (map (fun i => (fi_id i, fi_desc i)) (rev infos1)) id
                            = assoc_b (map (fun i => (fi_id i, fi_desc i)) (rev infos2)) id).
    { intros id. rewrite !assoc_b_map_info, Hfind. reflexivity. }
    assert (Hifs : forall id, assoc_b (map (fun i => (fi_id i, fi_pairs i)) (rev infos1)) id
                            = assoc_b (map (fun i => (fi_id i, fi_pairs i)) (rev infos2)) id).
    { intros id. rewrite !assoc_b_map_info, Hfind. reflexivity. }
    destruct (Nat.eqb (length shards) 0); [reflexivity|].
    destruct (32768 <? N.of_nat (length shards)); [reflexivity|].
    destruct (65535 <? N.of_nat np); [reflexivity|].
    rewrite (write_file_ext _ _ _ _ _ _ _ Hfds Hifs).
    match goal with |- obind ?w _ = _ => destruct w as [ix|e|p] end; cbn [obind]; try reflexivity.
    match goal with |- obind (omap ?f ?L) _ = obind (omap ?g ?L) _ => rewrite (omap_ext f g L) end.
    - reflexivity.
    - intros [i c] _. rewrite (write_file_ext _ _ _ _ _ _ _ Hfds Hifs). reflexivity.
  Qed.

  Theorem create_outputs_perm : forall parPath sz np (l1 l2 : list (bytes * bytes)),
    Permutation l1 l2 ->
    NoDup (map (fun nd => fi_id (data_file_info md5 sz (fst nd) (snd nd))) l1) ->
    (forall a b, In a l1 -> In b l1 ->
       length (fi_id (data_file_info md5 sz (fst a) (snd a))) = length (fi_id (data_file_info md5 sz (fst b) (snd b)))) ->
    create_outputs md5 parPath sz np (map fst l1) (map snd l1) = create_outputs md5 parPath sz np (map fst l2) (map snd l2).
  Proof. intros parPath sz np l1 l2 P ND _. apply create_outputs_perm_gen; assumption. Qed.
End CreatePerm.

Print Assumptions sort_ids_perm_eq.
Print Assumptions create_outputs_perm_gen.
Print Assumptions create_outputs_perm.
