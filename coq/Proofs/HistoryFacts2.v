(* C14 / C18 follow-up to the audit:
   (a) the history theorems with a MEANINGFUL witness: the state the archive is matched against is a state of
       the history - the one in which the Repair that wrote the content ran;
   (b) a file that does not exist is the only read failure the loaders treat as damage; any other read error
       of a protected file is the operation's error (PAR2 load_files / load_all, PAR1 load_data / p1_load);
   (c) the call counter counts calls: every ReadFile / list / WriteFile call appends exactly one event to the
       trace and ticks the counter once, so the window of `no_fault_between` is exactly the calls made. *)
From Coq Require Import Lia.
From Gopar Require Import Model.Base Model.CRC Model.GoPath Model.FS Model.GF8 Model.Par2 Model.Par1 Model.History
     Proofs.GoPathFacts Proofs.Par2Facts Proofs.Par2Verify Proofs.Par2Faults Proofs.Par1Facts Proofs.Par1Safety
     Proofs.Par2Clean Proofs.HistoryFacts.
Open Scope N_scope.
Set Default Timeout 120.

(** * (a) histories: the witness is a state of the history *)

Section HistoryStrong.
  Variable md5 : bytes -> bytes.

  (** ** PAR2 *)

  (* the precise form: the content d of q at the end was written by the Repair step `HRepair dbl` that follows
     the prefix h1; it matched the archive as loaded in the state hrun2 h1 fs that Repair ran in; it was q's
     content right after that Repair (and no later step of the history changed it) *)
  Lemma history2_monotone_repair : forall ix h fs q,
    (forall o, In o h -> external_ok q o) ->
    fs_lookup (hrun2 md5 ix h fs) q = fs_lookup fs q \/
    exists d h1 dbl h2, h = h1 ++ HRepair dbl :: h2 /\
      fs_lookup (hrun2 md5 ix h fs) q = Some d /\
      fs_lookup (hrun2 md5 ix (h1 ++ [HRepair dbl]) fs) q = Some d /\
      matches2 md5 ix (hrun2 md5 ix h1 fs) q d.
  Proof.
    intros ix h. induction h as [|o h IH]; intros fs q Hall.
    - left. reflexivity.
    - change (hrun2 md5 ix (o :: h) fs) with (hrun2 md5 ix h (hstep2 md5 ix fs o)).
      assert (Hall' : forall o', In o' h -> external_ok q o') by (intros o' Hin; apply Hall; right; exact Hin).
      destruct (IH (hstep2 md5 ix fs o) q Hall') as [Heq|(d & h1 & dbl & h2 & Hh & Hd & Hd1 & Hm)].
      + rewrite Heq. destruct o as [p e|p| |dbl].
        * left. cbn [hstep2]. apply fs_lookup_set_other. exact (Hall (HSet p e) (or_introl eq_refl)).
        * left. cbn [hstep2]. apply fs_lookup_remove_other. exact (Hall (HDelete p) (or_introl eq_refl)).
        * left. rewrite hstep2_verify_id. reflexivity.
        * destruct (hstep2_repair_monotone md5 ix dbl fs q) as [Hs|[d [Hd Hm]]]; [left; exact Hs|].
          right. exists d, [], dbl, h. split; [reflexivity|]. split; [exact Hd|]. split; [exact Hd|exact Hm].
      + right. exists d, (o :: h1), dbl, h2. split; [rewrite Hh; reflexivity|]. split; [exact Hd|].
        split; [exact Hd1|exact Hm].
  Qed.

  (* the form asked for: the witness fs' is the state reached by a prefix of the history *)
  Theorem history2_monotone_strong : forall ix h fs q,
    (forall o, In o h -> match o with HSet p _ => p <> q | HDelete p => p <> q | _ => True end) ->
    fs_lookup (hrun2 md5 ix h fs) q = fs_lookup fs q \/
    exists d fs', fs_lookup (hrun2 md5 ix h fs) q = Some d /\ matches2 md5 ix fs' q d /\
      exists h1 h2, h = h1 ++ h2 /\ fs' = hrun2 md5 ix h1 fs.
  Proof.
    intros ix h fs q Hall.
    destruct (history2_monotone_repair ix h fs q Hall) as [Heq|(d & h1 & dbl & h2 & Hh & Hd & _ & Hm)].
    - left. exact Heq.
    - right. exists d, (hrun2 md5 ix h1 fs). split; [exact Hd|]. split; [exact Hm|].
      exists h1, (HRepair dbl :: h2). split; [exact Hh|reflexivity].
  Qed.

  (* the old statement is a consequence *)
  Corollary history2_monotone_from_strong : forall ix h fs q,
    (forall o, In o h -> match o with HSet p _ => p <> q | HDelete p => p <> q | _ => True end) ->
    fs_lookup (hrun2 md5 ix h fs) q = fs_lookup fs q \/
    exists d fs', fs_lookup (hrun2 md5 ix h fs) q = Some d /\ matches2 md5 ix fs' q d.
  Proof.
    intros ix h fs q Hall. destruct (history2_monotone_strong ix h fs q Hall) as [Heq|(d & fs' & Hd & Hm & _)].
    - left. exact Heq.
    - right. exists d, fs'. split; assumption.
  Qed.

  (** ** PAR1 *)

  Lemma history1_monotone_repair : forall ix h fs q,
    (forall o, In o h -> external_ok q o) ->
    fs_lookup (hrun1 md5 ix h fs) q = fs_lookup fs q \/
    exists d h1 dbl h2, h = h1 ++ HRepair dbl :: h2 /\
      fs_lookup (hrun1 md5 ix h fs) q = Some d /\
      fs_lookup (hrun1 md5 ix (h1 ++ [HRepair dbl]) fs) q = Some d /\
      matches1 md5 ix (hrun1 md5 ix h1 fs) q d.
  Proof.
    intros ix h. induction h as [|o h IH]; intros fs q Hall.
    - left. reflexivity.
    - change (hrun1 md5 ix (o :: h) fs) with (hrun1 md5 ix h (hstep1 md5 ix fs o)).
      assert (Hall' : forall o', In o' h -> external_ok q o') by (intros o' Hin; apply Hall; right; exact Hin).
      destruct (IH (hstep1 md5 ix fs o) q Hall') as [Heq|(d & h1 & dbl & h2 & Hh & Hd & Hd1 & Hm)].
      + rewrite Heq. destruct o as [p e|p| |dbl].
        * left. cbn [hstep1]. apply fs_lookup_set_other. exact (Hall (HSet p e) (or_introl eq_refl)).
        * left. cbn [hstep1]. apply fs_lookup_remove_other. exact (Hall (HDelete p) (or_introl eq_refl)).
        * left. rewrite hstep1_verify_id. reflexivity.
        * destruct (hstep1_repair_monotone md5 ix dbl fs q) as [Hs|[d [Hd Hm]]]; [left; exact Hs|].
          right. exists d, [], dbl, h. split; [reflexivity|]. split; [exact Hd|]. split; [exact Hd|exact Hm].
      + right. exists d, (o :: h1), dbl, h2. split; [rewrite Hh; reflexivity|]. split; [exact Hd|].
        split; [exact Hd1|exact Hm].
  Qed.

  Theorem history1_monotone_strong : forall ix h fs q,
    (forall o, In o h -> match o with HSet p _ => p <> q | HDelete p => p <> q | _ => True end) ->
    fs_lookup (hrun1 md5 ix h fs) q = fs_lookup fs q \/
    exists d fs', fs_lookup (hrun1 md5 ix h fs) q = Some d /\ matches1 md5 ix fs' q d /\
      exists h1 h2, h = h1 ++ h2 /\ fs' = hrun1 md5 ix h1 fs.
  Proof.
    intros ix h fs q Hall.
    destruct (history1_monotone_repair ix h fs q Hall) as [Heq|(d & h1 & dbl & h2 & Hh & Hd & _ & Hm)].
    - left. exact Heq.
    - right. exists d, (hrun1 md5 ix h1 fs). split; [exact Hd|]. split; [exact Hm|].
      exists h1, (HRepair dbl :: h2). split; [exact Hh|reflexivity].
  Qed.
End HistoryStrong.

(** * (c) the call counter counts calls *)

(* st' is reached from st by calls each of which appended ONE event and ticked the counter ONCE:
   the trace is extended by t and the counter advanced by exactly length t *)
Definition counted (st st' : io) : Prop :=
  exists t, io_trace st' = io_trace st ++ t /\ io_n st' = (io_n st + length t)%nat.

Lemma counted_refl st : counted st st.
Proof. exists []. split; [symmetry; apply app_nil_r|cbn [length]; lia]. Qed.

Lemma counted_trans a b c : counted a b -> counted b c -> counted a c.
Proof.
  intros (t1 & T1 & N1) (t2 & T2 & N2). exists (t1 ++ t2).
  split; [rewrite T2, T1, app_assoc; reflexivity|]. rewrite app_length. lia.
Qed.

Lemma counted_tick st ev fs' : counted st (tick st ev fs').
Proof. exists [ev]. split; [reflexivity|]. cbn [tick io_n length]. lia. Qed.

(* the three primitives: exactly one event, exactly one tick - whatever the result and the fault schedule *)
Lemma io_read_one_call p st :
  exists ok, io_trace (snd (io_read p st)) = io_trace st ++ [EvRead p ok] /\ io_n (snd (io_read p st)) = S (io_n st).
Proof.
  unfold io_read. destruct (sched_lookup (io_sched st) (io_n st)) as [f|]; [exists false; split; reflexivity|].
  destruct (fs_lookup (io_fs st) p) as [d|]; [exists true; split; reflexivity|].
  destruct (is_dir (io_fs st) p); exists false; split; reflexivity.
Qed.

Lemma io_list_one_call a b st :
  exists ok, io_trace (snd (io_list a b st)) = io_trace st ++ [EvList a b ok] /\ io_n (snd (io_list a b st)) = S (io_n st).
Proof.
  unfold io_list. destruct (sched_lookup (io_sched st) (io_n st)) as [f|]; [exists false|exists true]; split; reflexivity.
Qed.

Lemma io_write_one_call p d st :
  exists ok, io_trace (snd (io_write p d st)) = io_trace st ++ [EvWrite p d ok] /\ io_n (snd (io_write p d st)) = S (io_n st).
Proof.
  unfold io_write. destruct (sched_lookup (io_sched st) (io_n st)) as [[|k]|]; [exists false|exists false|exists true];
    split; reflexivity.
Qed.

Lemma io_read_counted p st : counted st (snd (io_read p st)).
Proof. destruct (io_read_one_call p st) as (ok & T & C). exists [EvRead p ok]. split; [exact T|]. rewrite C. cbn [length]. lia. Qed.
Lemma io_list_counted a b st : counted st (snd (io_list a b st)).
Proof. destruct (io_list_one_call a b st) as (ok & T & C). exists [EvList a b ok]. split; [exact T|]. rewrite C. cbn [length]. lia. Qed.
Lemma io_write_counted p d st : counted st (snd (io_write p d st)).
Proof. destruct (io_write_one_call p d st) as (ok & T & C). exists [EvWrite p d ok]. split; [exact T|]. rewrite C. cbn [length]. lia. Qed.

(* the statement in the audit's words *)
Lemma counted_spec st st' : counted st st' ->
  io_n st' = (io_n st + (length (io_trace st') - length (io_trace st)))%nat /\
  (exists t, io_trace st' = io_trace st ++ t) /\
  (length (io_trace st) <= length (io_trace st'))%nat.
Proof.
  intros (t & T & C). rewrite T, app_length. split; [lia|]. split; [exists t; reflexivity|lia].
Qed.

(* from an initial state the counter IS the number of calls made *)
Lemma counted_init fs sched st' : counted (io_init fs sched) st' -> io_n st' = length (io_trace st').
Proof. intros (t & T & C). cbn [io_init io_trace io_n app] in T, C. rewrite T. lia. Qed.

Ltac cnt_if :=
  repeat lazymatch goal with
         | |- counted _ (snd (if ?c then _ else _)) => destruct c; [cbn [snd]; first [assumption|apply counted_refl]|]
         end.

Section Counter.
  Variable md5 : bytes -> bytes.

  (** ** PAR2 *)
  Lemma new_decoder_counted ix st : counted st (snd (new_decoder md5 ix st)).
  Proof.
    unfold new_decoder. pose proof (io_read_counted ix st) as P.
    destruct (io_read ix st) as [[b|e|q] st1]; cbn [snd] in *; exact P.
  Qed.

  Lemma load_files_counted d w t : forall todo fis st, counted st (snd (load_files md5 d w t todo fis st)).
  Proof.
    induction todo as [|[i info] r IH]; intros fis st; cbn [load_files].
    - apply counted_refl.
    - pose proof (io_read_counted (file_path (d_index d) (di_name info)) st) as P.
      destruct (io_read (file_path (d_index d) (di_name info)) st) as [[data|e|q] st1]; cbn [snd] in P.
      + eapply counted_trans; [exact P|apply IH].
      + destruct e; try (cbn [snd]; exact P). eapply counted_trans; [exact P|apply IH].
      + cbn [snd]. exact P.
  Qed.

  Lemma load_parity_counted d : forall paths acc st, counted st (snd (load_parity md5 d paths acc st)).
  Proof.
    induction paths as [|p r IH]; intros acc st; cbn [load_parity].
    - apply counted_refl.
    - pose proof (io_read_counted p st) as P.
      destruct (io_read p st) as [[b|e|q] st1]; cbn [snd] in P.
      + destruct (read_file_vol md5 (d_setid d) b) as [| |sid f].
        * cbn [snd]. exact P.
        * eapply counted_trans; [exact P|apply IH].
        * cnt_if. eapply counted_trans; [exact P|apply IH].
      + cbn [snd]. exact P.
      + cbn [snd]. exact P.
  Qed.

  Lemma load_all_counted ix st : counted st (snd (load_all md5 ix st)).
  Proof.
    unfold load_all. cnt_if.
    pose proof (new_decoder_counted ix st) as P1.
    destruct (new_decoder md5 ix st) as [[d|e|q] st1]; cbn [snd] in P1; try (cbn [snd]; exact P1).
    destruct (win_new (Z.of_N (d_slice d))) as [w|e|q]; try (cbn [snd]; exact P1).
    match goal with |- context [load_files md5 d w ?t ?todo ?fis st1] =>
      pose proof (load_files_counted d w t todo fis st1) as P2;
      destruct (load_files md5 d w t todo fis st1) as [[fis'|e|q] st2] end;
      cbn [snd] in P2; try (cbn [snd]; eapply counted_trans; [exact P1|exact P2]).
    pose proof (counted_trans _ _ _ P1 P2) as P12.
    match goal with |- context [io_list ?a ?b st2] =>
      pose proof (io_list_counted a b st2) as P3;
      destruct (io_list a b st2) as [[paths|e|q] st3] end;
      cbn [snd] in P3; try (cbn [snd]; eapply counted_trans; [exact P12|exact P3]).
    pose proof (counted_trans _ _ _ P12 P3) as P123.
    pose proof (load_parity_counted d paths [] st3) as P4.
    destruct (load_parity md5 d paths [] st3) as [[acc|e|q] st4]; cbn [snd] in *;
      eapply counted_trans; [exact P123|exact P4|exact P123|exact P4|exact P123|exact P4].
  Qed.

  Lemma par2_verify_counted ix st : counted st (snd (par2_verify md5 ix st)).
  Proof.
    unfold par2_verify. pose proof (load_all_counted ix st) as P.
    destruct (load_all md5 ix st) as [[ds|e|q] st1]; cbn [snd] in *; exact P.
  Qed.

  Lemma write_repaired_counted ix : forall todo done st, counted st (snd (write_repaired md5 ix todo done st)).
  Proof.
    induction todo as [|[b [info shards]] todo IH]; intros done st; cbn [write_repaired].
    - apply counted_refl.
    - destruct b; [apply IH|]. cnt_if.
      lazymatch goal with |- context [io_write ?p ?d st] =>
        pose proof (io_write_counted p d st) as P; destruct (io_write p d st) as [[u|e|q] st1] end; cbn [snd] in P.
      + eapply counted_trans; [exact P|apply IH].
      + cbn [snd]. exact P.
      + cbn [snd]. exact P.
  Qed.

  Lemma par2_repair_counted ix dbl st : counted st (snd (par2_repair md5 ix dbl st)).
  Proof.
    unfold par2_repair. pose proof (load_all_counted ix st) as P.
    destruct (load_all md5 ix st) as [[ds|e|q] st1]; cbn [snd] in P; try (cbn [snd]; exact P).
    destruct (ds_fis ds) as [|fi0 fis0]; [cbn [snd]; exact P|].
    destruct (repair_core ds dbl) as [data|e|q]; try (cbn [snd]; exact P).
    eapply counted_trans; [exact P|apply write_repaired_counted].
  Qed.

  Lemma io_reads_counted : forall paths st, counted st (snd (Par2.io_reads paths st)).
  Proof.
    induction paths as [|p r IH]; intros st; cbn [Par2.io_reads].
    - apply counted_refl.
    - pose proof (io_read_counted p st) as P.
      destruct (io_read p st) as [[d|e|q] st1]; cbn [snd] in P; try (cbn [snd]; exact P).
      pose proof (IH st1) as P2.
      destruct (Par2.io_reads r st1) as [[ds|e|q] st2]; cbn [snd] in *; eapply counted_trans; eassumption.
  Qed.

  Lemma io_writes_counted : forall ws st, counted st (snd (Par2.io_writes ws st)).
  Proof.
    induction ws as [|[p d] r IH]; intros st; cbn [Par2.io_writes].
    - apply counted_refl.
    - pose proof (io_write_counted p d st) as P.
      destruct (io_write p d st) as [[u|e|q] st1]; cbn [snd] in P; try (cbn [snd]; exact P).
      eapply counted_trans; [exact P|apply IH].
  Qed.

  Lemma par2_create_counted cwd par files p st : counted st (snd (par2_create md5 cwd par files p st)).
  Proof.
    unfold par2_create.
    destruct (negb (str_eqb (ext par) EXT_PAR2)); [cbn [snd]; apply counted_refl|].
    destruct files as [|f0 files0]; [cbn [snd]; apply counted_refl|].
    cbv zeta. cnt_if.
    lazymatch goal with |- context [Par2.io_reads ?ps st] =>
      pose proof (io_reads_counted ps st) as P; destruct (Par2.io_reads ps st) as [[datas|e|q] st1] end;
      cbn [snd] in P; try (cbn [snd]; exact P).
    lazymatch goal with |- context [create_outputs ?a ?b ?c ?d ?e ?f] =>
      destruct (create_outputs a b c d e f) as [outs|e0|q] end; try (cbn [snd]; exact P).
    eapply counted_trans; [exact P|apply io_writes_counted].
  Qed.

  (** ** PAR1 *)
  Lemma load_data_counted ix : forall es st, counted st (snd (load_data md5 ix es st)).
  Proof.
    induction es as [|e r IH]; intros st; cbn [load_data].
    - apply counted_refl.
    - destruct (entry_path ix e) as [p|x|q]; try (cbn [snd]; apply counted_refl).
      pose proof (io_read_counted p st) as P.
      destruct (io_read p st) as [[data|x|q] st1]; cbn [snd] in P.
      + pose proof (IH st1) as P2.
        destruct (load_data md5 ix r st1) as [[ds|x|q] st2]; cbn [snd] in *; eapply counted_trans; eassumption.
      + destruct x; try (cbn [snd]; exact P).
        pose proof (IH st1) as P2.
        destruct (load_data md5 ix r st1) as [[ds|x|q] st2]; cbn [snd] in *; eapply counted_trans; eassumption.
      + cbn [snd]. exact P.
  Qed.

  Lemma load_vols_counted ix sh : forall n i size acc st, counted st (snd (load_vols md5 ix sh i n size acc st)).
  Proof.
    induction n as [|n IH]; intros i size acc st; cbn [load_vols].
    - apply counted_refl.
    - pose proof (io_read_counted (volume_path ix (N.of_nat (S i))) st) as P.
      destruct (io_read (volume_path ix (N.of_nat (S i))) st) as [[b|x|q] st1]; cbn [snd] in P.
      + destruct (read_volume md5 b) as [v|x|q]; [| |cbn [snd]; exact P].
        * repeat lazymatch goal with
                 | |- counted _ (snd (if ?c then _ else _)) =>
                     destruct c; [first [cbn [snd]; exact P | eapply counted_trans; [exact P|apply IH]]|]
                 end.
          eapply counted_trans; [exact P|apply IH].
        * eapply counted_trans; [exact P|apply IH].
      + destruct x; try (cbn [snd]; exact P). eapply counted_trans; [exact P|apply IH].
      + cbn [snd]. exact P.
  Qed.

  Lemma p1_load_counted ix st : counted st (snd (p1_load md5 ix st)).
  Proof.
    unfold p1_load. cnt_if.
    pose proof (io_read_counted ix st) as P1.
    destruct (io_read ix st) as [[b|x|q] st1]; cbn [snd] in P1; try (cbn [snd]; exact P1).
    destruct (read_volume md5 b) as [v|x|q]; try (cbn [snd]; exact P1).
    cnt_if.
    pose proof (load_data_counted ix (filter saved (v_entries v)) st1) as P2.
    destruct (load_data md5 ix (filter saved (v_entries v)) st1) as [[ds|x|q] st2]; cbn [snd] in P2;
      try (cbn [snd]; eapply counted_trans; [exact P1|exact P2]).
    pose proof (counted_trans _ _ _ P1 P2) as P12.
    destruct ds as [|d0 ds]; [cbn [snd]; exact P12|].
    cnt_if.
    match goal with |- context [load_vols md5 ix ?a ?i ?n ?s ?acc st2] =>
      pose proof (load_vols_counted ix a n i s acc st2) as P3;
      destruct (load_vols md5 ix a i n s acc st2) as [[[slots size]|x|q] st3] end;
      cbn [snd] in *; eapply counted_trans; eassumption.
  Qed.

  Lemma par1_verify_counted ix all st : counted st (snd (par1_verify md5 ix all st)).
  Proof.
    unfold par1_verify. pose proof (p1_load_counted ix st) as P.
    destruct (p1_load md5 ix st) as [[s|x|q] st1]; cbn [snd] in P; try (cbn [snd]; exact P).
    repeat lazymatch goal with
           | |- counted _ (snd (if ?c then _ else _)) => destruct c
           | |- counted _ (snd (match ?c with Ok _ => _ | Err _ => _ | Panic _ => _ end)) => destruct c
           end; cbn [snd]; exact P.
  Qed.

  Lemma p1_write_repaired_counted ix : forall todo done st, counted st (snd (p1_write_repaired md5 ix todo done st)).
  Proof.
    induction todo as [|[e [[dd|] shard]] todo IH]; intros done st; cbn [p1_write_repaired].
    - apply counted_refl.
    - apply IH.
    - cnt_if.
      destruct (entry_path ix e) as [p|x|q]; try (cbn [snd]; apply counted_refl).
      lazymatch goal with |- context [io_write ?p ?d st] =>
        pose proof (io_write_counted p d st) as P; destruct (io_write p d st) as [[u|x|q] st1] end; cbn [snd] in P.
      + eapply counted_trans; [exact P|apply IH].
      + cbn [snd]. exact P.
      + cbn [snd]. exact P.
  Qed.

  Lemma par1_repair_counted ix dbl st : counted st (snd (par1_repair md5 ix dbl st)).
  Proof.
    unfold par1_repair. pose proof (p1_load_counted ix st) as P.
    destruct (p1_load md5 ix st) as [[s|x|q] st1]; cbn [snd] in P; try (cbn [snd]; exact P).
    cbv zeta.
    repeat lazymatch goal with
           | |- counted _ (snd (if ?c then _ else _)) => destruct c; try (cbn [snd]; exact P)
           end.
    destruct (build_shards s) as [sh|x|q]; try (cbn [snd]; exact P).
    lazymatch goal with |- context [par1_reconstruct ?a ?b ?c] => destruct (par1_reconstruct a b c) as [full|x|q] end;
      try (cbn [snd]; exact P).
    lazymatch goal with |- counted _ (snd (match ?c with Ok _ => _ | Err _ => _ | Panic _ => _ end)) =>
      destruct c as [[|]|x|q] end; try (cbn [snd]; exact P).
    eapply counted_trans; [exact P|apply p1_write_repaired_counted].
  Qed.

  Lemma p1_io_reads_counted : forall paths st, counted st (snd (Par1.io_reads paths st)).
  Proof.
    induction paths as [|p r IH]; intros st; cbn [Par1.io_reads].
    - apply counted_refl.
    - pose proof (io_read_counted p st) as P.
      destruct (io_read p st) as [[d|e|q] st1]; cbn [snd] in P; try (cbn [snd]; exact P).
      pose proof (IH st1) as P2.
      destruct (Par1.io_reads r st1) as [[ds|e|q] st2]; cbn [snd] in *; eapply counted_trans; eassumption.
  Qed.

  Lemma p1_io_writes_counted : forall ws st, counted st (snd (Par1.io_writes ws st)).
  Proof.
    induction ws as [|[p d] r IH]; intros st; cbn [Par1.io_writes].
    - apply counted_refl.
    - pose proof (io_write_counted p d st) as P.
      destruct (io_write p d st) as [[u|e|q] st1]; cbn [snd] in P; try (cbn [snd]; exact P).
      eapply counted_trans; [exact P|apply IH].
  Qed.

  Lemma par1_create_counted par files nvol st : counted st (snd (par1_create md5 par files nvol st)).
  Proof.
    unfold par1_create.
    destruct (negb (str_eqb (ext par) EXT_PAR)); [cbn [snd]; apply counted_refl|].
    destruct files as [|f0 files0]; [cbn [snd]; apply counted_refl|].
    cbv zeta. cnt_if.
    lazymatch goal with |- context [Par1.io_reads ?ps st] =>
      pose proof (p1_io_reads_counted ps st) as P; destruct (Par1.io_reads ps st) as [[datas|e|q] st1] end;
      cbn [snd] in P; try (cbn [snd]; exact P).
    lazymatch goal with |- context [par1_outputs ?a ?b ?c ?d ?e] =>
      destruct (par1_outputs a b c d e) as [outs|e0|q] end; try (cbn [snd]; exact P).
    lazymatch goal with |- counted _ (snd (if ?c then _ else _)) => destruct c; [cbn [snd]; exact P|] end.
    eapply counted_trans; [exact P|apply p1_io_writes_counted].
  Qed.

  (* THE THEOREM: for every operation, whatever the file system, the fault schedule and the result, the counter
     advanced by exactly the number of events appended to the trace, and the old trace is a prefix of the new *)
  Definition counts_calls (st st' : io) : Prop :=
    io_n st' = (io_n st + (length (io_trace st') - length (io_trace st)))%nat /\
    (exists t, io_trace st' = io_trace st ++ t) /\
    (length (io_trace st) <= length (io_trace st'))%nat.

  Theorem io_counter_counts_calls :
    (forall ix st, counts_calls st (snd (par2_verify md5 ix st))) /\
    (forall ix dbl st, counts_calls st (snd (par2_repair md5 ix dbl st))) /\
    (forall cwd par files p st, counts_calls st (snd (par2_create md5 cwd par files p st))) /\
    (forall ix all st, counts_calls st (snd (par1_verify md5 ix all st))) /\
    (forall ix dbl st, counts_calls st (snd (par1_repair md5 ix dbl st))) /\
    (forall par files nvol st, counts_calls st (snd (par1_create md5 par files nvol st))).
  Proof.
    repeat split; intros; apply counted_spec;
      first [apply par2_verify_counted|apply par2_repair_counted|apply par2_create_counted
            |apply par1_verify_counted|apply par1_repair_counted|apply par1_create_counted].
  Qed.
End Counter.

(** * (b) a file that does not exist is the only read failure treated as damage *)

(* what ReadFile can fail with, and when: "does not exist" is a RESULT (no fault at this call, no file at the
   path, the path is not a directory); every other failure is EIO - a scheduled fault, or a directory *)
Lemma io_read_err_cases p st e st1 : io_read p st = (Err e, st1) ->
  st1 = tick st (EvRead p false) (io_fs st) /\
  ((e = ENotExist /\ sched_lookup (io_sched st) (io_n st) = None /\
    fs_lookup (io_fs st) p = None /\ is_dir (io_fs st) p = false) \/
   (e = EIO /\ ((exists f, sched_lookup (io_sched st) (io_n st) = Some f) \/
                (sched_lookup (io_sched st) (io_n st) = None /\
                 fs_lookup (io_fs st) p = None /\ is_dir (io_fs st) p = true)))).
Proof.
  unfold io_read. intros H.
  destruct (sched_lookup (io_sched st) (io_n st)) as [f|] eqn:ES.
  - injection H as <- <-. split; [reflexivity|]. right. split; [reflexivity|]. left. exists f. reflexivity.
  - destruct (fs_lookup (io_fs st) p) as [x|] eqn:EL; [discriminate H|].
    destruct (is_dir (io_fs st) p) eqn:ED; injection H as <- <-; (split; [reflexivity|]).
    + right. split; [reflexivity|]. right. repeat split; reflexivity.
    + left. repeat split; reflexivity.
Qed.

Lemma io_read_missing p st :
  sched_lookup (io_sched st) (io_n st) = None -> fs_lookup (io_fs st) p = None -> is_dir (io_fs st) p = false ->
  io_read p st = (Err ENotExist, tick st (EvRead p false) (io_fs st)).
Proof. intros H1 H2 H3. unfold io_read. rewrite H1, H2, H3. reflexivity. Qed.

Lemma io_read_fault p st f : sched_lookup (io_sched st) (io_n st) = Some f ->
  io_read p st = (Err EIO, tick st (EvRead p false) (io_fs st)).
Proof. intros H1. unfold io_read. rewrite H1. reflexivity. Qed.

Lemma io_read_directory p st :
  sched_lookup (io_sched st) (io_n st) = None -> fs_lookup (io_fs st) p = None -> is_dir (io_fs st) p = true ->
  io_read p st = (Err EIO, tick st (EvRead p false) (io_fs st)).
Proof. intros H1 H2 H3. unfold io_read. rewrite H1, H2, H3. reflexivity. Qed.

(* a successful read returns the content at the path, whatever the schedule *)
Lemma io_read_ok_any p st data st1 : io_read p st = (Ok data, st1) -> fs_lookup (io_fs st) p = Some data.
Proof.
  unfold io_read. intros H. destruct (sched_lookup (io_sched st) (io_n st)); [discriminate H|].
  destruct (fs_lookup (io_fs st) p) as [x|]; [injection H as -> _; reflexivity|].
  destruct (is_dir (io_fs st) p); discriminate H.
Qed.

Section MissingPar2.
  Variable md5 : bytes -> bytes.

  (** ** one step of LoadFileData *)

  (* the read of a protected file says "does not exist": the loader goes on with the remaining files, this one
     marked missing (and neither hash-bad nor length-bad) - it does not fail because of it *)
  Theorem missing_file_is_damage : forall d w t i info r fis st st1,
    io_read (file_path (d_index d) (di_name info)) st = (Err ENotExist, st1) ->
    load_files md5 d w t ((i, info) :: r) fis st
      = load_files md5 d w t r (set_flags i true false false fis) st1 /\
    ((i < length fis)%nat -> flags3 (nth i (set_flags i true false false fis) dfi) = (true, false, false)).
  Proof.
    intros d w t i info r fis st st1 ER. split.
    - cbn [load_files]. rewrite ER. reflexivity.
    - intros Hi. unfold set_flags. rewrite nth_upd_nth_same by exact Hi. reflexivity.
  Qed.

  (* the read fails with anything else (EIO: an injected fault, or the path is a directory): the loader stops
     and returns THAT error, in the state right after the failed call *)
  Theorem other_read_error_is_error : forall d w t i info r fis st e st1,
    io_read (file_path (d_index d) (di_name info)) st = (Err e, st1) -> e <> ENotExist ->
    load_files md5 d w t ((i, info) :: r) fis st = (Err e, st1).
  Proof.
    intros d w t i info r fis st e st1 ER Hne. cbn [load_files]. rewrite ER.
    destruct e; try reflexivity. exfalso. apply Hne. reflexivity.
  Qed.

  (** ** the whole of LoadFileData *)

  Lemma load_files_app d w t : forall pre post fis st,
    load_files md5 d w t (pre ++ post) fis st =
    match load_files md5 d w t pre fis st with
    | (Ok fis1, st1) => load_files md5 d w t post fis1 st1
    | (Err e, st1) => (Err e, st1)
    | (Panic q, st1) => (Panic q, st1)
    end.
  Proof.
    induction pre as [|[i info] pre IH]; intros post fis st; [reflexivity|].
    cbn [app load_files].
    destruct (io_read (file_path (d_index d) (di_name info)) st) as [[data|e|q] st1].
    - apply IH.
    - destruct e; try reflexivity. apply IH.
    - reflexivity.
  Qed.

  (* LoadFileData fails ONLY at a read error other than "does not exist": if it returns Err e then some protected
     file's read returned Err e with e <> ENotExist, the files before it were loaded (the missing ones among them
     marked missing), and the state returned is the one right after that failed call *)
  Theorem load_files_first_failure d w t : forall todo fis st e st',
    load_files md5 d w t todo fis st = (Err e, st') ->
    exists pre i info post fis0 st0,
      todo = pre ++ (i, info) :: post /\
      load_files md5 d w t pre fis st = (Ok fis0, st0) /\
      io_read (file_path (d_index d) (di_name info)) st0 = (Err e, st') /\ e <> ENotExist.
  Proof.
    induction todo as [|[i info] r IH]; intros fis st e st' H; [discriminate H|].
    cbn [load_files] in H.
    destruct (io_read (file_path (d_index d) (di_name info)) st) as [[data|e0|q] st1] eqn:ER.
    - destruct (IH _ _ _ _ H) as (pre & i' & info' & post & fis0 & st0 & Ht & Hp & Hr & Hne).
      exists ((i, info) :: pre), i', info', post, fis0, st0. split; [rewrite Ht; reflexivity|].
      split; [cbn [load_files]; rewrite ER; exact Hp|]. split; [exact Hr|exact Hne].
    - destruct e0;
        try (injection H as <- <-; exists [], i, info, r, fis, st;
             split; [reflexivity|split; [reflexivity|split; [exact ER|discriminate]]]).
      destruct (IH _ _ _ _ H) as (pre & i' & info' & post & fis0 & st0 & Ht & Hp & Hr & Hne).
      exists ((i, info) :: pre), i', info', post, fis0, st0. split; [rewrite Ht; reflexivity|].
      split; [cbn [load_files]; rewrite ER; exact Hp|]. split; [exact Hr|exact Hne].
    - discriminate H.
  Qed.

  Corollary load_files_never_fails_notexist d w t todo fis st st' :
    load_files md5 d w t todo fis st <> (Err ENotExist, st').
  Proof.
    intros H. destruct (load_files_first_failure d w t _ _ _ _ _ H) as (? & ? & ? & ? & ? & ? & _ & _ & _ & Hne).
    apply Hne. reflexivity.
  Qed.

  (* flags of an index the remaining work list does not name are kept (any schedule) *)
  Lemma load_files_flags_other d w t : forall todo fis st fis' st',
    load_files md5 d w t todo fis st = (Ok fis', st') ->
    length fis' = length fis /\
    forall j, ~ In j (map fst todo) -> flags3 (nth j fis' dfi) = flags3 (nth j fis dfi).
  Proof.
    induction todo as [|[i info] r IH]; intros fis st fis' st' H; cbn [load_files] in H.
    - injection H as <- _. split; [reflexivity|]. intros j _. reflexivity.
    - destruct (io_read (file_path (d_index d) (di_name info)) st) as [[data|e|q] st1] eqn:ER.
      + set (fisc := fold_left (fun fis h => credit i h fis)
                               (fst (scan md5 (N.to_nat (d_slice d)) w t data)) fis) in *.
        assert (Hc3 : map flags3 fisc = map flags3 fis) by (apply credits_map; exact flags3_credit_inv).
        assert (Hcl : length fisc = length fis) by (apply (map_length_eq flags3); exact Hc3).
        apply IH in H. destruct H as [HL A]. split.
        * rewrite HL. unfold set_flags. rewrite upd_nth_length. exact Hcl.
        * intros j Hj. cbn [map fst In] in Hj.
          assert (Hji : j <> i) by (intros ->; apply Hj; left; reflexivity).
          assert (Hjr : ~ In j (map fst r)) by (intros Hin; apply Hj; right; exact Hin).
          rewrite A by exact Hjr. unfold set_flags. rewrite nth_upd_nth_other by exact Hji.
          rewrite <- !(map_nth flags3). rewrite Hc3. reflexivity.
      + destruct e; try discriminate H.
        apply IH in H. destruct H as [HL A]. split.
        * rewrite HL. unfold set_flags. apply upd_nth_length.
        * intros j Hj. cbn [map fst In] in Hj.
          assert (Hji : j <> i) by (intros ->; apply Hj; left; reflexivity).
          assert (Hjr : ~ In j (map fst r)) by (intros Hin; apply Hj; right; exact Hin).
          rewrite A by exact Hjr. unfold set_flags. rewrite nth_upd_nth_other by exact Hji. reflexivity.
      + discriminate H.
  Qed.

  (* when LoadFileData succeeds - under ANY fault schedule - every protected path that holds no file has its
     entry marked missing in the result *)
  Theorem load_files_missing_marked d w t : forall todo fis st fis' st',
    NoDup (map fst todo) ->
    (forall i info, In (i, info) todo -> (i < length fis)%nat) ->
    load_files md5 d w t todo fis st = (Ok fis', st') ->
    forall i info, In (i, info) todo ->
      fs_lookup (io_fs st) (file_path (d_index d) (di_name info)) = None ->
      flags3 (nth i fis' dfi) = (true, false, false).
  Proof.
    induction todo as [|[i0 info0] r IH]; intros fis st fis' st' Hnd Hlt H i info Hin Hnone; [destruct Hin|].
    cbn [map fst] in Hnd. apply NoDup_cons_iff in Hnd. destruct Hnd as [Hni Hnd'].
    cbn [load_files] in H.
    pose proof (io_read_fs (file_path (d_index d) (di_name info0)) st) as Pf.
    destruct (io_read (file_path (d_index d) (di_name info0)) st) as [[data|e|q] st1] eqn:ER; cbn [snd] in Pf.
    - set (fisc := fold_left (fun fis h => credit i0 h fis)
                             (fst (scan md5 (N.to_nat (d_slice d)) w t data)) fis) in *.
      assert (Hcl : length fisc = length fis).
      { apply (map_length_eq flags3). apply credits_map. exact flags3_credit_inv. }
      destruct Hin as [Heq|Hin].
      + injection Heq as -> ->. apply io_read_ok_any in ER. rewrite ER in Hnone. discriminate Hnone.
      + eapply IH; [exact Hnd'| |exact H|exact Hin|rewrite Pf; exact Hnone].
        intros i' info' Hin'. unfold set_flags. rewrite upd_nth_length, Hcl. apply (Hlt i' info'). right. exact Hin'.
    - destruct e; try discriminate H.
      destruct Hin as [Heq|Hin].
      + injection Heq as -> ->.
        destruct (load_files_flags_other d w t _ _ _ _ _ H) as [_ A]. rewrite (A i Hni).
        unfold set_flags. rewrite nth_upd_nth_same by (apply (Hlt i info); left; reflexivity). reflexivity.
      + eapply IH; [exact Hnd'| |exact H|exact Hin|rewrite Pf; exact Hnone].
        intros i' info' Hin'. unfold set_flags. rewrite upd_nth_length. apply (Hlt i' info'). right. exact Hin'.
    - discriminate H.
  Qed.

  (** ** at the level of the whole loading phase *)

  (* the FIRST failing read of a protected file: the index was decoded, the files before this one were loaded,
     this one's read fails with e other than "does not exist" - the whole load fails with e there *)
  Theorem other_read_error_is_error_load_all : forall ix st d st1 w pre i info post fis_k st_k e st',
    str_eqb (ext ix) EXT_PAR2 = true ->
    new_decoder md5 ix st = (Ok d, st1) -> win_new (Z.of_N (d_slice d)) = Ok w ->
    combine (seq 0 (length (d_rec d))) (d_rec d) = pre ++ (i, info) :: post ->
    load_files md5 d w (make_cstable (d_rec d)) pre (fis0 d) st1 = (Ok fis_k, st_k) ->
    io_read (file_path ix (di_name info)) st_k = (Err e, st') -> e <> ENotExist ->
    load_all md5 ix st = (Err e, st').
  Proof.
    intros ix st d st1 w pre i info post fis_k st_k e st' Hx Hd Hw Ht Hp Hr Hne.
    destruct (new_decoder_ok md5 _ _ _ _ Hd) as [Hix _].
    unfold load_all. rewrite Hx. cbn [negb]. rewrite Hd, Hw. cbv zeta. fold (fis0 d).
    rewrite Ht, load_files_app, Hp.
    rewrite (other_read_error_is_error d w _ i info post fis_k st_k e st'); [reflexivity| |exact Hne].
    rewrite Hix. exact Hr.
  Qed.

  (* the same read saying "does not exist": the load goes on exactly as if that step had only set the flags *)
  Theorem missing_file_goes_on_load_all : forall ix st d st1 w pre i info post fis_k st_k st_k',
    str_eqb (ext ix) EXT_PAR2 = true ->
    new_decoder md5 ix st = (Ok d, st1) -> win_new (Z.of_N (d_slice d)) = Ok w ->
    combine (seq 0 (length (d_rec d))) (d_rec d) = pre ++ (i, info) :: post ->
    load_files md5 d w (make_cstable (d_rec d)) pre (fis0 d) st1 = (Ok fis_k, st_k) ->
    io_read (file_path ix (di_name info)) st_k = (Err ENotExist, st_k') ->
    load_files md5 d w (make_cstable (d_rec d)) (combine (seq 0 (length (d_rec d))) (d_rec d)) (fis0 d) st1
      = load_files md5 d w (make_cstable (d_rec d)) post (set_flags i true false false fis_k) st_k'.
  Proof.
    intros ix st d st1 w pre i info post fis_k st_k st_k' Hx Hd Hw Ht Hp Hr.
    destruct (new_decoder_ok md5 _ _ _ _ Hd) as [Hix _].
    rewrite Ht, load_files_app, Hp.
    apply (missing_file_is_damage d w _ i info post fis_k st_k st_k'). rewrite Hix. exact Hr.
  Qed.

  (* a load that succeeded - under any fault schedule - has marked every protected file that does not exist as
     missing: the absence is recorded as damage of that file, and the operation went on *)
  Theorem missing_file_is_damage_load_all : forall ix st ds st',
    load_all md5 ix st = (Ok ds, st') ->
    forall k info, nth_error (d_rec (ds_dec ds)) k = Some info ->
      fs_lookup (io_fs st) (file_path ix (di_name info)) = None ->
      flags3 (nth k (ds_fis ds) dfi) = (true, false, false).
  Proof.
    intros ix st ds st' HL k info Hk Hnone.
    destruct (load_all_inv md5 _ _ _ _ HL) as (d & st1 & w & fis & st2 & acc & Hd & Hw & Hlf & ->).
    cbn [ds_dec ds_fis] in *.
    destruct (new_decoder_ok md5 _ _ _ _ Hd) as [Hix _].
    pose proof (new_decoder_pres md5 ix st) as P. rewrite Hd in P. cbn [snd] in P. destruct P as (Pf & _).
    assert (Hkl : (k < length (d_rec d))%nat) by (apply nth_error_Some; rewrite Hk; discriminate).
    assert (Hin : In (k, info) (combine (seq 0 (length (d_rec d))) (d_rec d))).
    { pose proof (in_combine_seq_nth dinfo0 (d_rec d) 0 k Hkl) as Hc. cbn [Nat.add] in Hc.
      rewrite (nth_error_nth _ _ dinfo0 Hk) in Hc. exact Hc. }
    apply (load_files_missing_marked d w _ _ _ _ _ _) with (i := k) (info := info) in Hlf.
    - exact Hlf.
    - rewrite map_fst_combine by (apply seq_length). apply seq_NoDup.
    - intros i' info' Hin'. destruct (in_combine_seq_inv dinfo0 _ _ _ _ Hin') as (k' & -> & Hk' & _).
      unfold fis0. rewrite map_length. cbn [Nat.add]. exact Hk'.
    - exact Hin.
    - rewrite Pf, Hix. exact Hnone.
  Qed.
End MissingPar2.

Section MissingPar1.
  Variable md5 : bytes -> bytes.

  Definition p1_continue (o : option bytes) (r : outcome (list (option bytes)) * io) : outcome (list (option bytes)) * io :=
    match r with
    | (Ok ds, st2) => (Ok (o :: ds), st2)
    | (Err x, st2) => (Err x, st2)
    | (Panic q, st2) => (Panic q, st2)
    end.

  (** ** one step of the PAR1 LoadFileData *)

  (* "does not exist": the loader goes on with the remaining entries, this one's data unusable (None); whatever the
     rest returns is returned - the step itself is not a failure *)
  Theorem missing_file_is_damage_par1 : forall ix e r p st st1,
    entry_path ix e = Ok p -> io_read p st = (Err ENotExist, st1) ->
    load_data md5 ix (e :: r) st = p1_continue None (load_data md5 ix r st1).
  Proof.
    intros ix e r p st st1 EP ER. cbn [load_data]. rewrite EP, ER. reflexivity.
  Qed.

  (* any other read error is the loader's error, in the state right after the failed call *)
  Theorem other_read_error_is_error_par1 : forall ix e r p st x st1,
    entry_path ix e = Ok p -> io_read p st = (Err x, st1) -> x <> ENotExist ->
    load_data md5 ix (e :: r) st = (Err x, st1).
  Proof.
    intros ix e r p st x st1 EP ER Hne. cbn [load_data]. rewrite EP, ER.
    destruct x; try reflexivity. exfalso. apply Hne. reflexivity.
  Qed.

  (** ** the whole of it *)

  Lemma load_data_app ix : forall pre post st,
    load_data md5 ix (pre ++ post) st =
    match load_data md5 ix pre st with
    | (Ok a, st0) => match load_data md5 ix post st0 with
                     | (Ok b, st2) => (Ok (a ++ b), st2)
                     | (Err x, st2) => (Err x, st2)
                     | (Panic q, st2) => (Panic q, st2)
                     end
    | (Err x, st0) => (Err x, st0)
    | (Panic q, st0) => (Panic q, st0)
    end.
  Proof.
    induction pre as [|e pre IH]; intros post st.
    - cbn [app load_data]. destruct (load_data md5 ix post st) as [[b|x|q] st2]; reflexivity.
    - cbn [app load_data].
      destruct (entry_path ix e) as [p|x|q]; try reflexivity.
      destruct (io_read p st) as [[data|x|q] st1]; try reflexivity.
      + rewrite IH. destruct (load_data md5 ix pre st1) as [[a|x|q] st0]; try reflexivity.
        destruct (load_data md5 ix post st0) as [[b|x|q] st2]; reflexivity.
      + destruct x; try reflexivity.
        rewrite IH. destruct (load_data md5 ix pre st1) as [[a|x|q] st0]; try reflexivity.
        destruct (load_data md5 ix post st0) as [[b|x|q] st2]; reflexivity.
  Qed.

  (* the PAR1 LoadFileData fails only (1) at an entry whose recorded name is not a bare file name (EMalformed, no
     call made), or (2) at a read error other than "does not exist"; the entries before it were loaded *)
  Theorem load_data_first_failure ix : forall es st x st',
    load_data md5 ix es st = (Err x, st') ->
    exists pre e post dpre st0,
      es = pre ++ e :: post /\ load_data md5 ix pre st = (Ok dpre, st0) /\
      ((entry_path ix e = Err x /\ st' = st0) \/
       (exists p, entry_path ix e = Ok p /\ io_read p st0 = (Err x, st') /\ x <> ENotExist)).
  Proof.
    induction es as [|e r IH]; intros st x st' H; [discriminate H|].
    cbn [load_data] in H.
    destruct (entry_path ix e) as [p|x0|q] eqn:EP; [| |discriminate H].
    2:{ injection H as <- <-. exists [], e, r, [], st. split; [reflexivity|]. split; [reflexivity|]. left. split; [exact EP|reflexivity]. }
    assert (Go : forall o st1, load_data md5 ix [e] st = (Ok [o], st1) ->
              p1_continue o (load_data md5 ix r st1) = (Err x, st') ->
              exists pre e' post dpre st0,
                e :: r = pre ++ e' :: post /\ load_data md5 ix pre st = (Ok dpre, st0) /\
                ((entry_path ix e' = Err x /\ st' = st0) \/
                 (exists p', entry_path ix e' = Ok p' /\ io_read p' st0 = (Err x, st') /\ x <> ENotExist))).
    { intros o st1 E1 Hc.
      destruct (load_data md5 ix r st1) as [[ds|x1|q] st2] eqn:EL; cbn [p1_continue] in Hc; try discriminate Hc.
      injection Hc as -> ->.
      destruct (IH _ _ _ EL) as (pre & e' & post & dpre & st0 & Ht & Hp & Hcase).
      exists (e :: pre), e', post, (o :: dpre), st0. split; [rewrite Ht; reflexivity|].
      split; [|exact Hcase].
      change (e :: pre) with ([e] ++ pre). rewrite load_data_app, E1, Hp. reflexivity. }
    destruct (io_read p st) as [[data|x0|q] st1] eqn:ER.
    - apply (Go (if bytes_eqb (Par1.hash16k md5 data) (e_h16 e) && bytes_eqb (md5 data) (e_hash e) then Some data else None) st1).
      + cbn [load_data]. rewrite EP, ER. reflexivity.
      + unfold p1_continue. exact H.
    - destruct x0;
        try (injection H as <- <-; exists [], e, r, [], st; split; [reflexivity|]; split; [reflexivity|];
             right; exists p; split; [exact EP|]; split; [exact ER|discriminate]).
      apply (Go None st1).
      + cbn [load_data]. rewrite EP, ER. reflexivity.
      + unfold p1_continue. exact H.
    - discriminate H.
  Qed.

  (* when it succeeds - under any fault schedule - every saved entry whose path holds no file is unusable *)
  Theorem load_data_missing_marked ix : forall es st ds st',
    load_data md5 ix es st = (Ok ds, st') ->
    forall k e, nth_error es k = Some e ->
      fs_lookup (io_fs st) (join2 (dir ix) (e_name e)) = None -> nth_error ds k = Some None.
  Proof.
    induction es as [|e0 r IH]; intros st ds st' H k e Hk Hnone; [destruct k; discriminate Hk|].
    cbn [load_data] in H.
    destruct (entry_path ix e0) as [p|x|q] eqn:EP; try discriminate H.
    apply entry_path_ok in EP. destruct EP as [_ ->].
    pose proof (io_read_fs (join2 (dir ix) (e_name e0)) st) as F.
    destruct (io_read (join2 (dir ix) (e_name e0)) st) as [[data|x|q] st1] eqn:ER; cbn [snd] in F.
    - destruct (load_data md5 ix r st1) as [[ds'|x|q] st2] eqn:EL; try discriminate H.
      injection H as <- _. destruct k as [|k]; cbn [nth_error] in Hk |- *.
      + injection Hk as ->. apply io_read_ok_any in ER. rewrite ER in Hnone. discriminate Hnone.
      + apply (IH _ _ _ EL k e Hk). rewrite F. exact Hnone.
    - destruct x; try discriminate H.
      destruct (load_data md5 ix r st1) as [[ds'|x|q] st2] eqn:EL; try discriminate H.
      injection H as <- _. destruct k as [|k]; cbn [nth_error] in Hk |- *; [reflexivity|].
      apply (IH _ _ _ EL k e Hk). rewrite F. exact Hnone.
    - discriminate H.
  Qed.

  (** ** at the level of p1_load *)

  Theorem other_read_error_is_error_p1_load : forall ix st b st1 v pre e post dpre st_k p x st',
    str_eqb (ext ix) EXT_PAR = true ->
    io_read ix st = (Ok b, st1) -> read_volume md5 b = Ok v -> (v_number v =? 0) = true ->
    filter saved (v_entries v) = pre ++ e :: post ->
    load_data md5 ix pre st1 = (Ok dpre, st_k) ->
    entry_path ix e = Ok p -> io_read p st_k = (Err x, st') -> x <> ENotExist ->
    p1_load md5 ix st = (Err x, st').
  Proof.
    intros ix st b st1 v pre e post dpre st_k p x st' Hx Hb Hv Hn Hes Hp EP ER Hne.
    unfold p1_load. rewrite Hx. cbn [negb]. rewrite Hb, Hv, Hn. cbn [negb]. cbv zeta.
    rewrite Hes, load_data_app, Hp.
    rewrite (other_read_error_is_error_par1 ix e post p st_k x st' EP ER Hne). reflexivity.
  Qed.

  Theorem missing_file_is_damage_p1_load : forall ix st s st',
    p1_load md5 ix st = (Ok s, st') ->
    forall k e, nth_error (s_saved s) k = Some e ->
      fs_lookup (io_fs st) (join2 (dir ix) (e_name e)) = None -> nth_error (s_data s) k = Some None.
  Proof.
    intros ix st s st' H k e Hk Hnone.
    destruct (p1_load_data md5 _ _ _ _ H) as (st1 & st2 & F & EL).
    apply (load_data_missing_marked ix _ _ _ _ EL k e Hk). rewrite F. exact Hnone.
  Qed.
End MissingPar1.

(** * (a'), in the property's words for a FIXED archive: what "matches the archive" is read from is the index file *)
Section FixedIndex.
  Variable md5 : bytes -> bytes.

  (* the decoder as a function of the index file's bytes (the pure part of newDecoder) *)
  Definition index_decoder (ix : list N) (b : bytes) : outcome decoder :=
    match read_file md5 None b with
    | RFOk sid f =>
        match pf_main f with
        | None => Err EMalformed
        | Some m =>
            match pf_recv f with
            | _ :: _ => Err EMalformed
            | [] =>
                do rs <- make_infos (mp_slice m) (mp_rec m) f;
                do nrs <- make_infos (mp_slice m) (mp_nonrec m) f;
                Ok {| d_index := ix; d_setid := sid; d_slice := mp_slice m; d_rec := rs; d_nonrec := nrs |}
            end
        end
    | _ => Err EMalformed
    end.

  Lemma new_decoder_eq ix st :
    new_decoder md5 ix st = match io_read ix st with
                            | (Ok b, st1) => (index_decoder ix b, st1)
                            | (Err e, st1) => (Err e, st1)
                            | (Panic q, st1) => (Panic q, st1)
                            end.
  Proof. reflexivity. Qed.

  (* the index file with bytes b records, for the path q, the length and both hashes of d *)
  Definition index_records (ix : list N) (b : bytes) (q : list N) (d : bytes) : Prop :=
    exists dec info, index_decoder ix b = Ok dec /\ In info (d_rec dec) /\
      q = file_path ix (di_name info) /\ md5 d = di_hash info /\ Par2.hash16k md5 d = di_h16 info /\
      N.of_nat (length d) = di_len info.

  Lemma matches2_index ix fs q d : matches2 md5 ix fs q d ->
    exists b, fs_lookup fs ix = Some b /\ index_records ix b q d.
  Proof.
    intros (ds & st1 & info & HL & Hin & Hq & Hh & Hh16 & Hl).
    destruct (load_all_inv md5 _ _ _ _ HL) as (dec & s1 & w & fis & s2 & acc & Hd & _ & _ & ->).
    cbn [ds_dec] in Hin. rewrite new_decoder_eq in Hd.
    destruct (io_read ix (io_init fs [])) as [[b|e|p] s1'] eqn:ER; try discriminate Hd.
    apply io_read_ok_any in ER. cbn [io_init io_fs] in ER. injection Hd as Hd _.
    exists b. split; [exact ER|]. exists dec, info. repeat split; assumption.
  Qed.

  (* every Repair of the history ran with the same index file b: a path no external operation names still has
     its initial content, or holds content with the length and both hashes THAT index records for it *)
  Theorem history2_fixed_index : forall ix h fs q b,
    (forall o, In o h -> match o with HSet p _ => p <> q | HDelete p => p <> q | _ => True end) ->
    (forall h1 dbl h2, h = h1 ++ HRepair dbl :: h2 -> fs_lookup (hrun2 md5 ix h1 fs) ix = Some b) ->
    fs_lookup (hrun2 md5 ix h fs) q = fs_lookup fs q \/
    exists d, fs_lookup (hrun2 md5 ix h fs) q = Some d /\ index_records ix b q d.
  Proof.
    intros ix h fs q b Hall Hix.
    destruct (history2_monotone_repair md5 ix h fs q Hall) as [Heq|(d & h1 & dbl & h2 & Hh & Hd & _ & Hm)].
    - left. exact Heq.
    - right. exists d. split; [exact Hd|].
      destruct (matches2_index _ _ _ _ Hm) as (b' & Hb' & Hrec).
      rewrite (Hix h1 dbl h2 Hh) in Hb'. injection Hb' as <-. exact Hrec.
  Qed.

  (** PAR1 *)
  Definition index_records1 (ix : list N) (b : bytes) (q : list N) (d : bytes) : Prop :=
    exists v e, read_volume md5 b = Ok v /\ In e (filter saved (v_entries v)) /\
      q = join2 (dir ix) (e_name e) /\ md5 d = e_hash e /\ Par1.hash16k md5 d = e_h16 e /\
      N.of_nat (length d) = e_len e.

  Lemma p1_load_index ix st s st' : p1_load md5 ix st = (Ok s, st') ->
    exists b v, fs_lookup (io_fs st) ix = Some b /\ read_volume md5 b = Ok v /\ s_saved s = filter saved (v_entries v).
  Proof.
    unfold p1_load. intros H.
    destruct (negb (str_eqb (ext ix) EXT_PAR)); [discriminate|].
    destruct (io_read ix st) as [[b|x|q] st1] eqn:ER; try discriminate.
    apply io_read_ok_any in ER.
    destruct (read_volume md5 b) as [v|x|q] eqn:EV; try discriminate.
    destruct (negb (v_number v =? 0)); [discriminate|].
    destruct (load_data md5 ix (filter saved (v_entries v)) st1) as [[ds|x|q] st2] eqn:EL; try discriminate.
    destruct ds as [|d0 ds]; [discriminate|].
    match type of H with context [if 256 <=? ?n then _ else _] => destruct (256 <=? n) end; [discriminate|].
    match type of H with context [load_vols md5 ix ?a ?i ?n ?sz ?acc st2] =>
      destruct (load_vols md5 ix a i n sz acc st2) as [[[slots size]|x|q] st3] end; try discriminate.
    injection H as <- _. cbn [s_saved]. exists b, v. split; [exact ER|]. split; [exact EV|reflexivity].
  Qed.

  Lemma matches1_index ix fs q d : matches1 md5 ix fs q d ->
    exists b, fs_lookup fs ix = Some b /\ index_records1 ix b q d.
  Proof.
    intros (s & st1 & e & HL & Hin & Hq & Hh & Hh16 & Hl).
    destruct (p1_load_index _ _ _ _ HL) as (b & v & Hb & Hv & Hs). cbn [io_init io_fs] in Hb.
    exists b. split; [exact Hb|]. exists v, e. rewrite <- Hs. repeat split; assumption.
  Qed.

  Theorem history1_fixed_index : forall ix h fs q b,
    (forall o, In o h -> match o with HSet p _ => p <> q | HDelete p => p <> q | _ => True end) ->
    (forall h1 dbl h2, h = h1 ++ HRepair dbl :: h2 -> fs_lookup (hrun1 md5 ix h1 fs) ix = Some b) ->
    fs_lookup (hrun1 md5 ix h fs) q = fs_lookup fs q \/
    exists d, fs_lookup (hrun1 md5 ix h fs) q = Some d /\ index_records1 ix b q d.
  Proof.
    intros ix h fs q b Hall Hix.
    destruct (history1_monotone_repair md5 ix h fs q Hall) as [Heq|(d & h1 & dbl & h2 & Hh & Hd & _ & Hm)].
    - left. exact Heq.
    - right. exists d. split; [exact Hd|].
      destruct (matches1_index _ _ _ _ Hm) as (b' & Hb' & Hrec).
      rewrite (Hix h1 dbl h2 Hh) in Hb'. injection Hb' as <-. exact Hrec.
  Qed.
End FixedIndex.

(** * (c') what the counter theorem buys: the fault window of a run from an initial state is ALL its calls *)
Section Window.
  Variable md5 : bytes -> bytes.

  Lemma window_is_all_calls fs sched st' :
    counted (io_init fs sched) st' -> no_fault_between (io_init fs sched) st' ->
    forall n, (n < length (io_trace st'))%nat -> sched_lookup sched n = None.
  Proof.
    intros C NF n Hn. rewrite <- (counted_init _ _ _ C) in Hn. apply (NF n). cbn [io_init io_n]. lia.
  Qed.

  (* a successful Verify / Repair: no call it made - as many as its trace has events - was scheduled a fault *)
  Theorem verify_ok_every_call_fault_free : forall ix fs sched c st',
    par2_verify md5 ix (io_init fs sched) = (Ok c, st') ->
    io_n st' = length (io_trace st') /\ forall n, (n < length (io_trace st'))%nat -> sched_lookup sched n = None.
  Proof.
    intros ix fs sched c st' H.
    pose proof (par2_verify_counted md5 ix (io_init fs sched)) as C. rewrite H in C. cbn [snd] in C.
    split; [exact (counted_init _ _ _ C)|]. apply (window_is_all_calls _ _ _ C). exact (verify_ok_no_fault md5 _ _ _ _ H).
  Qed.

  Theorem repair_ok_every_call_fault_free : forall ix dbl fs sched rp st',
    par2_repair md5 ix dbl (io_init fs sched) = ((Ok tt, rp), st') ->
    io_n st' = length (io_trace st') /\ forall n, (n < length (io_trace st'))%nat -> sched_lookup sched n = None.
  Proof.
    intros ix dbl fs sched rp st' H.
    pose proof (par2_repair_counted md5 ix dbl (io_init fs sched)) as C. rewrite H in C. cbn [snd] in C.
    split; [exact (counted_init _ _ _ C)|]. apply (window_is_all_calls _ _ _ C). exact (repair_ok_no_fault md5 _ _ _ _ _ H).
  Qed.
End Window.

(** * Non-vacuity: the hypotheses hold on concrete states (stand-in digest toy_md5) *)
From Coq Require Import String.
From Coq Require Import List.
From Gopar Require Import Proofs.Par2CreatePaths Proofs.Par2RepairComplete.   (* bs, toy_md5, RCExample *)
Import ListNotations.
Open Scope N_scope.

Module HF2Example.
  Import RCExample.   (* fs0 = {/w/a = 1 2 3 4 5, /w/b = 6 7 8 9}, ix = /w/o.par2, created (slice 4, 2 recovery blocks), fs2 *)

  Definition ds0 : dstate :=
    {| ds_dec := {| d_index := []; d_setid := []; d_slice := 0; d_rec := []; d_nonrec := [] |}; ds_fis := []; ds_tbl := []; ds_parity := [] |}.
  Definition load_ds (fs : list (list N * bytes)) : dstate :=
    match fst (load_all toy_md5 ix (io_init fs [])) with Ok ds => ds | _ => ds0 end.

  (** ** (a) PAR2: a history  damage ; repair ; verify *)
  Definition fs1 := io_fs (snd created).                              (* the directory right after Create *)
  Definition fsA := fs_set fs1 (bs "/w/a") [9; 2; 3; 4; 5].           (* the initial state: a's first slice already damaged *)
  Definition q := bs "/w/a".
  Definition h : list hop := [HDelete (bs "/w/b"); HRepair true; HVerify].   (* b is lost, Repair, Verify *)
  Definition h1 : list hop := [HDelete (bs "/w/b")].
  Definition good : bytes := [1; 2; 3; 4; 5].

  (* the side condition: the history never names q *)
  Example hist2_side : forall o, In o h -> match o with HSet p _ => p <> q | HDelete p => p <> q | _ => True end.
  Proof.
    intros o [<-|[<-|[<-|[]]]]; [|exact I|exact I]. intros E. vm_compute in E. discriminate E.
  Qed.

  (* the right disjunct holds, with h1 = the prefix before the Repair; the left one does not *)
  Example hist2_witness :
    fs_lookup (hrun2 toy_md5 ix h fsA) q = Some good /\
    fs_lookup fsA q = Some [9; 2; 3; 4; 5] /\
    h = h1 ++ [HRepair true; HVerify] /\
    matches2 toy_md5 ix (hrun2 toy_md5 ix h1 fsA) q good /\
    fs_lookup (hrun2 toy_md5 ix h1 fsA) (bs "/w/b") = None /\
    fs_lookup (hrun2 toy_md5 ix h fsA) (bs "/w/b") = Some [6; 7; 8; 9].
  Proof.
    split; [vm_compute; reflexivity|]. split; [vm_compute; reflexivity|]. split; [reflexivity|].
    split; [|split; vm_compute; reflexivity].
    exists (load_ds (hrun2 toy_md5 ix h1 fsA)), (snd (load_all toy_md5 ix (io_init (hrun2 toy_md5 ix h1 fsA) []))),
           (nth 1 (d_rec (ds_dec (load_ds (hrun2 toy_md5 ix h1 fsA)))) dinfo0).
    split; [vm_compute; reflexivity|].
    split; [vm_compute; right; left; reflexivity|].
    vm_compute. repeat split; reflexivity.
  Qed.

  Example hist2_by_theorem :
    exists d fs', fs_lookup (hrun2 toy_md5 ix h fsA) q = Some d /\ matches2 toy_md5 ix fs' q d /\
      exists h1 h2, h = h1 ++ h2 /\ fs' = hrun2 toy_md5 ix h1 fsA.
  Proof.
    destruct (history2_monotone_strong toy_md5 ix h fsA q hist2_side) as [Heq|Hr]; [|exact Hr].
    exfalso. revert Heq. vm_compute. intros Heq. discriminate Heq.
  Qed.

  (* the fixed-archive form: every Repair of the history ran with the index file Create wrote *)
  Definition index_bytes : bytes := match fs_lookup fs1 ix with Some b => b | None => [] end.

  Example hist2_fixed_index_hyp : forall h1 dbl h2, h = h1 ++ HRepair dbl :: h2 ->
    fs_lookup (hrun2 toy_md5 ix h1 fsA) ix = Some index_bytes.
  Proof.
    intros k1 dbl k2 E. unfold h in E.
    destruct k1 as [|o1 [|o2 [|o3 k1]]]; cbn [app] in E.
    - discriminate E.
    - injection E as <- _ _. vm_compute. reflexivity.
    - discriminate E.
    - injection E as _ _ _ E. destruct k1; discriminate E.
  Qed.

  Example hist2_fixed_index_by_theorem :
    exists d, fs_lookup (hrun2 toy_md5 ix h fsA) q = Some d /\ index_records toy_md5 ix index_bytes q d.
  Proof.
    destruct (history2_fixed_index toy_md5 ix h fsA q index_bytes hist2_side hist2_fixed_index_hyp) as [Heq|Hr]; [|exact Hr].
    exfalso. revert Heq. vm_compute. intros Heq. discriminate Heq.
  Qed.

  (** ** (a) PAR1: the same history on a PAR1 set with two volumes *)
  Definition ix1 := bs "/w/o.par".
  Definition created1 := par1_create toy_md5 ix1 [bs "/w/a"; bs "/w/b"] 2 (io_init fs0 []).
  Definition fs1p := io_fs (snd created1).
  Definition fsAp := fs_set fs1p (bs "/w/a") [9; 2; 3; 4; 5].
  Definition p1s0 : p1state :=
    {| s_index := []; s_vol := {| v_sethash_stored := []; v_sethash := []; v_number := 0; v_count := 0; v_entries := []; v_data := [] |};
       s_saved := []; s_data := []; s_size := 0; s_parity := [] |}.
  Definition load_s (fs : list (list N * bytes)) : p1state :=
    match fst (p1_load toy_md5 ix1 (io_init fs [])) with Ok s => s | _ => p1s0 end.
  Definition e0 : p1entry := {| e_status := 0; e_len := 0; e_hash := []; e_h16 := []; e_name := [] |}.

  Example hist1_witness :
    fst created1 = Ok tt /\
    fs_lookup (hrun1 toy_md5 ix1 h fsAp) q = Some good /\
    fs_lookup fsAp q = Some [9; 2; 3; 4; 5] /\
    h = h1 ++ [HRepair true; HVerify] /\
    matches1 toy_md5 ix1 (hrun1 toy_md5 ix1 h1 fsAp) q good.
  Proof.
    split; [vm_compute; reflexivity|]. split; [vm_compute; reflexivity|]. split; [vm_compute; reflexivity|].
    split; [reflexivity|].
    exists (load_s (hrun1 toy_md5 ix1 h1 fsAp)), (snd (p1_load toy_md5 ix1 (io_init (hrun1 toy_md5 ix1 h1 fsAp) []))),
           (nth 0 (s_saved (load_s (hrun1 toy_md5 ix1 h1 fsAp))) e0).
    split; [vm_compute; reflexivity|].
    split; [vm_compute; left; reflexivity|].
    vm_compute. repeat split; reflexivity.
  Qed.

  Example hist1_by_theorem :
    exists d fs', fs_lookup (hrun1 toy_md5 ix1 h fsAp) q = Some d /\ matches1 toy_md5 ix1 fs' q d /\
      exists h1 h2, h = h1 ++ h2 /\ fs' = hrun1 toy_md5 ix1 h1 fsAp.
  Proof.
    destruct (history1_monotone_strong toy_md5 ix1 h fsAp q hist2_side) as [Heq|Hr]; [|exact Hr].
    exfalso. revert Heq. vm_compute. intros Heq. discriminate Heq.
  Qed.

  Definition index_bytes1 : bytes := match fs_lookup fs1p ix1 with Some b => b | None => [] end.

  Example hist1_fixed_index_hyp : forall h1 dbl h2, h = h1 ++ HRepair dbl :: h2 ->
    fs_lookup (hrun1 toy_md5 ix1 h1 fsAp) ix1 = Some index_bytes1.
  Proof.
    intros k1 dbl k2 E. unfold h in E.
    destruct k1 as [|o1 [|o2 [|o3 k1]]]; cbn [app] in E.
    - discriminate E.
    - injection E as <- _ _. vm_compute. reflexivity.
    - discriminate E.
    - injection E as _ _ _ E. destruct k1; discriminate E.
  Qed.

  Example hist1_fixed_index_by_theorem :
    exists d, fs_lookup (hrun1 toy_md5 ix1 h fsAp) q = Some d /\ index_records1 toy_md5 ix1 index_bytes1 q d.
  Proof.
    destruct (history1_fixed_index toy_md5 ix1 h fsAp q index_bytes1 hist2_side hist1_fixed_index_hyp) as [Heq|Hr]; [|exact Hr].
    exfalso. revert Heq. vm_compute. intros Heq. discriminate Heq.
  Qed.
End HF2Example.

Module HF2ExampleB.
  Import RCExample HF2Example.

  (** ** (b) PAR2: fs2 = the created set with /w/a deleted; recovery-set order is b (0), a (1) *)
  Definition dec : decoder := ds_dec loaded.
  Definition info_a : dinfo := nth 1 (d_rec dec) dinfo0.
  Definition win : window := match win_new (Z.of_N (d_slice dec)) with Ok w => w | _ => {| w_size := 0; w_table := [] |} end.
  Definition todo := combine (seq 0 (length (d_rec dec))) (d_rec dec).
  (* /w/a is a DIRECTORY: something lies below it *)
  Definition fsd := fs2 ++ [(bs "/w/a/x", [1])].

  (* the step hypotheses are satisfiable: "does not exist" on fs2, EIO on fsd (directory) and under a fault *)
  Example step_reads :
    file_path (d_index dec) (di_name info_a) = bs "/w/a" /\
    io_read (bs "/w/a") (io_init fs2 []) = (Err ENotExist, tick (io_init fs2 []) (EvRead (bs "/w/a") false) fs2) /\
    io_read (bs "/w/a") (io_init fsd []) = (Err EIO, tick (io_init fsd []) (EvRead (bs "/w/a") false) fsd) /\
    io_read (bs "/w/a") (io_init fs1 [(0%nat, FNoEffect)])
      = (Err EIO, tick (io_init fs1 [(0%nat, FNoEffect)]) (EvRead (bs "/w/a") false) fs1) /\
    EIO <> ENotExist.
  Proof. repeat split; try (vm_compute; reflexivity). discriminate. Qed.

  (* one step, by the theorems *)
  Example step_missing_by_theorem : forall r fis,
    load_files toy_md5 dec win (make_cstable (d_rec dec)) ((1%nat, info_a) :: r) fis (io_init fs2 [])
    = load_files toy_md5 dec win (make_cstable (d_rec dec)) r (set_flags 1 true false false fis)
        (tick (io_init fs2 []) (EvRead (bs "/w/a") false) fs2).
  Proof.
    intros r fis. apply missing_file_is_damage.
    destruct step_reads as (-> & E & _). exact E.
  Qed.

  Example step_error_by_theorem : forall r fis,
    load_files toy_md5 dec win (make_cstable (d_rec dec)) ((1%nat, info_a) :: r) fis (io_init fsd [])
    = (Err EIO, tick (io_init fsd []) (EvRead (bs "/w/a") false) fsd).
  Proof.
    intros r fis. apply other_read_error_is_error; [|discriminate].
    destruct step_reads as (-> & _ & E & _). exact E.
  Qed.

  (* the whole load on fs2: succeeds, and /w/a (index 1) is marked missing - by the theorem, and by computation *)
  Example load_all_missing_by_theorem : flags3 (nth 1 (ds_fis loaded) dfi) = (true, false, false).
  Proof.
    destruct rc_example_loaded as (_ & Hnone & HL & _).
    apply (missing_file_is_damage_load_all toy_md5 ix (io_init fs2 []) loaded (snd (load_all toy_md5 ix (io_init fs2 []))))
      with (info := info_a).
    - rewrite <- HL. apply surjective_pairing.
    - vm_compute. reflexivity.
    - vm_compute. reflexivity.
  Qed.

  Example load_all_missing_computed :
    map flags3 (ds_fis loaded) = [(false, false, false); (true, false, false)].
  Proof. vm_compute. reflexivity. Qed.

  (* the whole load on fsd: every hypothesis of other_read_error_is_error_load_all is satisfiable, with b loaded
     before the failing read of a; the load fails with EIO *)
  Definition st1d : io := snd (new_decoder toy_md5 ix (io_init fsd [])).
  Definition lf_pre := load_files toy_md5 dec win (make_cstable (d_rec dec)) (firstn 1 todo) (fis0 dec) st1d.
  Definition fis_k : list fint := match fst lf_pre with Ok f => f | _ => [] end.
  Definition st_k : io := snd lf_pre.
  Definition st_e : io := snd (io_read (bs "/w/a") st_k).

  Example load_all_error_hyps :
    str_eqb (ext ix) EXT_PAR2 = true /\
    new_decoder toy_md5 ix (io_init fsd []) = (Ok dec, st1d) /\ win_new (Z.of_N (d_slice dec)) = Ok win /\
    combine (seq 0 (length (d_rec dec))) (d_rec dec) = firstn 1 todo ++ (1%nat, info_a) :: [] /\
    load_files toy_md5 dec win (make_cstable (d_rec dec)) (firstn 1 todo) (fis0 dec) st1d = (Ok fis_k, st_k) /\
    io_read (file_path ix (di_name info_a)) st_k = (Err EIO, st_e) /\ EIO <> ENotExist /\
    length (firstn 1 todo) = 1%nat.
  Proof. repeat split; try (vm_compute; reflexivity). discriminate. Qed.

  Example load_all_error_by_theorem : load_all toy_md5 ix (io_init fsd []) = (Err EIO, st_e).
  Proof.
    destruct load_all_error_hyps as (H1 & H2 & H3 & H4 & H5 & H6 & H7 & _).
    exact (other_read_error_is_error_load_all toy_md5 ix (io_init fsd []) dec st1d win (firstn 1 todo) 1%nat info_a []
             fis_k st_k EIO st_e H1 H2 H3 H4 H5 H6 H7).
  Qed.

  (* the same by computation: a directory, a fault at the read of a present file, a fault at the read of an absent
     file - EIO every time; and the load of fs2 without a fault succeeds *)
  Example load_all_errors_computed :
    fst (load_all toy_md5 ix (io_init fsd [])) = Err EIO /\
    fst (load_all toy_md5 ix (io_init fs1 [(1%nat, FNoEffect)])) = Err EIO /\
    fst (load_all toy_md5 ix (io_init fs2 [(2%nat, FNoEffect)])) = Err EIO /\
    is_ok (fst (load_all toy_md5 ix (io_init fs2 []))) = true /\
    fst (par2_verify toy_md5 ix (io_init fsd [])) = Err EIO /\
    fst (par2_repair toy_md5 ix true (io_init fsd [])) = (Err EIO, []).
  Proof. vm_compute. repeat split; reflexivity. Qed.

  (* load_files_first_failure applies: its hypothesis (a failing LoadFileData) holds on fsd *)
  Example first_failure_by_theorem :
    exists pre i info post fis0' st0 st',
      todo = pre ++ (i, info) :: post /\
      load_files toy_md5 dec win (make_cstable (d_rec dec)) pre (fis0 dec) (snd (new_decoder toy_md5 ix (io_init fsd [])))
        = (Ok fis0', st0) /\
      io_read (file_path (d_index dec) (di_name info)) st0 = (Err EIO, st') /\ EIO <> ENotExist.
  Proof.
    assert (H : load_files toy_md5 dec win (make_cstable (d_rec dec)) todo (fis0 dec) (snd (new_decoder toy_md5 ix (io_init fsd [])))
                = (Err EIO, snd (load_files toy_md5 dec win (make_cstable (d_rec dec)) todo (fis0 dec)
                                   (snd (new_decoder toy_md5 ix (io_init fsd []))))))
      by (vm_compute; reflexivity).
    destruct (load_files_first_failure toy_md5 _ _ _ _ _ _ _ _ H) as (pre & i & info & post & f & s0 & Ht & Hp & Hr & Hne).
    exists pre, i, info, post, f, s0. eexists. split; [exact Ht|]. split; [exact Hp|]. split; [exact Hr|exact Hne].
  Qed.

  (** ** (b) PAR1: the created PAR1 set with /w/a deleted, and with /w/a a directory *)
  Definition fs1m := fs_remove fs1p (bs "/w/a").
  Definition fs1d := fs1m ++ [(bs "/w/a/x", [1])].
  Definition ent_a : p1entry := nth 0 (s_saved (load_s fs1m)) e0.

  Example p1_step_reads :
    entry_path ix1 ent_a = Ok (bs "/w/a") /\
    io_read (bs "/w/a") (io_init fs1m []) = (Err ENotExist, tick (io_init fs1m []) (EvRead (bs "/w/a") false) fs1m) /\
    io_read (bs "/w/a") (io_init fs1d []) = (Err EIO, tick (io_init fs1d []) (EvRead (bs "/w/a") false) fs1d).
  Proof. repeat split; vm_compute; reflexivity. Qed.

  Example p1_step_missing_by_theorem : forall r,
    load_data toy_md5 ix1 (ent_a :: r) (io_init fs1m [])
    = p1_continue None (load_data toy_md5 ix1 r (tick (io_init fs1m []) (EvRead (bs "/w/a") false) fs1m)).
  Proof.
    intros r. destruct p1_step_reads as (EP & E & _). exact (missing_file_is_damage_par1 toy_md5 ix1 ent_a r _ _ _ EP E).
  Qed.

  Example p1_step_error_by_theorem : forall r,
    load_data toy_md5 ix1 (ent_a :: r) (io_init fs1d []) = (Err EIO, tick (io_init fs1d []) (EvRead (bs "/w/a") false) fs1d).
  Proof.
    intros r. destruct p1_step_reads as (EP & _ & E).
    apply (other_read_error_is_error_par1 toy_md5 ix1 ent_a r _ _ _ _ EP E). discriminate.
  Qed.

  Example p1_load_missing_by_theorem : nth_error (s_data (load_s fs1m)) 0 = Some None.
  Proof.
    apply (missing_file_is_damage_p1_load toy_md5 ix1 (io_init fs1m []) (load_s fs1m)
             (snd (p1_load toy_md5 ix1 (io_init fs1m [])))) with (e := ent_a).
    - vm_compute. reflexivity.
    - vm_compute. reflexivity.
    - vm_compute. reflexivity.
  Qed.

  Example p1_load_computed :
    s_data (load_s fs1m) = [None; Some [6; 7; 8; 9]] /\
    fst (p1_load toy_md5 ix1 (io_init fs1d [])) = Err EIO /\
    fst (p1_load toy_md5 ix1 (io_init fs1p [(1%nat, FNoEffect)])) = Err EIO /\
    fst (par1_repair toy_md5 ix1 true (io_init fs1d [])) = (Err EIO, []) /\
    fst (par1_repair toy_md5 ix1 true (io_init fs1m [])) = (Ok tt, [bs "/w/a"]).
  Proof. vm_compute. repeat split; reflexivity. Qed.

  (* every hypothesis of other_read_error_is_error_p1_load is satisfiable (a is the first saved entry: pre = []) *)
  Example p1_load_error_by_theorem :
    exists st', p1_load toy_md5 ix1 (io_init fs1d []) = (Err EIO, st').
  Proof.
    eexists.
    apply (other_read_error_is_error_p1_load toy_md5 ix1 (io_init fs1d []) index_bytes1
             (snd (io_read ix1 (io_init fs1d [])))
             (s_vol (load_s fs1m)) [] ent_a (skipn 1 (s_saved (load_s fs1m))) []
             (snd (io_read ix1 (io_init fs1d []))) (bs "/w/a") EIO).
    - vm_compute. reflexivity.
    - vm_compute. reflexivity.
    - vm_compute. reflexivity.
    - vm_compute. reflexivity.
    - vm_compute. reflexivity.
    - reflexivity.
    - vm_compute. reflexivity.
    - vm_compute. reflexivity.
    - discriminate.
  Qed.

  (** ** (c) the counter on concrete runs *)
  (* Verify of fs2 makes 6 calls (index, b, a, the listing, two volumes): the counter ends at 6; a fault scheduled
     at ANY of the call numbers 0..5 makes Verify fail, one at 6 is never reached *)
  Example counter_verify :
    let st' := snd (par2_verify toy_md5 ix (io_init fs2 [])) in
    io_n st' = 6%nat /\ length (io_trace st') = 6%nat /\
    forallb (fun n => negb (is_ok (fst (par2_verify toy_md5 ix (io_init fs2 [(n, FNoEffect)]))))) (seq 0 6) = true /\
    is_ok (fst (par2_verify toy_md5 ix (io_init fs2 [(6%nat, FNoEffect)]))) = true.
  Proof. vm_compute. repeat split; reflexivity. Qed.

  (* Repair of fs2 with the write (call 6) torn: 7 calls counted, the failed one included; the error is reported *)
  Example counter_repair_torn :
    let r := par2_repair toy_md5 ix true (io_init fs2 [(6%nat, FTorn 2)]) in
    fst r = (Err EIO, []) /\ io_n (snd r) = 7%nat /\ length (io_trace (snd r)) = 7%nat /\
    fs_lookup (io_fs (snd r)) (bs "/w/a") = Some [1; 2].
  Proof. vm_compute. repeat split; reflexivity. Qed.

  Example counter_par1 :
    let st' := snd (par1_verify toy_md5 ix1 true (io_init fs1m [])) in
    io_n st' = length (io_trace st') /\ io_n st' = 102%nat.
  Proof. vm_compute. split; reflexivity. Qed.

  Example counter_by_theorem : forall sched,
    let st' := snd (par2_repair toy_md5 ix true (io_init fs2 sched)) in io_n st' = length (io_trace st').
  Proof.
    intros sched. cbv zeta. apply (counted_init fs2 sched). apply par2_repair_counted.
  Qed.
End HF2ExampleB.

Print Assumptions history2_monotone_repair.
Print Assumptions history2_monotone_strong.
Print Assumptions history1_monotone_repair.
Print Assumptions history1_monotone_strong.
Print Assumptions history2_fixed_index.
Print Assumptions history1_fixed_index.
Print Assumptions io_read_err_cases.
Print Assumptions missing_file_is_damage.
Print Assumptions other_read_error_is_error.
Print Assumptions load_files_first_failure.
Print Assumptions load_files_missing_marked.
Print Assumptions other_read_error_is_error_load_all.
Print Assumptions missing_file_goes_on_load_all.
Print Assumptions missing_file_is_damage_load_all.
Print Assumptions missing_file_is_damage_par1.
Print Assumptions other_read_error_is_error_par1.
Print Assumptions load_data_first_failure.
Print Assumptions load_data_missing_marked.
Print Assumptions other_read_error_is_error_p1_load.
Print Assumptions missing_file_is_damage_p1_load.
Print Assumptions io_counter_counts_calls.
Print Assumptions verify_ok_every_call_fault_free.
Print Assumptions repair_ok_every_call_fault_free.
Print Assumptions HF2Example.hist2_side.
Print Assumptions HF2Example.hist2_witness.
Print Assumptions HF2Example.hist2_by_theorem.
Print Assumptions HF2Example.hist2_fixed_index_hyp.
Print Assumptions HF2Example.hist2_fixed_index_by_theorem.
Print Assumptions HF2Example.hist1_witness.
Print Assumptions HF2Example.hist1_by_theorem.
Print Assumptions HF2Example.hist1_fixed_index_by_theorem.
Print Assumptions HF2ExampleB.step_reads.
Print Assumptions HF2ExampleB.load_all_missing_by_theorem.
Print Assumptions HF2ExampleB.load_all_error_hyps.
Print Assumptions HF2ExampleB.load_all_error_by_theorem.
Print Assumptions HF2ExampleB.load_all_errors_computed.
Print Assumptions HF2ExampleB.first_failure_by_theorem.
Print Assumptions HF2ExampleB.p1_step_reads.
Print Assumptions HF2ExampleB.p1_load_missing_by_theorem.
Print Assumptions HF2ExampleB.p1_load_error_by_theorem.
Print Assumptions HF2ExampleB.p1_load_computed.
Print Assumptions HF2ExampleB.counter_verify.
Print Assumptions HF2ExampleB.counter_repair_torn.
Print Assumptions HF2ExampleB.counter_par1.
Print Assumptions HF2ExampleB.counter_by_theorem.
