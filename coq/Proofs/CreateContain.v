(* Containment and path facts for Create (PAR2 and PAR1).
   CC1 create_reads_resolved_inputs   past its checks, Create reads exactly the resolved input: join(basedir, rel) = abs f
       create_read_events_are_inputs  every read call of a run targets abs_path cwd f for an input f
   CC2 create_reads_below_index_dir   every read path lies strictly below the directory of the index file
   CC3 par1_create_write_targets / par1_create_read_targets / par1_create_inputs_untouched
   CC4 par1_create_order_matters      PAR1 Create's index file depends on the order of the input list
   CC5 create_writes_miss_inputs      PAR2 Create never writes over an input: it refuses (before any call) an input whose
       create_input_paths_untouched   resolved path is the index file or a name the recovery-file listing would return
       create_ok_inputs_not_outputs   (create.go isParityFilePath = Model.Par2.is_parity_path); so every input keeps its
                                      content whatever Create returns, and after Ok no input is an output *)
From Coq Require Import Lia ZifyN ZifyNat ZifyBool String Ascii.
From Gopar Require Import Model.Base Model.GF16 Model.Matrix Model.RS16 Model.CRC Model.GoPath Model.FS Model.Par2
     Proofs.GoPathFacts Proofs.Par2Facts Proofs.Par2Faults Proofs.Par2CreatePaths.
From Gopar Require Model.Par1.
Open Scope N_scope.
Set Default Timeout 120.

(** * A. canonical absolute paths: "/" followed by ordinary components joined by "/" *)

Definition canon_of (cs : list (list N)) : list N := SLASH :: join_slash cs.
Definition canon (a : list N) : Prop := exists cs, Forall ordinary cs /\ a = canon_of cs.

(* the model's acceptance test on a relative name (par2_create refuses when it is true) *)
Definition rel_refused (r : list N) : bool := match r with c :: _ => c =? DOT | [] => true end.

Lemma split_slash_comps_noslash : forall s, Forall noslash (split_slash s).
Proof.
  induction s as [|c s IH]; cbn [split_slash].
  - constructor; [constructor|constructor].
  - destruct (c =? SLASH) eqn:E.
    + constructor; [constructor|exact IH].
    + apply N.eqb_neq in E. destruct (split_slash s) as [|h t].
      * constructor; [|constructor]. constructor; [exact E|constructor].
      * inversion IH as [|? ? Hh Ht]; subst. constructor; [|exact Ht]. constructor; assumption.
Qed.

(* the stack of a rooted Clean holds ordinary components only *)
Lemma clean_step_rooted_inv stk c :
  Forall ordinary stk -> noslash c -> Forall ordinary (clean_step true stk c).
Proof.
  intros Hs Hc. unfold clean_step. destruct c as [|c0 c']; [exact Hs|].
  destruct (is_dot (c0 :: c')) eqn:Ed; [exact Hs|].
  destruct (is_dotdot (c0 :: c')) eqn:Edd.
  - destruct stk as [|top rest]; [constructor|].
    inversion Hs as [|? ? Ht Hr]; subst. destruct Ht as (_ & _ & _ & Htd). rewrite Htd. exact Hr.
  - constructor; [|exact Hs]. split; [exact Hc|]. split; [discriminate|]. split; assumption.
Qed.

Lemma clean_stack_rooted_inv : forall cs stk,
  Forall ordinary stk -> Forall noslash cs -> Forall ordinary (clean_stack true stk cs).
Proof.
  unfold clean_stack. induction cs as [|c cs IH]; intros stk Hs Hc; [exact Hs|].
  inversion Hc as [|? ? Hc0 Hcs]; subst. cbn [fold_left]. apply IH; [|exact Hcs].
  apply clean_step_rooted_inv; assumption.
Qed.

Lemma canon_clean s : is_abs s = true -> canon (clean s).
Proof.
  intros H. destruct s as [|c s']; [discriminate H|].
  unfold clean. rewrite H. cbn [render].
  exists (rev (clean_stack true [] (split_slash (c :: s')))). split; [|reflexivity].
  apply Forall_rev. apply clean_stack_rooted_inv; [constructor|apply split_slash_comps_noslash].
Qed.

Lemma canon_dir a : is_abs a = true -> canon (dir a).
Proof.
  intros H. destruct a as [|c r]; [discriminate H|]. cbn [is_abs] in H.
  unfold dir. cbn [dir_prefix_len]. rewrite H.
  destruct (Nat.eqb (dir_prefix_len r) 0); cbn [firstn]; apply canon_clean; exact H.
Qed.

(* the stack of any Clean holds non-empty separator-free components *)
Definition nscomp (c : list N) : Prop := noslash c /\ c <> [].

Lemma clean_step_ns_inv rooted stk c :
  Forall nscomp stk -> noslash c -> Forall nscomp (clean_step rooted stk c).
Proof.
  intros Hs Hc. unfold clean_step. destruct c as [|c0 c']; [exact Hs|].
  assert (Hn : nscomp (c0 :: c')) by (split; [exact Hc|discriminate]).
  destruct (is_dot (c0 :: c')); [exact Hs|].
  destruct (is_dotdot (c0 :: c')).
  - destruct stk as [|top rest].
    + destruct rooted; [constructor|]. constructor; [exact Hn|constructor].
    + inversion Hs as [|? ? Ht Hr]; subst. destruct (is_dotdot top); [constructor; assumption|exact Hr].
  - constructor; assumption.
Qed.

Lemma clean_stack_ns_inv rooted : forall cs stk,
  Forall nscomp stk -> Forall noslash cs -> Forall nscomp (clean_stack rooted stk cs).
Proof.
  unfold clean_stack. induction cs as [|c cs IH]; intros stk Hs Hc; [exact Hs|].
  inversion Hc as [|? ? Hc0 Hcs]; subst. cbn [fold_left]. apply IH; [|exact Hcs].
  apply clean_step_ns_inv; assumption.
Qed.

(* Clean never turns a relative path into an absolute one *)
Lemma is_abs_clean_inv s : is_abs (clean s) = true -> is_abs s = true.
Proof.
  intros H. destruct s as [|c s']; [discriminate H|].
  destruct (is_abs (c :: s')) eqn:Ea; [reflexivity|exfalso].
  unfold clean in H. rewrite Ea in H.
  pose proof (clean_stack_ns_inv false (split_slash (c :: s')) [] (Forall_nil _) (split_slash_comps_noslash _)) as Hinv.
  destruct (clean_stack false [] (split_slash (c :: s'))) as [|top rest] eqn:Es; [discriminate H|].
  cbn [render] in H.
  apply Forall_rev in Hinv.
  destruct (rev (top :: rest)) as [|x r] eqn:Er.
  { apply (f_equal (@length _)) in Er. rewrite rev_length in Er. discriminate Er. }
  inversion Hinv as [|? ? (Hx & Hxn) _]; subst.
  destruct x as [|x0 x']; [congruence|]. inversion Hx as [|? ? Hx0 _]; subst.
  assert (Hh : is_abs (join_slash ((x0 :: x') :: r)) = (x0 =? SLASH)) by (destruct r; reflexivity).
  rewrite Hh in H. apply N.eqb_eq in H. congruence.
Qed.

Lemma canon_abs_path cwd f : is_abs (abs_path cwd f) = true -> canon (abs_path cwd f).
Proof.
  unfold abs_path. destruct (is_abs f) eqn:Ef; [intros _; apply canon_clean; exact Ef|].
  destruct cwd as [|c0 cw], f as [|f0 f']; cbn [join2]; intros H; try discriminate H;
    apply canon_clean; apply is_abs_clean_inv; exact H.
Qed.

(** ** components of a canonical path *)
Lemma ordinary_nonempty c : ordinary c -> c <> [].
Proof. intros (_ & H & _). exact H. Qed.
Lemma ordinary_noslash c : ordinary c -> noslash c.
Proof. intros (H & _). exact H. Qed.

Lemma join_slash_nonempty c r : c <> [] -> join_slash (c :: r) <> [].
Proof. destruct c as [|x c']; [congruence|]. intros _. destruct r; discriminate. Qed.

Lemma join_slash_cons2 c c2 r : join_slash (c :: c2 :: r) = c ++ SLASH :: join_slash (c2 :: r).
Proof. reflexivity. Qed.

Lemma split_join : forall cs, cs <> [] -> Forall noslash cs -> split_slash (join_slash cs) = cs.
Proof.
  induction cs as [|c cs IH]; intros Hne H; [congruence|].
  inversion H as [|? ? Hc Hcs]; subst. destruct cs as [|c2 cs'].
  - cbn [join_slash]. apply split_slash_noslash. exact Hc.
  - rewrite join_slash_cons2, split_slash_app, (split_slash_noslash c Hc), IH by (try discriminate; exact Hcs).
    reflexivity.
Qed.

Lemma Forall_ordinary_noslash cs : Forall ordinary cs -> Forall noslash cs.
Proof. apply Forall_impl. exact ordinary_noslash. Qed.

Lemma filter_nonempty_ordinary : forall cs, Forall ordinary cs ->
  filter (fun c : list N => negb (str_eqb c [])) cs = cs.
Proof.
  induction cs as [|c cs IH]; intros H; [reflexivity|].
  inversion H as [|? ? Hc Hcs]; subst. cbn [filter].
  destruct c as [|x c']; [destruct (ordinary_nonempty _ Hc eq_refl)|].
  change (str_eqb (x :: c') []) with false. cbn [negb]. rewrite (IH Hcs). reflexivity.
Qed.

Lemma split_slash_canon_of cs : split_slash (canon_of cs) = [] :: split_slash (join_slash cs).
Proof. reflexivity. Qed.

Lemma comps_abs_canon cs : Forall ordinary cs -> comps_abs (canon_of cs) = cs.
Proof.
  intros H. unfold comps_abs. rewrite split_slash_canon_of. cbn [filter].
  change (str_eqb [] []) with true. cbn [negb].
  destruct cs as [|c cs']; [reflexivity|].
  rewrite split_join by (try discriminate; apply Forall_ordinary_noslash; exact H).
  apply filter_nonempty_ordinary. exact H.
Qed.

Lemma strip_common_spec : forall a b ra rb, strip_common a b = (ra, rb) ->
  exists cm, a = cm ++ ra /\ b = cm ++ rb.
Proof.
  induction a as [|x a IH]; intros b ra rb H.
  - cbn [strip_common] in H. injection H as <- <-. exists []. split; reflexivity.
  - destruct b as [|y b].
    + cbn [strip_common] in H. injection H as <- <-. exists []. split; reflexivity.
    + cbn [strip_common] in H. destruct (str_eqb x y) eqn:E.
      * apply str_eqb_eq in E. subst y. destruct (IH _ _ _ H) as (cm & -> & ->).
        exists (x :: cm). split; reflexivity.
      * injection H as <- <-. exists []. split; reflexivity.
Qed.

(** ** Join of a canonical directory with ordinary components below it *)
Lemma clean_step_ord rooted stk l : ordinary l -> clean_step rooted stk l = l :: stk.
Proof.
  intros (_ & Hne & Hd & Hdd). unfold clean_step. destruct l as [|c l']; [congruence|].
  rewrite Hd, Hdd. reflexivity.
Qed.

Lemma clean_stack_ordinary r : forall cs stk, Forall ordinary cs -> clean_stack r stk cs = rev cs ++ stk.
Proof.
  unfold clean_stack. induction cs as [|c cs IH]; intros stk H; [reflexivity|].
  inversion H as [|? ? Hc Hcs]; subst. cbn [fold_left rev].
  rewrite clean_step_ord by exact Hc. rewrite (IH _ Hcs), <- app_assoc. reflexivity.
Qed.

Lemma clean_stack_split_join r stk cs : Forall ordinary cs ->
  clean_stack r stk (split_slash (join_slash cs)) = rev cs ++ stk.
Proof.
  intros H. destruct cs as [|c cs']; [reflexivity|].
  rewrite split_join by (try discriminate; apply Forall_ordinary_noslash; exact H).
  apply clean_stack_ordinary. exact H.
Qed.

(* the clean stack of a canonical path is its component list *)
Lemma clean_stack_canon_of cs : Forall ordinary cs ->
  clean_stack true [] (split_slash (canon_of cs)) = rev cs.
Proof.
  intros H. rewrite split_slash_canon_of.
  change (clean_stack true [] ([] :: split_slash (join_slash cs)))
    with (clean_stack true [] (split_slash (join_slash cs))).
  rewrite clean_stack_split_join by exact H. apply app_nil_r.
Qed.

Lemma clean_stack_app r stk a b : clean_stack r stk (a ++ b) = clean_stack r (clean_stack r stk a) b.
Proof. unfold clean_stack. apply fold_left_app. Qed.

Lemma join2_canon_below B rt : Forall ordinary B -> Forall ordinary rt -> rt <> [] ->
  join2 (canon_of B) (join_slash rt) = canon_of (B ++ rt).
Proof.
  intros HB Hrt Hne.
  assert (Hj : join_slash rt <> []).
  { destruct rt as [|c r]; [congruence|]. inversion Hrt as [|? ? Hc _]; subst.
    apply join_slash_nonempty, (ordinary_nonempty _ Hc). }
  rewrite join2_nonempty by exact Hj. unfold canon_of at 1.
  rewrite clean_nonempty by discriminate.
  change (is_abs ((SLASH :: join_slash B) ++ SLASH :: join_slash rt)) with true.
  rewrite split_slash_app. fold (canon_of B).
  rewrite clean_stack_app, clean_stack_canon_of by exact HB.
  rewrite clean_stack_split_join by exact Hrt.
  change (is_abs (canon_of B ++ SLASH :: join_slash rt)) with true.
  cbn [render]. rewrite rev_app_distr, !rev_involutive. reflexivity.
Qed.

(* the core of CC1/CC2 on canonical paths: an accepted relative name means the target's components
   are the directory's components followed by at least one more, and Join gives the target back *)
Lemma rel_join_canon B A : Forall ordinary B -> Forall ordinary A ->
  rel_refused (rel_path (canon_of B) (canon_of A)) = false ->
  exists rt, rt <> [] /\ A = B ++ rt /\ rel_path (canon_of B) (canon_of A) = join_slash rt /\
             join2 (canon_of B) (rel_path (canon_of B) (canon_of A)) = canon_of A.
Proof.
  intros HB HA. unfold rel_path. rewrite !comps_abs_canon by assumption.
  destruct (strip_common B A) as [rb rt] eqn:E.
  destruct (strip_common_spec _ _ _ _ E) as (cm & EB & EA).
  destruct rb as [|x rb'].
  - rewrite app_nil_r in EB. subst cm. cbn [map app].
    destruct rt as [|c rt']; [intros H; discriminate H|].
    intros _. exists (c :: rt'). split; [discriminate|]. split; [exact EA|]. split; [reflexivity|].
    rewrite EA. apply join2_canon_below; [exact HB| |discriminate].
    rewrite EA in HA. apply Forall_app in HA. apply HA.
  - cbn [map app]. intros H. exfalso.
    destruct (map (fun _ : list N => [DOT; DOT]) rb' ++ rt); discriminate H.
Qed.

(** * CC1 *)

(* on any two canonical paths *)
Theorem join_rel_canon basedir a : canon basedir -> canon a ->
  rel_refused (rel_path basedir a) = false -> join2 basedir (rel_path basedir a) = a.
Proof.
  intros (B & HB & ->) (A & HA & ->) H.
  destruct (rel_join_canon B A HB HA H) as (rt & _ & _ & _ & Hj). exact Hj.
Qed.

Lemma rel_refused_hd r : r <> [] -> hd 0 r <> DOT -> rel_refused r = false.
Proof.
  intros Hne Hh. destruct r as [|c r']; [congruence|]. cbn [hd] in Hh. cbn [rel_refused].
  apply N.eqb_neq. exact Hh.
Qed.

Theorem create_reads_resolved_inputs : forall cwd parPath f,
  let a := abs_path cwd f in
  let basedir := dir (abs_path cwd parPath) in
  let rel := rel_path basedir a in
  is_abs (abs_path cwd parPath) = true -> is_abs a = true ->
  rel <> [] -> hd 0 rel <> DOT ->
  join2 basedir rel = a.
Proof.
  intros cwd par f a basedir rel Hp Ha Hne Hh. subst a basedir rel.
  apply join_rel_canon; [apply canon_dir; exact Hp|apply canon_abs_path; exact Ha|].
  apply rel_refused_hd; assumption.
Qed.

Corollary create_reads_resolved_inputs_cwd : forall cwd parPath f,
  let a := abs_path cwd f in
  let basedir := dir (abs_path cwd parPath) in
  let rel := rel_path basedir a in
  is_abs cwd = true -> rel <> [] -> hd 0 rel <> DOT -> join2 basedir rel = a.
Proof.
  intros cwd par f a basedir rel Hc. apply create_reads_resolved_inputs; apply is_abs_abs_path; exact Hc.
Qed.

(* COUNTEREXAMPLE (why the resolved index path must be absolute): from a relative "current directory" the
   index directory is relative, an absolute input below a directory of the same name is accepted, and the
   path read is not the input *)
Example create_reads_resolved_inputs_relative_refuted :
  let cwd := bs "x" in let par := bs "o.par2" in let f := bs "/x/b" in
  let a := abs_path cwd f in let basedir := dir (abs_path cwd par) in let rel := rel_path basedir a in
  is_abs a = true /\ basedir = bs "x" /\ rel = bs "b" /\ rel_refused rel = false /\
  join2 basedir rel = bs "x/b" /\ a = bs "/x/b".
Proof. vm_compute. repeat split; reflexivity. Qed.

(* COUNTEREXAMPLE (why the resolved input must be absolute too): an absolute index path, a relative
   "current directory" and a relative input *)
Example create_reads_resolved_inputs_relative_input_refuted :
  let cwd := bs "x" in let par := bs "/x/o.par2" in let f := bs "b" in
  let a := abs_path cwd f in let basedir := dir (abs_path cwd par) in let rel := rel_path basedir a in
  is_abs (abs_path cwd par) = true /\ is_abs a = false /\ rel = bs "b" /\ rel_refused rel = false /\
  join2 basedir rel = bs "/x/b" /\ a = bs "x/b".
Proof. vm_compute. repeat split; reflexivity. Qed.

(* the instance asked for: "sub/../sub/b" from /w/set with index out.par2; and the index directory "/" *)
Example create_reads_resolved_inputs_example :
  let cwd := bs "/w/set" in let par := bs "out.par2" in let f := bs "sub/../sub/b" in
  let a := abs_path cwd f in let basedir := dir (abs_path cwd par) in let rel := rel_path basedir a in
  a = bs "/w/set/sub/b" /\ basedir = bs "/w/set" /\ rel = bs "sub/b" /\ join2 basedir rel = a /\
  (let basedir0 := dir (abs_path (bs "/") par) in let a0 := abs_path (bs "/") f in
   basedir0 = bs "/" /\ rel_path basedir0 a0 = bs "sub/b" /\ join2 basedir0 (rel_path basedir0 a0) = a0).
Proof. vm_compute. repeat split; reflexivity. Qed.

(** * CC2: below the index directory *)

Lemma ordinary_stack_facts l : Forall ordinary l -> no_dotdot l = true /\ forallb comp_ok l = true.
Proof.
  intros H. rewrite Forall_forall in H. split; apply forallb_forall; intros x Hx;
    destruct (H x Hx) as (_ & Hne & Hd & Hdd).
  - rewrite Hdd. reflexivity.
  - unfold comp_ok. rewrite Hd. destruct x as [|x0 x']; [congruence|]. reflexivity.
Qed.

Lemma join_slash_app : forall a b, a <> [] -> b <> [] ->
  join_slash (a ++ b) = join_slash a ++ SLASH :: join_slash b.
Proof.
  induction a as [|c a IH]; intros b Ha Hb; [congruence|].
  destruct a as [|c2 a'].
  - destruct b as [|b0 b']; [congruence|]. reflexivity.
  - change ((c :: c2 :: a') ++ b) with (c :: c2 :: (a' ++ b)).
    rewrite !join_slash_cons2. change (c2 :: a' ++ b) with ((c2 :: a') ++ b).
    rewrite IH by (try discriminate; exact Hb). rewrite <- app_assoc. reflexivity.
Qed.

Lemma firstn_length_app {A} : forall (l x : list A), firstn (length l) (l ++ x) = l.
Proof. induction l as [|a l IH]; intros x; [reflexivity|]. cbn [length app firstn]. rewrite IH. reflexivity. Qed.

(* GoPath.within: the lexical containment test *)
Lemma within_canon B rt : Forall ordinary B -> Forall ordinary rt -> rt <> [] ->
  within (canon_of B) (canon_of (B ++ rt)) = true.
Proof.
  intros HB Hrt Hne.
  assert (Hj : join_slash rt <> []).
  { destruct rt as [|c r]; [congruence|]. inversion Hrt as [|? ? Hc _]; subst.
    apply join_slash_nonempty, (ordinary_nonempty _ Hc). }
  unfold within.
  destruct (str_eqb (canon_of B) [DOT]) eqn:E1; [apply str_eqb_eq in E1; discriminate E1|].
  destruct B as [|b B'].
  - change (str_eqb (canon_of []) [SLASH]) with true. cbn [app].
    change (is_abs (canon_of rt)) with true. cbn [andb].
    destruct (str_eqb (canon_of rt) [SLASH]) eqn:E2; [|reflexivity].
    apply str_eqb_eq in E2. unfold canon_of in E2. injection E2 as E2. congruence.
  - destruct (str_eqb (canon_of (b :: B')) [SLASH]) eqn:E2.
    { apply str_eqb_eq in E2. unfold canon_of in E2. injection E2 as E2. exfalso.
      inversion HB as [|? ? Hb _]; subst. exact (join_slash_nonempty b B' (ordinary_nonempty _ Hb) E2). }
    unfold has_prefix.
    assert (Hp : canon_of ((b :: B') ++ rt) = (canon_of (b :: B') ++ [SLASH]) ++ join_slash rt).
    { unfold canon_of. rewrite join_slash_app by (try discriminate; exact Hne).
      cbn [app]. rewrite <- app_assoc. reflexivity. }
    rewrite Hp, firstn_length_app. apply str_eqb_refl.
Qed.

(* on canonical paths: an accepted relative name puts the target strictly below the directory, in the
   form of C15_stays_below (a non-empty stack of ordinary components on top of the directory's own stack) *)
Theorem accepted_rel_below basedir a : canon basedir -> canon a ->
  rel_refused (rel_path basedir a) = false ->
  exists st, st <> [] /\ no_dotdot st = true /\ forallb comp_ok st = true /\
    a = render true (st ++ clean_stack true [] (split_slash basedir)) /\
    comps_abs a = comps_abs basedir ++ rev st /\
    within basedir a = true.
Proof.
  intros (B & HB & ->) (A & HA & ->) H.
  destruct (rel_join_canon B A HB HA H) as (rt & Hne & -> & _ & _).
  pose proof HA as HA'. apply Forall_app in HA'. destruct HA' as [_ Hrt].
  exists (rev rt).
  destruct (ordinary_stack_facts (rev rt) (Forall_rev Hrt)) as (Hnd & Hco).
  split.
  { intros E. apply (f_equal (@rev _)) in E. rewrite rev_involutive in E. cbn [rev] in E. congruence. }
  split; [exact Hnd|]. split; [exact Hco|]. split; [|split].
  - rewrite clean_stack_canon_of by exact HB. cbn [render].
    rewrite rev_app_distr, !rev_involutive. reflexivity.
  - rewrite !comps_abs_canon, rev_involutive by assumption. reflexivity.
  - apply within_canon; assumption.
Qed.

(** * CC5, lexical part: the refusal test of create.go (is_parity_path) covers every path Create writes *)

(* a canonical path is its own Clean, hence its own Abs *)
Lemma clean_canon a : canon a -> clean a = a.
Proof.
  intros (cs & Hcs & ->). rewrite clean_nonempty by discriminate.
  change (is_abs (canon_of cs)) with true.
  rewrite clean_stack_canon_of by exact Hcs. cbn [render]. rewrite rev_involutive. reflexivity.
Qed.

Lemma abs_path_idem cwd f : is_abs (abs_path cwd f) = true -> abs_path cwd (abs_path cwd f) = abs_path cwd f.
Proof.
  intros H. rewrite (abs_path_of_abs cwd _ H). apply clean_canon. apply canon_abs_path. exact H.
Qed.

(* the index file and every volume name: <index minus ".par2"><suffix> *)
Lemma is_parity_path_output absPar s : ext absPar = EXT_PAR2 -> is_sfx s ->
  is_parity_path absPar (strip_ext absPar ++ s) = true.
Proof.
  intros He [->|(i & c & ->)]; unfold is_parity_path.
  - destruct (ext_par2_form absPar He) as (b & ->). rewrite strip_ext_app_par2, str_eqb_refl. reflexivity.
  - apply orb_true_iff. right. cbv zeta. rewrite He. unfold vol_sfx.
    set (b := strip_ext absPar).
    apply andb_true_iff. split; [apply andb_true_iff; split; [apply andb_true_iff; split|]|].
    + apply Nat.leb_le. rewrite !app_length. cbn [length]. lia.
    + unfold starts_with.
      replace (b ++ [46; 118; 111; 108] ++ dec2 (N.of_nat i) ++ [43] ++ dec2 (N.of_nat c) ++ EXT_PAR2)
        with ((b ++ [DOT]) ++ [118; 111; 108] ++ dec2 (N.of_nat i) ++ [43] ++ dec2 (N.of_nat c) ++ EXT_PAR2)
        by (rewrite <- app_assoc; reflexivity).
      rewrite firstn_length_app. apply str_eqb_refl.
    + unfold ends_with.
      replace (b ++ [46; 118; 111; 108] ++ dec2 (N.of_nat i) ++ [43] ++ dec2 (N.of_nat c) ++ EXT_PAR2)
        with ((b ++ [46; 118; 111; 108] ++ dec2 (N.of_nat i) ++ [43] ++ dec2 (N.of_nat c)) ++ EXT_PAR2)
        by (rewrite <- !app_assoc; reflexivity).
      rewrite app_length.
      match goal with |- context [skipn (?x + ?y - ?y)] => replace (x + y - y)%nat with x by lia end.
      rewrite skipn_length_app. apply str_eqb_refl.
    + apply no_slash_vol_path.
Qed.

(* what the test accepts is not written: when no resolved input is a parity path of the resolved index path, every
   output path resolves to a path different from every resolved input *)
Lemma accepted_inputs_not_outputs cwd par files :
  ext par = EXT_PAR2 ->
  existsb (is_parity_path (abs_path cwd par)) (map (abs_path cwd) files) = false ->
  forall f pth, In f files -> is_output par pth -> abs_path cwd pth <> abs_path cwd f.
Proof.
  intros He Hex f pth Hf Ho Heq.
  apply is_output_sfx in Ho. destruct Ho as (s & Hs & ->).
  rewrite (abs_path_strip_ext cwd par s He (is_sfx_good s Hs)) in Heq.
  assert (Hea : ext (abs_path cwd par) = EXT_PAR2).
  { rewrite (ext_abs_path cwd par (ext_par2_plain_last par He)). exact He. }
  pose proof (is_parity_path_output (abs_path cwd par) s Hea Hs) as Hp. rewrite Heq in Hp.
  assert (Ht : existsb (is_parity_path (abs_path cwd par)) (map (abs_path cwd) files) = true).
  { apply existsb_exists. exists (abs_path cwd f). split; [apply in_map; exact Hf|exact Hp]. }
  rewrite Ht in Hex. discriminate Hex.
Qed.

(** * the calls of a run *)
Section CreateContain.
  Variable md5 : bytes -> bytes.

  Lemma create_refused_no_events cwd par files p st :
    existsb rel_refused (map (rel_path (dir (abs_path cwd par))) (map (abs_path cwd) files)) = true ->
    snd (par2_create md5 cwd par files p st) = st.
  Proof.
    intros H. unfold rel_refused in H. unfold par2_create.
    destruct (negb (str_eqb (ext par) EXT_PAR2)); [reflexivity|].
    destruct files as [|f0 files0]; [reflexivity|].
    cbv zeta.
    destruct (existsb (is_parity_path (abs_path cwd par)) (map (abs_path cwd) (f0 :: files0))); [reflexivity|].
    rewrite H. reflexivity.
  Qed.

  (* a read call of a run targets the model's read path of an input whose relative name was accepted *)
  Lemma create_read_event_accepted cwd par files p fs sched pth ok :
    In (EvRead pth ok) (io_trace (snd (par2_create md5 cwd par files p (io_init fs sched)))) ->
    let basedir := dir (abs_path cwd par) in
    exists f, In f files /\ pth = join2 basedir (rel_path basedir (abs_path cwd f)) /\
              rel_refused (rel_path basedir (abs_path cwd f)) = false.
  Proof.
    intros Hin basedir.
    destruct (existsb rel_refused (map (rel_path basedir) (map (abs_path cwd) files))) eqn:E.
    - rewrite (create_refused_no_events cwd par files p _ E) in Hin. destruct Hin.
    - destruct (create_read_targets md5 cwd par files p fs sched) as (Hr & _).
      destruct (Hr pth ok Hin) as (f & Hf & Hp). exists f. split; [exact Hf|]. split; [exact Hp|].
      destruct (rel_refused (rel_path basedir (abs_path cwd f))) eqn:Er; [|reflexivity].
      assert (Hex : existsb rel_refused (map (rel_path basedir) (map (abs_path cwd) files)) = true).
      { apply existsb_exists. exists (rel_path basedir (abs_path cwd f)). split; [|exact Er].
        apply in_map, in_map, Hf. }
      rewrite Hex in E. discriminate E.
  Qed.

  (** CC1, on the trace *)
  Theorem create_read_events_are_inputs : forall cwd parPath files p fs sched pth ok,
    is_abs (abs_path cwd parPath) = true ->
    (forall f, In f files -> is_abs (abs_path cwd f) = true) ->
    In (EvRead pth ok) (io_trace (snd (par2_create md5 cwd parPath files p (io_init fs sched)))) ->
    exists f, In f files /\ pth = abs_path cwd f.
  Proof.
    intros cwd par files p fs sched pth ok Hp Hfs Hin.
    destruct (create_read_event_accepted cwd par files p fs sched pth ok Hin) as (f & Hf & -> & Hacc).
    exists f. split; [exact Hf|].
    apply join_rel_canon; [apply canon_dir; exact Hp|apply canon_abs_path, Hfs, Hf|exact Hacc].
  Qed.

  Corollary create_read_events_are_inputs_cwd : forall cwd parPath files p fs sched pth ok,
    is_abs cwd = true ->
    In (EvRead pth ok) (io_trace (snd (par2_create md5 cwd parPath files p (io_init fs sched)))) ->
    exists f, In f files /\ pth = abs_path cwd f.
  Proof.
    intros cwd par files p fs sched pth ok Hc. apply create_read_events_are_inputs.
    - apply is_abs_abs_path. exact Hc.
    - intros f _. apply is_abs_abs_path. exact Hc.
  Qed.

  (** CC2, on the trace *)
  Theorem create_reads_below_index_dir : forall cwd parPath files p fs sched pth ok,
    is_abs (abs_path cwd parPath) = true ->
    (forall f, In f files -> is_abs (abs_path cwd f) = true) ->
    In (EvRead pth ok) (io_trace (snd (par2_create md5 cwd parPath files p (io_init fs sched)))) ->
    let basedir := dir (abs_path cwd parPath) in
    exists st, st <> [] /\ no_dotdot st = true /\ forallb comp_ok st = true /\
      pth = render true (st ++ clean_stack true [] (split_slash basedir)) /\
      comps_abs pth = comps_abs basedir ++ rev st /\
      within basedir pth = true.
  Proof.
    intros cwd par files p fs sched pth ok Hp Hfs Hin basedir.
    destruct (create_read_event_accepted cwd par files p fs sched pth ok Hin) as (f & Hf & Hpth & Hacc).
    fold basedir in Hpth, Hacc.
    assert (Hb : canon basedir) by (apply canon_dir; exact Hp).
    assert (Ha : canon (abs_path cwd f)) by (apply canon_abs_path, Hfs, Hf).
    rewrite (join_rel_canon _ _ Hb Ha Hacc) in Hpth. subst pth.
    apply accepted_rel_below; assumption.
  Qed.

  Corollary create_reads_below_index_dir_cwd : forall cwd parPath files p fs sched pth ok,
    is_abs cwd = true ->
    In (EvRead pth ok) (io_trace (snd (par2_create md5 cwd parPath files p (io_init fs sched)))) ->
    let basedir := dir (abs_path cwd parPath) in
    exists st, st <> [] /\ no_dotdot st = true /\ forallb comp_ok st = true /\
      pth = render true (st ++ clean_stack true [] (split_slash basedir)) /\
      comps_abs pth = comps_abs basedir ++ rev st /\
      within basedir pth = true.
  Proof.
    intros cwd par files p fs sched pth ok Hc. apply create_reads_below_index_dir.
    - apply is_abs_abs_path. exact Hc.
    - intros f _. apply is_abs_abs_path. exact Hc.
  Qed.

  (** * CC5: Create never writes over one of its inputs *)

  Lemma create_bad_ext_refused cwd par files p st :
    str_eqb (ext par) EXT_PAR2 = false -> par2_create md5 cwd par files p st = (Err EUsage, st).
  Proof. intros H. unfold par2_create. rewrite H. reflexivity. Qed.

  (* the refusal of create.go: an input that is the index file or would be listed as a recovery file of the set *)
  Lemma create_parity_input_refused cwd par files p st :
    existsb (is_parity_path (abs_path cwd par)) (map (abs_path cwd) files) = true ->
    par2_create md5 cwd par files p st = (Err EUsage, st).
  Proof.
    intros H. unfold par2_create.
    destruct (negb (str_eqb (ext par) EXT_PAR2)); [reflexivity|].
    destruct files as [|f0 files0]; [reflexivity|].
    cbv zeta. rewrite H. reflexivity.
  Qed.

  (* a run that is not refused outright - it made a call, or returned something else than the refusal - passed both tests *)
  Lemma create_not_refused_inv cwd par files p st :
    par2_create md5 cwd par files p st <> (Err EUsage, st) ->
    ext par = EXT_PAR2 /\ existsb (is_parity_path (abs_path cwd par)) (map (abs_path cwd) files) = false.
  Proof.
    intros H. split.
    - destruct (str_eqb (ext par) EXT_PAR2) eqn:E; [apply str_eqb_eq; exact E|].
      destruct (H (create_bad_ext_refused cwd par files p st E)).
    - destruct (existsb (is_parity_path (abs_path cwd par)) (map (abs_path cwd) files)) eqn:E; [|reflexivity].
      destruct (H (create_parity_input_refused cwd par files p st E)).
  Qed.

  (* NO WRITE CALL TARGETS AN INPUT, even up to the resolution of relative spellings by the operating system: the
     resolved target of every write call of a run differs from the resolved path of every input *)
  Theorem create_writes_miss_inputs : forall cwd parPath files p fs sched pth d ok f,
    In (EvWrite pth d ok) (io_trace (snd (par2_create md5 cwd parPath files p (io_init fs sched)))) ->
    In f files -> abs_path cwd pth <> abs_path cwd f.
  Proof.
    intros cwd par files p fs sched pth d ok f Hin Hf.
    destruct (create_not_refused_inv cwd par files p (io_init fs sched)) as (He & Hex).
    { intros E. rewrite E in Hin. destruct Hin. }
    apply (accepted_inputs_not_outputs cwd par files He Hex f pth Hf).
    apply (create_write_targets md5 cwd par files p fs sched pth d ok Hin).
  Qed.

  (* IF CREATE RETURNS Ok THEN NO INPUT IS AN OUTPUT: no name Create writes to (the index file, any volume name)
     resolves to the resolved path of an input - for every starting state and fault schedule *)
  Theorem create_ok_inputs_not_outputs : forall cwd parPath files p st f pth,
    fst (par2_create md5 cwd parPath files p st) = Ok tt ->
    In f files -> is_output parPath pth -> abs_path cwd pth <> abs_path cwd f.
  Proof.
    intros cwd par files p st f pth Hok Hf Ho.
    destruct (create_not_refused_inv cwd par files p st) as (He & Hex).
    { intros E. rewrite E in Hok. discriminate Hok. }
    exact (accepted_inputs_not_outputs cwd par files He Hex f pth Hf Ho).
  Qed.

  (* the same on the paths themselves, for the absolute current directory of a real process: the path of an input, as
     Create reads it, is not a path Create writes to *)
  Corollary create_ok_input_paths_not_outputs : forall cwd parPath files p st f,
    is_abs cwd = true ->
    fst (par2_create md5 cwd parPath files p st) = Ok tt ->
    In f files -> ~ is_output parPath (abs_path cwd f).
  Proof.
    intros cwd par files p st f Hc Hok Hf Ho.
    apply (create_ok_inputs_not_outputs cwd par files p st f (abs_path cwd f) Hok Hf Ho).
    apply abs_path_idem. apply is_abs_abs_path. exact Hc.
  Qed.

  (* EVERY INPUT KEEPS ITS CONTENT, WHATEVER CREATE RETURNS, for every fault schedule: the file map after the run
     equals the file map before it at the resolved path of every input (the path Create reads it at,
     create_read_events_are_inputs_cwd) - with no side condition on the path *)
  Theorem create_input_paths_untouched : forall cwd parPath files p fs sched f,
    is_abs cwd = true -> In f files ->
    fs_lookup (io_fs (snd (par2_create md5 cwd parPath files p (io_init fs sched)))) (abs_path cwd f) =
    fs_lookup fs (abs_path cwd f).
  Proof.
    intros cwd par files p fs sched f Hc Hf. apply create_touches_only_written.
    intros Hin. apply written_paths_in in Hin. destruct Hin as (d & ok & Hin).
    apply (create_writes_miss_inputs cwd par files p fs sched (abs_path cwd f) d ok f Hin Hf).
    apply abs_path_idem. apply is_abs_abs_path. exact Hc.
  Qed.
End CreateContain.

(* THE REPRODUCTION.  `par c -c 2 arc.par2 a.dat b.dat`, then `par c -c 2 arc.par2 a.dat arc.par2 arc.vol00+01.par2`
   (what `par c arc.par2 *` does on a second run): the second run is refused before any call and every file keeps its
   content; so is a run with an input that a later Verify would list as a recovery file of the set; names that only
   look similar (another base name, another extension, a file in a sub-directory arc.d/) stay acceptable inputs *)
Example create_own_outputs_refused :
  let cwd := bs "/w" in let par := bs "/w/arc.par2" in
  let p := {| cp_slice := 4; cp_parity := 2 |} in
  let fs0 := [(bs "/w/a.dat", [1; 2; 3; 4; 5]); (bs "/w/b.dat", [6; 7; 8; 9])] in
  let r1 := par2_create toy_md5 cwd par [bs "a.dat"; bs "b.dat"] p (io_init fs0 []) in
  let fs1 := io_fs (snd r1) ++ [(bs "/w/arc.notes.par2", [1]); (bs "/w/arc.d/x.par2", [2]); (bs "/w/arcx.vol00+01.par2", [3])] in
  let r2 := par2_create toy_md5 cwd (bs "arc.par2") [bs "a.dat"; bs "arc.par2"; bs "arc.vol00+01.par2"] p (io_init fs1 []) in
  let r3 := par2_create toy_md5 cwd par [bs "a.dat"; bs "arc.notes.par2"] p (io_init fs1 []) in
  let r4 := par2_create toy_md5 cwd par [bs "a.dat"; bs "arc.d/x.par2"; bs "arcx.vol00+01.par2"] p (io_init fs1 []) in
  fst r1 = Ok tt /\
  map fst (io_fs (snd r1)) = [bs "/w/a.dat"; bs "/w/b.dat"; bs "/w/arc.par2"; bs "/w/arc.vol00+01.par2"; bs "/w/arc.vol01+01.par2"] /\
  fst r2 = Err EUsage /\ io_trace (snd r2) = [] /\ io_fs (snd r2) = fs1 /\
  fst r3 = Err EUsage /\ io_trace (snd r3) = [] /\
  fst r4 = Ok tt /\
  written_paths (io_trace (snd r4)) = [bs "/w/arc.par2"; bs "/w/arc.vol00+01.par2"; bs "/w/arc.vol01+01.par2"] /\
  map (is_parity_path par) [bs "/w/arc.par2"; bs "/w/arc.vol00+01.par2"; bs "/w/arc.notes.par2"; bs "/w/arc..par2";
                            bs "/w/arc.d/x.par2"; bs "/w/arcx.vol00+01.par2"; bs "/w/arc.par2.bak"; bs "/w/arc.par";
                            bs "/v/arc.vol00+01.par2"; bs "/w/a.dat"]
    = [true; true; true; true; false; false; false; false; false; false].
Proof. vm_compute. repeat split; reflexivity. Qed.

Definition opt_differ (x y : option bytes) : bool :=
  match x, y with Some a, Some b => negb (bytes_eqb a b) | None, None => false | _, _ => true end.

(* COUNTEREXAMPLE (why create_input_paths_untouched asks for an absolute current directory): the test of create.go
   is made on filepath.Abs of the arguments; from a relative "current directory" (which no process has) a relative
   input resolves to a relative path that the test does not recognise, while the path read - Join of the absolute
   index directory and the relative name - is the first volume, which is then overwritten *)
Example create_input_paths_untouched_relative_refuted :
  let cwd := bs "x" in let par := bs "/x/o.par2" in let f := bs "o.vol00+01.par2" in
  let fs := [(bs "/x/o.vol00+01.par2", [1; 2; 3; 4])] in
  let r := par2_create toy_md5 cwd par [f] {| cp_slice := 4; cp_parity := 2 |} (io_init fs []) in
  abs_path cwd f = bs "x/o.vol00+01.par2" /\ is_parity_path (abs_path cwd par) (abs_path cwd f) = false /\
  fst r = Ok tt /\
  hd_error (io_trace (snd r)) = Some (EvRead (bs "/x/o.vol00+01.par2") true) /\
  In (bs "/x/o.vol00+01.par2") (written_paths (io_trace (snd r))) /\
  opt_differ (fs_lookup (io_fs (snd r)) (bs "/x/o.vol00+01.par2")) (fs_lookup fs (bs "/x/o.vol00+01.par2")) = true.
Proof. vm_compute. repeat split; try reflexivity. right. left. reflexivity. Qed.

(** * CC3: PAR1 Create *)

Lemma ext_suffix p : exists b, p = b ++ ext p.
Proof.
  destruct (ext p) as [|e0 e'] eqn:E; [exists p; symmetry; apply app_nil_r|].
  unfold ext in E. destruct (ext_rev_spec _ _ _ E ltac:(discriminate)) as (m & rest & Hr & _ & He).
  exists (rev rest). apply (f_equal (@rev N)) in Hr. rewrite rev_involutive in Hr.
  rewrite Hr, He, rev_app_distr. cbn [rev]. rewrite <- app_assoc, app_nil_r. reflexivity.
Qed.

Lemma p1_strip_ext_ext p : Par1.strip_ext p ++ ext p = p.
Proof.
  destruct (ext_suffix p) as (b & Hb). unfold Par1.strip_ext.
  remember (ext p) as e eqn:He. clear He. subst p.
  rewrite app_length. replace (length b + length e - length e)%nat with (length b) by lia.
  rewrite firstn_length_app. reflexivity.
Qed.

(* the number of parity volumes Create makes *)
Definition p1_nv (nvol : Z) : nat := if (nvol <=? 0)%Z then 3%nat else Z.to_nat nvol.

(* the outputs: the index file and the volumes 1..nv *)
Definition p1_is_output (parPath : list N) (nv : nat) (p : list N) : Prop :=
  p = Par1.strip_ext parPath ++ Par1.EXT_PAR \/
  exists k, (1 <= k <= nv)%nat /\ p = Par1.volume_path parPath (N.of_nat k).

Lemma p1_io_reads_trace : forall paths st,
  exists t, io_trace (snd (Par1.io_reads paths st)) = io_trace st ++ t /\
            Forall (fun ev => exists p ok, ev = EvRead p ok /\ In p paths) t.
Proof.
  induction paths as [|p r IH]; intros st; cbn [Par1.io_reads].
  - exists []. split; [symmetry; apply app_nil_r|constructor].
  - destruct (io_read_event p st) as (ok & E).
    assert (H1 : Forall (fun ev => exists p' ok', ev = EvRead p' ok' /\ In p' (p :: r)) [EvRead p ok]).
    { constructor; [|constructor]. exists p, ok. split; [reflexivity|left; reflexivity]. }
    destruct (io_read p st) as [[d|e|q] st1]; cbn [snd] in E; try (exists [EvRead p ok]; split; [exact E|exact H1]).
    destruct (IH st1) as (t & Et & Ft).
    assert (H2 : Forall (fun ev => exists p' ok', ev = EvRead p' ok' /\ In p' (p :: r)) ([EvRead p ok] ++ t)).
    { apply Forall_app. split; [exact H1|]. revert Ft. apply Forall_impl.
      intros ev (p' & ok' & -> & Hin). exists p', ok'. split; [reflexivity|right; exact Hin]. }
    exists ([EvRead p ok] ++ t).
    destruct (Par1.io_reads r st1) as [[ds|e|q] st2]; cbn [snd] in *; (split; [rewrite Et, E, <- app_assoc; reflexivity|exact H2]).
Qed.

Lemma p1_io_writes_trace : forall ws st,
  exists t, io_trace (snd (Par1.io_writes ws st)) = io_trace st ++ t /\
            Forall (fun ev => exists p d ok, ev = EvWrite p d ok /\ In (p, d) ws) t.
Proof.
  induction ws as [|[p d] r IH]; intros st; cbn [Par1.io_writes].
  - exists []. split; [symmetry; apply app_nil_r|constructor].
  - destruct (io_write_event p d st) as (ok & E).
    assert (H1 : Forall (fun ev => exists p' d' ok', ev = EvWrite p' d' ok' /\ In (p', d') ((p, d) :: r)) [EvWrite p d ok]).
    { constructor; [|constructor]. exists p, d, ok. split; [reflexivity|left; reflexivity]. }
    destruct (io_write p d st) as [[u|e|q] st1]; cbn [snd] in E; try (exists [EvWrite p d ok]; split; [exact E|exact H1]).
    destruct (IH st1) as (t & Et & Ft).
    exists ([EvWrite p d ok] ++ t). split; [rewrite Et, E, <- app_assoc; reflexivity|].
    apply Forall_app. split; [exact H1|]. revert Ft. apply Forall_impl.
    intros ev (p' & d' & ok' & -> & Hin). exists p', d', ok'. split; [reflexivity|right; exact Hin].
Qed.

Lemma p1_io_reads_pres : forall paths st, pres st (snd (Par1.io_reads paths st)).
Proof.
  induction paths as [|p r IH]; intros st; cbn [Par1.io_reads].
  - cbn [snd]. apply pres_refl.
  - pose proof (io_read_pres p st) as P.
    destruct (io_read p st) as [[d|e|q] st1]; cbn [snd] in P; try (cbn [snd]; exact P).
    pose proof (IH st1) as P2.
    destruct (Par1.io_reads r st1) as [[ds|e|q] st2]; cbn [snd] in *; eapply pres_trans; eassumption.
Qed.

Lemma p1_io_writes_touched : forall ws st, touched st (snd (Par1.io_writes ws st)).
Proof.
  induction ws as [|[p d] r IH]; intros st; cbn [Par1.io_writes].
  - cbn [snd]. apply touched_refl.
  - pose proof (io_write_touched p d st) as TW.
    destruct (io_write p d st) as [[u|e|q] st1]; cbn [snd] in TW; try (cbn [snd]; exact TW).
    eapply touched_trans; [exact TW|apply IH].
Qed.

Section Par1Create.
  Variable md5 : bytes -> bytes.

  (* the names of the files Create writes *)
  Lemma par1_outputs_names par nv names datas outs :
    Par1.par1_outputs md5 par nv names datas = Ok outs ->
    Forall (fun pd : list N * bytes => p1_is_output par nv (fst pd)) outs.
  Proof.
    unfold Par1.par1_outputs. cbv zeta.
    lazymatch goal with |- (if ?c then _ else _) = _ -> _ => destruct c end; [discriminate|].
    lazymatch goal with |- (if ?c then _ else _) = _ -> _ => destruct c end; [discriminate|].
    intros H. injection H as <-. constructor; [left; reflexivity|].
    apply Forall_forall. intros [pth d] Hin. apply in_map_iff in Hin. destruct Hin as ([i b] & Hpd & Hin).
    cbn [fst snd] in Hpd. injection Hpd as <- _. cbn [fst].
    apply in_combine_l in Hin. apply in_seq in Hin.
    right. exists (S i). split; [lia|reflexivity].
  Qed.

  Lemma par1_create_bad_ext par files nvol st :
    str_eqb (ext par) Par1.EXT_PAR = false -> snd (Par1.par1_create md5 par files nvol st) = st.
  Proof. intros H. unfold Par1.par1_create. rewrite H. reflexivity. Qed.

  (* a run appends read calls of the inputs as given, then write calls of the outputs, and nothing else *)
  Lemma par1_create_trace par files nvol st :
    exists tr tw, io_trace (snd (Par1.par1_create md5 par files nvol st)) = io_trace st ++ tr ++ tw /\
      Forall (fun ev => exists f ok, In f files /\ ev = EvRead f ok) tr /\
      Forall (fun ev => exists pth d ok, ev = EvWrite pth d ok /\ p1_is_output par (p1_nv nvol) pth) tw.
  Proof.
    assert (Triv : exists tr tw, io_trace st = io_trace st ++ tr ++ tw /\
      Forall (fun ev => exists f ok, In f files /\ ev = EvRead f ok) tr /\
      Forall (fun ev => exists pth d ok, ev = EvWrite pth d ok /\ p1_is_output par (p1_nv nvol) pth) tw).
    { exists [], []. split; [cbn [app]; symmetry; apply app_nil_r|split; constructor]. }
    unfold Par1.par1_create.
    destruct (negb (str_eqb (ext par) Par1.EXT_PAR)); [exact Triv|].
    destruct files as [|f0 files0]; [exact Triv|].
    cbv zeta. fold (p1_nv nvol).
    lazymatch goal with |- context [if ?c then (Err EUsage, st) else _] => destruct c end; [exact Triv|].
    clear Triv.
    destruct (p1_io_reads_trace (f0 :: files0) st) as (tr & Etr & Ftr).
    assert (Ftr' : Forall (fun ev => exists f ok, In f (f0 :: files0) /\ ev = EvRead f ok) tr).
    { revert Ftr. apply Forall_impl. intros ev (pth & ok & -> & Hin). exists pth, ok. split; [exact Hin|reflexivity]. }
    destruct (Par1.io_reads (f0 :: files0) st) as [[datas|e|q] st1]; cbn [snd] in Etr.
    2,3: cbn [snd]; exists tr, []; rewrite app_nil_r; split; [exact Etr|split; [exact Ftr'|constructor]].
    lazymatch goal with |- context [Par1.par1_outputs md5 ?a ?b ?c ?d] =>
      destruct (Par1.par1_outputs md5 a b c d) as [outs|e|q] eqn:EO end.
    2,3: cbn [snd]; exists tr, []; rewrite app_nil_r; split; [exact Etr|split; [exact Ftr'|constructor]].
    destruct (p1_io_writes_trace outs st1) as (tw & Etw & Ftw).
    exists tr, tw. split; [rewrite Etw, Etr, <- app_assoc; reflexivity|split; [exact Ftr'|]].
    revert Ftw. apply Forall_impl. intros ev (pth & d & ok & -> & Hin).
    exists pth, d, ok. split; [reflexivity|].
    pose proof (par1_outputs_names _ _ _ _ _ EO) as Hn. rewrite Forall_forall in Hn. apply (Hn (pth, d) Hin).
  Qed.

  Lemma par1_create_events par files nvol fs sched ev :
    In ev (io_trace (snd (Par1.par1_create md5 par files nvol (io_init fs sched)))) ->
    ext par = Par1.EXT_PAR /\
    ((exists f ok, In f files /\ ev = EvRead f ok) \/
     (exists pth d ok, ev = EvWrite pth d ok /\ p1_is_output par (p1_nv nvol) pth)).
  Proof.
    intros Hin. split.
    - destruct (str_eqb (ext par) Par1.EXT_PAR) eqn:E; [apply str_eqb_eq; exact E|].
      rewrite (par1_create_bad_ext par files nvol _ E) in Hin. destruct Hin.
    - destruct (par1_create_trace par files nvol (io_init fs sched)) as (tr & tw & E & Fr & Fw).
      rewrite E in Hin. cbn [io_init io_trace app] in Hin. rewrite Forall_forall in Fr, Fw.
      apply in_app_or in Hin. destruct Hin as [Hin|Hin]; [left; apply Fr|right; apply Fw]; exact Hin.
  Qed.

  (** every write call targets parPath itself (whose extension is ".par") or volume k, 1 <= k <= nv *)
  Theorem par1_create_write_targets : forall parPath files nvol fs sched pth d ok,
    In (EvWrite pth d ok) (io_trace (snd (Par1.par1_create md5 parPath files nvol (io_init fs sched)))) ->
    ext parPath = Par1.EXT_PAR /\
    (pth = parPath \/
     exists k, (1 <= k <= p1_nv nvol)%nat /\ pth = Par1.volume_path parPath (N.of_nat k)).
  Proof.
    intros par files nvol fs sched pth d ok Hin.
    destruct (par1_create_events par files nvol fs sched _ Hin) as (He & [(f & ok' & _ & Hev)|(pth' & d' & ok' & Hev & Ho)]);
      [discriminate Hev|].
    split; [exact He|]. injection Hev as -> _ _.
    destruct Ho as [->|Hk]; [left|right; exact Hk].
    rewrite <- He. apply p1_strip_ext_ext.
  Qed.

  (** every read call targets one of the inputs, as given; there is no directory listing *)
  Theorem par1_create_read_targets : forall parPath files nvol fs sched,
    let tr := io_trace (snd (Par1.par1_create md5 parPath files nvol (io_init fs sched))) in
    (forall pth ok, In (EvRead pth ok) tr -> In pth files) /\
    (forall pre suf ok, ~ In (EvList pre suf ok) tr).
  Proof.
    intros par files nvol fs sched tr. subst tr. split.
    - intros pth ok Hin.
      destruct (par1_create_events par files nvol fs sched _ Hin) as (_ & [(f & ok' & Hf & Hev)|(pth' & d' & ok' & Hev & _)]);
        [|discriminate Hev].
      injection Hev as -> _. exact Hf.
    - intros pre suf ok Hin.
      destruct (par1_create_events par files nvol fs sched _ Hin) as (_ & [(f & ok' & _ & Hev)|(pth' & d' & ok' & Hev & _)]);
        discriminate Hev.
  Qed.

  Lemma par1_create_touched par files nvol st : touched st (snd (Par1.par1_create md5 par files nvol st)).
  Proof.
    unfold Par1.par1_create.
    destruct (negb (str_eqb (ext par) Par1.EXT_PAR)); [cbn [snd]; apply touched_refl|].
    destruct files as [|f0 files0]; [cbn [snd]; apply touched_refl|].
    cbv zeta.
    lazymatch goal with |- touched _ (snd (if ?c then _ else _)) => destruct c end; [cbn [snd]; apply touched_refl|].
    pose proof (p1_io_reads_pres (f0 :: files0) st) as P. apply pres_touched in P.
    destruct (Par1.io_reads (f0 :: files0) st) as [[datas|e|q] st1]; cbn [snd] in P; try (cbn [snd]; exact P).
    lazymatch goal with |- context [Par1.par1_outputs md5 ?a ?b ?c ?d] =>
      destruct (Par1.par1_outputs md5 a b c d) as [outs|e0|q] end; try (cbn [snd]; exact P).
    eapply touched_trans; [exact P|apply p1_io_writes_touched].
  Qed.

  (** every path that is not an output keeps its content, for every file system and fault schedule *)
  Theorem par1_create_inputs_untouched : forall parPath files nvol fs sched q,
    q <> parPath ->
    (forall k, (1 <= k <= p1_nv nvol)%nat -> q <> Par1.volume_path parPath (N.of_nat k)) ->
    fs_lookup (io_fs (snd (Par1.par1_create md5 parPath files nvol (io_init fs sched)))) q = fs_lookup fs q.
  Proof.
    intros par files nvol fs sched q Hq Hv.
    apply (touched_init fs sched _ q); [apply par1_create_touched|].
    intros Hin. apply written_paths_in in Hin. destruct Hin as (d & ok & Hin).
    destruct (par1_create_write_targets par files nvol fs sched q d ok Hin) as (_ & [E|(k & Hk & E)]).
    - exact (Hq E).
    - exact (Hv k Hk E).
  Qed.

  (* an input file is never an output when its name is neither the index nor a volume name *)
  Corollary par1_create_input_kept : forall parPath files nvol fs sched f,
    In f files -> f <> parPath ->
    (forall k, (1 <= k <= p1_nv nvol)%nat -> f <> Par1.volume_path parPath (N.of_nat k)) ->
    fs_lookup (io_fs (snd (Par1.par1_create md5 parPath files nvol (io_init fs sched)))) f = fs_lookup fs f.
  Proof. intros par files nvol fs sched f _. apply par1_create_inputs_untouched. Qed.
End Par1Create.

(** * CC4: PAR1 Create depends on the ORDER of the input list (PAR2 Create does not: Props/C17.v).
    The model does not sort: par1_outputs lists the entries, computes the set hash and numbers the
    Reed-Solomon inputs in the order given.  Two orders of the same two files: both runs succeed and write
    the same two names, but the index files differ and the second parity volume differs. *)
Definition opt_bytes_differ (x y : option bytes) : bool :=
  match x, y with Some a, Some b => negb (bytes_eqb a b) | _, _ => false end.

Example par1_create_order_matters :
  let fs := [(bs "/w/a", [1; 2; 3]); (bs "/w/b", [4; 5])] in
  let par := bs "/w/o.par" in
  let r1 := Par1.par1_create toy_md5 par [bs "/w/a"; bs "/w/b"] 2%Z (io_init fs []) in
  let r2 := Par1.par1_create toy_md5 par [bs "/w/b"; bs "/w/a"] 2%Z (io_init fs []) in
  fst r1 = Ok tt /\ fst r2 = Ok tt /\
  written_paths (io_trace (snd r1)) = [bs "/w/o.par"; bs "/w/o.p01"; bs "/w/o.p02"] /\
  written_paths (io_trace (snd r2)) = [bs "/w/o.par"; bs "/w/o.p01"; bs "/w/o.p02"] /\
  opt_bytes_differ (fs_lookup (io_fs (snd r1)) par) (fs_lookup (io_fs (snd r2)) par) = true /\
  opt_bytes_differ (fs_lookup (io_fs (snd r1)) (bs "/w/o.p02")) (fs_lookup (io_fs (snd r2)) (bs "/w/o.p02")) = true /\
  fs_lookup (io_fs (snd r1)) (bs "/w/a") = Some [1; 2; 3] /\ fs_lookup (io_fs (snd r1)) (bs "/w/b") = Some [4; 5].
Proof. vm_compute. repeat split; reflexivity. Qed.

(* the same at the level of the pure output function, with the file names and contents as given *)
Example par1_outputs_order_matters :
  let o1 := Par1.par1_outputs toy_md5 (bs "o.par") 1 [bs "a"; bs "b"] [[1; 2; 3]; [4; 5]] in
  let o2 := Par1.par1_outputs toy_md5 (bs "o.par") 1 [bs "b"; bs "a"] [[4; 5]; [1; 2; 3]] in
  match o1, o2 with
  | Ok ((p1, ix1) :: _), Ok ((p2, ix2) :: _) => str_eqb p1 p2 && negb (bytes_eqb ix1 ix2)
  | _, _ => false
  end = true.
Proof. vm_compute. reflexivity. Qed.

(* a PAR1 run seen through CC3: reads of the inputs as given, writes of the index and volumes 1..2 *)
Example par1_create_run :
  let fs := [(bs "/w/a", [1; 2; 3]); (bs "sub/b", [4; 5])] in
  let r := Par1.par1_create toy_md5 (bs "out/o.par") [bs "/w/a"; bs "sub/b"] 2%Z (io_init fs []) in
  fst r = Ok tt /\
  map (fun ev => match ev with EvRead p _ => p | EvWrite p _ _ => p | EvList p _ _ => p end) (io_trace (snd r)) =
    [bs "/w/a"; bs "sub/b"; bs "out/o.par"; bs "out/o.p01"; bs "out/o.p02"] /\
  Par1.volume_path (bs "out/o.par") 2 = bs "out/o.p02".
Proof. vm_compute. repeat split; reflexivity. Qed.

(** * CC6: the create command, then verify - the premise "no input is an output" of CLICompose.cli_create2_then_verify2_zero
       is now a consequence of the command's success *)
From Gopar Require Model.CLI Proofs.Par2Clean Proofs.CLIFacts Proofs.CLICompose.

Section CreateThenVerify.
  Variable md5 : bytes -> bytes.

  Lemma create_rel_refused cwd par files p st :
    existsb rel_refused (map (rel_path (dir (abs_path cwd par))) (map (abs_path cwd) files)) = true ->
    par2_create md5 cwd par files p st = (Err EUsage, st).
  Proof.
    intros H. unfold rel_refused in H. unfold par2_create.
    destruct (negb (str_eqb (ext par) EXT_PAR2)); [reflexivity|].
    destruct files as [|f0 files0]; [reflexivity|].
    cbv zeta.
    destruct (existsb (is_parity_path (abs_path cwd par)) (map (abs_path cwd) (f0 :: files0))); [reflexivity|].
    rewrite H. reflexivity.
  Qed.

  (* what the refusal test leaves: the resolved input is not the index path and does not match <base>.*.par2 *)
  Lemma not_parity_path_inv par a : ext par = EXT_PAR2 -> is_parity_path par a = false ->
    a <> par /\ Par2Clean.vol_pattern (strip_ext par) a = false.
  Proof.
    intros He H. unfold is_parity_path in H. apply orb_false_iff in H. destruct H as [H1 H2].
    split; [intros ->; rewrite str_eqb_refl in H1; discriminate H1|].
    cbv zeta in H2. rewrite He in H2. exact H2.
  Qed.

  (* a successful run: every input was read at its resolved path, which is neither the index path nor a path of the
     recovery-file pattern (absolute current directory, as every process has) *)
  Theorem create_ok_inputs_outside_pattern cwd par files p st st' :
    is_abs cwd = true ->
    par2_create md5 cwd par files p st = (Ok tt, st') ->
    forall f, In f files ->
      let a := abs_path cwd f in
      let basedir := dir (abs_path cwd par) in
      join2 basedir (rel_path basedir a) = a /\
      a <> abs_path cwd par /\ Par2Clean.vol_pattern (strip_ext (abs_path cwd par)) a = false.
  Proof.
    intros Hc Hok f Hf a basedir.
    destruct (create_not_refused_inv md5 cwd par files p st) as (He & Hex).
    { rewrite Hok. discriminate. }
    assert (Hacc : rel_refused (rel_path basedir a) = false).
    { destruct (existsb rel_refused (map (rel_path basedir) (map (abs_path cwd) files))) eqn:E.
      - rewrite (create_rel_refused cwd par files p st E) in Hok. discriminate Hok.
      - destruct (rel_refused (rel_path basedir a)) eqn:Er; [|reflexivity].
        assert (Ht : existsb rel_refused (map (rel_path basedir) (map (abs_path cwd) files)) = true).
        { apply existsb_exists. exists (rel_path basedir a). split; [apply in_map, in_map, Hf|exact Er]. }
        rewrite Ht in E. discriminate E. }
    split.
    - apply join_rel_canon; [apply canon_dir, is_abs_abs_path, Hc|apply canon_abs_path, is_abs_abs_path, Hc|exact Hacc].
    - apply not_parity_path_inv.
      + rewrite (ext_abs_path cwd par (ext_par2_plain_last par He)). exact He.
      + destruct (is_parity_path (abs_path cwd par) a) eqn:Ep; [|reflexivity].
        assert (Ht : existsb (is_parity_path (abs_path cwd par)) (map (abs_path cwd) files) = true).
        { apply existsb_exists. exists a. split; [apply in_map, Hf|exact Ep]. }
        rewrite Ht in Hex. discriminate Hex.
  Qed.

  (* CLICompose.cli_create2_then_verify2_zero for an index path that filepath.Abs leaves alone (absolute, clean) and
     the absolute current directory of a process: WITHOUT the premise that no input is the index file or matches
     <base>.*.par2 - the create command would not have exited 0 *)
  Theorem cli_create2_then_verify2_zero_checked : (forall x, length (md5 x) = 16%nat) ->
    forall cwd args par files p fs st',
    is_abs cwd = true -> abs_path cwd par = par ->
    CLI.cli_run md5 cwd args (io_init fs []) = (0, st') -> CLICompose.cli_is_create2 args par files p ->
    let sz := CLICompose.create_slice p in
    let basedir := dir par in
    let rels := map (rel_path basedir) (map (abs_path cwd) files) in
    forall datas st1,
    Par2.io_reads (map (join2 basedir) rels) (io_init fs []) = (Ok datas, st1) ->
    N.of_nat sz <= MAXSLICE ->
    Forall (fun nm : bytes => Par2Clean.no_nul nm /\ N.of_nat (length nm) < 2 ^ 32) rels ->
    Forall (fun d : bytes => wf_bytes d /\ N.of_nat (length d) <= MAXINT) datas ->
    NoDup (map fi_id (map (fun nd : bytes * bytes => data_file_info md5 sz (fst nd) (snd nd)) (combine rels datas))) ->
    (forall q, In q (map fst fs) -> Par2Clean.vol_pattern (Par2.strip_ext par) q = false) ->
    forall cwd2 vargs, CLIFacts.cli_is_verify2 vargs par ->
      fst (CLI.cli_run md5 cwd2 vargs (io_init (io_fs st') [])) = 0.
  Proof.
    intros Hmd5 cwd args par files p fs st' Hc Hpar H Hcr sz basedir rels datas st1 ER Hmax Hn Hd Hnd Hfresh cwd2 vargs Hv.
    pose proof (CLICompose.cli_create2_zero_then_verify_zero md5 _ _ _ _ _ _ _ H Hcr) as Hok.
    assert (Hb : dir (abs_path cwd par) = basedir) by (unfold basedir; rewrite Hpar; reflexivity).
    apply (CLICompose.cli_create2_then_verify2_zero md5 Hmd5 cwd args par files p fs st' H Hcr datas st1);
      try assumption; try (rewrite Hb; assumption).
    intros rel Hrel. rewrite Hb in Hrel.
    apply in_map_iff in Hrel. destruct Hrel as (a & <- & Ha).
    apply in_map_iff in Ha. destruct Ha as (f & <- & Hf).
    destruct (create_ok_inputs_outside_pattern cwd par files p _ _ Hc Hok f Hf) as (Hj & Hne & Hpat).
    cbv zeta in Hj, Hne, Hpat. rewrite Hpar in Hj, Hne, Hpat. fold basedir in Hj.
    unfold file_path. fold basedir. rewrite Hj. split; assumption.
  Qed.
End CreateThenVerify.

Print Assumptions join_rel_canon.
Print Assumptions create_ok_inputs_outside_pattern.
Print Assumptions cli_create2_then_verify2_zero_checked.
Print Assumptions is_parity_path_output.
Print Assumptions accepted_inputs_not_outputs.
Print Assumptions create_parity_input_refused.
Print Assumptions create_writes_miss_inputs.
Print Assumptions create_ok_inputs_not_outputs.
Print Assumptions create_ok_input_paths_not_outputs.
Print Assumptions create_input_paths_untouched.
Print Assumptions create_own_outputs_refused.
Print Assumptions create_input_paths_untouched_relative_refuted.
Print Assumptions create_reads_resolved_inputs.
Print Assumptions create_reads_resolved_inputs_cwd.
Print Assumptions create_read_events_are_inputs.
Print Assumptions create_read_events_are_inputs_cwd.
Print Assumptions accepted_rel_below.
Print Assumptions create_reads_below_index_dir.
Print Assumptions create_reads_below_index_dir_cwd.
Print Assumptions par1_create_write_targets.
Print Assumptions par1_create_read_targets.
Print Assumptions par1_create_inputs_untouched.
Print Assumptions par1_create_input_kept.
Print Assumptions par1_create_order_matters.
Print Assumptions par1_outputs_order_matters.
Print Assumptions par1_create_run.
Print Assumptions create_reads_resolved_inputs_example.
Print Assumptions create_reads_resolved_inputs_relative_refuted.
Print Assumptions create_reads_resolved_inputs_relative_input_refuted.
