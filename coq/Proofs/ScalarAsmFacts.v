(* The instruction-level model of the scalar assembly kernels (Model/ScalarAsm.v)
   computes exactly the word-wise model of Model/Kernels.v and never leaves its
   buffers:
   - scalar_asm_is_kernel            SA1: the run ends in a state, its out buffer is kern_scalar_asm's
   - scalar_asm_value                     ... = the specification kspec
   - scalar_asm_no_fault_in_bounds   SA2: no load or store of the run is out of bounds
   - scalar_asm_input_unchanged           the table and the input buffer are not written
   - scalar_asm_empty_faults         SA3: the do-while on empty slices faults at its first load *)
From Coq Require Import Lia ZifyN ZifyNat ZifyBool.
From Gopar Require Import Model.Base Model.GF16 Model.Kernels Model.Ssse3 Model.ScalarAsm
     Proofs.GF16Facts Proofs.GF16Tables Proofs.KernelFacts.
Open Scope N_scope.
Set Default Timeout 300.
Ltac Zify.zify_post_hook ::= Z.div_mod_to_equations.

(** * buffers *)

Lemma ld16_at P x y R a : N.to_nat a = length P ->
  ld16 (P ++ x :: y :: R) a = Some (x + 256 * y).
Proof.
  intros Ha. unfold ld16, lenN. rewrite app_length. cbn [length].
  destruct (N.leb_spec (a + 2) (N.of_nat (length P + S (S (length R))))) as [_|Hlt]; [|lia].
  rewrite Ha. f_equal.
  rewrite (app_nth2 P) by lia. rewrite Nat.sub_diag.
  rewrite (app_nth2 P) by lia. replace (S (length P) - length P)%nat with 1%nat by lia.
  reflexivity.
Qed.

Lemma st16_at P x y R a w : N.to_nat a = length P -> w < 65536 ->
  st16 (P ++ x :: y :: R) a w = Some (P ++ (w mod 256) :: (w / 256) :: R).
Proof.
  intros Ha Hw. unfold st16, lenN. rewrite app_length. cbn [length].
  destruct (N.leb_spec (a + 2) (N.of_nat (length P + S (S (length R))))) as [_|Hlt]; [|lia].
  rewrite Ha. f_equal.
  rewrite firstn_app, Nat.sub_diag, firstn_all. cbn [firstn]. rewrite app_nil_r.
  rewrite skipn_app. rewrite (skipn_all2 P) by lia.
  replace (length P + 2 - length P)%nat with 2%nat by lia. cbn [skipn app].
  replace ((w / 256) mod 256) with (w / 256) by lia. reflexivity.
Qed.

(** * the table *)

Lemma nth_le_bytes : forall ws j,
  nth (2 * j) (le_bytes ws) 0 = nth j ws 0 mod 256 /\
  nth (S (2 * j)) (le_bytes ws) 0 = nth j ws 0 / 256.
Proof.
  induction ws as [|w ws IH]; intros j.
  - cbn [le_bytes]. destruct j; [split; reflexivity|].
    replace (2 * S j)%nat with (S (S (2 * j))) by lia. split; reflexivity.
  - destruct j as [|j].
    + split; reflexivity.
    + replace (2 * S j)%nat with (S (S (2 * j))) by lia. cbn [le_bytes nth]. apply IH.
Qed.

Lemma le_bytes_length ws : length (le_bytes ws) = (2 * length ws)%nat.
Proof. induction ws as [|w ws IH]; [reflexivity|]. cbn [le_bytes length]. rewrite IH. lia. Qed.

Lemma idx256_length : length idx256 = 256%nat.
Proof. reflexivity. Qed.

Lemma nth_idx256 (f : N -> N) j : (j < 256)%nat -> nth j (map f idx256) 0 = f (N.of_nat j).
Proof.
  intros Hj. unfold idx256. rewrite map_map.
  rewrite (nth_indep _ 0 (f (N.of_nat 0))) by (rewrite map_length, seq_length; exact Hj).
  rewrite (map_nth (fun x => f (N.of_nat x)) (seq 0 256) 0%nat j).
  rewrite seq_nth by exact Hj. reflexivity.
Qed.

Lemma recombine x : x mod 256 + 256 * (x / 256) = x.
Proof. lia. Qed.

Lemma table1024_length c : lenN (table1024 c) = 1024.
Proof.
  unfold lenN, table1024. rewrite app_length, !le_bytes_length, !map_length, idx256_length. reflexivity.
Qed.

Lemma tbl_s0 c j : j < 256 -> ld16 (table1024 c) (2 * j) = Some (fmul c j).
Proof.
  intros Hj. unfold ld16. rewrite table1024_length.
  destruct (N.leb_spec (2 * j + 2) 1024) as [_|?]; [|lia]. f_equal.
  replace (N.to_nat (2 * j)) with (2 * N.to_nat j)%nat by lia.
  unfold table1024.
  rewrite !app_nth1 by (rewrite le_bytes_length, map_length, idx256_length; lia).
  destruct (nth_le_bytes (map (fun j0 => fmul c j0) idx256) (N.to_nat j)) as [E1 E2].
  rewrite E1, E2, recombine, nth_idx256 by lia. rewrite N2Nat.id. reflexivity.
Qed.

Lemma tbl_s8 c j : j < 256 -> ld16 (table1024 c) (512 + 2 * j) = Some (fmul c (N.shiftl j 8)).
Proof.
  intros Hj. unfold ld16. rewrite table1024_length.
  destruct (N.leb_spec (512 + 2 * j + 2) 1024) as [_|?]; [|lia]. f_equal.
  replace (N.to_nat (512 + 2 * j)) with (512 + 2 * N.to_nat j)%nat by lia.
  unfold table1024.
  assert (L : length (le_bytes (map (fun j0 => fmul c j0) idx256)) = 512%nat)
    by (rewrite le_bytes_length, map_length, idx256_length; reflexivity).
  rewrite !app_nth2 by (rewrite L; lia). rewrite L.
  replace (512 + 2 * N.to_nat j - 512)%nat with (2 * N.to_nat j)%nat by lia.
  replace (S (512 + 2 * N.to_nat j) - 512)%nat with (S (2 * N.to_nat j)) by lia.
  destruct (nth_le_bytes (map (fun j0 => fmul c (N.shiftl j0 8)) idx256) (N.to_nat j)) as [E1 E2].
  rewrite E1, E2, recombine, nth_idx256 by lia. rewrite N2Nat.id. reflexivity.
Qed.

Lemma word_generic_tbl c lo hi : c < 65536 -> lo < 256 -> hi < 256 ->
  N.lxor (fmul c lo) (fmul c (N.shiftl hi 8)) = word_generic c lo hi.
Proof.
  intros Hc Hl Hh. unfold word_generic, mt_s0, mt_s8.
  assert (Hs : N.shiftl hi 8 < 65536) by (rewrite N.shiftl_mul_pow2; change (2 ^ 8) with 256; lia).
  rewrite !T_Times_spec by lia. reflexivity.
Qed.

(** * one iteration *)

(* the machine state inside the loop: AX = &table, BX = out, CX = count, SI = in, R8 = i *)
Definition ST (c n i : N) (r9 r10 r11 : gval) (inb ob : bytes) (fp : list gval) : sstate :=
  mkSS (mkRegs (GPtr 0 0) (GPtr 2 0) (GInt n) (GPtr 1 0) (GInt i) r9 r10 r11)
       [table1024 c; inb; ob] fp.

Lemma run_cons i p st :
  run (i :: p) st = match step i st with SOk st' => run p st' | o => o end.
Proof. reflexivity. Qed.

Ltac sred :=
  cbn [step ea getr setr setreg setm ss_r ss_m ss_fp upd nth_error
       r_ax r_bx r_cx r_si r_r8 r_r9 r_r10 r_r11].
Ltac snorm :=
  unfold setr, setm;
  cbn [setreg ss_r ss_m ss_fp upd r_ax r_bx r_cx r_si r_r8 r_r9 r_r10 r_r11].
Ltac sstep := rewrite run_cons; sred; snorm.

Lemma body_mul_run c n i r9 r10 r11 Pin lo hi Rin Pout olo ohi Rout fp :
  c < 65536 -> lo < 256 -> hi < 256 ->
  N.to_nat (2 * i) = length Pin -> N.to_nat (2 * i) = length Pout -> 2 * i + 2 < two64 ->
  exists r10' r11',
  run mulByteSliceLEUnsafe_body
      (ST c n i r9 r10 r11 (Pin ++ lo :: hi :: Rin) (Pout ++ olo :: ohi :: Rout) fp) =
  SOk (ST c n (i + 1) r9 r10' r11' (Pin ++ lo :: hi :: Rin)
          (Pout ++ fst (put_word false (word_generic c lo hi) olo ohi)
                :: snd (put_word false (word_generic c lo hi) olo ohi) :: Rout) fp).
Proof.
  intros Hc Hlo Hhi HPin HPout Hi. unfold two64 in Hi.
  unfold mulByteSliceLEUnsafe_body, ST.
  assert (A0 : (0 + 0 + 2 * i) mod two64 = 2 * i) by (unfold two64; lia).
  sstep. rewrite A0, ld16_at by exact HPin. sred; snorm.
  sstep. replace ((lo + 256 * hi) mod 256) with lo by lia.
  sstep. replace ((0 + 0 + 2 * lo) mod two64) with (2 * lo) by (unfold two64; lia).
  rewrite tbl_s0 by exact Hlo. sred; snorm.
  sstep.
  replace (lo + 256 * hi - (lo + 256 * hi) mod 65536 +
           N.shiftr ((lo + 256 * hi) mod 65536) (8 mod 32)) with hi
    by (change (8 mod 32) with 8; rewrite N.shiftr_div_pow2; change (2 ^ 8) with 256; lia).
  sstep. replace ((0 + 512 + 2 * hi) mod two64) with (512 + 2 * hi) by (unfold two64; lia).
  rewrite tbl_s8 by exact Hhi. sred; snorm.
  pose proof (fmul_lt c lo) as B0. pose proof (fmul_lt c (N.shiftl hi 8)) as B8.
  sstep. rewrite !(N.mod_small _ two32) by (unfold two32; lia).
  rewrite word_generic_tbl by assumption.
  assert (BW : word_generic c lo hi < 65536)
    by (rewrite word_generic_spec by assumption; apply fmul_lt).
  set (w := word_generic c lo hi) in *.
  sstep. rewrite A0, (N.mod_small w 65536) by exact BW.
  rewrite st16_at by assumption. sred; snorm.
  sstep. rewrite (N.mod_small (i + 1)) by (unfold two64; lia).
  do 2 eexists. unfold put_word. cbn [fst snd]. reflexivity.
Qed.

Lemma lxor_lt16 a b : a < 65536 -> b < 65536 -> N.lxor a b < 65536.
Proof.
  intros Ha Hb. destruct (N.eq_dec (N.lxor a b) 0) as [E|NE]; [rewrite E; reflexivity|].
  change 65536 with (2 ^ 16). apply N.log2_lt_pow2; [lia|].
  eapply N.le_lt_trans; [apply N.log2_lxor|].
  destruct (N.eq_dec a 0) as [Ea|Na]; destruct (N.eq_dec b 0) as [Eb|Nb]; subst;
    rewrite ?N.max_0_l, ?N.max_0_r; try (cbn; lia);
    try (apply N.log2_lt_pow2; change (2 ^ 16) with 65536; lia).
  apply N.max_lub_lt; apply N.log2_lt_pow2; change (2 ^ 16) with 65536; lia.
Qed.

Lemma body_muladd_run c n i r9 r10 r11 Pin lo hi Rin Pout olo ohi Rout fp :
  c < 65536 -> lo < 256 -> hi < 256 -> olo < 256 -> ohi < 256 ->
  N.to_nat (2 * i) = length Pin -> N.to_nat (2 * i) = length Pout -> 2 * i + 2 < two64 ->
  exists r9' r10' r11',
  run mulAndAddByteSliceLEUnsafe_body
      (ST c n i r9 r10 r11 (Pin ++ lo :: hi :: Rin) (Pout ++ olo :: ohi :: Rout) fp) =
  SOk (ST c n (i + 1) r9' r10' r11' (Pin ++ lo :: hi :: Rin)
          (Pout ++ fst (put_word true (word_generic c lo hi) olo ohi)
                :: snd (put_word true (word_generic c lo hi) olo ohi) :: Rout) fp).
Proof.
  intros Hc Hlo Hhi Holo Hohi HPin HPout Hi. unfold two64 in Hi.
  unfold mulAndAddByteSliceLEUnsafe_body, ST.
  assert (A0 : (0 + 0 + 2 * i) mod two64 = 2 * i) by (unfold two64; lia).
  sstep. rewrite A0, ld16_at by exact HPout. sred; snorm.
  sstep. rewrite A0, ld16_at by exact HPin. sred; snorm.
  sstep. replace ((lo + 256 * hi) mod 256) with lo by lia.
  sstep. replace ((0 + 0 + 2 * lo) mod two64) with (2 * lo) by (unfold two64; lia).
  rewrite tbl_s0 by exact Hlo. sred; snorm.
  sstep.
  replace (lo + 256 * hi - (lo + 256 * hi) mod 65536 +
           N.shiftr ((lo + 256 * hi) mod 65536) (8 mod 32)) with hi
    by (change (8 mod 32) with 8; rewrite N.shiftr_div_pow2; change (2 ^ 8) with 256; lia).
  sstep. replace ((0 + 512 + 2 * hi) mod two64) with (512 + 2 * hi) by (unfold two64; lia).
  rewrite tbl_s8 by exact Hhi. sred; snorm.
  pose proof (fmul_lt c lo) as B0. pose proof (fmul_lt c (N.shiftl hi 8)) as B8.
  sstep. rewrite !(N.mod_small _ two32) by (unfold two32; lia).
  rewrite word_generic_tbl by assumption.
  assert (BW : word_generic c lo hi < 65536)
    by (rewrite word_generic_spec by assumption; apply fmul_lt).
  set (w := word_generic c lo hi) in *.
  sstep. rewrite !(N.mod_small _ two32) by (unfold two32; lia).
  assert (BO : N.lxor (olo + 256 * ohi) w < 65536) by (apply lxor_lt16; [lia|exact BW]).
  sstep. rewrite A0, (N.mod_small _ 65536) by exact BO.
  rewrite st16_at by assumption. sred; snorm.
  sstep. rewrite (N.mod_small (i + 1)) by (unfold two64; lia).
  do 3 eexists. unfold put_word. cbn [fst snd]. reflexivity.
Qed.

Definition body_of (acc : bool) : list sinstr :=
  if acc then mulAndAddByteSliceLEUnsafe_body else mulByteSliceLEUnsafe_body.
Definition pre_of (acc : bool) : list sinstr :=
  if acc then mulAndAddByteSliceLEUnsafe_pre else mulByteSliceLEUnsafe_pre.

Lemma body_run c acc n i r9 r10 r11 Pin lo hi Rin Pout olo ohi Rout fp :
  c < 65536 -> lo < 256 -> hi < 256 -> olo < 256 -> ohi < 256 ->
  N.to_nat (2 * i) = length Pin -> N.to_nat (2 * i) = length Pout -> 2 * i + 2 < two64 ->
  exists r9' r10' r11',
  run (body_of acc)
      (ST c n i r9 r10 r11 (Pin ++ lo :: hi :: Rin) (Pout ++ olo :: ohi :: Rout) fp) =
  SOk (ST c n (i + 1) r9' r10' r11' (Pin ++ lo :: hi :: Rin)
          (Pout ++ fst (put_word acc (word_generic c lo hi) olo ohi)
                :: snd (put_word acc (word_generic c lo hi) olo ohi) :: Rout) fp).
Proof.
  intros Hc Hlo Hhi Holo Hohi HPin HPout Hi. destruct acc; unfold body_of.
  - apply body_muladd_run; assumption.
  - destruct (body_mul_run c n i r9 r10 r11 Pin lo hi Rin Pout olo ohi Rout fp) as (r10' & r11' & E);
      try assumption.
    exists r9, r10', r11'. exact E.
Qed.

(** * the loop *)

Lemma slt64_small a b : a < two63 -> b < two63 -> slt64 a b = (a <? b).
Proof.
  intros Ha Hb. unfold slt64, signed64.
  rewrite !N.mod_small by (unfold two63, two64 in *; lia).
  destruct (N.ltb_spec a two63) as [_|?]; [|lia].
  destruct (N.ltb_spec b two63) as [_|?]; [|lia].
  destruct (N.ltb_spec a b); destruct (Z.ltb_spec (Z.of_N a) (Z.of_N b)); try reflexivity; lia.
Qed.

Lemma loop_run c acc n fp : c < 65536 -> n < two63 ->
  forall k i Pin Rin Pout Rout r9 r10 r11 fuel,
  (1 <= k)%nat -> i + N.of_nat k = n ->
  N.to_nat (2 * i) = length Pin -> N.to_nat (2 * i) = length Pout ->
  length Rin = (2 * k)%nat -> length Rout = (2 * k)%nat ->
  wf_bytes Rin -> wf_bytes Rout -> (k <= fuel)%nat ->
  exists r9' r10' r11',
  run_dowhile fuel (body_of acc) (ST c n i r9 r10 r11 (Pin ++ Rin) (Pout ++ Rout) fp) =
  SOk (ST c n n r9' r10' r11' (Pin ++ Rin)
          (Pout ++ word_loop (word_generic c) acc k Rin Rout) fp).
Proof.
  intros Hc Hn. induction k as [|k IH]; intros i Pin Rin Pout Rout r9 r10 r11 fuel Hk Hik HPin HPout HRin HRout WRin WRout Hf.
  { lia. }
  destruct Rin as [|lo [|hi Rin]]; try (cbn in HRin; lia).
  destruct Rout as [|olo [|ohi Rout]]; try (cbn in HRout; lia).
  destruct fuel as [|fuel]; [lia|].
  inversion WRin as [|? ? Wlo WRin1]; subst. inversion WRin1 as [|? ? Whi WRin2]; subst.
  inversion WRout as [|? ? Wolo WRout1]; subst. inversion WRout1 as [|? ? Wohi WRout2]; subst.
  unfold wf_byte in *.
  assert (Hi2 : 2 * i + 2 < two64) by (unfold two63, two64 in *; lia).
  destruct (body_run c acc (i + N.of_nat (S k)) i r9 r10 r11 Pin lo hi Rin Pout olo ohi Rout fp)
    as (r9' & r10' & r11' & E); try assumption.
  cbn [run_dowhile]. rewrite E. unfold ST at 1 2.
  cbn [getr ss_r r_r8 r_cx].
  rewrite slt64_small by (unfold two63 in *; lia).
  cbn [word_loop].
  destruct (put_word acc (word_generic c lo hi) olo ohi) as [a b] eqn:EP. cbn [fst snd].
  destruct (N.ltb_spec (i + 1) (i + N.of_nat (S k))) as [Hlt|Hge].
  - fold (ST c (i + N.of_nat (S k)) (i + 1) r9' r10' r11' (Pin ++ lo :: hi :: Rin) (Pout ++ a :: b :: Rout) fp).
    destruct (IH (i + 1) (Pin ++ [lo; hi]) Rin (Pout ++ [a; b]) Rout r9' r10' r11' fuel)
      as (s9 & s10 & s11 & E2); try assumption; try lia.
    + rewrite app_length. cbn [length]. lia.
    + rewrite app_length. cbn [length]. lia.
    + cbn [length] in HRin. lia.
    + cbn [length] in HRout. lia.
    + rewrite <- !app_assoc in E2. cbn [app] in E2.
      replace (i + 1 + N.of_nat k) with (i + N.of_nat (S k)) in E2 by lia.
      exists s9, s10, s11. exact E2.
  - assert (k = 0%nat) by lia. subst k. cbn [word_loop].
    replace (i + N.of_nat 1) with (i + 1) by lia.
    exists r9', r10', r11'. reflexivity.
Qed.

(** * the routines *)

Definition frame (inb outb : bytes) : list gval :=
  [GPtr 0 0; GPtr 1 0; GInt (lenN inb); GInt (lenN inb); GPtr 2 0; GInt (lenN outb); GInt (lenN outb)].

Lemma pre_run c acc inb outb :
  run (pre_of acc) (sinit (frame inb outb) [table1024 c; inb; outb]) =
  SOk (ST c (N.shiftr (lenN inb) 1) 0 (GInt 0) (GInt 0) (GInt 0) inb outb (frame inb outb)).
Proof. destruct acc; reflexivity. Qed.

Lemma scalar_asm_run_unfold c acc inb outb :
  scalar_asm_run c acc inb outb =
  match run (pre_of acc) (sinit (frame inb outb) [table1024 c; inb; outb]) with
  | SOk st1 => run_dowhile (S (N.to_nat (lenN inb / 2))) (body_of acc) st1
  | o => o
  end.
Proof. destruct acc; reflexivity. Qed.

(* the whole run: the final state, register by register and buffer by buffer *)
Theorem scalar_asm_run_spec c acc inb outb :
  c < 65536 -> wf_bytes inb -> wf_bytes outb -> length inb = length outb ->
  Nat.even (length inb) = true -> (2 <= length inb)%nat -> lenN inb < two63 ->
  exists r9 r10 r11,
    scalar_asm_run c acc inb outb =
    SOk (ST c (lenN inb / 2) (lenN inb / 2) r9 r10 r11 inb
            (word_loop (word_generic c) acc (length inb / 2) inb outb) (frame inb outb)).
Proof.
  intros Hc Wi Wo Hl He H2 H63.
  apply Nat.even_spec in He. destruct He as [k Hk].
  rewrite scalar_asm_run_unfold, pre_run.
  rewrite N.shiftr_div_pow2. change (2 ^ 1) with 2.
  assert (En : lenN inb / 2 = N.of_nat k) by (unfold lenN; lia).
  assert (Ek : (length inb / 2)%nat = k) by lia.
  rewrite En, Ek.
  destruct (loop_run c acc (N.of_nat k) (frame inb outb) Hc) with
    (k := k) (i := 0) (Pin := @nil N) (Rin := inb) (Pout := @nil N) (Rout := outb)
    (r9 := GInt 0) (r10 := GInt 0) (r11 := GInt 0) (fuel := S (N.to_nat (N.of_nat k)))
    as (r9 & r10 & r11 & E); try assumption; try reflexivity; try lia.
  cbn [app] in E. exists r9, r10, r11. exact E.
Qed.

(* SA1: the run of the transcribed instructions ends in a state (no fault) and its
   out buffer is the value the word-level model kern_scalar_asm assigns *)
Theorem scalar_asm_is_kernel c acc inb outb :
  c < 65536 -> wf_bytes inb -> wf_bytes outb -> length inb = length outb ->
  Nat.even (length inb) = true -> (2 <= length inb)%nat -> lenN inb < two63 ->
  exists o, scalar_asm c acc inb outb = Some o /\ kern_scalar_asm c acc inb outb = Ok o.
Proof.
  intros Hc Wi Wo Hl He H2 H63.
  destruct (scalar_asm_run_spec c acc inb outb) as (r9 & r10 & r11 & E); try assumption.
  exists (kspec acc c inb outb). split.
  - unfold scalar_asm. rewrite E. unfold ST. cbn [ss_m nth]. f_equal.
    apply Nat.even_spec in He. destruct He as [k Hk].
    replace (length inb / 2)%nat with k by lia.
    apply (full_loop c acc Hc); [exact (fun lo hi => word_generic_spec c lo hi Hc)|lia|lia|exact Wi].
  - apply scalar_ok; assumption.
Qed.

Theorem scalar_asm_value c acc inb outb :
  c < 65536 -> wf_bytes inb -> wf_bytes outb -> length inb = length outb ->
  Nat.even (length inb) = true -> (2 <= length inb)%nat -> lenN inb < two63 ->
  scalar_asm c acc inb outb = Some (kspec acc c inb outb).
Proof.
  intros Hc Wi Wo Hl He H2 H63.
  destruct (scalar_asm_is_kernel c acc inb outb) as (o & E1 & E2); try assumption.
  rewrite E1. f_equal.
  pose proof (kernel_value ScalarAsm acc c inb outb Hc Wi Hl He (fun _ => H2)) as K.
  cbn [kernel] in K. rewrite K in E2. injection E2 as E2. symmetry. exact E2.
Qed.

(* SA2: under the same premises no load and no store of the whole execution is out
   of bounds (the machine checks every one of them and would end in SFault), and
   the loop terminates within its fuel *)
Theorem scalar_asm_no_fault_in_bounds c acc inb outb :
  c < 65536 -> wf_bytes inb -> wf_bytes outb -> length inb = length outb ->
  Nat.even (length inb) = true -> (2 <= length inb)%nat -> lenN inb < two63 ->
  exists st, scalar_asm_run c acc inb outb = SOk st.
Proof.
  intros Hc Wi Wo Hl He H2 H63.
  destruct (scalar_asm_run_spec c acc inb outb) as (r9 & r10 & r11 & E); try assumption.
  eexists. exact E.
Qed.

(* the table entry and the input buffer of the final state are those of the call *)
Theorem scalar_asm_input_unchanged c acc inb outb :
  c < 65536 -> wf_bytes inb -> wf_bytes outb -> length inb = length outb ->
  Nat.even (length inb) = true -> (2 <= length inb)%nat -> lenN inb < two63 ->
  exists st, scalar_asm_run c acc inb outb = SOk st /\
             nth 0 (ss_m st) [] = table1024 c /\ nth 1 (ss_m st) [] = inb /\
             length (ss_m st) = 3%nat /\
             scalar_asm c acc inb outb = Some (nth 2 (ss_m st) []).
Proof.
  intros Hc Wi Wo Hl He H2 H63.
  destruct (scalar_asm_run_spec c acc inb outb) as (r9 & r10 & r11 & E); try assumption.
  eexists. split; [exact E|]. unfold scalar_asm. rewrite E. repeat split.
Qed.

(* SA3: the loop is a do-while: on empty slices the body runs once and its first
   load (of in[0], resp. out[0]) is out of bounds.  The dispatcher never calls the
   routines with an empty slice (Model/Kernels.v kern_dispatch). *)
Theorem scalar_asm_run_empty_faults c acc : scalar_asm_run c acc [] [] = SFault.
Proof. destruct acc; reflexivity. Qed.

Theorem scalar_asm_empty_faults c acc : scalar_asm c acc [] [] = None.
Proof. unfold scalar_asm. rewrite scalar_asm_run_empty_faults. reflexivity. Qed.

(* the word-level model agrees: it reports the overrun as an index panic *)
Theorem kern_scalar_asm_empty_panics c acc : kern_scalar_asm c acc [] [] = Panic PIndex.
Proof. reflexivity. Qed.

(** * SA4 (for the record): a count larger than the number of words overruns *)

Lemma ld16_end P a : N.to_nat a = length P -> ld16 P a = None.
Proof.
  intros Ha. unfold ld16, lenN.
  destruct (N.leb_spec (a + 2) (N.of_nat (length P))) as [?|_]; [lia|reflexivity].
Qed.

(* R8 already at the end of both buffers: the first load of the body faults *)
Lemma body_fault c acc n i r9 r10 r11 inb ob fp :
  N.to_nat (2 * i) = length inb -> N.to_nat (2 * i) = length ob -> 2 * i + 2 < two64 ->
  run (body_of acc) (ST c n i r9 r10 r11 inb ob fp) = SFault.
Proof.
  intros Hi Ho H64.
  assert (A0 : (0 + 0 + 2 * i) mod two64 = 2 * i) by (unfold two64 in *; lia).
  destruct acc; unfold body_of, mulAndAddByteSliceLEUnsafe_body, mulByteSliceLEUnsafe_body, ST;
    rewrite run_cons; sred; rewrite A0, ld16_end by assumption; reflexivity.
Qed.

Lemma dowhile_step fuel body st st' a b :
  run body st = SOk st' -> getr st' SR8 = GInt a -> getr st' SCX = GInt b ->
  run_dowhile (S fuel) body st = if slt64 a b then run_dowhile fuel body st' else SOk st'.
Proof. intros E Ha Hb. cbn [run_dowhile]. rewrite E, Ha, Hb. reflexivity. Qed.

Lemma loop_overrun c acc n fp : c < 65536 -> n < two63 ->
  forall k i Pin Rin Pout Rout r9 r10 r11 fuel,
  i + N.of_nat k < n ->
  N.to_nat (2 * i) = length Pin -> N.to_nat (2 * i) = length Pout ->
  length Rin = (2 * k)%nat -> length Rout = (2 * k)%nat ->
  wf_bytes Rin -> wf_bytes Rout -> (k < fuel)%nat ->
  run_dowhile fuel (body_of acc) (ST c n i r9 r10 r11 (Pin ++ Rin) (Pout ++ Rout) fp) = SFault.
Proof.
  intros Hc Hn. induction k as [|k IH]; intros i Pin Rin Pout Rout r9 r10 r11 fuel Hik HPin HPout HRin HRout WRin WRout Hf;
    (destruct fuel as [|fuel]; [lia|]);
    assert (Hi2 : 2 * i + 2 < two64) by (unfold two63, two64 in *; lia).
  { destruct Rin; [|discriminate]. destruct Rout; [|discriminate].
    cbn [run_dowhile]. rewrite body_fault; [reflexivity| | |exact Hi2]; rewrite app_nil_r; assumption. }
  destruct Rin as [|lo [|hi Rin]]; try (cbn in HRin; lia).
  destruct Rout as [|olo [|ohi Rout]]; try (cbn in HRout; lia).
  inversion WRin as [|? ? Wlo WRin1]; subst. inversion WRin1 as [|? ? Whi WRin2]; subst.
  inversion WRout as [|? ? Wolo WRout1]; subst. inversion WRout1 as [|? ? Wohi WRout2]; subst.
  unfold wf_byte in *.
  destruct (body_run c acc n i r9 r10 r11 Pin lo hi Rin Pout olo ohi Rout fp)
    as (r9' & r10' & r11' & E); try assumption.
  rewrite (dowhile_step _ _ _ _ (i + 1) n E) by reflexivity.
  rewrite slt64_small by (unfold two63 in *; lia).
  destruct (put_word acc (word_generic c lo hi) olo ohi) as [a b] eqn:EP. cbn [fst snd].
  destruct (N.ltb_spec (i + 1) n) as [Hlt|Hge]; [|lia].
  fold (ST c n (i + 1) r9' r10' r11' (Pin ++ lo :: hi :: Rin) (Pout ++ a :: b :: Rout) fp).
  specialize (IH (i + 1) (Pin ++ [lo; hi]) Rin (Pout ++ [a; b]) Rout r9' r10' r11' fuel).
  rewrite <- !app_assoc in IH. cbn [app] in IH. apply IH; try assumption; try lia.
  - rewrite app_length. cbn [length]. lia.
  - rewrite app_length. cbn [length]. lia.
  - cbn [length] in HRin. lia.
  - cbn [length] in HRout. lia.
Qed.

(* the routines of the pinned commit computed the count with SHRW $1, CX, a shift
   of the low 16 bits only; everything else is the same *)
Definition legacy_pre : list sinstr :=
  [ SMOVQ_fp 0 SAX; SMOVQ_fp 16 SCX; SSHRW 1 SCX; SMOVQ_fp 32 SBX; SMOVQ_fp 8 SSI; SMOVQ_imm 0 SR8 ].

Definition scalar_asm_legacy_run (fuel : nat) (c : N) (acc : bool) (inb outb : bytes) : soutcome :=
  match run legacy_pre (sinit (frame inb outb) [table1024 c; inb; outb]) with
  | SOk st1 => run_dowhile fuel (body_of acc) st1
  | o => o
  end.

(* what SHRW $1 leaves in CX is the count expression of Model/Kernels.v *)
Lemma sshrw_count len :
  len - len mod 65536 + N.shiftr (len mod 65536) (1 mod 32) = asm_count_legacy len.
Proof.
  unfold asm_count_legacy. change (1 mod 32) with 1. change 0xFFFF with (N.ones 16).
  rewrite N.land_ones, N.ldiff_ones_r. change (2 ^ 16) with 65536.
  set (y := N.shiftr (len mod 65536) 1).
  assert (D : N.land (N.shiftl (N.shiftr len 16) 16) y = 0).
  { apply N.bits_inj. intros m. rewrite N.land_spec, N.bits_0.
    destruct (N.lt_ge_cases m 16) as [Hm|Hm].
    - rewrite N.shiftl_spec_low by exact Hm. reflexivity.
    - unfold y. rewrite N.shiftr_spec by lia. change 65536 with (2 ^ 16).
      rewrite N.mod_pow2_bits_high by lia. apply andb_false_r. }
  rewrite <- (N.lxor_lor _ _ D), <- (N.add_nocarry_lxor _ _ D).
  rewrite N.shiftl_mul_pow2, N.shiftr_div_pow2. change (2 ^ 16) with 65536. lia.
Qed.

Lemma legacy_pre_run c inb outb :
  run legacy_pre (sinit (frame inb outb) [table1024 c; inb; outb]) =
  SOk (ST c (asm_count_legacy (lenN inb)) 0 (GInt 0) (GInt 0) (GInt 0) inb outb (frame inb outb)).
Proof. rewrite <- sshrw_count. reflexivity. Qed.

(* whenever that count exceeds the number of words (e.g. len = 65536: count 65536
   for 32768 words) the run leaves the buffers, however much fuel it is given *)
Theorem scalar_asm_legacy_overruns c acc inb outb fuel :
  c < 65536 -> wf_bytes inb -> wf_bytes outb -> length inb = length outb ->
  Nat.even (length inb) = true -> lenN inb / 2 < asm_count_legacy (lenN inb) ->
  asm_count_legacy (lenN inb) < two63 -> (length inb / 2 < fuel)%nat ->
  scalar_asm_legacy_run fuel c acc inb outb = SFault.
Proof.
  intros Hc Wi Wo Hl He Hcnt H63 Hf.
  apply Nat.even_spec in He. destruct He as [k Hk].
  unfold scalar_asm_legacy_run. rewrite legacy_pre_run.
  apply (loop_overrun c acc _ (frame inb outb) Hc H63 k 0 [] inb [] outb); try assumption; try reflexivity;
    unfold lenN in *; lia.
Qed.

Example legacy_count_65536 : asm_count_legacy 65536 = 65536 /\ 65536 / 2 < asm_count_legacy 65536.
Proof. vm_compute. split; reflexivity. Qed.

(** * examples: three words through both routines *)

Example scalar_asm_example_mul :
  scalar_asm 0x1234 false (le_bytes [0xFEDC; 7; 0xFFFF]) (le_bytes [1; 2; 3]) =
    Some (le_bytes [fmul 0x1234 0xFEDC; fmul 0x1234 7; fmul 0x1234 0xFFFF]).
Proof. vm_compute. reflexivity. Qed.

Example scalar_asm_example_muladd :
  scalar_asm 0x1234 true (le_bytes [0xFEDC; 7; 0xFFFF]) (le_bytes [1; 2; 0xABCD]) =
    Some (le_bytes [N.lxor 1 (fmul 0x1234 0xFEDC); N.lxor 2 (fmul 0x1234 7);
                    N.lxor 0xABCD (fmul 0x1234 0xFFFF)]).
Proof. vm_compute. reflexivity. Qed.

Print Assumptions scalar_asm_is_kernel.
Print Assumptions scalar_asm_value.
Print Assumptions scalar_asm_no_fault_in_bounds.
Print Assumptions scalar_asm_input_unchanged.
Print Assumptions scalar_asm_empty_faults.
Print Assumptions scalar_asm_legacy_overruns.
