(* C03 / C13 / C16: slices counted usable are genuine AT THE CONTENT LEVEL.
   C13_usable_slices_genuine says that a slot counted usable carries data with the registered (MD5, CRC-32)
   pair; C16_sound says that a hit of the scan carries the bytes of a window of the scanned data.  Here the
   second is lifted through the loader (load_files / credit / load_all):

     usable_slices_are_windows   in EVERY state and under EVERY fault schedule in which the loader succeeds, the
                                 bytes stored in a filled slot are the zero-padded window, at a position inside
                                 the file, of a recovery-set file that IS in the file system - namely of the
                                 file and offset recorded as the FIRST place the slice was seen at;
   no premise on the content (not even byte values), on the file ids, or on the slice size: the scan that
   rolls the checksum stores take_pad S data[j:] whatever its checksum arithmetic does. *)
From Coq Require Import Lia.
From Gopar Require Import Model.Base Model.CRC Model.GoPath Model.FS Model.Par2
     Proofs.CRCFacts Proofs.ScanFacts Proofs.Par2Facts Proofs.Par2Verify Proofs.Par2Clean Proofs.HistoryFacts2.
Open Scope nat_scope.
Set Default Timeout 120.

(** * the invariant on a shard table: every filled slot satisfies Q *)
Definition DSs (Q : sinfo -> Prop) (sh : shtab) : Prop :=
  forall i k s, get2 sh i k = Some s -> Q s.

Definition optQ (Q : sinfo -> Prop) (so : option sinfo) : Prop :=
  match so with Some s => Q s | None => True end.

Lemma DSs_upd2 (Q : sinfo -> Prop) g i' k' sh :
  (forall so, optQ Q so -> optQ Q (g so)) -> DSs Q sh -> DSs Q (upd2 i' k' g sh).
Proof.
  intros Hg HD i k s Hs.
  destruct (get2_upd2_cases i' k' g sh i k) as [E|E]; rewrite E in Hs.
  - exact (HD i k s Hs).
  - assert (H0 : optQ Q (get2 sh i k)).
    { destruct (get2 sh i k) as [s0|] eqn:E0; [exact (HD i k s0 E0)|exact I]. }
    apply Hg in H0. rewrite Hs in H0. exact H0.
Qed.

Lemma DSs_credit (Q : sinfo -> Prop) cur h :
  (forall so, optQ Q so -> optQ Q (cf cur h so)) -> forall sh, DSs Q sh -> DSs Q (credit_sh cur h sh).
Proof.
  intros Hg. unfold credit_sh. generalize (h_locs h). intros locs.
  induction locs as [|loc locs IH]; intros sh HD; cbn [fold_left]; [exact HD|].
  apply IH. apply DSs_upd2; assumption.
Qed.

Lemma DSs_credits (Q : sinfo -> Prop) cur : forall hits,
  Forall (fun h => forall so, optQ Q so -> optQ Q (cf cur h so)) hits ->
  forall sh, DSs Q sh -> DSs Q (fold_left (fun sh h => credit_sh cur h sh) hits sh).
Proof.
  induction hits as [|h hits IH]; intros Hh sh HD; cbn [fold_left]; [exact HD|].
  inversion Hh as [|? ? H1 H2]; subst. apply IH; [exact H2|]. apply DSs_credit; assumption.
Qed.

Section SlicesLifted.
  Variable md5 : bytes -> bytes.

  (** * soundness of the scan THAT RUNS (rolling checksum), at the content level, for every input *)
  Lemma scan_go_windows data S w t : forall fuel j prev rest jm crc,
    rest = skipn j data ->
    forall h, In h (fst (scan_go md5 fuel S w t j prev rest jm crc)) ->
      h_pos h < length data /\ h_data h = window_at S data (h_pos h).
  Proof.
    induction fuel as [|fuel IH]; intros j prev rest jm crc Hrest h; cbn [scan_go]; [intros []|].
    destruct rest as [|b rest1]; [intros []|].
    assert (Hj : j < length data).
    { destruct (Nat.lt_ge_cases j (length data)) as [Hlt|Hge]; [exact Hlt|].
      rewrite (skipn_all2 data Hge) in Hrest. discriminate Hrest. }
    match goal with |- context [cs_get md5 t ?c ?s] => destruct (cs_get md5 t c s) as [|l0 ls] end.
    - match goal with |- context [scan_go md5 fuel ?a1 ?a2 ?a3 ?a4 ?a5 ?a6 ?a7 ?a8] =>
        pose proof (IH a4 a5 a6 a7 a8) as IH1;
        destruct (scan_go md5 fuel a1 a2 a3 a4 a5 a6 a7 a8) as [hs misses] end.
      cbn [fst] in *. apply IH1.
      replace (Datatypes.S j) with (j + 1) by lia. rewrite <- skipn_skipn_add, <- Hrest. reflexivity.
    - match goal with |- context [scan_go md5 fuel ?a1 ?a2 ?a3 ?a4 ?a5 ?a6 ?a7 ?a8] =>
        pose proof (IH a4 a5 a6 a7 a8) as IH1;
        destruct (scan_go md5 fuel a1 a2 a3 a4 a5 a6 a7 a8) as [hs misses] end.
      cbn [fst] in *. intros [<-|Hin].
      + cbn [h_pos h_data]. split; [exact Hj|]. unfold window_at. rewrite <- Hrest. reflexivity.
      + apply IH1; [|exact Hin]. rewrite <- skipn_skipn_add, <- Hrest. reflexivity.
  Qed.

  Theorem scan_windows : forall S w t data h, In h (fst (scan md5 S w t data)) ->
    h_pos h < length data /\ h_data h = window_at S data (h_pos h).
  Proof. intros S w t data h. unfold scan. apply scan_go_windows. reflexivity. Qed.

  (** * lifted through the loader *)

  (* the slot's data is the zero-padded window, at an offset inside the file, of the recovery-set file that is
     recorded as the first place the slice was seen at - and that file is in the file map *)
  Definition slot_is_window (ix : list N) (fs : list (list N * bytes)) (recs : list dinfo) (S : nat) (s : sinfo) : Prop :=
    exists c p info data,
      hd_error (si_locs s) = Some (c, p) /\ nth_error recs c = Some info /\
      fs_lookup fs (file_path ix (di_name info)) = Some data /\
      p < length data /\ si_data s = window_at S data p.

  Lemma slot_is_window_cf ix fs recs S cur h info data :
    nth_error recs cur = Some info -> fs_lookup fs (file_path ix (di_name info)) = Some data ->
    h_pos h < length data -> h_data h = window_at S data (h_pos h) ->
    forall so, optQ (slot_is_window ix fs recs S) so -> optQ (slot_is_window ix fs recs S) (cf cur h so).
  Proof.
    intros Hn Hl Hp Hd [s|] H; cbn [cf optQ] in *.
    - destruct H as (c & p & info' & data' & H1 & H2 & H3 & H4 & H5).
      exists c, p, info', data'. cbn [si_locs si_data].
      split; [|split; [exact H2|split; [exact H3|split; [exact H4|exact H5]]]].
      destruct (si_locs s) as [|l0 ls]; [discriminate H1|exact H1].
    - exists cur, (h_pos h), info, data. cbn [si_locs si_data hd_error].
      split; [reflexivity|]. split; [exact Hn|]. split; [exact Hl|]. split; [exact Hp|exact Hd].
  Qed.

  Lemma load_files_windows d w t fs : forall todo fis st fis' st',
    io_fs st = fs ->
    (forall i info, In (i, info) todo -> nth_error (d_rec d) i = Some info) ->
    DSs (slot_is_window (d_index d) fs (d_rec d) (N.to_nat (d_slice d))) (shs fis) ->
    load_files md5 d w t todo fis st = (Ok fis', st') ->
    DSs (slot_is_window (d_index d) fs (d_rec d) (N.to_nat (d_slice d))) (shs fis').
  Proof.
    induction todo as [|[i info] r IH]; intros fis st fis' st' Hfs Htodo HD H; cbn [load_files] in H.
    - injection H as <- _. exact HD.
    - pose proof (io_read_fs (file_path (d_index d) (di_name info)) st) as Pf.
      assert (Hr : forall i' info', In (i', info') r -> nth_error (d_rec d) i' = Some info').
      { intros i' info' Hin. apply Htodo. right. exact Hin. }
      destruct (io_read (file_path (d_index d) (di_name info)) st) as [[data|e|q] st1] eqn:ER; cbn [snd] in Pf.
      + apply io_read_ok_any in ER. rewrite Hfs in ER.
        eapply IH; [rewrite Pf; exact Hfs|exact Hr| |exact H].
        rewrite shs_set_flags, shs_credits.
        apply DSs_credits; [|exact HD].
        apply Forall_forall. intros h Hh.
        destruct (scan_windows _ _ _ _ _ Hh) as (Hp & Hdat).
        apply (slot_is_window_cf (d_index d) fs (d_rec d) (N.to_nat (d_slice d)) i h info data);
          [apply Htodo; left; reflexivity|exact ER|exact Hp|exact Hdat].
      + destruct e; try discriminate H.
        eapply IH; [rewrite Pf; exact Hfs|exact Hr| |exact H].
        rewrite shs_set_flags. exact HD.
      + discriminate H.
  Qed.

  Lemma combine_seq_nth_error {A} : forall (l : list A) a i x,
    In (i, x) (combine (seq a (length l)) l) -> a <= i /\ nth_error l (i - a) = Some x.
  Proof.
    induction l as [|y l IH]; intros a i x Hin; cbn [length seq combine] in Hin; [destruct Hin|].
    destruct Hin as [Heq|Hin].
    - injection Heq as <- <-. split; [lia|]. rewrite Nat.sub_diag. reflexivity.
    - destruct (IH _ _ _ Hin) as [Hle Hn]. split; [lia|].
      replace (i - a) with (Datatypes.S (i - Datatypes.S a)) by lia. exact Hn.
  Qed.

  (** THE LIFT.  For every file map AND every fault schedule: when the loader succeeds, a filled slot (i, k) of
      the shard table holds exactly the zero-padded window, at an offset p inside the file, of a file of the
      recovery set that is present in the file map - the file (index c) and offset recorded first in si_locs *)
  Theorem usable_slices_are_windows_loc : forall ix fs sched ds st1,
    load_all md5 ix (io_init fs sched) = (Ok ds, st1) ->
    forall i k s, nth k (fi_shards (nth i (ds_fis ds) dfi)) None = Some s ->
    exists c p info data,
      hd_error (si_locs s) = Some (c, p) /\ nth_error (d_rec (ds_dec ds)) c = Some info /\
      fs_lookup fs (file_path ix (di_name info)) = Some data /\
      p < length data /\ si_data s = window_at (N.to_nat (d_slice (ds_dec ds))) data p.
  Proof.
    intros ix fs sched ds st1 HL i k s Hs.
    destruct (load_all_inv md5 _ _ _ _ HL) as (d & s1 & w & fis & s2 & acc & Hnew & Hw & Hlf & ->).
    cbn [ds_dec ds_fis] in *.
    destruct (new_decoder_ok md5 _ _ _ _ Hnew) as [Hdix _].
    pose proof (new_decoder_pres md5 ix (io_init fs sched)) as P. rewrite Hnew in P. cbn [snd] in P.
    destruct P as (Pf & _). cbn [io_init io_fs] in Pf.
    assert (HD : DSs (slot_is_window (d_index d) fs (d_rec d) (N.to_nat (d_slice d))) (shs fis)).
    { apply (load_files_windows d w (make_cstable (d_rec d)) fs (combine (seq 0 (length (d_rec d))) (d_rec d))
               (fis0 d) s1 fis s2 Pf); [| |exact Hlf].
      - intros i' info Hin. destruct (combine_seq_nth_error _ _ _ _ Hin) as [_ Hn].
        rewrite Nat.sub_0_r in Hn. exact Hn.
      - intros i' k' s0 Hs0. rewrite (Par2RepairComplete.fis0_none d i' k') in Hs0. discriminate Hs0. }
    assert (Hget : get2 (shs fis) i k = Some s) by (rewrite get2_shs; exact Hs).
    specialize (HD i k s Hget). rewrite Hdix in HD. exact HD.
  Qed.

  (* the statement of the task *)
  Corollary usable_slices_are_windows : forall ix fs ds st1,
    load_all md5 ix (io_init fs []) = (Ok ds, st1) ->
    forall i j s, nth j (fi_shards (nth i (ds_fis ds) dfi)) None = Some s ->
    exists info data p, In info (d_rec (ds_dec ds)) /\
      fs_lookup fs (file_path ix (di_name info)) = Some data /\
      si_data s = window_at (N.to_nat (d_slice (ds_dec ds))) data p.
  Proof.
    intros ix fs ds st1 HL i j s Hs.
    destruct (usable_slices_are_windows_loc ix fs [] ds st1 HL i j s Hs) as (c & p & info & data & _ & Hn & Hl & _ & Hd).
    exists info, data, p. split; [apply (nth_error_In _ _ Hn)|]. split; [exact Hl|exact Hd].
  Qed.
End SlicesLifted.

(** * Example (Par2Counts.CNExample): the set {a = 1 2 3 4 5, b = 6 7 8 9} with a deleted and b overwritten by
      9 9 1 2 3 4 7: the first slice of a (slot (1, 0)) is counted usable, and it IS the window of /w/b at offset 2 *)
From Coq Require Import String.
From Coq Require Import List.
From Gopar Require Import Proofs.Par2Counts Proofs.Par2CreatePaths.
Import ListNotations.
Open Scope string_scope.
Open Scope nat_scope.
Module SLExample.
  Import CNExample.

  Example slot_by_theorem : forall s, nth 0 (fi_shards (nth 1 (ds_fis loaded) dfi)) None = Some s ->
    exists c p info data,
      hd_error (si_locs s) = Some (c, p) /\ nth_error (d_rec (ds_dec loaded)) c = Some info /\
      fs_lookup fs2 (file_path ix (di_name info)) = Some data /\
      p < length data /\ si_data s = window_at (N.to_nat (d_slice (ds_dec loaded))) data p.
  Proof. intros s. exact (usable_slices_are_windows_loc toy_md5 ix fs2 [] loaded _ loaded_eq 1 0 s). Qed.

  (* the hypothesis holds, and the witnesses are: file 0 (b), offset 2 *)
  Example slot_computed :
    nth 0 (fi_shards (nth 1 (ds_fis loaded) dfi)) None = Some {| si_data := [1; 2; 3; 4]%N; si_locs := [(0, 2)] |} /\
    option_map di_name (nth_error (d_rec (ds_dec loaded)) 0) = Some (bs "b") /\
    fs_lookup fs2 (file_path ix (bs "b")) = Some data_b /\
    window_at (N.to_nat (d_slice (ds_dec loaded))) data_b 2 = [1; 2; 3; 4]%N.
  Proof. vm_compute. repeat split; reflexivity. Qed.
End SLExample.

Print Assumptions scan_windows.
Print Assumptions SLExample.slot_by_theorem.
Print Assumptions SLExample.slot_computed.
Print Assumptions usable_slices_are_windows_loc.
Print Assumptions usable_slices_are_windows.
