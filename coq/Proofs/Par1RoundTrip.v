(* PAR1 round trip on the model (Model/Par1.v over Model/FS.v), fault-free runs:
   RT1. par1_create_then_verify_clean: Verify (with and without the full parity check) on the
        directory Create wrote succeeds, counts no unusable file and no unusable volume, finds
        min nv 99 volumes (the loader probes .p01 .. .p99 only), and the parity check says ok;
   RT2. par1_create_lose_repair_ok: after Create, with any set of at most min nv 99 input files
        lost (every volume kept), Repair returns Ok, reports exactly the lost files, and every
        input file is back with its original BYTES.  No singular case: with the first volumes all
        present the decoder solves a Vandermonde system on distinct points (vdm_kernel,
        par1_reconstruct_parity_kept).  par1_create_lose_repair is the weaker form that keeps
        Err ESingular as an alternative. *)
From Coq Require Import Lia.
From Coq Require Import ZifyN ZifyNat ZifyBool.
From Gopar Require Import Model.Base Model.Matrix Model.RS16 Model.GF8 Model.CRC Model.GoPath Model.FS Model.Par1
     Proofs.LinAlg Proofs.LinAlgSingular Proofs.RS16Facts
     Proofs.GoPathFacts Proofs.Par2Create Proofs.Par2Facts Proofs.Par2Verify Proofs.Par2Faults Proofs.Par2Clean
     Proofs.GF8Facts Proofs.Par1Facts Proofs.Par1Safety Proofs.Utf16Facts Proofs.Par1Clean.
Open Scope N_scope.
Set Default Timeout 120.

(** * paths *)

Lemma strip_ext_app_ext s : strip_ext s ++ ext s = s.
Proof.
  unfold strip_ext, ext. destruct (ext_rev_shape (rev s) []) as [E0|(r1 & r2 & Er & Hns & E1)].
  - rewrite E0. cbn [length]. rewrite Nat.sub_0_r, firstn_all. apply app_nil_r.
  - rewrite E1, app_nil_r.
    assert (Es : s = rev r2 ++ DOT :: rev r1).
    { rewrite <- (rev_involutive s), Er, rev_app_distr. cbn [rev]. rewrite <- app_assoc. reflexivity. }
    clear Er E1. subst s.
    replace (length (rev r2 ++ DOT :: rev r1) - length (DOT :: rev r1))%nat with (length (rev r2))
      by (rewrite app_length; cbn [length]; lia).
    rewrite firstn_app_exact. reflexivity.
Qed.

Lemma index_path_shape ix : str_eqb (ext ix) EXT_PAR = true -> strip_ext ix ++ EXT_PAR = ix.
Proof. intros H. apply str_eqb_eq in H. rewrite <- H. apply strip_ext_app_ext. Qed.

Definition undec (l : list N) : N :=
  match l with
  | [a; b] => 10 * (a - 48) + (b - 48)
  | [a; b; c] => 100 * (a - 48) + 10 * (b - 48) + (c - 48)
  | _ => 0
  end.

Lemma undec_dec2w n : undec (dec2w n) = n.
Proof.
  unfold dec2w. cbv zeta.
  destruct (N.ltb_spec n 10) as [H1|H1].
  { cbn [length Nat.ltb Nat.leb undec]. lia. }
  destruct (N.ltb_spec n 100) as [H2|H2].
  { destruct (divmod_lin n 10) as (q & m & -> & -> & E & Hm); [lia|].
    cbn [length Nat.ltb Nat.leb undec]. lia. }
  destruct (divmod_lin n 10) as (q & m & Eq & -> & E & Hm); [lia|].
  destruct (divmod_lin n 100) as (q2 & m2 & -> & _ & E2 & Hm2); [lia|].
  rewrite Eq.
  destruct (divmod_lin q 10) as (q3 & m3 & _ & -> & E3 & Hm3); [lia|].
  cbn [length Nat.ltb Nat.leb undec]. lia.
Qed.

Lemma dec2w_inj a b : dec2w a = dec2w b -> a = b.
Proof. intros H. rewrite <- (undec_dec2w a), <- (undec_dec2w b), H. reflexivity. Qed.

Lemma volume_path_inj ix a b : volume_path ix a = volume_path ix b -> a = b.
Proof.
  unfold volume_path. intros H. apply app_inv_head in H. apply app_inv_head in H. apply dec2w_inj. exact H.
Qed.

Lemma dec2w_ne_ar k : dec2w k <> [97; 114].
Proof.
  unfold dec2w. cbv zeta.
  destruct (N.ltb_spec k 10) as [H1|H1].
  { cbn [length Nat.ltb Nat.leb]. intros H. discriminate H. }
  destruct (N.ltb_spec k 100) as [H2|H2].
  { destruct (divmod_lin k 10) as (q & m & -> & -> & E & Hm); [lia|].
    cbn [length Nat.ltb Nat.leb]. intros H.
    assert (Ha : 48 + q = 97) by (exact (f_equal (fun l => hd 0 l) H)). lia. }
  cbn [length Nat.ltb Nat.leb]. intros H. discriminate H.
Qed.

Lemma volume_path_ne_index ix k : str_eqb (ext ix) EXT_PAR = true -> volume_path ix k <> ix.
Proof.
  intros He H. pose proof (index_path_shape ix He) as E.
  unfold volume_path in H. remember (strip_ext ix) as S eqn:ES. clear ES.
  rewrite <- E in H. apply app_inv_head in H. unfold EXT_PAR in H.
  injection H as H. exact (dec2w_ne_ar k H).
Qed.

Lemma sl_volume_path ix k : sl (volume_path ix k) = sl ix.
Proof.
  unfold volume_path. rewrite !sl_app, sl_strip_ext, (sl_noslash (dec2w k) (dec2w_noslash k)).
  change (sl [46; 112]) with 0%nat. lia.
Qed.

(* no index or volume path lies below a volume path *)
Lemma not_below_volume ix q k : sl q = sl ix -> starts_with q (volume_path ix k ++ [SLASH]) = false.
Proof.
  intros Hq. destruct (starts_with q (volume_path ix k ++ [SLASH])) eqn:E; [|reflexivity].
  exfalso. apply starts_with_sl in E. rewrite sl_app, sl_volume_path in E.
  change (sl [SLASH]) with 1%nat in E. lia.
Qed.

(** * Base is idempotent *)

Lemma dpl_full : forall t, dir_prefix_len t = length t -> t <> [] -> exists t', t = t' ++ [SLASH].
Proof.
  induction t as [|c r IH]; intros H Hne; [congruence|].
  cbn [dir_prefix_len length] in H. cbv zeta in H.
  destruct (dir_prefix_len r) as [|k] eqn:Ek; cbn [Nat.eqb] in H.
  - destruct (N.eqb_spec c SLASH) as [E|Hc]; [|discriminate H].
    injection H as H. destruct r; [|discriminate H]. exists []. subst c. reflexivity.
  - injection H as H. destruct r as [|c2 r2]; [discriminate Ek|].
    destruct (IH H ltac:(discriminate)) as [t' Et]. exists (c :: t'). rewrite Et. reflexivity.
Qed.

Lemma dpl_le : forall t, (dir_prefix_len t <= length t)%nat.
Proof.
  induction t as [|c r IH]; [cbn; lia|]. cbn [dir_prefix_len length]. cbv zeta.
  destruct (dir_prefix_len r); cbn [Nat.eqb]; [destruct (c =? SLASH); lia|lia].
Qed.

Lemma dpl_noslash : forall t, ~ In SLASH t -> dir_prefix_len t = 0%nat.
Proof.
  induction t as [|c r IH]; intros H; [reflexivity|]. cbn [dir_prefix_len]. cbv zeta.
  rewrite IH by (intros Hin; apply H; right; exact Hin). cbn [Nat.eqb].
  destruct (N.eqb_spec c SLASH) as [E|_]; [exfalso; apply H; left; exact E|reflexivity].
Qed.

Lemma strip_trailing_hd : forall r c r', strip_trailing_slashes r = c :: r' -> c <> SLASH.
Proof.
  induction r as [|a r IH]; intros c r' H; cbn [strip_trailing_slashes] in H; [discriminate H|].
  destruct (N.eqb_spec a SLASH) as [E|Hne]; [exact (IH _ _ H)|]. injection H as <- _. exact Hne.
Qed.

Lemma base_noslash n : n <> [] -> ~ In SLASH n -> base n = n.
Proof.
  intros Hne Hs. destruct n as [|c r]; [congruence|]. unfold base.
  assert (E : strip_trailing_slashes (rev (c :: r)) = rev (c :: r)).
  { destruct (rev (c :: r)) as [|a l] eqn:Er.
    - apply (f_equal (@length N)) in Er. rewrite rev_length in Er. discriminate Er.
    - cbn [strip_trailing_slashes]. destruct (N.eqb_spec a SLASH) as [Ea|_]; [|reflexivity].
      exfalso. apply Hs. apply in_rev. rewrite Er. left. exact Ea. }
  rewrite E, rev_involutive. rewrite (dpl_noslash _ Hs). reflexivity.
Qed.

Lemma base_base f : base (base f) = base f.
Proof.
  destruct f as [|c r]; [vm_compute; reflexivity|]. unfold base at 2. unfold base at 2.
  destruct (strip_trailing_slashes (rev (c :: r))) as [|a l] eqn:Es; [vm_compute; reflexivity|].
  pose proof (strip_trailing_hd _ _ _ Es) as Ha.
  set (t := rev (a :: l)).
  assert (Et : t = rev l ++ [a]) by reflexivity.
  destruct t as [|t0 t'] eqn:Ett; [destruct (rev l); discriminate Et|]. rewrite <- Ett in *.
  apply base_noslash; [|apply skipn_dpl_noslash].
  intros E0. pose proof (dpl_le t) as Hle.
  assert (Hl : dir_prefix_len t = length t).
  { apply (f_equal (@length N)) in E0. rewrite skipn_length in E0. cbn [length] in E0. lia. }
  destruct (dpl_full t Hl) as [t'' Et'']; [rewrite Ett; discriminate|].
  rewrite Et in Et''. apply app_inj_tail in Et''. destruct Et'' as [_ Ea]. exact (Ha Ea).
Qed.

(** * list helpers *)

Lemma lincomb_length_gen (mul : N -> N -> N) L : forall r X, Forall (fun v : list N => length v = L) X ->
  length (lincomb mul L r X) = L.
Proof.
  induction r as [|a r IH]; intros X HX; cbn [lincomb].
  - unfold zeros. apply repeat_length.
  - destruct X as [|x X]; [unfold zeros; apply repeat_length|].
    inversion HX as [|? ? Hx HX']; subst.
    rewrite xorl_length. unfold vscale. rewrite map_length, (IH X HX'). lia.
Qed.

Definition max_len (datas : list bytes) : nat := fold_left (fun m d => Nat.max m (length d)) datas 0%nat.
Definition pad (size : nat) (d : bytes) : bytes := d ++ zeros (size - length d).

Lemma fold_max_ge : forall (l : list bytes) m,
  (m <= fold_left (fun m d => Nat.max m (length d)) l m)%nat /\
  Forall (fun d : bytes => (length d <= fold_left (fun m d => Nat.max m (length d)) l m)%nat) l.
Proof.
  induction l as [|d l IH]; intros m; cbn [fold_left]; [split; [lia|constructor]|].
  destruct (IH (Nat.max m (length d))) as [A B]. split; [lia|]. constructor; [lia|exact B].
Qed.

Lemma max_len_ge datas : Forall (fun d : bytes => (length d <= max_len datas)%nat) datas.
Proof. apply (fold_max_ge datas 0%nat). Qed.

Lemma pad_length size d : (length d <= size)%nat -> length (pad size d) = size.
Proof. intros H. unfold pad, zeros. rewrite app_length, repeat_length. lia. Qed.

Lemma pad_firstn size d : firstn (length d) (pad size d) = d.
Proof. unfold pad. apply firstn_app_exact. Qed.

Lemma erase_all_true {A} : forall (l : list A), erase (repeat true (length l)) l = map Some l.
Proof. induction l as [|x l IH]; [reflexivity|]. cbn [length repeat]. rewrite erase_cons, IH. reflexivity. Qed.

Lemma map_erase_opt {A B} (f : A -> B) : forall (k : list bool) (l : list A),
  map (fun o : option A => match o with Some d => Some (f d) | None => None end) (erase k l) = erase k (map f l).
Proof.
  induction k as [|b k IH]; intros [|x l]; try reflexivity.
  cbn [map]. rewrite !erase_cons. cbn [map]. rewrite IH. destruct b; reflexivity.
Qed.

Lemma forallb_eq_self : forall l : list bytes,
  forallb (fun ab : bytes * bytes => bytes_eqb (fst ab) (snd ab)) (combine l l) = true.
Proof. induction l as [|x l IH]; [reflexivity|]. cbn [combine forallb fst snd]. rewrite bytes_eqb_refl, IH. reflexivity. Qed.

(** * the encoder without well-formedness premises *)

Lemma par1_encode_eq d p (D : list bytes) L : D <> [] -> Forall (fun x : bytes => length x = L) D ->
  par1_encode d p D = map (fun r => lincomb g8mul L r D) (par1_pm d p).
Proof.
  intros Hne HL. unfold par1_encode, mmul8, mmul. destruct D as [|x D]; [congruence|].
  inversion HL as [|? ? Hx _]; subst. reflexivity.
Qed.

Lemma firstn_seq_le : forall q p s, (q <= p)%nat -> firstn q (seq s p) = seq s q.
Proof.
  induction q as [|q IH]; intros p s H; [reflexivity|]. destruct p as [|p]; [lia|].
  cbn [seq firstn]. rewrite IH by lia. reflexivity.
Qed.

Lemma par1_pm_firstn d p q : (q <= p)%nat -> firstn q (par1_pm d p) = par1_pm d q.
Proof.
  intros H. unfold par1_pm. rewrite firstn_map, firstn_seq_le by exact H. reflexivity.
Qed.

Lemma par1_encode_firstn d p q (D : list bytes) L : D <> [] -> Forall (fun x : bytes => length x = L) D -> (q <= p)%nat ->
  firstn q (par1_encode d p D) = par1_encode d q D.
Proof.
  intros Hne HL Hq. rewrite (par1_encode_eq d p D L Hne HL), (par1_encode_eq d q D L Hne HL).
  rewrite firstn_map, par1_pm_firstn by exact Hq. reflexivity.
Qed.

Lemma par1_encode_shape d p (D : list bytes) L : D <> [] -> Forall (fun x : bytes => length x = L) D ->
  length (par1_encode d p D) = p /\ Forall (fun x : bytes => length x = L) (par1_encode d p D).
Proof.
  intros Hne HL. rewrite (par1_encode_eq d p D L Hne HL). split.
  - unfold par1_pm. rewrite !map_length, seq_length. reflexivity.
  - apply Forall_forall. intros x Hx. apply in_map_iff in Hx. destruct Hx as (r & <- & _).
    apply lincomb_length_gen. exact HL.
Qed.

(** * the file-system primitives of Create *)

Lemma io_reads1_ok_lookup : forall paths st ds st', io_sched st = [] ->
  Par1.io_reads paths st = (Ok ds, st') ->
  io_fs st' = io_fs st /\ io_sched st' = [] /\
  Forall2 (fun p d => fs_lookup (io_fs st) p = Some d) paths ds.
Proof.
  induction paths as [|p r IH]; intros st ds st' Hs H; cbn [Par1.io_reads] in H.
  - injection H as <- <-. split; [reflexivity|]. split; [exact Hs|constructor].
  - pose proof (io_read_pres p st) as Pr.
    destruct (io_read p st) as [[d|e|q] s1] eqn:ER; try discriminate H.
    cbn [snd] in Pr. destruct Pr as (Pf & Ps & _).
    destruct (Par1.io_reads r s1) as [[ds1|e|q] s2] eqn:ERS; try discriminate H.
    injection H as <- <-. apply io_read_ok_lookup in ER; [|exact Hs].
    destruct (IH s1 ds1 s2) as (F1 & S1 & L1); [congruence|exact ERS|].
    split; [congruence|]. split; [exact S1|]. constructor; [exact ER|]. rewrite <- Pf. exact L1.
Qed.

Lemma io_writes1_nosched : forall ws st, io_sched st = [] ->
  exists st', Par1.io_writes ws st = (Ok tt, st') /\ io_fs st' = apply_writes ws (io_fs st) /\ io_sched st' = [].
Proof.
  induction ws as [|[p d] ws IH]; intros st Hs; cbn [Par1.io_writes].
  - exists st. split; [reflexivity|]. split; [reflexivity|exact Hs].
  - rewrite (io_write_nosched p d st Hs).
    destruct (IH (tick st (EvWrite p d true) (fs_set (io_fs st) p d)) Hs) as (st' & E & Hf & Hs').
    exists st'. split; [exact E|]. split; [exact Hf|exact Hs'].
Qed.

Lemma has_dup_false : forall l, has_dup l = false -> NoDup l.
Proof.
  induction l as [|x l IH]; intros H; [constructor|]. cbn [has_dup] in H.
  apply orb_false_iff in H. destruct H as [H1 H2]. constructor; [|apply IH; exact H2].
  intros Hin. rewrite <- Bool.not_true_iff_false in H1. apply H1.
  apply existsb_exists. exists x. split; [exact Hin|apply str_eqb_refl].
Qed.

Lemma last_some_index_nones : forall m i acc, last_some_index (repeat None m) i acc = acc.
Proof. induction m as [|m IH]; intros i acc; [reflexivity|]. cbn [repeat last_some_index]. apply IH. Qed.

Lemma last_some_index_somes m : forall (vs : list bytes) i acc,
  last_some_index (map Some vs ++ repeat None m) i acc = match vs with [] => acc | _ => (i + length vs - 1)%nat end.
Proof.
  induction vs as [|x vs IH]; intros i acc; [apply last_some_index_nones|].
  cbn [map app last_some_index]. rewrite IH. destruct vs; cbn [length]; lia.
Qed.

Lemma firstn_last_some (vs : list bytes) m : vs <> [] ->
  firstn (S (last_some_index (map Some vs ++ repeat None m) 0 0)) (map Some vs ++ repeat None m) = map Some vs.
Proof.
  intros Hne. rewrite last_some_index_somes. destruct vs as [|x vs']; [congruence|].
  replace (S (0 + length (x :: vs') - 1)) with (length (map (@Some bytes) (x :: vs')))
    by (rewrite map_length; cbn [length]; lia).
  apply firstn_app_exact.
Qed.

Lemma read_entries_length : forall n buf er, read_entries n buf = Ok er -> length (fst er) = n.
Proof.
  induction n as [|n IH]; intros buf er H; cbn [read_entries] in H.
  - injection H as <-. reflexivity.
  - destruct (read_entry buf) as [[e rest]|x|q]; cbn [obind fst snd] in H; try discriminate H.
    destruct (read_entries n rest) as [rr|x|q] eqn:E; cbn [obind] in H; try discriminate H.
    injection H as <-. cbn [fst length]. rewrite (IH _ _ E). reflexivity.
Qed.

Section VolsLoad.
  Variable md5 : bytes -> bytes.
  Hypothesis md5_len : forall x, length (md5 x) = 16%nat.
  Variable ix : list N.
  Variable sethash : bytes.
  Variable entries : list p1entry.
  Hypothesis Hsh : length sethash = 16%nat.
  Hypothesis Hes : Forall (fun e => e_status e < 2^64 /\ e_len e < 2^64 /\ length (e_hash e) = 16%nat /\ length (e_h16 e) = 16%nat
                     /\ e_name e <> [] /\ decode_utf16le (encode_utf16le (e_name e)) = e_name e
                     /\ encode_utf16le (e_name e) <> []) entries.
  Hypothesis Hsz : Forall (fun e => N.of_nat (length (encode_utf16le (e_name e))) < 2^64) entries.
  Hypothesis Hcnt : N.of_nat (length entries) < 2^32.

  Lemma read_volume_count b v : read_volume md5 b = Ok v -> v_count v = N.of_nat (length (v_entries v)).
  Proof.
    unfold read_volume. intros H.
    repeat lazymatch type of H with (if ?c then _ else _) = _ => destruct c; [discriminate H|] end.
    destruct (read_entries (N.to_nat (le_decode (firstn 8 (skipn 56 b)))) (skipn 96 b)) as [er|x|q] eqn:E;
      cbn [obind] in H; try discriminate H.
    injection H as <-. cbn [v_count v_entries]. rewrite (read_entries_length _ _ _ E). rewrite N2Nat.id. reflexivity.
  Qed.

  Lemma written_volume_read number data : number < 2^64 ->
    exists v, read_volume md5 (write_volume md5 sethash number entries data) = Ok v /\
              v_sethash_stored v = sethash /\ v_number v = number /\ v_entries v = entries /\ v_data v = data /\
              v_count v = N.of_nat (length entries).
  Proof.
    intros Hn. destruct (volume_round_trip md5 md5_len sethash number entries data Hsh Hn Hes Hsz Hcnt)
      as (v & E & F1 & F2 & F3 & F4 & _).
    exists v. repeat (split; [assumption|]). rewrite (read_volume_count _ _ E), F3. reflexivity.
  Qed.

  Lemma load_vols_present L : L <> 0%nat -> forall (vs : list bytes) m i size acc st,
    io_sched st = [] -> (size = 0 \/ size = L)%nat -> Forall (fun x : bytes => length x = L) vs ->
    N.of_nat (i + length vs) < 2^64 ->
    (forall j, (j < length vs)%nat ->
       fs_lookup (io_fs st) (volume_path ix (N.of_nat (S (i + j)))) =
       Some (write_volume md5 sethash (N.of_nat (S (i + j))) entries (nth j vs []))) ->
    exists st1, io_sched st1 = [] /\ io_fs st1 = io_fs st /\
      load_vols md5 ix sethash i (length vs + m) size acc st =
      load_vols md5 ix sethash (i + length vs) m (match vs with [] => size | _ => L end) (acc ++ map Some vs) st1.
  Proof.
    intros HL. induction vs as [|x vs IH]; intros m i size acc st Hs Hsize HF Hb Hlk.
    - exists st. cbn [length map Nat.add]. rewrite Nat.add_0_r, app_nil_r.
      split; [exact Hs|split; reflexivity].
    - cbn [length] in *. inversion HF as [|? ? Hx HF']; subst.
      pose proof (Hlk 0%nat ltac:(lia)) as H0. rewrite Nat.add_0_r in H0. cbn [nth] in H0.
      destruct (io_read_some _ st _ Hs H0) as (st1 & ER & Hs1 & Hf1).
      destruct (written_volume_read (N.of_nat (S i)) x ltac:(lia)) as (v & EV & F1 & F2 & F3 & F4 & _).
      cbn [Nat.add load_vols]. rewrite ER, EV, F1, F2, F4, bytes_eqb_refl, N.eqb_refl. cbn [negb].
      destruct (Nat.eqb_spec (length x) 0) as [E0|_]; [lia|].
      assert (Ec : negb (Nat.eqb size 0) && negb (Nat.eqb (length x) size) = false).
      { destruct Hsize as [-> | ->]; [reflexivity|]. rewrite Nat.eqb_refl. apply andb_false_r. }
      rewrite Ec.
      destruct (IH m (S i) (length x) (acc ++ [Some x]) st1 Hs1 (or_intror eq_refl) HF' ltac:(lia)) as (st2 & Hs2 & Hf2 & E2).
      { intros j Hj. rewrite Hf1. specialize (Hlk (S j) ltac:(lia)). cbn [nth] in Hlk.
        replace (S i + j)%nat with (i + S j)%nat by lia. exact Hlk. }
      exists st2. split; [exact Hs2|]. split; [congruence|]. rewrite E2.
      replace (S i + length vs)%nat with (i + S (length vs))%nat by lia.
      rewrite <- app_assoc. cbn [map app]. destruct vs; reflexivity.
  Qed.

  Lemma load_vols_absent : forall m i size acc st, io_sched st = [] ->
    (forall j, (i < j <= i + m)%nat -> read_res (io_fs st) (volume_path ix (N.of_nat j)) = Err ENotExist) ->
    exists st1, load_vols md5 ix sethash i m size acc st = (Ok (acc ++ repeat None m, size), st1).
  Proof.
    clear md5_len Hsh Hes Hsz Hcnt.
    induction m as [|m IH]; intros i size acc st Hs H; cbn [load_vols repeat].
    - exists st. rewrite app_nil_r. reflexivity.
    - destruct (io_read_nosched (volume_path ix (N.of_nat (S i))) st Hs) as (st1 & ER & Hs1 & Hf1).
      rewrite ER, (H (S i)) by lia.
      destruct (IH (S i) size (acc ++ [None]) st1 Hs1) as (st2 & E2).
      { intros j Hj. rewrite Hf1. apply H. lia. }
      exists st2. rewrite E2, <- app_assoc. reflexivity.
  Qed.

  (* ... and when each of the remaining paths holds nothing or a file that is not a volume of this set (it does not
     parse, or carries another set hash or number): every such slot is empty and the shard size is unchanged *)
  Lemma load_vols_skipped : forall m i size acc st, io_sched st = [] ->
    (forall j, (i < j <= i + m)%nat ->
       vol_skipped md5 sethash (N.of_nat j) (read_res (io_fs st) (volume_path ix (N.of_nat j)))) ->
    exists st1, load_vols md5 ix sethash i m size acc st = (Ok (acc ++ repeat None m, size), st1).
  Proof.
    clear md5_len Hsh Hes Hsz Hcnt.
    induction m as [|m IH]; intros i size acc st Hs H.
    - cbn [load_vols repeat]. exists st. rewrite app_nil_r. reflexivity.
    - destruct (io_read_nosched (volume_path ix (N.of_nat (S i))) st Hs) as (st1 & ER & Hs1 & Hf1).
      destruct (IH (S i) size (acc ++ [None]) st1 Hs1) as (st2 & E2).
      { intros j Hj. rewrite Hf1. apply H. lia. }
      exists st2. cbn [repeat]. replace (acc ++ None :: repeat None m) with ((acc ++ [None]) ++ repeat None m)
        by (rewrite <- app_assoc; reflexivity).
      rewrite <- E2.
      destruct (H (S i) ltac:(lia)) as [E|(b & E & Hnm)]; rewrite E in ER.
      + cbn [load_vols]. rewrite ER. reflexivity.
      + exact (load_vols_not_member_step md5 ix sethash i m size acc st b st1 ER Hnm).
  Qed.
End VolsLoad.

(** * what Create writes *)

Definition mk_entry (md5 : bytes -> bytes) (nd' : bytes * bytes) : p1entry :=
  {| e_status := 1; e_len := N.of_nat (length (snd nd')); e_hash := md5 (snd nd');
     e_h16 := hash16k md5 (snd nd'); e_name := fst nd' |}.
Definition mk_entries (md5 : bytes -> bytes) (names datas : list bytes) : list p1entry :=
  map (mk_entry md5) (combine names datas).
Definition set_hash (md5 : bytes -> bytes) (es : list p1entry) : bytes := md5 (flat_map (fun e => e_hash e) es).

(* a name the volume format round-trips and the decoder accepts *)
Definition name_ok (n : bytes) : Prop :=
  base n = n /\ n <> [] /\ decode_utf16le (encode_utf16le n) = n /\ encode_utf16le n <> [] /\
  N.of_nat (length (encode_utf16le n)) < 2^64.

Lemma nth_firstn_lt {A} (d0 : A) : forall n (l : list A) j, (j < n)%nat -> nth j (firstn n l) d0 = nth j l d0.
Proof.
  induction n as [|n IH]; intros l j H; [lia|]. destruct l as [|x l]; [reflexivity|].
  destruct j as [|j]; [reflexivity|]. cbn [firstn nth]. apply IH. lia.
Qed.

Section Created.
  Variable md5 : bytes -> bytes.
  Hypothesis md5_len : forall x, length (md5 x) = 16%nat.

  Lemma load_data_keep ix : forall (l : list (p1entry * (bytes * bool))) st, io_sched st = [] ->
    Forall (fun t : p1entry * (bytes * bool) =>
        base (e_name (fst t)) = e_name (fst t) /\ md5 (fst (snd t)) = e_hash (fst t) /\
        hash16k md5 (fst (snd t)) = e_h16 (fst t) /\
        if snd (snd t) then fs_lookup (io_fs st) (epath ix (fst t)) = Some (fst (snd t))
        else read_res (io_fs st) (epath ix (fst t)) = Err ENotExist) l ->
    exists st', load_data md5 ix (map fst l) st =
                  (Ok (map (fun t : p1entry * (bytes * bool) => if snd (snd t) then Some (fst (snd t)) else None) l), st') /\
                io_sched st' = [] /\ io_fs st' = io_fs st.
  Proof.
    induction l as [|[e [d k]] l IH]; intros st Hs H; cbn [map load_data fst snd].
    - exists st. split; [reflexivity|split; [exact Hs|reflexivity]].
    - inversion H as [|? ? (Eb & H1 & H2 & Hk) Hr]; subst. cbn [fst snd] in *.
      rewrite (entry_path_bare ix e Eb).
      destruct (io_read_nosched (epath ix e) st Hs) as (st1 & ER & Hs1 & Hf1). rewrite ER.
      destruct (IH st1 Hs1) as (st2 & EL & Hs2 & Hf2).
      { rewrite Hf1. exact Hr. }
      destruct k.
      + unfold read_res. rewrite Hk, EL, H1, H2, !bytes_eqb_refl. cbn [andb].
        exists st2. split; [reflexivity|split; [exact Hs2|congruence]].
      + rewrite Hk, EL. exists st2. split; [reflexivity|split; [exact Hs2|congruence]].
  Qed.

  Lemma mk_entries_length names datas : length names = length datas -> length (mk_entries md5 names datas) = length datas.
  Proof. intros H. unfold mk_entries. rewrite map_length, combine_length. lia. Qed.

  Lemma filter_saved_mk names datas : filter saved (mk_entries md5 names datas) = mk_entries md5 names datas.
  Proof. unfold mk_entries. induction (combine names datas) as [|x l IH]; [reflexivity|]. cbn [map filter]. rewrite IH. reflexivity. Qed.

  Lemma mk_entries_ok names datas : Forall name_ok names -> Forall (fun d : bytes => N.of_nat (length d) < 2^64) datas ->
    Forall (fun e => e_status e < 2^64 /\ e_len e < 2^64 /\ length (e_hash e) = 16%nat /\ length (e_h16 e) = 16%nat
                     /\ e_name e <> [] /\ decode_utf16le (encode_utf16le (e_name e)) = e_name e
                     /\ encode_utf16le (e_name e) <> []) (mk_entries md5 names datas) /\
    Forall (fun e => N.of_nat (length (encode_utf16le (e_name e))) < 2^64) (mk_entries md5 names datas).
  Proof.
    intros Hn Hd. rewrite Forall_forall in Hn, Hd.
    split; apply Forall_forall; intros e He; unfold mk_entries in He; apply in_map_iff in He;
      destruct He as ([n d] & <- & Hin); pose proof (in_combine_l _ _ _ _ Hin) as Hin1;
      pose proof (in_combine_r _ _ _ _ Hin) as Hin2; destruct (Hn n Hin1) as (_ & N1 & N2 & N3 & N4);
      cbn [mk_entry e_status e_len e_hash e_h16 e_name fst snd].
    - split; [reflexivity|]. split; [exact (Hd d Hin2)|]. split; [apply md5_len|]. split; [apply md5_len|].
      split; [exact N1|split; [exact N2|exact N3]].
    - exact N4.
  Qed.

  Lemma zip3_facts : forall (names datas : list bytes) (keep : list bool),
    length names = length datas -> length keep = length datas ->
    map fst (combine (mk_entries md5 names datas) (combine datas keep)) = mk_entries md5 names datas /\
    map (fun t : p1entry * (bytes * bool) => if snd (snd t) then Some (fst (snd t)) else None)
        (combine (mk_entries md5 names datas) (combine datas keep)) = erase keep datas.
  Proof.
    unfold mk_entries.
    induction names as [|n names IH]; intros [|d datas] [|k keep] H1 H2; cbn [length] in *; try lia;
      [split; reflexivity|].
    destruct (IH datas keep ltac:(lia) ltac:(lia)) as [A B].
    cbn [combine map fst snd]. rewrite A, B, erase_cons. split; reflexivity.
  Qed.

  Lemma zip3_forall ix (fs2 : list (list N * bytes)) : forall (names datas : list bytes) (keep : list bool),
    length names = length datas -> length keep = length datas -> Forall name_ok names ->
    Forall (fun t : bytes * (bytes * bool) =>
              if snd (snd t) then fs_lookup fs2 (join2 (dir ix) (fst t)) = Some (fst (snd t))
              else read_res fs2 (join2 (dir ix) (fst t)) = Err ENotExist) (combine names (combine datas keep)) ->
    Forall (fun t : p1entry * (bytes * bool) =>
        base (e_name (fst t)) = e_name (fst t) /\ md5 (fst (snd t)) = e_hash (fst t) /\
        hash16k md5 (fst (snd t)) = e_h16 (fst t) /\
        if snd (snd t) then fs_lookup fs2 (epath ix (fst t)) = Some (fst (snd t))
        else read_res fs2 (epath ix (fst t)) = Err ENotExist)
      (combine (mk_entries md5 names datas) (combine datas keep)).
  Proof.
    unfold mk_entries.
    induction names as [|n names IH]; intros [|d datas] [|k keep] H1 H2 Hn H; cbn [length] in *; try lia;
      [constructor|].
    inversion Hn as [|? ? (Nb & _) Hn']; subst.
    cbn [combine] in H. inversion H as [|? ? Hk Hr]; subst. cbn [fst snd] in Hk.
    cbn [combine map]. constructor; [|apply IH; try lia; assumption].
    cbn [fst snd mk_entry e_name e_hash e_h16]. unfold epath. cbn [e_name].
    split; [exact Nb|]. split; [reflexivity|]. split; [reflexivity|exact Hk].
  Qed.

  (* The loading phase on ANY file map that holds the index and the first min nv 99 volumes Create
     wrote, has nothing at the later volume paths the loader probes, and holds (keep = true) or
     lacks (keep = false) each input file beside the index. *)
  Lemma p1_load_created ix (names datas : list bytes) (nv : nat) (fs2 : list (list N * bytes)) (keep : list bool) :
    str_eqb (ext ix) EXT_PAR = true -> length names = length datas -> datas <> [] ->
    (length datas + nv <= 256)%nat -> (0 < nv)%nat -> max_len datas <> 0%nat ->
    Forall name_ok names -> Forall (fun d : bytes => N.of_nat (length d) < 2^64) datas ->
    length keep = length datas ->
    let entries := mk_entries md5 names datas in
    let sethash := set_hash md5 entries in
    let size := max_len datas in
    let D := map (pad size) datas in
    let P := par1_encode (length datas) nv D in
    let np := Nat.min nv 99 in
    fs_lookup fs2 ix = Some (write_volume md5 sethash 0 entries []) ->
    (forall j, (j < np)%nat -> fs_lookup fs2 (volume_path ix (N.of_nat (S j))) =
                               Some (write_volume md5 sethash (N.of_nat (S j)) entries (nth j P []))) ->
    (forall k, (np < k <= N.to_nat (N.min (256 - N.of_nat (length datas)) 99))%nat ->
               vol_skipped md5 sethash (N.of_nat k) (read_res fs2 (volume_path ix (N.of_nat k)))) ->
    Forall (fun t : bytes * (bytes * bool) =>
              if snd (snd t) then fs_lookup fs2 (join2 (dir ix) (fst t)) = Some (fst (snd t))
              else read_res fs2 (join2 (dir ix) (fst t)) = Err ENotExist) (combine names (combine datas keep)) ->
    exists v st1,
      p1_load md5 ix (io_init fs2 []) =
        (Ok {| s_index := ix; s_vol := v; s_saved := entries; s_data := erase keep datas; s_size := size;
               s_parity := map Some (par1_encode (length datas) np D) |}, st1) /\
      v_count v = N.of_nat (length datas) /\ io_sched st1 = [] /\ io_fs st1 = fs2.
  Proof.
    intros He Hlen Hne Hcap Hnv Hsz0 Hnames Hdl Hkeep entries sethash size D P np C1 C2 C3 C4.
    destruct (mk_entries_ok names datas Hnames Hdl) as [Hes Hsz]. fold entries in Hes, Hsz.
    assert (Hel : length entries = length datas) by (apply mk_entries_length; exact Hlen).
    assert (Hcnt : N.of_nat (length entries) < 2^32).
    { rewrite Hel. apply N.lt_trans with 257; [lia|reflexivity]. }
    assert (Hsh : length sethash = 16%nat) by apply md5_len.
    (* the index *)
    destruct (io_read_some ix (io_init fs2 []) _ eq_refl C1) as (sa & ER & Hsa & Hfa). cbn [io_init io_fs] in Hfa.
    destruct (written_volume_read md5 md5_len sethash entries Hsh Hes Hsz Hcnt 0 [] ltac:(reflexivity))
      as (v & EV & F1 & F2 & F3 & F4 & F5).
    rewrite Hel in F5.
    (* the files *)
    destruct (zip3_facts names datas keep Hlen Hkeep) as [Z1 Z2]. fold entries in Z1, Z2.
    destruct (load_data_keep ix (combine entries (combine datas keep)) sa Hsa) as (sb & EL & Hsb & Hfb).
    { rewrite Hfa. apply zip3_forall; assumption. }
    rewrite Z1, Z2 in EL.
    assert (Hds : erase keep datas <> []).
    { intros E0. apply (f_equal (@length (option bytes))) in E0. rewrite erase_length in E0 by exact Hkeep.
      destruct datas; [congruence|discriminate E0]. }
    (* the volumes *)
    assert (HD : Forall (fun x : bytes => length x = size) D).
    { unfold D. apply Forall_forall. intros x Hx. apply in_map_iff in Hx. destruct Hx as (d & <- & Hd).
      apply pad_length. pose proof (max_len_ge datas) as G. rewrite Forall_forall in G. exact (G d Hd). }
    assert (HDne : D <> []) by (unfold D; destruct datas; [congruence|discriminate]).
    assert (Hnp : (np <= nv)%nat) by (unfold np; lia).
    assert (Hnp1 : (0 < np)%nat) by (unfold np; lia).
    set (vs := par1_encode (length datas) np D).
    destruct (par1_encode_shape (length datas) np D size HDne HD) as [Lvs Fvs]. fold vs in Lvs, Fvs.
    assert (Evs : vs = firstn np P).
    { unfold vs, P. symmetry. apply (par1_encode_firstn _ _ _ _ size); assumption. }
    set (maxv := N.to_nat (N.min (256 - N.of_nat (length datas)) 99)) in *.
    assert (Hmax : (np <= maxv)%nat) by (unfold maxv, np; lia).
    destruct (load_vols_present md5 md5_len ix sethash entries Hsh Hes Hsz Hcnt size Hsz0 vs (maxv - np) 0 0 [] sb Hsb
                (or_introl eq_refl) Fvs) as (sc & Hsc & Hfc & ELV1).
    { rewrite Lvs. apply N.lt_trans with 257; [unfold np; lia|reflexivity]. }
    { intros j Hj. rewrite Lvs in Hj. rewrite Hfb, Hfa. cbn [Nat.add]. rewrite Evs, nth_firstn_lt by exact Hj.
      apply C2. exact Hj. }
    destruct (load_vols_skipped md5 ix sethash (maxv - np) (0 + length vs) (match vs with [] => 0%nat | _ => size end)
                ([] ++ map Some vs) sc Hsc) as (sd & ELV2).
    { intros j Hj. rewrite Hfc, Hfb, Hfa. apply C3. rewrite Lvs in Hj. lia. }
    rewrite ELV2 in ELV1. rewrite Lvs in ELV1. replace (np + (maxv - np))%nat with maxv in ELV1 by lia.
    assert (Esz : match vs with [] => 0%nat | _ => size end = size).
    { destruct vs; [cbn [length] in Lvs; lia|reflexivity]. }
    rewrite Esz in ELV1. cbn [app] in ELV1.
    (* assemble *)
    pose proof (p1_load_ok md5 ix (io_init fs2 []) _ sa v (erase keep datas) sb
                  (map Some vs ++ repeat None (maxv - np)) size sd He ER EV) as PL.
    unfold nsaved in PL. rewrite F2, F3, F1 in PL.
    assert (Efs : filter saved entries = entries) by apply filter_saved_mk.
    rewrite Efs, Hel in PL.
    specialize (PL eq_refl EL Hds).
    assert (EC : (256 <=? N.of_nat (length datas)) = false) by (apply N.leb_gt; lia).
    specialize (PL EC ELV1).
    rewrite firstn_last_some in PL by (intros E0; rewrite E0 in Lvs; cbn [length] in Lvs; lia).
    exists v, sd. split; [exact PL|]. split; [exact F5|].
    pose proof (p1_load_pres md5 ix (io_init fs2 [])) as Pp.
    rewrite PL in Pp. cbn [snd] in Pp. destruct Pp as (Pf & Ps & _). cbn [io_init io_fs io_sched] in Pf, Ps.
    split; assumption.
  Qed.
End Created.

(** * input names *)

(* the name is the UTF-8 encoding of a non-empty list of Unicode scalar values, shorter than 2^62 bytes
   (the entry-size field of the volume format is a uint64 holding 56 + the UTF-16 byte length) *)
Definition input_name_ok (n : bytes) : Prop :=
  exists rs, rs <> [] /\ Forall scalar rs /\ n = flat_map utf8_encode_rune rs /\ N.of_nat (length n) < 2^62.

Lemma utf8_decode_length : forall fuel s, (length (utf8_decode fuel s) <= fuel)%nat.
Proof.
  induction fuel as [|f IH]; intros s; cbn [utf8_decode]; [cbn [length]; lia|].
  destruct s as [|b s']; [cbn [length]; lia|].
  destruct (utf8_next (b :: s')) as [r k]. cbn [length]. specialize (IH (skipn k (b :: s'))). lia.
Qed.

Lemma utf16_enc_len r : (1 <= length (utf16_encode_rune r) <= 2)%nat.
Proof.
  unfold utf16_encode_rune.
  repeat match goal with |- context[if ?c then _ else _] => destruct c end; cbn [length]; lia.
Qed.

Lemma flat_map_length_bounds {A B} (f : A -> list B) lo hi : (forall x, lo <= length (f x) <= hi)%nat ->
  forall l, (lo * length l <= length (flat_map f l) <= hi * length l)%nat.
Proof.
  intros H. induction l as [|x l IH]; [cbn [flat_map length]; lia|].
  cbn [flat_map length]. rewrite app_length. specialize (H x). lia.
Qed.

Lemma encode_utf16le_length_le s : (length (encode_utf16le s) <= 4 * length s)%nat.
Proof.
  unfold encode_utf16le. rewrite flat_map_pair_length.
  pose proof (flat_map_length_bounds utf16_encode_rune 1 2 utf16_enc_len (utf8_decode (length s) s)) as H.
  pose proof (utf8_decode_length (length s) s). lia.
Qed.

Lemma input_name_name_ok f : input_name_ok (base f) -> name_ok (base f).
Proof.
  intros (rs & Hne & Hsc & En & Hlen). unfold name_ok.
  split; [apply base_base|].
  assert (Hn0 : base f <> []).
  { rewrite En. destruct rs as [|r rs']; [congruence|]. cbn [flat_map].
    pose proof (utf8_enc_len r). destruct (utf8_encode_rune r); [cbn [length] in *; lia|discriminate]. }
  split; [exact Hn0|].
  split; [rewrite En; apply (name_codec_round_trip rs Hsc)|].
  split.
  - rewrite En. unfold encode_utf16le. rewrite (utf8_round_trip rs Hsc).
    intros E0. apply (f_equal (@length N)) in E0. rewrite flat_map_pair_length in E0. cbn [length] in E0.
    pose proof (flat_map_length_bounds utf16_encode_rune 1 2 utf16_enc_len rs) as H.
    destruct rs; [congruence|cbn [length] in H; lia].
  - pose proof (encode_utf16le_length_le (base f)) as H. lia.
Qed.

(** * Create, inverted *)

Lemma combine_seq_nth {A} (d0 : A) : forall (l : list A) s,
  combine (seq s (length l)) l = map (fun j => (j, nth (j - s) l d0)) (seq s (length l)).
Proof.
  induction l as [|x l IH]; intros s; [reflexivity|].
  cbn [length seq combine map]. rewrite Nat.sub_diag. cbn [nth]. f_equal.
  rewrite IH. apply map_ext_in. intros j Hj. apply in_seq in Hj.
  replace (j - s)%nat with (S (j - S s)) by lia. reflexivity.
Qed.

Definition create_outs (md5 : bytes -> bytes) (parPath : list N) (nv : nat) (names datas : list bytes)
  : list (list N * bytes) :=
  let entries := mk_entries md5 names datas in
  let sethash := set_hash md5 entries in
  let P := par1_encode (length datas) nv (map (pad (max_len datas)) datas) in
  (parPath, write_volume md5 sethash 0 entries [])
    :: map (fun j => (volume_path parPath (N.of_nat (S j)), write_volume md5 sethash (N.of_nat (S j)) entries (nth j P [])))
           (seq 0 nv).

Lemma Ok_inj {A} (a b : A) : Ok a = Ok b -> a = b.
Proof. intros H. injection H as H. exact H. Qed.

Lemma par1_outputs_ok md5 parPath nv names datas outs : str_eqb (ext parPath) EXT_PAR = true ->
  par1_outputs md5 parPath nv names datas = Ok outs ->
  (length datas + nv <= 256)%nat /\ max_len datas <> 0%nat /\ outs = create_outs md5 parPath nv names datas.
Proof.
  intros He EO. unfold par1_outputs in EO. fold (max_len datas) in EO.
  destruct (Nat.ltb_spec 256 (length datas + nv)) as [Lt|Ge]; [discriminate EO|].
  destruct (Nat.eqb_spec (max_len datas) 0) as [E0|Hsz]; [discriminate EO|].
  split; [exact Ge|]. split; [exact Hsz|].
  apply Ok_inj in EO. rewrite <- EO. clear EO.
  rewrite (index_path_shape parPath He). unfold create_outs.
  fold (mk_entry md5). fold (mk_entries md5 names datas).
  fold (set_hash md5 (mk_entries md5 names datas)). fold (pad (max_len datas)).
  set (D := map (pad (max_len datas)) datas).
  assert (HD : Forall (fun x : bytes => length x = max_len datas) D).
  { unfold D. apply Forall_forall. intros x Hx. apply in_map_iff in Hx. destruct Hx as (d & <- & Hd).
    apply pad_length. pose proof (max_len_ge datas) as G. rewrite Forall_forall in G. exact (G d Hd). }
  assert (HDne : D <> []).
  { unfold D. destruct datas; [exfalso; apply Hsz; reflexivity|discriminate]. }
  destruct (par1_encode_shape (length datas) nv D (max_len datas) HDne HD) as [LP _].
  f_equal. unfold D in *. unfold pad in *.
  set (P := par1_encode (length datas) nv _) in *.
  rewrite <- LP at 1. rewrite (@combine_seq_nth bytes [] P 0), map_map, LP.
  apply map_ext. intros j. cbn [fst snd]. rewrite Nat.sub_0_r. reflexivity.
Qed.

Lemma par1_create_ok_inv md5 parPath files nvol fs st' :
  par1_create md5 parPath files nvol (io_init fs []) = (Ok tt, st') ->
  let nv := if (nvol <=? 0)%Z then 3%nat else Z.to_nat nvol in
  exists datas,
    str_eqb (ext parPath) EXT_PAR = true /\ files <> [] /\ NoDup (map base files) /\
    Forall2 (fun p d => fs_lookup fs p = Some d) files datas /\
    (length datas + nv <= 256)%nat /\ (0 < nv)%nat /\ max_len datas <> 0%nat /\
    io_fs st' = apply_writes (create_outs md5 parPath nv (map base files) datas) fs.
Proof.
  intros H nv. unfold par1_create in H.
  destruct (str_eqb (ext parPath) EXT_PAR) eqn:Ee; cbn [negb] in H; [|discriminate H].
  destruct files as [|f0 files']; [discriminate H|]. set (files := f0 :: files') in *.
  fold nv in H.
  destruct (has_dup (map base files)) eqn:Ed; [discriminate H|].
  destruct (Par1.io_reads files (io_init fs [])) as [[datas|e|q] st1] eqn:ER; try discriminate H.
  destruct (io_reads1_ok_lookup files (io_init fs []) datas st1 eq_refl ER) as (Hf1 & Hs1 & HF).
  cbn [io_init io_fs] in Hf1, HF.
  destruct (par1_outputs md5 parPath nv (map base files) datas) as [outs|e|q] eqn:EO; try discriminate H.
  destruct (par1_outputs_ok _ _ _ _ _ _ Ee EO) as (Ge & Hsz & ->).
  lazymatch type of H with (if ?c then _ else _) = _ => destruct c; [discriminate H|] end.
  destruct (io_writes1_nosched (create_outs md5 parPath nv (map base files) datas) st1 Hs1) as (st2 & EW & Hf2 & _).
  rewrite EW in H. injection H as <-.
  exists datas. split; [reflexivity|]. split; [discriminate|]. split; [apply has_dup_false; exact Ed|].
  split; [exact HF|]. split; [exact Ge|]. split; [unfold nv; destruct (nvol <=? 0)%Z eqn:En; lia|].
  split; [exact Hsz|]. rewrite Hf2, Hf1. reflexivity.
Qed.

(** * the file map after Create *)

Section CreatedFs.
  Variable md5 : bytes -> bytes.
  Variables (ix : list N) (nv : nat) (names datas : list bytes) (fs : list (list N * bytes)).
  Hypothesis He : str_eqb (ext ix) EXT_PAR = true.

  Let outs := create_outs md5 ix nv names datas.

  Lemma create_outs_keys : map fst outs = ix :: map (fun j => volume_path ix (N.of_nat (S j))) (seq 0 nv).
  Proof. unfold outs, create_outs. cbn [map fst]. rewrite map_map. reflexivity. Qed.

  Lemma in_create_outs_keys p : In p (map fst outs) <-> p = ix \/ exists j, (j < nv)%nat /\ p = volume_path ix (N.of_nat (S j)).
  Proof.
    rewrite create_outs_keys. cbn [In]. rewrite in_map_iff. split.
    - intros [E|(j & E & Hj)]; [left; symmetry; exact E|right]. apply in_seq in Hj. exists j. split; [lia|symmetry; exact E].
    - intros [E|(j & Hj & E)]; [left; symmetry; exact E|right]. exists j. split; [symmetry; exact E|apply in_seq; lia].
  Qed.

  Lemma create_outs_nodup : NoDup (map fst outs).
  Proof.
    rewrite create_outs_keys. constructor.
    - intros Hin. apply in_map_iff in Hin. destruct Hin as (j & E & _). exact (volume_path_ne_index ix _ He E).
    - apply FinFun.Injective_map_NoDup; [|apply seq_NoDup].
      intros a b E. apply volume_path_inj in E. lia.
  Qed.

  Lemma created_index :
    fs_lookup (apply_writes outs fs) ix =
    Some (write_volume md5 (set_hash md5 (mk_entries md5 names datas)) 0 (mk_entries md5 names datas) []).
  Proof. apply apply_writes_lookup; [apply create_outs_nodup|]. left. reflexivity. Qed.

  Lemma created_volume j : (j < nv)%nat ->
    fs_lookup (apply_writes outs fs) (volume_path ix (N.of_nat (S j))) =
    Some (write_volume md5 (set_hash md5 (mk_entries md5 names datas)) (N.of_nat (S j)) (mk_entries md5 names datas)
            (nth j (par1_encode (length datas) nv (map (pad (max_len datas)) datas)) [])).
  Proof.
    intros Hj. apply apply_writes_lookup; [apply create_outs_nodup|]. right.
    apply in_map_iff. exists j. split; [reflexivity|apply in_seq; lia].
  Qed.

  Lemma created_other_lookup p : p <> ix -> (forall j, (j < nv)%nat -> p <> volume_path ix (N.of_nat (S j))) ->
    fs_lookup (apply_writes outs fs) p = fs_lookup fs p.
  Proof.
    intros H1 H2. apply apply_writes_lookup_other. rewrite in_create_outs_keys.
    intros [E|(j & Hj & E)]; [exact (H1 E)|exact (H2 j Hj E)].
  Qed.

  Lemma created_volume_absent k : (nv < k)%nat ->
    read_res (apply_writes outs fs) (volume_path ix (N.of_nat k)) = read_res fs (volume_path ix (N.of_nat k)).
  Proof.
    intros Hk. apply read_res_apply_writes.
    - rewrite in_create_outs_keys. intros [E|(j & Hj & E)]; [exact (volume_path_ne_index ix _ He E)|].
      apply volume_path_inj in E. lia.
    - apply Forall_forall. intros w Hw. apply not_below_volume.
      assert (Hk' : In (fst w) (map fst outs)) by (apply in_map; exact Hw).
      rewrite in_create_outs_keys in Hk'. destruct Hk' as [-> | (j & _ & ->)]; [reflexivity|apply sl_volume_path].
  Qed.
End CreatedFs.

(** * the parity check on consistent shards *)

Lemma count_none1_map_some {A} (l : list A) : count_none1 (map Some l) = 0%nat.
Proof. unfold count_none1. induction l as [|x l IH]; [reflexivity|exact IH]. Qed.

Lemma count_present_map_some {A} (l : list A) : count_present (map Some l) = length l.
Proof. unfold count_present. induction l as [|x l IH]; [reflexivity|]. cbn [map filter length]. rewrite IH. reflexivity. Qed.

Lemma map_unwrap_some (l : list bytes) :
  map (fun o : option bytes => match o with Some x => x | None => [] end) (map Some l) = l.
Proof. rewrite map_map. apply map_id. Qed.

Lemma rs_verify_consistent d p (D : list bytes) size :
  D <> [] -> length D = d -> Forall (fun x : bytes => length x = size) D -> size <> 0%nat ->
  rs_verify d p (map Some (D ++ par1_encode d p D)) = Ok true.
Proof.
  intros Hne Hd HD Hsz. subst d. destruct (par1_encode_shape (length D) p D size Hne HD) as [_ HP].
  unfold rs_verify.
  match goal with |- (if ?c then _ else _) = _ => assert (E : c = false) end.
  { rewrite <- Bool.not_true_iff_false. intros Hex. apply existsb_exists in Hex.
    destruct Hex as (o & Hin & Ho). apply in_map_iff in Hin. destruct Hin as (x & <- & Hin).
    apply Nat.eqb_eq in Ho. apply in_app_or in Hin. rewrite Forall_forall in HD, HP.
    destruct Hin as [Hin|Hin]; [rewrite (HD x Hin) in Ho|rewrite (HP x Hin) in Ho]; exact (Hsz Ho). }
  rewrite E, map_unwrap_some.
  rewrite firstn_app_exact, skipn_app_exact. rewrite forallb_eq_self. reflexivity.
Qed.

(** * the side conditions, unpacked *)

Lemma Forall2_Forall_r {A B} (P : B -> Prop) (R : A -> B -> Prop) : forall (a : list A) (b : list B),
  Forall2 R a b -> (forall x y, In x a -> R x y -> P y) -> Forall P b.
Proof.
  intros a b F. induction F as [|x y a b Hr F IH]; intros H; constructor.
  - apply (H x y); [left; reflexivity|exact Hr].
  - apply IH. intros x' y' Hin. apply H. right. exact Hin.
Qed.

Lemma Forall2_len {A B} (R : A -> B -> Prop) : forall (a : list A) (b : list B), Forall2 R a b -> length a = length b.
Proof. intros a b F. induction F as [|x y a b _ _ IH]; [reflexivity|]. cbn [length]. rewrite IH. reflexivity. Qed.

Lemma c4_of_forall2 ix (fs2 : list (list N * bytes)) (Q : list N -> bool) : forall (files : list (list N)) (datas : list bytes),
  Forall2 (fun f d => if Q f then fs_lookup fs2 f = Some d else read_res fs2 f = Err ENotExist) files datas ->
  Forall (fun f => join2 (dir ix) (base f) = f) files ->
  Forall (fun t : bytes * (bytes * bool) =>
            if snd (snd t) then fs_lookup fs2 (join2 (dir ix) (fst t)) = Some (fst (snd t))
            else read_res fs2 (join2 (dir ix) (fst t)) = Err ENotExist)
         (combine (map base files) (combine datas (map Q files))).
Proof.
  intros files datas F. induction F as [|f d files datas Hr F IH]; intros Hj; [constructor|].
  inversion Hj as [|? ? Hf Hj']; subst. cbn [map combine]. constructor; [|apply IH; exact Hj'].
  cbn [fst snd]. rewrite Hf. exact Hr.
Qed.

Lemma erase_map_true {A} : forall (files : list (list N)) (datas : list A), length files = length datas ->
  erase (map (fun _ => true) files) datas = map Some datas.
Proof.
  induction files as [|f files IH]; intros [|d datas] H; cbn [length] in H; try lia; [reflexivity|].
  cbn [map]. rewrite erase_cons, IH by lia. reflexivity.
Qed.

Lemma create_setup md5 parPath files nvol fs st' :
  par1_create md5 parPath files nvol (io_init fs []) = (Ok tt, st') ->
  let nv := if (nvol <=? 0)%Z then 3%nat else Z.to_nat nvol in
  Forall (fun f => input_name_ok (base f)) files ->
  (forall f d, In f files -> fs_lookup fs f = Some d -> N.of_nat (length d) < 2^64) ->
  exists datas,
    Forall2 (fun f d => fs_lookup fs f = Some d) files datas /\
    str_eqb (ext parPath) EXT_PAR = true /\ length (map base files) = length datas /\ datas <> [] /\
    (length datas + nv <= 256)%nat /\ (0 < nv)%nat /\ max_len datas <> 0%nat /\
    Forall name_ok (map base files) /\ Forall (fun d : bytes => N.of_nat (length d) < 2^64) datas /\
    NoDup files /\ length files = length datas /\
    io_fs st' = apply_writes (create_outs md5 parPath nv (map base files) datas) fs.
Proof.
  intros HC nv Hnames Hlen.
  destruct (par1_create_ok_inv md5 parPath files nvol fs st' HC) as (datas & He & Hne & Hnd & HF & Hcap & Hnv & Hsz & Hfs).
  fold nv in Hcap, Hnv, Hfs.
  pose proof (Forall2_len _ _ _ HF) as HL.
  exists datas. split; [exact HF|]. split; [exact He|]. split; [rewrite map_length; exact HL|].
  split; [destruct datas; [destruct files; [congruence|discriminate HL]|discriminate]|].
  split; [exact Hcap|]. split; [exact Hnv|]. split; [exact Hsz|].
  split.
  { apply Forall_forall. intros n Hn. apply in_map_iff in Hn. destruct Hn as (f & <- & Hf).
    rewrite Forall_forall in Hnames. apply input_name_name_ok. exact (Hnames f Hf). }
  split.
  { apply (Forall2_Forall_r _ _ _ _ HF). intros f d Hin Hl. exact (Hlen f d Hin Hl). }
  split; [exact (NoDup_map_inv base files Hnd)|]. split; [exact HL|exact Hfs].
Qed.

Lemma Forall2_impl_in {A B} (R R' : A -> B -> Prop) : forall (a : list A) (b : list B),
  Forall2 R a b -> (forall x y, In x a -> R x y -> R' x y) -> Forall2 R' a b.
Proof.
  intros a b F. induction F as [|x y a b Hr F IH]; intros H; constructor.
  - apply H; [left; reflexivity|exact Hr].
  - apply IH. intros x' y' Hin. apply H. right. exact Hin.
Qed.

(** * RT1. CREATE, THEN VERIFY IS CLEAN *)

(* Verify on a loaded state whose data slots are all filled with the data Create read and whose parity
   slots are the first np parity shards of that data *)
Lemma verify_on_created_state (md5 : bytes -> bytes) (s : p1state) (datas : list bytes) np all :
  datas <> [] -> max_len datas <> 0%nat ->
  s_data s = map Some datas -> s_size s = max_len datas ->
  s_parity s = map Some (par1_encode (length datas) np (map (pad (max_len datas)) datas)) ->
  (if all && Nat.eqb (fc_unusable (file_counts s)) 0 && Nat.eqb (fc_punusable (file_counts s)) 0 then
     match build_shards s with
     | Ok sh => match rs_verify (length (s_data s)) (length (s_parity s)) sh with
                | Ok ok => Ok (file_counts s, ok)
                | Err x => Err x
                | Panic q => Panic q
                end
     | Err x => Err x
     | Panic q => Panic q
     end
   else Ok (file_counts s, false)) = Ok (file_counts s, all) /\
  fc_unusable (file_counts s) = 0%nat /\ fc_punusable (file_counts s) = 0%nat /\
  fc_usable (file_counts s) = length datas /\ fc_pusable (file_counts s) = np.
Proof.
  intros Hne Hsz Ed Es Ep.
  set (size := max_len datas) in *. set (D := map (pad size) datas) in *.
  assert (HD : Forall (fun x : bytes => length x = size) D).
  { unfold D. apply Forall_forall. intros x Hx. apply in_map_iff in Hx. destruct Hx as (d & <- & Hd).
    apply pad_length. pose proof (max_len_ge datas) as G. rewrite Forall_forall in G. exact (G d Hd). }
  assert (HDne : D <> []) by (unfold D; destruct datas; [congruence|discriminate]).
  destruct (par1_encode_shape (length datas) np D size HDne HD) as [LP _].
  assert (C1 : fc_unusable (file_counts s) = 0%nat) by (cbn [file_counts fc_unusable]; rewrite Ed; apply count_none1_map_some).
  assert (C2 : fc_punusable (file_counts s) = 0%nat) by (cbn [file_counts fc_punusable]; rewrite Ep; apply count_none1_map_some).
  assert (C3 : fc_usable (file_counts s) = length datas) by (cbn [file_counts fc_usable]; rewrite Ed; apply count_present_map_some).
  assert (C4 : fc_pusable (file_counts s) = np).
  { cbn [file_counts fc_pusable]. rewrite Ep, count_present_map_some. exact LP. }
  split; [|repeat split; assumption].
  rewrite C1, C2. cbn [Nat.eqb]. rewrite !andb_true_r.
  destruct all; [|reflexivity].
  destruct (build_shards_total md5 s) as (sh & -> & Esh).
  { rewrite Ed, Es. apply Forall_forall. intros o Hin d ->. apply in_map_iff in Hin. destruct Hin as (d' & E & Hin).
    injection E as ->. pose proof (max_len_ge datas) as G. rewrite Forall_forall in G. exact (G d Hin). }
  rewrite Ed, Es, Ep in Esh. rewrite map_map in Esh. fold size in Esh.
  change (map (fun x : bytes => Some (x ++ zeros (size - length x))) datas) with (map (fun x : bytes => Some (pad size x)) datas) in Esh.
  rewrite <- (map_map (pad size) Some) in Esh. fold D in Esh. rewrite <- map_app in Esh.
  rewrite Ed, Ep, !map_length, LP. subst sh.
  rewrite <- (map_length (pad size) datas). fold D.
  rewrite (rs_verify_consistent (length D) np D size HDne eq_refl HD Hsz). reflexivity.
Qed.

(* the set hash of the set Create makes from the input files, in terms of the file map before Create *)
Definition input_set_hash (md5 : bytes -> bytes) (fs : list (list N * bytes)) (files : list (list N)) : bytes :=
  md5 (flat_map (fun f => match fs_lookup fs f with Some d => md5 d | None => [] end) files).

Lemma input_set_hash_created md5 fs : forall files datas, Forall2 (fun f d => fs_lookup fs f = Some d) files datas ->
  set_hash md5 (mk_entries md5 (map base files) datas) = input_set_hash md5 fs files.
Proof.
  intros files datas F. unfold set_hash, input_set_hash, mk_entries. f_equal.
  induction F as [|f d files datas Hl F IH]; [reflexivity|].
  cbn [map combine flat_map]. rewrite Hl. cbn [mk_entry e_hash snd]. rewrite IH. reflexivity.
Qed.

(* a path that is no directory and holds, if anything, a file that is not a volume of the set: the loader skips it *)
Lemma stale_skipped md5 fs p sh k : is_dir fs p = false ->
  (forall b, fs_lookup fs p = Some b -> not_member md5 sh k b) -> vol_skipped md5 sh k (read_res fs p).
Proof.
  intros Hd Hb. unfold read_res, vol_skipped. destruct (fs_lookup fs p) as [b|].
  - right. exists b. split; [reflexivity|apply Hb; reflexivity].
  - left. rewrite Hd. reflexivity.
Qed.

(* the old form of the premise (nothing there) is a special case *)
Lemma absent_skipped md5 fs p sh k : fs_lookup fs p = None -> is_dir fs p = false -> vol_skipped md5 sh k (read_res fs p).
Proof. intros H1 H2. apply stale_skipped; [exact H2|]. intros b Hb. rewrite H1 in Hb. discriminate Hb. Qed.

(* when Create returns success no input is the index or one of the volumes written: the check of Encoder.Write passed *)
Lemma par1_create_ok_inputs_not_outputs md5 parPath files nvol st st' :
  par1_create md5 parPath files nvol st = (Ok tt, st') ->
  let nv := if (nvol <=? 0)%Z then 3%nat else Z.to_nat nvol in
  Forall (fun f => f <> parPath /\ forall k, (1 <= k <= nv)%nat -> f <> volume_path parPath (N.of_nat k)) files.
Proof.
  intros H nv. unfold par1_create in H.
  destruct (str_eqb (ext parPath) EXT_PAR) eqn:Ee; cbn [negb] in H; [|discriminate H].
  destruct files as [|f0 files']; [discriminate H|]. set (files := f0 :: files') in *.
  fold nv in H.
  destruct (has_dup (map base files)); [discriminate H|].
  destruct (Par1.io_reads files st) as [[datas|e|q] st1]; try discriminate H.
  destruct (par1_outputs md5 parPath nv (map base files) datas) as [outs|e|q] eqn:EO; try discriminate H.
  destruct (par1_outputs_ok _ _ _ _ _ _ Ee EO) as (_ & _ & ->).
  lazymatch type of H with (if ?c then _ else _) = _ => destruct c eqn:ECK; [discriminate H|] end.
  clear H. apply Forall_forall. intros f Hf.
  assert (Hkey : forall p, In p (map fst (create_outs md5 parPath nv (map base files) datas)) -> f <> p).
  { intros p Hp E. subst p. apply in_map_iff in Hp. destruct Hp as (o & Ho & Hin).
    destruct (str_eqb (clean f) (clean (fst o))) eqn:E1.
    - assert (T : existsb (fun f => existsb (fun o : list N * bytes => str_eqb (clean f) (clean (fst o)))
                     (create_outs md5 parPath nv (map base files) datas)) files = true).
      { apply existsb_exists. exists f. split; [exact Hf|]. apply existsb_exists. exists o. split; [exact Hin|exact E1]. }
      rewrite T in ECK. discriminate ECK.
    - rewrite Ho, str_eqb_refl in E1. discriminate E1. }
  split.
  - apply Hkey. apply (proj2 (in_create_outs_keys md5 parPath nv _ _ Ee _)). left. reflexivity.
  - intros k Hk. apply Hkey. apply (proj2 (in_create_outs_keys md5 parPath nv _ _ Ee _)). right. exists (k - 1)%nat. split; [lia|].
    replace (S (k - 1)) with k by lia. reflexivity.
Qed.

Theorem par1_create_then_verify_clean : forall md5, (forall x, length (md5 x) = 16%nat) ->
  forall parPath files nvol fs st' all,
  par1_create md5 parPath files nvol (io_init fs []) = (Ok tt, st') ->
  let nv := if (nvol <=? 0)%Z then 3%nat else Z.to_nat nvol in
  Forall (fun f => input_name_ok (base f)) files ->
  Forall (fun f => join2 (dir parPath) (base f) = f) files ->
  (forall f d, In f files -> fs_lookup fs f = Some d -> N.of_nat (length d) < 2^64) ->
  (forall k, (nv < k <= Nat.min (256 - length files) 99)%nat ->
     is_dir fs (volume_path parPath (N.of_nat k)) = false /\
     forall b, fs_lookup fs (volume_path parPath (N.of_nat k)) = Some b ->
               not_member md5 (input_set_hash md5 fs files) (N.of_nat k) b) ->
  exists c st2, par1_verify md5 parPath all (io_init (io_fs st') []) = (Ok (c, all), st2) /\
    fc_unusable c = 0%nat /\ fc_punusable c = 0%nat /\ fc_usable c = length files /\ fc_pusable c = Nat.min nv 99.
Proof.
  intros md5 md5_len parPath files nvol fs st' all HC nv Hnames Hjoin Hlens Hstale.
  pose proof (par1_create_ok_inputs_not_outputs md5 parPath files nvol _ _ HC) as Hdisj. cbv zeta in Hdisj. fold nv in Hdisj.
  destruct (create_setup md5 parPath files nvol fs st' HC Hnames Hlens)
    as (datas & HF & He & Hlen & Hne & Hcap & Hnv & Hsz & Hnok & Hdl & Hndf & HL & Hfs).
  fold nv in Hcap, Hnv, Hfs.
  set (keep := map (fun _ : list N => true) files).
  destruct (p1_load_created md5 md5_len parPath (map base files) datas nv (io_fs st') keep He Hlen Hne Hcap Hnv Hsz Hnok Hdl)
    as (v & st1 & PL & _).
  - unfold keep. rewrite map_length. exact HL.
  - rewrite Hfs. apply created_index. exact He.
  - intros j Hj. rewrite Hfs. apply created_volume; [exact He|lia].
  - intros k Hk. rewrite Hfs, created_volume_absent by (try exact He; lia).
    destruct (Hstale k ltac:(lia)) as [H1 H2]. rewrite (input_set_hash_created md5 fs files datas HF).
    apply stale_skipped; assumption.
  - apply (c4_of_forall2 parPath (io_fs st') (fun _ => true)); [|exact Hjoin].
    apply (Forall2_impl_in _ _ _ _ HF). intros f d Hin Hl. rewrite Hfs.
    rewrite Forall_forall in Hdisj. destruct (Hdisj f Hin) as [D1 D2].
    rewrite created_other_lookup; [exact Hl|..]; try exact He; try exact D1. intros j Hj. apply D2. lia.
  - unfold keep in PL. rewrite (erase_map_true files datas HL) in PL.
    match type of PL with _ = (Ok ?s0, _) => set (s := s0) in * end.
    destruct (verify_on_created_state md5 s datas (Nat.min nv 99) all Hne Hsz eq_refl eq_refl eq_refl)
      as (EV & C1 & C2 & C3 & C4).
    exists (file_counts s), st1. split; [|rewrite <- HL in C3; repeat split; assumption].
    unfold par1_verify. rewrite PL. cbv zeta.
    destruct (all && Nat.eqb (fc_unusable (file_counts s)) 0 && Nat.eqb (fc_punusable (file_counts s)) 0).
    + destruct (build_shards s) as [sh|x|q]; try discriminate EV.
      destruct (rs_verify (length (s_data s)) (length (s_parity s)) sh) as [b|x|q]; try discriminate EV.
      apply Ok_inj in EV. rewrite EV. reflexivity.
    + apply Ok_inj in EV. rewrite EV. reflexivity.
Qed.

Print Assumptions par1_create_then_verify_clean.

(** * RT2. CREATE, LOSE FILES, REPAIR *)

(* deleting a set of paths from the file map *)
Definition fs_remove (lost : list (list N)) (fs : list (list N * bytes)) : list (list N * bytes) :=
  filter (fun kv : list N * bytes => negb (existsb (str_eqb (fst kv)) lost)) fs.

Lemma existsb_str_in p lost : existsb (str_eqb p) lost = true <-> In p lost.
Proof.
  rewrite existsb_exists. split.
  - intros (x & Hin & E). apply str_eqb_eq in E. subst x. exact Hin.
  - intros Hin. exists p. split; [exact Hin|apply str_eqb_refl].
Qed.

Lemma remove_lookup_in lost : forall fs p, In p lost -> fs_lookup (fs_remove lost fs) p = None.
Proof.
  induction fs as [|[q d] fs IH]; intros p Hp; [reflexivity|].
  unfold fs_remove in *. cbn [filter fst].
  destruct (existsb (str_eqb q) lost) eqn:E; cbn [negb]; [apply IH; exact Hp|].
  cbn [fs_lookup]. destruct (str_eqb q p) eqn:Eq; [|apply IH; exact Hp].
  apply str_eqb_eq in Eq. subst q. apply existsb_str_in in Hp. congruence.
Qed.

Lemma remove_lookup_other lost : forall fs p, ~ In p lost -> fs_lookup (fs_remove lost fs) p = fs_lookup fs p.
Proof.
  induction fs as [|[q d] fs IH]; intros p Hp; [reflexivity|].
  unfold fs_remove in *. cbn [filter fst fs_lookup].
  destruct (existsb (str_eqb q) lost) eqn:E; cbn [negb].
  - destruct (str_eqb q p) eqn:Eq; [|apply IH; exact Hp].
    apply str_eqb_eq in Eq. subst q. apply existsb_str_in in E. contradiction.
  - cbn [fs_lookup]. destruct (str_eqb q p); [reflexivity|apply IH; exact Hp].
Qed.

Lemma remove_is_dir lost fs p : is_dir fs p = false -> is_dir (fs_remove lost fs) p = false.
Proof.
  unfold is_dir, fs_remove. intros H. rewrite <- Bool.not_true_iff_false in *. intros Hex. apply H.
  apply existsb_exists in Hex. destruct Hex as (e & Hin & He). apply filter_In in Hin.
  apply existsb_exists. exists e. split; [exact (proj1 Hin)|exact He].
Qed.

Lemma count_present_erase {A} : forall (k : list bool) (l : list A), length k = length l ->
  count_present (erase k l) = length (filter (fun b : bool => b) k).
Proof.
  unfold count_present.
  induction k as [|b k IH]; intros [|x l] H; cbn [length] in H; try lia; [reflexivity|].
  rewrite erase_cons. destruct b; cbn [filter length]; rewrite IH by lia; reflexivity.
Qed.

Lemma filter_map_split {A} (Q : A -> bool) : forall l : list A,
  (length (filter (fun b : bool => b) (map Q l)) + length (filter (fun x => negb (Q x)) l) = length l)%nat.
Proof.
  induction l as [|x l IH]; [reflexivity|]. cbn [map filter]. destruct (Q x); cbn [negb length]; lia.
Qed.

Lemma NoDup_map_filter {A B} (f : A -> B) (g : A -> bool) : forall l, NoDup (map f l) -> NoDup (map f (filter g l)).
Proof.
  induction l as [|x l IH]; intros H; [constructor|]. cbn [map] in H. apply NoDup_cons_iff in H. destruct H as [Hni Hnd].
  cbn [filter]. destruct (g x); [|apply IH; exact Hnd].
  cbn [map]. constructor; [|apply IH; exact Hnd].
  intros Hin. apply Hni. apply in_map_iff in Hin. destruct Hin as (y & E & Hy). apply filter_In in Hy.
  apply in_map_iff. exists y. split; [exact E|exact (proj1 Hy)].
Qed.

Lemma map_fst_combine_eq {A B} : forall (a : list A) (b : list B), length a = length b -> map fst (combine a b) = a.
Proof.
  induction a as [|x a IH]; intros [|y b] H; cbn [length] in H; try lia; [reflexivity|].
  cbn [combine map fst]. rewrite IH by lia. reflexivity.
Qed.

Lemma Forall2_in_l {A B} (R : A -> B -> Prop) : forall (a : list A) (b : list B), Forall2 R a b ->
  forall x, In x a -> exists y, In (x, y) (combine a b) /\ R x y.
Proof.
  intros a b F. induction F as [|x y a b Hr F IH]; intros x' Hin; [destruct Hin|].
  destruct Hin as [<-|Hin].
  - exists y. split; [left; reflexivity|exact Hr].
  - destruct (IH x' Hin) as (y' & Hy & Hr'). exists y'. split; [right; exact Hy|exact Hr'].
Qed.

Lemma Forall2_in_combine {A B} (R : A -> B -> Prop) : forall (a : list A) (b : list B), Forall2 R a b ->
  forall x y, In (x, y) (combine a b) -> R x y.
Proof.
  intros a b F. induction F as [|x y a b Hr F IH]; intros x' y' Hin; [destruct Hin|].
  destruct Hin as [E|Hin]; [injection E as <- <-; exact Hr|exact (IH x' y' Hin)].
Qed.

Section Repair.
  Variable md5 : bytes -> bytes.

  (* the write-out phase on exactly reconstructed shards: succeeds, and writes the original bytes of
     every file whose slot was empty *)
  Lemma write_repaired_exact ix size (Q : list N -> bool) : forall (files : list (list N)) (datas : list bytes) done st,
    io_sched st = [] -> length files = length datas ->
    Forall (fun f => base (base f) = base f /\ join2 (dir ix) (base f) = f) files ->
    Forall (fun d : bytes => (length d <= size)%nat) datas ->
    exists rp st',
      p1_write_repaired md5 ix
        (combine (mk_entries md5 (map base files) datas) (combine (erase (map Q files) datas) (map (pad size) datas)))
        done st = ((Ok tt, rp), st') /\
      io_fs st' = apply_writes (filter (fun fd : list N * bytes => negb (Q (fst fd))) (combine files datas)) (io_fs st) /\
      rp = done ++ map fst (filter (fun fd : list N * bytes => negb (Q (fst fd))) (combine files datas)).
  Proof.
    unfold mk_entries.
    induction files as [|f files IH]; intros [|d datas] done st Hs HL Hf Hd; cbn [length] in HL; try lia.
    - exists done, st. split; [reflexivity|]. split; [reflexivity|]. cbn [combine filter map]. symmetry. apply app_nil_r.
    - inversion Hf as [|? ? [Hb Hj] Hf']; subst. inversion Hd as [|? ? Hdl Hd']; subst.
      cbn [map combine]. rewrite erase_cons. cbn [combine filter fst]. destruct (Q f) eqn:EQ; cbn [negb].
      + cbn [p1_write_repaired]. apply IH; [exact Hs|lia|exact Hf'|exact Hd'].
      + cbn [p1_write_repaired mk_entry e_len e_hash e_h16 fst snd].
        rewrite (pad_length size d Hdl).
        destruct (N.ltb_spec (N.of_nat size) (N.of_nat (length d))) as [Lt|_]; [lia|].
        rewrite Nat2N.id, pad_firstn, !bytes_eqb_refl. cbn [negb].
        match goal with |- context [entry_path ix ?e] => rewrite (entry_path_bare ix e Hb) end. unfold epath. cbn [mk_entry e_name fst]. rewrite Hj.
        rewrite (io_write_nosched f d st Hs).
        destruct (IH datas (done ++ [f]) (tick st (EvWrite f d true) (fs_set (io_fs st) f d)) Hs ltac:(lia) Hf' Hd')
          as (rp & st' & E & Hfs & Hrp).
        exists rp, st'. split; [exact E|]. split; [rewrite Hfs; reflexivity|].
        rewrite Hrp, <- app_assoc. reflexivity.
  Qed.
End Repair.

Lemma filter_id_repeat_true n : length (filter (fun b : bool => b) (repeat true n)) = n.
Proof. induction n as [|n IH]; [reflexivity|]. cbn [repeat filter length]. rewrite IH. reflexivity. Qed.

Lemma pad_wf size d : wf_bytes d -> Forall (wfe 256) (pad size d).
Proof.
  intros H. unfold pad. apply Forall_app. split; [exact H|].
  unfold zeros. apply Forall_forall. intros x Hx. apply repeat_spec in Hx. subst x. unfold wfe. reflexivity.
Qed.

(** * no singular case: the transposed Vandermonde system on distinct points *)

(* sum over pairs (a, x) of a^r * x *)
Fixpoint vsum (r : N) (l : list (N * N)) : N :=
  match l with [] => 0 | p :: t => N.lxor (g8mul (g8pow (fst p) r) (snd p)) (vsum r t) end.

Definition wfp (p : N * N) : Prop := fst p < 256 /\ snd p < 256.

Lemma vsum_lt r : forall l, Forall wfp l -> vsum r l < 256.
Proof.
  induction l as [|p t IH]; intros H; cbn [vsum]; [lia|]. inversion H as [|? ? [Ha Hx] Ht]; subst.
  apply lxor_lt8; [apply g8mul_lt; [apply g8pow_lt; exact Ha|exact Hx]|apply IH; exact Ht].
Qed.

Lemma vsum_zero r : forall l, Forall (fun p : N * N => snd p = 0) l -> vsum r l = 0.
Proof.
  induction l as [|p t IH]; intros H; cbn [vsum]; [reflexivity|]. inversion H as [|? ? Hx Ht]; subst.
  rewrite Hx, g8mul_0_r, (IH Ht). reflexivity.
Qed.

Lemma lxor_eq_0 a b : N.lxor a b = 0 -> a = b.
Proof. apply N.lxor_eq. Qed.

Lemma lxor_swap4' a b c d : N.lxor (N.lxor a b) (N.lxor c d) = N.lxor (N.lxor a c) (N.lxor b d).
Proof.
  rewrite !N.lxor_assoc. f_equal. rewrite <- !N.lxor_assoc. f_equal. apply N.lxor_comm.
Qed.

Lemma g8_nzd k s : k < 256 -> s < 256 -> k <> 0 -> g8mul k s = 0 -> s = 0.
Proof.
  intros Hk Hs Hnz H.
  assert (Hk' : 0 < k < 256) by lia.
  pose proof (g8inv_lt k Hk') as Hi. pose proof (g8mul_inv k Hk') as Hinv.
  rewrite <- (g8mul_1_l s Hs), <- Hinv, (g8mul_comm k (g8inv k) Hk Hi).
  rewrite (g8mul_assoc (g8inv k) k s Hi Hk Hs), H. apply g8mul_0_r.
Qed.

(* eliminating the first unknown: E_{r+1} + a1 * E_r *)
Definition elim1 (a1 : N) (l : list (N * N)) : list (N * N) :=
  map (fun p : N * N => (fst p, g8mul (N.lxor (fst p) a1) (snd p))) l.

Lemma vsum_elim1 a1 r : a1 < 256 -> forall l, Forall wfp l ->
  vsum r (elim1 a1 l) = N.lxor (vsum (N.succ r) l) (g8mul a1 (vsum r l)).
Proof.
  intros Ha1. induction l as [|[a x] t IH]; intros H; cbn [elim1 map vsum fst snd].
  - rewrite g8mul_0_r. reflexivity.
  - inversion H as [|? ? [Ha Hx] Ht]; subst. cbn [fst snd] in Ha, Hx.
    fold (elim1 a1 t). rewrite (IH Ht).
    pose proof (g8pow_lt a r Ha) as Hp. pose proof (vsum_lt r t Ht) as Hv.
    rewrite g8mul_lxor_r_any. rewrite lxor_swap4'. f_equal.
    rewrite g8pow_succ. set (p := g8pow a r) in *.
    assert (Hpx : g8mul p x < 256) by (apply g8mul_lt; assumption).
    rewrite (g8mul_comm (N.lxor a a1) x) by (try apply lxor_lt8; assumption).
    rewrite g8mul_lxor_r_any, g8mul_lxor_r_any. f_equal.
    + rewrite <- (g8mul_assoc p x a) by assumption. rewrite (g8mul_comm (g8mul p x) a) by assumption.
      symmetry. apply g8mul_assoc; assumption.
    + rewrite <- (g8mul_assoc p x a1) by assumption. apply g8mul_comm; assumption.
Qed.

Theorem vdm_kernel : forall n l, length l = n -> NoDup (map fst l) -> Forall wfp l ->
  (forall r, (r < n)%nat -> vsum (N.of_nat r) l = 0) -> Forall (fun p : N * N => snd p = 0) l.
Proof.
  induction n as [|n IH]; intros l Hl Hnd Hwf HE.
  - destruct l; [constructor|discriminate Hl].
  - destruct l as [|[a1 v1] l']; [discriminate Hl|]. cbn [length] in Hl.
    cbn [map fst] in Hnd. apply NoDup_cons_iff in Hnd. destruct Hnd as [Hni Hnd'].
    inversion Hwf as [|? ? [Ha1 Hv1] Hwf']; subst. cbn [fst snd] in Ha1, Hv1.
    assert (Hw'' : Forall wfp (elim1 a1 l')).
    { apply Forall_forall. intros q Hq. unfold elim1 in Hq. apply in_map_iff in Hq. destruct Hq as (p & <- & Hp).
      rewrite Forall_forall in Hwf'. destruct (Hwf' p Hp) as [Hpa Hpx]. split; cbn [fst snd]; [exact Hpa|].
      apply g8mul_lt; [apply lxor_lt8; assumption|exact Hpx]. }
    assert (Hz : Forall (fun p : N * N => snd p = 0) (elim1 a1 l')).
    { apply (IH (elim1 a1 l')).
      - unfold elim1. rewrite map_length. lia.
      - unfold elim1. rewrite map_map. cbn [fst]. exact Hnd'.
      - exact Hw''.
      - intros r Hr. rewrite (vsum_elim1 a1 _ Ha1 l' Hwf').
        pose proof (HE (S r) ltac:(lia)) as E1. pose proof (HE r ltac:(lia)) as E0.
        rewrite Nat2N.inj_succ in E1. cbn [vsum fst snd] in E1, E0.
        apply lxor_eq_0 in E1, E0. rewrite <- E1, <- E0.
        rewrite g8pow_succ.
        pose proof (g8pow_lt a1 (N.of_nat r) Ha1) as Hp.
        rewrite (g8mul_assoc a1 _ v1 Ha1 Hp Hv1). apply N.lxor_nilpotent. }
    assert (Hz' : Forall (fun p : N * N => snd p = 0) l').
    { apply Forall_forall. intros p Hp. rewrite Forall_forall in Hz, Hwf'.
      destruct (Hwf' p Hp) as [Hpa Hpx].
      specialize (Hz (fst p, g8mul (N.lxor (fst p) a1) (snd p))). cbn [snd] in Hz.
      apply (g8_nzd (N.lxor (fst p) a1) (snd p)); [apply lxor_lt8; assumption|exact Hpx| |].
      - intros E. apply lxor_eq_0 in E. apply Hni. rewrite <- E. apply in_map. exact Hp.
      - apply Hz. unfold elim1. apply in_map_iff. exists p. split; [reflexivity|exact Hp]. }
    constructor; [|exact Hz']. cbn [snd].
    pose proof (HE 0%nat ltac:(lia)) as E0. cbn [vsum fst snd N.of_nat] in E0.
    rewrite (vsum_zero 0 l' Hz'), N.lxor_0_r, g8pow_0, (g8mul_1_l v1 Hv1) in E0. exact E0.
Qed.

(** ** from the kernel equations of the decoding matrix to the Vandermonde system *)

Definition nz (p : N * N) : bool := negb (snd p =? 0).

Lemma vsum_filter_nz r : forall l, vsum r (filter nz l) = vsum r l.
Proof.
  induction l as [|[a x] t IH]; [reflexivity|]. cbn [filter]. unfold nz at 1. cbn [snd].
  destruct (N.eqb_spec x 0) as [->|Hx]; cbn [negb vsum fst snd]; rewrite IH; [|reflexivity].
  rewrite g8mul_0_r, N.lxor_0_l. reflexivity.
Qed.

Lemma dot_pm_vsum r : forall (cs : list nat) (v : list N), length cs = length v ->
  dot g8mul (map (fun c => g8pow (N.of_nat (S c)) r) cs) v = vsum r (combine (map (fun c => N.of_nat (S c)) cs) v).
Proof.
  induction cs as [|c cs IH]; intros [|x v] H; cbn [length] in H; try lia; [reflexivity|].
  cbn [map dot combine vsum fst snd]. rewrite IH by lia. reflexivity.
Qed.

Lemma count_nz_le : forall (keep : list bool) (pts v : list N), length keep = length v -> length pts = length v ->
  (forall i, (i < length v)%nat -> nth i keep false = true -> nth i v 0 = 0) ->
  (length (filter nz (combine pts v)) <= length (filter negb keep))%nat.
Proof.
  induction keep as [|b keep IH]; intros pts v H1 H2 H.
  { destruct v; [|discriminate H1]. destruct pts; cbn [combine filter length]; lia. }
  destruct v as [|x v]; [discriminate H1|]. destruct pts as [|a pts]; [discriminate H2|]. cbn [length] in *.
  cbn [combine filter]. specialize (IH pts v ltac:(lia) ltac:(lia)).
  assert (IH' : (length (filter nz (combine pts v)) <= length (filter negb keep))%nat).
  { apply IH. intros i Hi Hk. apply (H (S i)); [lia|exact Hk]. }
  destruct b; cbn [negb].
  - pose proof (H 0%nat ltac:(lia) eq_refl) as Hx. cbn [nth] in Hx. subst x. unfold nz at 1. cbn [snd N.eqb negb]. exact IH'.
  - cbn [length]. destruct (nz (a, x)); cbn [length]; lia.
Qed.

Lemma all_zero_zeros : forall (pts v : list N), length pts = length v ->
  Forall (fun p : N * N => snd p = 0) (combine pts v) -> v = zeros (length v).
Proof.
  induction pts as [|a pts IH]; intros [|x v] H F; cbn [length] in H; try lia; [reflexivity|].
  cbn [combine] in F. inversion F as [|? ? Hx F']; subst. cbn [snd] in Hx. subst x.
  cbn [length]. unfold zeros. cbn [repeat]. f_equal. apply IH; [lia|exact F'].
Qed.

Lemma dot_unit_row : forall k s i (v : list N), length v = k -> Forall (fun x => x < 256) v -> (s <= i < s + k)%nat ->
  dot g8mul (map (fun j => if Nat.eqb i j then 1 else 0) (seq s k)) v = nth (i - s) v 0.
Proof.
  assert (Z : forall k s i (v : list N), length v = k -> Forall (fun x => x < 256) v -> (i < s)%nat ->
            dot g8mul (map (fun j => if Nat.eqb i j then 1 else 0) (seq s k)) v = 0).
  { induction k as [|k IH]; intros s i [|x v] Hl Hv Hi; cbn [length] in Hl; try lia; [reflexivity|].
    inversion Hv as [|? ? Hx Hv']; subst. cbn [seq map dot].
    destruct (Nat.eqb_spec i s) as [E|_]; [lia|].
    rewrite (g8mul_comm 0 x) by (try exact Hx; lia). rewrite g8mul_0_r, (IH (S s) i v) by (try assumption; lia).
    reflexivity. }
  induction k as [|k IH]; intros s i [|x v] Hl Hv Hi; cbn [length] in Hl; try lia.
  inversion Hv as [|? ? Hx Hv']; subst. cbn [seq map dot].
  destruct (Nat.eqb_spec i s) as [->|Ne].
  - rewrite (g8mul_1_l x Hx), (Z k (S s) s v) by (try assumption; lia).
    rewrite Nat.sub_diag, N.lxor_0_r. reflexivity.
  - rewrite (g8mul_comm 0 x) by (try exact Hx; lia). rewrite g8mul_0_r, N.lxor_0_l.
    rewrite (IH (S s) i v) by (try assumption; lia).
    replace (i - s)%nat with (S (i - S s)) by lia. reflexivity.
Qed.

(** ** which shards the decoder uses *)

Lemma count_present_cons_some {A} (x : A) l : count_present (Some x :: l) = S (count_present l).
Proof. reflexivity. Qed.
Lemma count_present_cons_none {A} (l : list (option A)) : count_present (None :: l) = count_present l.
Proof. reflexivity. Qed.

Lemma tp_zero {A} (l : list (option A)) i : take_present 0 i l = [].
Proof. destruct l; reflexivity. Qed.

Lemma tp_app {A} : forall (l1 l2 : list (option A)) need i,
  take_present need i (l1 ++ l2) =
  take_present need i l1 ++ take_present (need - count_present l1) (i + length l1) l2.
Proof.
  induction l1 as [|[x|] l1 IH]; intros l2 need i.
  - cbn [app length]. change (count_present (@nil (option A))) with 0%nat.
    rewrite Nat.sub_0_r, Nat.add_0_r. destruct need; reflexivity.
  - destruct need as [|need]; [rewrite !tp_zero; reflexivity|].
    cbn [app take_present]. rewrite IH, count_present_cons_some. cbn [length Nat.sub app].
    replace (S i + length l1)%nat with (i + S (length l1))%nat by lia. reflexivity.
  - destruct need as [|need]; [rewrite !tp_zero; reflexivity|].
    cbn [app take_present]. rewrite IH, count_present_cons_none. cbn [length].
    replace (S i + length l1)%nat with (i + S (length l1))%nat by lia. reflexivity.
Qed.

Lemma tp_in_erase {A} : forall (keep : list bool) (l : list A) need i j, length keep = length l ->
  (count_present (erase keep l) <= need)%nat -> (j < length l)%nat -> nth j keep false = true ->
  exists s, In ((i + j)%nat, s) (take_present need i (erase keep l)).
Proof.
  induction keep as [|b keep IH]; intros [|x l] need i j Hl Hc Hj Hk; cbn [length] in *; try lia.
  rewrite erase_cons in *. destruct b.
  - rewrite count_present_cons_some in Hc. destruct need as [|need]; [lia|]. cbn [take_present].
    destruct j as [|j].
    + exists x. left. rewrite Nat.add_0_r. reflexivity.
    + cbn [nth] in Hk. destruct (IH l need (S i) j ltac:(lia) ltac:(lia) ltac:(lia) Hk) as [s Hs].
      exists s. right. replace (i + S j)%nat with (S i + j)%nat by lia. exact Hs.
  - rewrite count_present_cons_none in Hc. destruct j as [|j]; [cbn [nth] in Hk; discriminate Hk|].
    cbn [nth] in Hk. destruct (IH l need (S i) j ltac:(lia) Hc ltac:(lia) Hk) as [s Hs].
    exists s. replace (i + S j)%nat with (S i + j)%nat by lia.
    destruct need; [rewrite tp_zero in Hs; destruct Hs|exact Hs].
Qed.

Lemma tp_in_somes {A} : forall (vs : list A) need i r, (r < need)%nat -> (r < length vs)%nat ->
  exists s, In ((i + r)%nat, s) (take_present need i (map Some vs)).
Proof.
  induction vs as [|x vs IH]; intros need i r Hn Hr; cbn [length] in Hr; [lia|].
  destruct need as [|need]; [lia|]. cbn [map take_present]. destruct r as [|r].
  - exists x. left. rewrite Nat.add_0_r. reflexivity.
  - destruct (IH need (S i) r ltac:(lia) ltac:(lia)) as [s Hs]. exists s. right.
    replace (i + S r)%nat with (S i + r)%nat by lia. exact Hs.
Qed.

Lemma filter_bool_split : forall k : list bool,
  (length (filter (fun b : bool => b) k) + length (filter negb k) = length k)%nat.
Proof. induction k as [|b k IH]; [reflexivity|]. destruct b; cbn [filter negb length]; lia. Qed.

(* the decoding matrix when all of the first np parity shards are present and at most np data
   shards are missing has a trivial kernel *)
Lemma par1_sub_kernel_trivial nd np (keep : list bool) (D vs : list bytes) (v : list N) :
  length keep = nd -> length D = nd -> length vs = np -> (nd <= 255)%nat ->
  (length (filter negb keep) <= np)%nat ->
  wfv8 nd v ->
  mvec g8mul (map (fun ks : nat * bytes => enc_row nd np (fst ks))
                  (take_present nd 0 (erase keep D ++ map Some vs))) v = zeros nd ->
  v = zeros nd.
Proof.
  intros Hk HDl Hvs Hnd Hm [Hvl Hvw] HK.
  set (valid := take_present nd 0 (erase keep D ++ map Some vs)) in *.
  assert (Hrow : forall k s, In (k, s) valid -> dot g8mul (enc_row nd np k) v = 0).
  { intros k s Hin. unfold mvec in HK. rewrite map_map in HK.
    assert (Hin' : In (dot g8mul (enc_row nd np k) v) (zeros nd)).
    { rewrite <- HK. apply in_map_iff. exists (k, s). split; [reflexivity|exact Hin]. }
    unfold zeros in Hin'. apply repeat_spec in Hin'. exact Hin'. }
  assert (Hel : length (erase keep D) = nd) by (rewrite erase_length; lia).
  assert (Hcp : count_present (erase keep D) = length (filter (fun b : bool => b) keep))
    by (apply count_present_erase; lia).
  pose proof (filter_bool_split keep) as Hsp.
  assert (Ev : valid = take_present nd 0 (erase keep D) ++
                       take_present (nd - count_present (erase keep D)) (0 + nd) (map Some vs)).
  { unfold valid. rewrite tp_app, Hel. reflexivity. }
  (* present data rows: the unknown is zero *)
  assert (H1 : forall j, (j < length v)%nat -> nth j keep false = true -> nth j v 0 = 0).
  { intros j Hj Hkj. destruct (tp_in_erase keep D nd 0 j ltac:(lia) ltac:(lia) ltac:(lia) Hkj) as [s Hs].
    cbn [Nat.add] in Hs.
    pose proof (Hrow j s ltac:(rewrite Ev; apply in_or_app; left; exact Hs)) as E.
    unfold enc_row in E. destruct (Nat.ltb_spec j nd) as [_|Ge]; [|lia].
    rewrite (dot_unit_row nd 0 j v Hvl Hvw ltac:(lia)), Nat.sub_0_r in E. exact E. }
  (* parity rows 0 .. m-1 *)
  set (m := (nd - count_present (erase keep D))%nat) in *.
  set (pts := map (fun c => N.of_nat (S c)) (seq 0 nd)).
  assert (H2 : forall r, (r < m)%nat -> vsum (N.of_nat r) (combine pts v) = 0).
  { intros r Hr. destruct (tp_in_somes vs m (0 + nd) r Hr ltac:(lia)) as [s Hs]. cbn [Nat.add] in Hs.
    pose proof (Hrow (nd + r)%nat s ltac:(rewrite Ev; apply in_or_app; right; exact Hs)) as E.
    unfold enc_row in E. destruct (Nat.ltb_spec (nd + r) nd) as [Lt|_]; [lia|].
    replace (nd + r - nd)%nat with r in E by lia. unfold par1_pm in E.
    rewrite (nth_map_seq (fun r => map (fun c => g8pow (N.of_nat (S c)) (N.of_nat r)) (seq 0 nd)) [] np r ltac:(lia)) in E.
    rewrite dot_pm_vsum in E by (rewrite seq_length; lia). exact E. }
  assert (Hpl : length pts = length v) by (unfold pts; rewrite map_length, seq_length; lia).
  set (l' := filter nz (combine pts v)).
  assert (Hl' : (length l' <= m)%nat).
  { unfold l'. pose proof (count_nz_le keep pts v ltac:(lia) Hpl H1). unfold m. lia. }
  assert (Hz : Forall (fun p : N * N => snd p = 0) l').
  { apply (vdm_kernel (length l') l' eq_refl).
    - unfold l'. apply NoDup_map_filter. rewrite (map_fst_combine_eq pts v Hpl).
      unfold pts. apply FinFun.Injective_map_NoDup; [intros a b E; lia|apply seq_NoDup].
    - unfold l'. apply Forall_forall. intros [a x] Hin. apply filter_In in Hin. destruct Hin as [Hin _].
      split; cbn [fst snd].
      + apply in_combine_l in Hin. unfold pts in Hin. apply in_map_iff in Hin. destruct Hin as (c & <- & Hc).
        apply in_seq in Hc. lia.
      + apply in_combine_r in Hin. rewrite Forall_forall in Hvw. exact (Hvw x Hin).
    - intros r Hr. unfold l'. rewrite vsum_filter_nz. apply H2. lia. }
  assert (Hnil : l' = []).
  { destruct l' as [|p t] eqn:El; [reflexivity|]. exfalso.
    inversion Hz as [|? ? Hp _]; subst.
    assert (Hin : In p (filter nz (combine pts v))) by (fold l'; rewrite El; left; reflexivity).
    apply filter_In in Hin. destruct Hin as [_ Hn]. unfold nz in Hn. rewrite Hp in Hn. discriminate Hn. }
  rewrite <- Hvl. apply (all_zero_zeros pts v Hpl).
  apply Forall_forall. intros p Hin. destruct (nz p) eqn:En.
  - exfalso. assert (Hin' : In p l') by (unfold l'; apply filter_In; split; assumption).
    rewrite Hnil in Hin'. destruct Hin'.
  - unfold nz in En. apply negb_false_iff in En. apply N.eqb_eq in En. exact En.
Qed.

Lemma count_present_erase_mask {A} (keep : list bool) (l : list A) np (P : list A) :
  length keep = length l -> length P = np ->
  count_present (erase (keep ++ repeat true np) (l ++ P)) = (length (filter (fun b : bool => b) keep) + np)%nat.
Proof.
  intros H1 H2. rewrite count_present_erase by (rewrite !app_length, repeat_length; lia).
  rewrite filter_app, app_length, filter_id_repeat_true. reflexivity.
Qed.

(* Reconstruct with all of the first np parity shards present and at most np data shards missing
   never meets a singular matrix: the result is exactly the original shards *)
Theorem par1_reconstruct_parity_kept : forall nd np (D : list bytes) size (keep : list bool),
  (0 < nd)%nat -> (0 < np)%nat -> (nd + np <= 256)%nat -> wfm8 nd size D -> (0 < size)%nat ->
  length keep = nd -> (length (filter negb keep) <= np)%nat ->
  par1_reconstruct nd np (erase (keep ++ repeat true np) (D ++ par1_encode nd np D)) =
  Ok (D ++ par1_encode nd np D).
Proof.
  intros nd np D size keep Hnd Hnp Hcap HD Hsz Hk Hm. unfold bytes in *.
  pose proof HD as [HDl HDf].
  set (vs := par1_encode nd np D).
  assert (Hvs : wfm8 np size vs) by (apply par1_encode_wf; [exact Hnd|lia|exact HD]).
  pose proof Hvs as [Lvs _].
  set (keep' := keep ++ repeat true np). set (all := D ++ vs).
  assert (Hk' : length keep' = (nd + np)%nat) by (unfold keep'; rewrite app_length, repeat_length; lia).
  assert (Hall : length all = (nd + np)%nat) by (unfold all; rewrite app_length; lia).
  pose proof (par1_reconstruct_sound nd np D size keep' Hnd Hnp Hcap HD Hsz Hk') as S.
  cbv zeta in S. fold vs in S. fold all in S.
  pose proof (filter_bool_split keep) as Hsp.
  assert (Hcount : count_present (erase keep' all) = (length (filter (fun b : bool => b) keep) + np)%nat).
  { unfold keep', all. apply count_present_erase_mask; lia. }
  assert (Hsl : length (erase keep' all) = (nd + np)%nat) by (rewrite erase_length; lia).
  destruct (par1_reconstruct nd np (erase keep' all)) as [full|e|q] eqn:ER; [subst full; reflexivity| |contradiction].
  exfalso. destruct S as [-> | ->].
  - apply (par1_reconstruct_too_few nd np _ Hsl) in ER. unfold bytes in ER. lia.
  - unfold par1_reconstruct in ER. unfold bytes in *. rewrite Hsl, Nat.eqb_refl in ER. cbn [negb] in ER. cbv zeta in ER.
    destruct (Nat.eqb_spec (count_present (erase keep' all)) (nd + np)) as [_|_]; [discriminate ER|].
    destruct (Nat.ltb_spec (count_present (erase keep' all)) nd) as [_|_]; [discriminate ER|].
    set (valid := take_present nd 0 (erase keep' all)) in *.
    set (sub := map (fun ks : nat * list N => enc_row nd np (fst ks)) valid) in *.
    assert (Hsub : wfm8 nd nd sub).
    { split.
      - unfold sub, valid. rewrite map_length, take_present_used, used_parity_count, <- count_present_somes. lia.
      - apply Forall_forall. intros row Hrow. unfold sub in Hrow. apply in_map_iff in Hrow.
        destruct Hrow as ([k s] & <- & Hin). cbn [fst]. unfold valid in Hin. rewrite take_present_used in Hin.
        destruct (used_parity_spec [] keep' all nd 0 k s ltac:(lia) Hin) as [R1 _].
        apply enc_row_wf; lia. }
    pose proof (Inverse8_spec nd sub Hsub) as IS.
    destruct (Inverse8 sub) as [inv|e|q] eqn:EI; [discriminate ER| |exact IS]. subst e.
    apply (inverse_singular_iff 256 g8mul g8inv one_lt_256 lxor_lt8 g8mul_lt g8mul_comm g8mul_assoc g8mul_lxor_r
             g8mul_1_l g8inv_lt g8mul_inv nd sub Hnd Hsub) in EI.
    destruct EI as (v & Hv & Hvnz & Hker). apply Hvnz.
    assert (Eall : erase keep' all = erase keep D ++ map Some vs).
    { unfold keep', all. rewrite erase_app by lia. rewrite <- Lvs at 1. rewrite erase_all_true. reflexivity. }
    apply (par1_sub_kernel_trivial nd np keep D vs v Hk HDl Lvs ltac:(lia) Hm Hv).
    unfold sub, valid in Hker. rewrite Eall in Hker. exact Hker.
Qed.

Lemma map_fst_filter_combine (g : list N -> bool) : forall (files : list (list N)) (datas : list bytes),
  length files = length datas ->
  map fst (filter (fun fd : list N * bytes => g (fst fd)) (combine files datas)) = filter g files.
Proof.
  induction files as [|f files IH]; intros [|d datas] H; cbn [length] in H; try lia; [reflexivity|].
  cbn [combine filter fst]. destruct (g f); cbn [map fst]; rewrite IH by lia; reflexivity.
Qed.

(* Every volume Create wrote is kept (only input files are lost), so the decoder uses parity rows
   0 .. m-1 for m lost files: a Vandermonde system on distinct points, never singular. *)
Theorem par1_create_lose_repair_ok : forall md5, (forall x, length (md5 x) = 16%nat) ->
  forall parPath files nvol fs st' lost dbl r rp st3,
  par1_create md5 parPath files nvol (io_init fs []) = (Ok tt, st') ->
  let nv := if (nvol <=? 0)%Z then 3%nat else Z.to_nat nvol in
  Forall (fun f => input_name_ok (base f)) files ->
  Forall (fun f => join2 (dir parPath) (base f) = f) files ->
  (forall f d, In f files -> fs_lookup fs f = Some d -> N.of_nat (length d) < 2^64 /\ wf_bytes d) ->
  Forall (fun f => f <> parPath /\ forall k, (1 <= k <= nv)%nat -> f <> volume_path parPath (N.of_nat k)) files ->
  (forall k, (nv < k <= Nat.min (256 - length files) 99)%nat ->
     fs_lookup fs (volume_path parPath (N.of_nat k)) = None /\ is_dir fs (volume_path parPath (N.of_nat k)) = false) ->
  incl lost files -> (length lost <= Nat.min nv 99)%nat ->
  (forall f, In f lost -> is_dir (io_fs st') f = false) ->
  par1_repair md5 parPath dbl (io_init (fs_remove lost (io_fs st')) []) = ((r, rp), st3) ->
  r = Ok tt /\
  (forall f d, In f files -> fs_lookup fs f = Some d -> fs_lookup (io_fs st3) f = Some d) /\
  rp = filter (fun f => existsb (str_eqb f) lost) files.
Proof.
  intros md5 md5_len parPath files nvol fs st' lost dbl r rp st3 HC nv Hnames Hjoin Hlens Hdisj Hstale Hincl Hcount Hnodir HR.
  destruct (create_setup md5 parPath files nvol fs st' HC Hnames (fun f d Hin Hl => proj1 (Hlens f d Hin Hl)))
    as (datas & HF & He & Hlen & Hne & Hcap & Hnv & Hsz & Hnok & Hdl & Hndf & HL & Hfs).
  fold nv in Hcap, Hnv, Hfs.
  rewrite Forall_forall in Hdisj.
  set (Q := fun f : list N => negb (existsb (str_eqb f) lost)).
  assert (Qt : forall f, Q f = true -> ~ In f lost).
  { intros f H Hin. apply existsb_str_in in Hin. unfold Q in H. rewrite Hin in H. discriminate H. }
  assert (Qf : forall f, Q f = false -> In f lost).
  { intros f H. apply existsb_str_in. unfold Q in H. apply negb_false_iff in H. exact H. }
  set (keep := map Q files).
  set (fs2 := fs_remove lost (io_fs st')) in *.
  assert (Hkl : length keep = length datas) by (unfold keep; rewrite map_length; exact HL).
  assert (Hlost_ix : ~ In parPath lost).
  { intros Hin. destruct (Hdisj _ (Hincl _ Hin)) as [D1 _]. apply D1. reflexivity. }
  assert (Hlost_vol : forall j, (j < nv)%nat -> ~ In (volume_path parPath (N.of_nat (S j))) lost).
  { intros j Hj Hin. destruct (Hdisj _ (Hincl _ Hin)) as [_ D2]. apply (D2 (S j)); [lia|reflexivity]. }
  destruct (p1_load_created md5 md5_len parPath (map base files) datas nv fs2 keep He Hlen Hne Hcap Hnv Hsz Hnok Hdl Hkl)
    as (v & st1 & PL & _ & Hs1 & Hf1).
  - unfold fs2. rewrite remove_lookup_other by exact Hlost_ix. rewrite Hfs. apply created_index. exact He.
  - intros j Hj. unfold fs2. rewrite remove_lookup_other by (apply Hlost_vol; lia).
    rewrite Hfs. apply created_volume; [exact He|lia].
  - intros k Hk. left.
    assert (R : read_res (io_fs st') (volume_path parPath (N.of_nat k)) = Err ENotExist).
    { rewrite Hfs, created_volume_absent by (try exact He; lia).
      destruct (Hstale k ltac:(lia)) as [H1 H2]. unfold read_res. rewrite H1, H2. reflexivity. }
    unfold read_res in R.
    destruct (fs_lookup (io_fs st') (volume_path parPath (N.of_nat k))) eqn:E1; [discriminate R|].
    destruct (is_dir (io_fs st') (volume_path parPath (N.of_nat k))) eqn:E2; [discriminate R|].
    unfold read_res, fs2. rewrite (remove_is_dir lost _ _ E2).
    destruct (existsb (str_eqb (volume_path parPath (N.of_nat k))) lost) eqn:E3.
    + apply existsb_str_in in E3. rewrite (remove_lookup_in lost _ _ E3). reflexivity.
    + rewrite remove_lookup_other, E1; [reflexivity|]. intros Hin. apply existsb_str_in in Hin. congruence.
  - apply (c4_of_forall2 parPath fs2 Q); [|exact Hjoin].
    apply (Forall2_impl_in _ _ _ _ HF). intros f d Hin Hl. destruct (Q f) eqn:EQ.
    + unfold fs2. rewrite remove_lookup_other by (apply Qt; exact EQ). rewrite Hfs.
      destruct (Hdisj f Hin) as [D1 D2].
      rewrite created_other_lookup; [exact Hl|..]; try exact He; try exact D1. intros j Hj. apply D2. lia.
    + pose proof (Qf f EQ) as Hlo. unfold read_res, fs2.
      rewrite (remove_lookup_in lost _ _ Hlo), (remove_is_dir lost _ _ (Hnodir f Hlo)). reflexivity.
  - (* the repair *)
    set (size := max_len datas) in *. set (D := map (pad size) datas) in *.
    set (np := Nat.min nv 99) in *. set (nd := length datas) in *.
    set (vs := par1_encode nd np D) in *.
    set (entries := mk_entries md5 (map base files) datas) in *.
    assert (Hge : Forall (fun d : bytes => (length d <= size)%nat) datas) by apply max_len_ge.
    assert (HD : Forall (fun x : bytes => length x = size) D).
    { unfold D. apply Forall_forall. intros x Hx. apply in_map_iff in Hx. destruct Hx as (d & <- & Hd).
      apply pad_length. rewrite Forall_forall in Hge. exact (Hge d Hd). }
    assert (HDl : length D = nd) by (unfold D; apply map_length).
    assert (HDne : D <> []) by (unfold D; destruct datas; [congruence|discriminate]).
    destruct (par1_encode_shape nd np D size HDne HD) as [LP HP]. fold vs in LP, HP.
    assert (Hnp : (0 < np <= nv)%nat) by (unfold np; lia).
    assert (Hnd : (0 < nd)%nat) by (unfold nd; destruct datas; [congruence|cbn [length]; lia]).
    assert (HwfD : wfm8 nd size D).
    { split; [exact HDl|]. apply Forall_forall. intros x Hx. split.
      - rewrite Forall_forall in HD. exact (HD x Hx).
      - unfold D in Hx. apply in_map_iff in Hx. destruct Hx as (d & <- & Hd). apply pad_wf.
        assert (W : Forall wf_bytes datas).
        { apply (Forall2_Forall_r _ _ _ _ HF). intros f d' Hin Hl. exact (proj2 (Hlens f d' Hin Hl)). }
        rewrite Forall_forall in W. exact (W d Hd). }
    match type of PL with _ = (Ok ?s0, _) => set (s := s0) in * end.
    assert (Ld : length (s_data s) = nd) by (cbn [s s_data]; rewrite erase_length by exact Hkl; reflexivity).
    assert (Lp : length (s_parity s) = np) by (cbn [s s_parity]; rewrite map_length; exact LP).
    assert (Es : s_size s = size) by reflexivity.
    unfold par1_repair in HR. rewrite PL in HR. cbv zeta in HR. rewrite Ld, Lp, Es in HR.
    destruct (Nat.eqb_spec size 0) as [E0|_]; [contradiction|].
    destruct (Nat.ltb_spec 256 (nd + np)) as [Lt|_]; [unfold nd in Lt; lia|].
    destruct (build_shards_total md5 s) as (sh & EB & Esh).
    { cbn [s s_data s_size]. apply Forall_forall. intros o Hin d ->. unfold erase in Hin.
      apply in_map_iff in Hin. destruct Hin as ([k x] & E & Hin). cbn [fst snd] in E.
      destruct k; [|discriminate E]. injection E as ->. apply in_combine_r in Hin.
      rewrite Forall_forall in Hge. exact (Hge d Hin). }
    rewrite EB in HR.
    assert (Esh' : sh = erase (keep ++ repeat true np) (D ++ vs)).
    { rewrite Esh. cbn [s s_data s_size s_parity].
      rewrite (map_erase_opt (fun d : bytes => d ++ zeros (size - length d)) keep datas).
      change (map (fun d : bytes => d ++ zeros (size - length d)) datas) with D.
      rewrite <- (erase_all_true vs), LP. symmetry. apply erase_app. rewrite HDl. exact Hkl. }
    assert (Hkl' : length (keep ++ repeat true np) = (nd + np)%nat).
    { rewrite app_length, repeat_length, Hkl. reflexivity. }
    assert (Hle : (length (filter (fun x => negb (Q x)) files) <= length lost)%nat).
    { apply NoDup_incl_length; [apply NoDup_filter; exact Hndf|].
      intros f Hf. apply filter_In in Hf. destruct Hf as [_ Hq]. apply negb_true_iff in Hq. exact (Qf f Hq). }
    assert (Hmiss : (length (filter negb keep) <= np)%nat).
    { pose proof (filter_map_split Q files) as Hsplit. fold keep in Hsplit.
      pose proof (filter_bool_split keep) as Hsp. rewrite Hkl in Hsp. unfold nd in *. lia. }
    assert (S : par1_reconstruct nd np sh = Ok (D ++ vs)).
    { rewrite Esh'. apply (par1_reconstruct_parity_kept nd np D size keep Hnd ltac:(lia) ltac:(unfold nd; lia)
                             HwfD ltac:(lia) Hkl Hmiss). }
    rewrite S in HR.
    +
      assert (Edbl : (if dbl then match rs_verify nd np (map Some (D ++ vs)) with Ok b => Ok b | Err x => Err x | Panic q => Panic q end
                      else Ok true) = Ok true).
      { destruct dbl; [|reflexivity]. unfold vs. rewrite (rs_verify_consistent nd np D size HDne HDl HD Hsz). reflexivity. }
      rewrite Edbl in HR. rewrite (firstn_app_len D vs nd HDl) in HR.
      change (s_saved s) with (mk_entries md5 (map base files) datas) in HR.
      change (s_data s) with (erase (map Q files) datas) in HR.
      destruct (write_repaired_exact md5 parPath size Q files datas [] st1 Hs1 HL) as (rp' & st'' & EW & Hfs3 & Hrp).
      { apply Forall_forall. intros f Hin. rewrite Forall_forall in Hjoin. split; [apply base_base|exact (Hjoin f Hin)]. }
      { exact Hge. }
      fold D in EW. rewrite EW in HR. injection HR as <- <- <-.
      split; [reflexivity|]. split.
      2:{ rewrite Hrp. cbn [app]. rewrite (map_fst_filter_combine (fun f => negb (Q f)) files datas HL).
          apply filter_ext. intros f. unfold Q. apply negb_involutive. }
      intros f d Hin Hl. rewrite Hfs3, Hf1.
      destruct (Forall2_in_l _ _ _ HF f Hin) as (d' & Hin' & Hl'). rewrite Hl in Hl'. injection Hl' as <-.
      destruct (Q f) eqn:EQ.
      * rewrite apply_writes_lookup_other.
        { unfold fs2. rewrite remove_lookup_other by (apply Qt; exact EQ). rewrite Hfs.
          destruct (Hdisj f Hin) as [D1 D2].
          rewrite created_other_lookup; [exact Hl|..]; try exact He; try exact D1. intros j Hj. apply D2. lia. }
        intros Hm. apply in_map_iff in Hm. destruct Hm as ([f2 d2] & E & Hm). cbn [fst] in E. subst f2.
        apply filter_In in Hm. destruct Hm as [_ Hq]. cbn [fst] in Hq. rewrite EQ in Hq. discriminate Hq.
      * apply apply_writes_lookup.
        { apply NoDup_map_filter. rewrite (map_fst_combine_eq files datas HL). exact Hndf. }
        apply filter_In. split; [exact Hin'|]. cbn [fst]. rewrite EQ. reflexivity.
Qed.

(* the statement with the singular alternative kept (it never occurs here) *)
Corollary par1_create_lose_repair : forall md5, (forall x, length (md5 x) = 16%nat) ->
  forall parPath files nvol fs st' lost dbl r rp st3,
  par1_create md5 parPath files nvol (io_init fs []) = (Ok tt, st') ->
  let nv := if (nvol <=? 0)%Z then 3%nat else Z.to_nat nvol in
  Forall (fun f => input_name_ok (base f)) files ->
  Forall (fun f => join2 (dir parPath) (base f) = f) files ->
  (forall f d, In f files -> fs_lookup fs f = Some d -> N.of_nat (length d) < 2^64 /\ wf_bytes d) ->
  Forall (fun f => f <> parPath /\ forall k, (1 <= k <= nv)%nat -> f <> volume_path parPath (N.of_nat k)) files ->
  (forall k, (nv < k <= Nat.min (256 - length files) 99)%nat ->
     fs_lookup fs (volume_path parPath (N.of_nat k)) = None /\ is_dir fs (volume_path parPath (N.of_nat k)) = false) ->
  incl lost files -> (length lost <= Nat.min nv 99)%nat ->
  (forall f, In f lost -> is_dir (io_fs st') f = false) ->
  par1_repair md5 parPath dbl (io_init (fs_remove lost (io_fs st')) []) = ((r, rp), st3) ->
  (r = Ok tt \/ r = Err ESingular) /\
  (r = Ok tt -> forall f d, In f files -> fs_lookup fs f = Some d -> fs_lookup (io_fs st3) f = Some d).
Proof.
  intros md5 md5_len parPath files nvol fs st' lost dbl r rp st3 HC nv H1 H2 H3 H4 H5 H6 H7 H8 HR.
  destruct (par1_create_lose_repair_ok md5 md5_len parPath files nvol fs st' lost dbl r rp st3 HC H1 H2 H3 H4 H5 H6 H7 H8 HR)
    as (A & B & _).
  split; [left; exact A|intros _; exact B].
Qed.

Print Assumptions vdm_kernel.
Print Assumptions par1_reconstruct_parity_kept.
Print Assumptions par1_create_lose_repair_ok.
Print Assumptions par1_create_lose_repair.

(** * non-vacuity and the limits of the statements *)

Lemma toy_hash_len x : length (toy_hash x) = 16%nat.
Proof. unfold toy_hash. rewrite firstn_length, app_length, repeat_length. lia. Qed.

Lemma volume_path_len ix n : (4 <= length (volume_path ix n))%nat.
Proof.
  unfold volume_path. rewrite !app_length. cbn [length].
  assert (2 <= length (dec2w n))%nat; [|lia].
  unfold dec2w. cbv zeta. destruct (n <? 10); [|destruct (n <? 100)]; cbn [length Nat.ltb Nat.leb]; lia.
Qed.

Lemma starts_with_short q P : (length q < length P)%nat -> starts_with q P = false.
Proof.
  intros H. unfold starts_with. apply str_eqb_neq. intros E. apply (f_equal (@length N)) in E.
  rewrite firstn_length in E. lia.
Qed.

Definition ex_files : list (list N) := [[120]; [121]].

(* the premises of RT1 hold for the two files "x", "y" beside "a.par", two volumes, toy hash *)
Lemma rt_example_premises :
  Forall (fun f => input_name_ok (base f)) ex_files /\
  Forall (fun f => join2 (dir ex_ix) (base f) = f) ex_files /\
  (forall f d, In f ex_files -> fs_lookup ex_fs0 f = Some d -> N.of_nat (length d) < 2^64 /\ wf_bytes d) /\
  Forall (fun f => f <> ex_ix /\ forall k, (1 <= k <= 2)%nat -> f <> volume_path ex_ix (N.of_nat k)) ex_files /\
  (forall k, (2 < k <= Nat.min (256 - length ex_files) 99)%nat ->
     fs_lookup ex_fs0 (volume_path ex_ix (N.of_nat k)) = None /\ is_dir ex_fs0 (volume_path ex_ix (N.of_nat k)) = false).
Proof.
  assert (Hne : forall c n, [c] <> volume_path ex_ix n).
  { intros c n E. apply (f_equal (@length N)) in E. pose proof (volume_path_len ex_ix n). cbn [length] in E. lia. }
  split; [|split; [|split; [|split]]].
  - repeat constructor.
    + exists [120]. split; [discriminate|]. split; [repeat constructor; unfold scalar; lia|]. split; vm_compute; reflexivity.
    + exists [121]. split; [discriminate|]. split; [repeat constructor; unfold scalar; lia|]. split; vm_compute; reflexivity.
  - repeat constructor; vm_compute; reflexivity.
  - intros f d [<-|[<-|[]]] H; vm_compute in H; injection H as <-;
      (split; [vm_compute; reflexivity|repeat constructor; unfold wf_byte; lia]).
  - repeat constructor; try discriminate; intros k _; apply Hne.
  - intros k _. split.
    + cbn [ex_fs0 fs_lookup]. rewrite !str_eqb_neq by apply Hne. reflexivity.
    + unfold is_dir. cbn [ex_fs0 existsb fst].
      rewrite !starts_with_short by (rewrite app_length; pose proof (volume_path_len ex_ix (N.of_nat k)); cbn [length]; lia).
      reflexivity.
Qed.

Example par1_rt1_example :
  exists st', par1_create toy_hash ex_ix ex_files 2%Z (io_init ex_fs0 []) = (Ok tt, st') /\
  exists c st2, par1_verify toy_hash ex_ix true (io_init (io_fs st') []) = (Ok (c, true), st2) /\
    fc_unusable c = 0%nat /\ fc_punusable c = 0%nat /\ fc_usable c = 2%nat /\ fc_pusable c = 2%nat.
Proof.
  eexists. split; [vm_compute; reflexivity|].
  destruct rt_example_premises as (P1 & P2 & P3 & P4 & P5).
  eapply (par1_create_then_verify_clean toy_hash toy_hash_len ex_ix ex_files 2%Z ex_fs0 _ true);
    [vm_compute; reflexivity|exact P1|exact P2|intros f d Hin Hl; exact (proj1 (P3 f d Hin Hl))|].
  intros k Hk. destruct (P5 k Hk) as [H1 H2]. split; [exact H2|]. intros b Hb. rewrite H1 in Hb. discriminate Hb.
Qed.

(* the same by computation, and without the parity check *)
Example par1_rt1_example_computed :
  let fs' := io_fs (snd (par1_create toy_hash ex_ix ex_files 2%Z (io_init ex_fs0 []))) in
  fst (par1_verify toy_hash ex_ix true (io_init fs' [])) =
    Ok ({| fc_usable := 2; fc_unusable := 0; fc_pusable := 2; fc_punusable := 0 |}, true) /\
  fst (par1_verify toy_hash ex_ix false (io_init fs' [])) =
    Ok ({| fc_usable := 2; fc_unusable := 0; fc_pusable := 2; fc_punusable := 0 |}, false).
Proof. split; vm_compute; reflexivity. Qed.

(* RT2 on the example: "x" lost, then "x" and "y" lost; Repair restores the original bytes *)
Example par1_rt2_example : forall lost, lost = [[120]] \/ lost = [[120]; [121]] ->
  let fs' := io_fs (snd (par1_create toy_hash ex_ix ex_files 2%Z (io_init ex_fs0 []))) in
  forall dbl r rp st3, par1_repair toy_hash ex_ix dbl (io_init (fs_remove lost fs') []) = ((r, rp), st3) ->
  r = Ok tt /\ rp = lost /\
  fs_lookup (io_fs st3) [120] = Some [1; 2; 3] /\ fs_lookup (io_fs st3) [121] = Some [4; 5; 6; 7].
Proof.
  intros lost Hlost fs' dbl r rp st3 HR.
  destruct rt_example_premises as (P1 & P2 & P3 & P4 & P5).
  destruct (par1_create toy_hash ex_ix ex_files 2%Z (io_init ex_fs0 [])) as [o st'] eqn:HC.
  assert (Ho : o = Ok tt) by (apply (f_equal fst) in HC; vm_compute in HC; symmetry; exact HC). subst o.
  cbn [snd] in fs'.
  destruct (par1_create_lose_repair_ok toy_hash toy_hash_len ex_ix ex_files 2%Z ex_fs0 st' lost dbl r rp st3 HC P1 P2 P3 P4 P5)
    as (A & B & C).
  - intros f Hin. destruct Hlost as [-> | ->]; cbn [In] in Hin; unfold ex_files; cbn [In]; tauto.
  - destruct Hlost as [-> | ->]; cbv; lia.
  - intros f Hin. apply (f_equal snd) in HC. cbn [snd] in HC. rewrite <- HC.
    destruct Hlost as [-> | ->]; cbn [In] in Hin; repeat (destruct Hin as [<-|Hin]; [vm_compute; reflexivity|]); destruct Hin.
  - exact HR.
  - split; [exact A|]. split; [rewrite C; destruct Hlost as [-> | ->]; vm_compute; reflexivity|].
    split; apply B; try (vm_compute; reflexivity); unfold ex_files; cbn [In]; tauto.
Qed.

(* and by computation: both files lost, both restored, with the double check *)
Example par1_rt2_example_computed :
  let fs' := io_fs (snd (par1_create toy_hash ex_ix ex_files 2%Z (io_init ex_fs0 []))) in
  let res := par1_repair toy_hash ex_ix true (io_init (fs_remove [[120]; [121]] fs') []) in
  fst res = (Ok tt, [[120]; [121]]) /\
  fs_lookup (fs_remove [[120]; [121]] fs') [120] = None /\ fs_lookup (fs_remove [[120]; [121]] fs') [121] = None /\
  fs_lookup (io_fs (snd res)) [120] = Some [1; 2; 3] /\ fs_lookup (io_fs (snd res)) [121] = Some [4; 5; 6; 7].
Proof. repeat split; vm_compute; reflexivity. Qed.

(* LIMITS.  1. The loader probes .p01 .. .p99 only: with 100 volumes Verify is clean but finds 99, not 100
   (so "fc_pusable = nv" is false in general; RT1 states min nv 99). *)
Example par1_pusable_is_nv_refuted :
  let fs0 := [([120], [7])] in
  let fs' := io_fs (snd (par1_create toy_hash ex_ix [[120]] 100%Z (io_init fs0 []))) in
  fst (par1_create toy_hash ex_ix [[120]] 100%Z (io_init fs0 [])) = Ok tt /\
  fs_lookup fs' (volume_path ex_ix 100) <> None /\
  fst (par1_verify toy_hash ex_ix true (io_init fs' [])) =
    Ok ({| fc_usable := 1; fc_unusable := 0; fc_pusable := 99; fc_punusable := 0 |}, true).
Proof. split; [vm_compute; reflexivity|split; [vm_compute; discriminate|vm_compute; reflexivity]]. Qed.

(* 2. Create rejects a set whose inputs are all empty (no shard data); one empty input among others is accepted
   and round-trips *)
Example par1_create_all_empty_rejected :
  fst (par1_create toy_hash ex_ix [[120]] 2%Z (io_init [([120], [])] [])) = Err EOther.
Proof. vm_compute. reflexivity. Qed.

Example par1_create_one_empty_ok :
  let fs0 := [([120], []); ([121], [4; 5])] in
  let fs' := io_fs (snd (par1_create toy_hash ex_ix ex_files 2%Z (io_init fs0 []))) in
  fst (par1_verify toy_hash ex_ix true (io_init fs' [])) =
    Ok ({| fc_usable := 2; fc_unusable := 0; fc_pusable := 2; fc_punusable := 0 |}, true) /\
  fst (par1_repair toy_hash ex_ix true (io_init (fs_remove [[120]; [121]] fs') [])) = (Ok tt, [[120]; [121]]).
Proof. split; vm_compute; reflexivity. Qed.

(* 3. a stale volume beyond nv of ANOTHER set is unusable, not fatal: an old "a.p03" of another set (it parses as
   volume 3, but carries the set hash of the other set) is skipped and Verify is clean with the two volumes of the
   set.  (Before the fix of the loader this state made Verify fail with Err EMalformed.)
   [ex_stale] is the "a.p03" of a three-volume set over one other file. *)
Definition ex_stale : bytes :=
  let fsA := io_fs (snd (par1_create toy_hash ex_ix [[120]] 3%Z (io_init [([120], [9; 9])] []))) in
  match fs_lookup fsA (volume_path ex_ix 3) with Some b => b | None => [] end.

Example par1_stale_foreign_volume_ignored :
  let fs0 := ex_fs0 ++ [(volume_path ex_ix 3, ex_stale)] in
  let fs' := io_fs (snd (par1_create toy_hash ex_ix ex_files 2%Z (io_init fs0 []))) in
  (exists v, read_volume toy_hash ex_stale = Ok v /\ v_number v = 3 /\
             bytes_eqb (v_sethash_stored v) (input_set_hash toy_hash fs0 ex_files) = false) /\
  fst (par1_create toy_hash ex_ix ex_files 2%Z (io_init fs0 [])) = Ok tt /\
  fs_lookup fs' (volume_path ex_ix 3) = Some ex_stale /\
  fst (par1_verify toy_hash ex_ix true (io_init fs' [])) =
    Ok ({| fc_usable := 2; fc_unusable := 0; fc_pusable := 2; fc_punusable := 0 |}, true).
Proof. split; [eexists; repeat split; vm_compute; reflexivity|repeat split; vm_compute; reflexivity]. Qed.

(* ... and through RT1: the premise on the paths beyond nv accepts that file *)
Example par1_rt1_example_stale :
  let fs0 := ex_fs0 ++ [(volume_path ex_ix 3, ex_stale)] in
  exists st', par1_create toy_hash ex_ix ex_files 2%Z (io_init fs0 []) = (Ok tt, st') /\
  exists c st2, par1_verify toy_hash ex_ix true (io_init (io_fs st') []) = (Ok (c, true), st2) /\
    fc_unusable c = 0%nat /\ fc_punusable c = 0%nat /\ fc_usable c = 2%nat /\ fc_pusable c = 2%nat.
Proof.
  intros fs0. eexists. split; [vm_compute; reflexivity|].
  destruct rt_example_premises as (P1 & P2 & P3 & P4 & P5).
  eapply (par1_create_then_verify_clean toy_hash toy_hash_len ex_ix ex_files 2%Z fs0 _ true);
    [vm_compute; reflexivity|exact P1|exact P2| |].
  - intros f d [<-|[<-|[]]] H; vm_compute in H; injection H as <-; vm_compute; reflexivity.
  - intros k Hk.
    assert (Hne : forall c n, [c] <> volume_path ex_ix n).
    { intros c n E. apply (f_equal (@length N)) in E. pose proof (volume_path_len ex_ix n). cbn [length] in E. lia. }
    split.
    + unfold is_dir, fs0. cbn [ex_fs0 app existsb fst].
      rewrite !starts_with_short by (rewrite app_length; pose proof (volume_path_len ex_ix (N.of_nat k)); cbn [length]; lia).
      cbn [orb]. rewrite orb_false_r. apply not_below_volume. apply sl_volume_path.
    + intros b Hb. unfold fs0 in Hb. cbn [ex_fs0 app fs_lookup] in Hb. rewrite !str_eqb_neq in Hb by apply Hne.
      destruct (str_eqb (volume_path ex_ix 3) (volume_path ex_ix (N.of_nat k))) eqn:E3; [|discriminate Hb].
      injection Hb as <-. apply str_eqb_eq in E3. apply volume_path_inj in E3. rewrite <- E3.
      unfold not_member.
      assert (EV : exists v, read_volume toy_hash ex_stale = Ok v /\
                     bytes_eqb (v_sethash_stored v) (input_set_hash toy_hash (ex_fs0 ++ [(volume_path ex_ix 3, ex_stale)]) ex_files) = false).
      { eexists. split; vm_compute; reflexivity. }
      destruct EV as (v & -> & Hh). left. intros E. rewrite E, bytes_eqb_refl in Hh. discriminate Hh.
Qed.

(* 3''. what the premise of RT1 on the paths beyond nv still excludes.  A stale volume of the SAME set - Create with
   three volumes, then again with two, the files unchanged - is a genuine volume of the set and is loaded: Verify is
   clean but counts three volumes, not two.  A DIRECTORY at such a path is a read error that is not "does not
   exist": Verify fails. *)
Example par1_stale_same_set_volume_loaded :
  let fs1 := io_fs (snd (par1_create toy_hash ex_ix ex_files 3%Z (io_init ex_fs0 []))) in
  let fs' := io_fs (snd (par1_create toy_hash ex_ix ex_files 2%Z (io_init fs1 []))) in
  fst (par1_create toy_hash ex_ix ex_files 2%Z (io_init fs1 [])) = Ok tt /\
  fst (par1_verify toy_hash ex_ix true (io_init fs' [])) =
    Ok ({| fc_usable := 2; fc_unusable := 0; fc_pusable := 3; fc_punusable := 0 |}, true).
Proof. split; vm_compute; reflexivity. Qed.

Example par1_directory_at_volume_path_refuted :
  let fs0 := ex_fs0 ++ [(volume_path ex_ix 3 ++ [47; 122], [9])] in
  let fs' := io_fs (snd (par1_create toy_hash ex_ix ex_files 2%Z (io_init fs0 []))) in
  fst (par1_create toy_hash ex_ix ex_files 2%Z (io_init fs0 [])) = Ok tt /\
  is_dir fs' (volume_path ex_ix 3) = true /\
  fst (par1_verify toy_hash ex_ix true (io_init fs' [])) = Err EIO.
Proof. repeat split; vm_compute; reflexivity. Qed.

(* 3'. a stale "a.p03" that does not parse as a volume (the former content of this example) is an unusable
   volume like a missing one: it is skipped, and Verify is clean with the two volumes of the set *)
Example par1_stale_unparsable_volume_ignored :
  let fs0 := ex_fs0 ++ [(volume_path ex_ix 3, [1; 2; 3])] in
  let fs' := io_fs (snd (par1_create toy_hash ex_ix ex_files 2%Z (io_init fs0 []))) in
  fst (par1_create toy_hash ex_ix ex_files 2%Z (io_init fs0 [])) = Ok tt /\
  fs_lookup fs' (volume_path ex_ix 3) = Some [1; 2; 3] /\
  read_volume toy_hash [1; 2; 3] = Err EMalformed /\
  fst (par1_verify toy_hash ex_ix true (io_init fs' [])) =
    Ok ({| fc_usable := 2; fc_unusable := 0; fc_pusable := 2; fc_punusable := 0 |}, true).
Proof. repeat split; vm_compute; reflexivity. Qed.

(* 4. the premise "a lost file is not also a directory": with "x" and "x/z" both in the file map, deleting "x"
   leaves a directory "x", which Repair cannot read past *)
Example par1_lost_is_dir_refuted :
  let fs0 := ex_fs0 ++ [([120; 47; 122], [9])] in
  let fs' := io_fs (snd (par1_create toy_hash ex_ix ex_files 2%Z (io_init fs0 []))) in
  fst (par1_create toy_hash ex_ix ex_files 2%Z (io_init fs0 [])) = Ok tt /\
  is_dir fs' [120] = true /\
  fst (par1_repair toy_hash ex_ix false (io_init (fs_remove [[120]] fs') [])) = (Err EIO, []).
Proof. repeat split; vm_compute; reflexivity. Qed.
