(* The converse of Gauss-Jordan correctness for the list model of Model/Matrix.v:
   when row reduction reports the singular error the matrix really is singular,
   i.e. it has a non-trivial kernel vector (built by explicit back substitution
   on the echelon prefix reached when no pivot could be found). *)
From Coq Require Import Lia.
From Gopar Require Import Model.Base Model.Matrix Proofs.LinAlg.
Open Scope N_scope.
Set Default Timeout 120.

Section LinAlgSingular.
  Variable B : N.
  Variable mul : N -> N -> N.
  Variable inv : N -> N.
  Hypothesis B1 : 1 < B.
  Hypothesis xor_closed : forall a b, a < B -> b < B -> N.lxor a b < B.
  Hypothesis mul_closed : forall a b, a < B -> b < B -> mul a b < B.
  Hypothesis mul_comm : forall a b, a < B -> b < B -> mul a b = mul b a.
  Hypothesis mul_assoc : forall a b c, a < B -> b < B -> c < B -> mul (mul a b) c = mul a (mul b c).
  Hypothesis mul_lxor_r : forall a b c, a < B -> b < B -> c < B ->
    mul a (N.lxor b c) = N.lxor (mul a b) (mul a c).
  Hypothesis mul_1_l : forall a, a < B -> mul 1 a = a.
  Hypothesis inv_closed : forall a, 0 < a < B -> inv a < B.
  Hypothesis mul_inv : forall a, 0 < a < B -> mul a (inv a) = 1.

  Notation wfe := (LinAlg.wfe B).
  Notation wfv := (LinAlg.wfv B).
  Notation wfm := (LinAlg.wfm B).
  Notation dot := (Matrix.dot mul).
  Notation ent := Matrix.ent.
  Notation mmul := (Matrix.mmul mul).
  Notation lincomb := (Matrix.lincomb mul).
  Notation row_reduce_pair := (Matrix.row_reduce_pair mul inv).
  Notation RowReduceForInverse := (Matrix.RowReduceForInverse mul inv).
  Notation Inverse := (Matrix.Inverse mul inv).

  (* M applied to the column vector v *)
  Definition mvec (M : matrix) (v : vec) : vec := map (fun r => dot r v) M.

  (* LinAlg's results with this section's field hypotheses plugged in *)
  Let m0l : forall a, a < B -> mul 0 a = 0 := LinAlg.mul_0_l B mul B1 mul_comm mul_lxor_r.
  Let m0r : forall a, a < B -> mul a 0 = 0 := LinAlg.mul_0_r B mul B1 mul_lxor_r.
  Let w0 : wfe 0 := LinAlg.wfe0 B B1.
  Let w1 : wfe 1 := LinAlg.wfe1 B B1.
  Let wcons := LinAlg.wfv_cons B B1.
  Let wzeros := LinAlg.zeros_wf B B1.
  Let wnth := LinAlg.wfm_nth B B1.
  Let rrp_spec := LinAlg.row_reduce_pair_spec B mul inv B1 xor_closed mul_closed mul_comm mul_assoc
                    mul_lxor_r mul_1_l inv_closed mul_inv.
  Let rrfi_spec := LinAlg.RowReduceForInverse_spec B mul inv B1 xor_closed mul_closed mul_comm mul_assoc
                    mul_lxor_r mul_1_l inv_closed mul_inv.
  Let ok_unique := LinAlg.ok_unique_any_rhs B mul inv B1 xor_closed mul_closed mul_comm mul_assoc
                    mul_lxor_r mul_1_l inv_closed mul_inv.

  (** ** lists *)
  Lemma skipn_nth_cons {A} (d : A) : forall j l, (j < length l)%nat ->
    skipn j l = nth j l d :: skipn (S j) l.
  Proof.
    induction j as [|j IH]; intros [|x l] H; cbn [length] in H; try lia.
    - reflexivity.
    - cbn [skipn nth]. apply IH. lia.
  Qed.

  Lemma skipn_cons_nth {A} (d : A) : forall j l x r, skipn j l = x :: r ->
    nth j l d = x /\ skipn (S j) l = r.
  Proof.
    induction j as [|j IH]; intros [|y l] x r H; cbn [skipn] in H; try discriminate.
    - injection H as -> ->. split; reflexivity.
    - cbn [nth]. change (skipn (S (S j)) (y :: l)) with (skipn (S j) l). apply IH. exact H.
  Qed.

  Lemma skipn_Forall {A} (P : A -> Prop) : forall n l, Forall P l -> Forall P (skipn n l).
  Proof.
    induction n as [|n IH]; intros [|x l] H; cbn [skipn]; try assumption.
    apply IH. inversion H; assumption.
  Qed.

  (** ** dot products *)
  Lemma dot_nil_r a : dot a [] = 0.
  Proof. destruct a; reflexivity. Qed.

  Lemma dot_wf : forall a b, Forall wfe a -> Forall wfe b -> wfe (dot a b).
  Proof.
    induction a as [|x a IH]; intros [|y b] Ha Hb; cbn [Matrix.dot]; try exact w0.
    inversion Ha; subst. inversion Hb; subst.
    apply xor_closed; [apply mul_closed; assumption|apply IH; assumption].
  Qed.

  Lemma dot_zeros_r : forall a n, Forall wfe a -> dot a (zeros n) = 0.
  Proof.
    induction a as [|x a IH]; intros [|n] Ha; try reflexivity.
    change (zeros (S n)) with (0 :: zeros n). cbn [Matrix.dot]. inversion Ha; subst.
    rewrite m0r by assumption. rewrite IH by assumption. reflexivity.
  Qed.

  (* a row whose first n entries vanish only sees the tail of the vector *)
  Lemma dot_prefix_zero : forall n a v, (forall j, (j < n)%nat -> nth j a 0 = 0) -> Forall wfe v ->
    dot a v = dot (skipn n a) (skipn n v).
  Proof.
    induction n as [|n IH]; intros a v Hz Hv; [reflexivity|].
    destruct a as [|x a]; [reflexivity|].
    destruct v as [|y v]; [cbn [skipn Matrix.dot]; symmetry; apply dot_nil_r|].
    cbn [skipn Matrix.dot]. inversion Hv; subst.
    pose proof (Hz 0%nat ltac:(lia)) as Z. cbn [nth] in Z. rewrite Z.
    rewrite m0l by assumption. rewrite N.lxor_0_l. apply IH; [|assumption].
    intros j Hj. apply (Hz (S j)). lia.
  Qed.

  (** ** back substitution: [acc] holds the coordinates j, j+1, ... already chosen;
      coordinate j-1 is the dot product of the part of row j-1 right of the diagonal with acc *)
  Fixpoint backsub (m : matrix) (j : nat) (acc : vec) : vec :=
    match j with
    | O => acc
    | S j' => backsub m j' (dot (skipn (S j') (nth j' m [])) acc :: acc)
    end.

  Lemma backsub_skipn m : forall j acc, skipn j (backsub m j acc) = acc.
  Proof.
    induction j as [|j IH]; intros acc; cbn [backsub]; [reflexivity|].
    pose proof (IH (dot (skipn (S j) (nth j m [])) acc :: acc)) as E.
    apply (skipn_cons_nth 0) in E. apply E.
  Qed.

  Lemma backsub_spec k m : wfm k k m -> forall j acc, (j <= k)%nat -> wfv (k - j) acc ->
    (forall t col, (t < j)%nat -> (col < t)%nat -> ent m t col = 0) ->
    (forall t, (t < j)%nat -> ent m t t = 1) ->
    wfv k (backsub m j acc) /\
    forall t, (t < j)%nat -> dot (nth t m []) (backsub m j acc) = 0.
  Proof.
    intros Hm. induction j as [|j IH]; intros acc Hj Hacc Hz H1.
    - cbn [backsub]. rewrite Nat.sub_0_r in Hacc. split; [exact Hacc|]. intros t Ht. lia.
    - cbn [backsub]. set (row := nth j m []).
      assert (Hrow : wfv k row) by (apply (wnth k k); [exact Hm|lia]).
      set (x := dot (skipn (S j) row) acc).
      assert (Hx : wfe x).
      { apply dot_wf; [apply skipn_Forall; apply Hrow|apply Hacc]. }
      assert (Hacc' : wfv (k - j) (x :: acc)).
      { replace (k - j)%nat with (S (k - S j)) by lia. apply wcons; assumption. }
      destruct (IH (x :: acc) ltac:(lia) Hacc') as [Wv Hsol].
      { intros t col Ht Hc. apply Hz; lia. }
      { intros t Ht. apply H1; lia. }
      split; [exact Wv|]. intros t Ht.
      destruct (Nat.eq_dec t j) as [->|Ne]; [|apply Hsol; lia].
      fold row. pose proof (backsub_skipn m j (x :: acc)) as Sk.
      rewrite (dot_prefix_zero j row).
      + rewrite Sk. rewrite (skipn_nth_cons 0 j row) by (destruct Hrow; lia).
        cbn [Matrix.dot]. change (nth j row 0) with (ent m j j). rewrite H1 by lia.
        fold x. rewrite mul_1_l by exact Hx. apply N.lxor_nilpotent.
      + intros col Hc. change (nth col row 0) with (ent m j col). apply Hz; lia.
      + apply Wv.
  Qed.

  (** ** the kernel vector of a matrix stuck in the forward pass at column i *)
  Lemma mvec_eq_zeros k m v : length m = k ->
    (forall t, (t < k)%nat -> dot (nth t m []) v = 0) -> mvec m v = zeros k.
  Proof.
    intros Hl H. unfold mvec. apply (LinAlg.list_ext B B1 0).
    - rewrite map_length. unfold zeros. rewrite repeat_length. exact Hl.
    - intros t Ht. rewrite map_length in Ht. rewrite LinAlg.nth_zeros.
      rewrite (nth_indep _ 0 ((fun r => dot r v) [])) by (rewrite map_length; exact Ht).
      rewrite (map_nth (fun r => dot r v)). apply H. lia.
  Qed.

  Lemma ech_kernel k i m : wfm k k m -> (i < k)%nat -> Ech k i m ->
    (forall t, (i <= t < k)%nat -> ent m t i = 0) ->
    exists v, wfv k v /\ v <> zeros k /\ mvec m v = zeros k.
  Proof.
    intros Hm Hi HE Hcol.
    set (acc := 1 :: zeros (k - S i)).
    assert (Hacc : wfv (k - i) acc).
    { replace (k - i)%nat with (S (k - S i)) by lia.
      apply wcons; [exact w1|apply wzeros]. }
    destruct (backsub_spec k m Hm i acc ltac:(lia) Hacc) as [Wv Hsol].
    { intros t col Ht Hc. apply (HE col t); lia. }
    { intros t Ht. apply (HE t t); lia. }
    pose proof (backsub_skipn m i acc) as Sk.
    set (v := backsub m i acc) in *.
    exists v. split; [exact Wv|]. split.
    - intros E. destruct (skipn_cons_nth 0 i v 1 _ Sk) as [N1 _].
      rewrite E, LinAlg.nth_zeros in N1. discriminate.
    - apply mvec_eq_zeros; [apply Hm|]. intros t Ht.
      destruct (Nat.lt_ge_cases t i) as [Lt|Ge]; [apply Hsol; exact Lt|].
      set (row := nth t m []).
      assert (Hrow : wfv k row) by (apply (wnth k k); [exact Hm|lia]).
      rewrite (dot_prefix_zero i row v).
      + rewrite Sk. rewrite (skipn_nth_cons 0 i row) by (destruct Hrow; lia).
        unfold acc. cbn [Matrix.dot]. change (nth i row 0) with (ent m t i).
        rewrite Hcol by lia. rewrite m0l by exact w1. rewrite N.lxor_0_l.
        apply dot_zeros_r. apply skipn_Forall. apply Hrow.
      + intros col Hc. change (nth col row 0) with (ent m t col). apply (HE col t); lia.
      + apply Wv.
  Qed.

  (** ** column vectors as one-column matrices, to reuse LinAlg's solution-set invariant *)
  Definition colmat (v : vec) : matrix := map (fun x => [x]) v.

  Lemma colmat_wf k v : wfv k v -> wfm k 1 (colmat v).
  Proof.
    intros [Hl Hf]. split; [unfold colmat; rewrite map_length; exact Hl|].
    apply Forall_forall. intros r Hr. unfold colmat in Hr. apply in_map_iff in Hr.
    destruct Hr as [x [<- Hx]]. split; [reflexivity|]. constructor; [|constructor].
    eapply Forall_forall in Hf; eauto.
  Qed.

  Lemma colmat_inj : forall a b, colmat a = colmat b -> a = b.
  Proof.
    induction a as [|x a IH]; intros [|y b] H; try discriminate; [reflexivity|].
    cbn [colmat map] in H. injection H as H1 H2. subst y. f_equal. apply IH. exact H2.
  Qed.

  Lemma lincomb_colmat : forall r v, lincomb 1 r (colmat v) = [dot r v].
  Proof.
    induction r as [|a r IH]; intros [|x v]; try reflexivity.
    change (colmat (x :: v)) with ([x] :: colmat v).
    cbn [Matrix.lincomb Matrix.dot]. rewrite IH. reflexivity.
  Qed.

  Lemma mmul_colmat M v : mmul 1 M (colmat v) = colmat (mvec M v).
  Proof.
    unfold Matrix.mmul, mvec. change (colmat (map (fun r => dot r v) M))
      with (map (fun x => [x]) (map (fun r => dot r v) M)).
    rewrite map_map. apply map_ext. intros r. apply lincomb_colmat.
  Qed.

  Lemma mvec_zeros r k M : wfm r k M -> mvec M (zeros k) = zeros r.
  Proof.
    intros [Hl Hf]. apply mvec_eq_zeros; [exact Hl|]. intros t Ht. apply dot_zeros_r.
    eapply Forall_forall in Hf; [apply Hf|]. apply nth_In. lia.
  Qed.

  (** ** the singular error is reported only for singular matrices *)

  Lemma row_reduce_pair_not_ok_kernel k M :
    wfm k k M -> is_ok (row_reduce_pair M (colmat (zeros k))) = false ->
    exists v, wfv k v /\ v <> zeros k /\ mvec M v = zeros k.
  Proof.
    intros HM Hnok.
    assert (HZ : wfv k (zeros k)) by (apply wzeros).
    pose proof (rrp_spec k 1%nat M (colmat (zeros k)) HM (colmat_wf k _ HZ)) as S.
    destruct (row_reduce_pair M (colmat (zeros k))) as [mn|e|p]; [discriminate| |contradiction].
    destruct S as (_ & i & m' & n' & Hi & Hm' & Hn' & Sq & HE & Hcol).
    destruct (ech_kernel k i m' Hm' Hi HE Hcol) as (v & Wv & Nz & Kv).
    exists v. split; [exact Wv|]. split; [exact Nz|].
    (* the reduced right-hand side is still zero *)
    assert (En : n' = colmat (zeros k)).
    { destruct (Sq (colmat (zeros k)) (colmat_wf k _ HZ)) as [_ F].
      rewrite !mmul_colmat in F. rewrite (mvec_zeros k k M HM), (mvec_zeros k k m' Hm') in F.
      symmetry. apply F. reflexivity. }
    apply colmat_inj. rewrite <- mmul_colmat.
    apply (Sq (colmat v) (colmat_wf k v Wv)). rewrite mmul_colmat, Kv. symmetry. exact En.
  Qed.

  Lemma RowReduceForInverse_unfold k c M Nn : wfm k k M -> wfm k c Nn ->
    RowReduceForInverse M Nn = (do mn <- row_reduce_pair M Nn; Ok (snd mn)).
  Proof.
    intros HM HN. unfold Matrix.RowReduceForInverse.
    rewrite (LinAlg.is_square_wf B B1 k M HM). cbn [negb].
    destruct HM as [Hl _]. destruct HN as [Hl' _]. rewrite Hl, Hl', Nat.eqb_refl. reflexivity.
  Qed.

  (* if row reduction of [M | N] reports the singular error then M has a non-trivial kernel vector *)
  Theorem row_reduce_singular_kernel : forall k c M Nn,
    (0 < k)%nat -> wfm k k M -> wfm k c Nn ->
    RowReduceForInverse M Nn = Err ESingular ->
    exists v, wfv k v /\ v <> zeros k /\ mvec M v = zeros k.
  Proof.
    intros k c M Nn _ HM HN Herr.
    apply row_reduce_pair_not_ok_kernel; [exact HM|].
    rewrite <- (LinAlg.row_reduce_outcome_indep mul inv M Nn).
    rewrite (RowReduceForInverse_unfold k c M Nn HM HN) in Herr.
    destruct (row_reduce_pair M Nn); [discriminate|reflexivity|reflexivity].
  Qed.

  (* conversely a kernel vector makes M non-injective, so reduction cannot succeed *)
  Theorem kernel_row_reduce_singular : forall k c M Nn,
    wfm k k M -> wfm k c Nn ->
    (exists v, wfv k v /\ v <> zeros k /\ mvec M v = zeros k) ->
    RowReduceForInverse M Nn = Err ESingular.
  Proof.
    intros k c M Nn HM HN (v & Wv & Nz & Kv).
    pose proof (rrfi_spec k c M Nn HM HN) as S.
    rewrite (RowReduceForInverse_unfold k c M Nn HM HN) in *.
    destruct (row_reduce_pair M Nn) as [mn|e|p] eqn:Hok; cbn [obind] in *.
    - exfalso. apply Nz. apply colmat_inj.
      assert (HZ : wfv k (zeros k)) by (apply wzeros).
      apply (ok_unique k c 1%nat M Nn mn (colmat v) (colmat (zeros k)) HM HN Hok
               (colmat_wf k v Wv) (colmat_wf k _ HZ)).
      rewrite !mmul_colmat. rewrite Kv, (mvec_zeros k k M HM). reflexivity.
    - rewrite S. reflexivity.
    - contradiction.
  Qed.

  Theorem row_reduce_singular_iff : forall k c M Nn,
    (0 < k)%nat -> wfm k k M -> wfm k c Nn ->
    (RowReduceForInverse M Nn = Err ESingular <->
     exists v, wfv k v /\ v <> zeros k /\ mvec M v = zeros k).
  Proof.
    intros k c M Nn Hk HM HN. split.
    - apply (row_reduce_singular_kernel k c); assumption.
    - apply (kernel_row_reduce_singular k c); assumption.
  Qed.

  Lemma Inverse_as_RowReduce k M : wfm k k M -> Inverse M = RowReduceForInverse M (identity k).
  Proof.
    intros HM. pose proof HM as [Hl _]. unfold Matrix.Inverse, Matrix.RowReduceForInverse.
    destruct (negb (is_square M)); [reflexivity|]. rewrite Hl.
    replace (length (identity k)) with k
      by (unfold identity; rewrite map_length, seq_length; reflexivity).
    rewrite Nat.eqb_refl. reflexivity.
  Qed.

  Theorem inverse_singular_iff : forall k M,
    (0 < k)%nat -> wfm k k M ->
    (Inverse M = Err ESingular <->
     exists v, wfv k v /\ v <> zeros k /\ mvec M v = zeros k).
  Proof.
    intros k M Hk HM. rewrite (Inverse_as_RowReduce k M HM).
    apply (row_reduce_singular_iff k k); [exact Hk|exact HM|].
    apply (LinAlg.identity_wf B B1).
  Qed.
End LinAlgSingular.
