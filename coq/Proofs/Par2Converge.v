(* PAR2 Repair (Model/Par2.v), fault-free runs:
   T1. a successful Repair leaves EVERY protected file present with the recorded length and both
       recorded hashes (never success with a wrong file);
   T2. Repair on a set whose files are all OK writes nothing;  T2'. "no repair needed" implies all OK;
   T3. under the archive's self-consistency premise, a successful Repair leaves a state on which
       Verify needs no repair and a further Repair rewrites nothing (convergence step). *)
From Coq Require Import Lia.
From Gopar Require Import Model.Base Model.CRC Model.GoPath Model.FS Model.Par2
     Proofs.GoPathFacts Proofs.Par2Facts Proofs.Par2Verify Proofs.Par2Faults Proofs.Par2Clean.
Open Scope nat_scope.
Set Default Timeout 120.

(** * list helpers *)

Lemma map_snd_combine {A B} : forall (a : list A) (b : list B),
  length a = length b -> map snd (combine a b) = b.
Proof.
  induction a as [|x a IH]; intros [|y b] Hl; cbn [length] in Hl; try lia; [reflexivity|].
  cbn [combine map snd]. rewrite IH by lia. reflexivity.
Qed.

Lemma split_by_length {A} : forall (lens : list nat) (l : list A), length (split_by lens l) = length lens.
Proof.
  induction lens as [|n lens IH]; intros l; [reflexivity|].
  cbn [split_by length]. rewrite IH. reflexivity.
Qed.

Lemma NoDup_map_inj_in {A B} (f : A -> B) : forall (l : list A) x y,
  NoDup (map f l) -> In x l -> In y l -> f x = f y -> x = y.
Proof.
  induction l as [|a l IH]; intros x y Hnd Hx Hy E; [destruct Hx|].
  cbn [map] in Hnd. apply NoDup_cons_iff in Hnd. destruct Hnd as [Hni Hnd].
  destruct Hx as [->|Hx]; destruct Hy as [->|Hy].
  - reflexivity.
  - exfalso. apply Hni. rewrite E. apply in_map. exact Hy.
  - exfalso. apply Hni. rewrite <- E. apply in_map. exact Hx.
  - apply IH; assumption.
Qed.

Lemma Forall_combine_fst {A B} (P : A -> Prop) : forall (a : list A) (b : list B),
  Forall P a -> Forall (fun t : A * B => P (fst t)) (combine a b).
Proof.
  induction a as [|x a IH]; intros [|y b] H; cbn [combine]; try constructor.
  - inversion H; subst. assumption.
  - inversion H; subst. apply IH. assumption.
Qed.

(** * the key listing after writes to paths outside the listed pattern *)

Lemma fs_set_filter_keys (F : list N -> bool) : forall f p d, F p = false ->
  filter F (map fst (fs_set f p d)) = filter F (map fst f).
Proof.
  induction f as [|[q e] r IH]; intros p d HF; cbn [fs_set].
  - cbn [map fst filter]. rewrite HF. reflexivity.
  - destruct (str_eqb q p); cbn [map fst filter]; [reflexivity|]. rewrite IH by exact HF. reflexivity.
Qed.

Lemma apply_writes_filter_keys (F : list N -> bool) : forall (ws : list (list N * bytes)) f,
  Forall (fun w : list N * bytes => F (fst w) = false) ws ->
  filter F (map fst (apply_writes ws f)) = filter F (map fst f).
Proof.
  unfold apply_writes. induction ws as [|[p d] ws IH]; intros f H; cbn [fold_left fst snd]; [reflexivity|].
  inversion H as [|? ? Hp Hws]; subst. cbn [fst] in Hp. rewrite IH by exact Hws.
  apply fs_set_filter_keys. exact Hp.
Qed.

(* ShardCounts: no unusable slice and no misplaced file means every ok flag is set *)
Lemma all_ok_of_counts : forall (oks : list bool) (l : list fint), length oks = length l ->
  length (filter (fun okfi : bool * fint => negb (fst okfi) && Nat.eqb (count_nones (fi_shards (snd okfi))) 0)
                 (combine oks l)) = 0 ->
  Forall (fun fi => count_nones (fi_shards fi) = 0) l -> Forall (fun b => b = true) oks.
Proof.
  induction oks as [|b oks IH]; intros [|fi l] Hl H Hz; cbn [length] in Hl; try lia; [constructor|].
  inversion Hz as [|? ? Hc Hz']; subst.
  cbn [combine filter fst snd] in H. rewrite Hc in H.
  destruct b; cbn [negb andb Nat.eqb length] in H; [|lia].
  constructor; [reflexivity|]. apply (IH l); [lia|exact H|exact Hz'].
Qed.

Lemma files_ok_length ds : length (files_ok ds) = length (ds_fis ds).
Proof. unfold files_ok. rewrite map_length, combine_length, seq_length. lia. Qed.

Section Par2Converge.
  Variable md5 : bytes -> bytes.

  Definition recorded (info : dinfo) (data : bytes) : Prop :=
    md5 data = di_hash info /\ hash16k md5 data = di_h16 info /\ N.of_nat (length data) = di_len info.

  (** * the write-out phase *)

  Definition tpath (ix : list N) (t : bool * (dinfo * list bytes)) : list N :=
    file_path ix (di_name (fst (snd t))).

  (* a walk that reaches the end wrote verified data for every entry that was not OK,
     and changed no other path *)
  Lemma write_repaired_ok ix : forall todo done st rp st',
    io_sched st = [] ->
    NoDup (map (tpath ix) todo) ->
    write_repaired md5 ix todo done st = ((Ok tt, rp), st') ->
    (forall q, (forall t, In t todo -> fst t = false -> tpath ix t <> q) ->
               fs_lookup (io_fs st') q = fs_lookup (io_fs st) q) /\
    (forall t, In t todo -> fst t = false ->
               exists data, fs_lookup (io_fs st') (tpath ix t) = Some data /\ recorded (fst (snd t)) data).
  Proof.
    induction todo as [|[b [info shards]] todo IH]; intros done st rp st' Hs Hnd H.
    - cbn [write_repaired] in H. injection H as _ <-. split; [reflexivity|intros t []].
    - cbn [map] in Hnd. apply NoDup_cons_iff in Hnd. destruct Hnd as [Hni Hnd'].
      cbn [write_repaired] in H. destruct b.
      + destruct (IH _ _ _ _ Hs Hnd' H) as [A B]. split.
        * intros q Hq. apply A. intros t Hin Hf. apply Hq; [right; exact Hin|exact Hf].
        * intros t [<-|Hin] Hf; [cbn [fst] in Hf; discriminate Hf|]. apply B; assumption.
      + set (all := concat shards) in *.
        destruct (N.ltb_spec (N.of_nat (length all)) (di_len info)) as [Hlt|Hge]; [discriminate H|].
        set (data := firstn (N.to_nat (di_len info)) all) in *.
        destruct (bytes_eqb (hash16k md5 data) (di_h16 info)) eqn:E1; cbn [negb] in H; [|discriminate H].
        destruct (bytes_eqb (md5 data) (di_hash info)) eqn:E2; cbn [negb] in H; [|discriminate H].
        rewrite (io_write_nosched _ _ st Hs) in H.
        set (p := file_path ix (di_name info)) in *.
        apply IH in H; [|exact Hs|exact Hnd'].
        cbn [tick io_fs] in H. destruct H as [A B]. split.
        * intros q Hq. rewrite A.
          -- apply Par2Faults.fs_lookup_set_other.
             apply (Hq (false, (info, shards))); [left; reflexivity|reflexivity].
          -- intros t Hin Hf. apply Hq; [right; exact Hin|exact Hf].
        * intros t [<-|Hin] Hf; [|apply B; assumption].
          exists data. split.
          -- unfold tpath. cbn [fst snd]. fold p. rewrite A; [apply Par2Clean.fs_lookup_set_same|].
             intros t Hin _ E. apply Hni. unfold tpath at 1. cbn [fst snd]. fold p. rewrite <- E.
             apply in_map. exact Hin.
          -- cbn [fst snd]. split; [apply bytes_eqb_eq; exact E2|]. split; [apply bytes_eqb_eq; exact E1|].
             unfold data. rewrite firstn_length. lia.
  Qed.

  Lemma write_repaired_all_true ix : forall todo done st,
    Forall (fun t : bool * (dinfo * list bytes) => fst t = true) todo ->
    write_repaired md5 ix todo done st = ((Ok tt, done), st).
  Proof.
    induction todo as [|[b [info shards]] todo IH]; intros done st H; cbn [write_repaired]; [reflexivity|].
    inversion H as [|? ? Hb Hr]; subst. cbn [fst] in Hb. subst b. apply IH. exact Hr.
  Qed.

  (** * the loader: lengths, and an OK flag means the file is intact *)

  Lemma load_all_lengths ix st ds st1 : load_all md5 ix st = (Ok ds, st1) ->
    length (ds_fis ds) = length (d_rec (ds_dec ds)) /\ length (files_ok ds) = length (d_rec (ds_dec ds)).
  Proof.
    intros HL. destruct (load_all_shape md5 _ _ _ _ HL) as (_ & _ & _ & Hsh & _ & _).
    apply (f_equal (@length nat)) in Hsh. rewrite !map_length in Hsh.
    split; [exact Hsh|]. rewrite files_ok_length. exact Hsh.
  Qed.

  Lemma load_all_ok_intact ix fs ds st1 : load_all md5 ix (io_init fs []) = (Ok ds, st1) ->
    forall i, i < length (d_rec (ds_dec ds)) -> nth i (files_ok ds) false = true ->
    intact md5 fs ix (nth i (d_rec (ds_dec ds)) dinfo0).
  Proof.
    intros HL i Hi Hok.
    destruct (load_all_lengths _ _ _ _ HL) as [Lf Lo].
    destruct (load_all_inv md5 _ _ _ _ HL) as (d & s1 & w & fis & s2 & acc & Hnd & _ & Hlf & ->).
    cbn [ds_dec ds_fis] in *.
    assert (Hfl : flags3 (nth i fis dfi) = (false, false, false)).
    { unfold files_ok in Hok. cbn [ds_fis ds_dec] in Hok.
      match type of Hok with nth i (map ?g ?l) false = true =>
        rewrite (nth_indep (map g l) false (g (0, dfi))) in Hok
          by (rewrite map_length, combine_length, seq_length; lia);
        rewrite (map_nth g l (0, dfi) i) in Hok end.
      rewrite combine_nth in Hok by apply seq_length.
      cbn [fst snd] in Hok. apply file_ok_flags in Hok. exact Hok. }
    destruct (new_decoder_ok md5 _ _ _ _ Hnd) as [Hix _].
    pose proof (new_decoder_pres md5 ix (io_init fs [])) as P. rewrite Hnd in P. cbn [snd] in P.
    destruct P as (Pf & Ps & _). cbn [io_init io_fs io_sched] in Pf, Ps.
    apply (load_files_flags md5 fs) in Hlf; [|exact Ps|exact Pf| |].
    - destruct Hlf as [_ B]. rewrite Hix in B.
      apply (B i (nth i (d_rec d) dinfo0)); [|exact Hfl].
      exact (in_combine_seq_nth dinfo0 (d_rec d) 0 i Hi).
    - rewrite map_fst_combine by apply seq_length. apply seq_NoDup.
    - intros i' info' Hin. apply in_combine_l in Hin. apply in_seq in Hin.
      unfold fis0. rewrite map_length. lia.
  Qed.

  (** * T1. NEVER SUCCESS WITH A WRONG FILE *)
  Theorem repair_ok_all_recorded : forall ix dbl fs rp st' ds st1,
    par2_repair md5 ix dbl (io_init fs []) = ((Ok tt, rp), st') ->
    load_all md5 ix (io_init fs []) = (Ok ds, st1) ->
    NoDup (map (fun info => file_path ix (di_name info)) (d_rec (ds_dec ds))) ->
    forall info, In info (d_rec (ds_dec ds)) ->
      exists data, fs_lookup (io_fs st') (file_path ix (di_name info)) = Some data /\ recorded info data.
  Proof.
    intros ix dbl fs rp st' ds st1 HR HL Hnd info Hin.
    pose proof (load_all_pres md5 ix (io_init fs [])) as Pr. rewrite HL in Pr. cbn [snd] in Pr.
    destruct Pr as (Pf & Ps & _). cbn [io_init io_fs io_sched] in Pf, Ps.
    unfold par2_repair in HR. rewrite HL in HR.
    destruct (ds_fis ds) as [|fi0 fisr] eqn:Efis; [discriminate HR|]. rewrite <- Efis in HR. clear Efis fi0 fisr.
    destruct (repair_core ds dbl) as [data|e|q]; try discriminate HR.
    destruct (load_all_lengths _ _ _ _ HL) as [Lf Lo].
    set (recs := d_rec (ds_dec ds)) in *.
    set (pf := split_by (map (fun fi => length (fi_shards fi)) (ds_fis ds)) data) in HR.
    set (oks := files_ok ds) in *.
    set (todo := combine oks (combine recs pf)) in HR.
    assert (Lp : length pf = length recs) by (unfold pf; rewrite split_by_length, map_length; exact Lf).
    assert (Lc : length (combine recs pf) = length recs) by (rewrite combine_length; lia).
    assert (Lt : length todo = length recs) by (unfold todo; rewrite combine_length; lia).
    assert (Hmap : map (tpath ix) todo = map (fun info => file_path ix (di_name info)) recs).
    { transitivity (map (fun info => file_path ix (di_name info)) (map fst (map snd todo))).
      - rewrite !map_map. reflexivity.
      - unfold todo. rewrite map_snd_combine by lia. rewrite map_fst_combine by lia. reflexivity. }
    assert (HndT : NoDup (map (tpath ix) todo)) by (rewrite Hmap; exact Hnd).
    destruct (write_repaired_ok ix todo [] st1 rp st' Ps HndT HR) as [A B].
    destruct (In_nth _ _ dinfo0 Hin) as (i & Hi & <-).
    set (e := nth i todo (true, (dinfo0, []))).
    assert (He : e = (nth i oks true, (nth i recs dinfo0, nth i pf []))).
    { unfold e, todo. rewrite combine_nth by lia. rewrite combine_nth by lia. reflexivity. }
    assert (Hein : In e todo) by (apply nth_In; lia).
    assert (Hpe : tpath ix e = file_path ix (di_name (nth i recs dinfo0))) by (rewrite He; reflexivity).
    destruct (nth i oks true) eqn:Eb.
    - (* the file was OK: not written, and intact before *)
      assert (Eb' : nth i oks false = true) by (rewrite (nth_indep oks false true) by lia; exact Eb).
      destruct (load_all_ok_intact ix fs ds st1 HL i Hi Eb') as (dat & Hlk & Hm & H16 & Hlen).
      exists dat. split; [|split; [exact Hm|split; [exact H16|exact Hlen]]].
      rewrite <- Hpe. rewrite A; [rewrite Pf, Hpe; exact Hlk|].
      intros t Ht Hf E.
      assert (t = e) by (apply (NoDup_map_inj_in (tpath ix) todo); assumption).
      subst t. rewrite He in Hf. cbn [fst] in Hf. discriminate Hf.
    - (* the file was not OK: written with verified data *)
      destruct (B e Hein) as (dat & Hlk & Hrec); [rewrite He; reflexivity|].
      exists dat. rewrite Hpe in Hlk. rewrite He in Hrec. cbn [fst snd] in Hrec. split; assumption.
  Qed.

  (** * T2'. "no repair needed" implies every file is OK *)
  Theorem clean_counts_all_ok : forall ds,
    repair_needed (shard_counts ds) = false -> Forall (fun b => b = true) (files_ok ds).
  Proof.
    intros ds Hrn. unfold repair_needed in Hrn. apply orb_false_iff in Hrn. destruct Hrn as [Hu Hm].
    apply negb_false_iff in Hu, Hm. apply Nat.eqb_eq in Hu, Hm.
    unfold shard_counts in Hu, Hm. cbn [c_unusable c_misplaced] in Hu, Hm.
    apply count_nones_flat_zero in Hu.
    apply (all_ok_of_counts (files_ok ds) (ds_fis ds)); [apply files_ok_length|exact Hm|exact Hu].
  Qed.

  (** * T2. IDLE ON A CLEAN SET *)
  Theorem repair_idle_when_all_ok : forall ix dbl fs ds st1 r rp st',
    load_all md5 ix (io_init fs []) = (Ok ds, st1) -> Forall (fun b => b = true) (files_ok ds) ->
    par2_repair md5 ix dbl (io_init fs []) = ((r, rp), st') -> rp = [] /\ io_fs st' = fs.
  Proof.
    intros ix dbl fs ds st1 r rp st' HL Hall HR.
    pose proof (load_all_pres md5 ix (io_init fs [])) as Pr. rewrite HL in Pr. cbn [snd] in Pr.
    destruct Pr as (Pf & _ & _). cbn [io_init io_fs] in Pf.
    unfold par2_repair in HR. rewrite HL in HR.
    destruct (ds_fis ds) as [|fi0 fisr] eqn:Efis.
    { injection HR as _ <- <-. split; [reflexivity|exact Pf]. }
    rewrite <- Efis in HR.
    destruct (repair_core ds dbl) as [data|e|q].
    - rewrite write_repaired_all_true in HR.
      + injection HR as _ <- <-. split; [reflexivity|exact Pf].
      + apply (Forall_combine_fst (fun b : bool => b = true)). exact Hall.
    - injection HR as _ <- <-. split; [reflexivity|exact Pf].
    - injection HR as _ <- <-. split; [reflexivity|exact Pf].
  Qed.

  (** * the loading phase after writes that touch neither the index nor a volume-pattern path *)

  Lemma new_decoder_same ix st st2 d st1 : io_sched st = [] -> io_sched st2 = [] ->
    fs_lookup (io_fs st2) ix = fs_lookup (io_fs st) ix ->
    new_decoder md5 ix st = (Ok d, st1) ->
    exists st1', new_decoder md5 ix st2 = (Ok d, st1') /\ io_sched st1' = [] /\ io_fs st1' = io_fs st2.
  Proof.
    intros Hs Hs2 Hl H. unfold new_decoder in *.
    destruct (io_read ix st) as [[b|e|q] s1] eqn:ER; try discriminate H.
    apply io_read_ok_lookup in ER; [|exact Hs]. rewrite <- Hl in ER.
    destruct (io_read_some _ st2 b Hs2 ER) as (st1' & ER2 & Hs1' & Hf1').
    exists st1'. rewrite ER2. split; [|split; assumption].
    injection H as H _. rewrite H. reflexivity.
  Qed.

  Lemma load_parity_same d : forall paths acc st st2 acc' st',
    io_sched st = [] -> io_sched st2 = [] ->
    (forall p, In p paths -> fs_lookup (io_fs st2) p = fs_lookup (io_fs st) p) ->
    load_parity md5 d paths acc st = (Ok acc', st') ->
    exists st2', load_parity md5 d paths acc st2 = (Ok acc', st2').
  Proof.
    induction paths as [|p r IH]; intros acc st st2 acc' st' Hs Hs2 Hl H; cbn [load_parity] in *.
    - injection H as <- _. eexists. reflexivity.
    - pose proof (io_read_pres p st) as Pr.
      destruct (io_read p st) as [[b|e|q] s1] eqn:ER; try discriminate H.
      cbn [snd] in Pr. destruct Pr as (Pf & Ps & _).
      apply io_read_ok_lookup in ER; [|exact Hs]. rewrite <- (Hl p (or_introl eq_refl)) in ER.
      destruct (io_read_some _ st2 b Hs2 ER) as (s2 & ER2 & Hs2' & Hf2').
      rewrite ER2.
      assert (Hs1 : io_sched s1 = []) by congruence.
      assert (Hl' : forall p', In p' r -> fs_lookup (io_fs s2) p' = fs_lookup (io_fs s1) p').
      { intros p' Hin. rewrite Hf2', Pf. apply Hl. right. exact Hin. }
      destruct (read_file_vol md5 (d_setid d) b) as [| |sid f].
      + discriminate H.
      + exact (IH _ _ _ _ _ Hs1 Hs2' Hl' H).
      + lazymatch type of H with (if ?c then _ else _) = _ => destruct c end; [discriminate H|].
        lazymatch type of H with (if ?c then _ else _) = _ => destruct c end; [discriminate H|].
        exact (IH _ _ _ _ _ Hs1 Hs2' Hl' H).
  Qed.

  Lemma load_all_inv_full ix st ds st' :
    load_all md5 ix st = (Ok ds, st') ->
    exists d st1 w fis st2 paths st3 acc,
      str_eqb (ext ix) EXT_PAR2 = true /\
      new_decoder md5 ix st = (Ok d, st1) /\
      win_new (Z.of_N (d_slice d)) = Ok w /\
      load_files md5 d w (make_cstable (d_rec d)) (combine (seq 0 (length (d_rec d))) (d_rec d)) (fis0 d) st1
        = (Ok fis, st2) /\
      io_list (strip_ext ix ++ [DOT]) (ext ix) st2 = (Ok paths, st3) /\
      load_parity md5 d paths [] st3 = (Ok acc, st') /\
      ds = {| ds_dec := d; ds_fis := fis; ds_tbl := make_cstable (d_rec d); ds_parity := parity_array acc |}.
  Proof.
    intros H. unfold load_all in H.
    destruct (str_eqb (ext ix) EXT_PAR2) eqn:EE; cbn [negb] in H; [|discriminate H].
    destruct (new_decoder md5 ix st) as [[d|e|q] st1] eqn:E1; try discriminate H.
    destruct (win_new (Z.of_N (d_slice d))) as [w|e|q] eqn:E2; try discriminate H.
    cbv zeta in H. fold (fis0 d) in H.
    destruct (load_files md5 d w (make_cstable (d_rec d)) (combine (seq 0 (length (d_rec d))) (d_rec d)) (fis0 d) st1)
      as [[fis|e|q] st2] eqn:E3; try discriminate H.
    destruct (io_list (strip_ext ix ++ [DOT]) (ext ix) st2) as [[paths|e|q] st3] eqn:E4; try discriminate H.
    destruct (load_parity md5 d paths [] st3) as [[acc|e|q] st4] eqn:E5; try discriminate H.
    injection H as <- <-.
    exists d, st1, w, fis, st2, paths, st3, acc.
    split; [reflexivity|]. split; [reflexivity|]. split; [exact E2|]. split; [exact E3|].
    split; [exact E4|]. split; [exact E5|reflexivity].
  Qed.

  (* After writes that touch neither the index file nor any path of the volume pattern
     <base>.*.par2, and after which every protected file is present, the loading phase
     succeeds again with the same decoder, checksum table and recovery-block table. *)
  Lemma load_all_after_protected_writes ix fs ds st1 (ws : list (list N * bytes)) :
    load_all md5 ix (io_init fs []) = (Ok ds, st1) ->
    Forall (fun w : list N * bytes => fst w <> ix /\ vol_pattern (strip_ext ix) (fst w) = false) ws ->
    (forall info, In info (d_rec (ds_dec ds)) ->
       exists data, fs_lookup (apply_writes ws fs) (file_path ix (di_name info)) = Some data) ->
    exists ds' st1', load_all md5 ix (io_init (apply_writes ws fs) []) = (Ok ds', st1') /\
      ds_dec ds' = ds_dec ds /\ ds_tbl ds' = ds_tbl ds /\ ds_parity ds' = ds_parity ds.
  Proof.
    intros HL Hws Hpres.
    destruct (load_all_inv_full _ _ _ _ HL) as (d & s1 & w & fis & s2 & paths & s3 & acc &
                                                Hext & Hnd & Hw & Hlf & Hil & Hlp & ->).
    cbn [ds_dec] in Hpres.
    set (fs' := apply_writes ws fs) in *.
    assert (Eext : ext ix = EXT_PAR2) by (apply str_eqb_eq; exact Hext).
    (* the states of the original run *)
    pose proof (new_decoder_pres md5 ix (io_init fs [])) as P1. rewrite Hnd in P1. cbn [snd] in P1.
    destruct P1 as (Pf1 & Ps1 & _). cbn [io_init io_fs io_sched] in Pf1, Ps1.
    match type of Hlf with load_files md5 d w ?t ?todo ?f0 s1 = _ =>
      pose proof (load_files_pres md5 d w t todo f0 s1) as P2 end.
    rewrite Hlf in P2. cbn [snd] in P2. destruct P2 as (Pf2 & Ps2 & _).
    pose proof (io_list_pres (strip_ext ix ++ [DOT]) (ext ix) s2) as P3. rewrite Hil in P3. cbn [snd] in P3.
    destruct P3 as (Pf3 & Ps3 & _).
    assert (Hs2 : io_sched s2 = []) by congruence.
    assert (Hs3 : io_sched s3 = []) by congruence.
    assert (Hf2 : io_fs s2 = fs) by congruence.
    assert (Hf3 : io_fs s3 = fs) by congruence.
    (* the index file *)
    assert (Hnix : ~ In ix (map fst ws)).
    { intros Hin. apply in_map_iff in Hin. destruct Hin as (w0 & E & Hin).
      rewrite Forall_forall in Hws. destruct (Hws w0 Hin) as [Hne _]. exact (Hne E). }
    destruct (new_decoder_same ix (io_init fs []) (io_init fs' []) d s1 eq_refl eq_refl) as (s1' & ND' & Hs1' & Hf1').
    { cbn [io_init io_fs]. unfold fs'. apply apply_writes_lookup_other. exact Hnix. }
    { exact Hnd. }
    cbn [io_init io_fs] in Hf1'.
    destruct (new_decoder_ok md5 _ _ _ _ Hnd) as [Hix _].
    (* the protected files *)
    destruct (load_files_succeeds md5 d w (make_cstable (d_rec d)) (combine (seq 0 (length (d_rec d))) (d_rec d))
                (fis0 d) s1' Hs1') as (fis' & s2' & LF' & Hs2' & Hf2').
    { intros i info Hin. apply in_combine_r in Hin. rewrite Hf1', Hix. apply Hpres. exact Hin. }
    (* the listing *)
    set (F := fun q : list N => Nat.leb (length (strip_ext ix ++ [DOT]) + length (ext ix)) (length q)
                                && starts_with q (strip_ext ix ++ [DOT]) && ends_with q (ext ix)
                                && no_slash (skipn (length (strip_ext ix ++ [DOT])) q)).
    assert (HF : forall q, F q = vol_pattern (strip_ext ix) q).
    { intros q. unfold F, vol_pattern. rewrite Eext. reflexivity. }
    assert (Hpaths : paths = sort_paths (filter F (map fst fs))).
    { unfold io_list in Hil. rewrite Hs2 in Hil. cbn [sched_lookup] in Hil. injection Hil as <- _.
      rewrite Hf2. reflexivity. }
    assert (Hkeys : filter F (map fst fs') = filter F (map fst fs)).
    { unfold fs'. apply apply_writes_filter_keys. revert Hws. apply Forall_impl.
      intros w0 [_ Hp]. rewrite HF. exact Hp. }
    assert (IL' : exists s3', io_list (strip_ext ix ++ [DOT]) (ext ix) s2' = (Ok paths, s3') /\
                              io_sched s3' = [] /\ io_fs s3' = fs').
    { unfold io_list. rewrite Hs2'. cbn [sched_lookup]. eexists. split; [|split].
      - fold F. rewrite Hf2', Hf1', Hkeys, <- Hpaths. reflexivity.
      - cbn [tick io_sched]. exact Hs2'.
      - cbn [tick io_fs]. congruence. }
    destruct IL' as (s3' & IL' & Hs3' & Hf3').
    (* the volumes *)
    destruct (load_parity_same d paths [] s3 s3' acc st1 Hs3 Hs3') as (s4' & LP').
    { intros p Hp. rewrite Hf3, Hf3'. unfold fs'. apply apply_writes_lookup_other.
      rewrite Hpaths in Hp. apply (proj1 (sort_paths_in _ _)) in Hp. apply (proj1 (filter_In _ _ _)) in Hp. destruct Hp as [_ HFp].
      intros Hin. apply in_map_iff in Hin. destruct Hin as (w0 & E & Hin).
      rewrite Forall_forall in Hws. destruct (Hws w0 Hin) as [_ Hpat].
      rewrite E, <- HF, HFp in Hpat. discriminate Hpat. }
    { exact Hlp. }
    pose proof (load_all_ok md5 ix (io_init fs' []) d s1' w fis' s2' paths s3' acc s4' Hext ND' Hw LF' IL' LP') as LA.
    eexists. exists s4'. split; [exact LA|]. cbn [ds_dec ds_tbl ds_parity]. repeat split.
  Qed.

  (** * T3. CONVERGENCE STEP *)
  Theorem repair_ok_then_clean_and_idle : forall ix dbl fs rp st' ds st1,
    par2_repair md5 ix dbl (io_init fs []) = ((Ok tt, rp), st') ->
    load_all md5 ix (io_init fs []) = (Ok ds, st1) ->
    (* the protected paths are pairwise distinct, and so are the file ids *)
    NoDup (map (fun info => file_path ix (di_name info)) (d_rec (ds_dec ds))) ->
    NoDup (map di_id (d_rec (ds_dec ds))) ->
    (* self-consistency of the archive: any content with a file's recorded hashes and length
       is made of byte values and has that file's slice checksum list *)
    (forall info data, In info (d_rec (ds_dec ds)) -> recorded info data ->
         wf_bytes data /\ di_pairs info = pairs_of md5 (N.to_nat (d_slice (ds_dec ds))) data) ->
    (* no protected path is the index file or matches the volume pattern <base>.*.par2 *)
    (forall info, In info (d_rec (ds_dec ds)) ->
         file_path ix (di_name info) <> ix /\
         vol_pattern (strip_ext ix) (file_path ix (di_name info)) = false) ->
    exists c st2, par2_verify md5 ix (io_init (io_fs st') []) = (Ok c, st2) /\ repair_needed c = false /\
      forall dbl2 r2 rp2 st3, par2_repair md5 ix dbl2 (io_init (io_fs st') []) = ((r2, rp2), st3) ->
        rp2 = [] /\ io_fs st3 = io_fs st'.
  Proof.
    intros ix dbl fs rp st' ds st1 HR HL Hndp Hndi Hself Hdisj.
    pose proof (repair_ok_all_recorded _ _ _ _ _ _ _ HR HL Hndp) as T1.
    assert (W : exists ws : list (list N * bytes), io_fs st' = apply_writes ws fs /\
                Forall (fun w : list N * bytes => fst w <> ix /\ vol_pattern (strip_ext ix) (fst w) = false) ws).
    { destruct (repair_writes md5 _ _ _ _ _ _ HR) as [[Hfs _]|(ds0 & st0 & ws & HL0 & Hfs & _ & Hws)].
      - exists []. split; [exact Hfs|constructor].
      - rewrite HL in HL0. injection HL0 as <- <-.
        exists ws. split; [exact Hfs|]. revert Hws. apply Forall_impl.
        intros w0 (info & Hin & Hp & _). rewrite Hp. apply Hdisj. exact Hin. }
    destruct W as (ws & Hfs & Hws).
    destruct (load_all_after_protected_writes ix fs ds st1 ws HL Hws) as (ds' & st1' & HL' & Edec & _ & _).
    { intros info Hin. destruct (T1 info Hin) as (data & Hlk & _). exists data. rewrite <- Hfs. exact Hlk. }
    rewrite <- Hfs in HL'.
    assert (RN : repair_needed (shard_counts ds') = false).
    { apply (intact_files_clean md5 ix (io_fs st') ds' st1' HL').
      - rewrite Edec. exact Hndi.
      - rewrite Edec. intros info Hin. destruct (T1 info Hin) as (data & Hlk & Hrec).
        destruct (Hself info data Hin Hrec) as [Hwf Hpairs].
        destruct Hrec as (Hm & H16 & Hlen).
        exists data. split; [exact Hlk|]. split; [exact Hwf|]. split; [exact Hlen|]. split; [exact Hm|].
        split; [exact H16|exact Hpairs]. }
    exists (shard_counts ds'), st1'. split; [unfold par2_verify; rewrite HL'; reflexivity|].
    split; [exact RN|].
    intros dbl2 r2 rp2 st3 HR2.
    apply (repair_idle_when_all_ok ix dbl2 (io_fs st') ds' st1' r2 rp2 st3 HL'); [|exact HR2].
    apply clean_counts_all_ok. exact RN.
  Qed.

End Par2Converge.

Print Assumptions repair_ok_all_recorded.
Print Assumptions clean_counts_all_ok.
Print Assumptions repair_idle_when_all_ok.
Print Assumptions load_all_after_protected_writes.
Print Assumptions repair_ok_then_clean_and_idle.
