(* Facts about the PAR1 decoder and volume format (Model/Par1.v over Model/FS.v):
   Verify and the loading phase never modify the file system and emit no write;
   Repair (fault-free run) changes it only through completed writes of data that
   matches both recorded hashes and the length; a clean verification means every
   saved file is present with its hashes; write_volume / read_volume round trip. *)
From Coq Require Import Lia.
From Gopar Require Import Model.Base Model.Matrix Model.GF8 Model.CRC Model.GoPath Model.FS Model.Par1
     Proofs.GoPathFacts Proofs.Par2Facts Proofs.Par2Create.
Open Scope N_scope.
Set Default Timeout 120.

(** * list layout helpers *)
Lemma skipn_app_plus {A} (a b : list A) k n : length a = k -> skipn (k + n) (a ++ b) = skipn n b.
Proof. intros H. rewrite skipn_add. rewrite (skipn_app_len a b k H). reflexivity. Qed.

Lemma firstn_app_short {A} (a b : list A) n : (n <= length a)%nat -> firstn n (a ++ b) = firstn n a.
Proof.
  intros H. rewrite firstn_app. replace (n - length a)%nat with 0%nat by lia.
  cbn [firstn]. apply app_nil_r.
Qed.

Lemma flat_map_pair_length {A B} (f g : A -> B) : forall l,
  length (flat_map (fun u => [f u; g u]) l) = (2 * length l)%nat.
Proof. induction l as [|x l IH]; [reflexivity|]. cbn [flat_map length app]. rewrite IH. lia. Qed.

Lemma encode_utf16le_even s : N.of_nat (length (encode_utf16le s)) mod 2 = 0.
Proof.
  unfold encode_utf16le. rewrite flat_map_pair_length.
  rewrite Nat2N.inj_mul, N.mul_comm. apply N.mod_mul. discriminate.
Qed.

(* the 96-byte header of a volume, over abstract segments *)
Lemma vol_layout (id ver h sh num cnt c60 f1 f2 dl R : bytes) :
  length id = 8%nat -> length ver = 8%nat -> length h = 16%nat -> length sh = 16%nat ->
  length num = 8%nat -> length cnt = 8%nat -> length c60 = 8%nat -> length f1 = 8%nat ->
  length f2 = 8%nat -> length dl = 8%nat ->
  let T := sh ++ num ++ cnt ++ c60 ++ f1 ++ f2 ++ dl in
  let b := id ++ ver ++ h ++ T ++ R in
  length b = (96 + length R)%nat /\
  firstn 8 b = id /\
  firstn 4 (skipn 8 b) = firstn 4 ver /\
  skipn 32 b = T ++ R /\
  firstn 16 (skipn 16 b) = h /\
  firstn 8 (skipn 64 b) = c60 /\
  firstn 8 (skipn 56 b) = cnt /\
  skipn 96 b = R /\
  firstn 16 (skipn 32 b) = sh /\
  firstn 8 (skipn 48 b) = num.
Proof.
  intros Hid Hver Hh Hsh Hnum Hcnt Hc60 Hf1 Hf2 Hdl T b.
  assert (E32 : skipn 32 b = T ++ R).
  { unfold b. change 32%nat with (8 + (8 + (16 + 0)))%nat.
    rewrite !skipn_app_plus by assumption. reflexivity. }
  assert (ET : forall k, skipn (32 + k) b = skipn k (sh ++ num ++ cnt ++ c60 ++ f1 ++ f2 ++ dl ++ R)).
  { intros k. rewrite skipn_add, E32. unfold T. rewrite <- !app_assoc. reflexivity. }
  split; [|split; [|split; [|split; [|split; [|split; [|split; [|split; [|split]]]]]]]].
  - unfold b, T. rewrite !app_length. lia.
  - unfold b. apply firstn_app_len. exact Hid.
  - unfold b. change 8%nat with (8 + 0)%nat at 1. rewrite skipn_app_plus by assumption. cbn [skipn].
    apply firstn_app_short. lia.
  - exact E32.
  - unfold b. change 16%nat with (8 + (8 + 0))%nat at 2. rewrite !skipn_app_plus by assumption. cbn [skipn].
    apply firstn_app_len. exact Hh.
  - change 64%nat with (32 + (16 + (8 + (8 + 0))))%nat. rewrite ET. rewrite !skipn_app_plus by assumption.
    cbn [skipn]. apply firstn_app_len. exact Hc60.
  - change 56%nat with (32 + (16 + (8 + 0)))%nat. rewrite ET. rewrite !skipn_app_plus by assumption.
    cbn [skipn]. apply firstn_app_len. exact Hcnt.
  - change 96%nat with (32 + (16 + (8 + (8 + (8 + (8 + (8 + (8 + 0))))))))%nat. rewrite ET.
    rewrite !skipn_app_plus by assumption. reflexivity.
  - rewrite E32. unfold T. rewrite <- !app_assoc. apply firstn_app_len. exact Hsh.
  - change 48%nat with (32 + (16 + 0))%nat. rewrite ET. rewrite !skipn_app_plus by assumption.
    cbn [skipn]. apply firstn_app_len. exact Hnum.
Qed.

(* one file entry, over abstract segments *)
Lemma entry_layout (eb st ln h h16 nb R : bytes) :
  length eb = 8%nat -> length st = 8%nat -> length ln = 8%nat -> length h = 16%nat -> length h16 = 16%nat ->
  let buf := (eb ++ st ++ ln ++ h ++ h16 ++ nb) ++ R in
  length buf = (56 + length nb + length R)%nat /\
  firstn 8 buf = eb /\
  firstn 8 (skipn 8 buf) = st /\
  firstn 8 (skipn 16 buf) = ln /\
  firstn 16 (skipn 24 buf) = h /\
  firstn 16 (skipn 40 buf) = h16 /\
  skipn 56 buf = nb ++ R.
Proof.
  intros Heb Hst Hln Hh Hh16 buf. unfold buf. rewrite <- !app_assoc.
  split; [|split; [|split; [|split; [|split; [|split]]]]].
  - rewrite !app_length. lia.
  - apply firstn_app_len. exact Heb.
  - change 8%nat with (8 + 0)%nat at 2. rewrite !skipn_app_plus by assumption. cbn [skipn].
    apply firstn_app_len. exact Hst.
  - change 16%nat with (8 + (8 + 0))%nat. rewrite !skipn_app_plus by assumption. cbn [skipn].
    apply firstn_app_len. exact Hln.
  - change 24%nat with (8 + (8 + (8 + 0)))%nat. rewrite !skipn_app_plus by assumption. cbn [skipn].
    apply firstn_app_len. exact Hh.
  - change 40%nat with (8 + (8 + (8 + (16 + 0))))%nat. rewrite !skipn_app_plus by assumption. cbn [skipn].
    apply firstn_app_len. exact Hh16.
  - change 56%nat with (8 + (8 + (8 + (16 + (16 + 0)))))%nat. rewrite !skipn_app_plus by assumption. reflexivity.
Qed.

Lemma le_decode_encode_mod : forall n v, le_decode (le_encode n v) = v mod 256 ^ N.of_nat n.
Proof.
  induction n as [|n IH]; intros v; cbn [le_encode le_decode].
  - change (256 ^ N.of_nat 0) with 1. rewrite N.mod_1_r. reflexivity.
  - rewrite IH, Nat2N.inj_succ, N.pow_succ_r'.
    rewrite N.mod_mul_r by (try discriminate; apply N.pow_nonzero; discriminate). reflexivity.
Qed.

(* the uint64 arithmetic of readFileEntry recovers the name length even when 56 + length wraps *)
Lemma entry_size_wrap n : n < 2 ^ 64 -> ((56 + n) mod 2 ^ 64 + 2 ^ 64 - 56) mod 2 ^ 64 = n.
Proof.
  intros Hn. destruct (N.lt_ge_cases (56 + n) (2 ^ 64)) as [Lt|Ge].
  - rewrite (N.mod_small (56 + n)) by exact Lt.
    replace (56 + n + 2 ^ 64 - 56) with (n + 1 * 2 ^ 64) by lia.
    rewrite N.mod_add by (apply N.pow_nonzero; discriminate). apply N.mod_small. exact Hn.
  - assert (E : (56 + n) mod 2 ^ 64 = 56 + n - 2 ^ 64).
    { symmetry. apply N.mod_unique with 1; lia. }
    rewrite E. replace (56 + n - 2 ^ 64 + 2 ^ 64 - 56) with n by lia. apply N.mod_small. exact Hn.
Qed.

Lemma ver_ok : (le_decode (firstn 4 (le_encode 8 PAR1_VERSION)) =? PAR1_VERSION) = true.
Proof. vm_compute. reflexivity. Qed.

Lemma count_none1_zero {A} : forall l : list (option A), count_none1 l = 0%nat ->
  Forall (fun o => exists x, o = Some x) l.
Proof.
  unfold count_none1. induction l as [|[x|] l IH]; cbn [filter length]; intros H.
  - constructor.
  - constructor; [exists x; reflexivity|apply IH; exact H].
  - discriminate.
Qed.

(* the number of entries saved in the volume set: the data shards, which count against the limit of 256 *)
Definition nsaved (v : p1vol) : N := N.of_nat (length (filter saved (v_entries v))).

Section Par1Facts.
  Variable md5 : bytes -> bytes.

  (** * A. framing *)
  Lemma load_data_pres ix : forall es st, pres st (snd (load_data md5 ix es st)).
  Proof.
    induction es as [|e r IH]; intros st; cbn [load_data].
    - apply pres_refl.
    - destruct (entry_path ix e) as [p|x|q]; try (cbn [snd]; apply pres_refl).
      pose proof (io_read_pres p st) as P.
      destruct (io_read p st) as [[data|x|q] st1]; cbn [snd] in P.
      + pose proof (IH st1) as P2.
        destruct (load_data md5 ix r st1) as [[ds|x|q] st2]; cbn [snd] in *; eapply pres_trans; eassumption.
      + destruct x; try (cbn [snd]; exact P).
        pose proof (IH st1) as P2.
        destruct (load_data md5 ix r st1) as [[ds|x|q] st2]; cbn [snd] in *; eapply pres_trans; eassumption.
      + cbn [snd]. exact P.
  Qed.

  Lemma load_vols_pres ix sh : forall n i size acc st, pres st (snd (load_vols md5 ix sh i n size acc st)).
  Proof.
    induction n as [|n IH]; intros i size acc st; cbn [load_vols].
    - apply pres_refl.
    - pose proof (io_read_pres (volume_path ix (N.of_nat (S i))) st) as P.
      destruct (io_read (volume_path ix (N.of_nat (S i))) st) as [[b|x|q] st1]; cbn [snd] in P.
      + destruct (read_volume md5 b) as [v|x|q]; [| |cbn [snd]; exact P].
        * repeat lazymatch goal with
                 | |- pres _ (snd (if ?c then _ else _)) =>
                     destruct c; [first [cbn [snd]; exact P | eapply pres_trans; [exact P|apply IH]]|]
                 end.
          eapply pres_trans; [exact P|apply IH].
        * (* an unparsable volume is skipped *)
          eapply pres_trans; [exact P|apply IH].
      + destruct x; try (cbn [snd]; exact P). eapply pres_trans; [exact P|apply IH].
      + cbn [snd]. exact P.
  Qed.

  Lemma p1_load_pres ix st : pres st (snd (p1_load md5 ix st)).
  Proof.
    unfold p1_load.
    lazymatch goal with |- pres _ (snd (if ?c then _ else _)) => destruct c end; [cbn [snd]; apply pres_refl|].
    pose proof (io_read_pres ix st) as P1.
    destruct (io_read ix st) as [[b|x|q] st1]; cbn [snd] in P1; try (cbn [snd]; exact P1).
    destruct (read_volume md5 b) as [v|x|q]; try (cbn [snd]; exact P1).
    lazymatch goal with |- pres _ (snd (if ?c then _ else _)) => destruct c end; [cbn [snd]; exact P1|].
    pose proof (load_data_pres ix (filter saved (v_entries v)) st1) as P2.
    destruct (load_data md5 ix (filter saved (v_entries v)) st1) as [[ds|x|q] st2]; cbn [snd] in P2;
      try (cbn [snd]; eapply pres_trans; [exact P1|exact P2]).
    pose proof (pres_trans _ _ _ P1 P2) as P12.
    destruct ds as [|d0 ds]; [cbn [snd]; exact P12|].
    lazymatch goal with |- pres _ (snd (if ?c then _ else _)) => destruct c end; [cbn [snd]; exact P12|].
    match goal with |- context [load_vols md5 ix ?a ?i ?n ?s ?acc st2] =>
      pose proof (load_vols_pres ix a n i s acc st2) as P3;
      destruct (load_vols md5 ix a i n s acc st2) as [[[slots size]|x|q] st3] end;
      cbn [snd] in *; eapply pres_trans; eassumption.
  Qed.

  Lemma par1_verify_pres ix all st : pres st (snd (par1_verify md5 ix all st)).
  Proof.
    unfold par1_verify. pose proof (p1_load_pres ix st) as P.
    destruct (p1_load md5 ix st) as [[s|x|q] st1]; cbn [snd] in P; try (cbn [snd]; exact P).
    repeat lazymatch goal with
           | |- pres _ (snd (if ?c then _ else _)) => destruct c
           | |- pres _ (snd (match ?c with Ok _ => _ | Err _ => _ | Panic _ => _ end)) => destruct c
           end; cbn [snd]; exact P.
  Qed.

  Theorem p1_load_fs : forall ix st, io_fs (snd (p1_load md5 ix st)) = io_fs st.
  Proof. intros ix st. apply (p1_load_pres ix st). Qed.

  Theorem par1_verify_pure : forall ix all st, io_fs (snd (par1_verify md5 ix all st)) = io_fs st.
  Proof. intros ix all st. apply (par1_verify_pres ix all st). Qed.

  Theorem par1_verify_no_write : forall ix all fs sched,
    Forall no_write (io_trace (snd (par1_verify md5 ix all (io_init fs sched)))).
  Proof.
    intros ix all fs sched. destruct (par1_verify_pres ix all (io_init fs sched)) as (_ & _ & t & T & W).
    cbn [io_init io_trace app] in T. rewrite T. exact W.
  Qed.

  (** * B. Repair *)
  Lemma entry_path_ok ix e p : entry_path ix e = Ok p ->
    base (e_name e) = e_name e /\ p = join2 (dir ix) (e_name e).
  Proof.
    unfold entry_path. destruct (str_eqb (base (e_name e)) (e_name e)) eqn:E; cbn [negb]; intros H; [|discriminate].
    injection H as <-. split; [apply str_eqb_eq; exact E|reflexivity].
  Qed.

  Lemma p1_write_repaired_spec ix (recs : list p1entry) : forall todo done st r rp st',
    io_sched st = [] ->
    Forall (fun t : p1entry * (option bytes * bytes) => In (fst t) recs) todo ->
    p1_write_repaired md5 ix todo done st = ((r, rp), st') ->
    exists ws,
      io_fs st' = apply_writes ws (io_fs st) /\ rp = done ++ map fst ws /\
      Forall (fun w : list N * bytes => exists e, In e recs /\ base (e_name e) = e_name e /\
                 fst w = join2 (dir ix) (e_name e) /\
                 md5 (snd w) = e_hash e /\ hash16k md5 (snd w) = e_h16 e /\
                 N.of_nat (length (snd w)) = e_len e) ws.
  Proof.
    assert (Stop : forall (done : list (list N)) (st : io),
              exists ws : list (list N * bytes),
                io_fs st = apply_writes ws (io_fs st) /\ done = done ++ map fst ws /\
                Forall (fun w : list N * bytes => exists e, In e recs /\ base (e_name e) = e_name e /\
                   fst w = join2 (dir ix) (e_name e) /\
                   md5 (snd w) = e_hash e /\ hash16k md5 (snd w) = e_h16 e /\
                   N.of_nat (length (snd w)) = e_len e) ws).
    { intros done st. exists []. cbn [apply_writes fold_left map].
      split; [reflexivity|split; [symmetry; apply app_nil_r|constructor]]. }
    induction todo as [|[e [o shard]] todo IH]; intros done st r rp st' Hs Hin H.
    - cbn [p1_write_repaired] in H. injection H as _ <- <-. apply Stop.
    - inversion Hin as [|? ? Hi Hin']; subst. cbn [fst snd] in Hi.
      cbn [p1_write_repaired] in H. destruct o as [given|].
      { eapply IH; eassumption. }
      destruct (N.ltb_spec (N.of_nat (length shard)) (e_len e)) as [Hlt|Hge].
      { injection H as _ <- <-. apply Stop. }
      set (data := firstn (N.to_nat (e_len e)) shard) in *.
      destruct (bytes_eqb (hash16k md5 data) (e_h16 e)) eqn:E1; cbn [negb] in H.
      2:{ injection H as _ <- <-. apply Stop. }
      destruct (bytes_eqb (md5 data) (e_hash e)) eqn:E2; cbn [negb] in H.
      2:{ injection H as _ <- <-. apply Stop. }
      destruct (entry_path ix e) as [p|x|q] eqn:EP.
      2:{ injection H as _ <- <-. apply Stop. }
      2:{ injection H as _ <- <-. apply Stop. }
      apply entry_path_ok in EP. destruct EP as [Eb ->].
      rewrite (io_write_nosched _ _ st Hs) in H.
      apply IH in H; [|exact Hs|exact Hin'].
      destruct H as (ws & Hfs & Hrp & Hws).
      exists ((join2 (dir ix) (e_name e), data) :: ws).
      split; [|split].
      + rewrite Hfs. reflexivity.
      + rewrite Hrp, <- app_assoc. reflexivity.
      + constructor; [|exact Hws]. exists e. cbn [fst snd].
        split; [exact Hi|]. split; [exact Eb|]. split; [reflexivity|].
        split; [apply bytes_eqb_eq; exact E2|]. split; [apply bytes_eqb_eq; exact E1|].
        unfold data. rewrite firstn_length. lia.
  Qed.

  Theorem par1_repair_writes : forall ix dbl fs r rp st',
    par1_repair md5 ix dbl (io_init fs []) = ((r, rp), st') ->
    (io_fs st' = fs /\ rp = []) \/
    exists s st1 ws,
      p1_load md5 ix (io_init fs []) = (Ok s, st1) /\
      io_fs st' = apply_writes ws fs /\ rp = map fst ws /\
      Forall (fun w => exists e, In e (s_saved s) /\ base (e_name e) = e_name e /\
                         fst w = join2 (dir ix) (e_name e) /\
                         md5 (snd w) = e_hash e /\ Par1.hash16k md5 (snd w) = e_h16 e /\
                         N.of_nat (length (snd w)) = e_len e) ws.
  Proof.
    intros ix dbl fs r rp st' H. unfold par1_repair in H.
    pose proof (p1_load_pres ix (io_init fs [])) as P.
    destruct (p1_load md5 ix (io_init fs [])) as [[s|x|q] st1] eqn:EL; cbn [snd] in P;
      destruct P as (Pf & Ps & _); cbn [io_init io_fs io_sched] in Pf, Ps.
    2:{ left. injection H as _ <- <-. split; [exact Pf|reflexivity]. }
    2:{ left. injection H as _ <- <-. split; [exact Pf|reflexivity]. }
    assert (Stop : forall o, ((o, @nil (list N)), st1) = ((r, rp), st') -> io_fs st' = fs /\ rp = []).
    { intros o E. injection E as _ <- <-. split; [exact Pf|reflexivity]. }
    destruct (Nat.eqb (s_size s) 0).
    { left. destruct (Nat.eqb (count_none1 (s_data s)) 0); eapply Stop; exact H. }
    destruct (Nat.ltb 256 (length (s_data s) + length (s_parity s))); [left; eapply Stop; exact H|].
    destruct (build_shards s) as [sh|x|q]; [|left; eapply Stop; exact H|left; eapply Stop; exact H].
    destruct (par1_reconstruct (length (s_data s)) (length (s_parity s)) sh) as [full|x|q];
      [|left; eapply Stop; exact H|left; eapply Stop; exact H].
    match type of H with (match ?okdbl with _ => _ end) = _ => destruct okdbl as [[|]|x|q] end;
      [|left; eapply Stop; exact H|left; eapply Stop; exact H|left; eapply Stop; exact H].
    right.
    apply (p1_write_repaired_spec ix (s_saved s)) in H; [|exact Ps|].
    - destruct H as (ws & Hfs & Hrp & Hws). exists s, st1, ws.
      split; [reflexivity|]. split; [rewrite Hfs, Pf; reflexivity|]. split; [exact Hrp|exact Hws].
    - apply Forall_forall. intros [e [o sh']] Hin. cbn [fst].
      apply in_combine_l in Hin. exact Hin.
  Qed.

  (** * C. clean means intact *)
  Lemma io_read_ok p st d st1 : io_read p st = (Ok d, st1) -> fs_lookup (io_fs st) p = Some d.
  Proof.
    unfold io_read. destruct (sched_lookup (io_sched st) (io_n st)); [discriminate|].
    destruct (fs_lookup (io_fs st) p) as [d'|].
    - intros H. injection H as -> _. reflexivity.
    - destruct (is_dir (io_fs st) p); discriminate.
  Qed.

  Definition intact (fs : list (list N * bytes)) (ix : list N) (e : p1entry) (o : option bytes) : Prop :=
    match o with
    | Some data => fs_lookup fs (join2 (dir ix) (e_name e)) = Some data /\
                   md5 data = e_hash e /\ hash16k md5 data = e_h16 e
    | None => True
    end.

  Lemma load_data_spec ix : forall es st ds st',
    load_data md5 ix es st = (Ok ds, st') -> Forall2 (intact (io_fs st) ix) es ds.
  Proof.
    induction es as [|e r IH]; intros st ds st' H; cbn [load_data] in H.
    - injection H as <- _. constructor.
    - destruct (entry_path ix e) as [p|x|q] eqn:EP; try discriminate.
      apply entry_path_ok in EP. destruct EP as [_ ->].
      pose proof (io_read_fs (join2 (dir ix) (e_name e)) st) as F.
      destruct (io_read (join2 (dir ix) (e_name e)) st) as [[data|x|q] st1] eqn:ER; cbn [snd] in F.
      + apply io_read_ok in ER.
        destruct (load_data md5 ix r st1) as [[ds'|x|q] st2] eqn:EL; try discriminate.
        injection H as <- _. apply IH in EL. rewrite F in EL.
        constructor; [|exact EL].
        destruct (bytes_eqb (hash16k md5 data) (e_h16 e)) eqn:E1; cbn [andb]; [|exact I].
        destruct (bytes_eqb (md5 data) (e_hash e)) eqn:E2; [|exact I].
        cbn [intact]. split; [exact ER|]. split; apply bytes_eqb_eq; assumption.
      + destruct x; try discriminate.
        destruct (load_data md5 ix r st1) as [[ds'|x|q] st2] eqn:EL; try discriminate.
        injection H as <- _. apply IH in EL. rewrite F in EL.
        constructor; [exact I|exact EL].
      + discriminate.
  Qed.

  Lemma p1_load_data ix st s st' : p1_load md5 ix st = (Ok s, st') ->
    exists st1 st2, io_fs st1 = io_fs st /\ load_data md5 ix (s_saved s) st1 = (Ok (s_data s), st2).
  Proof.
    unfold p1_load. intros H.
    destruct (negb (str_eqb (ext ix) EXT_PAR)); [discriminate|].
    pose proof (io_read_fs ix st) as F.
    destruct (io_read ix st) as [[b|x|q] st1]; cbn [snd] in F; try discriminate.
    destruct (read_volume md5 b) as [v|x|q]; try discriminate.
    destruct (negb (v_number v =? 0)); [discriminate|].
    destruct (load_data md5 ix (filter saved (v_entries v)) st1) as [[ds|x|q] st2] eqn:EL; try discriminate.
    destruct ds as [|d0 ds]; [discriminate|].
    match type of H with context [if 256 <=? ?n then _ else _] => destruct (256 <=? n) end; [discriminate|].
    match type of H with context [load_vols md5 ix ?a ?i ?n ?sz ?acc st2] =>
      destruct (load_vols md5 ix a i n sz acc st2) as [[[slots size]|x|q] st3] end; try discriminate.
    injection H as <- _. cbn [s_saved s_data]. exists st1, st2. split; [exact F|exact EL].
  Qed.

  Theorem par1_verify_clean_intact : forall ix all fs c ok st,
    par1_verify md5 ix all (io_init fs []) = (Ok (c, ok), st) -> fc_unusable c = 0%nat ->
    exists s st1, p1_load md5 ix (io_init fs []) = (Ok s, st1) /\
      Forall (fun e => exists data, fs_lookup fs (join2 (dir ix) (e_name e)) = Some data /\
                        md5 data = e_hash e /\ Par1.hash16k md5 data = e_h16 e) (s_saved s).
  Proof.
    intros ix all fs c ok st H Hc. unfold par1_verify in H.
    destruct (p1_load md5 ix (io_init fs [])) as [[s|x|q] st1] eqn:EL; try discriminate.
    assert (Ec : c = file_counts s).
    { destruct (all && Nat.eqb (fc_unusable (file_counts s)) 0 && Nat.eqb (fc_punusable (file_counts s)) 0).
      - destruct (build_shards s) as [sh|x|q]; try discriminate.
        destruct (rs_verify _ _ sh) as [b|x|q]; try discriminate.
        injection H as <- _ _. reflexivity.
      - injection H as <- _ _. reflexivity. }
    subst c. cbn [file_counts fc_unusable] in Hc.
    exists s, st1. split; [reflexivity|].
    destruct (p1_load_data ix _ s st1 EL) as (sa & sb & Fa & ELD). cbn [io_init io_fs] in Fa.
    apply load_data_spec in ELD. rewrite Fa in ELD.
    apply count_none1_zero in Hc. clear H EL.
    generalize dependent (s_data s). generalize (s_saved s). clear s.
    intros es ds Hc ELD.
    revert Hc. induction ELD as [|e o es' ds' He ELD' IH]; intros Hc; [constructor|].
    inversion Hc as [|? ? [data ->] Hc']; subst.
    constructor; [|apply IH; exact Hc'].
    exists data. exact He.
  Qed.

  (** * D. the volume format round trip *)
  Definition entry_ok (e : p1entry) : Prop :=
    e_status e < 2^64 /\ e_len e < 2^64 /\ length (e_hash e) = 16%nat /\ length (e_h16 e) = 16%nat
    /\ e_name e <> [] /\ decode_utf16le (encode_utf16le (e_name e)) = e_name e
    /\ encode_utf16le (e_name e) <> [].

  Lemma read_entry_write e R : entry_ok e ->
    N.of_nat (length (encode_utf16le (e_name e))) < 2^64 ->
    read_entry (write_entry e ++ R) = Ok (e, R).
  Proof.
    intros (Hst & Hln & Hh & Hh16 & _ & Hname & Hnb) Hsz.
    unfold write_entry. cbv zeta.
    set (nb := encode_utf16le (e_name e)) in *.
    destruct (entry_layout (le_encode 8 (56 + N.of_nat (length nb))) (le_encode 8 (e_status e))
                (le_encode 8 (e_len e)) (e_hash e) (e_h16 e) nb R)
      as (Ll & F0 & F1 & F2 & F3 & F4 & F5); try apply le_encode_length; try assumption.
    set (buf := (le_encode 8 (56 + N.of_nat (length nb)) ++ le_encode 8 (e_status e) ++ le_encode 8 (e_len e)
                   ++ e_hash e ++ e_h16 e ++ nb) ++ R) in *.
    unfold read_entry.
    destruct (Nat.ltb_spec (length buf) 56) as [Lt|_]; [lia|].
    rewrite F0, F1, F2, F3, F4, F5.
    rewrite (le_decode_encode8 _ Hst), (le_decode_encode8 _ Hln).
    rewrite le_decode_encode_mod. change (256 ^ N.of_nat 8) with (2 ^ 64).
    rewrite (entry_size_wrap _ Hsz).
    assert (Hnz : (N.of_nat (length nb) =? 0) = false).
    { apply N.eqb_neq. destruct nb; [congruence|cbn [length]; lia]. }
    rewrite Hnz. unfold nb at 1. rewrite encode_utf16le_even. cbn [N.eqb negb orb].
    destruct (N.ltb_spec (N.of_nat (length (nb ++ R))) (N.of_nat (length nb))) as [Lt|_].
    { rewrite app_length in Lt. lia. }
    rewrite Nat2N.id.
    rewrite (firstn_app_len nb R (length nb) eq_refl), (skipn_app_len nb R (length nb) eq_refl).
    rewrite Hname. destruct e; reflexivity.
  Qed.

  Lemma read_entries_write : forall entries data,
    Forall entry_ok entries ->
    Forall (fun e => N.of_nat (length (encode_utf16le (e_name e))) < 2^64) entries ->
    read_entries (length entries) (flat_map write_entry entries ++ data) = Ok (entries, data).
  Proof.
    induction entries as [|e r IH]; intros data H1 H2; [reflexivity|].
    inversion H1; subst. inversion H2; subst.
    cbn [flat_map length read_entries]. rewrite <- app_assoc.
    rewrite read_entry_write by assumption. cbn [obind fst snd].
    rewrite IH by assumption. reflexivity.
  Qed.

  Lemma write_entry_len e : entry_ok e -> (56 <= length (write_entry e))%nat.
  Proof.
    intros (_ & _ & Hh & Hh16 & _). unfold write_entry. cbv zeta.
    rewrite !app_length, !le_encode_length, Hh, Hh16. lia.
  Qed.

  Lemma entries_len : forall entries, Forall entry_ok entries ->
    (56 * length entries <= length (flat_map write_entry entries))%nat.
  Proof.
    induction entries as [|e r IH]; intros H; [cbn; lia|].
    inversion H; subst. cbn [flat_map length]. rewrite app_length.
    pose proof (write_entry_len e ltac:(assumption)). specialize (IH ltac:(assumption)). lia.
  Qed.

  (* extra premise w.r.t. the informal statement: the byte length of every encoded name is below 2^64
     (the entry-size field is a uint64; 56 + length may wrap, the length itself must not) *)
  Theorem volume_round_trip : (forall x, length (md5 x) = 16%nat) ->
    forall sethash number entries data,
    length sethash = 16%nat -> number < 2^64 ->
    Forall (fun e => e_status e < 2^64 /\ e_len e < 2^64 /\ length (e_hash e) = 16%nat /\ length (e_h16 e) = 16%nat
                     /\ e_name e <> [] /\ decode_utf16le (encode_utf16le (e_name e)) = e_name e
                     /\ encode_utf16le (e_name e) <> []) entries ->
    Forall (fun e => N.of_nat (length (encode_utf16le (e_name e))) < 2^64) entries ->
    N.of_nat (length entries) < 2^32 ->
    exists v, read_volume md5 (write_volume md5 sethash number entries data) = Ok v /\
              v_sethash_stored v = sethash /\ v_number v = number /\ v_entries v = entries /\ v_data v = data /\
              v_sethash v = md5 (flat_map (fun e => if saved e then e_hash e else []) entries).
  Proof.
    intros md5_len sethash number entries data Hsh Hnum Hes Hsz Hcnt.
    change (Forall entry_ok entries) in Hes.
    unfold write_volume. cbv zeta.
    set (R := flat_map write_entry entries ++ data).
    set (flb := N.of_nat (length R - length data)).
    set (T := sethash ++ le_encode 8 number ++ le_encode 8 (N.of_nat (length entries)) ++ le_encode 8 96
                ++ le_encode 8 flb ++ le_encode 8 (96 + flb) ++ le_encode 8 (N.of_nat (length data))).
    destruct (vol_layout PAR1_ID (le_encode 8 PAR1_VERSION) (md5 (T ++ R)) sethash (le_encode 8 number)
                (le_encode 8 (N.of_nat (length entries))) (le_encode 8 96) (le_encode 8 flb)
                (le_encode 8 (96 + flb)) (le_encode 8 (N.of_nat (length data))) R)
      as (Ll & Fid & Fver & F32 & Fh & F60 & Fcnt & F96 & Fsh & Fnum);
      try apply le_encode_length; try apply md5_len; try assumption; try reflexivity.
    fold T in Ll, Fid, Fver, F32, Fh, F60, Fcnt, F96, Fsh, Fnum.
    set (b := PAR1_ID ++ le_encode 8 PAR1_VERSION ++ md5 (T ++ R) ++ T ++ R) in *.
    assert (Hc64 : N.of_nat (length entries) < 2 ^ 64).
    { eapply N.lt_trans; [exact Hcnt|]. reflexivity. }
    pose proof Fsh as Fsh'. rewrite F32 in Fsh'.
    unfold read_volume.
    destruct (Nat.ltb_spec (length b) 96) as [Lt|_]; [lia|].
    rewrite Fid, bytes_eqb_refl. cbn [negb].
    rewrite Fver, ver_ok. cbn [negb].
    rewrite F60, (le_decode_encode8 96) by reflexivity. cbn [N.eqb Pos.eqb negb].
    rewrite F32, Fh, bytes_eqb_refl. cbn [negb].
    rewrite Fcnt, (le_decode_encode8 _ Hc64).
    destruct (N.ltb_spec (N.of_nat (length b - 96) / 56) (N.of_nat (length entries))) as [Lt|_].
    { exfalso. apply N.lt_nge in Lt. apply Lt. apply N.div_le_lower_bound; [discriminate|].
      pose proof (entries_len entries Hes) as Le. rewrite Ll. unfold R. rewrite app_length. lia. }
    rewrite F96, Nat2N.id. unfold R at 1.
    rewrite (read_entries_write entries data Hes Hsz). cbn [obind fst snd].
    eexists. split; [reflexivity|]. cbn [v_sethash_stored v_number v_entries v_data v_sethash].
    rewrite Fsh', Fnum, (le_decode_encode8 _ Hnum).
    repeat split; reflexivity.
  Qed.
  (** * E. a present but unparsable volume is unusable, like a missing one *)
  Lemma load_vols_unparsable_is_unusable ix sethash i n' size acc st b st1 x :
    io_read (volume_path ix (N.of_nat (S i))) st = (Ok b, st1) -> read_volume md5 b = Err x ->
    load_vols md5 ix sethash i (S n') size acc st = load_vols md5 ix sethash (S i) n' size (acc ++ [None]) st1.
  Proof.
    intros Hread Hvol. cbn [load_vols]. rewrite Hread, Hvol. reflexivity.
  Qed.

  (** * F. a volume of another set (other set hash, or a number that is not the one of its file name) is unusable too *)
  Lemma load_vols_foreign_is_unusable ix sethash i n' size acc st b st1 v :
    io_read (volume_path ix (N.of_nat (S i))) st = (Ok b, st1) -> read_volume md5 b = Ok v ->
    bytes_eqb (v_sethash_stored v) sethash = false \/ v_number v <> N.of_nat (S i) ->
    load_vols md5 ix sethash i (S n') size acc st = load_vols md5 ix sethash (S i) n' size (acc ++ [None]) st1.
  Proof.
    intros Hread Hvol Hf. cbn [load_vols]. rewrite Hread, Hvol.
    destruct (bytes_eqb (v_sethash_stored v) sethash) eqn:E1; cbn [negb]; [|reflexivity].
    destruct (N.eqb_spec (v_number v) (N.of_nat (S i))) as [E2|E2]; cbn [negb]; [|reflexivity].
    destruct Hf as [Hf|Hf]; [discriminate Hf|contradiction].
  Qed.

  (* the content b of a file at the path of volume k is NOT a volume of the set with set hash sh: it does not parse, or
     it parses and carries another set hash (a stale or foreign volume) or another volume number *)
  Definition not_member (sh : bytes) (k : N) (b : bytes) : Prop :=
    match read_volume md5 b with
    | Ok v => v_sethash_stored v <> sh \/ v_number v <> k
    | Err _ => True
    | Panic _ => False
    end.

  (* what the loader skips at the path of volume k, given the read result: nothing there, or a file that is not a member *)
  Definition vol_skipped (sh : bytes) (k : N) (r : outcome bytes) : Prop :=
    r = Err ENotExist \/ exists b, r = Ok b /\ not_member sh k b.

  Lemma load_vols_not_member_step ix sethash i n' size acc st b st1 :
    io_read (volume_path ix (N.of_nat (S i))) st = (Ok b, st1) -> not_member sethash (N.of_nat (S i)) b ->
    load_vols md5 ix sethash i (S n') size acc st = load_vols md5 ix sethash (S i) n' size (acc ++ [None]) st1.
  Proof.
    intros Hread Hnm. unfold not_member in Hnm.
    destruct (read_volume md5 b) as [v|x|q] eqn:EV; [| |destruct Hnm].
    - apply (load_vols_foreign_is_unusable ix sethash i n' size acc st b st1 v Hread EV).
      destruct Hnm as [Hh|Hn]; [left|right; exact Hn].
      destruct (bytes_eqb (v_sethash_stored v) sethash) eqn:E; [|reflexivity].
      exfalso. apply Hh. apply bytes_eqb_eq. exact E.
    - exact (load_vols_unparsable_is_unusable ix sethash i n' size acc st b st1 x Hread EV).
  Qed.
End Par1Facts.

Print Assumptions p1_load_fs.
Print Assumptions par1_verify_pure.
Print Assumptions par1_verify_no_write.
Print Assumptions par1_repair_writes.
Print Assumptions par1_verify_clean_intact.
Print Assumptions volume_round_trip.
Print Assumptions load_vols_unparsable_is_unusable.
Print Assumptions load_vols_foreign_is_unusable.
Print Assumptions load_vols_not_member_step.
