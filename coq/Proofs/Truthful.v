(* "Any result is truthful" (C13), for EVERY file-system state and the empty fault schedule: what Verify's
   loading phase reports per file, per recovery block / volume, and in its counts, against the file map.

   PAR2 (load_all, shard_counts)
   F2  load_all_flags_exact: the three flags (missing, hashbad, lenbad) of the k-th file of the recovery set are a
       function of the file map (file_state): (true,false,false) iff no file at its path; otherwise
       (false, hashbad, lenbad) with hashbad iff the 16k-MD5 or the MD5 of the content differs from the recorded one,
       lenbad iff the length differs.  The loader checks all three (16k-MD5, MD5, length).  Hence
       F2_reported_intact (flags (false,false,false) IFF content present with the recorded length, MD5, 16k-MD5),
       F2_reported_missing / F2_reported_hashbad / F2_reported_lenbad (each flag, both directions).
   B2  B2_blocks_genuine (_nth, _bytes): every entry (e, blk) of the loaded parity table is a recovery packet - set id
       of the index, type RecvSlic, exponent e, body = 4 + slice size bytes, valid packet MD5 - that the
       resynchronising reader reaches (reached) in one of the listed recovery files, hence occurs there at some
       offset (reached_suffix); B2_block_table_exact: slot e is non-empty IFF such a packet is reached in some listed
       file.
   C2  C2_pusable_count: c_pusable = the number of distinct exponents with such a packet (for any duplicate-free
       enumeration L of them; C2_pusable_count_computed: for the enumeration loaded_exps computed from the file map
       by a function that does not go through the loader's state).
       TruthfulNested.C2_occurs_anywhere_refuted: with "occurs at some offset" instead of "is reached by the reader"
       the equality is FALSE (a hash-valid recovery packet nested in the body of another hash-valid packet is not
       loaded); C2_pusable_le_occurring is the true half.
       C2_missing_count / C2_damaged_count / C2_intact_count: the numbers of files flagged missing / damaged /
       unflagged are the numbers of protected paths without a file / with other content / with the recorded content.
       par2_verify_counts_truthful: the above for the counts par2_verify returns.

   PAR1 (p1_load, file_counts)
   F1  F1_files_exact: s_data = per saved entry, the content at its path when BOTH hashes match (MD5, 16k-MD5), else
       None (F1_file_usable, F1_file_unusable, F1_file_usable_conv).  The recorded LENGTH is not checked by the loader:
       TruthfulLength1.F1_length_not_checked (a concrete index whose entry records a wrong length: the file is
       reported usable).  F1_counts: fc_usable / fc_unusable are the numbers of saved entries with / without such a file.
   B1  B1_volumes_genuine: Some d at position k of the volume table => the file at volume_path ix (k+1) exists,
       read_volume accepts it (identification, version, control hash: read_volume_checks), its stored set hash is the
       one STORED in the index (neither side's computed set hash is compared with anything), its volume number field
       IS k+1 (the loader does check the number field against the number in the file name), its data is d, of the
       common non-zero size s_size.  B1_volume_unusable: None inside the table => no file, or read_volume rejects it,
       or it parses but carries another set hash than the index or another volume number than its file name (a stale
       or foreign volume: unusable, not fatal).
       B1_volumes_exact: the table is, position by position, a function of the file map and the index's stored set
       hash (vslot); it ends at the last usable volume and nothing beyond it (up to the limit of 99 volumes and of
       256 - the number of SAVED entries) is usable; fc_pusable is the number of volume numbers with a usable file.  par1_verify_counts_truthful: the above for the counts par1_verify returns. *)
From Coq Require Import Lia ZifyN ZifyNat ZifyBool FinFun.
From Gopar Require Import Model.Base Model.GF16 Model.Matrix Model.RS16 Model.CRC Model.GoPath Model.FS Model.Par2
     Proofs.GoPathFacts Proofs.Par2Facts Proofs.Par2Create Proofs.Par2Layout Proofs.Par2Verify Proofs.Par2Resync
     Proofs.Par2Ignore Proofs.Par2Reader2 Proofs.Par2Faults Proofs.Par2Clean Proofs.Par2Converge Proofs.HistoryFacts2
     Proofs.Par2Targets Proofs.LoadSizes.
From Gopar Require Proofs.Par1Clean.
Open Scope N_scope.
Set Default Timeout 120.

(** * list helpers *)

Lemma nth_error_map_nth {A B} (f : A -> B) (d : A) : forall (l : list A) k x,
  nth_error l k = Some x -> nth k (map f l) (f d) = f x.
Proof.
  intros l k x H. rewrite map_nth. f_equal. apply nth_error_nth. exact H.
Qed.

Lemma map_eq_pointwise {A B C} (f : A -> C) (g : B -> C) (da : A) (db : B) : forall (l : list A) (l' : list B),
  length l = length l' ->
  (forall k, (k < length l)%nat -> f (nth k l da) = g (nth k l' db)) ->
  map f l = map g l'.
Proof.
  induction l as [|x l IH]; intros [|y l'] Hl H; cbn [length] in Hl; try lia; [reflexivity|].
  cbn [map]. f_equal.
  - apply (H 0%nat). cbn [length]. lia.
  - apply IH; [lia|]. intros k Hk. apply (H (S k)). cbn [length]. lia.
Qed.

Lemma filter_count_map {A B C} (f : A -> C) (g : B -> C) (P : C -> bool) : forall (l : list A) (l' : list B),
  map f l = map g l' ->
  length (filter (fun x => P (f x)) l) = length (filter (fun y => P (g y)) l').
Proof.
  induction l as [|x l IH]; intros [|y l'] H; cbn [map] in H; try discriminate H; [reflexivity|].
  injection H as Hx Hr. cbn [filter]. rewrite Hx. destruct (P (g y)); cbn [length]; rewrite (IH l' Hr); reflexivity.
Qed.

Lemma skipn_skipn_ {A} : forall a b (l : list A), skipn a (skipn b l) = skipn (b + a) l.
Proof.
  intros a. induction b as [|b IH]; intros l; [reflexivity|].
  destruct l as [|x l]; [cbn [skipn Nat.add]; apply skipn_nil|]. cbn [skipn Nat.add]. apply IH.
Qed.

Lemma assoc_n_In {A} (l : list (N * A)) e d : assoc_n l e = Some d -> In (e, d) l.
Proof.
  induction l as [|[k v] l IH]; cbn [assoc_n In]; [discriminate|].
  destruct (N.eqb_spec k e) as [->|NE].
  - intros H. injection H as <-. left. reflexivity.
  - intros H. right. exact (IH H).
Qed.

Lemma In_assoc_n_some {A} (l : list (N * A)) e d : In (e, d) l -> exists d', assoc_n l e = Some d'.
Proof.
  induction l as [|[k v] l IH]; cbn [assoc_n In]; [intros []|].
  destruct (N.eqb_spec k e) as [->|NE]; [intros _; exists v; reflexivity|].
  intros [E|Hin]; [injection E as E _; congruence|exact (IH Hin)].
Qed.

Section TruthfulPar2.
  Variable md5 : bytes -> bytes.

  (** * F2. the flags of a protected file against the file map *)

  (* what LoadFileData records about the file of one entry of the recovery set: (missing, hashbad, lenbad) *)
  Definition file_state (fs : list (list N * bytes)) (ix : list N) (info : dinfo) : bool * bool * bool :=
    match fs_lookup fs (file_path ix (di_name info)) with
    | None => (true, false, false)
    | Some data => (false,
                    negb (bytes_eqb (hash16k md5 data) (di_h16 info)) || negb (bytes_eqb (md5 data) (di_hash info)),
                    negb (N.of_nat (length data) =? di_len info))
    end.

  Lemma load_files_flags_exact d w t : forall todo fis st fis' st',
    io_sched st = [] -> NoDup (map fst todo) ->
    (forall i info, In (i, info) todo -> (i < length fis)%nat) ->
    load_files md5 d w t todo fis st = (Ok fis', st') ->
    forall i info, In (i, info) todo -> flags3 (nth i fis' dfi) = file_state (io_fs st) (d_index d) info.
  Proof.
    induction todo as [|[i0 info0] r IH]; intros fis st fis' st' Hs Hnd Hlt H i info Hin; [destruct Hin|].
    cbn [map fst] in Hnd. apply NoDup_cons_iff in Hnd. destruct Hnd as [Hni Hnd'].
    assert (Hi0 : (i0 < length fis)%nat) by (apply (Hlt i0 info0); left; reflexivity).
    cbn [load_files] in H.
    destruct (Par1Clean.io_read_nosched (file_path (d_index d) (di_name info0)) st Hs) as (st1 & ER & Hs1 & Hf1).
    rewrite ER in H. unfold Par1Clean.read_res in H.
    destruct (fs_lookup (io_fs st) (file_path (d_index d) (di_name info0))) as [data|] eqn:EL.
    - set (fisc := fold_left (fun fis h => credit i0 h fis)
                             (fst (scan md5 (N.to_nat (d_slice d)) w t data)) fis) in *.
      assert (Hcl : length fisc = length fis).
      { apply (map_length_eq flags3). apply credits_map. exact flags3_credit_inv. }
      destruct Hin as [Heq|Hin].
      + injection Heq as <- <-.
        destruct (load_files_flags_other md5 d w t _ _ _ _ _ H) as [_ A]. rewrite (A i0 Hni).
        unfold set_flags. rewrite nth_upd_nth_same by lia.
        unfold file_state. rewrite EL. reflexivity.
      + rewrite <- Hf1. eapply IH; [exact Hs1|exact Hnd'| |exact H|exact Hin].
        intros i' info' Hin'. unfold set_flags. rewrite upd_nth_length, Hcl. apply (Hlt i' info'). right. exact Hin'.
    - destruct (is_dir (io_fs st) (file_path (d_index d) (di_name info0))); [discriminate H|].
      destruct Hin as [Heq|Hin].
      + injection Heq as <- <-.
        destruct (load_files_flags_other md5 d w t _ _ _ _ _ H) as [_ A]. rewrite (A i0 Hni).
        unfold set_flags. rewrite nth_upd_nth_same by lia.
        unfold file_state. rewrite EL. reflexivity.
      + rewrite <- Hf1. eapply IH; [exact Hs1|exact Hnd'| |exact H|exact Hin].
        intros i' info' Hin'. unfold set_flags. rewrite upd_nth_length. apply (Hlt i' info'). right. exact Hin'.
  Qed.

  (* F2, the whole table: one entry of ds_fis per entry of the recovery set, with exactly these flags *)
  Theorem load_all_flags_exact : forall ix fs ds st1,
    load_all md5 ix (io_init fs []) = (Ok ds, st1) ->
    map flags3 (ds_fis ds) = map (file_state fs ix) (d_rec (ds_dec ds)).
  Proof.
    intros ix fs ds st1 HL.
    destruct (load_all_inv_full md5 _ _ _ _ HL) as (d & s1 & w & fis & s2 & paths & s3 & acc &
                                                     _ & Hnd & _ & Hlf & _ & _ & ->).
    cbn [ds_fis ds_dec].
    destruct (new_decoder_ok md5 _ _ _ _ Hnd) as [Hix _].
    pose proof (new_decoder_pres md5 ix (io_init fs [])) as P. rewrite Hnd in P. cbn [snd] in P.
    destruct P as (Pf & Ps & _). cbn [io_init io_fs io_sched] in Pf, Ps.
    pose proof (load_files_shape md5 _ _ _ _ _ _ _ _ Hlf) as Hshape.
    apply map_length_eq in Hshape. unfold fis0 in Hshape. rewrite map_length in Hshape.
    apply (map_eq_pointwise flags3 (file_state fs ix) dfi dinfo0); [exact Hshape|].
    intros k Hk.
    assert (Hk' : (k < length (d_rec d))%nat) by lia.
    pose proof (in_combine_seq_nth dinfo0 (d_rec d) 0 k Hk') as Hin. cbn [Nat.add] in Hin.
    rewrite <- Pf, <- Hix.
    apply (load_files_flags_exact d w _ _ _ _ _ _ Ps) with (i := k) (info := nth k (d_rec d) dinfo0) in Hlf.
    - exact Hlf.
    - rewrite map_fst_combine by apply seq_length. apply seq_NoDup.
    - intros i info Hi. apply in_combine_l in Hi. apply in_seq in Hi. unfold fis0. rewrite map_length. lia.
    - exact Hin.
  Qed.

  Corollary load_all_flags_nth : forall ix fs ds st1,
    load_all md5 ix (io_init fs []) = (Ok ds, st1) ->
    length (ds_fis ds) = length (d_rec (ds_dec ds)) /\
    forall k info, nth_error (d_rec (ds_dec ds)) k = Some info ->
      flags3 (nth k (ds_fis ds) dfi) = file_state fs ix info.
  Proof.
    intros ix fs ds st1 HL. pose proof (load_all_flags_exact ix fs ds st1 HL) as E.
    split; [pose proof (f_equal (@length _) E) as El; rewrite !map_length in El; exact El|].
    intros k info Hk.
    rewrite <- (map_nth flags3), E.
    assert (Hlt : (k < length (d_rec (ds_dec ds)))%nat) by (apply nth_error_Some; rewrite Hk; discriminate).
    rewrite (nth_indep _ (flags3 dfi) (file_state fs ix dinfo0)) by (rewrite map_length; exact Hlt).
    apply nth_error_map_nth. exact Hk.
  Qed.

  (* the file of the k-th entry is reported INTACT: flags (false, false, false) *)
  Theorem F2_reported_intact : forall ix fs ds st1 k info,
    load_all md5 ix (io_init fs []) = (Ok ds, st1) ->
    nth_error (d_rec (ds_dec ds)) k = Some info ->
    (flags3 (nth k (ds_fis ds) dfi) = (false, false, false) <->
     exists data, fs_lookup fs (file_path ix (di_name info)) = Some data /\
                  md5 data = di_hash info /\ hash16k md5 data = di_h16 info /\
                  N.of_nat (length data) = di_len info).
  Proof.
    intros ix fs ds st1 k info HL Hk.
    rewrite (proj2 (load_all_flags_nth ix fs ds st1 HL) k info Hk). unfold file_state.
    destruct (fs_lookup fs (file_path ix (di_name info))) as [data|].
    - split.
      + intros H. injection H as Hhb Hlb.
        apply orb_false_iff in Hhb. destruct Hhb as [H16 Hmd].
        apply negb_false_iff in H16, Hmd, Hlb. apply bytes_eqb_eq in H16, Hmd. apply N.eqb_eq in Hlb.
        exists data. repeat split; assumption.
      + intros (data' & E & Hmd & H16 & Hlen). injection E as <-.
        rewrite Hmd, H16, Hlen, !bytes_eqb_refl, N.eqb_refl. reflexivity.
    - split; [discriminate|]. intros (data' & E & _). discriminate E.
  Qed.

  (* ... reported MISSING: exactly when there is no file at its path *)
  Theorem F2_reported_missing : forall ix fs ds st1 k info,
    load_all md5 ix (io_init fs []) = (Ok ds, st1) ->
    nth_error (d_rec (ds_dec ds)) k = Some info ->
    (fi_missing (nth k (ds_fis ds) dfi) = true <-> fs_lookup fs (file_path ix (di_name info)) = None).
  Proof.
    intros ix fs ds st1 k info HL Hk.
    pose proof (proj2 (load_all_flags_nth ix fs ds st1 HL) k info Hk) as E. unfold flags3, file_state in E.
    destruct (fs_lookup fs (file_path ix (di_name info))) as [data|]; injection E as E1 _ _; rewrite E1.
    - split; discriminate.
    - split; reflexivity.
  Qed.

  (* ... reported with a HASH MISMATCH: exactly when the content at its path has another MD5 or 16k-MD5 *)
  Theorem F2_reported_hashbad : forall ix fs ds st1 k info,
    load_all md5 ix (io_init fs []) = (Ok ds, st1) ->
    nth_error (d_rec (ds_dec ds)) k = Some info ->
    (fi_hashbad (nth k (ds_fis ds) dfi) = true <->
     exists data, fs_lookup fs (file_path ix (di_name info)) = Some data /\
                  (md5 data <> di_hash info \/ hash16k md5 data <> di_h16 info)).
  Proof.
    intros ix fs ds st1 k info HL Hk.
    pose proof (proj2 (load_all_flags_nth ix fs ds st1 HL) k info Hk) as E. unfold flags3, file_state in E.
    destruct (fs_lookup fs (file_path ix (di_name info))) as [data|]; injection E as _ E2 _; rewrite E2.
    - split.
      + intros H. exists data. split; [reflexivity|].
        apply orb_true_iff in H. destruct H as [H|H]; apply negb_true_iff, bytes_eqb_neq in H; [right|left]; exact H.
      + intros (data' & E & [H|H]); injection E as <-; apply orb_true_iff; [right|left];
          apply negb_true_iff, bytes_eqb_neq_false; exact H.
    - split; [discriminate|]. intros (data' & E & _). discriminate E.
  Qed.

  (* ... reported with a LENGTH MISMATCH: exactly when the content at its path has another length *)
  Theorem F2_reported_lenbad : forall ix fs ds st1 k info,
    load_all md5 ix (io_init fs []) = (Ok ds, st1) ->
    nth_error (d_rec (ds_dec ds)) k = Some info ->
    (fi_lenbad (nth k (ds_fis ds) dfi) = true <->
     exists data, fs_lookup fs (file_path ix (di_name info)) = Some data /\ N.of_nat (length data) <> di_len info).
  Proof.
    intros ix fs ds st1 k info HL Hk.
    pose proof (proj2 (load_all_flags_nth ix fs ds st1 HL) k info Hk) as E. unfold flags3, file_state in E.
    destruct (fs_lookup fs (file_path ix (di_name info))) as [data|]; injection E as _ _ E3; rewrite E3.
    - split.
      + intros H. exists data. split; [reflexivity|]. apply negb_true_iff, N.eqb_neq in H. exact H.
      + intros (data' & E & H). injection E as <-. apply negb_true_iff, N.eqb_neq. exact H.
    - split; [discriminate|]. intros (data' & E & _). discriminate E.
  Qed.

  (** * C2 (files). the numbers of files flagged missing / damaged / unflagged *)

  Definition is_missing (x : bool * bool * bool) : bool := fst (fst x).
  Definition is_damaged (x : bool * bool * bool) : bool := negb (fst (fst x)) && (snd (fst x) || snd x).
  Definition is_unflagged (x : bool * bool * bool) : bool := negb (fst (fst x)) && negb (snd (fst x)) && negb (snd x).

  Theorem C2_missing_count : forall ix fs ds st1,
    load_all md5 ix (io_init fs []) = (Ok ds, st1) ->
    length (filter fi_missing (ds_fis ds)) =
    length (filter (fun info => match fs_lookup fs (file_path ix (di_name info)) with None => true | Some _ => false end)
                   (d_rec (ds_dec ds))).
  Proof.
    intros ix fs ds st1 HL. pose proof (load_all_flags_exact ix fs ds st1 HL) as E.
    rewrite (filter_ext _ (fun fi => is_missing (flags3 fi))) by reflexivity.
    rewrite (filter_count_map flags3 (file_state fs ix) is_missing _ _ E).
    f_equal. apply filter_ext. intros info. unfold file_state, is_missing.
    destruct (fs_lookup fs (file_path ix (di_name info))); reflexivity.
  Qed.

  Theorem C2_damaged_count : forall ix fs ds st1,
    load_all md5 ix (io_init fs []) = (Ok ds, st1) ->
    length (filter (fun fi => negb (fi_missing fi) && (fi_hashbad fi || fi_lenbad fi)) (ds_fis ds)) =
    length (filter (fun info => match fs_lookup fs (file_path ix (di_name info)) with
                                | None => false
                                | Some data => negb (bytes_eqb (hash16k md5 data) (di_h16 info) && bytes_eqb (md5 data) (di_hash info)
                                                     && (N.of_nat (length data) =? di_len info))
                                end) (d_rec (ds_dec ds))).
  Proof.
    intros ix fs ds st1 HL. pose proof (load_all_flags_exact ix fs ds st1 HL) as E.
    rewrite (filter_ext _ (fun fi => is_damaged (flags3 fi))) by reflexivity.
    rewrite (filter_count_map flags3 (file_state fs ix) is_damaged _ _ E).
    f_equal. apply filter_ext. intros info. unfold file_state, is_damaged.
    destruct (fs_lookup fs (file_path ix (di_name info))) as [data|]; [|reflexivity].
    cbn [fst snd negb andb].
    destruct (bytes_eqb (hash16k md5 data) (di_h16 info)); destruct (bytes_eqb (md5 data) (di_hash info));
      destruct (N.of_nat (length data) =? di_len info); reflexivity.
  Qed.

  Theorem C2_intact_count : forall ix fs ds st1,
    load_all md5 ix (io_init fs []) = (Ok ds, st1) ->
    length (filter (fun fi => negb (fi_missing fi) && negb (fi_hashbad fi) && negb (fi_lenbad fi)) (ds_fis ds)) =
    length (filter (fun info => match fs_lookup fs (file_path ix (di_name info)) with
                                | None => false
                                | Some data => bytes_eqb (hash16k md5 data) (di_h16 info) && bytes_eqb (md5 data) (di_hash info)
                                               && (N.of_nat (length data) =? di_len info)
                                end) (d_rec (ds_dec ds))).
  Proof.
    intros ix fs ds st1 HL. pose proof (load_all_flags_exact ix fs ds st1 HL) as E.
    rewrite (filter_ext _ (fun fi => is_unflagged (flags3 fi))) by reflexivity.
    rewrite (filter_count_map flags3 (file_state fs ix) is_unflagged _ _ E).
    f_equal. apply filter_ext. intros info. unfold file_state, is_unflagged.
    destruct (fs_lookup fs (file_path ix (di_name info))) as [data|]; [|reflexivity].
    cbn [fst snd negb andb].
    destruct (bytes_eqb (hash16k md5 data) (di_h16 info)); destruct (bytes_eqb (md5 data) (di_hash info));
      destruct (N.of_nat (length data) =? di_len info); reflexivity.
  Qed.


  (** * B2. the recovery blocks of the loaded table against the recovery files *)

  (* the positions the resynchronising reader (read_file_go) visits in a buffer: the start; after a packet that
     parses (hash-valid), the byte after it; after bytes that do not parse, the next magic sequence after the
     first byte.  The walk does not depend on the set id or on what the packets contain. *)
  Inductive reached : bytes -> bytes -> Prop :=
  | R_here buf : reached buf buf
  | R_resync buf rest s :
      read_next_packet md5 buf = NPErr -> find_magic (tl buf) = Some rest -> reached rest s -> reached buf s
  | R_next buf psid ptype body rest s :
      read_next_packet md5 buf = NPPacket psid ptype body rest -> reached rest s -> reached buf s.

  (* a visited position is a suffix of the buffer: the packet found there OCCURS in the file at that offset *)
  Lemma reached_suffix buf s : reached buf s -> exists pre, buf = pre ++ s.
  Proof.
    induction 1 as [buf|buf rest s HE HF _ IH|buf psid ptype body rest s HP _ IH].
    - exists []. reflexivity.
    - destruct IH as (pre' & ->).
      destruct (find_magic_suffix _ _ HF) as (pre & Hl & _).
      destruct buf as [|x buf]; [discriminate HE|]. cbn [tl] in Hl.
      exists ((x :: pre) ++ pre'). rewrite Hl, <- app_assoc. reflexivity.
    - destruct IH as (pre' & ->).
      destruct (read_next_packet_rest md5 _ _ _ _ _ HP) as (pre & -> & _).
      exists (pre ++ pre'). rewrite <- app_assoc. reflexivity.
  Qed.

  Lemma reached_eof_inv buf s : read_next_packet md5 buf = NPEof -> reached buf s -> s = buf.
  Proof. intros HE HR. revert HE. destruct HR; intros HE; [reflexivity|congruence|congruence]. Qed.

  Lemma reached_err_inv buf s : read_next_packet md5 buf = NPErr -> reached buf s ->
    s = buf \/ exists rest, find_magic (tl buf) = Some rest /\ reached rest s.
  Proof.
    intros HE HR. revert HE. destruct HR as [buf|buf rest s HE' HF HR|buf psid ptype body rest s HP HR]; intros HE.
    - left. reflexivity.
    - right. exists rest. split; assumption.
    - congruence.
  Qed.

  Lemma reached_packet_inv buf psid ptype body rest s :
    read_next_packet md5 buf = NPPacket psid ptype body rest -> reached buf s -> s = buf \/ reached rest s.
  Proof.
    intros HP HR. revert HP.
    destruct HR as [buf|buf rest' s HE' HF HR|buf psid' ptype' body' rest' s HP' HR]; intros HP.
    - left. reflexivity.
    - congruence.
    - right. rewrite HP' in HP. injection HP as _ _ _ <-. exact HR.
  Qed.

  (* at the position s stands a packet with a valid packet MD5 (read_next_packet accepts it), of the set sid, of type
     RecvSlic, whose body read_recv reads as exponent e and block blk *)
  Definition recv_packet_at (sid s : bytes) (e : N) (blk : bytes) : Prop :=
    exists body rest, read_next_packet md5 s = NPPacket sid TYPE_RECV body rest /\ read_recv body = Ok (e, blk).

  (* what "read_next_packet accepts" means, byte by byte: magic, length field = 64 + body length, the MD5 of
     set id ++ type ++ body, set id, type, body (a multiple of 4 bytes), and then the remaining bytes *)
  Lemma read_next_packet_bytes s psid ptype body rest :
    read_next_packet md5 s = NPPacket psid ptype body rest ->
    s = MAGIC ++ firstn 8 (skipn 8 s) ++ firstn 16 (skipn 16 s) ++ psid ++ ptype ++ body ++ rest /\
    le_decode (firstn 8 (skipn 8 s)) = 64 + N.of_nat (length body) /\
    firstn 16 (skipn 16 s) = md5 (psid ++ ptype ++ body) /\
    length psid = 16%nat /\ length ptype = 16%nat /\ (length body mod 4 = 0)%nat /\
    length (firstn 8 (skipn 8 s)) = 8%nat.
  Proof.
    intros H. rename s into l.
    assert (E64 : (64 <= length l)%nat).
    { destruct (Nat.ltb (length l) 64) eqn:E; [|apply Nat.ltb_ge; exact E].
      exfalso. destruct l as [|x l]; [discriminate H|]. unfold read_next_packet in H. rewrite E in H. discriminate H. }
    rewrite (read_next_packet_unfold md5 l E64) in H. cbv zeta in H.
    destruct (bytes_eqb (firstn 8 l) MAGIC) eqn:EM; cbn [negb] in H; [|discriminate H]. apply bytes_eqb_eq in EM.
    set (len := le_decode (firstn 8 (skipn 8 l))) in *.
    destruct ((len <? 64) || negb (len mod 4 =? 0)) eqn:EL; [discriminate H|].
    apply orb_false_iff in EL. destruct EL as [EL1 EL2]. apply N.ltb_ge in EL1.
    apply negb_false_iff, N.eqb_eq in EL2.
    destruct (N.of_nat (length (skipn 64 l)) <? len - 64) eqn:ER; [discriminate H|]. apply N.ltb_ge in ER.
    match type of H with (if negb (bytes_eqb ?a ?b) then _ else _) = _ => destruct (bytes_eqb a b) eqn:EH end;
      cbn [negb] in H; [|discriminate H]. apply bytes_eqb_eq in EH.
    set (n := N.to_nat (len - 64)) in *.
    set (r0 := skipn 64 l) in *. assert (Er0 : r0 = skipn 64 l) by reflexivity. clearbody r0.
    set (s16 := skipn 16 l) in *. assert (Es16 : s16 = skipn 16 l) by reflexivity. clearbody s16.
    set (s32 := skipn 32 l) in *. assert (Es32 : s32 = skipn 32 l) by reflexivity. clearbody s32.
    set (s48 := skipn 48 l) in *. assert (Es48 : s48 = skipn 48 l) by reflexivity. clearbody s48.
    injection H as <- <- <- <-. subst r0 s16 s32 s48.
    assert (Hbl : length (firstn n (skipn 64 l)) = n) by (apply firstn_length_le; unfold n; lia).
    assert (Hsplit : l = firstn 8 l ++ firstn 8 (skipn 8 l) ++ firstn 16 (skipn 16 l) ++ firstn 16 (skipn 32 l)
                         ++ firstn 16 (skipn 48 l) ++ firstn n (skipn 64 l) ++ skipn n (skipn 64 l)).
    { rewrite (firstn_skipn n).
      replace (skipn 64 l) with (skipn 16 (skipn 48 l)) by (apply (skipn_skipn_ 16 48 l)). rewrite (firstn_skipn 16).
      replace (skipn 48 l) with (skipn 16 (skipn 32 l)) by (apply (skipn_skipn_ 16 32 l)). rewrite (firstn_skipn 16).
      replace (skipn 32 l) with (skipn 16 (skipn 16 l)) by (apply (skipn_skipn_ 16 16 l)). rewrite (firstn_skipn 16).
      replace (skipn 16 l) with (skipn 8 (skipn 8 l)) by (apply (skipn_skipn_ 8 8 l)). rewrite (firstn_skipn 8).
      symmetry. apply firstn_skipn. }
    split; [rewrite <- EM; exact Hsplit|].
    split; [fold len; rewrite Hbl; unfold n; lia|].
    split; [symmetry; exact EH|].
    split; [change (length (firstn 16 (skipn 32 l)) = 16%nat); apply firstn_length_le; rewrite skipn_length; lia|].
    split; [change (length (firstn 16 (skipn 48 l)) = 16%nat); apply firstn_length_le; rewrite skipn_length; lia|].
    split; [|apply firstn_length_le; rewrite skipn_length; lia].
    rewrite Hbl. unfold n.
    assert (Hm : (len - 64) mod 4 = 0).
    { pose proof (N.div_mod' len 4) as DM. rewrite EL2 in DM.
      replace (len - 64) with ((len / 4 - 16) * 4) by lia. apply N.mod_mul. discriminate. }
    pose proof (N.div_mod' (len - 64) 4) as DM. rewrite Hm in DM.
    replace (N.to_nat (len - 64)) with (N.to_nat ((len - 64) / 4) * 4)%nat by lia.
    apply Nat.mod_mul. discriminate.
  Qed.

  (* a recovery-packet body: 4 bytes of exponent (at most 65535), then the block *)
  Lemma read_recv_bytes body e blk : read_recv body = Ok (e, blk) ->
    body = firstn 4 body ++ blk /\ le_decode (firstn 4 body) = e /\ length body = (4 + length blk)%nat /\ e <= 65535.
  Proof.
    unfold read_recv. intros H.
    destruct (Nat.eqb_spec (length body) 0) as [E0|E0]; cbn [orb] in H; [discriminate H|].
    destruct (Nat.eqb_spec (length body mod 4) 0) as [Em|Em]; cbn [negb] in H; [|discriminate H].
    cbv zeta in H.
    destruct (N.ltb_spec 65535 (le_decode (firstn 4 body))) as [Hx|Hx]; [discriminate H|].
    set (d0 := skipn 4 body) in *. assert (Ed0 : d0 = skipn 4 body) by reflexivity. clearbody d0.
    set (f0 := firstn 4 body) in *. assert (Ef0 : f0 = firstn 4 body) by reflexivity. clearbody f0.
    injection H as <- <-. subst d0 f0.
    split; [symmetry; apply firstn_skipn|]. split; [reflexivity|]. split; [|exact Hx].
    rewrite skipn_length.
    assert (4 <= length body)%nat; [|lia].
    pose proof (Nat.div_mod (length body) 4 ltac:(discriminate)) as DM. rewrite Em in DM.
    destruct (length body / 4)%nat; lia.
  Qed.

  (** ** the reader: the recovery list it returns is exactly the recovery packets of the set it reaches *)
  Lemma read_file_go_recv_exact sid : forall fuel buf found f sid' f',
    read_file_go md5 fuel buf (Some sid) found f = RFOk sid' f' ->
    forall e d, In (e, d) (pf_recv f') <->
                (In (e, d) (pf_recv f) \/ exists s, reached buf s /\ recv_packet_at sid s e d).
  Proof.
    induction fuel as [|fuel IH]; intros buf found f sid' f' H e d; [discriminate H|].
    destruct (read_next_packet md5 buf) as [| |psid ptype body rest] eqn:ENP.
    - rewrite read_file_go_S, ENP in H. apply rf_finish_ok in H. subst f'.
      split; [intros Hin; left; exact Hin|]. intros [Hin|(s & HR & body & rest & HP & _)]; [exact Hin|].
      rewrite (reached_eof_inv _ _ ENP HR) in HP. congruence.
    - rewrite read_file_go_S, ENP in H.
      destruct (find_magic (tl buf)) as [rest|] eqn:EF.
      + rewrite (IH _ _ _ _ _ H e d). split; (intros [Hin|(s & HR & HPk)]; [left; exact Hin|right]).
        * exists s. split; [exact (R_resync _ _ _ ENP EF HR)|exact HPk].
        * exists s. split; [|exact HPk].
          destruct (reached_err_inv _ _ ENP HR) as [->|(rest' & EF' & HR')].
          -- destruct HPk as (body & rest' & HP & _). congruence.
          -- rewrite EF in EF'. injection EF' as <-. exact HR'.
      + apply rf_finish_ok in H. subst f'.
        split; [intros Hin; left; exact Hin|]. intros [Hin|(s & HR & HPk)]; [exact Hin|]. exfalso.
        destruct (reached_err_inv _ _ ENP HR) as [->|(rest' & EF' & HR')]; [|congruence].
        destruct HPk as (body & rest' & HP & _). congruence.
    - rewrite (read_file_go_packet md5 _ _ _ _ _ _ _ _ _ ENP) in H.
      destruct (skip_set (Some sid) psid) eqn:ES.
      + apply skip_set_true in ES. destruct ES as (sid0 & E0 & Hne). injection E0 as <-.
        rewrite (IH _ _ _ _ _ H e d). split; (intros [Hin|(s & HR & HPk)]; [left; exact Hin|right]).
        * exists s. split; [exact (R_next _ _ _ _ _ _ ENP HR)|exact HPk].
        * exists s. split; [|exact HPk].
          destruct (reached_packet_inv _ _ _ _ _ _ ENP HR) as [->|HR']; [|exact HR'].
          exfalso. destruct HPk as (body' & rest' & HP & _). rewrite ENP in HP. injection HP as E _ _ _. exact (Hne E).
      + apply (proj1 (skip_set_false md5 _ _)) in ES. cbn [own_set] in ES. subst psid.
        destruct (step_packet md5 f (sid, ptype, body)) as [f1|] eqn:EST; [|discriminate H].
        rewrite (IH _ _ _ _ _ H e d).
        destruct (recv_eff md5 _ _ _ EST) as [(ET & e0 & d0 & ER & [(EA & EM)|(EA & EM)])|(ET & EM)];
          cbn [pk_type pk_body fst snd] in *; rewrite EM.
        * split; (intros [Hin|(s & HR & HPk)]; [left; exact Hin|]).
          -- right. exists s. split; [exact (R_next _ _ _ _ _ _ ENP HR)|exact HPk].
          -- destruct (reached_packet_inv _ _ _ _ _ _ ENP HR) as [->|HR']; [|right; exists s; split; assumption].
             left. destruct HPk as (body' & rest' & HP & HRr). rewrite ENP in HP. injection HP as _ <- _.
             rewrite ER in HRr. injection HRr as <- <-. apply assoc_n_In. exact EA.
        * cbn [In]. split.
          -- intros [[E|Hin]|(s & HR & HPk)].
             ++ right. exists buf. split; [apply R_here|]. injection E as <- <-.
                exists body, rest. split; [rewrite ENP, ET; reflexivity|exact ER].
             ++ left. exact Hin.
             ++ right. exists s. split; [exact (R_next _ _ _ _ _ _ ENP HR)|exact HPk].
          -- intros [Hin|(s & HR & HPk)]; [left; right; exact Hin|].
             destruct (reached_packet_inv _ _ _ _ _ _ ENP HR) as [->|HR']; [|right; exists s; split; assumption].
             left. left. destruct HPk as (body' & rest' & HP & HRr). rewrite ENP in HP. injection HP as _ <- _.
             rewrite ER in HRr. injection HRr as <- <-. reflexivity.
        * split; (intros [Hin|(s & HR & HPk)]; [left; exact Hin|]).
          -- right. exists s. split; [exact (R_next _ _ _ _ _ _ ENP HR)|exact HPk].
          -- destruct (reached_packet_inv _ _ _ _ _ _ ENP HR) as [->|HR']; [|right; exists s; split; assumption].
             exfalso. destruct HPk as (body' & rest' & HP & _). rewrite ENP in HP. injection HP as E _ _. exact (ET E).
  Qed.

  (* "no packets found": the reader reached no packet of the set at all *)
  Lemma read_file_go_nopackets sid : forall fuel buf f,
    read_file_go md5 fuel buf (Some sid) false f = RFNoPackets ->
    forall s, reached buf s -> forall ptype body rest, read_next_packet md5 s <> NPPacket sid ptype body rest.
  Proof.
    induction fuel as [|fuel IH]; intros buf f H s HR ptype0 body0 rest0 HP; [discriminate H|].
    destruct (read_next_packet md5 buf) as [| |psid ptype body rest] eqn:ENP.
    - rewrite (reached_eof_inv _ _ ENP HR) in HP. congruence.
    - rewrite read_file_go_S, ENP in H.
      destruct (reached_err_inv _ _ ENP HR) as [->|(rest' & EF' & HR')]; [congruence|].
      rewrite EF' in H. exact (IH _ _ H _ HR' _ _ _ HP).
    - rewrite (read_file_go_packet md5 _ _ _ _ _ _ _ _ _ ENP) in H.
      destruct (skip_set (Some sid) psid) eqn:ES.
      + apply skip_set_true in ES. destruct ES as (sid0 & E0 & Hne). injection E0 as <-.
        destruct (reached_packet_inv _ _ _ _ _ _ ENP HR) as [->|HR']; [|exact (IH _ _ H _ HR' _ _ _ HP)].
        rewrite ENP in HP. injection HP as E _ _ _. exact (Hne E).
      + destruct (step_packet md5 f (psid, ptype, body)) as [f1|]; [|discriminate H].
        exact (read_file_go_found md5 _ _ _ _ H).
  Qed.

  (* the file with content b has the recovery block (e, blk) of the set sid, where the reader finds it *)
  Definition file_has_block (sid b : bytes) (e : N) (blk : bytes) : Prop :=
    exists s, reached b s /\ recv_packet_at sid s e blk.

  Lemma read_file_vol_recv_exact sid b sid' f : read_file_vol md5 sid b = RFOk sid' f ->
    forall e blk, In (e, blk) (pf_recv f) <-> file_has_block sid b e blk.
  Proof.
    intros H e blk. unfold read_file_vol in H.
    rewrite (read_file_go_recv_exact sid _ _ _ _ _ _ H e blk). cbn [pf_vol0 pf_recv In]. unfold file_has_block. tauto.
  Qed.

  Lemma read_file_vol_nopackets sid b : read_file_vol md5 sid b = RFNoPackets ->
    forall e blk, ~ file_has_block sid b e blk.
  Proof.
    intros H e blk (s & HR & body & rest & HP & _). unfold read_file_vol in H.
    exact (read_file_go_nopackets sid _ _ _ H s HR _ _ _ HP).
  Qed.

  (** ** LoadParityData *)
  Lemma load_parity_blocks_exact d : forall paths acc st acc' st', io_sched st = [] ->
    load_parity md5 d paths acc st = (Ok acc', st') ->
    forall e blk, In (e, blk) acc' <->
      (In (e, blk) acc \/
       exists p b, In p paths /\ fs_lookup (io_fs st) p = Some b /\ file_has_block (d_setid d) b e blk).
  Proof.
    induction paths as [|p r IH]; intros acc st acc' st' Hs H e blk; cbn [load_parity] in H.
    - injection H as <- _. split; [intros Hin; left; exact Hin|]. intros [Hin|(p & b & [] & _)]. exact Hin.
    - destruct (Par1Clean.io_read_nosched p st Hs) as (st1 & ER & Hs1 & Hf1).
      rewrite ER in H. unfold Par1Clean.read_res in H.
      destruct (fs_lookup (io_fs st) p) as [b|] eqn:EL.
      2:{ destruct (is_dir (io_fs st) p); discriminate H. }
      destruct (read_file_vol md5 (d_setid d) b) as [| |sid f] eqn:ERF.
      + discriminate H.
      + rewrite (IH _ _ _ _ Hs1 H e blk), Hf1.
        split; (intros [Hin|(p' & b' & Hp & Hl & Hb)]; [left; exact Hin|right]).
        * exists p', b'. split; [right; exact Hp|split; assumption].
        * destruct Hp as [<-|Hp]; [|exists p', b'; split; [exact Hp|split; assumption]].
          exfalso. rewrite EL in Hl. injection Hl as <-. exact (read_file_vol_nopackets _ _ ERF e blk Hb).
      + lazymatch type of H with (if ?c then _ else _) = _ => destruct c end; [discriminate H|].
        lazymatch type of H with (if ?c then _ else _) = _ => destruct c end; [discriminate H|].
        rewrite (IH _ _ _ _ Hs1 H e blk), Hf1, in_app_iff, (read_file_vol_recv_exact _ _ _ _ ERF e blk).
        split.
        * intros [[Hb|Hin]|(p' & b' & Hp & Hl & Hb)].
          -- right. exists p, b. split; [left; reflexivity|split; assumption].
          -- left. exact Hin.
          -- right. exists p', b'. split; [right; exact Hp|split; assumption].
        * intros [Hin|(p' & b' & Hp & Hl & Hb)]; [left; right; exact Hin|].
          destruct Hp as [<-|Hp]; [|right; exists p', b'; split; [exact Hp|split; assumption]].
          left. left. rewrite EL in Hl. injection Hl as <-. exact Hb.
  Qed.

  (* some file that the listing <index minus extension>.*<extension> returns holds the block *)
  Definition block_in_listed_file (ix : list N) (fs : list (list N * bytes)) (sid : bytes) (e : N) (blk : bytes) : Prop :=
    exists p b, In p (rec_listing ix fs) /\ fs_lookup fs p = Some b /\ file_has_block sid b e blk.

  (* a listed path is a key of the file map of the form <index minus ".par2">.<anything>.par2 *)
  Lemma rec_listing_listed ix fs p : str_eqb (ext ix) EXT_PAR2 = true ->
    In p (rec_listing ix fs) -> listed ix fs p.
  Proof.
    intros He Hin. apply str_eqb_eq in He.
    destruct (io_list_nosched ix (io_init fs []) eq_refl) as (st1 & EL & _ & _). cbn [io_init io_fs] in EL.
    destruct (io_list_ok_in _ _ _ _ _ p EL Hin) as [Hk (mid & Hm)]. cbn [io_init io_fs] in Hk.
    split; [exact Hk|]. exists mid. rewrite Hm, He, <- app_assoc. reflexivity.
  Qed.

  (* load_all, opened, with the accumulated recovery list characterised *)
  Lemma load_all_parity_exact ix fs ds st1 : load_all md5 ix (io_init fs []) = (Ok ds, st1) ->
    exists acc, ds_parity ds = parity_array acc /\
      Forall (fun ed : N * bytes => length (snd ed) = N.to_nat (d_slice (ds_dec ds))) acc /\
      forall e blk, In (e, blk) acc <-> block_in_listed_file ix fs (d_setid (ds_dec ds)) e blk.
  Proof.
    intros HL.
    destruct (load_all_inv_full md5 _ _ _ _ HL) as (d & s1 & w & fis & s2 & paths & s3 & acc &
                                                     _ & Hnd & _ & Hlf & Hli & Hlp & ->).
    cbn [ds_parity ds_dec]. exists acc. split; [reflexivity|].
    pose proof (new_decoder_pres md5 ix (io_init fs [])) as P1. rewrite Hnd in P1. cbn [snd] in P1.
    destruct P1 as (Pf1 & Ps1 & _). cbn [io_init io_fs io_sched] in Pf1, Ps1.
    pose proof (load_files_pres md5 d w (make_cstable (d_rec d)) (combine (seq 0 (length (d_rec d))) (d_rec d)) (fis0 d) s1) as P2.
    rewrite Hlf in P2. cbn [snd] in P2. destruct P2 as (Pf2 & Ps2 & _).
    assert (Hs2 : io_sched s2 = []) by congruence.
    assert (Hf2 : io_fs s2 = fs) by congruence.
    destruct (io_list_nosched ix s2 Hs2) as (s3' & EL & Hs3 & Hf3).
    rewrite EL in Hli. injection Hli as <- <-. rewrite Hf2 in *.
    split; [apply (load_parity_len md5 d _ _ _ _ _ (Forall_nil _) Hlp)|].
    intros e blk. rewrite (load_parity_blocks_exact d _ _ _ _ _ Hs3 Hlp e blk). cbn [In]. rewrite Hf3.
    unfold block_in_listed_file. tauto.
  Qed.

  (* B2: every entry of the loaded parity table is a genuine recovery packet of a listed recovery file *)
  Theorem B2_blocks_genuine : forall ix fs ds st1,
    load_all md5 ix (io_init fs []) = (Ok ds, st1) ->
    forall e blk, nth (N.to_nat e) (ds_parity ds) None = Some blk ->
      block_in_listed_file ix fs (d_setid (ds_dec ds)) e blk /\ N.of_nat (length blk) = d_slice (ds_dec ds).
  Proof.
    intros ix fs ds st1 HL e blk Hn.
    destruct (load_all_parity_exact ix fs ds st1 HL) as (acc & EP & Hlen & Hacc).
    rewrite EP, parity_array_nth_assoc in Hn. apply assoc_n_In in Hn.
    split; [apply Hacc; exact Hn|].
    rewrite Forall_forall in Hlen. specialize (Hlen _ Hn). cbn [snd] in Hlen. lia.
  Qed.

  (* the same, by position in the table: position k is exponent k *)
  Corollary B2_blocks_genuine_nth : forall ix fs ds st1,
    load_all md5 ix (io_init fs []) = (Ok ds, st1) ->
    forall k blk, nth_error (ds_parity ds) k = Some (Some blk) ->
      block_in_listed_file ix fs (d_setid (ds_dec ds)) (N.of_nat k) blk /\ N.of_nat (length blk) = d_slice (ds_dec ds).
  Proof.
    intros ix fs ds st1 HL k blk Hk. apply (B2_blocks_genuine ix fs ds st1 HL).
    rewrite Nat2N.id. apply nth_error_nth. exact Hk.
  Qed.

  (* unfolded: path, content, offset, and the bytes of the packet *)
  Corollary B2_blocks_genuine_bytes : forall ix fs ds st1,
    load_all md5 ix (io_init fs []) = (Ok ds, st1) ->
    forall e blk, nth (N.to_nat e) (ds_parity ds) None = Some blk ->
      exists path content pre rest,
        listed ix fs path /\ fs_lookup fs path = Some content /\
        let sid := d_setid (ds_dec ds) in
        exists lenf expf,
        content = pre ++ MAGIC ++ lenf ++ md5 (sid ++ TYPE_RECV ++ expf ++ blk) ++ sid ++ TYPE_RECV ++ (expf ++ blk) ++ rest /\
        le_decode lenf = 64 + 4 + d_slice (ds_dec ds) /\ length lenf = 8%nat /\
        le_decode expf = e /\ length expf = 4%nat /\ e <= 65535 /\
        N.of_nat (length blk) = d_slice (ds_dec ds).
  Proof.
    intros ix fs ds st1 HL e blk Hn.
    destruct (B2_blocks_genuine ix fs ds st1 HL e blk Hn) as [(p & b & Hp & Hl & s & HR & body & rest & HP & HRr) Hlen].
    destruct (load_all_inv_full md5 _ _ _ _ HL) as (d & s1 & w & fis & s2 & paths & s3 & acc & He & _).
    destruct (reached_suffix _ _ HR) as (pre & Hb).
    destruct (read_next_packet_bytes _ _ _ _ _ HP) as (Hs & Hlenf & Hh & _ & _ & _ & Hl8).
    destruct (read_recv_bytes _ _ _ HRr) as (Hbody & Hexp & Hbl & Hle).
    exists p, b, pre, rest. split; [exact (rec_listing_listed ix fs p He Hp)|]. split; [exact Hl|].
    cbv zeta. exists (firstn 8 (skipn 8 s)), (firstn 4 body).
    split.
    { rewrite Hb. f_equal. rewrite Hs at 1. rewrite Hh. rewrite Hbody at 1 2. reflexivity. }
    split; [rewrite Hlenf, Hbl; lia|].
    split; [exact Hl8|].
    split; [exact Hexp|]. split; [apply firstn_length_le; lia|]. split; [exact Hle|exact Hlen].
  Qed.

  (* B2, both directions: slot e of the table is filled IFF some listed file has a recovery packet for e *)
  Theorem B2_block_table_exact : forall ix fs ds st1,
    load_all md5 ix (io_init fs []) = (Ok ds, st1) ->
    forall e, nth (N.to_nat e) (ds_parity ds) None <> None <->
              exists blk, block_in_listed_file ix fs (d_setid (ds_dec ds)) e blk.
  Proof.
    intros ix fs ds st1 HL e.
    destruct (load_all_parity_exact ix fs ds st1 HL) as (acc & EP & _ & Hacc).
    rewrite EP, parity_array_nth_assoc. split.
    - destruct (assoc_n acc e) as [blk|] eqn:EA; [|intros H; exfalso; apply H; reflexivity].
      intros _. exists blk. apply Hacc. apply assoc_n_In. exact EA.
    - intros (blk & Hb). apply Hacc in Hb. destruct (In_assoc_n_some _ _ _ Hb) as (d' & ->). discriminate.
  Qed.

  (** * C2 (blocks). the count of usable recovery blocks *)
  Theorem C2_pusable_count : forall ix fs ds st1,
    load_all md5 ix (io_init fs []) = (Ok ds, st1) ->
    forall L : list N, NoDup L ->
      (forall e, In e L <-> exists blk, block_in_listed_file ix fs (d_setid (ds_dec ds)) e blk) ->
      c_pusable (shard_counts ds) = length L.
  Proof.
    intros ix fs ds st1 HL L HND HLin.
    destruct (load_all_parity_exact ix fs ds st1 HL) as (acc & EP & _ & Hacc).
    unfold shard_counts. cbn [c_pusable]. rewrite EP, parity_count_distinct.
    assert (Hkeys : forall e, In e (nodup N.eq_dec (map fst acc)) <-> In e L).
    { intros e. rewrite nodup_In, HLin, in_map_iff. split.
      - intros ([e' blk] & E & Hin). cbn [fst] in E. subst e'. exists blk. apply Hacc. exact Hin.
      - intros (blk & Hb). exists (e, blk). split; [reflexivity|apply Hacc; exact Hb]. }
    apply Nat.le_antisymm; apply NoDup_incl_length; try assumption; try apply NoDup_nodup;
      intros e He; apply Hkeys; exact He.
  Qed.


  (** ** the same count, computed from the file map without the loader *)

  (* the positions the reader visits, as a list (fuel: one more than the length is always enough) *)
  Fixpoint visit (fuel : nat) (buf : bytes) : list bytes :=
    match fuel with
    | O => []
    | S f => buf :: match read_next_packet md5 buf with
                    | NPEof => []
                    | NPErr => match find_magic (tl buf) with Some rest => visit f rest | None => [] end
                    | NPPacket _ _ _ rest => visit f rest
                    end
    end.

  Lemma visit_reached : forall fuel buf s, In s (visit fuel buf) -> reached buf s.
  Proof.
    induction fuel as [|fuel IH]; intros buf s Hin; [destruct Hin|].
    cbn [visit In] in Hin. destruct Hin as [<-|Hin]; [apply R_here|].
    destruct (read_next_packet md5 buf) as [| |psid ptype body rest] eqn:ENP; [destruct Hin| |].
    - destruct (find_magic (tl buf)) as [rest|] eqn:EF; [|destruct Hin].
      exact (R_resync _ _ _ ENP EF (IH _ _ Hin)).
    - exact (R_next _ _ _ _ _ _ ENP (IH _ _ Hin)).
  Qed.

  Lemma reached_visit buf s : reached buf s -> forall fuel, (length buf < fuel)%nat -> In s (visit fuel buf).
  Proof.
    induction 1 as [buf|buf rest s HE HF _ IH|buf psid ptype body rest s HP _ IH]; intros fuel Hf;
      (destruct fuel as [|fuel]; [lia|]); cbn [visit In].
    - left. reflexivity.
    - right. rewrite HE, HF. apply IH.
      pose proof (find_magic_length _ _ HF) as HL.
      destruct buf as [|x buf]; [discriminate HE|]. cbn [tl length] in *. lia.
    - right. rewrite HP. apply IH. pose proof (read_next_packet_shorter' md5 _ _ _ _ _ HP). lia.
  Qed.

  (* the recovery packet of the set at a position, if there is one *)
  Definition recv_of (sid s : bytes) : option (N * bytes) :=
    match read_next_packet md5 s with
    | NPPacket psid ptype body _ =>
        if bytes_eqb psid sid && bytes_eqb ptype TYPE_RECV
        then match read_recv body with Ok ed => Some ed | _ => None end
        else None
    | _ => None
    end.

  Lemma recv_of_spec sid s e blk : recv_of sid s = Some (e, blk) <-> recv_packet_at sid s e blk.
  Proof.
    unfold recv_of, recv_packet_at. split.
    - destruct (read_next_packet md5 s) as [| |psid ptype body rest]; try discriminate.
      destruct (bytes_eqb psid sid) eqn:E1; [|discriminate]. destruct (bytes_eqb ptype TYPE_RECV) eqn:E2; [|discriminate].
      cbn [andb]. apply bytes_eqb_eq in E1, E2. subst psid ptype.
      destruct (read_recv body) as [ed|x|q] eqn:ER; try discriminate.
      intros H. injection H as ->. exists body, rest. split; [reflexivity|exact ER].
    - intros (body & rest & -> & ->). rewrite !bytes_eqb_refl. reflexivity.
  Qed.

  Definition file_blocks (sid b : bytes) : list (N * bytes) :=
    flat_map (fun s => match recv_of sid s with Some ed => [ed] | None => [] end) (visit (S (length b)) b).

  Lemma file_blocks_spec sid b e blk : In (e, blk) (file_blocks sid b) <-> file_has_block sid b e blk.
  Proof.
    unfold file_blocks, file_has_block. rewrite in_flat_map. split.
    - intros (s & Hs & Hin). exists s. split; [exact (visit_reached _ _ _ Hs)|].
      destruct (recv_of sid s) as [ed|] eqn:ER; [|destruct Hin]. destruct Hin as [->|[]].
      apply recv_of_spec. exact ER.
    - intros (s & HR & HP). exists s. split; [apply reached_visit; [exact HR|lia]|].
      apply recv_of_spec in HP. rewrite HP. left. reflexivity.
  Qed.

  Definition loaded_blocks (ix : list N) (fs : list (list N * bytes)) (sid : bytes) : list (N * bytes) :=
    flat_map (fun p => match fs_lookup fs p with Some b => file_blocks sid b | None => [] end) (rec_listing ix fs).

  Lemma loaded_blocks_spec ix fs sid e blk :
    In (e, blk) (loaded_blocks ix fs sid) <-> block_in_listed_file ix fs sid e blk.
  Proof.
    unfold loaded_blocks, block_in_listed_file. rewrite in_flat_map. split.
    - intros (p & Hp & Hin). destruct (fs_lookup fs p) as [b|] eqn:EL; [|destruct Hin].
      exists p, b. split; [exact Hp|]. split; [exact EL|]. apply file_blocks_spec. exact Hin.
    - intros (p & b & Hp & EL & Hb). exists p. split; [exact Hp|]. rewrite EL. apply file_blocks_spec. exact Hb.
  Qed.

  (* the distinct exponents for which some listed file holds a recovery packet the reader finds *)
  Definition loaded_exps (ix : list N) (fs : list (list N * bytes)) (sid : bytes) : list N :=
    nodup N.eq_dec (map fst (loaded_blocks ix fs sid)).

  Theorem C2_pusable_count_computed : forall ix fs ds st1,
    load_all md5 ix (io_init fs []) = (Ok ds, st1) ->
    c_pusable (shard_counts ds) = length (loaded_exps ix fs (d_setid (ds_dec ds))).
  Proof.
    intros ix fs ds st1 HL. apply (C2_pusable_count ix fs ds st1 HL); [apply NoDup_nodup|].
    intros e. unfold loaded_exps. rewrite nodup_In, in_map_iff. split.
    - intros ([e' blk] & E & Hin). cbn [fst] in E. subst e'. exists blk. apply loaded_blocks_spec. exact Hin.
    - intros (blk & Hb). exists (e, blk). split; [reflexivity|apply loaded_blocks_spec; exact Hb].
  Qed.

  (* the table itself: slot e is filled iff e is among them *)
  Corollary B2_block_table_computed : forall ix fs ds st1,
    load_all md5 ix (io_init fs []) = (Ok ds, st1) ->
    forall e, nth (N.to_nat e) (ds_parity ds) None <> None <-> In e (loaded_exps ix fs (d_setid (ds_dec ds))).
  Proof.
    intros ix fs ds st1 HL e. rewrite (B2_block_table_exact ix fs ds st1 HL e).
    unfold loaded_exps. rewrite nodup_In, in_map_iff. split.
    - intros (blk & Hb). exists (e, blk). split; [reflexivity|apply loaded_blocks_spec; exact Hb].
    - intros ([e' blk] & E & Hin). cbn [fst] in E. subst e'. exists blk. apply loaded_blocks_spec. exact Hin.
  Qed.

  (** ** "occurs at some offset" is weaker than "is found by the reader" *)

  (* a hash-valid recovery packet (e, blk) of the set occurs at SOME offset of a listed file *)
  Definition block_occurs (ix : list N) (fs : list (list N * bytes)) (sid : bytes) (e : N) (blk : bytes) : Prop :=
    exists p b pre s, In p (rec_listing ix fs) /\ fs_lookup fs p = Some b /\ b = pre ++ s /\ recv_packet_at sid s e blk.

  Lemma block_in_listed_occurs ix fs sid e blk : block_in_listed_file ix fs sid e blk -> block_occurs ix fs sid e blk.
  Proof.
    intros (p & b & Hp & Hl & s & HR & HP). destruct (reached_suffix _ _ HR) as (pre & Hb).
    exists p, b, pre, s. repeat split; assumption.
  Qed.

  (* the true half: the count is AT MOST the number of exponents with an occurring packet *)
  Theorem C2_pusable_le_occurring : forall ix fs ds st1,
    load_all md5 ix (io_init fs []) = (Ok ds, st1) ->
    forall L : list N,
      (forall e blk, block_occurs ix fs (d_setid (ds_dec ds)) e blk -> In e L) ->
      (c_pusable (shard_counts ds) <= length L)%nat.
  Proof.
    intros ix fs ds st1 HL L HLin.
    rewrite (C2_pusable_count_computed ix fs ds st1 HL).
    apply NoDup_incl_length; [apply NoDup_nodup|].
    intros e He. unfold loaded_exps in He. rewrite nodup_In, in_map_iff in He.
    destruct He as ([e' blk] & E & Hin). cbn [fst] in E. subst e'.
    apply (HLin e blk). apply block_in_listed_occurs. apply loaded_blocks_spec. exact Hin.
  Qed.


  (* every offset of a buffer *)
  Fixpoint tails (b : bytes) : list bytes := b :: match b with [] => [] | _ :: r => tails r end.

  Lemma tails_spec : forall b s, In s (tails b) <-> exists pre, b = pre ++ s.
  Proof.
    induction b as [|x b IH]; intros s.
    - cbn [tails In]. split.
      + intros [<-|[]]. exists []. reflexivity.
      + intros (pre & E). left. destruct pre; destruct s; try discriminate E. reflexivity.
    - change (tails (x :: b)) with ((x :: b) :: tails b). cbn [In]. rewrite IH. split.
      + intros [<-|(pre & ->)]; [exists []; reflexivity|exists (x :: pre); reflexivity].
      + intros ([|y pre] & E); [left; exact E|right]. injection E as _ E. exists pre. exact E.
  Qed.

  Definition occurring_blocks (ix : list N) (fs : list (list N * bytes)) (sid : bytes) : list (N * bytes) :=
    flat_map (fun p => match fs_lookup fs p with
                       | Some b => flat_map (fun s => match recv_of sid s with Some ed => [ed] | None => [] end) (tails b)
                       | None => []
                       end) (rec_listing ix fs).

  Lemma occurring_blocks_spec ix fs sid e blk :
    In (e, blk) (occurring_blocks ix fs sid) <-> block_occurs ix fs sid e blk.
  Proof.
    unfold occurring_blocks, block_occurs. rewrite in_flat_map. split.
    - intros (p & Hp & Hin). destruct (fs_lookup fs p) as [b|] eqn:EL; [|destruct Hin].
      apply in_flat_map in Hin. destruct Hin as (s & Hs & Hin). apply tails_spec in Hs. destruct Hs as (pre & Hb).
      destruct (recv_of sid s) as [ed|] eqn:ER; [|destruct Hin]. destruct Hin as [->|[]].
      exists p, b, pre, s. repeat split; try assumption. apply recv_of_spec. exact ER.
    - intros (p & b & pre & s & Hp & EL & Hb & HP). exists p. split; [exact Hp|]. rewrite EL.
      apply in_flat_map. exists s. split; [apply tails_spec; exists pre; exact Hb|].
      apply recv_of_spec in HP. rewrite HP. left. reflexivity.
  Qed.

  Definition occurring_exps (ix : list N) (fs : list (list N * bytes)) (sid : bytes) : list N :=
    nodup N.eq_dec (map fst (occurring_blocks ix fs sid)).

  Lemma occurring_exps_spec ix fs sid e :
    In e (occurring_exps ix fs sid) <-> exists blk, block_occurs ix fs sid e blk.
  Proof.
    unfold occurring_exps. rewrite nodup_In, in_map_iff. split.
    - intros ([e' blk] & E & Hin). cbn [fst] in E. subst e'. exists blk. apply occurring_blocks_spec. exact Hin.
    - intros (blk & Hb). exists (e, blk). split; [reflexivity|apply occurring_blocks_spec; exact Hb].
  Qed.


  (** * the numbers Verify returns *)
  Theorem par2_verify_counts_truthful : forall ix fs c st,
    par2_verify md5 ix (io_init fs []) = (Ok c, st) ->
    exists ds, load_all md5 ix (io_init fs []) = (Ok ds, st) /\ c = shard_counts ds /\
      (* recovery blocks *)
      c_pusable c = length (loaded_exps ix fs (d_setid (ds_dec ds))) /\
      (c_pusable c + c_punusable c)%nat = length (ds_parity ds) /\
      (* slices *)
      (c_usable c + c_unusable c)%nat
        = fold_right (fun info acc => (length (di_pairs info) + acc)%nat) 0%nat (d_rec (ds_dec ds)) /\
      (* files *)
      map flags3 (ds_fis ds) = map (file_state fs ix) (d_rec (ds_dec ds)).
  Proof.
    intros ix fs c st H. unfold par2_verify in H.
    destruct (load_all md5 ix (io_init fs [])) as [[ds|e|q] st1] eqn:EL; try discriminate H.
    injection H as <- <-. exists ds. split; [reflexivity|]. split; [reflexivity|].
    split; [exact (C2_pusable_count_computed ix fs ds st1 EL)|].
    split; [unfold shard_counts; cbn [c_pusable c_punusable]; apply count_some_nones|].
    split; [exact (verify_counts_total md5 ix _ ds st1 EL)|exact (load_all_flags_exact ix fs ds st1 EL)].
  Qed.

End TruthfulPar2.

Print Assumptions load_all_flags_exact.
Print Assumptions F2_reported_intact.
Print Assumptions F2_reported_missing.
Print Assumptions F2_reported_hashbad.
Print Assumptions F2_reported_lenbad.
Print Assumptions C2_missing_count.
Print Assumptions C2_damaged_count.
Print Assumptions C2_intact_count.
Print Assumptions B2_blocks_genuine.
Print Assumptions B2_blocks_genuine_nth.
Print Assumptions B2_blocks_genuine_bytes.
Print Assumptions B2_block_table_exact.
Print Assumptions B2_block_table_computed.
Print Assumptions C2_pusable_count.
Print Assumptions C2_pusable_count_computed.
Print Assumptions C2_pusable_le_occurring.
Print Assumptions par2_verify_counts_truthful.

(** * PAR2, non-vacuity: a created set of three files and two recovery blocks; then "a" is deleted, "b" is
      overwritten with other content of the same length, "c" is untouched, the first recovery file is truncated by
      one byte (its recovery packet is no longer complete; the stand-in digest toy_md5 looks at the first 16 bytes and
      the length only, so a changed byte inside a body would go unnoticed), the second recovery file is untouched *)
From Coq Require Import String.
From Coq Require Import List.
From Gopar Require Import Proofs.Par2CreatePaths.   (* bs, toy_md5 *)
Open Scope N_scope.

Module TruthfulExample2.
  Definition fs0 : list (list N * bytes) :=
    [(bs "/w/a", [1; 2; 3; 4; 5]); (bs "/w/b", [6; 7; 8; 9]); (bs "/w/c", [10; 11; 12; 13; 14; 15; 16; 17])].
  Definition ix := bs "/w/o.par2".
  Definition created :=
    par2_create toy_md5 (bs "/w") ix [bs "a"; bs "b"; bs "c"] {| cp_slice := 4; cp_parity := 2 |} (io_init fs0 []).
  Definition vol0 := bs "/w/o.vol00+01.par2".
  Definition vol1 := bs "/w/o.vol01+01.par2".
  Definition fsd : list (list N * bytes) :=
    let f1 := filter (fun e : list N * bytes => negb (str_eqb (fst e) (bs "/w/a"))) (io_fs (snd created)) in
    let f2 := fs_set f1 (bs "/w/b") [6; 7; 8; 8] in
    match fs_lookup f2 vol0 with Some v => fs_set f2 vol0 (removelast v) | None => f2 end.
  Definition ds0 : dstate :=
    {| ds_dec := {| d_index := []; d_setid := []; d_slice := 0; d_rec := []; d_nonrec := [] |}; ds_fis := []; ds_tbl := []; ds_parity := [] |}.
  Definition loaded : dstate := match fst (load_all toy_md5 ix (io_init fsd [])) with Ok ds => ds | _ => ds0 end.

  (* what Verify's loading phase reports: file 0 ("b") hash mismatch, file 1 ("a") missing, file 2 ("c") intact;
     recovery block 0 unusable, block 1 usable *)
  Example ex2_loaded :
    fst created = Ok tt /\
    fst (load_all toy_md5 ix (io_init fsd [])) = Ok loaded /\
    map di_name (d_rec (ds_dec loaded)) = [bs "b"; bs "a"; bs "c"] /\
    map (flags3) (ds_fis loaded) = [(false, true, false); (true, false, false); (false, false, false)] /\
    map (fun o : option bytes => match o with Some _ => true | None => false end) (ds_parity loaded) = [false; true] /\
    rec_listing ix fsd = [vol0; vol1] /\
    shard_counts loaded = {| c_usable := 2; c_unusable := 3; c_pusable := 1; c_punusable := 1; c_misplaced := 0 |}.
  Proof. vm_compute. repeat split; reflexivity. Qed.

  Lemma loaded_eq : load_all toy_md5 ix (io_init fsd []) = (Ok loaded, snd (load_all toy_md5 ix (io_init fsd []))).
  Proof. destruct ex2_loaded as (_ & HL & _). rewrite <- HL. apply surjective_pairing. Qed.

  Definition info (k : nat) : dinfo := nth k (d_rec (ds_dec loaded)) dinfo0.
  Lemma info_nth k : (k < 3)%nat -> nth_error (d_rec (ds_dec loaded)) k = Some (info k).
  Proof. intros Hk. apply nth_error_nth'. vm_compute. lia. Qed.

  (* F2 at the file reported intact: by the theorem, "c" is present with the recorded length and hashes *)
  Example ex2_F2_intact :
    exists data, fs_lookup fsd (bs "/w/c") = Some data /\ toy_md5 data = di_hash (info 2) /\
                 hash16k toy_md5 data = di_h16 (info 2) /\ N.of_nat (length data) = di_len (info 2).
  Proof.
    apply (proj1 (F2_reported_intact toy_md5 ix fsd loaded _ 2 (info 2) loaded_eq (info_nth 2 ltac:(lia)))).
    vm_compute. reflexivity.
  Qed.

  (* F2 at the file reported missing and at the one reported with a hash mismatch: by the theorems *)
  Example ex2_F2_missing : fs_lookup fsd (bs "/w/a") = None.
  Proof.
    apply (proj1 (F2_reported_missing toy_md5 ix fsd loaded _ 1 (info 1) loaded_eq (info_nth 1 ltac:(lia)))).
    vm_compute. reflexivity.
  Qed.

  Example ex2_F2_hashbad :
    exists data, fs_lookup fsd (bs "/w/b") = Some data /\
                 (toy_md5 data <> di_hash (info 0) \/ hash16k toy_md5 data <> di_h16 (info 0)).
  Proof.
    apply (proj1 (F2_reported_hashbad toy_md5 ix fsd loaded _ 0 (info 0) loaded_eq (info_nth 0 ltac:(lia)))).
    vm_compute. reflexivity.
  Qed.

  (* ... and its length is not flagged: by the theorem (other direction), no content of another length is there *)
  Example ex2_F2_len_ok :
    ~ exists data, fs_lookup fsd (bs "/w/b") = Some data /\ N.of_nat (length data) <> di_len (info 0).
  Proof.
    intros H.
    apply (proj2 (F2_reported_lenbad toy_md5 ix fsd loaded _ 0 (info 0) loaded_eq (info_nth 0 ltac:(lia)))) in H.
    vm_compute in H. discriminate H.
  Qed.

  (* C2 (files): one of the three protected paths has no file, one has other content, one the recorded content *)
  Example ex2_C2_files :
    length (filter fi_missing (ds_fis loaded)) = 1%nat /\
    length (filter (fun info => match fs_lookup fsd (file_path ix (di_name info)) with None => true | Some _ => false end)
                   (d_rec (ds_dec loaded))) = 1%nat.
  Proof.
    rewrite <- (C2_missing_count toy_md5 ix fsd loaded _ loaded_eq). split; vm_compute; reflexivity.
  Qed.

  (* B2 at the usable block: by the theorem, a hash-valid recovery packet with exponent 1 and a 4-byte block stands
     in a listed recovery file, where the reader finds it *)
  Definition blk1 : bytes := match nth 1 (ds_parity loaded) None with Some b => b | None => [] end.
  Example ex2_B2 :
    block_in_listed_file toy_md5 ix fsd (d_setid (ds_dec loaded)) 1 blk1 /\ N.of_nat (length blk1) = 4.
  Proof.
    apply (B2_blocks_genuine toy_md5 ix fsd loaded _ loaded_eq 1 blk1). vm_compute. reflexivity.
  Qed.

  Example ex2_B2_bytes :
    exists path content pre rest lenf expf,
      listed ix fsd path /\ fs_lookup fsd path = Some content /\
      content = pre ++ MAGIC ++ lenf ++ toy_md5 (d_setid (ds_dec loaded) ++ TYPE_RECV ++ expf ++ blk1)
                    ++ d_setid (ds_dec loaded) ++ TYPE_RECV ++ (expf ++ blk1) ++ rest /\
      le_decode lenf = 72 /\ le_decode expf = 1.
  Proof.
    destruct (B2_blocks_genuine_bytes toy_md5 ix fsd loaded _ loaded_eq 1 blk1 ltac:(vm_compute; reflexivity))
      as (path & content & pre & rest & Hl & Hc & lenf & expf & Hb & Hlen & _ & Hexp & _).
    exists path, content, pre, rest, lenf, expf.
    split; [exact Hl|]. split; [exact Hc|]. split; [exact Hb|]. split; [|exact Hexp].
    rewrite Hlen. vm_compute. reflexivity.
  Qed.

  (* the unusable block: by the theorem (other direction) NO listed file has a recovery packet with exponent 0
     that the reader finds - the truncated one does not parse *)
  Example ex2_B2_block0_absent : ~ exists blk, block_in_listed_file toy_md5 ix fsd (d_setid (ds_dec loaded)) 0 blk.
  Proof.
    intros H. apply (proj2 (B2_block_table_exact toy_md5 ix fsd loaded _ loaded_eq 0)) in H.
    apply H. vm_compute. reflexivity.
  Qed.

  (* C2 (blocks): the count is the number of exponents computed from the file map *)
  Example ex2_C2_blocks :
    loaded_exps toy_md5 ix fsd (d_setid (ds_dec loaded)) = [1] /\
    c_pusable (shard_counts loaded) = length (loaded_exps toy_md5 ix fsd (d_setid (ds_dec loaded))).
  Proof.
    split; [vm_compute; reflexivity|]. exact (C2_pusable_count_computed toy_md5 ix fsd loaded _ loaded_eq).
  Qed.

  Example ex2_C2_blocks_L : c_pusable (shard_counts loaded) = 1%nat.
  Proof.
    apply (C2_pusable_count toy_md5 ix fsd loaded _ loaded_eq [1]).
    - constructor; [intros []|constructor].
    - intros e. rewrite <- (B2_block_table_exact toy_md5 ix fsd loaded _ loaded_eq e).
      rewrite (B2_block_table_computed toy_md5 ix fsd loaded _ loaded_eq e).
      destruct ex2_C2_blocks as [-> _]. reflexivity.
  Qed.
End TruthfulExample2.

(** * C2 with "occurs at some offset" is REFUTED: the intact set plus a listed file that consists of ONE hash-valid
      packet of another set whose body is a hash-valid recovery packet (exponent 7) of this set.  The reader skips
      the outer packet as a whole; the nested packet occurs in the file (at offset 64) and is not loaded. *)
Module TruthfulNested.
  Import TruthfulExample2.
  Definition sid : bytes := match fst (new_decoder toy_md5 ix (io_init (io_fs (snd created)) [])) with Ok d => d_setid d | _ => [] end.
  Definition inner : bytes := write_packet toy_md5 sid TYPE_RECV (le_encode 4 7 ++ [1; 2; 3; 4]).
  Definition outer : bytes := write_packet toy_md5 (repeat 9 16) TYPE_RECV inner.
  Definition fsn : list (list N * bytes) := io_fs (snd created) ++ [(bs "/w/o.x.par2", outer)].
  Definition loadedn : dstate := match fst (load_all toy_md5 ix (io_init fsn [])) with Ok ds => ds | _ => ds0 end.

  Example C2_occurs_anywhere_refuted :
    let L := occurring_exps toy_md5 ix fsn (d_setid (ds_dec loadedn)) in
    fst (load_all toy_md5 ix (io_init fsn [])) = Ok loadedn /\
    NoDup L /\
    (forall e, In e L <-> exists blk, block_occurs toy_md5 ix fsn (d_setid (ds_dec loadedn)) e blk) /\
    block_occurs toy_md5 ix fsn (d_setid (ds_dec loadedn)) 7 [1; 2; 3; 4] /\
    nth 7 (ds_parity loadedn) None = None /\
    c_pusable (shard_counts loadedn) = 2%nat /\ length L = 3%nat /\
    c_pusable (shard_counts loadedn) <> length L.
  Proof.
    cbv zeta.
    split; [vm_compute; reflexivity|].
    split; [apply NoDup_nodup|].
    split; [intros e; exact (occurring_exps_spec toy_md5 ix fsn (d_setid (ds_dec loadedn)) e)|].
    split.
    { apply (proj1 (occurring_blocks_spec toy_md5 ix fsn (d_setid (ds_dec loadedn)) 7 [1; 2; 3; 4])). vm_compute. tauto. }
    split; [vm_compute; reflexivity|].
    assert (E1 : c_pusable (shard_counts loadedn) = 2%nat) by (vm_compute; reflexivity).
    assert (E2 : length (occurring_exps toy_md5 ix fsn (d_setid (ds_dec loadedn))) = 3%nat) by (vm_compute; reflexivity).
    split; [exact E1|]. split; [exact E2|]. rewrite E1, E2. discriminate.
  Qed.

  (* the true half holds here, strictly *)
  Example C2_pusable_le_occurring_example :
    (c_pusable (shard_counts loadedn) <= length (occurring_exps toy_md5 ix fsn (d_setid (ds_dec loadedn))))%nat.
  Proof.
    destruct C2_occurs_anywhere_refuted as (HL & _).
    assert (HL' : load_all toy_md5 ix (io_init fsn []) = (Ok loadedn, snd (load_all toy_md5 ix (io_init fsn []))))
      by (rewrite <- HL; apply surjective_pairing).
    apply (C2_pusable_le_occurring toy_md5 ix fsn loadedn _ HL').
    intros e blk H.
    apply (proj2 (occurring_exps_spec toy_md5 ix fsn (d_setid (ds_dec loadedn)) e)). exists blk. exact H.
  Qed.
End TruthfulNested.

Print Assumptions TruthfulExample2.ex2_loaded.
Print Assumptions TruthfulExample2.ex2_F2_intact.
Print Assumptions TruthfulExample2.ex2_F2_missing.
Print Assumptions TruthfulExample2.ex2_F2_hashbad.
Print Assumptions TruthfulExample2.ex2_C2_files.
Print Assumptions TruthfulExample2.ex2_B2.
Print Assumptions TruthfulExample2.ex2_B2_bytes.
Print Assumptions TruthfulExample2.ex2_B2_block0_absent.
Print Assumptions TruthfulExample2.ex2_C2_blocks.
Print Assumptions TruthfulExample2.ex2_C2_blocks_L.
Print Assumptions TruthfulNested.C2_occurs_anywhere_refuted.
Print Assumptions TruthfulNested.C2_pusable_le_occurring_example.

(** * PAR1 *)
From Gopar Require Import Model.GF8 Model.Par1 Proofs.Par1Facts Proofs.Par1Safety Proofs.Par1Clean.
Open Scope N_scope.

Lemma nth_error_map_inv {A B} (f : A -> B) : forall (l : list A) k y,
  nth_error (map f l) k = Some y -> exists x, nth_error l k = Some x /\ f x = y.
Proof.
  induction l as [|a l IH]; intros [|k] y H; cbn [map nth_error] in H; try discriminate H.
  - injection H as <-. exists a. split; reflexivity.
  - exact (IH k y H).
Qed.

Lemma nth_error_firstn_some {A} : forall m (l : list A) k x, nth_error (firstn m l) k = Some x -> nth_error l k = Some x.
Proof.
  induction m as [|m IH]; intros l k x H; [destruct k; discriminate H|].
  destruct l as [|a l]; [destruct k; discriminate H|]. destruct k as [|k]; [exact H|]. exact (IH l k x H).
Qed.

Lemma firstn_map_seq {B} (f : nat -> B) : forall m a n, firstn m (map f (seq a n)) = map f (seq a (Nat.min m n)).
Proof.
  induction m as [|m IH]; intros a n; [reflexivity|].
  destruct n as [|n]; [reflexivity|]. cbn [seq map firstn Nat.min]. f_equal. apply IH.
Qed.

Lemma count_present_app {A} (a b : list (option A)) : count_present (a ++ b) = (count_present a + count_present b)%nat.
Proof. unfold count_present. rewrite filter_app, app_length. reflexivity. Qed.

Lemma count_present_map {A B} (f : A -> option B) (l : list A) :
  count_present (map f l) = length (filter (fun x => match f x with Some _ => true | None => false end) l).
Proof.
  unfold count_present. induction l as [|x l IH]; [reflexivity|].
  cbn [map filter]. destruct (f x); cbn [length]; rewrite IH; reflexivity.
Qed.

Lemma count_none1_map {A B} (f : A -> option B) (l : list A) :
  count_none1 (map f l) = length (filter (fun x => match f x with Some _ => false | None => true end) l).
Proof.
  unfold count_none1. induction l as [|x l IH]; [reflexivity|].
  cbn [map filter]. destruct (f x); cbn [length]; rewrite IH; reflexivity.
Qed.

(* last_some_index: every filled position lies at or before it *)
Lemma last_some_index_spec : forall (l : list (option bytes)) i acc,
  (last_some_index l i acc = acc \/ (i <= last_some_index l i acc)%nat) /\
  forall p x, nth_error l p = Some (Some x) -> (i + p <= last_some_index l i acc)%nat.
Proof.
  induction l as [|o l IH]; intros i acc; cbn [last_some_index].
  - split; [left; reflexivity|]. intros [|p] x H; discriminate H.
  - destruct o as [y|].
    + destruct (IH (S i) i) as [A B]. split; [right; lia|].
      intros [|p] x H; [lia|]. cbn [nth_error] in H. specialize (B p x H). lia.
    + destruct (IH (S i) acc) as [A B]. split; [destruct A as [A|A]; [left; exact A|right; lia]|].
      intros [|p] x H; [discriminate H|]. cbn [nth_error] in H. specialize (B p x H). lia.
Qed.

Lemma count_present_firstn_last (l : list (option bytes)) :
  count_present (firstn (S (last_some_index l 0 0)) l) = count_present l.
Proof.
  set (m := S (last_some_index l 0 0)).
  rewrite <- (firstn_skipn m l) at 2. rewrite count_present_app.
  assert (Hz : count_present (skipn m l) = 0%nat); [|lia].
  unfold count_present.
  assert (Hall : forall o, In o (skipn m l) -> o = None).
  { intros o Hin. destruct o as [x|]; [|reflexivity]. exfalso.
    apply In_nth_error in Hin. destruct Hin as (p & Hp).
    assert (Hp' : nth_error l (m + p) = Some (Some x)).
    { rewrite <- (firstn_skipn m l).
      assert (Hm : (m <= length l)%nat).
      { destruct (le_lt_dec m (length l)) as [L|G]; [exact L|].
        rewrite skipn_all2 in Hp by lia. destruct p; discriminate Hp. }
      rewrite nth_error_app2 by (rewrite firstn_length; lia).
      rewrite firstn_length, Nat.min_l by exact Hm. replace (m + p - m)%nat with p by lia. exact Hp. }
    pose proof (proj2 (last_some_index_spec l 0 0) _ _ Hp') as B. unfold m in B. lia. }
  induction (skipn m l) as [|o r IHr]; [reflexivity|].
  cbn [filter]. rewrite (Hall o (or_introl eq_refl)). apply IHr. intros o' Ho'. apply Hall. right. exact Ho'.
Qed.

Section TruthfulPar1.
  Variable md5 : bytes -> bytes.

  (** * F1. the data files *)

  (* LoadFileData's verdict on the file of a saved entry, from the file map: BOTH hashes (16k-MD5 and MD5) of the
     content at <directory of the index>/<entry name>; the recorded length e_len is NOT looked at *)
  Definition file_usable (fs : list (list N * bytes)) (ix : list N) (e : p1entry) : bool :=
    match slot md5 fs ix e with Some _ => true | None => false end.

  Theorem F1_files_exact : forall ix fs s st1,
    p1_load md5 ix (io_init fs []) = (Ok s, st1) ->
    (exists b, fs_lookup fs ix = Some b /\ read_volume md5 b = Ok (s_vol s)) /\
    s_saved s = filter saved (v_entries (s_vol s)) /\
    s_data s = map (slot md5 fs ix) (s_saved s).
  Proof.
    intros ix fs s st1 HL.
    destruct (p1_load_data_exact md5 ix fs s st1 HL) as (E & _ & _).
    destruct (p1_load_inv md5 _ _ _ _ HL) as (b & sa & v & ds & sb & slots & size & _ & ER & EV & _ & _ & _ & _ & _ & ->).
    cbn [s_vol s_saved s_data] in *. split; [|split; [reflexivity|exact E]].
    exists b. split; [|exact EV]. apply (io_read_ok_lookup ix (io_init fs []) b sa eq_refl ER).
  Qed.

  (* the k-th saved entry is reported USABLE (Some d): d is the content at its path and has both recorded hashes *)
  Theorem F1_file_usable : forall ix fs s st1 k d,
    p1_load md5 ix (io_init fs []) = (Ok s, st1) ->
    nth_error (s_data s) k = Some (Some d) ->
    exists e, nth_error (s_saved s) k = Some e /\
              fs_lookup fs (join2 (dir ix) (e_name e)) = Some d /\ md5 d = e_hash e /\ hash16k md5 d = e_h16 e.
  Proof.
    intros ix fs s st1 k d HL Hk.
    destruct (F1_files_exact ix fs s st1 HL) as (_ & _ & E). rewrite E in Hk.
    apply nth_error_map_inv in Hk. destruct Hk as (e & He & Hs). exists e. split; [exact He|].
    exact (slot_some md5 fs ix e d Hs).
  Qed.

  (* ... reported UNUSABLE (None): no file at its path, or content with another MD5 or 16k-MD5 *)
  Theorem F1_file_unusable : forall ix fs s st1 k,
    p1_load md5 ix (io_init fs []) = (Ok s, st1) ->
    nth_error (s_data s) k = Some None ->
    exists e, nth_error (s_saved s) k = Some e /\
              (fs_lookup fs (join2 (dir ix) (e_name e)) = None \/
               exists d, fs_lookup fs (join2 (dir ix) (e_name e)) = Some d /\ (md5 d <> e_hash e \/ hash16k md5 d <> e_h16 e)).
  Proof.
    intros ix fs s st1 k HL Hk.
    destruct (F1_files_exact ix fs s st1 HL) as (_ & _ & E). rewrite E in Hk.
    apply nth_error_map_inv in Hk. destruct Hk as (e & He & Hs). exists e. split; [exact He|].
    unfold slot, epath in Hs. destruct (fs_lookup fs (join2 (dir ix) (e_name e))) as [d|]; [|left; reflexivity].
    right. exists d. split; [reflexivity|].
    destruct (usable md5 e d) eqn:U; [discriminate Hs|]. unfold usable in U.
    apply andb_false_iff in U. destruct U as [U|U]; apply bytes_eqb_neq in U; [right|left]; exact U.
  Qed.

  (* conversely a file with both recorded hashes at the k-th path IS reported usable (whatever its length) *)
  Theorem F1_file_usable_conv : forall ix fs s st1 k e d,
    p1_load md5 ix (io_init fs []) = (Ok s, st1) ->
    nth_error (s_saved s) k = Some e ->
    fs_lookup fs (join2 (dir ix) (e_name e)) = Some d -> md5 d = e_hash e -> hash16k md5 d = e_h16 e ->
    nth_error (s_data s) k = Some (Some d).
  Proof.
    intros ix fs s st1 k e d HL He Hl H1 H2.
    destruct (F1_files_exact ix fs s st1 HL) as (_ & _ & E). rewrite E.
    rewrite (map_nth_error (slot md5 fs ix) k (s_saved s) He). f_equal. exact (slot_intact md5 fs ix e d Hl H1 H2).
  Qed.

  Theorem F1_counts : forall ix fs s st1,
    p1_load md5 ix (io_init fs []) = (Ok s, st1) ->
    fc_usable (file_counts s) = length (filter (file_usable fs ix) (s_saved s)) /\
    fc_unusable (file_counts s) = length (filter (fun e => negb (file_usable fs ix e)) (s_saved s)).
  Proof.
    intros ix fs s st1 HL. destruct (F1_files_exact ix fs s st1 HL) as (_ & _ & E).
    cbn [file_counts fc_usable fc_unusable]. rewrite E, count_present_map, count_none1_map. split.
    - reflexivity.
    - apply f_equal, filter_ext. intros e. unfold file_usable. destruct (slot md5 fs ix e); reflexivity.
  Qed.

  (** * B1. the parity volumes *)

  (* the slot of volume number k, from the file map and the set hash sh stored in the index: the data of the file at
     volume_path ix k when read_volume accepts it AND it is a volume of the set - it carries the set hash sh and the
     volume number k of its file name *)
  Definition vslot (fs : list (list N * bytes)) (ix : list N) (sh : bytes) (k : nat) : option bytes :=
    match fs_lookup fs (volume_path ix (N.of_nat k)) with
    | Some b => match read_volume md5 b with
                | Ok v => if bytes_eqb (v_sethash_stored v) sh && (v_number v =? N.of_nat k) then Some (v_data v) else None
                | _ => None
                end
    | None => None
    end.

  Lemma vslot_some fs ix sh k d : vslot fs ix sh k = Some d ->
    exists b v, fs_lookup fs (volume_path ix (N.of_nat k)) = Some b /\ read_volume md5 b = Ok v /\
      v_sethash_stored v = sh /\ v_number v = N.of_nat k /\ v_data v = d.
  Proof.
    unfold vslot. intros H.
    destruct (fs_lookup fs (volume_path ix (N.of_nat k))) as [b|]; [|discriminate H].
    destruct (read_volume md5 b) as [v|x|q] eqn:EV; try discriminate H.
    destruct (bytes_eqb (v_sethash_stored v) sh) eqn:E1; cbn [andb] in H; [|discriminate H].
    destruct (v_number v =? N.of_nat k) eqn:E2; [|discriminate H].
    injection H as <-. exists b, v. split; [reflexivity|]. split; [exact EV|].
    split; [apply bytes_eqb_eq; exact E1|]. split; [apply N.eqb_eq; exact E2|reflexivity].
  Qed.

  Lemma vslot_none fs ix sh k : vslot fs ix sh k = None ->
    fs_lookup fs (volume_path ix (N.of_nat k)) = None \/
    exists b, fs_lookup fs (volume_path ix (N.of_nat k)) = Some b /\ not_member md5 sh (N.of_nat k) b.
  Proof.
    unfold vslot, not_member. intros H.
    destruct (fs_lookup fs (volume_path ix (N.of_nat k))) as [b|]; [right; exists b; split; [reflexivity|]|left; reflexivity].
    destruct (read_volume md5 b) as [v|x|q] eqn:EV; [|exact I|exact (read_volume_np md5 b q EV)].
    destruct (bytes_eqb (v_sethash_stored v) sh) eqn:E1; cbn [andb] in H.
    - destruct (N.eqb_spec (v_number v) (N.of_nat k)) as [E2|E2]; [discriminate H|right; exact E2].
    - left. intros E. rewrite E, bytes_eqb_refl in E1. discriminate E1.
  Qed.

  Lemma vslot_spec fs ix sh k :
    (forall d, vslot fs ix sh k = Some d ->
       exists b v, fs_lookup fs (volume_path ix (N.of_nat k)) = Some b /\ read_volume md5 b = Ok v /\
         v_sethash_stored v = sh /\ v_number v = N.of_nat k /\ v_data v = d) /\
    (vslot fs ix sh k = None ->
       fs_lookup fs (volume_path ix (N.of_nat k)) = None \/
       exists b, fs_lookup fs (volume_path ix (N.of_nat k)) = Some b /\ not_member md5 sh (N.of_nat k) b).
  Proof. split; [intros d; exact (vslot_some fs ix sh k d)|exact (vslot_none fs ix sh k)]. Qed.

  (* what "read_volume accepts" includes *)
  Lemma read_volume_checks b v : read_volume md5 b = Ok v ->
    firstn 8 b = PAR1_ID /\ le_decode (firstn 4 (skipn 8 b)) = PAR1_VERSION /\
    md5 (skipn 32 b) = firstn 16 (skipn 16 b) /\
    v_sethash_stored v = firstn 16 (skipn 32 b) /\ v_number v = le_decode (firstn 8 (skipn 48 b)).
  Proof.
    unfold read_volume. intros H.
    destruct (Nat.ltb (length b) 96); [discriminate H|].
    destruct (bytes_eqb (firstn 8 b) PAR1_ID) eqn:E1; cbn [negb] in H; [|discriminate H].
    destruct (le_decode (firstn 4 (skipn 8 b)) =? PAR1_VERSION) eqn:E2; cbn [negb] in H; [|discriminate H].
    destruct (le_decode (firstn 8 (skipn 64 b)) =? 0x60); cbn [negb] in H; [|discriminate H].
    destruct (bytes_eqb (md5 (skipn 32 b)) (firstn 16 (skipn 16 b))) eqn:E3; cbn [negb] in H; [|discriminate H].
    cbv zeta in H.
    lazymatch type of H with (if ?c then _ else _) = _ => destruct c end; [discriminate H|].
    lazymatch type of H with obind ?x _ = _ => destruct x as [er|x0|q0] end; cbn [obind] in H; try discriminate H.
    apply bytes_eqb_eq in E1, E3. apply N.eqb_eq in E2.
    set (a := firstn 16 (skipn 32 b)) in *. assert (Ea : a = firstn 16 (skipn 32 b)) by reflexivity. clearbody a.
    set (n := le_decode (firstn 8 (skipn 48 b))) in *. assert (En : n = le_decode (firstn 8 (skipn 48 b))) by reflexivity. clearbody n.
    injection H as <-. cbn [v_sethash_stored v_number]. repeat split; assumption.
  Qed.

  Lemma load_vols_exact ix sh : forall n i size acc st slots size' st', io_sched st = [] ->
    load_vols md5 ix sh i n size acc st = (Ok (slots, size'), st') ->
    slots = acc ++ map (vslot (io_fs st) ix sh) (seq (S i) n).
  Proof.
    induction n as [|n IH]; intros i size acc st slots size' st' Hs H; cbn [load_vols] in H.
    - injection H as <- _ _. cbn [seq map]. rewrite app_nil_r. reflexivity.
    - destruct (io_read_nosched (volume_path ix (N.of_nat (S i))) st Hs) as (st1 & ER & Hs1 & Hf1).
      rewrite ER in H. unfold read_res in H. cbn [seq map].
      assert (Step : forall size1 o,
                load_vols md5 ix sh (S i) n size1 (acc ++ [o]) st1 = (Ok (slots, size'), st') ->
                vslot (io_fs st) ix sh (S i) = o ->
                slots = acc ++ vslot (io_fs st) ix sh (S i) :: map (vslot (io_fs st) ix sh) (seq (S (S i)) n)).
      { intros size1 o H1 Ho. pose proof (IH _ _ _ _ _ _ _ Hs1 H1) as A. rewrite Hf1 in A.
        rewrite A, Ho, <- app_assoc. reflexivity. }
      destruct (fs_lookup (io_fs st) (volume_path ix (N.of_nat (S i)))) as [b|] eqn:EL.
      + destruct (read_volume md5 b) as [v|x|q] eqn:EV; [| |discriminate H].
        * destruct (bytes_eqb (v_sethash_stored v) sh) eqn:E1; cbn [negb] in H.
          2:{ apply (Step _ _ H). unfold vslot. rewrite EL, EV, E1. reflexivity. }
          destruct (v_number v =? N.of_nat (S i)) eqn:E2; cbn [negb] in H.
          2:{ apply (Step _ _ H). unfold vslot. rewrite EL, EV, E1, E2. reflexivity. }
          destruct (Nat.eqb (length (v_data v)) 0); [discriminate H|].
          lazymatch type of H with (if ?c then _ else _) = _ => destruct c end; [discriminate H|].
          apply (Step _ _ H). unfold vslot. rewrite EL, EV, E1, E2. reflexivity.
        * apply (Step _ _ H). unfold vslot. rewrite EL, EV. reflexivity.
      + destruct (is_dir (io_fs st) (volume_path ix (N.of_nat (S i)))); [discriminate H|].
        apply (Step _ _ H). unfold vslot. rewrite EL. reflexivity.
  Qed.

  (* the volume numbers LoadParityData looks at: 1 .. maxvol.  Only the entries SAVED in the volume set are shards and
     count against the limit of 256 *)
  Definition maxvol (s : p1state) : nat := N.to_nat (N.min (256 - N.of_nat (length (s_saved s))) 99).

  (* B1, the whole table: position k of s_parity is the slot of volume k+1; the table ends at the last usable
     volume, so nothing beyond it is usable; every volume counted among 1..maxvol is a file that parses, carries the
     index's stored set hash and the number of its file name (a file that parses but carries another set hash or
     number is NOT counted: vslot is None there) *)
  Theorem B1_volumes_exact : forall ix fs s st1,
    p1_load md5 ix (io_init fs []) = (Ok s, st1) ->
    let sh := v_sethash_stored (s_vol s) in
    s_parity s = map (vslot fs ix sh) (seq 1 (length (s_parity s))) /\
    (length (s_parity s) <= maxvol s)%nat /\
    (forall k, (length (s_parity s) < k <= maxvol s)%nat -> vslot fs ix sh k = None) /\
    (forall k d, vslot fs ix sh k = Some d ->
       exists b v, fs_lookup fs (volume_path ix (N.of_nat k)) = Some b /\ read_volume md5 b = Ok v /\
         v_sethash_stored v = sh /\ v_number v = N.of_nat k /\ v_data v = d) /\
    fc_pusable (file_counts s) =
      length (filter (fun k => match vslot fs ix sh k with Some _ => true | None => false end) (seq 1 (maxvol s))).
  Proof.
    intros ix fs s st1 HL.
    destruct (p1_load_inv md5 _ _ _ _ HL) as (b & sa & v & ds & sb & slots & size & _ & ER & EV & _ & ELD & _ & _ & ELV & ->).
    unfold maxvol. cbn [s_vol s_parity s_saved file_counts fc_pusable]. unfold nsaved in ELV.
    pose proof (io_read_pres ix (io_init fs [])) as P. rewrite ER in P. cbn [snd] in P.
    destruct P as (Pf & Ps & _). cbn [io_init io_fs io_sched] in Pf, Ps.
    pose proof (load_data_pres md5 ix (filter saved (v_entries v)) sa) as P2. rewrite ELD in P2. cbn [snd] in P2.
    destruct P2 as (Pf2 & Ps2 & _).
    assert (Hsb : io_sched sb = []) by congruence. assert (Hfb : io_fs sb = fs) by congruence.
    pose proof (load_vols_exact ix _ _ _ _ _ _ _ _ _ Hsb ELV) as A. cbn [app] in A. rewrite Hfb in A.
    set (sh := v_sethash_stored v) in *.
    set (mv := N.to_nat (N.min (256 - N.of_nat (length (filter saved (v_entries v)))) 99)) in *.
    set (m := S (last_some_index slots 0 0)).
    assert (Hfl : firstn m slots = map (vslot fs ix sh) (seq 1 (Nat.min m mv))) by (rewrite A; apply firstn_map_seq).
    assert (Hlen : length (firstn m slots) = Nat.min m mv) by (rewrite Hfl, map_length, seq_length; reflexivity).
    split; [rewrite Hlen; exact Hfl|]. split; [rewrite Hlen; lia|]. split; [|split].
    - intros k Hk. rewrite Hlen in Hk.
      destruct (vslot fs ix sh k) as [x|] eqn:EK; [|reflexivity]. exfalso.
      assert (Hn : nth_error slots (k - 1) = Some (Some x)).
      { rewrite A. rewrite (map_nth_error (vslot fs ix sh) (k - 1) (seq 1 mv) (d := k)); [rewrite EK; reflexivity|].
        rewrite (nth_error_nth' _ 0%nat) by (rewrite seq_length; lia). rewrite seq_nth by lia. f_equal. lia. }
      pose proof (proj2 (last_some_index_spec slots 0 0) _ _ Hn) as Hle. unfold m in Hk. lia.
    - intros k d. apply vslot_some.
    - unfold m. rewrite count_present_firstn_last, A. apply count_present_map.
  Qed.

  (* B1, per volume counted usable *)
  Theorem B1_volumes_genuine : forall ix fs s st1 k d,
    p1_load md5 ix (io_init fs []) = (Ok s, st1) ->
    nth_error (s_parity s) k = Some (Some d) ->
    exists b v, fs_lookup fs (volume_path ix (N.of_nat (S k))) = Some b /\ read_volume md5 b = Ok v /\
      v_sethash_stored v = v_sethash_stored (s_vol s) /\ v_number v = N.of_nat (S k) /\
      v_data v = d /\ length d = s_size s /\ s_size s <> 0%nat.
  Proof.
    intros ix fs s st1 k d HL Hk.
    destruct (B1_volumes_exact ix fs s st1 HL) as (E & Hle & _ & Hchk & _).
    destruct (p1_load_parity md5 _ _ _ _ HL) as [Hinv _].
    assert (Hlt : (k < length (s_parity s))%nat) by (apply nth_error_Some; rewrite Hk; discriminate).
    assert (Hv : vslot fs ix (v_sethash_stored (s_vol s)) (S k) = Some d).
    { rewrite E in Hk. apply nth_error_map_inv in Hk. destruct Hk as (x & Hx & Hv).
      rewrite (nth_error_nth' _ 0%nat) in Hx by (rewrite seq_length; exact Hlt). rewrite seq_nth in Hx by exact Hlt.
      injection Hx as <-. exact Hv. }
    destruct (Hchk (S k) d Hv) as (b & v & EL & EV & H1 & H2 & Hd).
    exists b, v. split; [exact EL|]. split; [exact EV|]. split; [exact H1|]. split; [exact H2|]. split; [exact Hd|].
    apply Hinv. apply nth_error_In with k. exact Hk.
  Qed.

  (* ... and per volume counted unusable (None inside the table): no file, or a file that is not a volume of the set -
     read_volume rejects it, or it parses and carries another set hash than the index or another number than its file
     name (Par1Facts.not_member) *)
  Theorem B1_volume_unusable : forall ix fs s st1 k,
    p1_load md5 ix (io_init fs []) = (Ok s, st1) ->
    nth_error (s_parity s) k = Some None ->
    fs_lookup fs (volume_path ix (N.of_nat (S k))) = None \/
    exists b, fs_lookup fs (volume_path ix (N.of_nat (S k))) = Some b /\
      not_member md5 (v_sethash_stored (s_vol s)) (N.of_nat (S k)) b.
  Proof.
    intros ix fs s st1 k HL Hk.
    destruct (B1_volumes_exact ix fs s st1 HL) as (E & _).
    assert (Hlt : (k < length (s_parity s))%nat) by (apply nth_error_Some; rewrite Hk; discriminate).
    assert (Hv : vslot fs ix (v_sethash_stored (s_vol s)) (S k) = None).
    { rewrite E in Hk. apply nth_error_map_inv in Hk. destruct Hk as (x & Hx & Hv).
      rewrite (nth_error_nth' _ 0%nat) in Hx by (rewrite seq_length; exact Hlt). rewrite seq_nth in Hx by exact Hlt.
      injection Hx as <-. exact Hv. }
    exact (vslot_none fs ix _ (S k) Hv).
  Qed.

  (** * the numbers Verify returns *)
  Theorem par1_verify_counts_truthful : forall ix alldata fs c ok st,
    par1_verify md5 ix alldata (io_init fs []) = (Ok (c, ok), st) ->
    exists s, p1_load md5 ix (io_init fs []) = (Ok s, st) /\ c = file_counts s /\
      fc_usable c = length (filter (file_usable fs ix) (s_saved s)) /\
      fc_unusable c = length (filter (fun e => negb (file_usable fs ix e)) (s_saved s)) /\
      fc_pusable c = length (filter (fun k => match vslot fs ix (v_sethash_stored (s_vol s)) k with Some _ => true | None => false end)
                                    (seq 1 (maxvol s))).
  Proof.
    intros ix alldata fs c ok st H. unfold par1_verify in H.
    destruct (p1_load md5 ix (io_init fs [])) as [[s|x|q] st1] eqn:EL; try discriminate H.
    cbv zeta in H.
    assert (E : c = file_counts s /\ st = st1).
    { lazymatch type of H with (if ?cnd then _ else _) = _ => destruct cnd end.
      - destruct (build_shards s) as [sh|x|q]; try discriminate H.
        lazymatch type of H with match ?r with _ => _ end = _ => destruct r as [b|x|q] end; try discriminate H.
        injection H as <- _ <-. split; reflexivity.
      - injection H as <- _ <-. split; reflexivity. }
    destruct E as [-> ->]. exists s. split; [reflexivity|]. split; [reflexivity|].
    destruct (F1_counts ix fs s st1 EL) as [A B]. destruct (B1_volumes_exact ix fs s st1 EL) as (_ & _ & _ & _ & C).
    split; [exact A|]. split; [exact B|exact C].
  Qed.

End TruthfulPar1.

Print Assumptions F1_files_exact.
Print Assumptions F1_file_usable.
Print Assumptions F1_file_unusable.
Print Assumptions F1_file_usable_conv.
Print Assumptions F1_counts.
Print Assumptions B1_volumes_exact.
Print Assumptions B1_volumes_genuine.
Print Assumptions B1_volume_unusable.
Print Assumptions vslot_spec.
Print Assumptions par1_verify_counts_truthful.

(** * PAR1, non-vacuity: the archive of Proofs/Par1Clean.v (files "x", "y", two volumes) with "x" deleted and the
      volume "a.p01" overwritten with garbage; "y" and "a.p02" are untouched *)
Module TruthfulExample1.
  Definition fsd : list (list N * bytes) := fs_set ex_fs (volume_path ex_ix 1) [1; 2; 3].
  Definition s0 : p1state :=
    {| s_index := []; s_vol := {| v_sethash_stored := []; v_sethash := []; v_number := 0; v_count := 0; v_entries := []; v_data := [] |};
       s_saved := []; s_data := []; s_size := 0; s_parity := [] |}.
  Definition loaded : p1state := match fst (p1_load toy_hash ex_ix (io_init fsd [])) with Ok s => s | _ => s0 end.

  Example ex1_loaded :
    fst (p1_load toy_hash ex_ix (io_init fsd [])) = Ok loaded /\
    map e_name (s_saved loaded) = [[120]; [121]] /\
    s_data loaded = [None; Some [4; 5; 6; 7]] /\
    map (fun o : option bytes => match o with Some _ => true | None => false end) (s_parity loaded) = [false; true] /\
    s_size loaded = 4%nat /\
    file_counts loaded = {| fc_usable := 1; fc_unusable := 1; fc_pusable := 1; fc_punusable := 1 |}.
  Proof. vm_compute. repeat split; reflexivity. Qed.

  Lemma loaded_eq : p1_load toy_hash ex_ix (io_init fsd []) = (Ok loaded, snd (p1_load toy_hash ex_ix (io_init fsd []))).
  Proof. destruct ex1_loaded as (HL & _). rewrite <- HL. apply surjective_pairing. Qed.

  (* F1 at the file reported usable and at the one reported unusable: by the theorems *)
  Example ex1_F1_usable :
    exists e, nth_error (s_saved loaded) 1 = Some e /\
      fs_lookup fsd (join2 (dir ex_ix) (e_name e)) = Some [4; 5; 6; 7] /\
      toy_hash [4; 5; 6; 7] = e_hash e /\ hash16k toy_hash [4; 5; 6; 7] = e_h16 e.
  Proof.
    apply (F1_file_usable toy_hash ex_ix fsd loaded _ 1 [4; 5; 6; 7] loaded_eq). vm_compute. reflexivity.
  Qed.

  Example ex1_F1_unusable :
    exists e, nth_error (s_saved loaded) 0 = Some e /\
      (fs_lookup fsd (join2 (dir ex_ix) (e_name e)) = None \/
       exists d, fs_lookup fsd (join2 (dir ex_ix) (e_name e)) = Some d /\
                 (toy_hash d <> e_hash e \/ hash16k toy_hash d <> e_h16 e)).
  Proof.
    apply (F1_file_unusable toy_hash ex_ix fsd loaded _ 0 loaded_eq). vm_compute. reflexivity.
  Qed.

  Example ex1_F1_counts :
    fc_usable (file_counts loaded) = length (filter (file_usable toy_hash fsd ex_ix) (s_saved loaded)) /\
    fc_unusable (file_counts loaded) = length (filter (fun e => negb (file_usable toy_hash fsd ex_ix e)) (s_saved loaded)) /\
    length (filter (file_usable toy_hash fsd ex_ix) (s_saved loaded)) = 1%nat.
  Proof.
    destruct (F1_counts toy_hash ex_ix fsd loaded _ loaded_eq) as [A B].
    split; [exact A|]. split; [exact B|]. vm_compute. reflexivity.
  Qed.

  (* B1 at the volume counted usable (position 1 = volume 2) and at the unusable one (position 0 = volume 1) *)
  Definition vdata2 : bytes := match nth 1 (s_parity loaded) None with Some d => d | None => [] end.
  Example ex1_B1_usable :
    exists b v, fs_lookup fsd (volume_path ex_ix 2) = Some b /\ read_volume toy_hash b = Ok v /\
      v_sethash_stored v = v_sethash_stored (s_vol loaded) /\ v_number v = 2 /\
      v_data v = vdata2 /\ length vdata2 = s_size loaded /\ s_size loaded <> 0%nat.
  Proof.
    apply (B1_volumes_genuine toy_hash ex_ix fsd loaded _ 1 vdata2 loaded_eq). vm_compute. reflexivity.
  Qed.

  Example ex1_B1_unusable :
    fs_lookup fsd (volume_path ex_ix 1) = None \/
    exists b, fs_lookup fsd (volume_path ex_ix 1) = Some b /\ not_member toy_hash (v_sethash_stored (s_vol loaded)) 1 b.
  Proof.
    apply (B1_volume_unusable toy_hash ex_ix fsd loaded _ 0 loaded_eq). vm_compute. reflexivity.
  Qed.

  Example ex1_B1_exact :
    s_parity loaded = map (vslot toy_hash fsd ex_ix (v_sethash_stored (s_vol loaded))) (seq 1 2) /\
    fc_pusable (file_counts loaded) =
      length (filter (fun k => match vslot toy_hash fsd ex_ix (v_sethash_stored (s_vol loaded)) k with Some _ => true | None => false end)
                     (seq 1 (maxvol loaded))) /\
    maxvol loaded = 99%nat.
  Proof.
    destruct (B1_volumes_exact toy_hash ex_ix fsd loaded _ loaded_eq) as (E & _ & _ & _ & C).
    split; [|split; [exact C|vm_compute; reflexivity]].
    assert (L : length (s_parity loaded) = 2%nat) by (vm_compute; reflexivity).
    rewrite L in E. exact E.
  Qed.
End TruthfulExample1.

(** * F1: the recorded LENGTH is not checked.  An index whose only entry records the hashes of "x" = [1;2;3] but the
      length 99: the file is reported usable *)
Module TruthfulLength1.
  Definition entry : p1entry :=
    {| e_status := 1; e_len := 99; e_hash := toy_hash [1; 2; 3]; e_h16 := hash16k toy_hash [1; 2; 3]; e_name := [120] |}.
  Definition index : bytes := write_volume toy_hash (toy_hash (e_hash entry)) 0 [entry] [].
  Definition fsl : list (list N * bytes) := [(ex_ix, index); ([120], [1; 2; 3])].
  Definition loaded : p1state :=
    match fst (p1_load toy_hash ex_ix (io_init fsl [])) with Ok s => s | _ => TruthfulExample1.s0 end.

  Example F1_length_not_checked :
    fst (p1_load toy_hash ex_ix (io_init fsl [])) = Ok loaded /\
    s_saved loaded = [entry] /\ s_data loaded = [Some [1; 2; 3]] /\
    N.of_nat (length [1; 2; 3]) <> e_len entry /\
    fc_usable (file_counts loaded) = 1%nat /\ fc_unusable (file_counts loaded) = 0%nat.
  Proof. vm_compute. repeat split; try reflexivity. discriminate. Qed.
End TruthfulLength1.

Print Assumptions TruthfulExample1.ex1_loaded.
Print Assumptions TruthfulExample1.ex1_F1_usable.
Print Assumptions TruthfulExample1.ex1_F1_unusable.
Print Assumptions TruthfulExample1.ex1_F1_counts.
Print Assumptions TruthfulExample1.ex1_B1_usable.
Print Assumptions TruthfulExample1.ex1_B1_unusable.
Print Assumptions TruthfulExample1.ex1_B1_exact.
Print Assumptions TruthfulLength1.F1_length_not_checked.

(** * the Verify-level statements on the two damaged example states *)
Module TruthfulVerifyExamples.
  Lemma par2_verify_of_load md5 ix st ds st1 :
    load_all md5 ix st = (Ok ds, st1) -> par2_verify md5 ix st = (Ok (shard_counts ds), st1).
  Proof. intros H. unfold par2_verify. rewrite H. reflexivity. Qed.

  Lemma par1_verify_of_load md5 ix st s st1 :
    p1_load md5 ix st = (Ok s, st1) -> par1_verify md5 ix false st = (Ok (file_counts s, false), st1).
  Proof. intros H. unfold par1_verify. rewrite H. reflexivity. Qed.

  Example ex2_verify :
    exists ds, load_all toy_md5 TruthfulExample2.ix (io_init TruthfulExample2.fsd []) = (Ok ds, snd (load_all toy_md5 TruthfulExample2.ix (io_init TruthfulExample2.fsd []))) /\
      shard_counts TruthfulExample2.loaded = shard_counts ds /\
      c_pusable (shard_counts TruthfulExample2.loaded) = length (loaded_exps toy_md5 TruthfulExample2.ix TruthfulExample2.fsd (d_setid (ds_dec ds))) /\
      (c_pusable (shard_counts TruthfulExample2.loaded) + c_punusable (shard_counts TruthfulExample2.loaded))%nat = length (ds_parity ds) /\
      (c_usable (shard_counts TruthfulExample2.loaded) + c_unusable (shard_counts TruthfulExample2.loaded))%nat
        = fold_right (fun info acc => (length (di_pairs info) + acc)%nat) 0%nat (d_rec (ds_dec ds)) /\
      map flags3 (ds_fis ds) = map (file_state toy_md5 TruthfulExample2.fsd TruthfulExample2.ix) (d_rec (ds_dec ds)).
  Proof.
    apply (par2_verify_counts_truthful toy_md5 TruthfulExample2.ix TruthfulExample2.fsd).
    exact (par2_verify_of_load _ _ _ _ _ TruthfulExample2.loaded_eq).
  Qed.

  Example ex1_verify :
    exists s, p1_load toy_hash ex_ix (io_init TruthfulExample1.fsd []) = (Ok s, snd (p1_load toy_hash ex_ix (io_init TruthfulExample1.fsd []))) /\
      file_counts TruthfulExample1.loaded = file_counts s /\
      fc_usable (file_counts TruthfulExample1.loaded) = length (filter (file_usable toy_hash TruthfulExample1.fsd ex_ix) (s_saved s)) /\
      fc_unusable (file_counts TruthfulExample1.loaded) = length (filter (fun e => negb (file_usable toy_hash TruthfulExample1.fsd ex_ix e)) (s_saved s)) /\
      fc_pusable (file_counts TruthfulExample1.loaded) =
        length (filter (fun k => match vslot toy_hash TruthfulExample1.fsd ex_ix (v_sethash_stored (s_vol s)) k with Some _ => true | None => false end)
                       (seq 1 (maxvol s))).
  Proof.
    apply (par1_verify_counts_truthful toy_hash ex_ix false TruthfulExample1.fsd _ false).
    exact (par1_verify_of_load _ _ _ _ _ TruthfulExample1.loaded_eq).
  Qed.
End TruthfulVerifyExamples.

Print Assumptions TruthfulVerifyExamples.ex2_verify.
Print Assumptions TruthfulVerifyExamples.ex1_verify.
