(* The PAR2 convergence step (T3 of Proofs/Par2Converge.v) with a SATISFIABLE self-consistency premise.

   repair_ok_then_clean_and_idle (Proofs/Par2Converge.v) asks, for ALL data : list N with a file's recorded
   hashes and length, that data is byte-valued.  A digest that cannot tell x from x + 256 (every digest of
   byte strings extended to lists of N, e.g. toy_md5) refutes that premise: old_premise_refuted below.

   Here:
     W1  repair_shards_wf, repair_core_wf   what the reconstruction returns is byte-valued: the credited slices
                                            are cut from byte-valued protected files, the rebuilt ones are le_bytes of
                                            GF(2^16) linear combinations (fmul a b < 65536 for ALL a b, so the
                                            contents of the recovery files need no premise);
     W2  repair_writes_wf                   repair_writes (Par2Facts) with `wf_bytes (snd w)` for every write;
         repair_leaves_protected_wf         what a protected path holds after Repair is byte-valued;
     T3' repair_ok_then_clean_and_idle2     the convergence step, self-consistency restricted to byte-valued data;
         cli_repair2_zero_then_verify_zero2 the command-level corollary;
     EX  Converge2Example                   all premises instantiated on the EEExample archive (file "b" and one
                                            recovery file deleted, toy_md5) and both theorems applied. *)
From Coq Require Import Lia.
From Gopar Require Import Model.Base Model.GF16 Model.Matrix Model.RS16 Model.CRC Model.GoPath Model.FS Model.Par2 Model.CLI
     Proofs.GF16Facts Proofs.GoPathFacts Proofs.Par2Facts Proofs.Par2Verify Proofs.Par2Faults Proofs.Par2Clean
     Proofs.Par2Converge Proofs.CLIFacts Proofs.CLICompose Proofs.Par2EndToEnd.
Open Scope nat_scope.
Set Default Timeout 120.

(** * W1. the reconstruction returns byte strings *)

Lemma xorl_wf16 : forall a b, wf_words a -> wf_words b -> wf_words (xorl a b).
Proof.
  induction a as [|x a IH]; intros [|y b] Ha Hb; cbn [xorl]; try constructor.
  - inversion Ha as [|? ? Hx _]; inversion Hb as [|? ? Hy _]; subst. apply lxor_lt16; assumption.
  - inversion Ha; inversion Hb; subst. apply IH; assumption.
Qed.

Lemma zeros_wf16 n : wf_words (zeros n).
Proof. unfold zeros. induction n as [|n IH]; cbn [repeat]; constructor; [reflexivity|exact IH]. Qed.

(* a GF(2^16) linear combination is made of 16-bit words WHATEVER the coefficients and the inputs are *)
Lemma lincomb_wf16 cols : forall r X, wf_words (lincomb fmul cols r X).
Proof.
  induction r as [|a r IH]; intros [|x X]; cbn [lincomb]; try apply zeros_wf16.
  apply xorl_wf16; [|apply IH].
  unfold vscale. apply Forall_forall. intros v Hv. apply in_map_iff in Hv. destruct Hv as (u & <- & _).
  apply fmul_lt.
Qed.

Lemma apply_matrix_wf16 len m ins : Forall wf_words (apply_matrix len m ins).
Proof.
  unfold apply_matrix, mmul16, mmul. apply Forall_forall. intros v Hv.
  apply in_map_iff in Hv. destruct Hv as (r & <- & _). apply lincomb_wf16.
Qed.

Lemma fill_Forall {A} (P : A -> Prop) : forall (data : list (option A)) rec,
  Forall P (somes data) -> Forall P rec -> Forall P (fill data rec).
Proof.
  induction data as [|[x|] data IH]; intros rec Hs Hr; cbn [fill somes] in *.
  - constructor.
  - inversion Hs; subst. constructor; [assumption|apply IH; assumption].
  - destruct rec as [|y rec]; [constructor|]. inversion Hr; subst. constructor; [assumption|apply IH; assumption].
Qed.

Lemma reconstruct_wf16 c data parity rw :
  Forall wf_words (somes data) -> reconstruct c data parity = Ok rw -> Forall wf_words rw.
Proof.
  intros Hd H. unfold reconstruct in H.
  destruct (Nat.eqb (count_none data) 0); [injection H as <-; exact Hd|].
  lazymatch type of H with (if ?c then _ else _) = _ => destruct c end; [discriminate H|].
  lazymatch type of H with obind ?ee _ = _ => destruct ee as [R|e|q] end; cbn [obind] in H; try discriminate H.
  injection H as <-. apply fill_Forall; [exact Hd|apply apply_matrix_wf16].
Qed.

Lemma le_bytes_wf : forall w, wf_words w -> wf_bytes (le_bytes w).
Proof.
  induction w as [|x w IH]; intros H; cbn [le_bytes]; [constructor|].
  inversion H as [|? ? Hx Hw]; subst. unfold wf_word in Hx.
  constructor; [|constructor; [|apply IH; exact Hw]]; unfold wf_byte.
  - apply N.mod_lt. discriminate.
  - apply N.div_lt_upper_bound; [discriminate|]. exact Hx.
Qed.

Lemma le_words_wf_any : forall n b, length b <= n -> wf_bytes b -> wf_words (le_words b).
Proof.
  induction n as [|n IH]; intros b Hl Hb.
  - destruct b; [constructor|cbn [length] in Hl; lia].
  - destruct b as [|lo [|hi r]]; cbn [le_words]; try constructor.
    + inversion Hb as [|? ? Hlo Hb1]; subst. inversion Hb1 as [|? ? Hhi _]; subst.
      unfold wf_word, wf_byte in *. lia.
    + apply IH; [cbn [length] in Hl; lia|]. inversion Hb as [|? ? _ Hb1]; subst. inversion Hb1; subst. assumption.
Qed.

Definition opt_wf (o : option bytes) : Prop := match o with Some b => wf_bytes b | None => True end.

Lemma somes_Forall {A} (P : A -> Prop) : forall l : list (option A),
  Forall (fun o => match o with Some x => P x | None => True end) l -> Forall P (somes l).
Proof.
  induction l as [|[x|] l IH]; intros H; cbn [somes]; [constructor| |]; inversion H; subst.
  - constructor; [assumption|apply IH; assumption].
  - apply IH; assumption.
Qed.

Lemma somes_words_wf : forall shards : list (option bytes), Forall opt_wf shards ->
  Forall wf_words (somes (map (fun o => match o with Some b => Some (le_words b) | None => None end) shards)).
Proof.
  induction shards as [|[b|] l IH]; intros H; cbn [map somes]; [constructor| |]; inversion H as [|? ? Hb Hl]; subst.
  - constructor; [apply (le_words_wf_any (length b)); [lia|exact Hb]|apply IH; exact Hl].
  - apply IH; exact Hl.
Qed.

(* RepairShards: the found slices as they are, the rebuilt ones rendered from 16-bit words *)
Lemma repair_shards_wf shards parity dbl data :
  Forall opt_wf shards -> repair_shards shards parity dbl = Ok data -> Forall wf_bytes data.
Proof.
  intros Hs H. unfold repair_shards in H. destruct parity as [|p0 parity].
  - destruct (Nat.eqb (count_nones shards) 0); [|discriminate H]. injection H as <-.
    apply (somes_Forall wf_bytes). exact Hs.
  - cbv zeta in H.
    lazymatch type of H with (if ?c then _ else _) = _ => destruct c end; [discriminate H|].
    lazymatch type of H with (if ?c then _ else _) = _ => destruct c end; [discriminate H|].
    lazymatch type of H with (if ?c then _ else _) = _ => destruct c end; [discriminate H|].
    lazymatch type of H with obind ?ee _ = _ => destruct ee as [rw|e|q] eqn:ER end; cbn [obind] in H; try discriminate H.
    lazymatch type of H with (if ?c then _ else _) = _ => destruct c end; [discriminate H|].
    injection H as <-.
    apply reconstruct_wf16 in ER; [|apply somes_words_wf; exact Hs].
    apply Forall_forall. intros v Hv. apply in_map_iff in Hv. destruct Hv as (w & <- & Hw).
    apply le_bytes_wf. rewrite Forall_forall in ER. exact (ER w Hw).
Qed.

Section Par2Converge2.
  Variable md5 : bytes -> bytes.

  (* the byte-value premise: what the protected paths hold BEFORE the run is made of bytes *)
  Definition protected_bytes (ix : list N) (fs : list (list N * bytes)) (ds : dstate) : Prop :=
    forall info dat, In info (d_rec (ds_dec ds)) -> fs_lookup fs (file_path ix (di_name info)) = Some dat -> wf_bytes dat.

  Lemma repair_core_wf ix fs ds st1 dbl :
    load_all md5 ix (io_init fs []) = (Ok ds, st1) ->
    protected_bytes ix fs ds ->
    NoDup (map di_id (d_rec (ds_dec ds))) ->
    forall data, repair_core ds dbl = Ok data -> Forall wf_bytes data.
  Proof.
    intros HL Hwf Hndi data H. unfold repair_core in H. apply repair_shards_wf in H; [exact H|].
    apply Forall_forall. intros o Ho. apply in_map_iff in Ho. destruct Ho as ([s|] & <- & Hin); [|exact I].
    cbn [opt_wf]. destruct (In_nth _ _ None Hin) as (K & _ & HK).
    destruct (load_all_credited_protected md5 ix fs ds st1 HL Hwf Hndi K s HK) as (_ & Hw & _). exact Hw.
  Qed.

  (** * W2. every write of Repair is byte-valued *)

  Lemma write_repaired_spec_wf ix : forall todo done st r rp st',
    io_sched st = [] ->
    Forall (fun t : bool * (dinfo * list bytes) => Forall wf_bytes (snd (snd t))) todo ->
    write_repaired md5 ix todo done st = ((r, rp), st') ->
    exists ws, io_fs st' = apply_writes ws (io_fs st) /\ rp = done ++ map fst ws /\
      Forall (fun w : list N * bytes => wf_bytes (snd w)) ws.
  Proof.
    induction todo as [|[b [info shards]] todo IH]; intros done st r rp st' Hs Hall H.
    - cbn [write_repaired] in H. injection H as _ <- <-. exists []. cbn [apply_writes fold_left map].
      split; [reflexivity|split; [symmetry; apply app_nil_r|constructor]].
    - inversion Hall as [|? ? Hsh Hall']; subst. cbn [snd] in Hsh.
      cbn [write_repaired] in H. destruct b.
      { eapply IH; eassumption. }
      set (all := concat shards) in *.
      destruct (N.ltb_spec (N.of_nat (length all)) (di_len info)) as [Hlt|Hge].
      { injection H as _ <- <-. exists []. cbn [apply_writes fold_left map].
        split; [reflexivity|split; [symmetry; apply app_nil_r|constructor]]. }
      set (data := firstn (N.to_nat (di_len info)) all) in *.
      destruct (bytes_eqb (hash16k md5 data) (di_h16 info)) eqn:E1; cbn [negb] in H.
      2:{ injection H as _ <- <-. exists []. cbn [apply_writes fold_left map].
          split; [reflexivity|split; [symmetry; apply app_nil_r|constructor]]. }
      destruct (bytes_eqb (md5 data) (di_hash info)) eqn:E2; cbn [negb] in H.
      2:{ injection H as _ <- <-. exists []. cbn [apply_writes fold_left map].
          split; [reflexivity|split; [symmetry; apply app_nil_r|constructor]]. }
      rewrite (io_write_nosched _ _ st Hs) in H.
      apply IH in H; [|exact Hs|exact Hall'].
      destruct H as (ws & Hfs & Hrp & Hws).
      exists ((file_path ix (di_name info), data) :: ws).
      split; [|split].
      + rewrite Hfs. reflexivity.
      + rewrite Hrp, <- app_assoc. reflexivity.
      + constructor; [|exact Hws]. cbn [snd]. unfold data, all.
        apply (Forall_firstn_skipn wf_byte). apply Forall_concat. exact Hsh.
  Qed.

  (* repair_writes (Proofs/Par2Facts.v) with the byte-value clause: on an archive whose protected paths hold
     byte strings, EVERY write of Repair - whatever its result - is a byte string *)
  Theorem repair_writes_wf : forall ix dbl fs r rp st' ds st1,
    par2_repair md5 ix dbl (io_init fs []) = ((r, rp), st') ->
    load_all md5 ix (io_init fs []) = (Ok ds, st1) ->
    protected_bytes ix fs ds ->
    NoDup (map di_id (d_rec (ds_dec ds))) ->
    exists ws, io_fs st' = apply_writes ws fs /\ rp = map fst ws /\
      Forall (fun w : list N * bytes => wf_bytes (snd w)) ws.
  Proof.
    intros ix dbl fs r rp st' ds st1 HR HL Hwf Hndi.
    pose proof (load_all_pres md5 ix (io_init fs [])) as Pr. rewrite HL in Pr. cbn [snd] in Pr.
    destruct Pr as (Pf & Ps & _). cbn [io_init io_fs io_sched] in Pf, Ps.
    unfold par2_repair in HR. rewrite HL in HR.
    destruct (ds_fis ds) as [|fi0 fisr] eqn:Efis.
    { injection HR as _ <- <-. exists []. split; [exact Pf|split; [reflexivity|constructor]]. }
    rewrite <- Efis in HR. clear Efis fi0 fisr.
    destruct (repair_core ds dbl) as [data|e|q] eqn:EC;
      try (injection HR as _ <- <-; exists []; split; [exact Pf|split; [reflexivity|constructor]]).
    apply write_repaired_spec_wf in HR; [|exact Ps|].
    - destruct HR as (ws & Hfs & Hrp & Hws). exists ws. split; [rewrite Hfs, Pf; reflexivity|]. split; assumption.
    - apply Forall_forall. intros [b [info shards]] Hin. cbn [snd].
      apply in_combine_r in Hin. apply in_combine_r in Hin.
      pose proof (split_by_Forall wf_bytes (map (fun fi => length (fi_shards fi)) (ds_fis ds)) data
                    (repair_core_wf ix fs ds st1 dbl HL Hwf Hndi data EC)) as HF.
      rewrite Forall_forall in HF. exact (HF _ Hin).
  Qed.

  (* what a protected path holds AFTER Repair is byte-valued *)
  Lemma repair_leaves_protected_wf ix dbl fs r rp st' ds st1 :
    par2_repair md5 ix dbl (io_init fs []) = ((r, rp), st') ->
    load_all md5 ix (io_init fs []) = (Ok ds, st1) ->
    protected_bytes ix fs ds ->
    NoDup (map di_id (d_rec (ds_dec ds))) ->
    forall info dat, In info (d_rec (ds_dec ds)) ->
      fs_lookup (io_fs st') (file_path ix (di_name info)) = Some dat -> wf_bytes dat.
  Proof.
    intros HR HL Hwf Hndi info dat Hin Hlk.
    destruct (repair_contents md5 ix dbl fs r rp st' ds st1 HR HL (repair_core_wf ix fs ds st1 dbl HL Hwf Hndi) _ _ Hlk)
      as [Hold|Hw]; [|exact Hw].
    exact (Hwf info dat Hin Hold).
  Qed.

  (** * T3'. CONVERGENCE STEP, satisfiable premises *)
  Theorem repair_ok_then_clean_and_idle2 : forall ix dbl fs rp st' ds st1,
    par2_repair md5 ix dbl (io_init fs []) = ((Ok tt, rp), st') ->
    load_all md5 ix (io_init fs []) = (Ok ds, st1) ->
    (* the protected paths are pairwise distinct, and so are the file ids *)
    NoDup (map (fun info => file_path ix (di_name info)) (d_rec (ds_dec ds))) ->
    NoDup (map di_id (d_rec (ds_dec ds))) ->
    (* self-consistency of the archive: any BYTE STRING with a file's recorded hashes and length
       has that file's slice checksum list *)
    (forall info data, In info (d_rec (ds_dec ds)) -> wf_bytes data -> recorded md5 info data ->
         di_pairs info = pairs_of md5 (N.to_nat (d_slice (ds_dec ds))) data) ->
    (* what the protected paths hold before the repair is byte-valued *)
    (forall info dat, In info (d_rec (ds_dec ds)) ->
         fs_lookup fs (file_path ix (di_name info)) = Some dat -> wf_bytes dat) ->
    (* no protected path is the index file or matches the volume pattern <base>.*.par2 *)
    (forall info, In info (d_rec (ds_dec ds)) ->
         file_path ix (di_name info) <> ix /\
         vol_pattern (strip_ext ix) (file_path ix (di_name info)) = false) ->
    exists c st2, par2_verify md5 ix (io_init (io_fs st') []) = (Ok c, st2) /\ repair_needed c = false /\
      forall dbl2 r2 rp2 st3, par2_repair md5 ix dbl2 (io_init (io_fs st') []) = ((r2, rp2), st3) ->
        rp2 = [] /\ io_fs st3 = io_fs st'.
  Proof.
    intros ix dbl fs rp st' ds st1 HR HL Hndp Hndi Hself Hwf Hdisj.
    pose proof (repair_ok_all_recorded md5 _ _ _ _ _ _ _ HR HL Hndp) as T1.
    pose proof (repair_leaves_protected_wf ix dbl fs (Ok tt) rp st' ds st1 HR HL Hwf Hndi) as T1w.
    assert (W : exists ws : list (list N * bytes), io_fs st' = apply_writes ws fs /\
                Forall (fun w : list N * bytes => fst w <> ix /\ vol_pattern (strip_ext ix) (fst w) = false) ws).
    { destruct (repair_writes md5 _ _ _ _ _ _ HR) as [[Hfs _]|(ds0 & st0 & ws & HL0 & Hfs & _ & Hws)].
      - exists []. split; [exact Hfs|constructor].
      - rewrite HL in HL0. injection HL0 as <- <-.
        exists ws. split; [exact Hfs|]. revert Hws. apply Forall_impl.
        intros w0 (info & Hin & Hp & _). rewrite Hp. apply Hdisj. exact Hin. }
    destruct W as (ws & Hfs & Hws).
    destruct (load_all_after_protected_writes md5 ix fs ds st1 ws HL Hws) as (ds' & st1' & HL' & Edec & _ & _).
    { intros info Hin. destruct (T1 info Hin) as (data & Hlk & _). exists data. rewrite <- Hfs. exact Hlk. }
    rewrite <- Hfs in HL'.
    assert (RN : repair_needed (shard_counts ds') = false).
    { apply (intact_files_clean md5 ix (io_fs st') ds' st1' HL').
      - rewrite Edec. exact Hndi.
      - rewrite Edec. intros info Hin. destruct (T1 info Hin) as (data & Hlk & Hrec).
        pose proof (T1w info data Hin Hlk) as Hw.
        pose proof (Hself info data Hin Hw Hrec) as Hpairs.
        destruct Hrec as (Hm & H16 & Hlen).
        exists data. split; [exact Hlk|]. split; [exact Hw|]. split; [exact Hlen|]. split; [exact Hm|].
        split; [exact H16|exact Hpairs]. }
    exists (shard_counts ds'), st1'. split; [unfold par2_verify; rewrite HL'; reflexivity|].
    split; [exact RN|].
    intros dbl2 r2 rp2 st3 HR2.
    apply (repair_idle_when_all_ok md5 ix dbl2 (io_fs st') ds' st1' r2 rp2 st3 HL'); [|exact HR2].
    apply clean_counts_all_ok. exact RN.
  Qed.

  (** * the command level: after `par repair` exits 0, `par verify` exits 0 *)
  Theorem cli_repair2_zero_then_verify_zero2 : forall cwd args par dbl fs st',
    cli_run md5 cwd args (io_init fs []) = (0%N, st') -> cli_is_repair2 args par dbl ->
    forall ds st1, load_all md5 par (io_init fs []) = (Ok ds, st1) ->
    NoDup (map (fun info => file_path par (di_name info)) (d_rec (ds_dec ds))) ->
    NoDup (map di_id (d_rec (ds_dec ds))) ->
    (forall info data, In info (d_rec (ds_dec ds)) -> wf_bytes data -> recorded md5 info data ->
         di_pairs info = pairs_of md5 (N.to_nat (d_slice (ds_dec ds))) data) ->
    (forall info dat, In info (d_rec (ds_dec ds)) ->
         fs_lookup fs (file_path par (di_name info)) = Some dat -> wf_bytes dat) ->
    (forall info, In info (d_rec (ds_dec ds)) ->
         file_path par (di_name info) <> par /\ vol_pattern (strip_ext par) (file_path par (di_name info)) = false) ->
    forall cwd2 vargs, cli_is_verify2 vargs par ->
      fst (cli_run md5 cwd2 vargs (io_init (io_fs st') [])) = 0%N.
  Proof.
    intros cwd args par dbl fs st' H Hr ds st1 HL Hndp Hndi Hself Hwf Hdisj cwd2 vargs Hv.
    destruct (cli_repair2_zero_lib md5 _ _ _ _ _ _ H Hr) as [rp HR].
    destruct (repair_ok_then_clean_and_idle2 par dbl fs rp st' ds st1 HR HL Hndp Hndi Hself Hwf Hdisj)
      as (c & st2 & HV & Hc & _).
    rewrite (cli_verify2_codes md5 cwd2 _ _ _ _ _ Hv HV), Hc. reflexivity.
  Qed.

End Par2Converge2.

Print Assumptions repair_shards_wf.
Print Assumptions repair_core_wf.
Print Assumptions repair_writes_wf.
Print Assumptions repair_leaves_protected_wf.
Print Assumptions repair_ok_then_clean_and_idle2.
Print Assumptions cli_repair2_zero_then_verify_zero2.

(** * EX. the premises are satisfiable: the EEExample archive (files "a" and "b", slice size 4, two recovery files;
      "b" and the second recovery file deleted), with the stand-in digest toy_md5 *)
From Coq Require Import String.
From Coq Require Import List.
From Gopar Require Import Proofs.Par2CreatePaths.   (* bs, toy_md5 *)
Open Scope nat_scope.

Module Converge2Example.
  Import EEExample.   (* names datas fs0 outs fs1 fs ix *)

  Definition recs_of (r : outcome dstate * io) : list dinfo :=
    match fst r with Ok d => d_rec (ds_dec d) | _ => [] end.
  Definition slice_of (r : outcome dstate * io) : N :=
    match fst r with Ok d => d_slice (ds_dec d) | _ => 0%N end.

  (* the file descriptions the loader reads from the index file: "b" (4 bytes, 1 slice), "a" (5 bytes, 2 slices) *)
  Definition recs : list dinfo := Eval vm_compute in recs_of (load_all toy_md5 ix (io_init fs [])).
  Definition info_b : dinfo := nth 0 recs dinfo0.
  Definition info_a : dinfo := nth 1 recs dinfo0.

  Example ex_recs : recs = [info_b; info_a] /\
    di_name info_b = bs "b" /\ di_len info_b = 4%N /\ List.length (di_pairs info_b) = 1 /\
    di_name info_a = bs "a" /\ di_len info_a = 5%N /\ List.length (di_pairs info_a) = 2.
  Proof. vm_compute. repeat split; reflexivity. Qed.

  (* premise 2: the loading phase succeeds; its decoder has these descriptions and slice size 4 *)
  Example ex_load_ok : exists ds st1, load_all toy_md5 ix (io_init fs []) = (Ok ds, st1).
  Proof.
    assert (E : is_ok (fst (load_all toy_md5 ix (io_init fs []))) = true) by (vm_compute; reflexivity).
    destruct (load_all toy_md5 ix (io_init fs [])) as [[ds|e|q] st1]; cbn [fst is_ok] in E; try discriminate E.
    exists ds, st1. reflexivity.
  Qed.

  Lemma ex_load : forall ds st1, load_all toy_md5 ix (io_init fs []) = (Ok ds, st1) ->
    d_rec (ds_dec ds) = recs /\ d_slice (ds_dec ds) = 4%N.
  Proof.
    intros ds st1 HL. split.
    - change (d_rec (ds_dec ds)) with (recs_of (Ok ds, st1)). rewrite <- HL. vm_compute. reflexivity.
    - change (d_slice (ds_dec ds)) with (slice_of (Ok ds, st1)). rewrite <- HL. vm_compute. reflexivity.
  Qed.

  (* premise 1: Repair (with the double-check) succeeds and rewrites "b" *)
  Definition st_after : io := snd (par2_repair toy_md5 ix true (io_init fs [])).

  Example ex_repair : par2_repair toy_md5 ix true (io_init fs []) = ((Ok tt, [bs "/w/b"]), st_after).
  Proof.
    destruct ee_repair as (E & _). cbv zeta in E. unfold st_after.
    destruct (par2_repair toy_md5 ix true (io_init fs [])) as [rr s']. cbn [fst snd] in *. rewrite E. reflexivity.
  Qed.

  (* premises 3, 4: distinct paths, distinct file ids *)
  Example ex_paths_distinct : NoDup (map (fun info => file_path ix (di_name info)) recs).
  Proof. vm_compute. constructor; [intros [H|[]]; discriminate H|]. constructor; [intros []|constructor]. Qed.

  Example ex_ids_distinct : NoDup (map di_id recs).
  Proof. vm_compute. constructor; [intros [H|[]]; discriminate H|]. constructor; [intros []|constructor]. Qed.

  (* premise 5, SELF-CONSISTENCY restricted to byte strings: a byte string with the recorded digests and length of
     "a" / "b" is that file (toy_md5 is injective on byte strings of one length <= 16), hence has its slice checksums *)
  Example ex_self_consistent : forall info data, In info recs -> wf_bytes data -> recorded toy_md5 info data ->
    di_pairs info = pairs_of toy_md5 (N.to_nat 4) data.
  Proof.
    intros info data Hin Hw (Hm & H16 & Hlen). destruct ex_recs as (E & _). rewrite E in Hin.
    destruct Hin as [<-|[<-|[]]].
    - assert (Ed : data = [6; 7; 8; 9]%N).
      { apply (ee_files_collision_free (bs "b") [6; 7; 8; 9]%N data); [right; left; reflexivity|exact Hw| | |].
        - assert (El : di_len info_b = 4%N) by (vm_compute; reflexivity). rewrite El in Hlen. cbn [List.length]. lia.
        - rewrite Hm. vm_compute. reflexivity.
        - rewrite H16. vm_compute. reflexivity. }
      subst data. vm_compute. reflexivity.
    - assert (Ed : data = [1; 2; 3; 4; 5]%N).
      { apply (ee_files_collision_free (bs "a") [1; 2; 3; 4; 5]%N data); [left; reflexivity|exact Hw| | |].
        - assert (El : di_len info_a = 5%N) by (vm_compute; reflexivity). rewrite El in Hlen. cbn [List.length]. lia.
        - rewrite Hm. vm_compute. reflexivity.
        - rewrite H16. vm_compute. reflexivity. }
      subst data. vm_compute. reflexivity.
  Qed.

  (* premise 6: what the protected paths hold before the repair is byte-valued ("b" is absent, "a" holds 1..5) *)
  Example ex_protected_bytes : forall info dat, In info recs ->
    fs_lookup fs (file_path ix (di_name info)) = Some dat -> wf_bytes dat.
  Proof.
    intros info dat Hin. destruct ex_recs as (E & _). rewrite E in Hin.
    destruct Hin as [<-|[<-|[]]]; vm_compute; intros H; [discriminate H|].
    injection H as <-. repeat constructor.
  Qed.

  (* premise 7: neither protected path is the index file or matches /w/o.*.par2 *)
  Example ex_disjoint : forall info, In info recs ->
    file_path ix (di_name info) <> ix /\ vol_pattern (strip_ext ix) (file_path ix (di_name info)) = false.
  Proof.
    intros info Hin. destruct ex_recs as (E & _). rewrite E in Hin.
    destruct Hin as [<-|[<-|[]]]; (split; [vm_compute; intros H; discriminate H|vm_compute; reflexivity]).
  Qed.

  (* the theorem applies: on the state Repair left, Verify needs no repair and a further Repair rewrites nothing *)
  Example ex_converge_by_theorem :
    exists c st2, par2_verify toy_md5 ix (io_init (io_fs st_after) []) = (Ok c, st2) /\ repair_needed c = false /\
      forall dbl2 r2 rp2 st3, par2_repair toy_md5 ix dbl2 (io_init (io_fs st_after) []) = ((r2, rp2), st3) ->
        rp2 = [] /\ io_fs st3 = io_fs st_after.
  Proof.
    destruct ex_load_ok as (ds & st1 & HL). destruct (ex_load ds st1 HL) as [Erec Esl].
    apply (repair_ok_then_clean_and_idle2 toy_md5 ix true fs [bs "/w/b"] st_after ds st1 ex_repair HL);
      rewrite ?Erec, ?Esl.
    - exact ex_paths_distinct.
    - exact ex_ids_distinct.
    - exact ex_self_consistent.
    - exact ex_protected_bytes.
    - exact ex_disjoint.
  Qed.

  (* ... and the state is not trivial: Repair did write, and the model computes the same verdict *)
  Example ex_nontrivial :
    io_fs st_after <> fs /\ fs_lookup (io_fs st_after) (bs "/w/b") = Some [6; 7; 8; 9]%N /\
    fst (par2_verify toy_md5 ix (io_init (io_fs st_after) [])) =
      Ok {| c_usable := 3; c_unusable := 0; c_pusable := 1; c_punusable := 0; c_misplaced := 0 |}.
  Proof. split; [vm_compute; intros H; discriminate H|]. split; vm_compute; reflexivity. Qed.

  (** ** the premise of repair_ok_then_clean_and_idle (Proofs/Par2Converge.v) is FALSE on this archive:
         [257; 2; 3; 4; 5] has the recorded digests and length of "a" and is not a byte string *)
  Example old_premise_refuted : forall ds st1, load_all toy_md5 ix (io_init fs []) = (Ok ds, st1) ->
    ~ (forall info data, In info (d_rec (ds_dec ds)) -> recorded toy_md5 info data ->
         wf_bytes data /\ di_pairs info = pairs_of toy_md5 (N.to_nat (d_slice (ds_dec ds))) data).
  Proof.
    intros ds st1 HL H. destruct (ex_load ds st1 HL) as [Erec _]. rewrite Erec in H.
    destruct ex_recs as (E & _). rewrite E in H.
    destruct (H info_a [257; 2; 3; 4; 5]%N) as [Hw _]; [right; left; reflexivity| |].
    - vm_compute. repeat split; reflexivity.
    - inversion Hw as [|? ? Hb _]. vm_compute in Hb. discriminate Hb.
  Qed.

  (** ** the command level: `par r /w/o.par2` exits 0 on this archive; then `par verify /w/o.par2` exits 0 *)
  Definition rargs : list (list N) := [bs "r"; bs "/w/o.par2"].
  Definition vargs : list (list N) := [bs "-g"; bs "2"; bs "VERIFY"; bs "/w/o.par2"].
  Definition cli_after : io := snd (cli_run toy_md5 (bs "/w") rargs (io_init fs [])).

  Example ex_cli_is_repair2 : cli_is_repair2 rargs ix false.
  Proof.
    exists [], (bs "r"), [bs "/w/o.par2"], [], [].
    unfold cli_command, is_repair_word. repeat split; try reflexivity. left; reflexivity.
  Qed.

  Example ex_cli_is_verify2 : cli_is_verify2 vargs ix.
  Proof.
    exists [(bs "g", bs "2")], (bs "VERIFY"), [bs "/w/o.par2"], [], [].
    unfold cli_command, is_verify_word. repeat split; try reflexivity. right; reflexivity.
  Qed.

  Example ex_cli_run : cli_run toy_md5 (bs "/w") rargs (io_init fs []) = (0%N, cli_after).
  Proof.
    assert (E : fst (cli_run toy_md5 (bs "/w") rargs (io_init fs [])) = 0%N) by (vm_compute; reflexivity).
    unfold cli_after. destruct (cli_run toy_md5 (bs "/w") rargs (io_init fs [])) as [code s']. cbn [fst snd] in *.
    rewrite E. reflexivity.
  Qed.

  Example ex_cli_by_theorem : fst (cli_run toy_md5 (bs "/elsewhere") vargs (io_init (io_fs cli_after) [])) = 0%N.
  Proof.
    destruct ex_load_ok as (ds & st1 & HL). destruct (ex_load ds st1 HL) as [Erec Esl].
    apply (cli_repair2_zero_then_verify_zero2 toy_md5 (bs "/w") rargs ix false fs cli_after ex_cli_run ex_cli_is_repair2
             ds st1 HL); rewrite ?Erec, ?Esl.
    - exact ex_paths_distinct.
    - exact ex_ids_distinct.
    - exact ex_self_consistent.
    - exact ex_protected_bytes.
    - exact ex_disjoint.
    - exact ex_cli_is_verify2.
  Qed.
End Converge2Example.

Print Assumptions Converge2Example.ex_self_consistent.
Print Assumptions Converge2Example.ex_converge_by_theorem.
Print Assumptions Converge2Example.ex_nontrivial.
Print Assumptions Converge2Example.old_premise_refuted.
Print Assumptions Converge2Example.ex_cli_by_theorem.
