(* PAR2 Repair SUCCEEDS whenever the damage is within recovery capacity (or reports the singular system).
   RC1  repair_within_capacity           : archive level, from ground-truth premises about the loaded state;
   RC3  repair_within_capacity_restores  : ... and on success every protected file is present and recorded.
   Model: Model/Par2.v (load_all, repair_core, write_repaired, par2_repair) over Model/FS.v and Model/RS16.v. *)
From Coq Require Import Lia ZifyN ZifyNat ZifyBool.
From Gopar Require Import Model.Base Model.GF16 Model.Matrix Model.RS16 Model.CRC Model.GoPath Model.FS Model.Par2
     Proofs.LinAlg Proofs.Matrix16 Proofs.RS16Facts Proofs.GoPathFacts Proofs.Par2Facts Proofs.Par2Verify
     Proofs.ScanFacts Proofs.Par2Faults Proofs.Par2Clean Proofs.Par2Converge.
Open Scope nat_scope.
Set Default Timeout 120.

(** * list helpers: a table with holes as an erasure of the full list *)

Lemma erase_of_nth {A B} (f : A -> B) (d : B) : forall (l : list (option A)) (orig : list B),
  length orig = length l ->
  (forall k s, nth k l None = Some s -> f s = nth k orig d) ->
  map (fun o => match o with Some s => Some (f s) | None => None end) l = erase (map is_some l) orig.
Proof.
  induction l as [|o l IH]; intros [|x orig] Hl H; cbn [length] in Hl; try lia; [reflexivity|].
  cbn [map]. rewrite erase_cons. f_equal.
  - destruct o as [s|]; cbn [is_some]; [|reflexivity]. f_equal. exact (H 0 s eq_refl).
  - apply IH; [lia|]. intros k s Hk. exact (H (S k) s Hk).
Qed.

Lemma opt_map_id {A} : forall l : list (option A),
  map (fun o => match o with Some s => Some s | None => None end) l = l.
Proof. induction l as [|[s|] l IH]; cbn [map]; rewrite ?IH; reflexivity. Qed.

Lemma erase_of_nth_id {A} (d : A) (l : list (option A)) (orig : list A) :
  length orig = length l ->
  (forall k s, nth k l None = Some s -> s = nth k orig d) ->
  l = erase (map is_some l) orig.
Proof.
  intros Hl H. rewrite <- (opt_map_id l) at 1.
  exact (erase_of_nth (fun x => x) d l orig Hl H).
Qed.

Lemma count_none_map_opt {A B} (f : A -> B) : forall l : list (option A),
  count_none (map (fun o => match o with Some s => Some (f s) | None => None end) l) = count_none l.
Proof. induction l as [|[s|] l IH]; cbn [map count_none]; rewrite ?IH; reflexivity. Qed.

Lemma length_somes_map_opt {A B} (f : A -> B) : forall l : list (option A),
  length (somes (map (fun o => match o with Some s => Some (f s) | None => None end) l)) = length (somes l).
Proof. induction l as [|[s|] l IH]; cbn [map somes length]; rewrite ?IH; reflexivity. Qed.

Lemma count_some_somes {A} : forall l : list (option A), count_some l = length (somes l).
Proof.
  unfold count_some. induction l as [|[s|] l IH]; cbn [filter somes length]; rewrite ?IH; reflexivity.
Qed.

Lemma gen_parity_length d p (D : list (list N)) :
  length (gen_parity {| c_data := d; c_parity := p; c_pm := vandermonde_pm d p |} D) = p.
Proof.
  unfold gen_parity, apply_matrix, mmul16, mmul. cbn [c_pm]. unfold vandermonde_pm.
  rewrite !map_length, seq_length. reflexivity.
Qed.

(** * the dedicated error of repair_shards means fewer blocks than missing slices *)
Lemma repair_shards_not_enough (shards parity : list (option bytes)) dbl :
  repair_shards shards parity dbl = Err ENotEnoughParity -> count_some parity < count_nones shards.
Proof.
  rewrite repair_shards_eq. destruct parity as [|p0 pr] eqn:EP.
  - destruct (Nat.eqb_spec (count_nones shards) 0) as [Z|NZ]; [discriminate|].
    intros _. unfold count_some. cbn [filter length]. lia.
  - rewrite <- EP. clear EP p0 pr. unfold repair_shards2. cbv zeta.
    destruct (Nat.eqb (length shards) 0); [discriminate|].
    destruct (N.ltb 32768 (N.of_nat (length shards))); [discriminate|].
    destruct (N.ltb 65535 (N.of_nat (length parity))); [discriminate|].
    set (c := {| c_data := length shards; c_parity := length parity; c_pm := vandermonde_pm (length shards) (length parity) |}).
    set (pw := map (fun o : option bytes => match o with Some b => Some (le_words b) | None => None end) parity).
    set (sw := map (fun o : option bytes => match o with Some b => Some (le_words b) | None => None end) shards).
    destruct (reconstruct c sw pw) as [rw|e|q] eqn:ER; cbn [obind].
    + match goal with |- (if ?b then _ else _) = _ -> _ => destruct b end; discriminate.
    + intros H. injection H as ->.
      assert (Hpos : 0 < count_none sw).
      { destruct (Nat.eq_dec (count_none sw) 0) as [Z|NZ]; [|lia].
        rewrite (reconstruct_nothing_missing c sw pw Z) in ER. discriminate ER. }
      apply reconstruct_not_enough in ER; [|unfold sw, c; cbn [c_data]; apply map_length|exact Hpos].
      unfold pw, sw in ER. rewrite length_somes_map_opt, count_none_map_opt in ER.
      rewrite count_some_somes, count_nones_eq. exact ER.
    + discriminate.
Qed.

(** * the index file lists at least one protected file *)

Lemma read_main_rec_nonempty body m : read_main body = Ok m -> mp_rec m <> [].
Proof.
  unfold read_main. cbv zeta.
  generalize (le_decode (firstn 8 body)) as slice.
  generalize (le_decode (firstn 4 (skipn 8 body))) as cnt.
  generalize (skipn 12 body) as rest.
  intros rest cnt slice H.
  destruct (Nat.ltb (length body) 12); [discriminate H|].
  match type of H with (if ?c then _ else _) = _ => destruct c end; [discriminate H|].
  destruct (N.eqb_spec cnt 0%N) as [Z|NZ]; [discriminate H|].
  destruct (negb (Nat.eqb (length rest mod 16) 0)); [discriminate H|].
  revert H. generalize (chunk_bytes 16 rest) as ids. intros ids H.
  destruct (N.ltb_spec (N.of_nat (length ids)) cnt) as [Lt|Ge]; [discriminate H|].
  match type of H with (if ?c then _ else _) = _ => destruct c end; [discriminate H|].
  injection H as <-. cbn [mp_rec]. intros E. apply (f_equal (@length bytes)) in E.
  rewrite firstn_length in E. cbn [length] in E. lia.
Qed.

Section Par2RepairComplete.
  Variable md5 : bytes -> bytes.

  Definition main_ne (f : pfile) : Prop :=
    match pf_main f with Some m => mp_rec m <> [] | None => True end.

  Ltac hd_destruct H :=
    lazymatch type of H with
    | (if ?c then _ else _) = _ => destruct c eqn:?
    | (match ?c with _ => _ end) = _ => destruct c eqn:?
    end.

  Lemma read_file_go_main_ne : forall fuel buf setid found f sid f',
    main_ne f -> read_file_go md5 fuel buf setid found f = RFOk sid f' -> main_ne f'.
  Proof.
    induction fuel as [|fuel IH]; intros buf setid found f sid f' Hf H; cbn [read_file_go] in H; [discriminate H|].
    destruct (read_next_packet md5 buf) as [| |psid ptype body rest].
    - apply rf_finish_ok in H. rewrite H. exact Hf.
    - (* damaged packet: skipped *)
      destruct (find_magic (tl buf)) as [rest|].
      + eapply IH; [exact Hf|exact H].
      + apply rf_finish_ok in H. rewrite H. exact Hf.
    - hd_destruct H.
      { eapply IH; [exact Hf|exact H]. }
      destruct (bytes_eqb ptype TYPE_CREATOR).
      { eapply IH; [|exact H]. exact Hf. }
      destruct (bytes_eqb ptype TYPE_MAIN).
      { destruct (read_main body) as [m|e|q] eqn:EM; try discriminate H.
        eapply IH; [|exact H]. unfold main_ne. cbn [pf_main]. apply read_main_rec_nonempty with body. exact EM. }
      destruct (bytes_eqb ptype TYPE_FDESC).
      { destruct (read_fdesc md5 body) as [[id dd]|e|q]; try discriminate H.
        eapply IH; [|exact H]. exact Hf. }
      destruct (bytes_eqb ptype TYPE_IFSC).
      { destruct (read_ifsc body) as [[id ps]|e|q]; try discriminate H.
        eapply IH; [|exact H]. exact Hf. }
      destruct (bytes_eqb ptype TYPE_RECV).
      { destruct (read_recv body) as [[e dd]|e|q]; try discriminate H.
        destruct (assoc_n (pf_recv f) e) as [d'|].
        - destruct (bytes_eqb d' dd); [|discriminate H]. eapply IH; [exact Hf|exact H].
        - eapply IH; [|exact H]. exact Hf. }
      eapply IH; [exact Hf|exact H].
  Qed.

  Lemma new_decoder_rec_nonempty ix st d st1 : new_decoder md5 ix st = (Ok d, st1) -> d_rec d <> [].
  Proof.
    intros H. unfold new_decoder in H.
    destruct (io_read ix st) as [[b|e|q] s1]; try discriminate H.
    injection H as H _.
    destruct (read_file md5 None b) as [| |sid f] eqn:ERF; try discriminate H.
    destruct (pf_main f) as [m|] eqn:EM; [|discriminate H].
    destruct (pf_recv f) as [|r0 rr]; [|discriminate H].
    destruct (make_infos (mp_slice m) (mp_rec m) f) as [rs|e|q] eqn:E1; cbn [obind] in H; try discriminate H.
    destruct (make_infos (mp_slice m) (mp_nonrec m) f) as [nrs|e|q]; cbn [obind] in H; try discriminate H.
    injection H as <-. cbn [d_rec].
    unfold read_file in ERF. apply read_file_go_main_ne in ERF; [|exact I].
    unfold main_ne in ERF. rewrite EM in ERF.
    unfold make_infos in E1. apply omap_ok_inv in E1. intros ->. inversion E1 as [E0|]. exact (ERF (eq_sym E0)).
  Qed.

  Lemma load_all_fis_nonempty ix st ds st1 : load_all md5 ix st = (Ok ds, st1) -> ds_fis ds <> [].
  Proof.
    intros HL. destruct (load_all_lengths md5 _ _ _ _ HL) as [Lf _].
    destruct (load_all_inv md5 _ _ _ _ HL) as (d & s1 & w & fis & s2 & acc & Hnd & _ & _ & ->).
    cbn [ds_fis ds_dec] in *. apply new_decoder_rec_nonempty in Hnd.
    intros ->. cbn [length] in Lf. destruct (d_rec d); [exact (Hnd eq_refl)|discriminate Lf].
  Qed.

  Lemma load_all_shards_pos ix st ds st1 : load_all md5 ix st = (Ok ds, st1) ->
    0 < length (flat_map fi_shards (ds_fis ds)).
  Proof.
    intros HL. pose proof (load_all_fis_nonempty _ _ _ _ HL) as Hne.
    destruct (load_all_shape md5 _ _ _ _ HL) as (H4 & _ & Hinfos & Hshape & _ & _).
    rewrite length_flat_shards, Hshape.
    destruct (d_rec (ds_dec ds)) as [|info recs].
    - destruct (ds_fis ds); [congruence|discriminate Hshape].
    - inversion Hinfos as [|? ? Hi _]; subst. destruct Hi as [Hc Hl]. cbn [map sum fold_right].
      assert (1 <= (di_len info + d_slice (ds_dec ds) - 1) / d_slice (ds_dec ds))%N by (apply N.div_le_lower_bound; lia).
      lia.
  Qed.

  (** * the reconstruction phase, within capacity *)
  Lemma repair_core_within_capacity (ds : dstate) dbl (orig : list bytes) L :
    let sh := flat_map fi_shards (ds_fis ds) in
    0 < length sh ->
    length orig = length sh -> Forall (fun s => wf_bytes s /\ length s = 2 * L) orig ->
    (forall k s, nth k sh None = Some s -> si_data s = nth k orig []) ->
    (let c := {| c_data := length orig; c_parity := length (ds_parity ds);
                 c_pm := vandermonde_pm (length orig) (length (ds_parity ds)) |} in
     forall e b, nth e (ds_parity ds) None = Some b -> b = le_bytes (nth e (gen_parity c (map le_words orig)) [])) ->
    (ds_parity ds <> [] -> (N.of_nat (length sh) <= 32768)%N /\ (N.of_nat (length (ds_parity ds)) <= 65535)%N) ->
    c_unusable (shard_counts ds) <= c_pusable (shard_counts ds) ->
    repair_core ds dbl = Ok orig \/ repair_core ds dbl = Err ESingular.
  Proof.
    intros sh Hpos Hlen Horig G1 G2 Hlim Hcap.
    unfold shard_counts in Hcap. cbn [c_unusable c_pusable] in Hcap. fold sh in Hcap.
    unfold repair_core. fold sh.
    set (shards := map (fun so : option sinfo => match so with Some s => Some (si_data s) | None => None end) sh).
    set (P := ds_parity ds) in *.
    set (kd := map is_some sh).
    assert (HS : shards = erase kd orig) by (apply (erase_of_nth si_data []); assumption).
    assert (Hkd : length kd = length orig) by (unfold kd; rewrite map_length; lia).
    assert (Hcn : count_nones shards = count_nones sh).
    { unfold shards. rewrite !count_nones_eq. apply count_none_map_opt. }
    assert (Hcase : P = [] \/ P <> []) by (destruct P; [left; reflexivity|right; discriminate]).
    destruct Hcase as [EP|NP].
    - (* no recovery block at all: nothing may be missing *)
      left. rewrite EP in *. rewrite repair_shards_eq. unfold count_some in Hcap. cbn [filter length] in Hcap.
      rewrite Hcn. replace (count_nones sh) with 0 by lia. cbn [Nat.eqb].
      f_equal. rewrite HS. apply somes_all; [exact Hkd|].
      rewrite <- HS, <- count_nones_eq, Hcn. lia.
    - destruct (Hlim NP) as [Hnd Hnp].
      cbv zeta in G2.
      set (np := length P) in *.
      set (c := {| c_data := length orig; c_parity := np; c_pm := vandermonde_pm (length orig) np |}) in *.
      set (Gp := gen_parity c (map le_words orig)) in *.
      set (blocks := map le_bytes Gp).
      set (kp := map is_some P).
      assert (Hbl : length blocks = np) by (unfold blocks, Gp, c; rewrite map_length; apply gen_parity_length).
      assert (HP : P = erase kp blocks).
      { apply (erase_of_nth_id []); [exact Hbl|]. intros e b He. rewrite (G2 e b He).
        unfold blocks. symmetry. exact (map_nth le_bytes Gp [] e). }
      assert (Hkp : length kp = np) by (unfold kp; apply map_length).
      pose proof (repair_shards_sound orig kd kp L dbl np ltac:(lia) ltac:(lia) ltac:(lia) Horig Hkd Hkp) as RS.
      cbv zeta in RS. fold c in RS. fold Gp in RS. fold blocks in RS.
      rewrite <- HS, <- HP in RS.
      destruct (repair_shards shards P dbl) as [data|e|q] eqn:ER.
      + left. rewrite RS. reflexivity.
      + destruct RS as [->| ->]; [|right; reflexivity].
        exfalso. apply repair_shards_not_enough in ER. rewrite Hcn in ER. lia.
      + destruct RS.
  Qed.

  (** * the write-out phase succeeds on verified data (fault-free run) *)
  Lemma write_repaired_succeeds ix : forall (todo : list (bool * (dinfo * list bytes))) done st,
    io_sched st = [] ->
    Forall (fun t : bool * (dinfo * list bytes) => fst t = false ->
              recorded md5 (fst (snd t)) (firstn (N.to_nat (di_len (fst (snd t)))) (concat (snd (snd t))))) todo ->
    exists rp st', write_repaired md5 ix todo done st = ((Ok tt, rp), st').
  Proof.
    induction todo as [|[b [info shards]] todo IH]; intros done st Hs Hall; cbn [write_repaired].
    - exists done, st. reflexivity.
    - inversion Hall as [|? ? Hh Hall']; subst. cbn [fst snd] in Hh.
      destruct b; [apply IH; assumption|].
      destruct (Hh eq_refl) as (Hm & H16 & Hln).
      set (all := concat shards) in *.
      rewrite firstn_length in Hln.
      destruct (N.ltb_spec (N.of_nat (length all)) (di_len info)) as [Lt|_]; [lia|].
      rewrite H16, Hm, !bytes_eqb_refl. cbn [negb].
      rewrite (io_write_nosched _ _ st Hs).
      apply IH; [cbn [tick io_sched]; exact Hs|exact Hall'].
  Qed.

  (** * RC1 *)
  Theorem repair_within_capacity : forall ix dbl fs ds st1 (orig : list bytes) L,
    load_all md5 ix (io_init fs []) = (Ok ds, st1) ->
    let S := N.to_nat (d_slice (ds_dec ds)) in
    let sh := flat_map fi_shards (ds_fis ds) in
    S = 2 * L ->
    length orig = length sh -> Forall (fun s => wf_bytes s /\ length s = S) orig ->
    (* GROUND TRUTH 1: a slice the scan credited is the original slice of that position *)
    (forall k s, nth k sh None = Some s -> si_data s = nth k orig []) ->
    (* GROUND TRUTH 2: every loaded recovery block is the true block of its exponent *)
    (let c := {| c_data := length orig; c_parity := length (ds_parity ds);
                 c_pm := vandermonde_pm (length orig) (length (ds_parity ds)) |} in
     forall e b, nth e (ds_parity ds) None = Some b -> b = le_bytes (nth e (gen_parity c (map le_words orig)) [])) ->
    (* GROUND TRUTH 3: the originals, joined per file and cut to the recorded length, have the recorded hashes *)
    (forall i info, nth_error (d_rec (ds_dec ds)) i = Some info ->
        recorded md5 info (firstn (N.to_nat (di_len info))
          (concat (nth i (split_by (map (fun fi => length (fi_shards fi)) (ds_fis ds)) orig) [])))) ->
    (* the coder's limits, which the loader does not enforce (only consulted when a recovery block was loaded) *)
    (ds_parity ds <> [] -> (N.of_nat (length sh) <= 32768)%N /\ (N.of_nat (length (ds_parity ds)) <= 65535)%N) ->
    (* WITHIN CAPACITY *)
    c_unusable (shard_counts ds) <= c_pusable (shard_counts ds) ->
    exists r rp st', par2_repair md5 ix dbl (io_init fs []) = ((r, rp), st') /\ (r = Ok tt \/ r = Err ESingular).
  Proof.
    intros ix dbl fs ds st1 orig L HL S sh HS Hlen Horig G1 G2 G3 Hlim Hcap.
    pose proof (load_all_pres md5 ix (io_init fs [])) as Pr. rewrite HL in Pr. cbn [snd] in Pr.
    destruct Pr as (_ & Ps & _). cbn [io_init io_sched] in Ps.
    pose proof (load_all_fis_nonempty _ _ _ _ HL) as Hne.
    pose proof (load_all_shards_pos _ _ _ _ HL) as Hpos.
    destruct (load_all_lengths md5 _ _ _ _ HL) as [Lf Lo].
    unfold par2_repair. rewrite HL.
    assert (Hm : forall (T : Type) (a b : T), match ds_fis ds with [] => a | _ :: _ => b end = b).
    { intros T a b. destruct (ds_fis ds); [exfalso; exact (Hne eq_refl)|reflexivity]. }
    rewrite Hm. clear Hm.
    assert (Horig' : Forall (fun s => wf_bytes s /\ length s = 2 * L) orig) by (rewrite <- HS; exact Horig).
    destruct (repair_core_within_capacity ds dbl orig L Hpos Hlen Horig' G1 G2 Hlim Hcap) as [E|E]; rewrite E.
    2:{ exists (Err ESingular), [], st1. split; [reflexivity|right; reflexivity]. }
    set (recs := d_rec (ds_dec ds)) in *.
    set (pf := split_by (map (fun fi => length (fi_shards fi)) (ds_fis ds)) orig) in *.
    set (oks := files_ok ds) in *.
    assert (Lp : length pf = length recs) by (unfold pf; rewrite split_by_length, map_length; exact Lf).
    assert (Lc : length (combine recs pf) = length recs) by (rewrite combine_length; lia).
    destruct (write_repaired_succeeds ix (combine oks (combine recs pf)) [] st1 Ps) as (rp & st' & HW).
    { apply Forall_forall. intros t Hin _.
      destruct (In_nth _ _ (true, (dinfo0, [])) Hin) as (i & Hi & <-).
      rewrite combine_length in Hi.
      rewrite combine_nth by lia. rewrite combine_nth by lia. cbn [fst snd].
      apply G3. apply nth_error_nth'. lia. }
    exists (Ok tt), rp, st'. split; [exact HW|left; reflexivity].
  Qed.

  (** * RC3 *)
  Theorem repair_within_capacity_restores : forall ix dbl fs ds st1 (orig : list bytes) L,
    load_all md5 ix (io_init fs []) = (Ok ds, st1) ->
    let S := N.to_nat (d_slice (ds_dec ds)) in
    let sh := flat_map fi_shards (ds_fis ds) in
    S = 2 * L ->
    length orig = length sh -> Forall (fun s => wf_bytes s /\ length s = S) orig ->
    (forall k s, nth k sh None = Some s -> si_data s = nth k orig []) ->
    (let c := {| c_data := length orig; c_parity := length (ds_parity ds);
                 c_pm := vandermonde_pm (length orig) (length (ds_parity ds)) |} in
     forall e b, nth e (ds_parity ds) None = Some b -> b = le_bytes (nth e (gen_parity c (map le_words orig)) [])) ->
    (forall i info, nth_error (d_rec (ds_dec ds)) i = Some info ->
        recorded md5 info (firstn (N.to_nat (di_len info))
          (concat (nth i (split_by (map (fun fi => length (fi_shards fi)) (ds_fis ds)) orig) [])))) ->
    (ds_parity ds <> [] -> (N.of_nat (length sh) <= 32768)%N /\ (N.of_nat (length (ds_parity ds)) <= 65535)%N) ->
    c_unusable (shard_counts ds) <= c_pusable (shard_counts ds) ->
    (* the protected paths are pairwise distinct *)
    NoDup (map (fun info => file_path ix (di_name info)) (d_rec (ds_dec ds))) ->
    exists r rp st', par2_repair md5 ix dbl (io_init fs []) = ((r, rp), st') /\
      (r = Err ESingular \/
       (r = Ok tt /\ forall info, In info (d_rec (ds_dec ds)) ->
          exists data, fs_lookup (io_fs st') (file_path ix (di_name info)) = Some data /\ recorded md5 info data)).
  Proof.
    intros ix dbl fs ds st1 orig L HL S sh HS Hlen Horig G1 G2 G3 Hlim Hcap Hnd.
    destruct (repair_within_capacity ix dbl fs ds st1 orig L HL HS Hlen Horig G1 G2 G3 Hlim Hcap)
      as (r & rp & st' & HR & [-> | ->]).
    - exists (Ok tt), rp, st'. split; [exact HR|right]. split; [reflexivity|].
      exact (repair_ok_all_recorded md5 ix dbl fs rp st' ds st1 HR HL Hnd).
    - exists (Err ESingular), rp, st'. split; [exact HR|left; reflexivity].
  Qed.

End Par2RepairComplete.

Print Assumptions repair_within_capacity.
Print Assumptions repair_within_capacity_restores.

(** * RC2: GROUND TRUTH 1 derived from local collision-freeness of the registered checksum pairs *)

(** ** the checksum table only returns what was registered *)
Lemma lookup_put_inv : forall (t : cstable) c h loc c2 h2 l,
  In l (cs_lookup_key (cs_put t c h loc) c2 h2) ->
  In l (cs_lookup_key t c2 h2) \/ (c2 = c /\ h2 = h /\ l = loc).
Proof.
  induction t as [|[[c' m] locs] t IH]; intros c h loc c2 h2 l H; cbn [cs_put cs_lookup_key] in *.
  - destruct ((c =? c2)%N && bytes_eqb h h2) eqn:E; [|destruct H].
    apply andb_true_iff in E. destruct E as [E1 E2]. apply N.eqb_eq in E1. apply bytes_eqb_eq in E2.
    destruct H as [<-|[]]. right. repeat split; congruence.
  - destruct ((c' =? c)%N && bytes_eqb m h) eqn:E; cbn [cs_lookup_key] in H.
    + destruct ((c' =? c2)%N && bytes_eqb m h2) eqn:E2; [|left; exact H].
      apply in_app_or in H. destruct H as [H|[<-|[]]]; [left; exact H|right].
      apply andb_true_iff in E. destruct E as [Ea Eb]. apply N.eqb_eq in Ea. apply bytes_eqb_eq in Eb.
      apply andb_true_iff in E2. destruct E2 as [Ec Ed]. apply N.eqb_eq in Ec. apply bytes_eqb_eq in Ed.
      repeat split; congruence.
    + destruct ((c' =? c2)%N && bytes_eqb m h2); [left; exact H|]. apply IH. exact H.
Qed.

Lemma reg_inner_inv (r : nat) c h l : forall (kps : list (nat * (bytes * N))) t,
  In l (cs_lookup_key (fold_left (fun t (kp : nat * (bytes * N)) => cs_put t (snd (snd kp)) (fst (snd kp)) (r, fst kp)) kps t) c h) ->
  In l (cs_lookup_key t c h) \/ exists k p, In (k, p) kps /\ snd p = c /\ fst p = h /\ l = (r, k).
Proof.
  induction kps as [|[k0 p0] kps IH]; intros t H; cbn [fold_left] in H; [left; exact H|].
  apply IH in H. cbn [fst snd] in H. destruct H as [H|(k & p & Hin & Hc & Hh & Hl)].
  - apply lookup_put_inv in H. destruct H as [H|(Hc & Hh & Hl)]; [left; exact H|].
    right. exists k0, p0. split; [left; reflexivity|]. repeat split; congruence.
  - right. exists k, p. split; [right; exact Hin|]. repeat split; assumption.
Qed.

Lemma reg_outer_inv (all : list dinfo) c h l : forall (iis : list (nat * dinfo)) t,
  In l (cs_lookup_key
    (fold_left (fun t (ii : nat * dinfo) =>
                  fold_left (fun t (kp : nat * (bytes * N)) =>
                               cs_put t (snd (snd kp)) (fst (snd kp)) (last_index all (di_id (snd ii)), fst kp))
                            (combine (seq 0 (length (di_pairs (snd ii)))) (di_pairs (snd ii))) t)
               iis t) c h) ->
  In l (cs_lookup_key t c h) \/
  exists i info k p, In (i, info) iis /\
     In (k, p) (combine (seq 0 (length (di_pairs info))) (di_pairs info)) /\
     snd p = c /\ fst p = h /\ l = (last_index all (di_id info), k).
Proof.
  induction iis as [|[i0 info0] iis IH]; intros t H; cbn [fold_left] in H; [left; exact H|].
  apply IH in H. cbn [fst snd] in H. destruct H as [H|(i & info & k & p & Hin & Hkp & Hc & Hh & Hl)].
  - apply reg_inner_inv in H. destruct H as [H|(k & p & Hkp & Hc & Hh & Hl)]; [left; exact H|].
    right. exists i0, info0, k, p. split; [left; reflexivity|]. repeat split; assumption.
  - right. exists i, info, k, p. split; [right; exact Hin|]. repeat split; assumption.
Qed.

Lemma make_cstable_sound (infos : list dinfo) c h l :
  In l (cs_lookup_key (make_cstable infos) c h) ->
  exists i info k p, In (i, info) (combine (seq 0 (length infos)) infos) /\
     In (k, p) (combine (seq 0 (length (di_pairs info))) (di_pairs info)) /\
     snd p = c /\ fst p = h /\ l = (last_index infos (di_id info), k).
Proof.
  intros H. unfold make_cstable in H. apply reg_outer_inv in H. destruct H as [[]|H]. exact H.
Qed.

(** ** what crediting does to the data of a shard table *)
Definition DS (Q : nat -> nat -> bytes -> Prop) (sh : shtab) : Prop :=
  forall i k s, get2 sh i k = Some s -> Q i k (si_data s).

Lemma get2_upd2_other i' k' g sh i k : (i, k) <> (i', k') -> get2 (upd2 i' k' g sh) i k = get2 sh i k.
Proof.
  intros Hne. unfold get2, upd2.
  destruct (Nat.eq_dec i i') as [->|Hi].
  - assert (Hk : k <> k') by congruence.
    destruct (nth_upd_nth_cases (upd_nth k' g) [] i' i' sh) as [E|E]; rewrite E; [reflexivity|].
    apply nth_upd_nth_other. exact Hk.
  - rewrite nth_upd_nth_other by exact Hi. reflexivity.
Qed.

Lemma DS_upd2 (Q : nat -> nat -> bytes -> Prop) (cur : nat) (h : hit) i' k' (sh : shtab) : DS Q sh -> Q i' k' (h_data h) -> DS Q (upd2 i' k' (cf cur h) sh).
Proof.
  intros HD HQ i k s Hs.
  assert (Hdec : (i, k) = (i', k') \/ (i, k) <> (i', k')).
  { destruct (Nat.eq_dec i i') as [->|]; [|right; congruence].
    destruct (Nat.eq_dec k k') as [->|]; [left; reflexivity|right; congruence]. }
  destruct Hdec as [E|Hne].
  - injection E as -> ->.
    destruct (get2_upd2_cases i' k' (cf cur h) sh i' k') as [E|E]; rewrite E in Hs.
    + apply HD. exact Hs.
    + destruct (get2 sh i' k') as [s0|] eqn:E0; cbn [cf] in Hs; injection Hs as <-; cbn [si_data].
      * apply HD. exact E0.
      * exact HQ.
  - rewrite get2_upd2_other in Hs by exact Hne. apply HD. exact Hs.
Qed.

Lemma DS_credit (Q : nat -> nat -> bytes -> Prop) (cur : nat) (h : hit) : (forall loc, In loc (h_locs h) -> Q (fst loc) (snd loc) (h_data h)) ->
  forall sh, DS Q sh -> DS Q (credit_sh cur h sh).
Proof.
  unfold credit_sh. generalize (h_locs h). intros locs.
  induction locs as [|loc locs IH]; intros HQ sh HD; cbn [fold_left]; [exact HD|].
  apply IH; [intros l Hl; apply HQ; right; exact Hl|].
  apply DS_upd2; [exact HD|apply HQ; left; reflexivity].
Qed.

Lemma DS_credits (Q : nat -> nat -> bytes -> Prop) (cur : nat) : forall hits,
  Forall (fun h => forall loc, In loc (h_locs h) -> Q (fst loc) (snd loc) (h_data h)) hits ->
  forall sh, DS Q sh -> DS Q (fold_left (fun sh h => credit_sh cur h sh) hits sh).
Proof.
  induction hits as [|h hits IH]; intros Hh sh HD; cbn [fold_left]; [exact HD|].
  inversion Hh as [|? ? H1 H2]; subst. apply IH; [exact H2|]. apply DS_credit; assumption.
Qed.

(** ** flat positions of two nested lists of the same shape *)
Lemma flat_align {X Y A B} (f : X -> list A) (g : Y -> list B) (dX : X) (dY : Y) :
  forall (l : list X) (m : list Y),
  map (fun x => length (f x)) l = map (fun y => length (g y)) m ->
  forall K a, nth_error (flat_map f l) K = Some a ->
  exists i k, i < length l /\ nth_error (f (nth i l dX)) k = Some a /\
              nth_error (flat_map g m) K = nth_error (g (nth i m dY)) k.
Proof.
  induction l as [|x l IH]; intros [|y m] Hsh K a H; cbn [map] in Hsh; try discriminate Hsh.
  - destruct K; discriminate H.
  - injection Hsh as Hxy Hsh. cbn [flat_map] in *.
    destruct (lt_dec K (length (f x))) as [Hlt|Hge].
    + rewrite nth_error_app1 in H by exact Hlt.
      exists 0, K. cbn [length nth]. split; [lia|]. split; [exact H|].
      apply nth_error_app1. rewrite <- Hxy. exact Hlt.
    + rewrite nth_error_app2 in H by lia.
      destruct (IH m Hsh _ _ H) as (i & k & Hi & Hf & Hg).
      exists (S i), k. cbn [length nth]. split; [lia|]. split; [exact Hf|].
      rewrite nth_error_app2 by lia. rewrite <- Hxy. exact Hg.
Qed.

Section Par2RepairHash.
  Variable md5 : bytes -> bytes.

  (* the data of a credited slice has the slice size and is registered for that position *)
  Definition QT (S : nat) (t : cstable) (i k : nat) (w : bytes) : Prop :=
    length w = S /\ wf_bytes w /\ In (i, k) (cs_get md5 t (crc32 w) w).

  Lemma load_files_DS d w t : forall todo fis st fis' st',
    io_sched st = [] ->
    (forall p dat, fs_lookup (io_fs st) p = Some dat -> wf_bytes dat) ->
    4 <= N.to_nat (d_slice d) -> win_new (Z.of_nat (N.to_nat (d_slice d))) = Ok w ->
    DS (QT (N.to_nat (d_slice d)) t) (shs fis) ->
    load_files md5 d w t todo fis st = (Ok fis', st') ->
    DS (QT (N.to_nat (d_slice d)) t) (shs fis').
  Proof.
    induction todo as [|[i info] r IH]; intros fis st fis' st' Hs Hwf H4 Hw HD H; cbn [load_files] in H.
    - injection H as <- _. exact HD.
    - pose proof (io_read_pres (file_path (d_index d) (di_name info)) st) as Pr.
      destruct (io_read (file_path (d_index d) (di_name info)) st) as [[data|e|q] st1] eqn:ER;
        cbn [snd] in Pr; destruct Pr as (Pf & Ps & _).
      + assert (Hs1 : io_sched st1 = []) by congruence.
        assert (Hwf1 : forall p dat, fs_lookup (io_fs st1) p = Some dat -> wf_bytes dat) by (rewrite Pf; exact Hwf).
        eapply IH; [exact Hs1|exact Hwf1|exact H4|exact Hw| |exact H].
        rewrite shs_set_flags, shs_credits.
        apply io_read_ok_lookup in ER; [|exact Hs]. apply Hwf in ER.
        rewrite (scan_eq_spec md5 _ w t data H4 Hw ER).
        apply DS_credits; [|exact HD].
        apply Forall_forall. intros h Hh loc Hloc.
        destruct (scan_sound md5 _ _ _ _ Hh) as (_ & Hdat & Hlocs & _).
        split; [|split].
        * rewrite Hdat. unfold window_at. apply take_pad_length.
        * rewrite Hdat. unfold window_at. apply take_pad_wf. apply Forall_skipn'. exact ER.
        * rewrite <- Hlocs. destruct loc. exact Hloc.
      + destruct e; try discriminate H.
        assert (Hs1 : io_sched st1 = []) by congruence.
        assert (Hwf1 : forall p dat, fs_lookup (io_fs st1) p = Some dat -> wf_bytes dat) by (rewrite Pf; exact Hwf).
        eapply IH; [exact Hs1|exact Hwf1|exact H4|exact Hw| |exact H].
        rewrite shs_set_flags. exact HD.
      + discriminate H.
  Qed.

  Lemma fis0_none d i k : get2 (shs (fis0 d)) i k = None.
  Proof.
    assert (H : Forall (Forall (fun o : option sinfo => o = None)) (shs (fis0 d))).
    { unfold shs, fis0. rewrite map_map. apply Forall_forall. intros row Hrow.
      apply in_map_iff in Hrow. destruct Hrow as (info & <- & _). cbn [fi_shards].
      apply Forall_forall. intros o Ho. apply in_map_iff in Ho. destruct Ho as (x & <- & _). reflexivity. }
    unfold get2. rewrite Forall_forall in H.
    destruct (nth_in_or_default i (shs (fis0 d)) []) as [Hin|E].
    - specialize (H _ Hin). rewrite Forall_forall in H.
      destruct (nth_in_or_default k (nth i (shs (fis0 d)) []) None) as [Hin2|E2]; [exact (H _ Hin2)|exact E2].
    - rewrite E. destruct k; reflexivity.
  Qed.

  (* every credited slice of the loaded state carries data of the slice size whose (MD5, CRC-32)
     is the registered pair of that flat position *)
  Lemma load_all_credited ix fs ds st1 :
    load_all md5 ix (io_init fs []) = (Ok ds, st1) ->
    (forall p dat, fs_lookup fs p = Some dat -> wf_bytes dat) ->
    NoDup (map di_id (d_rec (ds_dec ds))) ->
    forall K s, nth K (flat_map fi_shards (ds_fis ds)) None = Some s ->
      length (si_data s) = N.to_nat (d_slice (ds_dec ds)) /\ wf_bytes (si_data s) /\
      nth_error (flat_map di_pairs (d_rec (ds_dec ds))) K = Some (md5 (si_data s), crc32 (si_data s)).
  Proof.
    intros HL Hwf Hnd K s HK.
    destruct (load_all_shape md5 _ _ _ _ HL) as (H4 & _ & _ & Hshape & _ & _).
    destruct (load_all_inv md5 _ _ _ _ HL) as (d & s1 & w & fis & s2 & acc & Hnew & Hw & Hlf & ->).
    cbn [ds_dec ds_fis] in *.
    pose proof (new_decoder_pres md5 ix (io_init fs [])) as P. rewrite Hnew in P. cbn [snd] in P.
    destruct P as (Pf & Ps & _). cbn [io_init io_fs io_sched] in Pf, Ps.
    assert (HD : DS (QT (N.to_nat (d_slice d)) (make_cstable (d_rec d))) (shs fis)).
    { apply (load_files_DS d w (make_cstable (d_rec d)) (combine (seq 0 (length (d_rec d))) (d_rec d)) (fis0 d) s1 fis s2 Ps); [rewrite Pf; exact Hwf|lia| | |exact Hlf].
      - rewrite N_nat_Z. exact Hw.
      - intros i k s0 Hs0. rewrite fis0_none in Hs0. discriminate Hs0. }
    assert (HKe : nth_error (flat_map fi_shards fis) K = Some (Some s)).
    { destruct (lt_dec K (length (flat_map fi_shards fis))) as [Hlt|Hge].
      - rewrite (nth_error_nth' _ None Hlt), HK. reflexivity.
      - rewrite nth_overflow in HK by lia. discriminate HK. }
    destruct (flat_align fi_shards di_pairs dfi dinfo0 fis (d_rec d) Hshape K (Some s) HKe) as (i & k & Hi & Hf & Hg).
    assert (Hget : get2 (shs fis) i k = Some s).
    { rewrite get2_shs. apply nth_error_nth with (d := None) in Hf. exact Hf. }
    destruct (HD i k s Hget) as (Hlen & Hwfs & Hin).
    split; [exact Hlen|]. split; [exact Hwfs|].
    unfold cs_get in Hin. destruct (crc_present (make_cstable (d_rec d)) (crc32 (si_data s))); [|destruct Hin].
    apply make_cstable_sound in Hin. destruct Hin as (i0 & info & k0 & p & Hi0 & Hk0 & Hc & Hh & Hl).
    rewrite (last_index_nodup (d_rec d) i0 info Hnd Hi0) in Hl. injection Hl as <- <-.
    destruct (in_combine_seq_inv dinfo0 _ _ _ _ Hi0) as (i' & Ei & Hi' & Hn). cbn [Nat.add] in Ei. subst i'.
    destruct (in_combine_seq_inv ([], 0%N) _ _ _ _ Hk0) as (k' & Ek & Hk' & Hp). cbn [Nat.add] in Ek. subst k'.
    rewrite Hg, Hn.
    destruct p as [ph pc]. cbn [fst snd] in Hc, Hh. subst ph pc.
    rewrite <- Hp. apply nth_error_nth'. exact Hk'.
  Qed.

  (** * RC1' : the hash-level form *)
  Theorem repair_within_capacity_hash : forall ix dbl fs ds st1 (orig : list bytes) L,
    load_all md5 ix (io_init fs []) = (Ok ds, st1) ->
    let S := N.to_nat (d_slice (ds_dec ds)) in
    let sh := flat_map fi_shards (ds_fis ds) in
    S = 2 * L ->
    length orig = length sh -> Forall (fun s => wf_bytes s /\ length s = S) orig ->
    (* the file system holds byte values, and the file ids of the recovery set are pairwise distinct *)
    (forall p dat, fs_lookup fs p = Some dat -> wf_bytes dat) ->
    NoDup (map di_id (d_rec (ds_dec ds))) ->
    (* LOCAL COLLISION-FREENESS: a slice-sized window with the registered (MD5, CRC-32) pair of
       position k is the original slice of position k *)
    (forall k w, length w = S -> wf_bytes w ->
        nth_error (flat_map di_pairs (d_rec (ds_dec ds))) k = Some (md5 w, crc32 w) -> w = nth k orig []) ->
    (let c := {| c_data := length orig; c_parity := length (ds_parity ds);
                 c_pm := vandermonde_pm (length orig) (length (ds_parity ds)) |} in
     forall e b, nth e (ds_parity ds) None = Some b -> b = le_bytes (nth e (gen_parity c (map le_words orig)) [])) ->
    (forall i info, nth_error (d_rec (ds_dec ds)) i = Some info ->
        recorded md5 info (firstn (N.to_nat (di_len info))
          (concat (nth i (split_by (map (fun fi => length (fi_shards fi)) (ds_fis ds)) orig) [])))) ->
    (ds_parity ds <> [] -> (N.of_nat (length sh) <= 32768)%N /\ (N.of_nat (length (ds_parity ds)) <= 65535)%N) ->
    c_unusable (shard_counts ds) <= c_pusable (shard_counts ds) ->
    exists r rp st', par2_repair md5 ix dbl (io_init fs []) = ((r, rp), st') /\ (r = Ok tt \/ r = Err ESingular).
  Proof.
    intros ix dbl fs ds st1 orig L HL S sh HS Hlen Horig Hwf Hnd HC G2 G3 Hlim Hcap.
    apply (repair_within_capacity md5 ix dbl fs ds st1 orig L HL HS Hlen Horig); try assumption.
    intros k s Hk.
    destruct (load_all_credited ix fs ds st1 HL Hwf Hnd k s Hk) as (Hl & Hw & Hp).
    apply HC; assumption.
  Qed.

  (** * RC3' : the hash-level form, with the restored files *)
  Theorem repair_within_capacity_hash_restores : forall ix dbl fs ds st1 (orig : list bytes) L,
    load_all md5 ix (io_init fs []) = (Ok ds, st1) ->
    let S := N.to_nat (d_slice (ds_dec ds)) in
    let sh := flat_map fi_shards (ds_fis ds) in
    S = 2 * L ->
    length orig = length sh -> Forall (fun s => wf_bytes s /\ length s = S) orig ->
    (forall p dat, fs_lookup fs p = Some dat -> wf_bytes dat) ->
    NoDup (map di_id (d_rec (ds_dec ds))) ->
    (forall k w, length w = S -> wf_bytes w ->
        nth_error (flat_map di_pairs (d_rec (ds_dec ds))) k = Some (md5 w, crc32 w) -> w = nth k orig []) ->
    (let c := {| c_data := length orig; c_parity := length (ds_parity ds);
                 c_pm := vandermonde_pm (length orig) (length (ds_parity ds)) |} in
     forall e b, nth e (ds_parity ds) None = Some b -> b = le_bytes (nth e (gen_parity c (map le_words orig)) [])) ->
    (forall i info, nth_error (d_rec (ds_dec ds)) i = Some info ->
        recorded md5 info (firstn (N.to_nat (di_len info))
          (concat (nth i (split_by (map (fun fi => length (fi_shards fi)) (ds_fis ds)) orig) [])))) ->
    (ds_parity ds <> [] -> (N.of_nat (length sh) <= 32768)%N /\ (N.of_nat (length (ds_parity ds)) <= 65535)%N) ->
    c_unusable (shard_counts ds) <= c_pusable (shard_counts ds) ->
    NoDup (map (fun info => file_path ix (di_name info)) (d_rec (ds_dec ds))) ->
    exists r rp st', par2_repair md5 ix dbl (io_init fs []) = ((r, rp), st') /\
      (r = Err ESingular \/
       (r = Ok tt /\ forall info, In info (d_rec (ds_dec ds)) ->
          exists data, fs_lookup (io_fs st') (file_path ix (di_name info)) = Some data /\ recorded md5 info data)).
  Proof.
    intros ix dbl fs ds st1 orig L HL S sh HS Hlen Horig Hwf Hnd HC G2 G3 Hlim Hcap Hndp.
    apply (repair_within_capacity_restores md5 ix dbl fs ds st1 orig L HL HS Hlen Horig); try assumption.
    intros k s Hk.
    destruct (load_all_credited ix fs ds st1 HL Hwf Hnd k s Hk) as (Hl & Hw & Hp).
    apply HC; assumption.
  Qed.
End Par2RepairHash.

Print Assumptions load_all_credited.
Print Assumptions repair_within_capacity_hash.
Print Assumptions repair_within_capacity_hash_restores.

(** * Non-vacuity: a created set, one file deleted, Repair within capacity *)
From Coq Require Import String.
From Coq Require Import List.
From Gopar Require Import Proofs.Par2CreatePaths.   (* bs, toy_md5 *)
Open Scope nat_scope.

Module RCExample.
  Definition fs0 : list (list N * bytes) := [(bs "/w/a", [1; 2; 3; 4; 5]%N); (bs "/w/b", [6; 7; 8; 9]%N)].
  Definition ix := bs "/w/o.par2".
  Definition created := par2_create toy_md5 (bs "/w") ix [bs "a"; bs "b"] {| cp_slice := 4; cp_parity := 2 |} (io_init fs0 []).
  (* the created set with the file "a" deleted *)
  Definition fs2 := filter (fun e : list N * bytes => negb (str_eqb (fst e) (bs "/w/a"))) (io_fs (snd created)).
  (* the protected slices in recovery-set order: b, then the two slices of a (the second zero-padded) *)
  Definition orig : list bytes := [[6; 7; 8; 9]; [1; 2; 3; 4]; [5; 0; 0; 0]]%N.

  Definition premises (md5 : bytes -> bytes) (ds : dstate) (orig : list bytes) (L : nat) : Prop :=
    let S := N.to_nat (d_slice (ds_dec ds)) in
    let sh := flat_map fi_shards (ds_fis ds) in
    S = 2 * L /\
    length orig = length sh /\ Forall (fun s => wf_bytes s /\ length s = S) orig /\
    (forall k s, nth k sh None = Some s -> si_data s = nth k orig []) /\
    (let c := {| c_data := length orig; c_parity := length (ds_parity ds);
                 c_pm := vandermonde_pm (length orig) (length (ds_parity ds)) |} in
     forall e b, nth e (ds_parity ds) None = Some b -> b = le_bytes (nth e (gen_parity c (map le_words orig)) [])) /\
    (forall i info, nth_error (d_rec (ds_dec ds)) i = Some info ->
        recorded md5 info (firstn (N.to_nat (di_len info))
          (concat (nth i (split_by (map (fun fi => length (fi_shards fi)) (ds_fis ds)) orig) [])))) /\
    (ds_parity ds <> [] -> (N.of_nat (length sh) <= 32768)%N /\ (N.of_nat (length (ds_parity ds)) <= 65535)%N) /\
    c_unusable (shard_counts ds) <= c_pusable (shard_counts ds).

  Definition loaded : dstate :=
    match fst (load_all toy_md5 ix (io_init fs2 [])) with Ok ds => ds
    | _ => {| ds_dec := {| d_index := []; d_setid := []; d_slice := 0; d_rec := []; d_nonrec := [] |}; ds_fis := []; ds_tbl := []; ds_parity := [] |} end.

  Example rc_example_loaded : fst created = Ok tt /\ fs_lookup fs2 (bs "/w/a") = None /\
    fst (load_all toy_md5 ix (io_init fs2 [])) = Ok loaded /\
    shard_counts loaded = {| c_usable := 1; c_unusable := 2; c_pusable := 2; c_punusable := 0; c_misplaced := 0 |}.
  Proof. vm_compute. repeat split; reflexivity. Qed.

  Example rc_example_premises : premises toy_md5 loaded orig 2.
  Proof.
    unfold premises. cbv zeta.
    split; [vm_compute; reflexivity|].
    split; [vm_compute; reflexivity|].
    split.
    { assert (E : N.to_nat (d_slice (ds_dec loaded)) = 4) by (vm_compute; reflexivity). rewrite E.
      unfold orig, wf_bytes, wf_byte. repeat constructor. }
    split.
    { intros k s. destruct k as [|[|[|k]]]; vm_compute; intros H; try discriminate H.
      - injection H as <-. reflexivity.
      - destruct k; discriminate H. }
    split.
    { intros e b. destruct e as [|[|e]]; vm_compute; intros H; try discriminate H.
      - injection H as <-. reflexivity.
      - injection H as <-. reflexivity.
      - destruct e; discriminate H. }
    split.
    { intros i info H. destruct i as [|[|i]]; vm_compute in H; try discriminate H.
      - injection H as <-. vm_compute. repeat split; reflexivity.
      - injection H as <-. vm_compute. repeat split; reflexivity.
      - destruct i; discriminate H. }
    split; [intros _; vm_compute; split; discriminate|].
    vm_compute. lia.
  Qed.

  Example rc_example_repair :
    let r := par2_repair toy_md5 ix true (io_init fs2 []) in
    fst r = (Ok tt, [bs "/w/a"]) /\ fs_lookup (io_fs (snd r)) (bs "/w/a") = Some [1; 2; 3; 4; 5]%N.
  Proof. vm_compute. split; reflexivity. Qed.

  (* RC3 applies to this state (for either setting of the double-check), without running Repair *)
  Example rc_example_by_theorem : forall dbl, exists r rp st',
    par2_repair toy_md5 ix dbl (io_init fs2 []) = ((r, rp), st') /\
    (r = Err ESingular \/
     (r = Ok tt /\ forall info, In info (d_rec (ds_dec loaded)) ->
        exists data, fs_lookup (io_fs st') (file_path ix (di_name info)) = Some data /\ recorded toy_md5 info data)).
  Proof.
    intros dbl. destruct rc_example_loaded as (_ & _ & HL & _).
    assert (E : load_all toy_md5 ix (io_init fs2 []) = (Ok loaded, snd (load_all toy_md5 ix (io_init fs2 []))))
      by (rewrite <- HL; apply surjective_pairing).
    destruct rc_example_premises as (P1 & P2 & P3 & P4 & P5 & P6 & P7 & P8).
    apply (repair_within_capacity_restores toy_md5 ix dbl fs2 loaded _ orig 2 E P1 P2 P3 P4 P5 P6 P7 P8).
    vm_compute. constructor; [intros [H|[]]; discriminate H|]. constructor; [intros []|constructor].
  Qed.

  (* the hash-level premises of RC2 hold on this state as well (for the stand-in digest) *)
  Lemma fs_lookup_in : forall (f : list (list N * bytes)) p dat, fs_lookup f p = Some dat -> exists q, In (q, dat) f.
  Proof.
    induction f as [|[q e] f IH]; intros p dat H; cbn [fs_lookup] in H; [discriminate H|].
    destruct (str_eqb q p).
    - injection H as <-. exists q. left. reflexivity.
    - destruct (IH _ _ H) as [q' Hq]. exists q'. right. exact Hq.
  Qed.

  Example rc_example_fs_bytes : forall p dat, fs_lookup fs2 p = Some dat -> wf_bytes dat.
  Proof.
    assert (H : forallb (fun e : list N * bytes => forallb (fun b => (b <? 256)%N) (snd e)) fs2 = true)
      by (vm_compute; reflexivity).
    intros p dat Hl. destruct (fs_lookup_in _ _ _ Hl) as [q Hq].
    rewrite forallb_forall in H. specialize (H _ Hq). cbn [snd] in H. rewrite forallb_forall in H.
    apply Forall_forall. intros b Hb. apply N.ltb_lt. exact (H b Hb).
  Qed.

  Example rc_example_ids_distinct : NoDup (map di_id (d_rec (ds_dec loaded))).
  Proof. vm_compute. constructor; [intros [H|[]]; discriminate H|]. constructor; [intros []|constructor]. Qed.

  Example rc_example_collision_free : forall k w,
    length w = N.to_nat (d_slice (ds_dec loaded)) -> wf_bytes w ->
    nth_error (flat_map di_pairs (d_rec (ds_dec loaded))) k = Some (toy_md5 w, crc32 w) -> w = nth k orig [].
  Proof.
    assert (E : flat_map di_pairs (d_rec (ds_dec loaded)) =
                [([46; 53; 60; 67; 0; 0; 0; 0; 0; 0; 0; 0; 0; 0; 0; 0], 2959451369);
                 ([11; 18; 25; 32; 0; 0; 0; 0; 0; 0; 0; 0; 0; 0; 0; 0], 3057449933);
                 ([39; 4; 4; 4; 0; 0; 0; 0; 0; 0; 0; 0; 0; 0; 0; 0], 379203374)]%N) by (vm_compute; reflexivity).
    assert (E4 : N.to_nat (d_slice (ds_dec loaded)) = 4) by (vm_compute; reflexivity).
    intros k w Hl Hw H. rewrite E in H. rewrite E4 in Hl. clear E E4.
    destruct w as [|a [|b [|c [|d [|x w]]]]]; try discriminate Hl.
    inversion Hw as [|? ? Ha Hw1]; subst. inversion Hw1 as [|? ? Hb Hw2]; subst.
    inversion Hw2 as [|? ? Hc Hw3]; subst. inversion Hw3 as [|? ? Hd _]; subst.
    unfold wf_byte in Ha, Hb, Hc, Hd.
    unfold toy_md5 in H. cbn [map length app firstn zeros repeat] in H.
    destruct k as [|[|[|k]]]; cbn [nth_error] in H; [| | |destruct k; discriminate H];
      injection H as Ea Eb Ec Ed _; unfold orig; cbn [nth];
      repeat f_equal; lia.
  Qed.
End RCExample.

(** * Why the two limits are premises: the loader enforces neither, and the reconstruction refuses beyond them *)
Module RCLimits.
  (* a recovery packet may carry the exponent 65535 ... *)
  Example read_recv_65535 : read_recv (le_encode 4 65535 ++ [1; 2; 3; 4]%N) = Ok (65535%N, [1; 2; 3; 4]%N).
  Proof. vm_compute. reflexivity. Qed.

  (* ... and then the recovery-block table indexed by exponent has 65536 entries *)
  Lemma parity_array_single n b : parity_array [(n, b)] = repeat None (N.to_nat n) ++ [Some b].
  Proof.
    unfold parity_array. cbn [fold_left fst]. rewrite N.max_0_l.
    rewrite seq_S, map_app. cbn [map Nat.add assoc_n]. rewrite N2Nat.id, N.eqb_refl. f_equal.
    assert (H : forall k m, k + m <= N.to_nat n ->
              map (fun e => assoc_n [(n, b)] (N.of_nat e)) (seq k m) = repeat None m).
    { intros k m. revert k. induction m as [|m IH]; intros k Hk; [reflexivity|].
      cbn [seq map repeat assoc_n]. rewrite IH by lia.
      destruct (N.eqb_spec n (N.of_nat k)) as [E|_]; [lia|reflexivity]. }
    apply H. lia.
  Qed.

  (* one slice missing, one block (of exponent 65535) available: within capacity, yet EOther *)
  Example repair_shards_exponent_65535_refuted :
    let shards := [Some [6; 7; 8; 9]; None; Some [5; 0; 0; 0]]%N in
    let parity := parity_array [(65535%N, [2; 5; 11; 13]%N)] in
    count_nones shards <= count_some parity /\ repair_shards shards parity false = Err EOther.
  Proof. cbv zeta. rewrite parity_array_single. vm_compute. split; [lia|reflexivity]. Qed.

  (* 32769 protected slices, one missing, one block available: within capacity, yet EOther *)
  Example repair_shards_32769_slices_refuted :
    let shards := repeat (Some [0; 0; 0; 0]%N) (N.to_nat 32768) ++ [None] in
    let parity := [Some [0; 0; 0; 0]%N] in
    count_nones shards <= count_some parity /\ repair_shards shards parity false = Err EOther.
  Proof. vm_compute. split; [lia|reflexivity]. Qed.
End RCLimits.

Print Assumptions RCExample.rc_example_loaded.
Print Assumptions RCExample.rc_example_premises.
Print Assumptions RCExample.rc_example_repair.
Print Assumptions RCExample.rc_example_by_theorem.
Print Assumptions RCExample.rc_example_fs_bytes.
Print Assumptions RCExample.rc_example_ids_distinct.
Print Assumptions RCExample.rc_example_collision_free.
Print Assumptions RCLimits.parity_array_single.
Print Assumptions RCLimits.repair_shards_exponent_65535_refuted.
Print Assumptions RCLimits.repair_shards_32769_slices_refuted.
