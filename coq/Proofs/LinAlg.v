(* Linear algebra over lists for a field whose addition is xor on N and whose
   multiplication is a parameter satisfying the field laws on {x | x < B}. *)
From Coq Require Import Lia.
From Gopar Require Import Model.Base Model.Matrix Model.RS16.
Open Scope N_scope.
Set Default Timeout 120.

Section LinAlg.
  Variable B : N.
  Variable mul : N -> N -> N.
  Variable inv : N -> N.
  Hypothesis B1 : 1 < B.
  Hypothesis xor_closed : forall a b, a < B -> b < B -> N.lxor a b < B.
  Hypothesis mul_closed : forall a b, a < B -> b < B -> mul a b < B.
  Hypothesis mul_comm : forall a b, a < B -> b < B -> mul a b = mul b a.
  Hypothesis mul_assoc : forall a b c, a < B -> b < B -> c < B -> mul (mul a b) c = mul a (mul b c).
  Hypothesis mul_lxor_r : forall a b c, a < B -> b < B -> c < B ->
    mul a (N.lxor b c) = N.lxor (mul a b) (mul a c).
  Hypothesis mul_1_l : forall a, a < B -> mul 1 a = a.
  Hypothesis inv_closed : forall a, 0 < a < B -> inv a < B.
  Hypothesis mul_inv : forall a, 0 < a < B -> mul a (inv a) = 1.

  Notation vscale := (vscale mul).
  Notation lincomb := (lincomb mul).
  Notation mmul := (mmul mul).

  Definition wfe (x : N) : Prop := x < B.
  Definition wfv (n : nat) (v : vec) : Prop := length v = n /\ Forall wfe v.
  Definition wfm (r c : nat) (m : matrix) : Prop := length m = r /\ Forall (wfv c) m.

  Lemma wfe0 : wfe 0. Proof. unfold wfe. lia. Qed.
  Lemma wfe1 : wfe 1. Proof. exact B1. Qed.

  Lemma mul_0_r a : a < B -> mul a 0 = 0.
  Proof.
    intros Ha. pose proof (mul_lxor_r a 0 0 Ha wfe0 wfe0) as H. rewrite N.lxor_0_l in H.
    rewrite H. apply N.lxor_nilpotent.
  Qed.
  Lemma mul_0_l a : a < B -> mul 0 a = 0.
  Proof. intros Ha. rewrite mul_comm by (try exact Ha; apply wfe0). apply mul_0_r. exact Ha. Qed.
  Lemma mul_lxor_l a b c : a < B -> b < B -> c < B ->
    mul (N.lxor a b) c = N.lxor (mul a c) (mul b c).
  Proof.
    intros Ha Hb Hc. rewrite mul_comm by (try apply xor_closed; assumption).
    rewrite mul_lxor_r by assumption. rewrite (mul_comm c a), (mul_comm c b) by assumption. reflexivity.
  Qed.
  Lemma mul_1_r a : a < B -> mul a 1 = a.
  Proof. intros Ha. rewrite mul_comm by (try exact Ha; apply wfe1). apply mul_1_l. exact Ha. Qed.

  (** ** vectors *)

  Lemma wfv_nil : wfv 0 []. Proof. split; [reflexivity|constructor]. Qed.
  Lemma wfv_cons n x v : wfe x -> wfv n v -> wfv (S n) (x :: v).
  Proof. intros Hx [Hl Hf]. split; [cbn; lia|constructor; assumption]. Qed.
  Lemma wfv_inv n x v : wfv (S n) (x :: v) -> wfe x /\ wfv n v.
  Proof. intros [Hl Hf]. inversion Hf; subst. cbn in Hl. split; [assumption|split; [lia|assumption]]. Qed.
  Lemma wfv_0 v : wfv 0 v -> v = [].
  Proof. intros [Hl _]. destruct v; [reflexivity|discriminate]. Qed.

  Lemma zeros_wf n : wfv n (zeros n).
  Proof. unfold zeros. split; [apply repeat_length|]. apply Forall_forall. intros x Hx.
         apply repeat_spec in Hx. subst. apply wfe0. Qed.

  Lemma vadd_wf n a b : wfv n a -> wfv n b -> wfv n (vadd a b).
  Proof.
    revert a b. induction n as [|n IH]; intros a b Ha Hb.
    - rewrite (wfv_0 a Ha), (wfv_0 b Hb). apply wfv_nil.
    - destruct a as [|x a]; [destruct Ha; discriminate|]. destruct b as [|y b]; [destruct Hb; discriminate|].
      apply wfv_inv in Ha. apply wfv_inv in Hb. destruct Ha as [Hx Ha]. destruct Hb as [Hy Hb].
      cbn. apply wfv_cons; [apply xor_closed; assumption|apply IH; assumption].
  Qed.

  Lemma vadd_comm a : forall b, vadd a b = vadd b a.
  Proof. induction a as [|x a IH]; intros [|y b]; try reflexivity. cbn. rewrite N.lxor_comm. f_equal. apply IH. Qed.
  Lemma vadd_assoc a : forall b c, vadd (vadd a b) c = vadd a (vadd b c).
  Proof. induction a as [|x a IH]; intros [|y b] [|z c]; try reflexivity. cbn. rewrite N.lxor_assoc. f_equal. apply IH. Qed.
  Lemma vadd_self a : vadd a a = zeros (length a).
  Proof. induction a as [|x a IH]; [reflexivity|]. cbn. rewrite N.lxor_nilpotent. f_equal. exact IH. Qed.
  Lemma vadd_zeros_r a : vadd a (zeros (length a)) = a.
  Proof. induction a as [|x a IH]; [reflexivity|]. cbn. rewrite N.lxor_0_r. f_equal. exact IH. Qed.
  Lemma vadd_zeros_l a : vadd (zeros (length a)) a = a.
  Proof. rewrite vadd_comm. apply vadd_zeros_r. Qed.
  Lemma vadd_cancel a b : length a = length b -> vadd (vadd a b) b = a.
  Proof. intros H. rewrite vadd_assoc, vadd_self, <- H. apply vadd_zeros_r. Qed.

  Lemma vscale_wf n c v : wfe c -> wfv n v -> wfv n (vscale c v).
  Proof.
    intros Hc [Hl Hf]. split; [unfold Matrix.vscale; rewrite map_length; exact Hl|].
    unfold Matrix.vscale. apply Forall_forall. intros x Hx. apply in_map_iff in Hx.
    destruct Hx as [y [<- Hy]]. apply mul_closed; [exact Hc|]. eapply Forall_forall in Hf; eauto.
  Qed.
  Lemma vscale_length c v : length (vscale c v) = length v.
  Proof. apply map_length. Qed.

  Lemma vscale_vadd n c a b : wfe c -> wfv n a -> wfv n b ->
    vscale c (vadd a b) = vadd (vscale c a) (vscale c b).
  Proof.
    intros Hc. revert a b. induction n as [|n IH]; intros a b Ha Hb.
    - rewrite (wfv_0 a Ha), (wfv_0 b Hb). reflexivity.
    - destruct a as [|x a]; [destruct Ha; discriminate|]. destruct b as [|y b]; [destruct Hb; discriminate|].
      apply wfv_inv in Ha. apply wfv_inv in Hb. destruct Ha as [Hx Ha]. destruct Hb as [Hy Hb].
      cbn. rewrite mul_lxor_r by assumption. f_equal. apply IH; assumption.
  Qed.
  Lemma vscale_vscale n a b v : wfe a -> wfe b -> wfv n v -> vscale a (vscale b v) = vscale (mul a b) v.
  Proof.
    intros Ha Hb [_ Hf]. unfold Matrix.vscale. rewrite map_map. apply map_ext_in. intros x Hx.
    symmetry. apply mul_assoc; try assumption. eapply Forall_forall in Hf; eauto.
  Qed.
  Lemma vscale_1 n v : wfv n v -> vscale 1 v = v.
  Proof.
    intros [_ Hf]. unfold Matrix.vscale. rewrite <- (map_id v) at 2. apply map_ext_in. intros x Hx.
    apply mul_1_l. eapply Forall_forall in Hf; eauto.
  Qed.
  Lemma vscale_0 n v : wfv n v -> vscale 0 v = zeros n.
  Proof.
    intros [Hl Hf]. subst n. unfold Matrix.vscale, zeros. induction v as [|x v IH]; [reflexivity|].
    inversion Hf; subst. cbn. rewrite mul_0_l by assumption. f_equal. apply IH. assumption.
  Qed.
  Lemma vscale_zeros c n : wfe c -> vscale c (zeros n) = zeros n.
  Proof. intros Hc. unfold Matrix.vscale, zeros. induction n as [|n IH]; [reflexivity|]. cbn. rewrite mul_0_r by exact Hc. f_equal. exact IH. Qed.
  Lemma vscale_lxor n a b v : wfe a -> wfe b -> wfv n v ->
    vscale (N.lxor a b) v = vadd (vscale a v) (vscale b v).
  Proof.
    intros Ha Hb [_ Hf]. unfold Matrix.vscale. induction v as [|x v IH]; [reflexivity|].
    inversion Hf; subst. cbn. rewrite mul_lxor_l by assumption. f_equal. apply IH. assumption.
  Qed.

  (** ** matrices *)

  Lemma wfm_nil c : wfm 0 c []. Proof. split; [reflexivity|constructor]. Qed.
  Lemma wfm_cons r c x m : wfv c x -> wfm r c m -> wfm (S r) c (x :: m).
  Proof. intros Hx [Hl Hf]. split; [cbn; lia|constructor; assumption]. Qed.
  Lemma wfm_inv r c x m : wfm (S r) c (x :: m) -> wfv c x /\ wfm r c m.
  Proof. intros [Hl Hf]. inversion Hf; subst. cbn in Hl. split; [assumption|split; [lia|assumption]]. Qed.
  Lemma wfm_0 c m : wfm 0 c m -> m = [].
  Proof. intros [Hl _]. destruct m; [reflexivity|discriminate]. Qed.
  Lemma wfm_nth r c m i : wfm r c m -> (i < r)%nat -> wfv c (nth i m []).
  Proof. intros [Hl Hf] Hi. eapply Forall_forall in Hf; [exact Hf|]. apply nth_In. lia. Qed.

  Lemma lincomb_wf c : forall k r X, wfv k r -> wfm k c X -> wfv c (lincomb c r X).
  Proof.
    induction k as [|k IH]; intros r X Hr HX.
    - rewrite (wfv_0 r Hr). apply zeros_wf.
    - destruct r as [|a r]; [destruct Hr; discriminate|]. destruct X as [|x X]; [destruct HX; discriminate|].
      apply wfv_inv in Hr. apply wfm_inv in HX. destruct Hr as [Ha Hr]. destruct HX as [Hx HX].
      cbn. apply vadd_wf; [apply vscale_wf; assumption|apply IH; assumption].
  Qed.

  Ltac wf := repeat (first
    [ assumption | apply wfe0 | apply wfe1 | apply zeros_wf | apply vadd_wf | apply vscale_wf
    | (eapply lincomb_wf; [|eassumption]) | (eapply wfm_nth; [eassumption|]) | lia
    | (apply inv_closed) | (unfold wfe; lia) ]).

  Lemma mmul_wf r k c M X : wfm r k M -> wfm k c X -> wfm r c (mmul c M X).
  Proof.
    intros [Hl Hf] HX. split; [unfold Matrix.mmul; rewrite map_length; exact Hl|].
    unfold Matrix.mmul. apply Forall_forall. intros v Hv. apply in_map_iff in Hv.
    destruct Hv as [u [<- Hu]]. apply (lincomb_wf c k); [|exact HX]. eapply Forall_forall in Hf; eauto.
  Qed.

  (* (a + a') X = a X + a' X *)
  Lemma lincomb_vadd c : forall k r r' X, wfv k r -> wfv k r' -> wfm k c X ->
    lincomb c (vadd r r') X = vadd (lincomb c r X) (lincomb c r' X).
  Proof.
    induction k as [|k IH]; intros r r' X Hr Hr' HX.
    - rewrite (wfv_0 r Hr), (wfv_0 r' Hr'). cbn. rewrite vadd_self. unfold zeros. rewrite repeat_length. reflexivity.
    - destruct r as [|a r]; [destruct Hr; discriminate|]. destruct r' as [|a' r']; [destruct Hr'; discriminate|].
      destruct X as [|x X]; [destruct HX; discriminate|].
      apply wfv_inv in Hr. apply wfv_inv in Hr'. apply wfm_inv in HX.
      destruct Hr as [Ha Hr]. destruct Hr' as [Ha' Hr']. destruct HX as [Hx HX].
      cbn. rewrite (IH r r' X) by assumption. rewrite (vscale_lxor c) by assumption.
      set (u := vscale a x). set (u' := vscale a' x).
      set (w := lincomb c r X). set (w' := lincomb c r' X).
      rewrite !vadd_assoc. f_equal. rewrite <- !vadd_assoc. f_equal. apply vadd_comm.
  Qed.

  Lemma lincomb_vscale c : forall k a r X, wfe a -> wfv k r -> wfm k c X ->
    lincomb c (vscale a r) X = vscale a (lincomb c r X).
  Proof.
    induction k as [|k IH]; intros a r X Ha Hr HX.
    - rewrite (wfv_0 r Hr). cbn. symmetry. apply vscale_zeros. exact Ha.
    - destruct r as [|b r]; [destruct Hr; discriminate|]. destruct X as [|x X]; [destruct HX; discriminate|].
      apply wfv_inv in Hr. apply wfm_inv in HX. destruct Hr as [Hb Hr]. destruct HX as [Hx HX].
      change (lincomb c (vscale a (b :: r)) (x :: X)) with (xorl (vscale (mul a b) x) (lincomb c (vscale a r) X)).
      change (lincomb c (b :: r) (x :: X)) with (xorl (vscale b x) (lincomb c r X)).
      rewrite (IH a r X) by assumption.
      rewrite (vscale_vadd c) by wf.
      rewrite (vscale_vscale c) by assumption. reflexivity.
  Qed.

  Lemma lincomb_zeros c : forall k X, wfm k c X -> lincomb c (zeros k) X = zeros c.
  Proof.
    induction k as [|k IH]; intros X HX; [reflexivity|].
    destruct X as [|x X]; [destruct HX; discriminate|]. apply wfm_inv in HX. destruct HX as [Hx HX].
    change (zeros (S k)) with (0 :: zeros k). cbn [Matrix.lincomb].
    rewrite (IH X HX), (vscale_0 c) by exact Hx.
    pose proof (vadd_self (zeros c)) as E.
    replace (length (zeros c)) with c in E by (symmetry; apply repeat_length). exact E.
  Qed.

  (* (r A) B = r (A B) *)
  Lemma lincomb_assoc c1 c2 : forall k r A Bm, wfv k r -> wfm k c1 A -> wfm c1 c2 Bm ->
    lincomb c2 (lincomb c1 r A) Bm = lincomb c2 r (mmul c2 A Bm).
  Proof.
    induction k as [|k IH]; intros r A Bm Hr HA HB.
    - rewrite (wfv_0 r Hr). cbn. apply (lincomb_zeros c2 c1). exact HB.
    - destruct r as [|a r]; [destruct Hr; discriminate|]. destruct A as [|x A]; [destruct HA; discriminate|].
      apply wfv_inv in Hr. apply wfm_inv in HA. destruct Hr as [Ha Hr]. destruct HA as [Hx HA].
      cbn. rewrite (lincomb_vadd c2 c1) by wf.
      rewrite (lincomb_vscale c2 c1) by assumption. rewrite (IH r A Bm) by assumption. reflexivity.
  Qed.

  Lemma mmul_assoc r k c1 c2 M A Bm : wfm r k M -> wfm k c1 A -> wfm c1 c2 Bm ->
    mmul c2 (mmul c1 M A) Bm = mmul c2 M (mmul c2 A Bm).
  Proof.
    intros [Hl Hf] HA HB. unfold Matrix.mmul. rewrite map_map. apply map_ext_in. intros v Hv.
    apply (lincomb_assoc c1 c2 k); try assumption. eapply Forall_forall in Hf; eauto.
  Qed.

  Lemma mmul_nth c M X i : (i < length M)%nat -> nth i (mmul c M X) [] = lincomb c (nth i M []) X.
  Proof.
    intros Hi. unfold Matrix.mmul. rewrite (nth_indep _ [] (lincomb c [] X)) by (rewrite map_length; exact Hi).
    apply (map_nth (fun r => lincomb c r X)).
  Qed.

  (** ** upd *)
  Lemma upd_length {A} i (x : A) l : length (upd i x l) = length l.
  Proof. revert i. induction l as [|h t IH]; intros [|i]; cbn; try reflexivity. rewrite IH. reflexivity. Qed.
  Lemma nth_upd_eq {A} i (x d : A) l : (i < length l)%nat -> nth i (upd i x l) d = x.
  Proof. revert i. induction l as [|h t IH]; intros [|i] H; cbn in *; try lia; [reflexivity|]. apply IH. lia. Qed.
  Lemma nth_upd_ne {A} i j (x d : A) l : i <> j -> nth j (upd i x l) d = nth j l d.
  Proof. revert i j. induction l as [|h t IH]; intros [|i] [|j] H; cbn; try reflexivity; try lia. apply IH. lia. Qed.
  Lemma map_upd {A C} (f : A -> C) i x l : map f (upd i x l) = upd i (f x) (map f l).
  Proof. revert i. induction l as [|h t IH]; intros [|i]; cbn; try reflexivity. rewrite IH. reflexivity. Qed.
  Lemma upd_upd {A} i (x y : A) l : upd i x (upd i y l) = upd i x l.
  Proof. revert i. induction l as [|h t IH]; intros [|i]; cbn; try reflexivity. rewrite IH. reflexivity. Qed.
  Lemma upd_nth_id {A} i (d : A) l : upd i (nth i l d) l = l.
  Proof. revert i. induction l as [|h t IH]; intros [|i]; cbn; try reflexivity. rewrite IH. reflexivity. Qed.
  Lemma upd_In {A} i (x : A) l y : In y (upd i x l) -> y = x \/ In y l.
  Proof.
    revert i. induction l as [|h t IH]; intros [|i] H; cbn in *; try tauto.
    - destruct H as [H|H]; [left; symmetry; exact H|right; right; exact H].
    - destruct H as [H|H]; [right; left; exact H|]. destruct (IH i H); tauto.
  Qed.
  Lemma upd_wfm r c i x m : wfm r c m -> wfv c x -> wfm r c (upd i x m).
  Proof.
    intros [Hl Hf] Hx. split; [rewrite upd_length; exact Hl|]. apply Forall_forall. intros y Hy.
    apply upd_In in Hy. destruct Hy as [->|Hy]; [exact Hx|]. eapply Forall_forall in Hf; eauto.
  Qed.
  Lemma list_ext {A} (d : A) l l' : length l = length l' ->
    (forall i, (i < length l)%nat -> nth i l d = nth i l' d) -> l = l'.
  Proof.
    revert l'. induction l as [|h t IH]; intros [|h' t'] Hl H; try discriminate; [reflexivity|].
    f_equal; [apply (H 0%nat); cbn; lia|]. apply IH; [cbn in Hl; lia|].
    intros i Hi. apply (H (S i)). cbn. lia.
  Qed.

  (** ** row operations commute with right multiplication and are injective *)

  Notation swap_rows := (@Matrix.swap_rows).
  Notation scale_row := (Matrix.scale_row mul).
  Notation add_scaled_row := (Matrix.add_scaled_row mul).

  Lemma swap_wf r c i j m : wfm r c m -> (i < r)%nat -> (j < r)%nat -> wfm r c (swap_rows i j m).
  Proof. intros H Hi Hj. unfold Matrix.swap_rows. apply upd_wfm; [apply upd_wfm; [exact H|]|]; eapply wfm_nth; eauto. Qed.
  Lemma scale_wf r c i a m : wfm r c m -> (i < r)%nat -> wfe a -> wfm r c (scale_row i a m).
  Proof. intros H Hi Ha. unfold Matrix.scale_row. apply upd_wfm; [exact H|]. apply vscale_wf; [exact Ha|]. eapply wfm_nth; eauto. Qed.
  Lemma addscaled_wf r c d s a m : wfm r c m -> (d < r)%nat -> (s < r)%nat -> wfe a ->
    wfm r c (add_scaled_row d s a m).
  Proof.
    intros H Hd Hs Ha. unfold Matrix.add_scaled_row. apply upd_wfm; [exact H|].
    apply vadd_wf; [eapply wfm_nth; eauto|apply vscale_wf; [exact Ha|eapply wfm_nth; eauto]].
  Qed.

  Lemma swap_mmul r k c i j m X : wfm r k m -> (i < r)%nat -> (j < r)%nat ->
    mmul c (swap_rows i j m) X = swap_rows i j (mmul c m X).
  Proof.
    intros [Hl _] Hi Hj. unfold Matrix.swap_rows, Matrix.mmul at 1. rewrite !map_upd.
    fold (mmul c m X). rewrite !mmul_nth by lia. reflexivity.
  Qed.
  Lemma scale_mmul r k c i a m X : wfm r k m -> wfm k c X -> (i < r)%nat -> wfe a ->
    mmul c (scale_row i a m) X = scale_row i a (mmul c m X).
  Proof.
    intros Hm HX Hi Ha. pose proof Hm as [Hl _]. unfold Matrix.scale_row, Matrix.mmul at 1. rewrite map_upd.
    fold (mmul c m X). rewrite mmul_nth by lia. f_equal.
    apply (lincomb_vscale c k); wf.
  Qed.
  Lemma addscaled_mmul r k c d s a m X : wfm r k m -> wfm k c X -> (d < r)%nat -> (s < r)%nat -> wfe a ->
    mmul c (add_scaled_row d s a m) X = add_scaled_row d s a (mmul c m X).
  Proof.
    intros Hm HX Hd Hs Ha. pose proof Hm as [Hl _]. unfold Matrix.add_scaled_row, Matrix.mmul at 1. rewrite map_upd.
    fold (mmul c m X). rewrite !mmul_nth by lia. f_equal.
    rewrite (lincomb_vadd c k) by wf.
    rewrite (lincomb_vscale c k) by wf. reflexivity.
  Qed.

  Lemma nth_swap i j t (m : matrix) : (i < length m)%nat -> (j < length m)%nat ->
    nth t (swap_rows i j m) [] =
      if Nat.eqb t i then nth j m [] else if Nat.eqb t j then nth i m [] else nth t m [].
  Proof.
    intros Hi Hj. unfold Matrix.swap_rows.
    destruct (Nat.eqb_spec t i) as [->|Nti].
    - apply nth_upd_eq. rewrite upd_length. exact Hi.
    - rewrite (nth_upd_ne i t) by lia. destruct (Nat.eqb_spec t j) as [->|Ntj].
      + apply nth_upd_eq. exact Hj.
      + apply nth_upd_ne. lia.
  Qed.
  Lemma swap_length i j (m : matrix) : length (swap_rows i j m) = length m.
  Proof. unfold Matrix.swap_rows. rewrite !upd_length. reflexivity. Qed.

  Lemma swap_invol r c i j m : wfm r c m -> (i < r)%nat -> (j < r)%nat ->
    swap_rows i j (swap_rows i j m) = m.
  Proof.
    intros [Hl _] Hi Hj. apply (list_ext []).
    - rewrite !swap_length. reflexivity.
    - intros t Ht. rewrite !swap_length in Ht.
      rewrite nth_swap by (rewrite swap_length; lia).
      rewrite !nth_swap by lia.
      destruct (Nat.eqb_spec t i) as [->|Nti].
      + rewrite Nat.eqb_refl. destruct (Nat.eqb_spec j i) as [->|Nji]; reflexivity.
      + destruct (Nat.eqb_spec t j) as [->|Ntj].
        * rewrite Nat.eqb_refl. reflexivity.
        * reflexivity.
  Qed.

  Lemma scale_undo r c i a m : wfm r c m -> (i < r)%nat -> 0 < a < B ->
    scale_row i a (scale_row i (inv a) m) = m.
  Proof.
    intros Hm Hi Ha. pose proof Hm as [Hl _]. unfold Matrix.scale_row.
    rewrite nth_upd_eq by lia. rewrite upd_upd.
    rewrite (vscale_vscale c) by wf.
    rewrite mul_inv by exact Ha. rewrite (vscale_1 c) by wf. apply upd_nth_id.
  Qed.
  Lemma scale_undo' r c i a m : wfm r c m -> (i < r)%nat -> 0 < a < B ->
    scale_row i (inv a) (scale_row i a m) = m.
  Proof.
    intros Hm Hi Ha. pose proof Hm as [Hl _]. unfold Matrix.scale_row.
    rewrite nth_upd_eq by lia. rewrite upd_upd.
    rewrite (vscale_vscale c) by wf.
    rewrite mul_comm, mul_inv by wf.
    rewrite (vscale_1 c) by wf. apply upd_nth_id.
  Qed.

  Lemma addscaled_invol r c d s a m : wfm r c m -> (d < r)%nat -> (s < r)%nat -> d <> s -> wfe a ->
    add_scaled_row d s a (add_scaled_row d s a m) = m.
  Proof.
    intros Hm Hd Hs Nds Ha. pose proof Hm as [Hl _]. unfold Matrix.add_scaled_row.
    rewrite nth_upd_eq by lia. rewrite (nth_upd_ne d s) by exact Nds. rewrite upd_upd.
    rewrite vadd_cancel.
    - apply upd_nth_id.
    - rewrite vscale_length. destruct (wfm_nth r c m d Hm Hd) as [L1 _].
      destruct (wfm_nth r c m s Hm Hs) as [L2 _]. lia.
  Qed.

  (** ** entries *)
  Notation ent := Matrix.ent.

  Lemma nth_xorl a : forall b col, length a = length b ->
    nth col (xorl a b) 0 = N.lxor (nth col a 0) (nth col b 0).
  Proof.
    induction a as [|x a IH]; intros [|y b] col Hl; try discriminate.
    - destruct col; reflexivity.
    - destruct col as [|col]; [reflexivity|]. cbn. apply IH. cbn in Hl. lia.
  Qed.
  Lemma nth_vscale a v col : wfe a -> nth col (vscale a v) 0 = mul a (nth col v 0).
  Proof.
    intros Ha. unfold Matrix.vscale. revert col. induction v as [|x v IH]; intros [|col]; cbn;
      try (symmetry; apply mul_0_r; exact Ha); try reflexivity. apply IH.
  Qed.

  Lemma ent_upd i x (m : matrix) r col : (i < length m)%nat ->
    ent (upd i x m) r col = if Nat.eqb r i then nth col x 0 else ent m r col.
  Proof.
    intros Hi. unfold Matrix.ent. destruct (Nat.eqb_spec r i) as [->|Ne].
    - rewrite nth_upd_eq by exact Hi. reflexivity.
    - rewrite nth_upd_ne by lia. reflexivity.
  Qed.

  Lemma ent_swap rr c i j m r col : wfm rr c m -> (i < rr)%nat -> (j < rr)%nat ->
    ent (swap_rows i j m) r col =
      if Nat.eqb r i then ent m j col else if Nat.eqb r j then ent m i col else ent m r col.
  Proof.
    intros [Hl _] Hi Hj. unfold Matrix.ent. rewrite nth_swap by lia.
    destruct (Nat.eqb r i); [reflexivity|]. destruct (Nat.eqb r j); reflexivity.
  Qed.
  Lemma ent_scale rr c i a m r col : wfm rr c m -> (i < rr)%nat -> wfe a ->
    ent (scale_row i a m) r col = if Nat.eqb r i then mul a (ent m i col) else ent m r col.
  Proof.
    intros [Hl _] Hi Ha. unfold Matrix.scale_row. rewrite ent_upd by lia.
    destruct (Nat.eqb r i); [|reflexivity]. apply nth_vscale. exact Ha.
  Qed.
  Lemma ent_addscaled rr c d s a m r col : wfm rr c m -> (d < rr)%nat -> (s < rr)%nat -> wfe a ->
    ent (add_scaled_row d s a m) r col =
      if Nat.eqb r d then N.lxor (ent m d col) (mul a (ent m s col)) else ent m r col.
  Proof.
    intros Hm Hd Hs Ha. pose proof Hm as [Hl _]. unfold Matrix.add_scaled_row. rewrite ent_upd by lia.
    destruct (Nat.eqb r d); [|reflexivity].
    rewrite nth_xorl.
    - rewrite nth_vscale by exact Ha. reflexivity.
    - rewrite vscale_length. destruct (wfm_nth rr c m d Hm Hd) as [L1 _].
      destruct (wfm_nth rr c m s Hm Hs) as [L2 _]. lia.
  Qed.
  Lemma ent_wf rr c m r col : wfm rr c m -> wfe (ent m r col).
  Proof.
    intros [Hl Hf]. unfold Matrix.ent.
    destruct (Nat.lt_ge_cases r (length m)) as [Hr|Hr].
    - assert (Hv : wfv c (nth r m [])) by (eapply Forall_forall in Hf; [exact Hf|apply nth_In; exact Hr]).
      destruct Hv as [Lv Fv]. destruct (Nat.lt_ge_cases col (length (nth r m []))) as [Hc|Hc].
      + eapply Forall_forall in Fv; [exact Fv|apply nth_In; exact Hc].
      + rewrite nth_overflow by exact Hc. apply wfe0.
    - rewrite (nth_overflow m) by exact Hr. destruct col; apply wfe0.
  Qed.

  Lemma addscaled_zero rr c d s m : wfm rr c m -> (d < rr)%nat -> (s < rr)%nat ->
    add_scaled_row d s 0 m = m.
  Proof.
    intros Hm Hd Hs. unfold Matrix.add_scaled_row.
    destruct (wfm_nth rr c m d Hm Hd) as [L1 F1].
    rewrite (vscale_0 c) by (eapply wfm_nth; eauto). rewrite <- L1, vadd_zeros_r. apply upd_nth_id.
  Qed.

  (** ** the solution set {X | m X = n} is invariant under the reduction *)

  Definition sol_eq (r c : nat) (m n m' n' : matrix) : Prop :=
    forall X, wfm r c X -> (mmul c m X = n <-> mmul c m' X = n').

  Lemma sol_eq_refl r c m n : sol_eq r c m n m n.
  Proof. intros X _. tauto. Qed.
  Lemma sol_eq_trans r c m1 n1 m2 n2 m3 n3 :
    sol_eq r c m1 n1 m2 n2 -> sol_eq r c m2 n2 m3 n3 -> sol_eq r c m1 n1 m3 n3.
  Proof. intros H1 H2 X HX. rewrite (H1 X HX). apply H2. exact HX. Qed.

  (* a row operation f with a left inverse g that commutes with right multiplication *)
  Lemma sol_eq_op r c (f g : matrix -> matrix) m n :
    wfm r r m -> wfm r c n ->
    (forall y, wfm r c y -> g (f y) = y) ->
    (forall X, wfm r c X -> mmul c (f m) X = f (mmul c m X)) ->
    sol_eq r c (f m) (f n) m n.
  Proof.
    intros Hm Hn Hg Hc X HX. rewrite (Hc X HX). split.
    - intros E. apply (f_equal g) in E. rewrite !Hg in E; [exact E|exact Hn|].
      apply (mmul_wf r r c); assumption.
    - intros E. rewrite E. reflexivity.
  Qed.

  Lemma sol_eq_swap r c i j m n : wfm r r m -> wfm r c n -> (i < r)%nat -> (j < r)%nat ->
    sol_eq r c (swap_rows i j m) (swap_rows i j n) m n.
  Proof.
    intros Hm Hn Hi Hj. apply (sol_eq_op r c (swap_rows i j) (swap_rows i j)); try assumption.
    - intros y Hy. apply (swap_invol r c); assumption.
    - intros X HX. apply (swap_mmul r r); assumption.
  Qed.
  Lemma sol_eq_scale r c i a m n : wfm r r m -> wfm r c n -> (i < r)%nat -> 0 < a < B ->
    sol_eq r c (scale_row i (inv a) m) (scale_row i (inv a) n) m n.
  Proof.
    intros Hm Hn Hi Ha. apply (sol_eq_op r c (scale_row i (inv a)) (scale_row i a)); try assumption.
    - intros y Hy. apply (scale_undo r c); assumption.
    - intros X HX. apply (scale_mmul r r); try assumption. apply inv_closed. exact Ha.
  Qed.
  Lemma sol_eq_addscaled r c d s a m n : wfm r r m -> wfm r c n -> (d < r)%nat -> (s < r)%nat ->
    d <> s -> wfe a ->
    sol_eq r c (add_scaled_row d s a m) (add_scaled_row d s a n) m n.
  Proof.
    intros Hm Hn Hd Hs Nds Ha.
    apply (sol_eq_op r c (add_scaled_row d s a) (add_scaled_row d s a)); try assumption.
    - intros y Hy. apply (addscaled_invol r c); assumption.
    - intros X HX. apply (addscaled_mmul r r); assumption.
  Qed.

  (** ** eliminate *)
  Notation eliminate := (Matrix.eliminate mul).

  Lemma eliminate_spec r c i : forall cnt lo m n, wfm r r m -> wfm r c n ->
    (i < r)%nat -> (lo + cnt <= r)%nat -> (i < lo \/ lo + cnt <= i)%nat ->
    let mn' := eliminate i lo cnt (m, n) in
    wfm r r (fst mn') /\ wfm r c (snd mn') /\ sol_eq r c (fst mn') (snd mn') m n /\
    (forall t col, ent (fst mn') t col =
       if (Nat.leb lo t && Nat.ltb t (lo + cnt))%bool
       then N.lxor (ent m t col) (mul (ent m t i) (ent m i col)) else ent m t col).
  Proof.
    induction cnt as [|cnt IH]; intros lo m n Hm Hn Hi Hlo Hout.
    - cbv zeta. cbn [Matrix.eliminate fst snd].
      split; [exact Hm|]. split; [exact Hn|]. split; [apply sol_eq_refl|].
      intros t col. destruct (Nat.leb_spec lo t) as [E1|E1]; [|reflexivity].
      destruct (Nat.ltb_spec t (lo + 0)); [lia|reflexivity].
    - cbv zeta. cbn [Matrix.eliminate fst snd].
      set (a := ent m lo i).
      assert (Ha : wfe a) by (apply (ent_wf r r); exact Hm).
      assert (Hlo' : (lo < r)%nat) by lia. assert (Nlo : lo <> i) by lia.
      (* uniform treatment: adding 0 * row is the identity *)
      set (m1 := add_scaled_row lo i a m). set (n1 := add_scaled_row lo i a n).
      assert (Estep : (if negb (a =? 0) then (m1, n1) else (m, n)) = (m1, n1)).
      { destruct (N.eqb_spec a 0) as [Z|NZ]; cbn [negb]; [|reflexivity].
        unfold m1, n1. rewrite Z. rewrite (addscaled_zero r r), (addscaled_zero r c) by assumption. reflexivity. }
      rewrite Estep.
      assert (Hm1 : wfm r r m1) by (apply addscaled_wf; assumption).
      assert (Hn1 : wfm r c n1) by (apply addscaled_wf; assumption).
      destruct (IH (S lo) m1 n1 Hm1 Hn1 Hi ltac:(lia) ltac:(lia)) as (W1 & W2 & Sq & E).
      split; [exact W1|]. split; [exact W2|]. split.
      + eapply sol_eq_trans; [exact Sq|]. apply sol_eq_addscaled; assumption.
      + intros t col. rewrite E. unfold m1.
        rewrite !(ent_addscaled r r) by assumption.
        destruct (Nat.eqb_spec t lo) as [->|Nt].
        * replace (Nat.leb (S lo) lo) with false by (symmetry; apply Nat.leb_gt; lia). cbn [andb].
          rewrite Nat.leb_refl. replace (Nat.ltb lo (lo + S cnt)) with true by (symmetry; apply Nat.ltb_lt; lia).
          reflexivity.
        * destruct (Nat.eqb_spec i lo) as [Eil|_]; [lia|].
          destruct (Nat.leb_spec (S lo) t) as [L1|L1]; destruct (Nat.leb_spec lo t) as [L2|L2]; try lia; cbn [andb].
          -- replace (Nat.ltb t (S lo + cnt)) with (Nat.ltb t (lo + S cnt)) by (f_equal; lia). reflexivity.
          -- reflexivity.
  Qed.

  Ltac splits := repeat match goal with |- _ /\ _ => split end.

  (** ** first pass: echelon form *)
  Notation find_pivot := Matrix.find_pivot.
  Notation echelon := (Matrix.echelon mul inv).
  Notation reduce_above := (Matrix.reduce_above mul).

  Definition Ech (r i : nat) (m : matrix) : Prop :=
    forall col t, (col < i)%nat -> (t < r)%nat ->
      (t = col -> ent m t col = 1) /\ ((col < t)%nat -> ent m t col = 0).
  Definition Red (i : nat) (m : matrix) : Prop :=
    forall col t, (col < i)%nat -> (t < col)%nat -> ent m t col = 0.

  Lemma find_pivot_spec m i : forall fuel j,
    match find_pivot m i j fuel with
    | Some p => (j <= p < j + fuel)%nat /\ ent m p i <> 0
    | None => forall t, (j <= t < j + fuel)%nat -> ent m t i = 0
    end.
  Proof.
    induction fuel as [|f IH]; intros j; cbn [Matrix.find_pivot].
    - intros t Ht. lia.
    - destruct (N.eqb_spec (ent m j i) 0) as [Z|NZ]; cbn [negb].
      + specialize (IH (S j)). destruct (find_pivot m i (S j) f) as [p|].
        * destruct IH as [IH1 IH2]. split; [lia|exact IH2].
        * intros t Ht. destruct (Nat.eq_dec t j) as [->|Ne]; [exact Z|]. apply IH. lia.
      + split; [lia|exact NZ].
  Qed.

  Lemma lxor_self_mul1 x : wfe x -> N.lxor x (mul x 1) = 0.
  Proof. intros Hx. rewrite mul_1_r by exact Hx. apply N.lxor_nilpotent. Qed.

  Lemma echelon_step r c i m n j :
    wfm r r m -> wfm r c n -> (i <= j < r)%nat -> ent m j i <> 0 -> Ech r i m ->
    let m1 := swap_rows i j m in let n1 := swap_rows i j n in
    let pinv := inv (ent m1 i i) in
    let mn3 := Matrix.eliminate mul i (S i) (r - S i) (scale_row i pinv m1, scale_row i pinv n1) in
    wfm r r (fst mn3) /\ wfm r c (snd mn3) /\ sol_eq r c (fst mn3) (snd mn3) m n /\ Ech r (S i) (fst mn3).
  Proof.
    intros Hm Hn Hj Hp HE. cbv zeta.
    set (m1 := swap_rows i j m). set (n1 := swap_rows i j n).
    assert (Hm1 : wfm r r m1) by (apply swap_wf; [assumption|lia|lia]).
    assert (Hn1 : wfm r c n1) by (apply swap_wf; [assumption|lia|lia]).
    assert (Epiv : ent m1 i i = ent m j i).
    { unfold m1. rewrite (ent_swap r r) by (try assumption; lia). rewrite Nat.eqb_refl. reflexivity. }
    rewrite Epiv. set (a := ent m j i).
    assert (Ha : 0 < a < B).
    { pose proof (ent_wf r r m j i Hm) as W. unfold wfe in W. fold a in W. unfold a in *. lia. }
    assert (Hia : wfe (inv a)) by (apply inv_closed; exact Ha).
    set (m2 := scale_row i (inv a) m1). set (n2 := scale_row i (inv a) n1).
    assert (Hm2 : wfm r r m2) by (apply scale_wf; [assumption|lia|assumption]).
    assert (Hn2 : wfm r c n2) by (apply scale_wf; [assumption|lia|assumption]).
    destruct (eliminate_spec r c i (r - S i) (S i) m2 n2 Hm2 Hn2 ltac:(lia) ltac:(lia) ltac:(lia))
      as (W1 & W2 & Sq & E).
    split; [exact W1|]. split; [exact W2|]. split.
    { eapply sol_eq_trans; [exact Sq|]. eapply sol_eq_trans.
      - apply sol_eq_scale; [exact Hm1|exact Hn1|lia|exact Ha].
      - apply sol_eq_swap; [assumption|assumption|lia|lia]. }
    (* shape *)
    assert (E1 : forall t col, ent m1 t col =
               if Nat.eqb t i then ent m j col else if Nat.eqb t j then ent m i col else ent m t col).
    { intros t col. unfold m1. apply (ent_swap r r); [assumption|lia|lia]. }
    assert (E2 : forall t col, ent m2 t col = if Nat.eqb t i then mul (inv a) (ent m1 i col) else ent m1 t col).
    { intros t col. unfold m2. apply (ent_scale r r); [assumption|lia|assumption]. }
    assert (Z1 : forall t col, (col < i)%nat -> (i <= t < r)%nat -> ent m1 t col = 0).
    { intros t col Hc Ht. rewrite E1.
      destruct (Nat.eqb_spec t i) as [->|N1]; [apply (HE col j); lia|].
      destruct (Nat.eqb_spec t j) as [->|N2]; [apply (HE col i); lia|]. apply (HE col t); lia. }
    assert (F1 : forall col, (col < i)%nat -> ent m2 i col = 0).
    { intros col Hc. rewrite E2, Nat.eqb_refl, (Z1 i col) by lia. apply mul_0_r. exact Hia. }
    assert (F2 : ent m2 i i = 1).
    { rewrite E2, Nat.eqb_refl, Epiv. fold a. rewrite mul_comm by (try assumption; unfold wfe; lia).
      apply mul_inv. exact Ha. }
    intros col t Hc Ht. rewrite E.
    destruct (Nat.leb_spec (S i) t) as [L|L]; cbn [andb].
    - replace (Nat.ltb t (S i + (r - S i))) with true by (symmetry; apply Nat.ltb_lt; lia).
      split; [intros ->; lia|]. intros Hct.
      assert (Nti : Nat.eqb t i = false) by (apply Nat.eqb_neq; lia).
      destruct (Nat.eq_dec col i) as [->|Nc].
      + rewrite F2. apply lxor_self_mul1. apply (ent_wf r r). exact Hm2.
      + rewrite (F1 col) by lia. rewrite mul_0_r by (apply (ent_wf r r); exact Hm2).
        rewrite N.lxor_0_r, E2, Nti. apply Z1; lia.
    - destruct (Nat.eq_dec t i) as [->|Nti].
      + split.
        * intros <-. exact F2.
        * intros Hct. apply F1. exact Hct.
      + assert (Hti : (t < i)%nat) by lia.
        rewrite E2. replace (Nat.eqb t i) with false by (symmetry; apply Nat.eqb_neq; lia).
        rewrite E1. replace (Nat.eqb t i) with false by (symmetry; apply Nat.eqb_neq; lia).
        replace (Nat.eqb t j) with false by (symmetry; apply Nat.eqb_neq; lia).
        split; [intros Etc; apply (HE col t); lia|intros Hct; apply (HE col t); lia].
  Qed.

  Lemma echelon_spec r c : forall fuel i m n, wfm r r m -> wfm r c n -> (i + fuel = r)%nat -> Ech r i m ->
    match echelon r i fuel (m, n) with
    | Ok mn' => wfm r r (fst mn') /\ wfm r c (snd mn') /\ sol_eq r c (fst mn') (snd mn') m n /\ Ech r r (fst mn')
    | Err e => e = ESingular /\ exists i' m'' n'', (i <= i' < r)%nat /\ wfm r r m'' /\ wfm r c n'' /\
               sol_eq r c m'' n'' m n /\ Ech r i' m'' /\ (forall t, (i' <= t < r)%nat -> ent m'' t i' = 0)
    | Panic _ => False
    end.
  Proof.
    induction fuel as [|f IH]; intros i m n Hm Hn Hif HE.
    - cbn. assert (i = r) by lia. subst i. splits; try assumption. apply sol_eq_refl.
    - cbn [Matrix.echelon fst snd].
      pose proof (find_pivot_spec m i (r - i) i) as FP.
      destruct (find_pivot m i i (r - i)) as [j|].
      + destruct FP as [Hj Hp].
        destruct (echelon_step r c i m n j Hm Hn ltac:(lia) Hp HE) as (W1 & W2 & Sq & E').
        cbv zeta in W1, W2, Sq, E'.
        set (mn3 := Matrix.eliminate mul i (S i) (r - S i) _) in *.
        specialize (IH (S i) (fst mn3) (snd mn3) W1 W2 ltac:(lia) E').
        rewrite <- surjective_pairing in IH.
        destruct (echelon r (S i) f mn3) as [mn'|e|p].
        * destruct IH as (A1 & A2 & A3 & A4). splits; try assumption.
          eapply sol_eq_trans; eassumption.
        * destruct IH as (-> & i' & m'' & n'' & Q1 & Q2 & Q3 & Q4 & Q5 & Q6). split; [reflexivity|].
          exists i', m'', n''. splits; try assumption; try lia. eapply sol_eq_trans; eassumption.
        * exact IH.
      + split; [reflexivity|]. exists i, m, n. splits; try assumption; try lia.
        * apply sol_eq_refl.
        * intros t Ht. apply FP. lia.
  Qed.

  (** ** second pass *)
  Lemma reduce_above_spec r c : forall fuel i m n, wfm r r m -> wfm r c n -> (i + fuel = r)%nat ->
    Ech r r m -> Red i m ->
    let mn' := reduce_above i fuel (m, n) in
    wfm r r (fst mn') /\ wfm r c (snd mn') /\ sol_eq r c (fst mn') (snd mn') m n /\
    Ech r r (fst mn') /\ Red r (fst mn').
  Proof.
    induction fuel as [|f IH]; intros i m n Hm Hn Hif HE HR; cbv zeta.
    - cbn. assert (i = r) by lia. subst i. splits; try assumption. apply sol_eq_refl.
    - cbn [Matrix.reduce_above].
      destruct (eliminate_spec r c i i 0 m n Hm Hn ltac:(lia) ltac:(lia) ltac:(lia)) as (W1 & W2 & Sq & E).
      set (mn1 := Matrix.eliminate mul i 0 i (m, n)) in *.
      assert (Dii : ent m i i = 1) by (apply (HE i i); lia).
      assert (HE1 : Ech r r (fst mn1)).
      { intros col t Hc Ht. rewrite E. cbn [Nat.leb andb Nat.add].
        destruct (Nat.ltb_spec t i) as [Lt|Ge]; [|apply HE; assumption].
        split.
        - intros ->. assert (Z : ent m i col = 0) by (apply (HE col i); lia).
          rewrite Z, mul_0_r by (apply (ent_wf r r); exact Hm). rewrite N.lxor_0_r. apply (HE col col); lia.
        - intros Hct. assert (Z : ent m i col = 0) by (apply (HE col i); lia).
          rewrite Z, mul_0_r by (apply (ent_wf r r); exact Hm). rewrite N.lxor_0_r. apply (HE col t); lia. }
      assert (HR1 : Red (S i) (fst mn1)).
      { intros col t Hc Ht. rewrite E. cbn [Nat.leb andb Nat.add].
        destruct (Nat.ltb_spec t i) as [Lt|Ge].
        - destruct (Nat.eq_dec col i) as [->|Nc].
          + rewrite Dii. apply lxor_self_mul1. apply (ent_wf r r). exact Hm.
          + assert (Z : ent m i col = 0) by (apply (HE col i); lia).
            rewrite Z, mul_0_r by (apply (ent_wf r r); exact Hm). rewrite N.lxor_0_r. apply HR; lia.
        - apply HR; lia. }
      specialize (IH (S i) (fst mn1) (snd mn1) W1 W2 ltac:(lia) HE1 HR1). cbv zeta in IH.
      rewrite <- surjective_pairing in IH.
      destruct IH as (A1 & A2 & A3 & A4 & A5). splits; try assumption.
      eapply sol_eq_trans; eassumption.
  Qed.

  (** ** the identity matrix *)
  Notation identity := Matrix.identity.

  Lemma nth_map_seq {A} (f : nat -> A) d n t : (t < n)%nat -> nth t (map f (seq 0 n)) d = f t.
  Proof.
    intros H. rewrite (nth_indep _ d (f 0%nat)) by (rewrite map_length, seq_length; exact H).
    rewrite (map_nth f). rewrite seq_nth by exact H. reflexivity.
  Qed.

  Lemma identity_wf r : wfm r r (identity r).
  Proof.
    split; [unfold Matrix.identity; rewrite map_length, seq_length; reflexivity|].
    apply Forall_forall. intros v Hv. unfold Matrix.identity in Hv. apply in_map_iff in Hv.
    destruct Hv as [i [<- _]]. split; [rewrite map_length, seq_length; reflexivity|].
    apply Forall_forall. intros x Hx. apply in_map_iff in Hx. destruct Hx as [j [<- _]].
    destruct (Nat.eqb i j); [apply wfe1|apply wfe0].
  Qed.

  Lemma ent_identity r t col : (t < r)%nat -> (col < r)%nat ->
    ent (identity r) t col = if Nat.eqb t col then 1 else 0.
  Proof.
    intros Ht Hc. unfold Matrix.ent, Matrix.identity.
    rewrite (nth_map_seq (fun i => map (fun j => if Nat.eqb i j then 1 else 0) (seq 0 r)) [] r t Ht).
    apply (nth_map_seq (fun j => if Nat.eqb t j then 1 else 0)). exact Hc.
  Qed.

  Lemma matrix_ext r c m m' : wfm r c m -> wfm r c m' ->
    (forall t col, (t < r)%nat -> (col < c)%nat -> ent m t col = ent m' t col) -> m = m'.
  Proof.
    intros Hm Hm' H. pose proof Hm as [Hl _]. pose proof Hm' as [Hl' _].
    apply (list_ext []); [lia|]. intros t Ht.
    destruct (wfm_nth r c m t Hm ltac:(lia)) as [L1 _].
    destruct (wfm_nth r c m' t Hm' ltac:(lia)) as [L2 _].
    apply (list_ext 0); [lia|]. intros col Hc. apply H; lia.
  Qed.

  Lemma reduced_is_identity r m : wfm r r m -> Ech r r m -> Red r m -> m = identity r.
  Proof.
    intros Hm HE HR. apply (matrix_ext r r); [exact Hm|apply identity_wf|].
    intros t col Ht Hc. rewrite ent_identity by assumption.
    destruct (Nat.eqb_spec t col) as [->|Ne]; [apply (HE col col); lia|].
    destruct (Nat.lt_ge_cases t col) as [L|L]; [apply HR; assumption|apply (HE col t); lia].
  Qed.

  Lemma lincomb_delta0 c i : forall k s X, wfm k c X -> (i < s)%nat ->
    lincomb c (map (fun j => if Nat.eqb i j then 1 else 0) (seq s k)) X = zeros c.
  Proof.
    induction k as [|k IH]; intros s X HX His; [reflexivity|].
    destruct X as [|x X]; [destruct HX; discriminate|]. apply wfm_inv in HX. destruct HX as [Hx HX].
    cbn [seq map Matrix.lincomb]. replace (Nat.eqb i s) with false by (symmetry; apply Nat.eqb_neq; lia).
    rewrite (vscale_0 c) by exact Hx. rewrite (IH (S s) X HX) by lia.
    pose proof (vadd_self (zeros c)) as E.
    replace (length (zeros c)) with c in E by (symmetry; apply repeat_length). exact E.
  Qed.
  Lemma lincomb_delta c i : forall k s X, wfm k c X -> (s <= i < s + k)%nat ->
    lincomb c (map (fun j => if Nat.eqb i j then 1 else 0) (seq s k)) X = nth (i - s) X [].
  Proof.
    induction k as [|k IH]; intros s X HX Hi; [lia|].
    destruct X as [|x X]; [destruct HX; discriminate|]. apply wfm_inv in HX. destruct HX as [Hx HX].
    cbn [seq map Matrix.lincomb]. destruct (Nat.eqb_spec i s) as [->|Ne].
    - rewrite (vscale_1 c) by exact Hx. rewrite (lincomb_delta0 c s k (S s) X HX) by lia.
      rewrite Nat.sub_diag. cbn [nth]. destruct Hx as [Lx _]. rewrite <- Lx. apply vadd_zeros_r.
    - rewrite (vscale_0 c) by exact Hx. rewrite (IH (S s) X HX) by lia.
      replace (i - s)%nat with (S (i - S s)) by lia. cbn [nth].
      assert (Hw : wfv c (nth (i - S s) X [])) by (apply (wfm_nth k c); [exact HX|lia]).
      destruct Hw as [Lw _]. rewrite <- Lw. apply vadd_zeros_l.
  Qed.

  Lemma mmul_identity_l r c X : wfm r c X -> mmul c (identity r) X = X.
  Proof.
    intros HX. pose proof HX as [Hl _]. apply (list_ext []).
    - unfold Matrix.mmul, Matrix.identity. rewrite !map_length, seq_length. lia.
    - intros t Ht. unfold Matrix.mmul, Matrix.identity in Ht. rewrite !map_length, seq_length in Ht.
      rewrite mmul_nth by (unfold Matrix.identity; rewrite map_length, seq_length; exact Ht).
      unfold Matrix.identity.
      rewrite (nth_map_seq (fun i => map (fun j => if Nat.eqb i j then 1 else 0) (seq 0 r)) [] r t Ht).
      rewrite (lincomb_delta c t r 0 X HX) by lia. rewrite Nat.sub_0_r. reflexivity.
  Qed.

  (** ** rowReduceForInverse *)
  Notation row_reduce_pair := (Matrix.row_reduce_pair mul inv).

  Lemma Ech_0 r m : Ech r 0 m. Proof. intros col t H. lia. Qed.
  Lemma Red_0 m : Red 0 m. Proof. intros col t H. lia. Qed.

  Theorem row_reduce_pair_spec r c M Nn : wfm r r M -> wfm r c Nn ->
    match row_reduce_pair M Nn with
    | Ok mn' => fst mn' = identity r /\ wfm r c (snd mn') /\ mmul c M (snd mn') = Nn /\
                (forall X, wfm r c X -> mmul c M X = Nn -> X = snd mn')
    | Err e => e = ESingular /\ exists i' m'' n'', (i' < r)%nat /\ wfm r r m'' /\ wfm r c n'' /\
               sol_eq r c m'' n'' M Nn /\ Ech r i' m'' /\ (forall t, (i' <= t < r)%nat -> ent m'' t i' = 0)
    | Panic _ => False
    end.
  Proof.
    intros HM HN. unfold Matrix.row_reduce_pair. pose proof HM as [Hl _]. rewrite Hl.
    pose proof (echelon_spec r c r 0 M Nn HM HN ltac:(lia) (Ech_0 r M)) as E1.
    destruct (echelon r 0 r (M, Nn)) as [mn1|e|p]; cbn [obind].
    - destruct E1 as (W1 & W2 & S1 & HE).
      pose proof (reduce_above_spec r c r 0 (fst mn1) (snd mn1) W1 W2 ltac:(lia) HE (Red_0 _)) as E2.
      cbv zeta in E2. rewrite <- surjective_pairing in E2.
      destruct E2 as (V1 & V2 & S2 & HE2 & HR2).
      set (mn2 := reduce_above 0 r mn1) in *.
      assert (EI : fst mn2 = identity r) by (apply reduced_is_identity; assumption).
      assert (S : sol_eq r c (identity r) (snd mn2) M Nn).
      { rewrite <- EI. eapply sol_eq_trans; eassumption. }
      split; [exact EI|]. split; [exact V2|]. split.
      + apply (S (snd mn2) V2). apply mmul_identity_l. exact V2.
      + intros X HX EX. apply (S X HX) in EX. rewrite mmul_identity_l in EX by exact HX. exact EX.
    - destruct E1 as (-> & i' & m'' & n'' & Q1 & Q2 & Q3 & Q4 & Q5 & Q6). split; [reflexivity|].
      exists i', m'', n''. splits; try assumption; lia.
    - exact E1.
  Qed.

  (** ** the m-part of the reduction (hence the Ok/Err outcome) does not depend on n *)
  Lemma eliminate_fst i : forall cnt lo m n n',
    fst (Matrix.eliminate mul i lo cnt (m, n)) = fst (Matrix.eliminate mul i lo cnt (m, n')).
  Proof.
    induction cnt as [|cnt IH]; intros lo m n n'; [reflexivity|].
    cbn [Matrix.eliminate fst snd]. destruct (negb (ent m lo i =? 0)); apply IH.
  Qed.

  Definition same_fst (a b : outcome (matrix * matrix)) : Prop :=
    match a, b with
    | Ok x, Ok y => fst x = fst y
    | Err e, Err e' => e = e'
    | Panic p, Panic p' => p = p'
    | _, _ => False
    end.

  Lemma echelon_fst r : forall fuel i m n n', same_fst (echelon r i fuel (m, n)) (echelon r i fuel (m, n')).
  Proof.
    induction fuel as [|f IH]; intros i m n n'; [reflexivity|].
    cbn [Matrix.echelon fst snd]. destruct (find_pivot m i i (r - i)) as [j|]; [|reflexivity].
    set (p := inv _).
    pose proof (eliminate_fst i (r - S i) (S i) (scale_row i p (swap_rows i j m))
                  (scale_row i p (swap_rows i j n)) (scale_row i p (swap_rows i j n'))) as E.
    destruct (Matrix.eliminate mul i (S i) (r - S i) (scale_row i p (swap_rows i j m), scale_row i p (swap_rows i j n))) as [a b].
    destruct (Matrix.eliminate mul i (S i) (r - S i) (scale_row i p (swap_rows i j m), scale_row i p (swap_rows i j n'))) as [a' b'].
    cbn [fst] in E. subst a'. apply IH.
  Qed.

  Lemma row_reduce_outcome_indep m n n' :
    is_ok (row_reduce_pair m n) = is_ok (row_reduce_pair m n').
  Proof.
    unfold Matrix.row_reduce_pair. pose proof (echelon_fst (length m) (length m) 0 m n n') as E.
    destruct (echelon (length m) 0 (length m) (m, n)); destruct (echelon (length m) 0 (length m) (m, n'));
      cbn in *; try reflexivity; contradiction.
  Qed.

  (** ** entries of a product: the row-by-column form used by Matrix.Times *)
  Notation dot := (Matrix.dot mul).
  Notation column := Matrix.column.

  Lemma nth_zeros n col : nth col (zeros n) 0 = 0.
  Proof. unfold zeros. revert col. induction n as [|n IH]; intros [|col]; cbn; try reflexivity. apply IH. Qed.

  Lemma nth_lincomb c col : forall k v X, wfv k v -> wfm k c X ->
    nth col (lincomb c v X) 0 = dot v (column col X).
  Proof.
    induction k as [|k IH]; intros v X Hv HX.
    - rewrite (wfv_0 v Hv). cbn. apply nth_zeros.
    - destruct v as [|a v]; [destruct Hv; discriminate|]. destruct X as [|x X]; [destruct HX; discriminate|].
      apply wfv_inv in Hv. apply wfm_inv in HX. destruct Hv as [Ha Hv]. destruct HX as [Hx HX].
      cbn [Matrix.lincomb Matrix.column map Matrix.dot].
      rewrite nth_xorl.
      + rewrite nth_vscale by exact Ha. rewrite (IH v X Hv HX). reflexivity.
      + rewrite vscale_length. destruct Hx as [Lx _].
        destruct (lincomb_wf c k v X Hv HX) as [Ll _]. lia.
  Qed.

  Lemma dot_delta0 col : forall k s v, wfv k v -> (col < s)%nat ->
    dot v (map (fun i => if Nat.eqb i col then 1 else 0) (seq s k)) = 0.
  Proof.
    induction k as [|k IH]; intros s v Hv Hc.
    - rewrite (wfv_0 v Hv). reflexivity.
    - destruct v as [|a v]; [destruct Hv; discriminate|]. apply wfv_inv in Hv. destruct Hv as [Ha Hv].
      cbn [seq map Matrix.dot]. replace (Nat.eqb s col) with false by (symmetry; apply Nat.eqb_neq; lia).
      rewrite mul_0_r by exact Ha. rewrite (IH (S s) v Hv) by lia. reflexivity.
  Qed.
  Lemma dot_delta col : forall k s v, wfv k v -> (s <= col < s + k)%nat ->
    dot v (map (fun i => if Nat.eqb i col then 1 else 0) (seq s k)) = nth (col - s) v 0.
  Proof.
    induction k as [|k IH]; intros s v Hv Hc; [lia|].
    destruct v as [|a v]; [destruct Hv; discriminate|]. apply wfv_inv in Hv. destruct Hv as [Ha Hv].
    cbn [seq map Matrix.dot]. destruct (Nat.eqb_spec s col) as [->|Ne].
    - rewrite mul_1_r by exact Ha. rewrite (dot_delta0 col k (S col) v Hv) by lia.
      rewrite Nat.sub_diag, N.lxor_0_r. reflexivity.
    - rewrite mul_0_r by exact Ha. rewrite (IH (S s) v Hv) by lia. rewrite N.lxor_0_l.
      replace (col - s)%nat with (S (col - S s)) by lia. reflexivity.
  Qed.

  Lemma column_identity r col : (col < r)%nat ->
    column col (identity r) = map (fun i => if Nat.eqb i col then 1 else 0) (seq 0 r).
  Proof.
    intros Hc. unfold Matrix.column, Matrix.identity. rewrite map_map. apply map_ext. intros i.
    apply (nth_map_seq (fun j => if Nat.eqb i j then 1 else 0)). exact Hc.
  Qed.

  Lemma lincomb_identity_r r v : wfv r v -> lincomb r v (identity r) = v.
  Proof.
    intros Hv. apply (list_ext 0).
    - destruct (lincomb_wf r r v (identity r) Hv (identity_wf r)) as [L _]. destruct Hv as [L' _]. lia.
    - intros col Hc. destruct (lincomb_wf r r v (identity r) Hv (identity_wf r)) as [L _].
      rewrite (nth_lincomb r col r v (identity r) Hv (identity_wf r)).
      rewrite column_identity by lia. rewrite (dot_delta col r 0 v Hv) by lia.
      rewrite Nat.sub_0_r. reflexivity.
  Qed.

  Lemma mmul_identity_r r k M : wfm r k M -> mmul k M (identity k) = M.
  Proof.
    intros [Hl Hf]. unfold Matrix.mmul. rewrite <- (map_id M) at 2. apply map_ext_in. intros v Hv.
    apply lincomb_identity_r. eapply Forall_forall in Hf; eauto.
  Qed.

  (* Matrix.Times computes the same matrix as mmul *)
  Lemma Times_mmul r k c M X : wfm r k M -> wfm k c X -> Matrix.Times mul c M X = mmul c M X.
  Proof.
    intros [Hl Hf] HX. unfold Matrix.Times, Matrix.mmul. apply map_ext_in. intros v Hv.
    assert (Wv : wfv k v) by (eapply Forall_forall in Hf; eauto).
    apply (list_ext 0).
    - rewrite map_length, seq_length. destruct (lincomb_wf c k v X Wv HX) as [L _]. lia.
    - intros col Hc. rewrite map_length, seq_length in Hc.
      rewrite (nth_map_seq (fun j => dot v (column j X)) 0 c col Hc).
      symmetry. apply (nth_lincomb c col k); assumption.
  Qed.

  (** ** consequences *)

  (* a successful reduction means M X = N' has at most one solution for EVERY right-hand side N' *)
  Lemma ok_unique_any_rhs r c c' M Nn mn X X' :
    wfm r r M -> wfm r c Nn -> row_reduce_pair M Nn = Ok mn ->
    wfm r c' X -> wfm r c' X' -> mmul c' M X = mmul c' M X' -> X = X'.
  Proof.
    intros HM HN Hok HX HX' E.
    pose proof (row_reduce_outcome_indep M Nn (mmul c' M X)) as I. rewrite Hok in I. cbn in I.
    pose proof (row_reduce_pair_spec r c' M (mmul c' M X) HM (mmul_wf r r c' M X HM HX)) as S.
    destruct (row_reduce_pair M (mmul c' M X)) as [mn'|e|p]; try discriminate.
    destruct S as (_ & _ & _ & U). rewrite (U X HX eq_refl). symmetry. apply U; [exact HX'|]. symmetry. exact E.
  Qed.

  Notation Inverse := (Matrix.Inverse mul inv).
  Notation RowReduceForInverse := (Matrix.RowReduceForInverse mul inv).

  Lemma is_square_wf r M : wfm r r M -> Matrix.is_square M = true.
  Proof.
    intros [Hl Hf]. unfold Matrix.is_square. apply forallb_forall. intros v Hv.
    eapply Forall_forall in Hf; [|exact Hv]. destruct Hf as [Lv _]. apply Nat.eqb_eq. lia.
  Qed.

  Theorem RowReduceForInverse_spec r c M Nn : wfm r r M -> wfm r c Nn ->
    match RowReduceForInverse M Nn with
    | Ok N' => wfm r c N' /\ mmul c M N' = Nn /\ (forall X, wfm r c X -> mmul c M X = Nn -> X = N')
    | Err e => e = ESingular
    | Panic _ => False
    end.
  Proof.
    intros HM HN. unfold Matrix.RowReduceForInverse. rewrite (is_square_wf r M HM). cbn [negb].
    destruct HM as [Hl HF]. destruct HN as [Hl' HF']. rewrite Hl, Hl', Nat.eqb_refl. cbn [negb].
    pose proof (row_reduce_pair_spec r c M Nn (conj Hl HF) (conj Hl' HF')) as S.
    destruct (row_reduce_pair M Nn) as [mn|e|p]; cbn [obind].
    - destruct S as (_ & A & B' & C). splits; assumption.
    - apply S.
    - exact S.
  Qed.

  Theorem Inverse_spec r M : wfm r r M ->
    match Inverse M with
    | Ok M' => wfm r r M' /\ mmul r M M' = identity r /\ mmul r M' M = identity r
    | Err e => e = ESingular
    | Panic _ => False
    end.
  Proof.
    intros HM. unfold Matrix.Inverse. rewrite (is_square_wf r M HM). cbn [negb].
    pose proof HM as [Hl _]. rewrite Hl.
    pose proof (row_reduce_pair_spec r r M (identity r) HM (identity_wf r)) as S.
    destruct (row_reduce_pair M (identity r)) as [mn|e|p] eqn:Hok; cbn [obind].
    - destruct S as (_ & A & Bq & C). split; [exact A|]. split; [exact Bq|].
      (* M (M' M) = (M M') M = M = M I, and solutions are unique *)
      apply (ok_unique_any_rhs r r r M (identity r) mn); try assumption.
      + apply identity_wf.
      + apply (mmul_wf r r r); assumption.
      + apply identity_wf.
      + rewrite <- (mmul_assoc r r r r) by assumption. rewrite Bq.
        rewrite mmul_identity_l by exact HM.
        symmetry. apply (mmul_identity_r r r). exact HM.
    - apply S.
    - exact S.
  Qed.

  (** ** block decompositions of a linear combination *)
  Lemma lincomb_app c : forall a X b Y k2, length a = length X -> wfv k2 b -> wfm k2 c Y ->
    lincomb c (a ++ b) (X ++ Y) = vadd (lincomb c a X) (lincomb c b Y).
  Proof.
    induction a as [|x a IH]; intros X b Y k2 Hl Hb HY.
    - destruct X; [|discriminate]. cbn [app Matrix.lincomb].
      destruct (lincomb_wf c k2 b Y Hb HY) as [L _].
      pose proof (vadd_zeros_l (lincomb c b Y)) as E. rewrite L in E. symmetry. exact E.
    - destruct X as [|x0 X]; [discriminate|]. cbn [app Matrix.lincomb].
      rewrite (IH X b Y k2) by (try assumption; cbn in Hl; lia). symmetry. apply vadd_assoc.
  Qed.

  Lemma pick_some_wfv {A} k : forall (mask : list (option A)) v, length mask = k -> wfv k v ->
    wfv (length (somes mask)) (pick_some mask v).
  Proof.
    induction k as [|k IH]; intros mask v Hm Hv.
    - destruct mask; [|discriminate]. apply wfv_nil.
    - destruct mask as [|o mask]; [discriminate|]. destruct v as [|x v]; [destruct Hv; discriminate|].
      apply wfv_inv in Hv. destruct Hv as [Hx Hv]. cbn in Hm.
      destruct o; cbn; [apply wfv_cons; [exact Hx|]|]; apply IH; (lia || assumption).
  Qed.
  Lemma pick_none_wfv {A} k : forall (mask : list (option A)) v, length mask = k -> wfv k v ->
    wfv (count_none mask) (pick_none mask v).
  Proof.
    induction k as [|k IH]; intros mask v Hm Hv.
    - destruct mask; [|discriminate]. apply wfv_nil.
    - destruct mask as [|o mask]; [discriminate|]. destruct v as [|x v]; [destruct Hv; discriminate|].
      apply wfv_inv in Hv. destruct Hv as [Hx Hv]. cbn in Hm.
      destruct o; cbn; [|apply wfv_cons; [exact Hx|]]; apply IH; (lia || assumption).
  Qed.
  Lemma pick_some_wfm {A} k c : forall (mask : list (option A)) D, length mask = k -> wfm k c D ->
    wfm (length (somes mask)) c (pick_some mask D).
  Proof.
    induction k as [|k IH]; intros mask D Hm HD.
    - destruct mask; [|discriminate]. apply wfm_nil.
    - destruct mask as [|o mask]; [discriminate|]. destruct D as [|x D]; [destruct HD; discriminate|].
      apply wfm_inv in HD. destruct HD as [Hx HD]. cbn in Hm.
      destruct o; cbn; [apply wfm_cons; [exact Hx|]|]; apply IH; (lia || assumption).
  Qed.
  Lemma pick_none_wfm {A} k c : forall (mask : list (option A)) D, length mask = k -> wfm k c D ->
    wfm (count_none mask) c (pick_none mask D).
  Proof.
    induction k as [|k IH]; intros mask D Hm HD.
    - destruct mask; [|discriminate]. apply wfm_nil.
    - destruct mask as [|o mask]; [discriminate|]. destruct D as [|x D]; [destruct HD; discriminate|].
      apply wfm_inv in HD. destruct HD as [Hx HD]. cbn in Hm.
      destruct o; cbn; [|apply wfm_cons; [exact Hx|]]; apply IH; (lia || assumption).
  Qed.

  Lemma lincomb_split {A} c k : forall (mask : list (option A)) r D, length mask = k -> wfv k r -> wfm k c D ->
    lincomb c r D = vadd (lincomb c (pick_some mask r) (pick_some mask D))
                         (lincomb c (pick_none mask r) (pick_none mask D)).
  Proof.
    induction k as [|k IH]; intros mask r D Hm Hr HD.
    - destruct mask; [|discriminate]. rewrite (wfv_0 r Hr). cbn.
      pose proof (vadd_self (zeros c)) as E.
      replace (length (zeros c)) with c in E by (symmetry; apply repeat_length). symmetry. exact E.
    - destruct mask as [|o mask]; [discriminate|]. destruct r as [|a r]; [destruct Hr; discriminate|].
      destruct D as [|x D]; [destruct HD; discriminate|].
      apply wfv_inv in Hr. apply wfm_inv in HD. destruct Hr as [Ha Hr]. destruct HD as [Hx HD]. cbn in Hm.
      cbn [Matrix.lincomb]. rewrite (IH mask r D) by (try assumption; lia).
      destruct o; cbn [pick_some pick_none Matrix.lincomb].
      + symmetry. apply vadd_assoc.
      + rewrite <- !vadd_assoc. f_equal. apply vadd_comm.
  Qed.
End LinAlg.
